(* T4, last part: acknowledgement accounting.  While a section has not been decoded by an honest decoder its references
   are counted in the encoder's track_map (so its entries are in the table), and the encoder never evicts an entry the
   decoder has not received - for histories of encodes, deliveries, decodes and feedback deliveries (no cancellation). *)
From H3V Require Import Base.Bytes Base.BytesLemmas Gen.GenQpack Gen.GenStatic Model.Vas Model.DynTable Model.QInstr Model.QEncoder
  Model.QDecoder Model.QSystem Proofs.VasProofs Proofs.QPrefixProofs Proofs.AMapLemmas Proofs.DynTableProofs Proofs.QEncoderProofs
  Proofs.QSystemProofs Proofs.QSimulationProofs Proofs.QDenotationProofs Proofs.QAgreementProofs.
From Coq Require Import ZifyBool ZifyN ZifyNat.
Ltac Zify.zify_post_hook ::= Z.div_mod_to_equations.

(* ghost view of an emitted section: the references committed with it, and whether the encoder has released them *)
Record gsec := mkG { g_sec : section; g_rs : refs; g_popped : bool }.

Definition g_sid (x : gsec) : N := sec_sid (g_sec x).
Definition g_done (x : gsec) : bool := sec_done (g_sec x).

(* references still held, per absolute index *)
Fixpoint tot (a : N) (xs : list gsec) : N :=
  match xs with
  | [] => 0
  | x :: r => (if g_popped x then 0 else cnt a (g_rs x)) + tot a r
  end.

(* the not yet released sections of one stream, oldest first *)
Definition np (sid : N) (xs : list gsec) : list gsec :=
  filter (fun x => (g_sid x =? sid) && negb (g_popped x)) xs.
Definition qof (sid : N) (xs : list gsec) : list refs := map g_rs (np sid xs).

(* done sections come first *)
Fixpoint done_prefix (l : list gsec) : Prop :=
  match l with
  | [] => True
  | x :: r => (g_done x = true /\ done_prefix r) \/ Forall (fun y => g_done y = false) (x :: r)
  end.
Fixpoint ndone (l : list gsec) : N :=
  match l with [] => 0 | x :: r => (if g_done x then 1 else 0) + ndone r end.

Definition is_ack (sid : N) (i : dinstr) : bool := match i with DAck s => s =? sid | _ => false end.
Fixpoint nacks (sid : N) (l : list dinstr) : N :=
  match l with [] => 0 | i :: r => (if is_ack sid i then 1 else 0) + nacks sid r end.
Definition no_cancel (i : dinstr) : Prop := match i with DCancel _ => False | _ => True end.

Lemma nacks_app sid a b : nacks sid (a ++ b) = nacks sid a + nacks sid b.
Proof. induction a as [|i r IH]; cbn [app nacks]; [lia | rewrite IH; lia]. Qed.

Lemma tot_app a xs ys : tot a (xs ++ ys) = tot a xs + tot a ys.
Proof. induction xs as [|x r IH]; cbn [app tot]; [lia | rewrite IH; lia]. Qed.

Lemma np_app sid xs ys : np sid (xs ++ ys) = np sid xs ++ np sid ys.
Proof. unfold np. apply filter_app. Qed.

Lemma done_prefix_head l : done_prefix l -> 1 <= ndone l -> exists x r, l = x :: r /\ g_done x = true /\ done_prefix r.
Proof.
  destruct l as [|x r]; cbn [done_prefix ndone]; [lia|]. intros [[Hd Hp] | Hall] Hn.
  - exists x, r. auto.
  - exfalso. assert (K : forall l, Forall (fun y => g_done y = false) l -> ndone l = 0).
    { induction l as [|y l IH]; intros F; cbn [ndone]; [reflexivity|]. inversion F; subst. rewrite H1, IH by assumption. reflexivity. }
    pose proof (K _ Hall) as K0. cbn [ndone] in K0. lia.
Qed.

Lemma done_prefix_snoc l x : done_prefix l -> g_done x = false -> done_prefix (l ++ [x]).
Proof.
  induction l as [|y r IH]; intros Hp Hx; cbn [app done_prefix].
  - right. constructor; [assumption | constructor].
  - destruct Hp as [[Hd Hp] | Hall].
    + left. split; [assumption | apply IH; assumption].
    + right. change (y :: r ++ [x]) with ((y :: r) ++ [x]). apply Forall_app. split; [assumption | constructor; [assumption | constructor]].
Qed.

Lemma ndone_app a b : ndone (a ++ b) = ndone a + ndone b.
Proof. induction a as [|x r IH]; cbn [app ndone]; [lia | rewrite IH; lia]. Qed.

(* ---------------------------------------------------------------- giving back one block, exactly *)
Lemma cnt_adel_same r m : nodup_keys m -> cnt r (adel N.eqb r m) = 0.
Proof. intros H. unfold cnt. rewrite (aget_adel_same N.eqb Neqb_eq') by assumption. reflexivity. Qed.
Lemma cnt_adel_other r r' m : r' <> r -> cnt r' (adel N.eqb r m) = cnt r' m.
Proof. intros H. unfold cnt. rewrite (aget_adel_other N.eqb Neqb_eq') by assumption. reflexivity. Qed.
Lemma cnt_aset_same r c m : cnt r (aset N.eqb r c m) = c.
Proof. unfold cnt. rewrite (aget_aset_same N.eqb Neqb_eq'). reflexivity. Qed.
Lemma cnt_aset_other r r' c m : r' <> r -> cnt r' (aset N.eqb r c m) = cnt r' m.
Proof. intros H. unfold cnt. rewrite (aget_aset_other N.eqb Neqb_eq') by assumption. reflexivity. Qed.

Lemma cnt_cons_same r c rest : cnt r ((r, c) :: rest) = c.
Proof. unfold cnt. cbn [aget]. rewrite N.eqb_refl. reflexivity. Qed.
Lemma cnt_cons_other r r' c rest : r' <> r -> cnt r' ((r, c) :: rest) = cnt r' rest.
Proof. intros H. unfold cnt. cbn [aget]. destruct (r' =? r) eqn:E; [lia | reflexivity]. Qed.

Lemma dt_track_cancel_exact rs : forall tr,
  nodup_keys rs -> nodup_keys tr -> (forall a c, aget N.eqb a rs = Some c -> 0 < c) ->
  (forall a, cnt a rs <= cnt a tr) ->
  exists tr', dt_track_cancel rs tr = Ok tr' /\ nodup_keys tr' /\ forall a, cnt a tr' = cnt a tr - cnt a rs.
Proof.
  induction rs as [|[r c] rest IH]; intros tr Hn Hnt Hpos Hle; cbn [dt_track_cancel].
  - exists tr. split; [reflexivity|]. split; [assumption|]. intros a. unfold cnt at 3. cbn [aget]. lia.
  - unfold nodup_keys in Hn. cbn [keys map fst] in Hn. inversion Hn as [|? ? Hnotin Hn']; subst.
    assert (Hc : 0 < c) by (apply (Hpos r c); cbn [aget]; rewrite N.eqb_refl; reflexivity).
    assert (Hr0 : cnt r rest = 0).
    { unfold cnt. destruct (aget N.eqb r rest) as [c'|] eqn:E; [|reflexivity]. exfalso. apply Hnotin.
      apply (aget_In N.eqb Neqb_eq') in E. change (In (fst (r, c')) (map fst rest)). apply in_map. assumption. }
    pose proof (Hle r) as Hler. rewrite cnt_cons_same in Hler.
    unfold cnt in Hler. destruct (aget N.eqb r tr) as [have|] eqn:Eh; [|lia].
    destruct (have <? c) eqn:E1; [lia|].
    assert (Hpos' : forall a c0, aget N.eqb a rest = Some c0 -> 0 < c0).
    { intros a c0 Ha. apply (Hpos a c0). cbn [aget]. destruct (a =? r) eqn:E; [|assumption].
      exfalso. apply N.eqb_eq in E. subst a. apply Hnotin. apply (aget_In N.eqb Neqb_eq') in Ha.
      change (In (fst (r, c0)) (map fst rest)). apply in_map. assumption. }
    destruct (have =? c) eqn:E2.
    + destruct (IH (adel N.eqb r tr)) as (tr' & Et & Hnd & Hcnt); try assumption.
      * apply (nodup_adel N.eqb). assumption.
      * intros a. destruct (N.eq_dec a r) as [->|Hne]; [rewrite Hr0; lia|].
        rewrite cnt_adel_other by assumption. specialize (Hle a). rewrite cnt_cons_other in Hle by assumption. assumption.
      * exists tr'. split; [assumption|]. split; [assumption|]. intros a. rewrite Hcnt.
        destruct (N.eq_dec a r) as [->|Hne].
        -- rewrite cnt_adel_same by assumption. rewrite cnt_cons_same. unfold cnt at 2. rewrite Eh. lia.
        -- rewrite cnt_adel_other, cnt_cons_other by assumption. reflexivity.
    + destruct (IH (aset N.eqb r (have - c) tr)) as (tr' & Et & Hnd & Hcnt); try assumption.
      * apply (nodup_aset N.eqb Neqb_eq'). assumption.
      * intros a. destruct (N.eq_dec a r) as [->|Hne]; [rewrite Hr0; lia|].
        rewrite cnt_aset_other by assumption. specialize (Hle a). rewrite cnt_cons_other in Hle by assumption. assumption.
      * exists tr'. split; [assumption|]. split; [assumption|]. intros a. rewrite Hcnt.
        destruct (N.eq_dec a r) as [->|Hne].
        -- rewrite cnt_aset_same, cnt_cons_same, Hr0. unfold cnt. rewrite Eh. lia.
        -- rewrite cnt_aset_other, cnt_cons_other by assumption. reflexivity.
Qed.

(* ---------------------------------------------------------------- the encoder-side accounting invariant *)
Record enc_acct (t : dt) (xs : list gsec) : Prop := mk_enc_acct {
  ea_tot : forall a, cnt a (dt_track t) = tot a xs;
  ea_blocks_nd : nodup_keys (dt_blocks t);
  ea_blocks : forall sid, aget N.eqb sid (dt_blocks t) = match qof sid xs with [] => None | q => Some q end;
  ea_rs : forall x, In x xs -> nodup_keys (g_rs x) /\ (forall a c, aget N.eqb a (g_rs x) = Some c -> 0 < c);
  ea_pd : forall x, In x xs -> g_popped x = true -> g_done x = true;
  ea_dp : forall sid, done_prefix (np sid xs)
}.

Definition acks_ok (xs : list gsec) (dq : list dinstr) : Prop := forall sid, nacks sid dq <= ndone (np sid xs).

Definition secrs (xs : list gsec) : list (section * refs) := map (fun x => (g_sec x, g_rs x)) xs.

(* release the oldest unreleased section of a stream *)
Fixpoint pop_first (sid : N) (xs : list gsec) : list gsec :=
  match xs with
  | [] => []
  | x :: r => if (g_sid x =? sid) && negb (g_popped x) then mkG (g_sec x) (g_rs x) true :: r else x :: pop_first sid r
  end.

Lemma pop_first_secrs sid xs : secrs (pop_first sid xs) = secrs xs.
Proof.
  induction xs as [|x r IH]; cbn [pop_first]; [reflexivity|].
  destruct ((g_sid x =? sid) && negb (g_popped x)); cbn [secrs map g_sec g_rs]; [reflexivity|]. unfold secrs in IH. rewrite IH. reflexivity.
Qed.

Lemma pop_first_np_same sid xs : np sid (pop_first sid xs) = tl (np sid xs).
Proof.
  induction xs as [|x r IH]; cbn [pop_first np filter]; [reflexivity|].
  destruct ((g_sid x =? sid) && negb (g_popped x)) eqn:E.
  - cbn [np filter g_sid g_sec g_popped negb andb tl]. unfold g_sid in E. cbn [g_sec]. rewrite andb_false_r. reflexivity.
  - cbn [np filter]. rewrite E. exact IH.
Qed.

Lemma pop_first_np_other sid sid' xs : sid' <> sid -> np sid' (pop_first sid xs) = np sid' xs.
Proof.
  intros Hne. induction xs as [|x r IH]; cbn [pop_first np filter]; [reflexivity|].
  destruct ((g_sid x =? sid) && negb (g_popped x)) eqn:E.
  - apply andb_true_iff in E. destruct E as [E1 E2]. apply N.eqb_eq in E1.
    cbn [np filter]. unfold g_sid in *. cbn [g_sec g_popped]. rewrite E1.
    destruct (sid =? sid') eqn:E3; [apply N.eqb_eq in E3; congruence|]. reflexivity.
  - cbn [np filter]. unfold np in IH. rewrite IH. reflexivity.
Qed.

Lemma pop_first_tot sid xs x rest a : np sid xs = x :: rest -> tot a (pop_first sid xs) + cnt a (g_rs x) = tot a xs.
Proof.
  induction xs as [|y r IH]; cbn [pop_first np filter tot]; [discriminate|].
  destruct ((g_sid y =? sid) && negb (g_popped y)) eqn:E.
  - intros H. inversion H; subst. apply andb_true_iff in E. destruct E as [_ E2]. destruct (g_popped x); [discriminate|].
    cbn [tot g_popped g_rs]. lia.
  - intros H. cbn [tot]. specialize (IH H). lia.
Qed.

Lemma np_In sid xs x : In x (np sid xs) -> In x xs /\ g_sid x = sid /\ g_popped x = false.
Proof.
  unfold np. intros H. apply filter_In in H. destruct H as [H1 H2]. apply andb_true_iff in H2. destruct H2 as [A B].
  apply N.eqb_eq in A. destruct (g_popped x); [discriminate|]. auto.
Qed.

Lemma pop_first_In sid xs y : In y (pop_first sid xs) ->
  In y xs \/ (exists x, In x xs /\ hd_error (np sid xs) = Some x /\ y = mkG (g_sec x) (g_rs x) true).
Proof.
  induction xs as [|x r IH]; cbn [pop_first]; [intros []|].
  destruct ((g_sid x =? sid) && negb (g_popped x)) eqn:E; cbn [In np filter]; rewrite ?E.
  - intros [<- | H]; [right; exists x; cbn [hd_error]; auto | left; auto].
  - intros [<- | H]; [left; auto|]. destruct (IH H) as [K | (z & K1 & K2 & K3)]; [left; auto | right; exists z; auto].
Qed.

Lemma tot_ge a xs x : In x xs -> g_popped x = false -> cnt a (g_rs x) <= tot a xs.
Proof.
  induction xs as [|y r IH]; [intros []|]. intros [<- | H] Hp; cbn [tot].
  - rewrite Hp. lia.
  - specialize (IH H Hp). lia.
Qed.

(* one acknowledgement *)
Lemma untrack_acct t xs sid x rest :
  dt_ok t -> enc_acct t xs -> np sid xs = x :: rest -> g_done x = true ->
  exists t', dt_untrack_block t sid = Ok t' /\ enc_acct t' (pop_first sid xs).
Proof.
  intros Hok A Hnp Hdone. pose proof A as A0. destruct A as [Atot And Abl Ars Apd Adp].
  unfold dt_untrack_block. rewrite (Abl sid). unfold qof. rewrite Hnp. cbn [map].
  destruct (np_In sid xs x) as (Hin & Hsid & Hpop); [rewrite Hnp; left; reflexivity|].
  destruct (Ars x Hin) as [Hnd Hpos].
  assert (Hle : forall a, cnt a (g_rs x) <= cnt a (dt_track t)) by (intros a; rewrite Atot; apply tot_ge; assumption).
  assert (Hfin : forall t1, dt_track t1 = dt_track t ->
            (forall s0, aget N.eqb s0 (dt_blocks t1) = match qof s0 (pop_first sid xs) with [] => None | q => Some q end) ->
            nodup_keys (dt_blocks t1) ->
            exists t', match dt_track_cancel (g_rs x) (dt_track t1) with Ok tr => Ok (with_track t1 tr) | Err e => Err e | Panic s => Panic s end = Ok t' /\
                       enc_acct t' (pop_first sid xs)).
  { intros t1 Ht Hb Hbn. rewrite Ht.
    destruct (dt_track_cancel_exact (g_rs x) (dt_track t) Hnd (ok_track_nd t Hok) Hpos Hle) as (tr' & Et & Hnd' & Hcnt).
    rewrite Et. eexists. split; [reflexivity|]. constructor; cbn [with_track dt_track dt_blocks].
    - intros a. rewrite Hcnt, Atot. pose proof (pop_first_tot sid xs x rest a Hnp). lia.
    - assumption.
    - assumption.
    - intros y Hy. destruct (pop_first_In _ _ _ Hy) as [K | (z & K1 & K2 & ->)]; [auto | cbn [g_rs]; auto].
    - intros y Hy Hp. destruct (pop_first_In _ _ _ Hy) as [K | (z & K1 & K2 & ->)]; [auto|].
      rewrite Hnp in K2. cbn [hd_error] in K2. inversion K2; subst z. exact Hdone.
    - intros s0. destruct (N.eq_dec s0 sid) as [->|Hne].
      + rewrite pop_first_np_same, Hnp. cbn [tl]. specialize (Adp sid). rewrite Hnp in Adp. cbn [done_prefix] in Adp.
        destruct Adp as [[_ K] | K]; [assumption|]. inversion K; subst.
        clear - H2. induction rest as [|y r IH]; cbn [done_prefix]; [exact I|]. right. assumption.
      + rewrite pop_first_np_other by assumption. apply Adp. }
  assert (Hother : forall bl s0, s0 <> sid -> aget N.eqb s0 bl = aget N.eqb s0 (dt_blocks t) ->
             aget N.eqb s0 bl = match qof s0 (pop_first sid xs) with [] => None | q => Some q end).
  { intros bl s0 Hne E. rewrite E, (Abl s0). unfold qof. rewrite pop_first_np_other by assumption. reflexivity. }
  destruct rest as [|x2 rest2]; cbn [map].
  - apply Hfin; [reflexivity | | apply (nodup_adel N.eqb); assumption].
    intros s0. cbn [with_blocks dt_blocks]. destruct (N.eq_dec s0 sid) as [->|Hne].
    + rewrite (aget_adel_same N.eqb Neqb_eq') by assumption. unfold qof. rewrite pop_first_np_same, Hnp. reflexivity.
    + apply Hother; [assumption|]. apply (aget_adel_other N.eqb Neqb_eq'). assumption.
  - apply Hfin; [reflexivity | | apply (nodup_aset N.eqb Neqb_eq'); assumption].
    intros s0. cbn [with_blocks dt_blocks]. destruct (N.eq_dec s0 sid) as [->|Hne].
    + rewrite (aget_aset_same N.eqb Neqb_eq'). unfold qof. rewrite pop_first_np_same, Hnp. reflexivity.
    + apply Hother; [assumption|]. apply (aget_aset_other N.eqb Neqb_eq'). assumption.
Qed.

Lemma untrack_unknown t xs sid : enc_acct t xs -> np sid xs = [] -> dt_untrack_block t sid = Err (EUnknownStreamId sid).
Proof.
  intros A Hnp. unfold dt_untrack_block. rewrite (ea_blocks _ _ A sid). unfold qof. rewrite Hnp. reflexivity.
Qed.

(* increments do not touch the accounting *)
Lemma update_lr_acct t n t' xs : enc_acct t xs -> dt_update_largest_received t n = Ok t' -> enc_acct t' xs.
Proof.
  intros A. unfold dt_update_largest_received. destruct (dt_bcount t =? 0).
  - intros H; inversion H; subst. destruct A. constructor; assumption.
  - match goal with |- context [if ?c then _ else _] => destruct c end; [discriminate|].
    intros H; inversion H; subst. destruct A. constructor; assumption.
Qed.

Lemma ndone_tl l : ndone (tl l) <= ndone l.
Proof. destruct l as [|x r]; cbn [tl ndone]; lia. Qed.

(* a batch of decoder-stream instructions (acknowledgements and increments) *)
Lemma feedback_acct is : forall t xs later,
  dt_ok t -> enc_acct t xs -> acks_ok xs (is ++ later) -> Forall no_cancel is ->
  exists xs', enc_acct (fst (enc_on_decoder_recv t is)) xs' /\ acks_ok xs' later /\ secrs xs' = secrs xs.
Proof.
  induction is as [|i r IH]; intros t xs later Hok A Hacks Hnc; cbn [enc_on_decoder_recv].
  - exists xs. cbn [fst]. auto.
  - inversion Hnc as [|? ? Hi Hr]; subst.
    assert (Hdrop : forall xs0, acks_ok xs0 ((i :: r) ++ later) -> acks_ok xs0 later).
    { intros xs0 K sid. specialize (K sid). cbn [app nacks] in K. rewrite nacks_app in K. lia. }
    destruct i as [sid|sid|n]; [| contradiction |].
    + destruct (np sid xs) as [|x rest] eqn:Hnp.
      * rewrite (untrack_unknown t xs sid A Hnp). cbn [fst]. exists xs. auto.
      * pose proof (Hacks sid) as Hs. cbn [app nacks is_ack] in Hs. rewrite N.eqb_refl in Hs.
        destruct (done_prefix_head (np sid xs) (ea_dp _ _ A sid)) as (x' & r' & E & Hd & _); [lia|].
        rewrite Hnp in E. inversion E; subst x' r'.
        destruct (untrack_acct t xs sid x rest Hok A Hnp Hd) as (t' & Et & A').
        rewrite Et. destruct (IH t' (pop_first sid xs) later) as (xs' & B1 & B2 & B3); try assumption.
        -- eapply dt_untrack_block_ok; eassumption.
        -- intros s0. specialize (Hacks s0). cbn [app nacks is_ack] in Hacks. destruct (N.eq_dec s0 sid) as [->|Hne].
           ++ rewrite N.eqb_refl in Hacks. rewrite pop_first_np_same, Hnp. cbn [tl]. rewrite Hnp in Hacks. cbn [ndone] in Hacks.
              rewrite Hd in Hacks. lia.
           ++ destruct (sid =? s0) eqn:E0; [apply N.eqb_eq in E0; congruence|]. rewrite pop_first_np_other by assumption. lia.
        -- exists xs'. split; [assumption|]. split; [assumption|]. rewrite B3. apply pop_first_secrs.
    + destruct (q_increment_limit <? n); cbn [fst]; [exists xs; auto|].
      destruct (dt_update_largest_received t n) as [t1| |] eqn:E; cbn [fst]; [|exists xs; auto|exists xs; auto].
      apply IH; try assumption.
      * eapply dt_update_largest_received_ok; eassumption.
      * eapply update_lr_acct; eassumption.
Qed.

(* ---------------------------------------------------------------- sys_inv, step by step, with the ghost list exposed *)
Lemma sys_step_inv_same cap H G s o :
  sys_inv cap H G s -> match o with OEncode _ _ | OResize _ => False | _ => True end ->
  sys_inv cap H G (fst (sys_step s o)).
Proof.
  intros I Ho. destruct o as [sid fs|k|j honest|k|sid|n]; try contradiction.
  - destruct (sys_step_inv cap H G s (ODeliver k) I eq_refl) as (H' & G' & I' & _). cbn [sys_step] in *.
    destruct I as [He Hd Hu Hh Hc (d' & Ea & Hd' & Hu' & Hs') Hnosu Hsecs].
    rewrite <- (firstn_skipn (N.to_nat k) (s_eq s)) in Ea. apply dec_apply_split in Ea. destruct Ea as (d1 & E1 & E2).
    destruct (dec_apply_ok (firstn (N.to_nat k) (s_eq s)) (s_dec s) Hd Hu) as [Hd1 Hu1]. rewrite E1 in Hd1, Hu1. cbn [fst] in Hd1, Hu1.
    assert (K : forall res, sys_inv cap H G (mkSys (s_enc s) d1 (skipn (N.to_nat k) (s_eq s)) res (s_secs s))).
    { intros res. constructor; cbn [s_enc s_dec s_eq s_secs]; try assumption; [exists d'; auto|].
      rewrite <- (firstn_skipn (N.to_nat k) (s_eq s)) in Hnosu. apply Forall_app in Hnosu. tauto. }
    unfold dec_on_encoder_recv. rewrite E1.
    destruct (dt_total_inserted d1 =? dt_total_inserted (s_dec s)); cbn [fst]; [apply K|].
    destruct (dt_total_inserted d1 <? dt_total_inserted (s_dec s)); cbn [fst]; [apply K|].
    destruct (255 <? dt_total_inserted d1 - dt_total_inserted (s_dec s)); cbn [fst]; apply K.
  - pose proof I as I0. destruct I as [He Hd Hu Hh Hc (d' & Ea & Hd' & Hu' & Hs') Hnosu Hsecs]. cbn [sys_step].
    destruct (nth_opt (s_secs s) j) as [sec|]; cbn [fst]; [|assumption].
    destruct (honest && sec_done sec); cbn [fst]; [assumption|].
    destruct (honest && earlier_pending (s_secs s) j (sec_sid sec)); cbn [fst]; [assumption|].
    destruct (dec_decode_header (s_dec s) (sec_block sec)) as [[fs dr]| |]; cbn [fst]; try assumption.
    destruct honest; cbn [fst]; [|assumption].
    constructor; cbn [s_enc s_dec s_eq s_secs]; try assumption; [exists d'; auto | apply mark_done_secs; assumption].
  - pose proof I as I0. destruct I as [He Hd Hu Hh Hc (d' & Ea & Hd' & Hu' & Hs') Hnosu Hsecs]. cbn [sys_step].
    pose proof (enc_on_decoder_recv_ok (firstn (N.to_nat k) (s_dq s)) (s_enc s) He) as Hok'.
    pose proof (enc_on_decoder_recv_store (firstn (N.to_nat k) (s_dq s)) (s_enc s)) as St.
    destruct (enc_on_decoder_recv (s_enc s) (firstn (N.to_nat k) (s_dq s))) as [t [u| |]]; cbn [fst] in *;
      (constructor; cbn [s_enc s_dec s_eq s_secs]; try assumption;
       [eapply hist_same_store; eassumption | destruct St as (_ & B & _); congruence |
        exists d'; repeat (split; [assumption|]); eapply same_store_eq; eassumption]).
  - pose proof I as I0. destruct I as [He Hd Hu Hh Hc (d' & Ea & Hd' & Hu' & Hs') Hnosu Hsecs]. cbn [sys_step fst].
    constructor; cbn [s_enc s_dec s_eq s_secs]; try assumption; [exists d'; auto | apply cancel_stream_secs; assumption].
Qed.

Lemma sys_encode_inv cap H G s sid fs :
  sys_inv cap H G s ->
  exists t' e H' rs,
    enc_encode (s_enc s) sid fs = (t', Ok e) /\ (exists x, H' = H ++ x) /\
    sys_inv cap H' (G ++ [rs]) (fst (sys_step s (OEncode sid fs))) /\
    nodup_keys rs /\ (forall a c, aget N.eqb a rs = Some c -> 0 < c) /\
    (forall a, cnt a (dt_track t') = cnt a (dt_track (s_enc s)) + cnt a rs) /\
    dt_blocks t' = dt_blocks (dt_track_block (s_enc s) sid rs) /\
    (forall a, v_inserted (dt_vas (s_enc s)) < a -> a <= v_inserted (dt_vas t') -> 0 < cnt a rs /\ a <= en_required e) /\
    v_inserted (dt_vas (s_enc s)) <= v_inserted (dt_vas t').
Proof.
  intros I. destruct I as [He Hd Hu Hh Hc (d' & Ea & Hd' & Hu' & Hs') Hnosu Hsecs].
  destruct (enc_encode_spec (s_enc s) sid fs H d' He Hh Hd' Hu' Hs') as
    (t' & e & H' & d'' & Ee & (x & Hx) & Hok' & Hh' & Hm' & Ea' & Hd'' & Hu'' & Hs'' & (rs & Hden & R1 & R2 & R3 & R4 & _ & _ & R7)).
  exists t', e, H', rs. split; [assumption|]. split; [exists x; assumption|]. cbn [sys_step]. rewrite Ee. cbn [fst].
  split.
  - constructor; cbn [s_enc s_dec s_eq s_secs]; try assumption.
    + congruence.
    + exists d''. rewrite dec_apply_app, Ea. auto.
    + apply Forall_app. split; [assumption | eapply enc_encode_no_su; eassumption].
    + apply Forall2_app.
      * subst H'. eapply Forall2_impl; [|eassumption]. intros sec r0 Hs0. apply sec_den_app. assumption.
      * constructor; [|constructor]. unfold sec_ok; cbn [sec_required sec_block sec_fields]. rewrite <- Hc. assumption.
  - repeat (split; [assumption|]).
    destruct Hh as [L1 _], Hh' as [L2 _]. rewrite L1, L2. subst H'. rewrite app_length. lia.
Qed.

(* ---------------------------------------------------------------- list surgery for "section j becomes done" *)
Lemma nth_opt_split_sec : forall (l : list section) j x sid,
  nth_opt l j = Some x ->
  exists l1 l2, l = l1 ++ x :: l2 /\ mark_done l j = l1 ++ sec_set_done x :: l2 /\
    (earlier_pending l j sid = false -> forall y, In y l1 -> sec_sid y = sid -> sec_done y = true).
Proof.
  induction l as [|y l IH]; intros j x sid; cbn [nth_opt mark_done earlier_pending]; [discriminate|].
  destruct (j =? 0) eqn:E.
  - intros H; inversion H; subst. exists [], l. repeat split. intros _ z [].
  - intros H. destruct (IH (j - 1) x sid H) as (l1 & l2 & E1 & E2 & E3).
    exists (y :: l1), l2. cbn [app]. rewrite E1 at 1. rewrite E2. repeat split.
    intros Hep z [<- | Hz] Hs.
    + apply orb_false_iff in Hep. destruct Hep as [Hep _]. rewrite Hs, N.eqb_refl in Hep. cbn [andb] in Hep.
      destruct (sec_done y); [reflexivity | discriminate].
    + apply orb_false_iff in Hep. destruct Hep as [_ Hep]. apply E3; assumption.
Qed.

Lemma map_split {A B} (f : A -> B) : forall xs l1 y l2, map f xs = l1 ++ y :: l2 ->
  exists xs1 x xs2, xs = xs1 ++ x :: xs2 /\ map f xs1 = l1 /\ f x = y /\ map f xs2 = l2.
Proof.
  induction xs as [|x xs IH]; intros l1 y l2 H; [destruct l1; discriminate|].
  destruct l1 as [|z l1]; cbn [map app] in H; inversion H; subst.
  - exists [], x, xs. auto.
  - destruct (IH _ _ _ H2) as (xs1 & x' & xs2 & E1 & E2 & E3 & E4). exists (x :: xs1), x', xs2. subst. auto.
Qed.

Lemma dp_all_notdone l : Forall (fun y => g_done y = false) l -> done_prefix l.
Proof. destruct l; cbn [done_prefix]; auto. Qed.

Lemma dp_tail x l : done_prefix (x :: l) -> done_prefix l.
Proof. cbn [done_prefix]. intros [[_ H] | H]; [assumption|]. inversion H; subst. apply dp_all_notdone. assumption. Qed.

Lemma dp_app_done a b : Forall (fun y => g_done y = true) a -> (done_prefix (a ++ b) <-> done_prefix b).
Proof.
  induction a as [|x a IH]; intros F; cbn [app]; [tauto|]. inversion F; subst. cbn [done_prefix]. split.
  - intros [[_ H] | H]; [apply IH; assumption|]. inversion H; subst. congruence.
  - intros H. left. split; [assumption | apply IH; assumption].
Qed.

Lemma ndone_all_done_app a b : ndone (a ++ b) = ndone a + ndone b.
Proof. apply ndone_app. Qed.

Definition g_set_done (x : gsec) : gsec := mkG (sec_set_done (g_sec x)) (g_rs x) (g_popped x).

Lemma np_cons sid x r : np sid (x :: r) = (if (g_sid x =? sid) && negb (g_popped x) then [x] else []) ++ np sid r.
Proof. cbn [np filter]. destruct ((g_sid x =? sid) && negb (g_popped x)); reflexivity. Qed.

Lemma np_all_done sid l : (forall y, In y l -> g_sid y = sid -> g_done y = true) -> Forall (fun y => g_done y = true) (np sid l).
Proof.
  intros H. apply Forall_forall. intros y Hy. apply np_In in Hy. destruct Hy as (A & B & _). auto.
Qed.

Lemma tot_set_done a xs1 x xs2 : tot a (xs1 ++ g_set_done x :: xs2) = tot a (xs1 ++ x :: xs2).
Proof. rewrite !tot_app. cbn [tot g_set_done g_popped g_rs]. reflexivity. Qed.

Lemma qof_set_done sid xs1 x xs2 : qof sid (xs1 ++ g_set_done x :: xs2) = qof sid (xs1 ++ x :: xs2).
Proof.
  unfold qof. rewrite !np_app, !np_cons, !map_app. f_equal. f_equal.
  unfold g_set_done, g_sid; cbn [g_sec g_popped sec_set_done sec_sid].
  destruct ((sec_sid (g_sec x) =? sid) && negb (g_popped x)); reflexivity.
Qed.

(* ---------------------------------------------------------------- the full invariant *)
Record full_inv (cap : N) (H : list field) (xs : list gsec) (s : sys) : Prop := mk_full_inv {
  fi_sys : sys_inv cap H (map g_rs xs) s;
  fi_secs : s_secs s = map g_sec xs;
  fi_acct : enc_acct (s_enc s) xs;
  fi_acks : acks_ok xs (s_dq s);
  fi_nc : Forall no_cancel (s_dq s);
  fi_oi : forall a, v_inserted (dt_vas (s_dec s)) < a -> a <= v_inserted (dt_vas (s_enc s)) ->
            exists x, In x xs /\ g_done x = false /\ 0 < cnt a (g_rs x) /\ a <= sec_required (g_sec x);
  fi_done : forall x, In x xs -> g_done x = true -> sec_required (g_sec x) <= v_inserted (dt_vas (s_dec s))
}.

(* a section whose references are still held has its entries in the encoder's table *)
Lemma held_live t xs x a : dt_ok t -> enc_acct t xs -> In x xs -> g_popped x = false -> 0 < cnt a (g_rs x) -> vas_live (dt_vas t) a.
Proof.
  intros Hok A Hin Hp Hc. apply cnt_pos_live; [assumption|]. rewrite (ea_tot _ _ A). pose proof (tot_ge a xs x Hin Hp). lia.
Qed.

Lemma not_done_not_popped t xs x : enc_acct t xs -> In x xs -> g_done x = false -> g_popped x = false.
Proof.
  intros A Hin Hd. destruct (g_popped x) eqn:E; [|reflexivity]. rewrite (ea_pd _ _ A x Hin E) in Hd. discriminate.
Qed.

(* the encoder has not evicted anything the decoder has not received *)
Lemma full_inv_oi cap H xs s : full_inv cap H xs s -> v_dropped (dt_vas (s_enc s)) <= v_inserted (dt_vas (s_dec s)).
Proof.
  intros F. destruct (N.le_gt_cases (v_dropped (dt_vas (s_enc s))) (v_inserted (dt_vas (s_dec s)))) as [|Hgt]; [assumption|].
  exfalso. pose proof (si_enc _ _ _ _ (fi_sys _ _ _ _ F)) as He. pose proof (ok_vas _ He) as Hv. unfold vas_inv in Hv.
  destruct (fi_oi _ _ _ _ F (v_inserted (dt_vas (s_dec s)) + 1)) as (x & Hin & Hd & Hc & _); [lia | lia|].
  pose proof (not_done_not_popped _ _ _ (fi_acct _ _ _ _ F) Hin Hd) as Hp.
  pose proof (held_live _ _ _ _ He (fi_acct _ _ _ _ F) Hin Hp Hc) as Hl. unfold vas_live in Hl. lia.
Qed.

(* the indices read off a section's wire form are keys of its committed block *)
Lemma sec_indices_cnt H cap sec rs a :
  sec_ok H cap sec rs -> N.of_nat (length H) < 2 ^ 62 -> cap < 2 ^ 62 -> In a (sec_indices cap sec) -> 0 < cnt a rs.
Proof.
  intros (base & total & Hnew & Hrt & Htot & Hbt & Hcap32 & F2 & Hidx & Hreq) Hlim Hcl Hin.
  set (r := sec_required sec) in *.
  destruct (N.eq_dec r 0) as [Hr0 | Hrpos].
  - exfalso. rewrite Hr0 in *. pose proof (hp_roundtrip_zero base total 0 cap) as [Z1 Z2].
    assert (Hp : fst (sec_block sec) = hp_zero) by congruence.
    unfold sec_indices in Hin. fold r in Hin. rewrite Hr0, Hp, Z2 in Hin. cbn [N.ltb] in Hin.
    replace (0 <? 0) with false in Hin by reflexivity. rewrite app_nil_r in Hin.
    apply in_flat_map in Hin. destruct Hin as (rep & Hrep & Ha).
    destruct rep; cbn [rep_idx] in Ha; try contradiction;
      match goal with |- _ => let K := fresh in pose proof (Hidx _ _ Hrep eq_refl) as K; cbn [rep_idx] in K; lia end.
  - assert (P1 : 32 <= cap) by (apply Hcap32; lia).
    assert (Q0 : 0 < max_entries cap) by (unfold max_entries; lia).
    assert (P4 : r + 4 * max_entries cap + r < usize_lim) by (unfold usize_lim, max_entries in *; lia).
    assert (P5 : base < usize_lim) by (unfold usize_lim; lia).
    destruct (hp_roundtrip r base total r cap P1 ltac:(lia) Hrt ltac:(lia) ltac:(lia) P4 P5) as (p & Hp1 & Hp2 & _).
    assert (Hp : fst (sec_block sec) = p) by congruence.
    unfold sec_indices in Hin. fold r in Hin. rewrite Hp, Hp2 in Hin. apply in_app_or in Hin. destruct Hin as [Hin | Hin].
    + apply in_flat_map in Hin. destruct Hin as (rep & Hrep & Ha).
      destruct (rep_idx base rep) as [a'|] eqn:Er; [|contradiction]. destruct Ha as [<- | []].
      destruct (Hidx rep a' Hrep Er) as (_ & _ & C). exact C.
    + destruct (0 <? r); [|contradiction]. destruct Hin as [<- | []]. destruct Hreq; [contradiction | assumption].
Qed.

(* ---------------------------------------------------------------- preservation *)
Lemma sys_init_shape cap blocked s : sys_init cap blocked = Some s ->
  s = mkSys (with_bmax (with_max dt_new cap) blocked) (with_bmax (with_max dt_new cap) blocked) [] [] [].
Proof.
  unfold sys_init, dt_set_max_size. destruct (cmp_eval q_set_max_size_cmp cap q_cap_max); [discriminate|].
  cbn [dt_new dt_max]. destruct (0 <=? cap) eqn:E; [|lia].
  unfold dt_set_max_blocked. destruct (cmp_eval q_set_max_blocked_cmp blocked q_blocked_streams_max); [discriminate|].
  intros H; inversion H; reflexivity.
Qed.

Lemma full_inv_init cap blocked s : sys_init cap blocked = Some s -> full_inv cap [] [] s.
Proof.
  intros Hi. pose proof (sys_init_inv _ _ _ Hi) as I. pose proof (sys_init_shape _ _ _ Hi) as ->.
  constructor; cbn [s_enc s_dec s_dq s_secs map]; try assumption; try reflexivity.
  - constructor.
    + intros a. reflexivity.
    + constructor.
    + intros sid. reflexivity.
    + intros x [].
    + intros x [].
    + intros sid. exact Logic.I.
  - intros sid. cbn. lia.
  - constructor.
  - intros a H1 H2. cbn in H1, H2. lia.
  - intros x [].
Qed.

Lemma secrs_In xs xs' x : secrs xs' = secrs xs -> In x xs -> exists x', In x' xs' /\ g_sec x' = g_sec x /\ g_rs x' = g_rs x.
Proof.
  intros E Hin. assert (K : In (g_sec x, g_rs x) (secrs xs)) by (unfold secrs; apply in_map_iff; exists x; auto).
  rewrite <- E in K. unfold secrs in K. apply in_map_iff in K. destruct K as (x' & E' & Hin'). inversion E'. exists x'. auto.
Qed.

Lemma secrs_maps xs xs' : secrs xs' = secrs xs -> map g_sec xs' = map g_sec xs /\ map g_rs xs' = map g_rs xs.
Proof.
  revert xs'. induction xs as [|x r IH]; intros [|y r'] E; try discriminate; [auto|].
  cbn [secrs map] in E. inversion E. destruct (IH r' H2) as [A B]. cbn [map]. split; congruence.
Qed.

(* Encoder::encode *)
Lemma full_inv_encode cap H xs s sid fs :
  full_inv cap H xs s -> exists H' xs', full_inv cap H' xs' (fst (sys_step s (OEncode sid fs))).
Proof.
  intros F. pose proof F as F0. destruct F as [I Hsecs A Hacks Hnc Hoi Hdone].
  destruct (sys_encode_inv cap H (map g_rs xs) s sid fs I) as (t' & e & H' & rs & Ee & _ & I' & R1 & R2 & R3 & R4 & R7 & Hmono).
  cbn [sys_step] in *. rewrite Ee in *. cbn [fst] in *.
  set (sec := mkSection sid (en_block e) fs (en_required e) false) in *.
  set (x := mkG sec rs false).
  exists H', (xs ++ [x]).
  assert (Hnpx : forall s0, np s0 (xs ++ [x]) = np s0 xs ++ (if sid =? s0 then [x] else [])).
  { intros s0. rewrite np_app. f_equal. cbn [np filter x g_sid g_sec sec sec_sid g_popped negb]. rewrite andb_true_r.
    destruct (sid =? s0); reflexivity. }
  constructor; cbn [s_enc s_dec s_dq s_secs].
  - rewrite map_app. exact I'.
  - rewrite map_app, Hsecs. reflexivity.
  - destruct A as [Atot And Abl Ars Apd Adp]. constructor.
    + intros a. rewrite R3, Atot, tot_app. cbn [tot x g_popped g_rs]. lia.
    + rewrite R4. unfold dt_track_block. destruct (aget N.eqb sid (dt_blocks (s_enc s))); cbn [with_blocks dt_blocks];
        apply (nodup_aset N.eqb Neqb_eq'); assumption.
    + intros s0. rewrite R4. unfold qof. rewrite Hnpx, map_app. unfold dt_track_block.
      destruct (N.eq_dec s0 sid) as [->|Hne].
      * rewrite N.eqb_refl. cbn [map x g_rs]. pose proof (Abl sid) as Hb. unfold qof in Hb.
        destruct (aget N.eqb sid (dt_blocks (s_enc s))) as [q|] eqn:Eq; cbn [with_blocks dt_blocks];
          rewrite (aget_aset_same N.eqb Neqb_eq').
        -- destruct (map g_rs (np sid xs)) as [|q0 qr]; [discriminate|]. inversion Hb; subst. reflexivity.
        -- destruct (map g_rs (np sid xs)) as [|q0 qr]; [reflexivity | discriminate].
      * destruct (sid =? s0) eqn:E0; [apply N.eqb_eq in E0; congruence|]. cbn [map]. rewrite app_nil_r.
        destruct (aget N.eqb sid (dt_blocks (s_enc s))); cbn [with_blocks dt_blocks];
          rewrite (aget_aset_other N.eqb Neqb_eq') by assumption; apply Abl.
    + intros y Hy. apply in_app_or in Hy. destruct Hy as [Hy | [<- | []]]; [auto | cbn [x g_rs]; auto].
    + intros y Hy Hp. apply in_app_or in Hy. destruct Hy as [Hy | [<- | []]]; [auto | discriminate].
    + intros s0. rewrite Hnpx. destruct (sid =? s0); [apply done_prefix_snoc; [apply Adp | reflexivity] | rewrite app_nil_r; apply Adp].
  - intros s0. rewrite Hnpx, ndone_app. specialize (Hacks s0). destruct (sid =? s0); cbn [ndone x g_done g_sec sec sec_done]; lia.
  - assumption.
  - intros a H1 H2. destruct (N.le_gt_cases a (v_inserted (dt_vas (s_enc s)))) as [Hle | Hgt].
    + destruct (Hoi a H1 Hle) as (y & Hy & K). exists y. split; [apply in_or_app; left; assumption | assumption].
    + destruct (R7 a Hgt H2) as [C1 C2]. exists x. split; [apply in_or_app; right; left; reflexivity|].
      cbn [x g_done g_sec sec sec_done g_rs sec_required]. auto.
  - intros y Hy Hd. apply in_app_or in Hy. destruct Hy as [Hy | [<- | []]]; [auto | discriminate].
Qed.

(* delivery of encoder-stream instructions *)
Lemma deliver_shape s k :
  exists inc, fst (sys_step s (ODeliver k)) =
    mkSys (s_enc s) (fst (dec_apply (s_dec s) (firstn (N.to_nat k) (s_eq s)))) (skipn (N.to_nat k) (s_eq s))
          (s_dq s ++ match inc with Some n => [DIncrement n] | None => [] end) (s_secs s).
Proof.
  cbn [sys_step]. unfold dec_on_encoder_recv.
  destruct (dec_apply (s_dec s) (firstn (N.to_nat k) (s_eq s))) as [t1 [u| |]]; cbn [fst];
    try (exists None; rewrite app_nil_r; reflexivity).
  destruct (dt_total_inserted t1 =? dt_total_inserted (s_dec s)); cbn [fst]; [exists None; rewrite app_nil_r; reflexivity|].
  destruct (dt_total_inserted t1 <? dt_total_inserted (s_dec s)); cbn [fst]; [exists None; rewrite app_nil_r; reflexivity|].
  destruct (255 <? dt_total_inserted t1 - dt_total_inserted (s_dec s)); cbn [fst]; [exists None; rewrite app_nil_r; reflexivity|].
  eexists (Some _). reflexivity.
Qed.

Lemma nacks_incr sid l inc : nacks sid (l ++ match inc with Some n => [DIncrement n] | None => [] end) = nacks sid l.
Proof. rewrite nacks_app. destruct inc; cbn [nacks is_ack]; lia. Qed.

Lemma full_inv_deliver cap H xs s k : full_inv cap H xs s -> full_inv cap H xs (fst (sys_step s (ODeliver k))).
Proof.
  intros F. pose proof (sys_step_inv_same cap H (map g_rs xs) s (ODeliver k) (fi_sys _ _ _ _ F) I) as I'.
  destruct F as [I0 Hsecs A Hacks Hnc Hoi Hdone].
  destruct (deliver_shape s k) as (inc & E). rewrite E in *.
  assert (Hmono : v_inserted (dt_vas (s_dec s)) <= v_inserted (dt_vas (fst (dec_apply (s_dec s) (firstn (N.to_nat k) (s_eq s)))))).
  { destruct I0 as [He Hd Hu Hh Hc (d' & Ea & Hd' & Hu' & Hs') Hnosu Hsecs0].
    rewrite <- (firstn_skipn (N.to_nat k) (s_eq s)) in Ea. apply dec_apply_split in Ea. destruct Ea as (d1 & E1 & E2). rewrite E1. cbn [fst].
    rewrite <- (firstn_skipn (N.to_nat k) (s_eq s)) in Hnosu. apply Forall_app in Hnosu. destruct Hnosu as [Hn1 _].
    destruct (dec_apply_ext _ _ _ Hd Hu Hn1 E1) as (X & _). exact X. }
  constructor; cbn [s_enc s_dec s_dq s_secs] in *; try assumption.
  - intros sid. rewrite nacks_incr. apply Hacks.
  - apply Forall_app. split; [assumption|]. destruct inc; constructor; [exact Logic.I | constructor].
  - intros a H1 H2. apply Hoi; lia.
  - intros x Hx Hd. specialize (Hdone x Hx Hd). lia.
Qed.

(* feedback: acknowledgements and increments reach the encoder *)
Lemma full_inv_feedback cap H xs s k : full_inv cap H xs s -> exists xs', full_inv cap H xs' (fst (sys_step s (OFeedback k))).
Proof.
  intros F. pose proof (sys_step_inv_same cap H (map g_rs xs) s (OFeedback k) (fi_sys _ _ _ _ F) I) as I'.
  destruct F as [I0 Hsecs A Hacks Hnc Hoi Hdone].
  set (now := firstn (N.to_nat k) (s_dq s)) in *. set (later := skipn (N.to_nat k) (s_dq s)) in *.
  assert (Edq : s_dq s = now ++ later) by (symmetry; apply firstn_skipn).
  assert (Hnc2 : Forall no_cancel now /\ Forall no_cancel later) by (rewrite Edq in Hnc; apply Forall_app in Hnc; exact Hnc).
  destruct (feedback_acct now (s_enc s) xs later (si_enc _ _ _ _ I0) A ltac:(rewrite <- Edq; exact Hacks) (proj1 Hnc2)) as (xs' & A' & Hacks' & Esr).
  destruct (secrs_maps _ _ Esr) as [Ms Mr].
  pose proof (enc_on_decoder_recv_store now (s_enc s)) as (_ & _ & Vs).
  assert (Eshape : fst (sys_step s (OFeedback k)) = mkSys (fst (enc_on_decoder_recv (s_enc s) now)) (s_dec s) (s_eq s) later (s_secs s)).
  { cbn [sys_step]. fold now later. destruct (enc_on_decoder_recv (s_enc s) now) as [t [u| |]]; reflexivity. }
  rewrite Eshape in *. exists xs'.
  constructor; cbn [s_enc s_dec s_dq s_secs] in *.
  - rewrite Mr. exact I'.
  - rewrite Ms. exact Hsecs.
  - exact A'.
  - exact Hacks'.
  - exact (proj2 Hnc2).
  - intros a H1 H2. rewrite Vs in H2. destruct (Hoi a H1 H2) as (x & Hx & Hd & Hc & Hr).
    destruct (secrs_In xs xs' x Esr Hx) as (x' & Hx' & E1 & E2). exists x'. unfold g_done. rewrite E1, E2. auto.
  - intros x' Hx' Hd. symmetry in Esr. destruct (secrs_In xs' xs x' Esr Hx') as (x & Hx & E1 & E2).
    rewrite <- E1. apply Hdone; [assumption|]. unfold g_done in *. rewrite E1. exact Hd.
Qed.

Lemma Forall2_map_In {A B C} (P : B -> C -> Prop) (f : A -> B) (g : A -> C) xs :
  Forall2 P (map f xs) (map g xs) -> forall x, In x xs -> P (f x) (g x).
Proof.
  induction xs as [|y r IH]; cbn [map]; intros F x []; inversion F; subst; auto.
Qed.

(* every section that is not done decodes as the statement demands *)
Lemma full_inv_decode_result cap H xs s x :
  full_inv cap H xs s -> In x xs -> g_done x = false ->
  v_inserted (dt_vas (s_enc s)) < 2 ^ 62 -> cap < 2 ^ 62 -> forall j, nth_error (s_secs s) j = Some (g_sec x) ->
  dec_decode_header (s_dec s) (sec_block (g_sec x)) =
    if v_inserted (dt_vas (s_dec s)) <? sec_required (g_sec x) then Err (DEMissingRefs (sec_required (g_sec x)))
    else Ok (sec_fields (g_sec x), 0 <? sec_required (g_sec x)).
Proof.
  intros F Hin Hd Hlim Hcl j Hj. pose proof (full_inv_oi _ _ _ _ F) as HOI.
  destruct F as [I Hsecs A Hacks Hnc Hoi Hdone].
  pose proof (si_secs _ _ _ _ I) as Hs2. rewrite Hsecs in Hs2.
  pose proof (Forall2_map_In _ _ _ _ Hs2 x Hin) as Hso.
  pose proof (not_done_not_popped _ _ _ A Hin Hd) as Hp.
  eapply decode_agrees; try eassumption.
  intros a Ha. eapply held_live; try eassumption; [apply (si_enc _ _ _ _ I)|].
  eapply sec_indices_cnt; try eassumption. destruct (si_hist _ _ _ _ I) as [L _]. rewrite <- L. assumption.
Qed.

Lemma nth_error_mid {A} (l1 : list A) x l2 : nth_error (l1 ++ x :: l2) (length l1) = Some x.
Proof. induction l1 as [|y l1 IH]; cbn [app length nth_error]; auto. Qed.

Lemma full_inv_decode cap H xs s j honest :
  full_inv cap H xs s -> v_inserted (dt_vas (s_enc s)) < 2 ^ 62 -> cap < 2 ^ 62 ->
  exists xs', full_inv cap H xs' (fst (sys_step s (ODecode j honest))).
Proof.
  intros F Hlim Hcl. cbn [sys_step].
  destruct (nth_opt (s_secs s) j) as [sec|] eqn:Enth; cbn [fst]; [|exists xs; assumption].
  destruct (honest && sec_done sec) eqn:E1; cbn [fst]; [exists xs; assumption|].
  destruct (honest && earlier_pending (s_secs s) j (sec_sid sec)) eqn:E2; cbn [fst]; [exists xs; assumption|].
  destruct (dec_decode_header (s_dec s) (sec_block sec)) as [[fs dr]| |] eqn:Edec; cbn [fst]; try (exists xs; assumption).
  destruct honest; cbn [fst]; [|exists xs; assumption].
  cbn [andb] in E1, E2.
  destruct (nth_opt_split_sec (s_secs s) j sec (sec_sid sec) Enth) as (l1 & l2 & El & Em & Eearly).
  specialize (Eearly E2).
  pose proof (fi_secs _ _ _ _ F) as Hsecs. rewrite El in Hsecs.
  destruct (map_split g_sec xs l1 sec l2 (eq_sym Hsecs)) as (xs1 & gx & xs2 & Exs & M1 & M2 & M3).
  assert (Hin : In gx xs) by (rewrite Exs; apply in_or_app; right; left; reflexivity).
  assert (Hgd : g_done gx = false) by (unfold g_done; rewrite M2; exact E1).
  (* the decoder's answer *)
  pose proof (full_inv_decode_result cap H xs s gx F Hin Hgd Hlim Hcl (length l1)) as Hres.
  rewrite M2 in Hres. rewrite El in Hres. specialize (Hres (nth_error_mid l1 sec l2)). rewrite Edec in Hres.
  destruct (v_inserted (dt_vas (s_dec s)) <? sec_required sec) eqn:Eblk; [discriminate|].
  inversion Hres; subst fs dr. clear Hres.
  pose proof F as F0. destruct F as [I Hsecs0 A Hacks Hnc Hoi Hdone].
  pose proof (not_done_not_popped _ _ _ A Hin Hgd) as Hpop.
  set (xs' := xs1 ++ g_set_done gx :: xs2).
  assert (Hrs : map g_rs xs' = map g_rs xs) by (unfold xs'; rewrite Exs, !map_app; reflexivity).
  assert (Hnp : forall sid, np sid xs' = np sid xs1 ++ (if (g_sid gx =? sid) && negb (g_popped gx) then [g_set_done gx] else []) ++ np sid xs2).
  { intros sid. unfold xs'. rewrite np_app, np_cons. reflexivity. }
  assert (Hnp0 : forall sid, np sid xs = np sid xs1 ++ (if (g_sid gx =? sid) && negb (g_popped gx) then [gx] else []) ++ np sid xs2).
  { intros sid. rewrite Exs, np_app, np_cons. reflexivity. }
  assert (Hearly : forall y, In y xs1 -> g_sid y = g_sid gx -> g_done y = true).
  { intros y Hy Hs. unfold g_done, g_sid in *. apply Eearly; [rewrite <- M1; apply in_map; assumption | rewrite Hs, M2; reflexivity]. }
  exists xs'.
  pose proof (sys_step_inv_same cap H (map g_rs xs) s (ODecode j true) I Logic.I) as I'.
  cbn [sys_step] in I'. rewrite Enth in I'. cbn [andb] in I'. rewrite E1, E2, Edec in I'. cbn [fst] in I'.
  constructor; cbn [s_enc s_dec s_dq s_secs].
  - rewrite Hrs. exact I'.
  - rewrite Em. unfold xs'. rewrite map_app. cbn [map g_set_done g_sec]. rewrite M1, M2, M3. reflexivity.
  - destruct A as [Atot And Abl Ars Apd Adp]. constructor.
    + intros a. rewrite Atot, Exs. unfold xs'. symmetry. apply tot_set_done.
    + assumption.
    + intros sid. rewrite Abl, Exs. unfold xs'. rewrite qof_set_done. reflexivity.
    + intros y Hy. unfold xs' in Hy. apply in_app_or in Hy. destruct Hy as [Hy | [<- | Hy]].
      * apply Ars. rewrite Exs. apply in_or_app. left. assumption.
      * cbn [g_set_done g_rs]. apply Ars. assumption.
      * apply Ars. rewrite Exs. apply in_or_app. right. right. assumption.
    + intros y Hy Hp. unfold xs' in Hy. apply in_app_or in Hy. destruct Hy as [Hy | [<- | Hy]].
      * apply Apd; [rewrite Exs; apply in_or_app; left; assumption | assumption].
      * reflexivity.
      * apply Apd; [rewrite Exs; apply in_or_app; right; right; assumption | assumption].
    + intros sid. specialize (Adp sid). rewrite Hnp0 in Adp. rewrite Hnp.
      destruct ((g_sid gx =? sid) && negb (g_popped gx)) eqn:Eg; [|exact Adp].
      apply andb_true_iff in Eg. destruct Eg as [Eg _]. apply N.eqb_eq in Eg.
      assert (Fd : Forall (fun y => g_done y = true) (np sid xs1)) by (apply np_all_done; intros y Hy Hs; apply Hearly; [assumption | congruence]).
      apply (proj2 (dp_app_done _ _ Fd)). apply (proj1 (dp_app_done _ _ Fd)) in Adp. cbn [app] in *. cbn [done_prefix]. left.
      split; [reflexivity | eapply dp_tail; exact Adp].
  - intros sid. specialize (Hacks sid). rewrite nacks_app, Hnp. rewrite Hnp0 in Hacks. rewrite !ndone_app in *.
    rewrite Hpop in *. cbn [negb] in *. rewrite andb_true_r in *.
    destruct (g_sid gx =? sid) eqn:Eg.
    + cbn [ndone app] in *. rewrite Hgd in Hacks. cbn [g_done g_set_done g_sec sec_set_done sec_done].
      apply N.eqb_eq in Eg. unfold g_sid in Eg. rewrite M2 in Eg.
      destruct (0 <? sec_required sec); cbn [nacks is_ack]; [rewrite Eg, N.eqb_refl|]; lia.
    + cbn [ndone app] in *. destruct (0 <? sec_required sec); cbn [nacks is_ack]; [|lia].
      unfold g_sid in Eg. rewrite M2 in Eg. rewrite Eg. lia.
  - apply Forall_app. split; [assumption|]. destruct (0 <? sec_required sec); constructor; [exact Logic.I | constructor].
  - intros a H1 H2. destruct (Hoi a H1 H2) as (y & Hy & Hyd & Hyc & Hyr).
    rewrite Exs in Hy. apply in_app_or in Hy. destruct Hy as [Hy | [<- | Hy]].
    + exists y. split; [unfold xs'; apply in_or_app; left; assumption | auto].
    + exfalso. rewrite M2 in Hyr. lia.
    + exists y. split; [unfold xs'; apply in_or_app; right; right; assumption | auto].
  - intros y Hy Hd. unfold xs' in Hy. apply in_app_or in Hy. destruct Hy as [Hy | [<- | Hy]].
    + apply Hdone; [rewrite Exs; apply in_or_app; left; assumption | assumption].
    + cbn [g_set_done g_sec sec_set_done sec_required]. rewrite M2. lia.
    + apply Hdone; [rewrite Exs; apply in_or_app; right; right; assumption | assumption].
Qed.

(* ---------------------------------------------------------------- whole histories *)
Definition honest_op (o : op) : bool :=
  match o with OEncode _ _ | ODeliver _ | ODecode _ _ | OFeedback _ => true | OCancel _ | OResize _ => false end.

Lemma honest_not_resize os : forallb honest_op os = true -> existsb is_resize os = false.
Proof.
  induction os as [|o r IH]; [reflexivity|]. cbn [forallb existsb]. intros H. apply andb_true_iff in H. destruct H as [H1 H2].
  rewrite (IH H2). destruct o; try discriminate; reflexivity.
Qed.

Lemma step_ins_mono cap H G s o :
  sys_inv cap H G s -> is_resize o = false -> v_inserted (dt_vas (s_enc s)) <= v_inserted (dt_vas (s_enc (fst (sys_step s o)))).
Proof.
  intros I Hr. destruct o as [sid fs|k|j honest|k|sid|n]; try discriminate.
  - destruct (sys_encode_inv cap H G s sid fs I) as (t' & e & H' & rs & Ee & _ & _ & _ & _ & _ & _ & _ & Hm).
    cbn [sys_step]. rewrite Ee. cbn [fst s_enc]. exact Hm.
  - destruct (deliver_shape s k) as (inc & E). rewrite E. cbn [s_enc]. lia.
  - cbn [sys_step]. destruct (nth_opt (s_secs s) j) as [sec|]; cbn [fst]; [|lia].
    destruct (honest && sec_done sec); cbn [fst]; [lia|].
    destruct (honest && earlier_pending (s_secs s) j (sec_sid sec)); cbn [fst]; [lia|].
    destruct (dec_decode_header (s_dec s) (sec_block sec)) as [[fs dr]| |]; cbn [fst]; try lia.
    destruct honest; cbn [fst s_enc]; lia.
  - pose proof (enc_on_decoder_recv_store (firstn (N.to_nat k) (s_dq s)) (s_enc s)) as (_ & _ & V).
    cbn [sys_step]. destruct (enc_on_decoder_recv (s_enc s) (firstn (N.to_nat k) (s_dq s))) as [t [u| |]]; cbn [fst s_enc] in *; rewrite V; lia.
  - cbn [sys_step fst s_enc]. lia.
Qed.

Lemma run_ins_mono cap os : forall H G s,
  sys_inv cap H G s -> existsb is_resize os = false ->
  v_inserted (dt_vas (s_enc s)) <= v_inserted (dt_vas (s_enc (fst (sys_run s os)))).
Proof.
  induction os as [|o r IH]; intros H G s I Hnr; [cbn [sys_run fst]; lia|].
  cbn [existsb] in Hnr. apply orb_false_iff in Hnr. destruct Hnr as [H1 H2].
  rewrite sys_run_fst. destruct (sys_step_inv cap H G s o I H1) as (H' & G' & I' & _).
  pose proof (step_ins_mono cap H G s o I H1). pose proof (IH H' G' _ I' H2). lia.
Qed.

Theorem run_full_inv cap os : forall H xs s,
  full_inv cap H xs s -> forallb honest_op os = true -> cap < 2 ^ 62 ->
  v_inserted (dt_vas (s_enc (fst (sys_run s os)))) < 2 ^ 62 ->
  exists H' xs', full_inv cap H' xs' (fst (sys_run s os)).
Proof.
  induction os as [|o r IH]; intros H xs s F Hh Hcl Hlim; [exists H, xs; assumption|].
  cbn [forallb] in Hh. apply andb_true_iff in Hh. destruct Hh as [Ho Hr].
  rewrite sys_run_fst in *.
  assert (Hnr : existsb is_resize (o :: r) = false) by (apply honest_not_resize; cbn [forallb]; rewrite Ho, Hr; reflexivity).
  pose proof (run_ins_mono cap (o :: r) H (map g_rs xs) s (fi_sys _ _ _ _ F) Hnr) as Hm. rewrite sys_run_fst in Hm.
  assert (Hs1 : exists H1 xs1, full_inv cap H1 xs1 (fst (sys_step s o))).
  { destruct o as [sid fs|k|j honest|k|sid|n]; try discriminate.
    - eapply full_inv_encode; eassumption.
    - exists H, xs. apply full_inv_deliver; assumption.
    - destruct (full_inv_decode cap H xs s j honest F ltac:(lia) Hcl) as (xs1 & F1). exists H, xs1. assumption.
    - destruct (full_inv_feedback cap H xs s k F) as (xs1 & F1). exists H, xs1. assumption. }
  destruct Hs1 as (H1 & xs1 & F1). eapply IH; eassumption.
Qed.

(* T4, full strength for histories of encodes, deliveries, decodes (honest or bare) and feedback deliveries *)
Theorem sys_agreement :
  forall cap blocked s os s' j sec,
    sys_init cap blocked = Some s -> forallb honest_op os = true -> fst (sys_run s os) = s' ->
    v_inserted (dt_vas (s_enc s')) < 2 ^ 62 ->
    nth_error (s_secs s') j = Some sec -> sec_done sec = false ->
    dec_decode_header (s_dec s') (sec_block sec) =
      if v_inserted (dt_vas (s_dec s')) <? sec_required sec then Err (DEMissingRefs (sec_required sec))
      else Ok (sec_fields sec, 0 <? sec_required sec).
Proof.
  intros cap blocked s os s' j sec Hi Hh <- Hlim Hj Hnd.
  assert (Hcl : cap < 2 ^ 62) by (pose proof (sys_init_cap _ _ _ Hi); unfold q_cap_max in *; lia).
  destruct (run_full_inv cap os [] [] s (full_inv_init _ _ _ Hi) Hh Hcl Hlim) as (H' & xs' & F).
  pose proof (fi_secs _ _ _ _ F) as Hsecs. rewrite Hsecs in Hj.
  pose proof (nth_error_In _ _ Hj) as Hin. apply in_map_iff in Hin. destruct Hin as (x & Ex & Hin).
  subst sec. eapply full_inv_decode_result; try eassumption. rewrite Hsecs. exact Hj.
Qed.

(* and the two facts the partial theorem took as premises *)
Theorem sys_no_early_eviction :
  forall cap blocked s os s',
    sys_init cap blocked = Some s -> forallb honest_op os = true -> fst (sys_run s os) = s' ->
    v_inserted (dt_vas (s_enc s')) < 2 ^ 62 ->
    v_dropped (dt_vas (s_enc s')) <= v_inserted (dt_vas (s_dec s')) /\
    (forall j sec a, nth_error (s_secs s') j = Some sec -> sec_done sec = false -> In a (sec_indices cap sec) ->
                     vas_live (dt_vas (s_enc s')) a /\ dt_is_tracked (s_enc s') a = true).
Proof.
  intros cap blocked s os s' Hi Hh <- Hlim.
  assert (Hcl : cap < 2 ^ 62) by (pose proof (sys_init_cap _ _ _ Hi); unfold q_cap_max in *; lia).
  destruct (run_full_inv cap os [] [] s (full_inv_init _ _ _ Hi) Hh Hcl Hlim) as (H' & xs' & F).
  split; [eapply full_inv_oi; eassumption|].
  intros j sec a Hj Hnd Ha. pose proof (fi_secs _ _ _ _ F) as Hsecs. rewrite Hsecs in Hj.
  pose proof (nth_error_In _ _ Hj) as Hin. apply in_map_iff in Hin. destruct Hin as (x & Ex & Hin). subst sec.
  pose proof (si_secs _ _ _ _ (fi_sys _ _ _ _ F)) as Hs2. rewrite Hsecs in Hs2.
  pose proof (Forall2_map_In _ _ _ _ Hs2 x Hin) as Hso.
  pose proof (not_done_not_popped _ _ _ (fi_acct _ _ _ _ F) Hin Hnd) as Hp.
  assert (Hc : 0 < cnt a (g_rs x)).
  { eapply sec_indices_cnt; try eassumption. destruct (si_hist _ _ _ _ (fi_sys _ _ _ _ F)) as [L _]. rewrite <- L. assumption. }
  split; [apply (held_live _ xs' x a (si_enc _ _ _ _ (fi_sys _ _ _ _ F)) (fi_acct _ _ _ _ F) Hin Hp Hc)|].
  unfold dt_is_tracked. pose proof (ea_tot _ _ (fi_acct _ _ _ _ F) a) as Ht. pose proof (tot_ge a xs' x Hin Hp) as Hg.
  unfold cnt in Ht at 1. destruct (aget N.eqb a (dt_track (s_enc (fst (sys_run s os))))) as [c|]; [|lia].
  destruct (0 <? c) eqn:E; [reflexivity | lia].
Qed.

Lemma nth_opt_nth_error {A} (l : list A) : forall j x, nth_opt l j = Some x -> nth_error l (N.to_nat j) = Some x.
Proof.
  induction l as [|y l IH]; intros j x; cbn [nth_opt]; [discriminate|].
  destruct (j =? 0) eqn:E.
  - intros H. apply N.eqb_eq in E. subst. exact H.
  - intros H. apply IH in H. replace (N.to_nat j) with (S (N.to_nat (j - 1))) by lia. exact H.
Qed.

(* what an honest decoder sees when it tries section j in any reachable state *)
Theorem sys_honest_decode_outcome :
  forall cap blocked s os s1 j,
    sys_init cap blocked = Some s -> forallb honest_op os = true -> fst (sys_run s os) = s1 ->
    v_inserted (dt_vas (s_enc s1)) < 2 ^ 62 ->
    snd (sys_step s1 (ODecode j true)) =
      match nth_opt (s_secs s1) j with
      | None => RNoSuchSection
      | Some sec =>
          if sec_done sec then RAlreadyDone
          else if earlier_pending (s_secs s1) j (sec_sid sec) then RHeld
          else if v_inserted (dt_vas (s_dec s1)) <? sec_required sec then RDecErr (DEMissingRefs (sec_required sec))
          else RDecoded (sec_fields sec) (0 <? sec_required sec)
      end.
Proof.
  intros cap blocked s os s1 j Hi Hh Hs1 Hlim. cbn [sys_step].
  destruct (nth_opt (s_secs s1) j) as [sec|] eqn:En; [|reflexivity]. cbn [andb].
  destruct (sec_done sec) eqn:Ed; [reflexivity|].
  destruct (earlier_pending (s_secs s1) j (sec_sid sec)); [reflexivity|].
  rewrite (sys_agreement cap blocked s os s1 (N.to_nat j) sec Hi Hh Hs1 Hlim (nth_opt_nth_error _ _ _ En) Ed).
  destruct (v_inserted (dt_vas (s_dec s1)) <? sec_required sec); reflexivity.
Qed.
