(* Sanity lemmas of the C06 liveness specification: terminal events are sticky, so "must complete" is monotone in
   the script (once the terminal event has been delivered nothing the peer does later re-allows a pending call). *)
From H3V Require Import Base.Bytes Spec.C06Liveness.

Lemma rx_state_app : forall evs evs' id,
  rx_state (evs ++ evs') id = match rx_state evs id with TOpen => rx_state evs' id | t => t end.
Proof.
  induction evs as [|e evs IH]; intros evs' id; cbn [app rx_state].
  - reflexivity.
  - destruct e; try apply IH; destruct (id0 =? id); try reflexivity; apply IH.
Qed.

Lemma rx_terminal_sticky : forall evs evs' id,
  rx_state evs id <> TOpen -> rx_state (evs ++ evs') id = rx_state evs id.
Proof.
  intros evs evs' id H. rewrite rx_state_app. destruct (rx_state evs id); congruence.
Qed.

Lemma lost_app : forall evs evs', lost (evs ++ evs') = lost evs || lost evs'.
Proof.
  induction evs as [|e evs IH]; intros evs'; cbn [app lost].
  - reflexivity.
  - destruct e; try apply IH; reflexivity.
Qed.

Lemma stopped_app : forall evs evs' id, stopped (evs ++ evs') id = stopped evs id || stopped evs' id.
Proof.
  induction evs as [|e evs IH]; intros evs' id; cbn [app stopped]; [reflexivity|].
  destruct e; try apply IH. rewrite IH. apply orb_assoc.
Qed.

Lemma must_complete_bp_monotone : forall bp evs evs' t,
  must_complete_bp bp evs t = true -> must_complete_bp bp (evs ++ evs') t = true.
Proof.
  intros bp evs evs' t H. destruct t as [|id| |id|]; cbn [must_complete_bp] in *.
  - rewrite lost_app, H. reflexivity.
  - rewrite lost_app, rx_state_app. destruct (lost evs); [reflexivity|].
    cbn [orb] in H. destruct (rx_state evs id); try discriminate; apply orb_true_r.
  - reflexivity.
  - rewrite lost_app, stopped_app. destruct (negb bp); [reflexivity|]. cbn [orb] in *.
    destruct (lost evs); [reflexivity|]. cbn [orb] in *. rewrite H. cbn. apply orb_true_r.
  - rewrite lost_app. destruct (negb bp); [reflexivity|]. cbn [orb] in *. rewrite H. reflexivity.
Qed.

Lemma must_complete_monotone : forall evs evs' t,
  must_complete evs t = true -> must_complete (evs ++ evs') t = true.
Proof. intros evs evs' t. apply must_complete_bp_monotone. Qed.

Lemma close_completes_everything_bp : forall bp evs t, must_complete_bp bp (evs ++ [ELost]) t = true.
Proof.
  intros bp evs t. assert (L : lost (evs ++ [ELost]) = true) by (rewrite lost_app; apply orb_true_r).
  destruct t; cbn [must_complete_bp]; rewrite ?L; try reflexivity; destruct (negb bp); reflexivity.
Qed.

Lemma close_completes_everything : forall evs t, must_complete (evs ++ [ELost]) t = true.
Proof. intros evs t. apply close_completes_everything_bp. Qed.

(* STOP_SENDING ends the wait of a send call on that stream, whatever the credit *)
Lemma stop_sending_completes_send : forall bp evs evs' id, must_complete_bp bp (evs ++ EStop id :: evs') (WSend id) = true.
Proof.
  intros bp evs evs' id. cbn [must_complete_bp]. rewrite stopped_app. cbn [stopped]. rewrite N.eqb_refl.
  cbn [orb]. rewrite !orb_true_r. reflexivity.
Qed.

Lemma acceptable_never_panic : forall evs, acceptable evs ObsPanic = false.
Proof. reflexivity. Qed.
