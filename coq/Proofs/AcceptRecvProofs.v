(* C04, part 1: the stream-header reader (AcceptRecvStream::poll_next_varint / poll_type) resolves a stream's
   type and push/session id to the RFC 9000 values exactly when the complete header has arrived, for every
   chunking of the header bytes and every interleaving of arrivals and polls. *)
From H3V Require Import Base.Bytes Base.BytesLemmas Gen.GenCodes Gen.GenVarint Gen.GenStreamTypes
  Spec.RFC9000 Spec.FrameVocab Spec.Frames Spec.UniStreams
  Model.Varint Model.FrameStream Model.AcceptRecv Proofs.VarintProofs.
From Coq Require Import ZifyBool ZifyNat ZifyN.
Ltac Zify.zify_post_hook ::= Z.div_mod_to_equations.

(* ---------- the transport queue of one stream ---------- *)
(* bytes still to be delivered before the first terminal event *)
Fixpoint chunks (q : rx) : bytes :=
  match q with
  | Chunk b :: r => b ++ chunks r
  | _ => []
  end.

(* transport contract: no empty chunk, bytes are bytes, a stream is only ever reset (no connection loss) *)
Definition ev_ok (e : ev) : Prop :=
  match e with
  | Chunk b => b <> [] /\ wf_bytes b
  | Fin => True
  | Abort x => exists c, x = QTerminated c
  end.
Definition rx_ok (q : rx) : Prop := Forall ev_ok q.

Definition view (s : arecv) (q : rx) : bytes := ar_buf s ++ chunks q.

(* the `expected` memo, when set, is the length announced by the first buffered byte *)
Definition memo_ok (s : arecv) : Prop :=
  match ar_memo s with
  | None => True
  | Some e => exists b0 r, ar_buf s = b0 :: r /\ e = rfc_vi_len b0
  end.

(* ---------- RFC varint at the head of a byte string ---------- *)
Lemma take_varint_nil : rfc_take_varint [] = None.
Proof. reflexivity. Qed.

Lemma take_varint_cons b0 r :
  rfc_take_varint (b0 :: r) =
    if len (b0 :: r) <? rfc_vi_len b0 then None
    else Some (rfc_vi_value (firstn (N.to_nat (rfc_vi_len b0)) (b0 :: r)), skipn (N.to_nat (rfc_vi_len b0)) (b0 :: r)).
Proof. reflexivity. Qed.

Lemma take_varint_app a b x rest :
  rfc_take_varint a = Some (x, rest) -> rfc_take_varint (a ++ b) = Some (x, rest ++ b).
Proof.
  destruct a as [|b0 r]; [discriminate|].
  rewrite <- app_comm_cons, !take_varint_cons.
  destruct (N.ltb_spec (len (b0 :: r)) (rfc_vi_len b0)) as [|Hge]; [discriminate|].
  intros H. inversion H; subst; clear H.
  assert (Hl : (N.to_nat (rfc_vi_len b0) <= length (b0 :: r))%nat) by (unfold len in Hge; lia).
  destruct (N.ltb_spec (len (b0 :: r ++ b)) (rfc_vi_len b0)) as [Hlt|_].
  - unfold len in *. cbn [length] in *. rewrite app_length in Hlt. lia.
  - rewrite app_comm_cons. rewrite firstn_app, skipn_app.
    replace (N.to_nat (rfc_vi_len b0) - length (b0 :: r))%nat with 0%nat by lia.
    cbn [firstn skipn]. rewrite app_nil_r. reflexivity.
Qed.

Lemma vi_decode_take v x rest :
  wf_bytes v -> rfc_take_varint v = Some (x, rest) -> vi_decode v = (Ok x, rest).
Proof.
  destruct v as [|b0 r]; [discriminate|]. intros Hwf. rewrite take_varint_cons.
  destruct (N.ltb_spec (len (b0 :: r)) (rfc_vi_len b0)) as [|Hge]; [discriminate|].
  intros H; inversion H; subst. apply vi_decode_complete; assumption.
Qed.

Lemma take_varint_wf v x rest : wf_bytes v -> rfc_take_varint v = Some (x, rest) -> wf_bytes rest.
Proof.
  destruct v as [|b0 r]; [discriminate|]. intros Hwf. rewrite take_varint_cons.
  destruct (len (b0 :: r) <? rfc_vi_len b0); [discriminate|].
  intros H; inversion H; subst. apply wf_bytes_skipn; assumption.
Qed.

(* ---------- one call of poll_next_varint ---------- *)
Lemma pnv_memo_buf s : ar_buf (pnv_memo s) = ar_buf s.
Proof. unfold pnv_memo. destruct (ar_memo s); [reflexivity|]. destruct (ar_buf s) eqn:E; cbn; congruence. Qed.
Lemma pnv_memo_ty s : ar_ty (pnv_memo s) = ar_ty s.
Proof. unfold pnv_memo. destruct (ar_memo s); [reflexivity|]. destruct (ar_buf s) eqn:E; cbn; congruence. Qed.
Lemma pnv_memo_sid s : ar_sid (pnv_memo s) = ar_sid s.
Proof. unfold pnv_memo. destruct (ar_memo s); [reflexivity|]. destruct (ar_buf s) eqn:E; cbn; congruence. Qed.
Lemma pnv_memo_eos s : ar_eos (pnv_memo s) = ar_eos s.
Proof. unfold pnv_memo. destruct (ar_memo s); [reflexivity|]. destruct (ar_buf s) eqn:E; cbn; congruence. Qed.

Lemma pnv_memo_ok s : memo_ok s -> memo_ok (pnv_memo s).
Proof.
  unfold memo_ok, pnv_memo. destruct (ar_memo s) eqn:Hm.
  - rewrite Hm. auto.
  - destruct (ar_buf s) as [|b0 r] eqn:Hb; cbn [ar_memo ar_with_memo ar_buf].
    + rewrite Hm. auto.
    + intros _. exists b0, r. rewrite vi_encoded_size_spec. auto.
Qed.

(* after pnv_memo, the memo is None exactly when nothing is buffered *)
Lemma pnv_memo_shape s : memo_ok s ->
  match ar_buf s with
  | [] => ar_memo (pnv_memo s) = None
  | b0 :: _ => ar_memo (pnv_memo s) = Some (rfc_vi_len b0)
  end.
Proof.
  unfold memo_ok, pnv_memo. destruct (ar_memo s) eqn:Hm; destruct (ar_buf s) as [|b0 r] eqn:Hb.
  - intros (b & r & Hc & _); discriminate.
  - intros (b & r' & Hc & He). rewrite Hm. inversion Hc; subst. reflexivity.
  - intros _. exact Hm.
  - intros _. cbn. rewrite vi_encoded_size_spec. reflexivity.
Qed.

Definition after_varint (s : arecv) (rest : bytes) : arecv := ar_with_memo (ar_with_buf (pnv_memo s) rest) None.

Lemma pnv_try_spec s : memo_ok s -> wf_bytes (ar_buf s) ->
  pnv_try (pnv_memo s) =
    match rfc_take_varint (ar_buf s) with
    | Some (x, rest) => Some (Ok x, after_varint s rest)
    | None => None
    end.
Proof.
  intros Hm Hwf. pose proof (pnv_memo_shape s Hm) as Hs.
  unfold pnv_try. rewrite pnv_memo_buf.
  destruct (ar_buf s) as [|b0 r] eqn:Hb.
  - rewrite Hs. reflexivity.
  - rewrite Hs. rewrite take_varint_cons.
    destruct (N.leb_spec (rfc_vi_len b0) (len (b0 :: r))) as [Hle|Hgt];
      destruct (N.ltb_spec (len (b0 :: r)) (rfc_vi_len b0)) as [Hlt|Hge]; try lia.
    + rewrite vi_decode_complete by assumption.
      change pnv_memo_reset with true. cbn iota. unfold after_varint. reflexivity.
    + reflexivity.
Qed.

Lemma after_varint_fields s rest :
  ar_buf (after_varint s rest) = rest /\ ar_memo (after_varint s rest) = None /\
  ar_ty (after_varint s rest) = ar_ty s /\ ar_sid (after_varint s rest) = ar_sid s /\
  ar_eos (after_varint s rest) = ar_eos s.
Proof.
  unfold after_varint. cbn [ar_buf ar_memo ar_ty ar_sid ar_eos ar_with_memo ar_with_buf].
  rewrite pnv_memo_ty, pnv_memo_sid, pnv_memo_eos. auto.
Qed.

(* same stream-level fields, possibly a different buffer/memo/eos *)
Definition same_head (s s' : arecv) : Prop := ar_ty s' = ar_ty s /\ ar_sid s' = ar_sid s.

Lemma rx_ok_tail e q : rx_ok (e :: q) -> ev_ok e /\ rx_ok q.
Proof. intros H; inversion H; auto. Qed.

Lemma stopped_round_none s q : memo_ok s -> wf_bytes (ar_buf s) ->
  rfc_take_varint (ar_buf s) = None ->
  exists s', pnv_stopped_round s q = (Ready (Err PEnd), s', q).
Proof.
  intros Hm Hwf Hn. unfold pnv_stopped_round. rewrite pnv_try_spec, Hn by assumption. eauto.
Qed.

(* The characterisation of one call on a state whose buffer and queue together show [view s q]:
   - a complete varint at the head of the view  => Ready(Ok value), the view afterwards is what follows it,
     the memo is clear, nothing beyond the bytes needed was taken from the transport's terminal state;
   - no complete varint and the stream has ended => Ready(Err EndOfStream);
   - no complete varint and the stream is open   => Pending, everything delivered so far is buffered
     (same view), the memo is sound. *)
Lemma pnv_char : forall q s, rx_ok q -> wf_bytes (ar_buf s) -> memo_ok s ->
  match rfc_take_varint (view s q) with
  | Some (x, rest) =>
      exists s' q', pnv_buffer_then_transport s q = (Ready (Ok x), s', q') /\
        view s' q' = rest /\ ar_memo s' = None /\ same_head s s' /\
        wf_bytes (ar_buf s') /\ rx_ok q' /\ terminated q' = terminated q
  | None =>
      if terminated q
      then exists s' q', pnv_buffer_then_transport s q = (Ready (Err PEnd), s', q')
      else exists s', pnv_buffer_then_transport s q = (Pending, s', []) /\
             ar_buf s' = view s q /\ memo_ok s' /\ same_head s s' /\ wf_bytes (ar_buf s')
  end.
Proof.
  induction q as [|e q IH]; intros s Hq Hwf Hm.
  - (* nothing queued *)
    unfold view. cbn [chunks]. rewrite app_nil_r. cbn [pnv_buffer_then_transport].
    rewrite pnv_try_spec by assumption.
    destruct (rfc_take_varint (ar_buf s)) as [[x rest]|] eqn:Ht.
    + destruct (after_varint_fields s rest) as (Hb & Hmm & Hty & Hsid & _).
      exists (after_varint s rest), [].
      split; [reflexivity|]. split; [unfold view; cbn [chunks]; rewrite app_nil_r; exact Hb|]. split; [exact Hmm|].
      split; [split; assumption|]. split; [rewrite Hb; eapply take_varint_wf; eauto|].
      split; [constructor|reflexivity].
    + cbn [terminated existsb]. exists (pnv_memo s). repeat split.
      * apply pnv_memo_buf.
      * apply pnv_memo_ok; assumption.
      * apply pnv_memo_ty.
      * apply pnv_memo_sid.
      * rewrite pnv_memo_buf. assumption.
  - apply rx_ok_tail in Hq as [He Hq].
    cbn [pnv_buffer_then_transport]. rewrite pnv_try_spec by assumption.
    destruct (rfc_take_varint (ar_buf s)) as [[x rest]|] eqn:Ht.
    + (* already complete in the buffer: the transport is not touched *)
      unfold view. rewrite (take_varint_app _ (chunks (e :: q)) _ _ Ht).
      destruct (after_varint_fields s rest) as (Hb & Hmm & Hty & Hsid & _).
      exists (after_varint s rest), (e :: q).
      split; [reflexivity|]. split; [unfold view; rewrite Hb; reflexivity|]. split; [exact Hmm|].
      split; [split; assumption|]. split; [rewrite Hb; eapply take_varint_wf; eauto|].
      split; [constructor; assumption|reflexivity].
    + destruct e as [b| |x].
      * (* a chunk *)
        destruct He as [Hne Hwb]. destruct b as [|b1 br]; [congruence|].
        set (s2 := ar_push (pnv_memo s) (b1 :: br)).
        assert (Hwf2 : wf_bytes (ar_buf s2)).
        { unfold s2, ar_push. cbn [ar_buf ar_with_buf]. rewrite pnv_memo_buf. apply wf_bytes_app; auto. }
        assert (Hm2 : memo_ok s2).
        { pose proof (pnv_memo_shape s Hm) as Hs. unfold memo_ok, s2, ar_push.
          cbn [ar_memo ar_buf ar_with_buf]. rewrite pnv_memo_buf.
          destruct (ar_buf s) as [|b0 r] eqn:Hb; rewrite Hs; [exact I|].
          exists b0, (r ++ b1 :: br). auto. }
        assert (Hv : view s2 q = view s (Chunk (b1 :: br) :: q)).
        { unfold view, s2, ar_push. cbn [ar_buf ar_with_buf chunks]. rewrite pnv_memo_buf, app_assoc. reflexivity. }
        specialize (IH s2 Hq Hwf2 Hm2). rewrite Hv in IH.
        assert (Hsh : same_head s s2).
        { unfold same_head, s2, ar_push. cbn [ar_ty ar_sid ar_with_buf]. rewrite pnv_memo_ty, pnv_memo_sid. auto. }
        cbn [terminated existsb is_terminal orb] in *. fold (terminated q) in *.
        destruct (rfc_take_varint (view s (Chunk (b1 :: br) :: q))) as [[x rest]|].
        -- destruct IH as (s' & q' & Hr & Hvw & Hmm & [Ht1 Ht2] & Hw' & Hq' & Hterm).
           exists s', q'. destruct Hsh as [Hs1 Hs2]. repeat split; auto; congruence.
        -- destruct (terminated q).
           ++ exact IH.
           ++ destruct IH as (s' & Hr & Hb' & Hm' & [Ht1 Ht2] & Hw').
              exists s'. destruct Hsh as [Hs1 Hs2]. repeat split; auto; congruence.
      * (* FIN *)
        unfold view. cbn [chunks]. rewrite app_nil_r, Ht. cbn [terminated existsb is_terminal orb].
        destruct (stopped_round_none (ar_set_eos (pnv_memo s)) (Fin :: q)) as (s' & Hr).
        -- apply pnv_memo_ok in Hm. exact Hm.
        -- cbn [ar_buf ar_set_eos]. rewrite pnv_memo_buf. assumption.
        -- cbn [ar_buf ar_set_eos]. rewrite pnv_memo_buf. assumption.
        -- eauto.
      * (* RESET *)
        destruct He as [c ->].
        unfold view. cbn [chunks]. rewrite app_nil_r, Ht. cbn [terminated existsb is_terminal orb].
        destruct (stopped_round_none (pnv_memo s) (Abort (QTerminated c) :: q)) as (s' & Hr).
        -- apply pnv_memo_ok; assumption.
        -- rewrite pnv_memo_buf. assumption.
        -- rewrite pnv_memo_buf. assumption.
        -- eauto.
Qed.

(* ---------- poll_type ---------- *)
Lemma two_varint_spec t : memN t two_varint_types = has_second_varint t.
Proof.
  unfold memN, two_varint_types, has_second_varint, st_PUSH, st_WEBTRANSPORT_UNI, ST_PUSH, ST_WEBTRANSPORT_UNI.
  cbn [existsb]. rewrite orb_false_r. reflexivity.
Qed.

Lemma pnv_is_buffer_first s q : poll_next_varint s q = pnv_buffer_then_transport s q.
Proof. reflexivity. Qed.

(* the second varint, once the type is known *)
Lemma poll_type_id_char s q t :
  rx_ok q -> wf_bytes (ar_buf s) -> memo_ok s -> ar_ty s = Some t -> ar_sid s = None ->
  if has_second_varint t then
    match rfc_take_varint (view s q) with
    | Some (i, rest) =>
        exists s' q', poll_type_id s q = (Ready (Ok tt), s', q') /\
          ar_ty s' = Some t /\ ar_sid s' = Some i /\ view s' q' = rest /\ ar_memo s' = None /\
          wf_bytes (ar_buf s') /\ rx_ok q' /\ terminated q' = terminated q
    | None =>
        if terminated q
        then exists s' q', poll_type_id s q = (Ready (Err PEnd), s', q')
        else exists s', poll_type_id s q = (Pending, s', []) /\
               ar_buf s' = view s q /\ memo_ok s' /\ ar_ty s' = Some t /\ ar_sid s' = None /\ wf_bytes (ar_buf s')
    end
  else poll_type_id s q = (Ready (Ok tt), s, q).
Proof.
  intros Hq Hwf Hm Hty Hsid. unfold poll_type_id. rewrite Hty, Hsid, two_varint_spec.
  destruct (has_second_varint t); [|reflexivity].
  rewrite pnv_is_buffer_first. pose proof (pnv_char q s Hq Hwf Hm) as H.
  destruct (rfc_take_varint (view s q)) as [[i rest]|].
  - destruct H as (s' & q' & Hr & Hv & Hmm & [Ht1 Ht2] & Hw & Hq' & Hterm).
    rewrite Hr. exists (ar_with_sid s' i), q'.
    split; [reflexivity|]. cbn [ar_ty ar_sid ar_memo ar_buf ar_with_sid]. unfold view in *.
    cbn [ar_buf ar_with_sid]. repeat split; auto; congruence.
  - destruct (terminated q).
    + destruct H as (s' & q' & Hr). rewrite Hr. eauto.
    + destruct H as (s' & Hr & Hb & Hm' & [Ht1 Ht2] & Hw). rewrite Hr.
      exists s'. repeat split; auto; congruence.
Qed.

(* what is known about a stream whose header is still being read, [flat] being everything delivered or queued *)
Definition hdr_inv (s : arecv) (q : rx) (flat : bytes) : Prop :=
  rx_ok q /\ wf_bytes (ar_buf s) /\ memo_ok s /\ ar_sid s = None /\
  match ar_ty s with
  | None => view s q = flat
  | Some t => has_second_varint t = true /\ rfc_take_varint flat = Some (t, view s q)
  end.

Lemma view_nil s : view s [] = ar_buf s.
Proof. unfold view. cbn [chunks]. apply app_nil_r. Qed.

Theorem poll_type_char s q flat : hdr_inv s q flat ->
  match uni_header flat with
  | Some (ty, sid, rest) =>
      exists s' q', poll_type s q = (Ready (Ok tt), s', q') /\
        ar_ty s' = Some ty /\ ar_sid s' = sid /\ view s' q' = rest /\
        wf_bytes (ar_buf s') /\ rx_ok q' /\ terminated q' = terminated q
  | None =>
      if terminated q
      then exists s' q', poll_type s q = (Ready (Err PEnd), s', q')
      else exists s', poll_type s q = (Pending, s', []) /\ hdr_inv s' [] flat
  end.
Proof.
  intros (Hq & Hwf & Hm & Hsid & Hty). unfold poll_type, uni_header.
  destruct (ar_ty s) as [t|] eqn:Et.
  - (* the type was resolved by an earlier call *)
    destruct Hty as [H2 Hflat]. rewrite Hflat, H2.
    pose proof (poll_type_id_char s q t Hq Hwf Hm Et Hsid) as H. rewrite H2 in H.
    destruct (rfc_take_varint (view s q)) as [[i rest]|].
    + destruct H as (s' & q' & Hr & Ht' & Hs' & Hv & _ & Hw & Hq' & Hterm).
      exists s', q'. repeat split; auto.
    + destruct (terminated q); [exact H|].
      destruct H as (s' & Hr & Hb & Hm' & Ht' & Hs' & Hw).
      exists s'. split; [exact Hr|]. unfold hdr_inv. rewrite Ht', view_nil.
      repeat split; auto; [constructor|congruence].
  - (* first varint *)
    subst flat. rewrite pnv_is_buffer_first.
    pose proof (pnv_char q s Hq Hwf Hm) as H.
    destruct (rfc_take_varint (view s q)) as [[t r1]|] eqn:Ef.
    + destruct H as (s1 & q1 & Hr & Hv & Hmm & [Ht1 Ht2] & Hw & Hq1 & Hterm). rewrite Hr.
      set (s2 := ar_with_ty s1 t).
      assert (Hm2 : memo_ok s2) by (unfold memo_ok, s2; cbn [ar_memo ar_with_ty]; rewrite Hmm; exact I).
      assert (Hv2 : view s2 q1 = r1) by (unfold view, s2 in *; cbn [ar_buf ar_with_ty]; exact Hv).
      pose proof (poll_type_id_char s2 q1 t Hq1 Hw Hm2 eq_refl) as H.
      assert (Hs2 : ar_sid s2 = None) by (unfold s2; cbn [ar_sid ar_with_ty]; congruence).
      specialize (H Hs2). rewrite Hv2 in H.
      destruct (has_second_varint t) eqn:E2.
      * destruct (rfc_take_varint r1) as [[i r2]|].
        -- destruct H as (s' & q' & Hr' & Ht' & Hs' & Hv' & _ & Hw' & Hq' & Hterm').
           exists s', q'. repeat split; auto. congruence.
        -- rewrite Hterm in H. destruct (terminated q); [exact H|].
           destruct H as (s' & Hr' & Hb & Hm' & Ht' & Hs' & Hw').
           exists s'. split; [exact Hr'|]. unfold hdr_inv. rewrite Ht', view_nil.
           repeat split; auto; [constructor|congruence].
      * rewrite H. exists s2, q1. repeat split; auto; try (unfold s2; cbn [ar_sid ar_with_ty]; congruence).
    + destruct (terminated q).
      * destruct H as (s' & q' & Hr). rewrite Hr. eauto.
      * destruct H as (s' & Hr & Hb & Hm' & [Ht1 Ht2] & Hw). rewrite Hr.
        exists s'. split; [reflexivity|]. unfold hdr_inv. rewrite Ht1, Et, view_nil.
        repeat split; auto; [constructor|congruence].
Qed.

(* ---------- histories: any interleaving of arrivals and polls ---------- *)
Definition arun_step (x : arun) (a : haction) : arun :=
  match a with HArrive e => arun_arrive x e | HPoll => arun_poll x end.

Definition action_ok (a : haction) : Prop := match a with HArrive e => ev_ok e | HPoll => True end.

Lemma terminated_app q e : terminated (q ++ [e]) = terminated q || is_terminal e.
Proof. unfold terminated. rewrite existsb_app. cbn [existsb]. rewrite orb_false_r. reflexivity. Qed.

Lemma chunks_app_chunk q b : terminated q = false -> chunks (q ++ [Chunk b]) = chunks q ++ b.
Proof.
  induction q as [|e q IH]; cbn [app chunks terminated existsb]; intros H.
  - rewrite app_nil_r. reflexivity.
  - destruct e; cbn [is_terminal orb] in H; try discriminate.
    cbn [chunks]. unfold terminated in IH. rewrite IH by exact H. rewrite app_assoc. reflexivity.
Qed.

Lemma chunks_app_terminal q e : terminated q = false -> is_terminal e = true -> chunks (q ++ [e]) = chunks q.
Proof.
  induction q as [|x q IH]; cbn [app chunks terminated existsb]; intros H He.
  - destruct e; [discriminate|reflexivity|reflexivity].
  - destruct x; cbn [is_terminal orb] in H; try discriminate.
    cbn [chunks]. unfold terminated in IH. rewrite IH by assumption. reflexivity.
Qed.

Lemma rx_ok_app q e : rx_ok q -> ev_ok e -> rx_ok (q ++ [e]).
Proof. intros Hq He. apply Forall_app. split; [exact Hq|constructor; [exact He|constructor]]. Qed.

Lemma uni_header_app flat b t i rest :
  uni_header flat = Some (t, i, rest) -> uni_header (flat ++ b) = Some (t, i, rest ++ b).
Proof.
  unfold uni_header. destruct (rfc_take_varint flat) as [[ty r1]|] eqn:E1; [|discriminate].
  rewrite (take_varint_app _ b _ _ E1).
  destruct (has_second_varint ty).
  - destruct (rfc_take_varint r1) as [[j r2]|] eqn:E2; [|discriminate].
    rewrite (take_varint_app _ b _ _ E2). intros H; inversion H; subst. reflexivity.
  - intros H; inversion H; subst. reflexivity.
Qed.

Lemma hdr_inv_chunk s q flat b :
  hdr_inv s q flat -> terminated q = false -> b <> [] -> wf_bytes b ->
  hdr_inv s (q ++ [Chunk b]) (flat ++ b).
Proof.
  intros (Hq & Hwf & Hm & Hsid & Hty) Ht Hne Hwb. unfold hdr_inv.
  split; [apply rx_ok_app; [exact Hq|split; assumption]|].
  repeat split; auto. unfold view in *. rewrite chunks_app_chunk by exact Ht.
  destruct (ar_ty s).
  - destruct Hty as [H2 Hf]. split; [exact H2|]. rewrite app_assoc. apply take_varint_app. exact Hf.
  - rewrite app_assoc. congruence.
Qed.

Lemma hdr_inv_terminal s q flat e :
  hdr_inv s q flat -> terminated q = false -> is_terminal e = true -> ev_ok e ->
  hdr_inv s (q ++ [e]) flat.
Proof.
  intros (Hq & Hwf & Hm & Hsid & Hty) Ht He Hok. unfold hdr_inv.
  split; [apply rx_ok_app; assumption|].
  repeat split; auto. unfold view in *. rewrite chunks_app_terminal by assumption. exact Hty.
Qed.

(* the simulation between the model of the reader and the reference machine *)
Definition hdr_sim (x : arun) (r : href) : Prop :=
  match r_st r with
  | HWaiting => h_st x = ARWaiting /\ hdr_inv (h_s x) (h_q x) (r_flat r) /\ r_ended r = terminated (h_q x)
  | HResolved t i =>
      h_st x = ARResolved t i /\ rx_ok (h_q x) /\ r_ended r = terminated (h_q x) /\
      exists rest, uni_header (r_flat r) = Some (t, i, rest) /\ view (h_s x) (h_q x) = rest
  | HDropped => h_st x = ARDropped
  end.

Lemma hdr_sim_init : hdr_sim arun_init href_init.
Proof.
  unfold hdr_sim, arun_init, href_init, hdr_inv, memo_ok, view. cbn.
  repeat split; auto; constructor.
Qed.

Lemma hdr_sim_step x r a : action_ok a -> hdr_sim x r -> hdr_sim (arun_step x a) (href_step r a).
Proof.
  intros Hok Hsim. unfold hdr_sim in *. destruct a as [e|]; cbn [arun_step href_step action_ok] in *.
  - (* an arrival *)
    unfold arun_arrive. destruct (r_st r) as [|t i|] eqn:Est.
    + destruct Hsim as (Hst & Hinv & Hend). rewrite Hend.
      destruct (terminated (h_q x)) eqn:Ht.
      * rewrite Est. cbn [h_st h_s h_q]. split; [exact Hst|split; [exact Hinv|congruence]].
      * destruct e as [b| |qe]; cbn [r_st r_flat r_ended h_st h_s h_q]; rewrite ?Est.
        -- destruct Hok as [Hne Hwb]. split; [exact Hst|]. split; [apply hdr_inv_chunk; assumption|].
           rewrite terminated_app, Ht. reflexivity.
        -- split; [exact Hst|]. split; [apply hdr_inv_terminal; auto|]. rewrite terminated_app, Ht. reflexivity.
        -- split; [exact Hst|]. split; [apply hdr_inv_terminal; auto|]. rewrite terminated_app, Ht. reflexivity.
    + destruct Hsim as (Hst & Hq & Hend & rest & Hh & Hv). rewrite Hend.
      destruct (terminated (h_q x)) eqn:Ht.
      * rewrite Est. cbn [h_st h_s h_q]. split; [exact Hst|split; [exact Hq|split; [congruence|exists rest; auto]]].
      * destruct e as [b| |qe]; cbn [r_st r_flat r_ended h_st h_s h_q]; rewrite ?Est.
        -- destruct Hok as [Hne Hwb]. split; [exact Hst|]. split; [apply rx_ok_app; [exact Hq|split; assumption]|].
           split; [rewrite terminated_app, Ht; reflexivity|].
           exists (rest ++ b). split; [apply uni_header_app; exact Hh|].
           unfold view in *. rewrite chunks_app_chunk by exact Ht. rewrite app_assoc. congruence.
        -- split; [exact Hst|]. split; [apply rx_ok_app; assumption|].
           split; [rewrite terminated_app, Ht; reflexivity|].
           exists rest. split; [exact Hh|]. unfold view in *. rewrite chunks_app_terminal by auto. exact Hv.
        -- split; [exact Hst|]. split; [apply rx_ok_app; assumption|].
           split; [rewrite terminated_app, Ht; reflexivity|].
           exists rest. split; [exact Hh|]. unfold view in *. rewrite chunks_app_terminal by auto. exact Hv.
    + destruct (r_ended r); [rewrite Est; exact Hsim|].
      destruct e; cbn [r_st]; rewrite ?Est; exact Hsim.
  - (* a poll *)
    unfold arun_poll. destruct (r_st r) as [|t i|] eqn:Est.
    + destruct Hsim as (Hst & Hinv & Hend). rewrite Hst.
      pose proof (poll_type_char _ _ _ Hinv) as H.
      destruct (uni_header (r_flat r)) as [[[ty sid] rest]|] eqn:Eh.
      * destruct H as (s' & q' & Hr & Hty & Hsid & Hv & Hw & Hq' & Hterm). rewrite Hr, Hty.
        cbn [r_st r_flat r_ended h_st h_s h_q]. rewrite Hsid.
        repeat split; auto; [congruence|]. exists rest. auto.
      * rewrite Hend. destruct (terminated (h_q x)).
        -- destruct H as (s' & q' & Hr). rewrite Hr. reflexivity.
        -- destruct H as (s' & Hr & Hinv'). rewrite Hr, Est. cbn [h_st h_s h_q].
           split; [reflexivity|split; [exact Hinv'|exact Hend]].
    + destruct Hsim as (Hst & Hrest). rewrite Hst, Est. cbn. rewrite Hst. auto.
    + rewrite Hsim, Est. exact Hsim.
Qed.

(* Memo safety + liveness of the header reader, for every chunking and every interleaving:
   the model's status is the reference machine's, and once resolved the bytes handed on are those after the header *)
Theorem header_reader_refines : forall h, Forall action_ok h ->
  hdr_sim (fold_left arun_step h arun_init) (fold_left href_step h href_init).
Proof.
  intros h. generalize hdr_sim_init. generalize arun_init, href_init.
  induction h as [|a h IH]; intros x r Hsim Hok; [exact Hsim|].
  inversion Hok; subst. cbn [fold_left]. apply IH; [apply hdr_sim_step; assumption|assumption].
Qed.

(* corollaries in the shape other properties use *)
Corollary poll_type_no_panic s q flat : hdr_inv s q flat ->
  match poll_type s q with
  | (Ready (Panic _), _, _) => False
  | (Ready (Err (PInternal _)), _, _) => False
  | (Ready (Err (PIncoming _)), _, _) => False
  | _ => True
  end.
Proof.
  intros H. pose proof (poll_type_char s q flat H) as Hc.
  destruct (uni_header flat) as [[[t i] rest]|].
  - destruct Hc as (s' & q' & Hr & _). rewrite Hr. exact I.
  - destruct (terminated q).
    + destruct Hc as (s' & q' & Hr). rewrite Hr. exact I.
    + destruct Hc as (s' & Hr & _). rewrite Hr. exact I.
Qed.

(* progress: once FIN or RESET is queued the call does not return Pending *)
Corollary poll_type_progress s q flat : hdr_inv s q flat -> terminated q = true ->
  exists r s' q', poll_type s q = (Ready r, s', q') /\ (r = Ok tt \/ r = Err PEnd).
Proof.
  intros H Ht. pose proof (poll_type_char s q flat H) as Hc. rewrite Ht in Hc.
  destruct (uni_header flat) as [[[t i] rest]|].
  - destruct Hc as (s' & q' & Hr & _). eauto 6.
  - destruct Hc as (s' & q' & Hr). eauto 6.
Qed.

(* the pinned form: statuses agree; once resolved, what the next layer reads is exactly what follows the header *)
Theorem header_reader_statement : forall h, Forall action_ok h ->
  let x := fold_left arun_step h arun_init in
  let r := fold_left href_step h href_init in
  match r_st r with
  | HWaiting => h_st x = ARWaiting
  | HResolved t i =>
      h_st x = ARResolved t i /\
      exists rest, uni_header (r_flat r) = Some (t, i, rest) /\ ar_buf (h_s x) ++ chunks (h_q x) = rest
  | HDropped => h_st x = ARDropped
  end.
Proof.
  intros h Hok x r. pose proof (header_reader_refines h Hok) as H. fold x r in H.
  unfold hdr_sim in H. destruct (r_st r).
  - tauto.
  - destruct H as (H1 & _ & _ & rest & H2 & H3). split; [exact H1|]. exists rest. auto.
  - exact H.
Qed.
