(* Proofs for C02: Frame::decode / FrameDecoder / FrameStream against the RFC 9114 7.1 reference reader. *)
From H3V Require Import Base.Bytes Base.BytesLemmas Gen.GenVarint Gen.GenCodes Gen.GenFrameTypes
  Spec.RFC9000 Spec.FrameVocab Spec.Frames Model.Varint Model.FrameDec Model.FrameStream Spec.FrameTrace
  Proofs.VarintProofs.
From Coq Require Import ZifyBool ZifyNat ZifyN.
Ltac Zify.zify_post_hook ::= Z.div_mod_to_equations.

(* the identifier lists Settings::decode decides with are those of RFC 9114 7.2.4.1 / the registered settings *)
Lemma settings_id_lists :
  fs_forbidden_ids = [0; 2; 3; 4; 5] /\
  fs_supported_ids = [6; 1; 7; 8; 727725890; 727725891; 51] /\
  fs_settings_len = 8 /\ fs_settings_min = 2.
Proof. repeat split. Qed.

(* ---------- T4: error codes ---------- *)
Lemma fserr_code_table :
  fserr_code FsUnexpectedEnd = Some H3_FRAME_ERROR_rfc /\
  (forall e, fserr_code (FsProto PK_Malformed e) = Some H3_FRAME_ERROR_rfc) /\
  (forall e, fserr_code (FsProto PK_InvalidFrameValue e) = Some H3_FRAME_ERROR_rfc) /\
  (forall e, fserr_code (FsProto PK_ForbiddenFrame e) = Some H3_FRAME_UNEXPECTED_rfc) /\
  (forall e, fserr_code (FsProto PK_Settings e) = Some H3_SETTINGS_ERROR_rfc).
Proof. repeat split. Qed.

(* the control-stream site (poll_control) and the way both sites reach the table; the decoder has no state but the memo *)
Lemma fserr_code_sites :
  req_proto_via_table = true /\ ctl_proto_via_table = true /\
  (forall e, fserr_code_ctl e = fserr_code e) /\
  fd_decoder_field_count = 1 /\ fs_stream_field_count = 3.
Proof. split; [reflexivity|]. split; [reflexivity|]. split; [intros [k e|q|]; reflexivity|]. split; reflexivity. Qed.

(* ====================================================================================== *)
(* Part A: the model's varint reader against RFC 9000 on a byte string                     *)
(* ====================================================================================== *)

Lemma rfc_vi_len_cases b0 : b0 < 256 ->
  rfc_vi_len b0 = 1 \/ rfc_vi_len b0 = 2 \/ rfc_vi_len b0 = 4 \/ rfc_vi_len b0 = 8.
Proof.
  intros Hb. unfold rfc_vi_len.
  assert (Ht : b0 / 64 = 0 \/ b0 / 64 = 1 \/ b0 / 64 = 2 \/ b0 / 64 = 3) by lia.
  destruct Ht as [-> | [-> | [-> | ->]]]; vm_compute; auto.
Qed.

Lemma len_cons (x : N) (l : bytes) : len (x :: l) = len l + 1.
Proof. unfold len. cbn [length]. lia. Qed.

Lemma len_nil : len ([] : bytes) = 0.
Proof. reflexivity. Qed.

Lemma len_zero_nil (l : bytes) : len l = 0 -> l = [].
Proof. destruct l; [reflexivity|]. rewrite len_cons. lia. Qed.

Lemma len_firstn (n : nat) (l : bytes) : N.of_nat n <= len l -> len (firstn n l) = N.of_nat n.
Proof. unfold len. intros H. rewrite firstn_length. lia. Qed.

Lemma len_skipn (n : nat) (l : bytes) : len (skipn n l) = len l - N.of_nat n.
Proof. unfold len. rewrite skipn_length. lia. Qed.

Lemma take_some_inv v x r :
  rfc_take_varint v = Some (x, r) ->
  exists b0 t, v = b0 :: t /\ rfc_vi_len b0 <= len v /\
    x = rfc_vi_value (firstn (N.to_nat (rfc_vi_len b0)) v) /\ r = skipn (N.to_nat (rfc_vi_len b0)) v.
Proof.
  unfold rfc_take_varint. destruct v as [|b0 t]; [discriminate|].
  destruct (N.ltb_spec (len (b0 :: t)) (rfc_vi_len b0)) as [Hlt|Hge]; [discriminate|].
  intros H. inversion H; subst. exists b0, t. repeat split; auto.
Qed.

Lemma take_some_len v x r : wf_bytes v -> rfc_take_varint v = Some (x, r) ->
  exists l, (l = 1 \/ l = 2 \/ l = 4 \/ l = 8) /\ len v = l + len r /\ x < 2 ^ (8 * l - 2) /\
            v = firstn (N.to_nat l) v ++ r.
Proof.
  intros Hwf H. destruct (take_some_inv _ _ _ H) as (b0 & t & Hv & Hl & Hx & Hr).
  assert (Hb : b0 < 256) by (subst v; apply wf_bytes_cons in Hwf; tauto).
  exists (rfc_vi_len b0). split; [apply rfc_vi_len_cases; exact Hb|].
  split; [|split].
  - subst r. rewrite len_skipn. lia.
  - subst x. unfold rfc_vi_value.
    rewrite len_firstn by lia. rewrite N2Nat.id.
    apply N.mod_lt. apply N.pow_nonzero. lia.
  - subst r. symmetry. apply firstn_skipn.
Qed.

Lemma take_some_lt62 v x r : wf_bytes v -> rfc_take_varint v = Some (x, r) -> x < 2 ^ 62.
Proof.
  intros Hwf H. destruct (take_some_len _ _ _ Hwf H) as (l & Hl & _ & Hx & _).
  destruct Hl as [-> | [-> | [-> | ->]]]; cbn in Hx;
    (eapply N.lt_le_trans; [exact Hx|]); vm_compute; discriminate.
Qed.

Lemma take_some_app v w x r :
  rfc_take_varint v = Some (x, r) -> rfc_take_varint (v ++ w) = Some (x, r ++ w).
Proof.
  intros H. destruct (take_some_inv _ _ _ H) as (b0 & t & Hv & Hl & Hx & Hr).
  subst v. cbn [app]. unfold rfc_take_varint.
  change (b0 :: t ++ w) with ((b0 :: t) ++ w).
  destruct (N.ltb_spec (len ((b0 :: t) ++ w)) (rfc_vi_len b0)) as [Hlt|Hge].
  { rewrite len_app in Hlt. lia. }
  assert (Hn : (N.to_nat (rfc_vi_len b0) <= length (b0 :: t))%nat) by (unfold len in Hl; lia).
  rewrite firstn_app, skipn_app.
  replace (N.to_nat (rfc_vi_len b0) - length (b0 :: t))%nat with 0%nat by lia.
  cbn [firstn skipn]. rewrite app_nil_r. subst x r. reflexivity.
Qed.

Lemma take_none_short v : rfc_take_varint v = None -> v = [] \/ exists b0 t, v = b0 :: t /\ len v < rfc_vi_len b0.
Proof.
  unfold rfc_take_varint. destruct v as [|b0 t]; [auto|].
  destruct (N.ltb_spec (len (b0 :: t)) (rfc_vi_len b0)) as [Hlt|Hge]; [|discriminate].
  intros _. right. exists b0, t. auto.
Qed.

(* the model's reader agrees *)
Lemma vi_take_some v x r : wf_bytes v -> rfc_take_varint v = Some (x, r) -> vi_decode v = (Ok x, r).
Proof.
  intros Hwf H. destruct (take_some_inv _ _ _ H) as (b0 & t & Hv & Hl & Hx & Hr). subst v.
  rewrite vi_decode_complete by assumption. subst x r. reflexivity.
Qed.

Lemma vi_take_none v : wf_bytes v -> rfc_take_varint v = None ->
  exists k r, vi_decode v = (Err k, r) /\ k <= 3 /\ (0 < k -> v <> []).
Proof.
  intros Hwf H. destruct (take_none_short _ H) as [->|(b0 & t & -> & Hlt)].
  - exists 0, []. rewrite vi_decode_empty. repeat split; lia.
  - assert (Hb : b0 < 256) by (apply wf_bytes_cons in Hwf; tauto).
    rewrite vi_decode_truncated by assumption. exists (tag_of b0), t. repeat split.
    + unfold tag_of. lia.
    + intros _. discriminate.
Qed.

Lemma take_wf v x r : wf_bytes v -> rfc_take_varint v = Some (x, r) -> wf_bytes r.
Proof.
  intros Hwf H. destruct (take_some_inv _ _ _ H) as (b0 & t & Hv & Hl & Hx & Hr). subst r.
  apply wf_bytes_skipn. exact Hwf.
Qed.

(* ====================================================================================== *)
(* Part B: one step of the reference reader, as a view of the head of the byte string      *)
(* ====================================================================================== *)

Inductive head_view :=
| HEmpty
| HCut                                   (* the string stops inside a header, or inside a non-DATA payload *)
| HData (l : N) (rest : bytes)
| HWt (sid : N) (rest : bytes)
| HFrame (ty : N) (p rest : bytes).

Definition head_of (v : bytes) : head_view :=
  match v with
  | [] => HEmpty
  | _ =>
    match rfc_take_varint v with
    | None => HCut
    | Some (ty, r1) =>
      if ty =? T_WEBTRANSPORT_STREAM then
        match rfc_take_varint r1 with None => HCut | Some (sid, r2) => HWt sid r2 end
      else
        match rfc_take_varint r1 with
        | None => HCut
        | Some (l, r2) =>
          if ty =? T_DATA then HData l r2
          else if len r2 <? l then HCut
          else HFrame ty (firstn (N.to_nat l) r2) (skipn (N.to_nat l) r2)
        end
    end
  end.

Notation sc := settings_verdict.

Lemma outcome_from_S f v en :
  outcome_from (S f) sc v en =
  match head_of v with
  | HEmpty => ([], boundary_tail en)
  | HCut => ([], cut_tail en)
  | HWt sid _ => ([TFrame (FWebTransport sid)], Handover)
  | HData l r2 =>
      if len r2 <? l then (TFrame (FData l) :: map TByte r2, cut_tail en)
      else let '(ts, t) := outcome_from f sc (skipn (N.to_nat l) r2) en in
           (TFrame (FData l) :: map TByte (firstn (N.to_nat l) r2) ++ ts, t)
  | HFrame ty p rest =>
      match classify sc ty p with
      | CKnown fr => let '(ts, t) := outcome_from f sc rest en in (TFrame fr :: ts, t)
      | CBad e => ([], ProtoError e)
      | CSkip => outcome_from f sc rest en
      end
  end.
Proof.
  destruct v as [|b0 t]; [reflexivity|].
  cbn [outcome_from head_of].
  destruct (rfc_take_varint (b0 :: t)) as [[ty r1]|]; [|reflexivity].
  destruct (ty =? T_WEBTRANSPORT_STREAM).
  { destruct (rfc_take_varint r1) as [[sid r2]|]; reflexivity. }
  destruct (rfc_take_varint r1) as [[l r2]|]; [|reflexivity].
  destruct (ty =? T_DATA); [reflexivity|].
  destruct (len r2 <? l); reflexivity.
Qed.

(* inversion of head_of *)
Lemma head_data_inv v l r2 : head_of v = HData l r2 ->
  exists r1, rfc_take_varint v = Some (T_DATA, r1) /\ rfc_take_varint r1 = Some (l, r2).
Proof.
  unfold head_of. destruct v as [|b0 t]; [discriminate|].
  destruct (rfc_take_varint (b0 :: t)) as [[ty r1]|] eqn:E1; [|discriminate].
  destruct (N.eqb_spec ty T_WEBTRANSPORT_STREAM).
  { destruct (rfc_take_varint r1) as [[sid r2']|]; discriminate. }
  destruct (rfc_take_varint r1) as [[l' r2']|] eqn:E2; [|discriminate].
  destruct (N.eqb_spec ty T_DATA).
  - intros H; inversion H; subst. exists r1. auto.
  - destruct (len r2' <? l'); discriminate.
Qed.

Lemma head_wt_inv v sid r2 : head_of v = HWt sid r2 ->
  exists r1, rfc_take_varint v = Some (T_WEBTRANSPORT_STREAM, r1) /\ rfc_take_varint r1 = Some (sid, r2).
Proof.
  unfold head_of. destruct v as [|b0 t]; [discriminate|].
  destruct (rfc_take_varint (b0 :: t)) as [[ty r1]|] eqn:E1; [|discriminate].
  destruct (N.eqb_spec ty T_WEBTRANSPORT_STREAM).
  { destruct (rfc_take_varint r1) as [[sid' r2']|] eqn:E2; [|discriminate].
    intros H; inversion H; subst. exists r1. auto. }
  destruct (rfc_take_varint r1) as [[l' r2']|]; [|discriminate].
  destruct (ty =? T_DATA); [discriminate|].
  destruct (len r2' <? l'); discriminate.
Qed.

Lemma head_frame_inv v ty p rest : head_of v = HFrame ty p rest ->
  exists r1 l r2, rfc_take_varint v = Some (ty, r1) /\ rfc_take_varint r1 = Some (l, r2) /\
    ty <> T_WEBTRANSPORT_STREAM /\ ty <> T_DATA /\ l <= len r2 /\
    p = firstn (N.to_nat l) r2 /\ rest = skipn (N.to_nat l) r2.
Proof.
  unfold head_of. destruct v as [|b0 t]; [discriminate|].
  destruct (rfc_take_varint (b0 :: t)) as [[ty' r1]|] eqn:E1; [|discriminate].
  destruct (N.eqb_spec ty' T_WEBTRANSPORT_STREAM).
  { destruct (rfc_take_varint r1) as [[sid' r2']|]; discriminate. }
  destruct (rfc_take_varint r1) as [[l' r2']|] eqn:E2; [|discriminate].
  destruct (N.eqb_spec ty' T_DATA); [discriminate|].
  destruct (N.ltb_spec (len r2') l') as [Hlt|Hge]; [discriminate|].
  intros Hi; inversion Hi; subst. exists r1, l', r2'. repeat split; auto.
Qed.

Inductive cut_reason (v : bytes) : Prop :=
| cut_ty : v <> [] -> rfc_take_varint v = None -> cut_reason v
| cut_wt r1 : rfc_take_varint v = Some (T_WEBTRANSPORT_STREAM, r1) -> rfc_take_varint r1 = None -> cut_reason v
| cut_len ty r1 : rfc_take_varint v = Some (ty, r1) -> ty <> T_WEBTRANSPORT_STREAM ->
    rfc_take_varint r1 = None -> cut_reason v
| cut_payload ty r1 l r2 : rfc_take_varint v = Some (ty, r1) -> ty <> T_WEBTRANSPORT_STREAM ->
    rfc_take_varint r1 = Some (l, r2) -> ty <> T_DATA -> len r2 < l -> cut_reason v.

Lemma head_cut_inv v : head_of v = HCut -> cut_reason v.
Proof.
  unfold head_of. destruct v as [|b0 t]; [discriminate|].
  destruct (rfc_take_varint (b0 :: t)) as [[ty r1]|] eqn:E1.
  2:{ intros _. apply cut_ty; [discriminate|exact E1]. }
  destruct (N.eqb_spec ty T_WEBTRANSPORT_STREAM).
  { subst ty. destruct (rfc_take_varint r1) as [[sid' r2']|] eqn:E2; [discriminate|].
    intros _. eapply cut_wt; eauto. }
  destruct (rfc_take_varint r1) as [[l' r2']|] eqn:E2.
  2:{ intros _. eapply cut_len; eauto. }
  destruct (N.eqb_spec ty T_DATA); [discriminate|].
  destruct (N.ltb_spec (len r2') l') as [Hlt|Hge]; [|discriminate].
  intros _. eapply cut_payload; eauto.
Qed.

(* sizes: a complete header takes at least two bytes *)
Lemma take_two v ty r1 l r2 : wf_bytes v ->
  rfc_take_varint v = Some (ty, r1) -> rfc_take_varint r1 = Some (l, r2) ->
  len r2 + 2 <= len v /\ wf_bytes r2.
Proof.
  intros Hwf H1 H2.
  pose proof (take_wf _ _ _ Hwf H1) as Hw1.
  destruct (take_some_len _ _ _ Hwf H1) as (l1 & Hl1 & Hlen1 & _).
  destruct (take_some_len _ _ _ Hw1 H2) as (l2 & Hl2 & Hlen2 & _).
  split; [lia|]. eapply take_wf; eauto.
Qed.

Lemma head_frame_size v ty p rest : wf_bytes v -> head_of v = HFrame ty p rest ->
  len rest + 2 <= len v /\ wf_bytes rest /\ wf_bytes p.
Proof.
  intros Hwf H. destruct (head_frame_inv _ _ _ _ H) as (r1 & l & r2 & H1 & H2 & _ & _ & Hl & -> & ->).
  destruct (take_two _ _ _ _ _ Hwf H1 H2) as [Hs Hw2].
  rewrite len_skipn. repeat split; [lia|apply wf_bytes_skipn; auto|apply wf_bytes_firstn; auto].
Qed.

Lemma head_data_size v l r2 : wf_bytes v -> head_of v = HData l r2 -> len r2 + 2 <= len v /\ wf_bytes r2.
Proof.
  intros Hwf H. destruct (head_data_inv _ _ _ H) as (r1 & H1 & H2). eapply take_two; eauto.
Qed.

(* the reference reader does not depend on its fuel once there is enough of it *)
Lemma outcome_from_fuel en : forall f1 f2 v, wf_bytes v ->
  (length v < f1)%nat -> (length v < f2)%nat -> outcome_from f1 sc v en = outcome_from f2 sc v en.
Proof.
  induction f1 as [|f1 IH]; intros f2 v Hwf H1 H2; [lia|].
  destruct f2 as [|f2]; [lia|].
  rewrite !outcome_from_S.
  destruct (head_of v) as [| |l r2|sid r2|ty p rest] eqn:Hh; try reflexivity.
  - destruct (head_data_size _ _ _ Hwf Hh) as [Hs Hw].
    destruct (len r2 <? l); [reflexivity|].
    rewrite (IH f2); [reflexivity|apply wf_bytes_skipn; auto| |];
      rewrite skipn_length; unfold len in Hs; lia.
  - destruct (head_frame_size _ _ _ _ Hwf Hh) as (Hs & Hw & _).
    assert (Hr1 : (length rest < f1)%nat) by (unfold len in Hs; lia).
    assert (Hr2 : (length rest < f2)%nat) by (unfold len in Hs; lia).
    rewrite (IH f2 rest Hw Hr1 Hr2). reflexivity.
Qed.

Lemma frame_outcome_unfold v en : wf_bytes v ->
  frame_outcome sc v en =
  match head_of v with
  | HEmpty => ([], boundary_tail en)
  | HCut => ([], cut_tail en)
  | HWt sid _ => ([TFrame (FWebTransport sid)], Handover)
  | HData l r2 =>
      if len r2 <? l then (TFrame (FData l) :: map TByte r2, cut_tail en)
      else let '(ts, t) := frame_outcome sc (skipn (N.to_nat l) r2) en in
           (TFrame (FData l) :: map TByte (firstn (N.to_nat l) r2) ++ ts, t)
  | HFrame ty p rest =>
      match classify sc ty p with
      | CKnown fr => let '(ts, t) := frame_outcome sc rest en in (TFrame fr :: ts, t)
      | CBad e => ([], ProtoError e)
      | CSkip => frame_outcome sc rest en
      end
  end.
Proof.
  intros Hwf. unfold frame_outcome at 1. rewrite outcome_from_S.
  destruct (head_of v) as [| |l r2|sid r2|ty p rest] eqn:Hh; try reflexivity.
  - destruct (head_data_size _ _ _ Hwf Hh) as [Hs Hw].
    destruct (len r2 <? l); [reflexivity|]. unfold frame_outcome.
    rewrite (outcome_from_fuel en (length v) (S (length (skipn (N.to_nat l) r2)))); [reflexivity|apply wf_bytes_skipn; auto| |lia].
    rewrite skipn_length; unfold len in Hs; lia.
  - destruct (head_frame_size _ _ _ _ Hwf Hh) as (Hs & Hw & _). unfold frame_outcome.
    rewrite (outcome_from_fuel en (length v) (S (length rest))); [reflexivity|auto| |lia].
    unfold len in Hs; lia.
Qed.

(* ====================================================================================== *)
(* Part C: Frame::decode against the reference step                                       *)
(* ====================================================================================== *)

Lemma settings_scan_no_panic : forall fuel v seen, wf_bytes v -> (length v < fuel)%nat ->
  is_panic (settings_scan fuel v seen) = false.
Proof.
  induction fuel as [|fuel IH]; intros v seen Hwf Hf; [lia|].
  cbn [settings_scan]. destruct v as [|b0 t]; [reflexivity|].
  destruct (len (b0 :: t) <? fs_settings_min); [reflexivity|].
  destruct (rfc_take_varint (b0 :: t)) as [[id r1]|] eqn:E1.
  2:{ destruct (vi_take_none _ Hwf E1) as (k & r & -> & _). reflexivity. }
  rewrite (vi_take_some _ _ _ Hwf E1).
  pose proof (take_wf _ _ _ Hwf E1) as Hw1.
  destruct (rfc_take_varint r1) as [[val r2]|] eqn:E2.
  2:{ destruct (vi_take_none _ Hw1 E2) as (k & r & -> & _). reflexivity. }
  rewrite (vi_take_some _ _ _ Hw1 E2).
  destruct (take_two _ _ _ _ _ Hwf E1 E2) as [Hs Hw2].
  assert (Hr2 : (length r2 < fuel)%nat) by (unfold len in Hs; lia).
  destruct (memN id fs_forbidden_ids); [reflexivity|].
  destruct (memN id fs_supported_ids).
  - destruct (fs_settings_len <=? len seen); [reflexivity|].
    destruct (vi_from_u64 id); [|reflexivity]. destruct (vi_from_u64 val); [|reflexivity].
    destruct (memN id seen); [reflexivity|]. apply IH; auto.
  - apply IH; auto.
Qed.

Lemma settings_check_verdict p : wf_bytes p ->
  match settings_verdict p with
  | None => exists u, settings_check p = Ok u
  | Some e => settings_check p = Err e
  end.
Proof.
  intros Hwf. unfold settings_verdict.
  pose proof (settings_scan_no_panic (S (length p)) p [] Hwf (Nat.lt_succ_diag_r _)) as Hnp.
  unfold settings_check in *. destruct (settings_scan (S (length p)) p []) as [u|e|s]; eauto. discriminate.
Qed.

Lemma fd_nil : frame_decode [] = (Err (Incomplete fdec_ty_addend), 0).
Proof. reflexivity. Qed.

Lemma fd_wt v sid r2 : wf_bytes v -> head_of v = HWt sid r2 ->
  frame_decode v = (Ok (FWebTransport sid), len v - len r2).
Proof.
  intros Hwf H. destruct (head_wt_inv _ _ _ H) as (r1 & H1 & H2).
  unfold frame_decode. rewrite (vi_take_some _ _ _ Hwf H1).
  change (T_WEBTRANSPORT_STREAM =? fdec_wt_type) with true. cbv beta iota.
  rewrite (vi_take_some _ _ _ (take_wf _ _ _ Hwf H1) H2). reflexivity.
Qed.

Lemma fd_data v l r2 : wf_bytes v -> head_of v = HData l r2 ->
  frame_decode v = (Ok (FData l), len v - len r2).
Proof.
  intros Hwf H. destruct (head_data_inv _ _ _ H) as (r1 & H1 & H2).
  unfold frame_decode. rewrite (vi_take_some _ _ _ Hwf H1).
  change (T_DATA =? fdec_wt_type) with false. cbv beta iota.
  rewrite (vi_take_some _ _ _ (take_wf _ _ _ Hwf H1) H2).
  change (T_DATA =? fdec_data_type) with true. reflexivity.
Qed.

(* the memo: an Incomplete(m) answer stays right for every extension shorter than m *)
Definition memo_sound (m : N) (v : bytes) : Prop :=
  forall w, len (v ++ w) < m -> head_of (v ++ w) = HCut.

Lemma head_cut_of_reason v : cut_reason v -> head_of v = HCut.
Proof.
  intros [Hne H1 | r1 H1 H2 | ty r1 H1 Hty H2 | ty r1 l r2 H1 Hty H2 Hd Hl]; unfold head_of.
  - destruct v; [congruence|]. rewrite H1. reflexivity.
  - destruct v; [discriminate|]. rewrite H1. change (T_WEBTRANSPORT_STREAM =? T_WEBTRANSPORT_STREAM) with true.
    cbv beta iota. rewrite H2. reflexivity.
  - destruct v; [discriminate|]. rewrite H1. destruct (N.eqb_spec ty T_WEBTRANSPORT_STREAM); [contradiction|].
    rewrite H2. reflexivity.
  - destruct v; [discriminate|]. rewrite H1. destruct (N.eqb_spec ty T_WEBTRANSPORT_STREAM); [contradiction|].
    rewrite H2. destruct (N.eqb_spec ty T_DATA); [contradiction|].
    destruct (N.ltb_spec (len r2) l); [reflexivity|lia].
Qed.

Lemma fd_cut v : wf_bytes v -> head_of v = HCut ->
  exists m, frame_decode v = (Err (Incomplete m), 0) /\ memo_sound m v.
Proof.
  intros Hwf H. apply head_cut_inv in H.
  destruct H as [Hne H1 | r1 H1 H2 | ty r1 H1 Hty H2 | ty r1 l r2 H1 Hty H2 Hd Hl].
  - destruct (vi_take_none _ Hwf H1) as (k & r & Hd & _).
    assert (Hadd : fdec_ty_addend <= 1) by (vm_compute; discriminate).
    exists (len v + fdec_ty_addend). split.
    + unfold frame_decode. rewrite Hd. reflexivity.
    + intros w Hw. rewrite len_app in Hw. assert (w = []) by (apply len_zero_nil; lia). subst w.
      rewrite app_nil_r. apply head_cut_of_reason. apply cut_ty; auto.
  - pose proof (take_wf _ _ _ Hwf H1) as Hw1.
    destruct (vi_take_none _ Hw1 H2) as (k & r & Hd & Hk & Hk0).
    exists k. split.
    + unfold frame_decode. rewrite (vi_take_some _ _ _ Hwf H1).
      change (T_WEBTRANSPORT_STREAM =? fdec_wt_type) with true. cbv beta iota. rewrite Hd. reflexivity.
    + intros w Hw. exfalso.
      destruct (take_some_len _ _ _ Hwf H1) as (l1 & Hl1 & Hlen1 & Hx & _).
      assert (l1 <> 1).
      { intros ->. change (2 ^ (8 * 1 - 2)) with 64 in Hx. unfold T_WEBTRANSPORT_STREAM in Hx. lia. }
      rewrite len_app in Hw.
      assert (0 < k) by lia. specialize (Hk0 H0).
      assert (1 <= len r1). { destruct r1; [congruence|]. rewrite len_cons. lia. }
      lia.
  - pose proof (take_wf _ _ _ Hwf H1) as Hw1.
    destruct (vi_take_none _ Hw1 H2) as (k & r & Hd & _).
    assert (Hadd : fdec_len_addend <= 1) by (vm_compute; discriminate).
    exists (len v + fdec_len_addend). split.
    + unfold frame_decode. rewrite (vi_take_some _ _ _ Hwf H1).
      destruct (N.eqb_spec ty fdec_wt_type) as [e|_]; [exfalso; apply Hty; exact e|].
      rewrite Hd. reflexivity.
    + intros w Hw. rewrite len_app in Hw. assert (w = []) by (apply len_zero_nil; lia). subst w.
      rewrite app_nil_r. apply head_cut_of_reason. eapply cut_len; eauto.
  - pose proof (take_wf _ _ _ Hwf H1) as Hw1.
    assert (Hadd : fdec_payload_addend <= 2) by (vm_compute; discriminate).
    exists (fdec_payload_addend + l). split.
    + unfold frame_decode. rewrite (vi_take_some _ _ _ Hwf H1).
      destruct (N.eqb_spec ty fdec_wt_type) as [e|_]; [exfalso; apply Hty; exact e|].
      rewrite (vi_take_some _ _ _ Hw1 H2). cbv zeta.
      destruct (N.eqb_spec ty fdec_data_type) as [e|_]; [exfalso; apply Hd; exact e|].
      unfold fdec_payload_cmp_strict.
      destruct (N.ltb_spec (len r2) l); [reflexivity|lia].
    + intros w Hw. apply head_cut_of_reason.
      eapply cut_payload; [apply take_some_app; exact H1|exact Hty|apply take_some_app; exact H2|exact Hd|].
      destruct (take_two _ _ _ _ _ Hwf H1 H2) as [Hs _].
      rewrite len_app in *. lia.
Qed.

Definition bad_matches (fe : ferr) (e : perr_class) : Prop :=
  match e with
  | PCMalformed => fe = Malformed
  | PCForbidden t => fe = Unsupported t
  | PCSettings se => fe = ESettings se
  end.

Lemma eqb_false a b : a <> b -> (a =? b) = false.
Proof. intros H. apply N.eqb_neq. exact H. Qed.

Lemma fd_frame_unfold v ty r1 l r2 : wf_bytes v ->
  rfc_take_varint v = Some (ty, r1) -> rfc_take_varint r1 = Some (l, r2) ->
  ty <> T_WEBTRANSPORT_STREAM -> ty <> T_DATA -> l <= len r2 ->
  frame_decode v =
    let p := firstn (N.to_nat l) r2 in
    match assoc ty fdec_arms with
    | None => (Err (Unknown ty), len v - len r2 + l)
    | Some a =>
      match read_arm a ty l p with
      | (Ok f, rest') =>
          if negb (len rest' =? 0) then (Err Malformed, 0) else (Ok f, len v - len r2 + (len p - len rest'))
      | (Err e, _) => (Err e, 0)
      | (Panic s, _) => (Panic s, 0)
      end
    end.
Proof.
  intros Hwf H1 H2 Hty Hd Hl.
  unfold frame_decode. rewrite (vi_take_some _ _ _ Hwf H1).
  destruct (N.eqb_spec ty fdec_wt_type) as [e|_]; [exfalso; apply Hty; exact e|].
  rewrite (vi_take_some _ _ _ (take_wf _ _ _ Hwf H1) H2). cbv zeta.
  destruct (N.eqb_spec ty fdec_data_type) as [e|_]; [exfalso; apply Hd; exact e|].
  unfold fdec_payload_cmp_strict, fdec_payload_bounded, fdec_unknown_advances, fdec_trailing_check.
  destruct (N.ltb_spec (len r2) l); [lia|]. reflexivity.
Qed.

Lemma vi_from_u64_lt x : x < 2 ^ 62 -> vi_from_u64 x = Some x.
Proof. intros H. rewrite vi_from_u64_spec. destruct (N.ltb_spec x (2 ^ 62)); [reflexivity|lia]. Qed.

(* a payload that must be exactly one varint (CANCEL_PUSH, GOAWAY, MAX_PUSH_ID) *)
Lemma single_varint_arm (mk : N -> frame) p :
  wf_bytes p ->
  match rfc_single_varint p with
  | Some x => exists r, vi_decode p = (Ok x, r) /\ r = [] /\ x < 2 ^ 62
  | None => (exists x r, vi_decode p = (Ok x, r) /\ r <> [] /\ x < 2 ^ 62) \/ (exists k r, vi_decode p = (Err k, r))
  end.
Proof.
  intros Hwf. unfold rfc_single_varint.
  destruct (rfc_take_varint p) as [[x r]|] eqn:E.
  - pose proof (take_some_lt62 _ _ _ Hwf E) as Hx. rewrite (vi_take_some _ _ _ Hwf E) .
    destruct r as [|b r'].
    + exists []. auto.
    + left. exists x, (b :: r'). repeat split; auto. discriminate.
  - destruct (vi_take_none _ Hwf E) as (k & r & Hd & _). right. eauto.
Qed.

Lemma fd_frame v ty p rest : wf_bytes v -> head_of v = HFrame ty p rest ->
  match classify sc ty p with
  | CKnown f => frame_decode v = (Ok f, len v - len rest)
  | CBad e => exists fe, frame_decode v = (Err fe, 0) /\ bad_matches fe e
  | CSkip => frame_decode v = (Err (Unknown ty), len v - len rest)
  end.
Proof.
  intros Hwf H. destruct (head_frame_inv _ _ _ _ H) as (r1 & l & r2 & H1 & H2 & Hty & Hd & Hl & Hp & Hrest).
  rewrite (fd_frame_unfold _ _ _ _ _ Hwf H1 H2 Hty Hd Hl). cbv zeta. rewrite <- Hp.
  destruct (take_two _ _ _ _ _ Hwf H1 H2) as [Hs Hw2].
  assert (Hwp : wf_bytes p) by (subst p; apply wf_bytes_firstn; auto).
  assert (Hlp : len p = l) by (subst p; rewrite len_firstn; lia).
  assert (Hlr : len rest = len r2 - l) by (subst rest; rewrite len_skipn; lia).
  assert (Hpos : len v - len r2 + (len p - len (@nil N)) = len v - len rest) by (rewrite len_nil; lia).
  assert (Hpos' : len v - len r2 + l = len v - len rest) by lia.
  (* HEADERS *)
  destruct (N.eq_dec ty 1) as [->|N1].
  { change (assoc 1 fdec_arms) with (Some ArmHeaders). unfold classify. change (1 =? T_HEADERS) with true.
    cbv beta iota. unfold read_arm. destruct (N.ltb_spec (len p) l); [lia|].
    rewrite firstn_all2 by (unfold len in Hlp; lia). rewrite skipn_all2 by (unfold len in Hlp; lia).
    change (negb (len (@nil N) =? 0)) with false. cbv iota. rewrite Hpos. reflexivity. }
  (* SETTINGS *)
  destruct (N.eq_dec ty 4) as [->|N4].
  { change (assoc 4 fdec_arms) with (Some ArmSettings). unfold classify. change (4 =? T_HEADERS) with false.
    change (4 =? T_CANCEL_PUSH) with false. change (4 =? T_SETTINGS) with true. cbv beta iota.
    unfold read_arm. pose proof (settings_check_verdict p Hwp) as Hv.
    destruct (settings_verdict p) as [e|].
    - rewrite Hv. exists (ESettings e). split; reflexivity.
    - destruct Hv as [u ->]. change (negb (len (@nil N) =? 0)) with false. cbv iota. rewrite Hpos. reflexivity. }
  (* CANCEL_PUSH *)
  destruct (N.eq_dec ty 3) as [->|N3].
  { change (assoc 3 fdec_arms) with (Some (ArmCancelPush true)). unfold classify. change (3 =? T_HEADERS) with false.
    change (3 =? T_CANCEL_PUSH) with true. cbv beta iota. unfold read_arm.
    pose proof (single_varint_arm FCancelPush p Hwp) as Hsv.
    destruct (rfc_single_varint p) as [x|].
    - destruct Hsv as (r & -> & -> & Hx). unfold push_id_try_from. rewrite (vi_from_u64_lt _ Hx). cbn [res_bind].
      change (negb (len (@nil N) =? 0)) with false. cbv iota. rewrite Hpos. reflexivity.
    - destruct Hsv as [(x & r & -> & Hr & Hx)|(k & r & ->)].
      + unfold push_id_try_from. rewrite (vi_from_u64_lt _ Hx). cbn [res_bind].
        destruct (N.eqb_spec (len r) 0) as [e|_]; [apply len_zero_nil in e; contradiction|].
        exists Malformed. split; reflexivity.
      + exists Malformed. split; reflexivity. }
  (* PUSH_PROMISE *)
  destruct (N.eq_dec ty 5) as [->|N5].
  { change (assoc 5 fdec_arms) with (Some (ArmPushPromise true)). unfold classify. change (5 =? T_HEADERS) with false.
    change (5 =? T_CANCEL_PUSH) with false. change (5 =? T_SETTINGS) with false. change (5 =? T_PUSH_PROMISE) with true.
    cbv beta iota. unfold read_arm.
    destruct (rfc_take_varint p) as [[x r]|] eqn:E.
    - rewrite (vi_take_some _ _ _ Hwp E). change (negb (len (@nil N) =? 0)) with false. cbv iota.
      rewrite Hpos. reflexivity.
    - destruct (vi_take_none _ Hwp E) as (k & r & -> & _). exists Malformed. split; reflexivity. }
  (* GOAWAY *)
  destruct (N.eq_dec ty 7) as [->|N7].
  { change (assoc 7 fdec_arms) with (Some (ArmGoaway true)). unfold classify. change (7 =? T_HEADERS) with false.
    change (7 =? T_CANCEL_PUSH) with false. change (7 =? T_SETTINGS) with false. change (7 =? T_PUSH_PROMISE) with false.
    change (7 =? T_GOAWAY) with true. cbv beta iota. unfold read_arm.
    pose proof (single_varint_arm FGoaway p Hwp) as Hsv.
    destruct (rfc_single_varint p) as [x|].
    - destruct Hsv as (r & -> & -> & Hx).
      change (negb (len (@nil N) =? 0)) with false. cbv iota. rewrite Hpos. reflexivity.
    - destruct Hsv as [(x & r & -> & Hr & Hx)|(k & r & ->)].
      + destruct (N.eqb_spec (len r) 0) as [e|_]; [apply len_zero_nil in e; contradiction|].
        exists Malformed. split; reflexivity.
      + exists Malformed. split; reflexivity. }
  (* MAX_PUSH_ID *)
  destruct (N.eq_dec ty 13) as [->|N13].
  { change (assoc 13 fdec_arms) with (Some (ArmMaxPushId true)). unfold classify. change (13 =? T_HEADERS) with false.
    change (13 =? T_CANCEL_PUSH) with false. change (13 =? T_SETTINGS) with false. change (13 =? T_PUSH_PROMISE) with false.
    change (13 =? T_GOAWAY) with false. change (13 =? T_MAX_PUSH_ID) with true. cbv beta iota. unfold read_arm.
    pose proof (single_varint_arm FMaxPushId p Hwp) as Hsv.
    destruct (rfc_single_varint p) as [x|].
    - destruct Hsv as (r & -> & -> & Hx). unfold push_id_try_from. rewrite (vi_from_u64_lt _ Hx). cbn [res_bind].
      change (negb (len (@nil N) =? 0)) with false. cbv iota. rewrite Hpos. reflexivity.
    - destruct Hsv as [(x & r & -> & Hr & Hx)|(k & r & ->)].
      + unfold push_id_try_from. rewrite (vi_from_u64_lt _ Hx). cbn [res_bind].
        destruct (N.eqb_spec (len r) 0) as [e|_]; [apply len_zero_nil in e; contradiction|].
        exists Malformed. split; reflexivity.
      + exists Malformed. split; reflexivity. }
  (* the HTTP/2 types *)
  assert (Hh2 : forall k, (k = 2 \/ k = 6 \/ k = 8 \/ k = 9) -> ty = k ->
     match classify sc ty p with
     | CKnown f => (Err (Unsupported ty) : res ferr frame, 0) = (Ok f, len v - len rest)
     | CBad e => exists fe, (Err (Unsupported ty) : res ferr frame, 0) = (Err fe, 0) /\ bad_matches fe e
     | CSkip => (Err (Unsupported ty) : res ferr frame, 0) = (Err (Unknown ty), len v - len rest)
     end).
  { intros k Hk ->. destruct Hk as [-> | [-> | [-> | ->]]]; vm_compute classify; eexists; split; reflexivity. }
  destruct (N.eq_dec ty 2) as [->|N2]. { apply (Hh2 2); auto. }
  destruct (N.eq_dec ty 6) as [->|N6]. { apply (Hh2 6); auto. }
  destruct (N.eq_dec ty 8) as [->|N8]. { apply (Hh2 8); auto 6. }
  destruct (N.eq_dec ty 9) as [->|N9]. { apply (Hh2 9); auto 6. }
  clear Hh2.
  (* everything else is unknown *)
  assert (Ha : assoc ty fdec_arms = None).
  { unfold fdec_arms. cbn [assoc]. rewrite !eqb_false by assumption. reflexivity. }
  rewrite Ha. unfold classify, h2_reserved. rewrite !eqb_false by assumption. cbn [orb].
  rewrite Hpos'. reflexivity.
Qed.

(* ====================================================================================== *)
(* Part D: extension of the byte string; skipping unknown frames; FrameDecoder::decode     *)
(* ====================================================================================== *)

Lemma take_not_nil v x r : rfc_take_varint v = Some (x, r) -> v <> [].
Proof. destruct v; [discriminate|discriminate]. Qed.

Lemma head_data_intro v r1 l r2 :
  rfc_take_varint v = Some (T_DATA, r1) -> rfc_take_varint r1 = Some (l, r2) -> head_of v = HData l r2.
Proof.
  intros H1 H2. unfold head_of. destruct v; [discriminate|]. rewrite H1.
  change (T_DATA =? T_WEBTRANSPORT_STREAM) with false. cbv iota. rewrite H2. reflexivity.
Qed.

Lemma head_wt_intro v r1 sid r2 :
  rfc_take_varint v = Some (T_WEBTRANSPORT_STREAM, r1) -> rfc_take_varint r1 = Some (sid, r2) -> head_of v = HWt sid r2.
Proof.
  intros H1 H2. unfold head_of. destruct v; [discriminate|]. rewrite H1.
  change (T_WEBTRANSPORT_STREAM =? T_WEBTRANSPORT_STREAM) with true. cbv iota. rewrite H2. reflexivity.
Qed.

Lemma head_frame_intro v ty r1 l r2 :
  rfc_take_varint v = Some (ty, r1) -> rfc_take_varint r1 = Some (l, r2) ->
  ty <> T_WEBTRANSPORT_STREAM -> ty <> T_DATA -> l <= len r2 ->
  head_of v = HFrame ty (firstn (N.to_nat l) r2) (skipn (N.to_nat l) r2).
Proof.
  intros H1 H2 Hty Hd Hl. unfold head_of. destruct v; [discriminate|]. rewrite H1.
  rewrite (eqb_false _ _ Hty). rewrite H2. rewrite (eqb_false _ _ Hd).
  destruct (N.ltb_spec (len r2) l); [lia|reflexivity].
Qed.

Lemma head_data_app v w l r2 : head_of v = HData l r2 -> head_of (v ++ w) = HData l (r2 ++ w).
Proof.
  intros H. destruct (head_data_inv _ _ _ H) as (r1 & H1 & H2).
  eapply head_data_intro; apply take_some_app; eauto.
Qed.

Lemma head_wt_app v w sid r2 : head_of v = HWt sid r2 -> head_of (v ++ w) = HWt sid (r2 ++ w).
Proof.
  intros H. destruct (head_wt_inv _ _ _ H) as (r1 & H1 & H2).
  eapply head_wt_intro; apply take_some_app; eauto.
Qed.

Lemma head_frame_app v w ty p rest : head_of v = HFrame ty p rest -> head_of (v ++ w) = HFrame ty p (rest ++ w).
Proof.
  intros H. destruct (head_frame_inv _ _ _ _ H) as (r1 & l & r2 & H1 & H2 & Hty & Hd & Hl & -> & ->).
  rewrite (head_frame_intro (v ++ w) ty (r1 ++ w) l (r2 ++ w)); auto using take_some_app.
  - assert (Hn : (N.to_nat l <= length r2)%nat) by (unfold len in Hl; lia).
    rewrite firstn_app, skipn_app. replace (N.to_nat l - length r2)%nat with 0%nat by lia.
    cbn [firstn skipn]. rewrite app_nil_r. reflexivity.
  - rewrite len_app. lia.
Qed.

(* the rest after a head is a suffix of the string *)
Lemma take_suffix v x r : rfc_take_varint v = Some (x, r) -> exists pre, v = pre ++ r.
Proof.
  intros H. destruct (take_some_inv _ _ _ H) as (b0 & t & Hv & Hl & Hx & ->).
  eexists. symmetry. apply firstn_skipn.
Qed.

Lemma head_data_suffix v l r2 : head_of v = HData l r2 -> exists pre, v = pre ++ r2.
Proof.
  intros H. destruct (head_data_inv _ _ _ H) as (r1 & H1 & H2).
  destruct (take_suffix _ _ _ H1) as [p1 ->]. destruct (take_suffix _ _ _ H2) as [p2 ->].
  exists (p1 ++ p2). rewrite app_assoc. reflexivity.
Qed.

Lemma head_wt_suffix v sid r2 : head_of v = HWt sid r2 -> exists pre, v = pre ++ r2.
Proof.
  intros H. destruct (head_wt_inv _ _ _ H) as (r1 & H1 & H2).
  destruct (take_suffix _ _ _ H1) as [p1 ->]. destruct (take_suffix _ _ _ H2) as [p2 ->].
  exists (p1 ++ p2). rewrite app_assoc. reflexivity.
Qed.

Lemma head_frame_suffix v ty p rest : head_of v = HFrame ty p rest -> exists pre, v = pre ++ rest.
Proof.
  intros H. destruct (head_frame_inv _ _ _ _ H) as (r1 & l & r2 & H1 & H2 & _ & _ & _ & -> & ->).
  destruct (take_suffix _ _ _ H1) as [p1 ->]. destruct (take_suffix _ _ _ H2) as [p2 ->].
  exists (p1 ++ p2 ++ firstn (N.to_nat l) r2). rewrite <- !app_assoc. rewrite firstn_skipn. reflexivity.
Qed.

Lemma skipn_suffix (pre r : bytes) : skipn (N.to_nat (len (pre ++ r) - len r)) (pre ++ r) = r.
Proof.
  rewrite len_app. replace (N.to_nat (len pre + len r - len r)) with (length pre) by (unfold len; lia).
  apply skipn_app_exact.
Qed.

(* unknown-type frames are skipped *)
Inductive skips : bytes -> bytes -> Prop :=
| skips_refl v : skips v v
| skips_step v ty p rest v' :
    head_of v = HFrame ty p rest -> classify sc ty p = CSkip -> skips rest v' -> skips v v'.

Lemma skips_outcome v v' en : wf_bytes v -> skips v v' ->
  frame_outcome sc v en = frame_outcome sc v' en /\ wf_bytes v' /\ len v' <= len v.
Proof.
  intros Hwf H. induction H as [v|v ty p rest v' Hh Hc Hs IH].
  - repeat split; auto. lia.
  - destruct (head_frame_size _ _ _ _ Hwf Hh) as (Hsz & Hwr & _).
    destruct (IH Hwr) as (IH1 & IH2 & IH3).
    rewrite (frame_outcome_unfold v en Hwf), Hh, Hc. repeat split; auto. lia.
Qed.

Lemma skips_app v v' w : skips v v' -> skips (v ++ w) (v' ++ w).
Proof.
  intros H. induction H as [v|v ty p rest v' Hh Hc Hs IH].
  - apply skips_refl.
  - eapply skips_step; [apply head_frame_app; exact Hh|exact Hc|exact IH].
Qed.

Lemma skips_trans a b c : skips a b -> skips b c -> skips a c.
Proof.
  intros H1 H2. induction H1 as [v|v ty p rest v' Hh Hc Hs IH]; [exact H2|].
  eapply skips_step; eauto.
Qed.

(* ---------- BufList ---------- *)
Definition chunks_ok (b : buflist) : Prop := Forall (fun c => c <> []) b /\ wf_bytes (concat b).

Lemma chunks_ok_nil : chunks_ok [].
Proof. split; constructor. Qed.

Lemma bl_advance_spec : forall b n, Forall (fun c => c <> []) b -> n <= len (concat b) ->
  exists b', bl_advance n b = Some b' /\ concat b' = skipn (N.to_nat n) (concat b) /\ Forall (fun c => c <> []) b'.
Proof.
  induction b as [|c r IH]; intros n Hne Hn.
  - cbn in Hn. assert (n = 0) by (unfold len in Hn; cbn in Hn; lia). subst n.
    exists []. cbn. repeat split; auto.
  - cbn [bl_advance]. destruct (N.eqb_spec n 0) as [->|Hn0].
    { exists (c :: r). repeat split; auto. }
    inversion Hne as [|c' r' Hc Hr]; subst.
    cbn [concat] in *. rewrite len_app in Hn.
    destruct (N.ltb_spec n (len c)) as [Hlt|Hge].
    + exists (skipn (N.to_nat n) c :: r). split; [reflexivity|]. split.
      * cbn [concat]. rewrite skipn_app. replace (N.to_nat n - length c)%nat with 0%nat by (unfold len in Hlt; lia).
        reflexivity.
      * constructor; auto. intros E. apply (f_equal (@length N)) in E. rewrite skipn_length in E.
        unfold len in Hlt. cbn in E. lia.
    + destruct (IH (n - len c) Hr) as (b' & Hb & Hc' & Hne'); [lia|].
      exists b'. split; [exact Hb|]. split; auto.
      rewrite Hc'. rewrite skipn_app. rewrite (@skipn_all2 _ (N.to_nat n) c) by (unfold len in Hge; lia). cbn [app].
      replace (N.to_nat n - length c)%nat with (N.to_nat (n - len c)) by (unfold len in *; lia). reflexivity.
Qed.

Lemma chunks_ok_advance b n : chunks_ok b -> n <= len (concat b) ->
  exists b', bl_advance n b = Some b' /\ concat b' = skipn (N.to_nat n) (concat b) /\ chunks_ok b'.
Proof.
  intros [Hne Hwf] Hn. destruct (bl_advance_spec b n Hne Hn) as (b' & H1 & H2 & H3).
  exists b'. repeat split; auto. rewrite H2. apply wf_bytes_skipn. exact Hwf.
Qed.

Definition memo_ok (m : option N) (v : bytes) : Prop :=
  match m with None => True | Some m => memo_sound m v end.

Lemma memo_ok_app m v w : memo_ok m v -> memo_ok m (v ++ w).
Proof.
  destruct m as [m|]; [|auto]. intros H w' Hw. rewrite <- app_assoc in *. apply H. exact Hw.
Qed.

Lemma classify_not_data ty p f : classify sc ty p = CKnown f ->
  (forall l, f <> FData l) /\ (forall x, f <> FWebTransport x).
Proof.
  unfold classify.
  repeat match goal with
         | |- context [if ?c then _ else _] => destruct c
         | |- context [match ?o with Some _ => _ | None => _ end] => destruct o
         | |- context [let '(_, _) := ?x in _] => destruct x
         end; intros H; inversion H; subst; split; intros; discriminate.
Qed.

Lemma map_ferr_malformed : map_ferr Malformed = Some (FsProto PK_Malformed Malformed).
Proof. reflexivity. Qed.
Lemma map_ferr_unsupported t : map_ferr (Unsupported t) = Some (FsProto PK_ForbiddenFrame (Unsupported t)).
Proof. reflexivity. Qed.
Lemma map_ferr_settings se : map_ferr (ESettings se) = Some (FsProto PK_Settings (ESettings se)).
Proof. reflexivity. Qed.

(* what FrameDecoder::decode answers, in terms of the reference reader *)
Inductive dec_result : option frame -> bytes -> bytes -> Prop :=
| dr_none v : head_of v = HEmpty \/ head_of v = HCut -> dec_result None v v
| dr_data v l r2 : head_of v = HData l r2 -> dec_result (Some (FData l)) v r2
| dr_wt v sid r2 : head_of v = HWt sid r2 -> dec_result (Some (FWebTransport sid)) v r2
| dr_known v ty p rest f : head_of v = HFrame ty p rest -> classify sc ty p = CKnown f ->
    dec_result (Some f) v rest.

Lemma dec_loop_spec : forall fuel b memo,
  chunks_ok b -> memo_ok memo (concat b) -> (length (concat b) < fuel)%nat ->
  exists v', skips (concat b) v' /\
  match dec_loop fuel b memo with
  | (Ok o, b', memo') =>
      chunks_ok b' /\ dec_result o v' (concat b') /\ memo_ok memo' (concat b') /\ (o <> None -> memo' = None)
  | (Err (FsProto k fe), b', memo') =>
      exists ty p rest e, head_of v' = HFrame ty p rest /\ classify sc ty p = CBad e /\ bad_matches fe e /\
                          map_ferr fe = Some (FsProto k fe)
  | (Err _, _, _) => False
  | (Panic _, _, _) => False
  end.
Proof.
  induction fuel as [|fuel IH]; intros b memo Hok Hmemo Hfuel; [lia|].
  cbn [dec_loop]. unfold bl_remaining.
  destruct (N.eqb_spec (len (concat b)) 0) as [Hz|Hnz].
  { exists (concat b). split; [apply skips_refl|]. repeat split; try apply Hok; auto.
    - apply len_zero_nil in Hz. rewrite Hz. apply dr_none. left. reflexivity.
    - intros H; congruence. }
  destruct Hok as [Hne Hwf].
  assert (Hmemo_branch :
    (match memo with
     | Some m => if fd_memo_cmp_strict then len (concat b) <? m else len (concat b) <=? m
     | None => false end) = true -> head_of (concat b) = HCut).
  { destruct memo as [m|]; [|discriminate]. unfold fd_memo_cmp_strict. intros Hlt.
    specialize (Hmemo []). rewrite app_nil_r in Hmemo. apply Hmemo. lia. }
  destruct (match memo with
     | Some m => if fd_memo_cmp_strict then len (concat b) <? m else len (concat b) <=? m
     | None => false end) eqn:Ememo.
  { exists (concat b). split; [apply skips_refl|]. repeat split; auto.
    - apply dr_none. right. auto.
    - intros H; congruence. }
  clear Hmemo_branch Ememo.
  destruct (head_of (concat b)) as [| |l r2|sid r2|ty p rest] eqn:Hh.
  - (* empty: excluded *)
    unfold head_of in Hh. destruct (concat b); [cbn in Hnz; congruence|].
    destruct (rfc_take_varint (n :: l)) as [[ty r1]|]; [|discriminate].
    destruct (ty =? T_WEBTRANSPORT_STREAM); [destruct (rfc_take_varint r1) as [[? ?]|]; discriminate|].
    destruct (rfc_take_varint r1) as [[l' r2']|]; [|discriminate].
    destruct (ty =? T_DATA); [discriminate|]. destruct (len r2' <? l'); discriminate.
  - (* cut: Incomplete, memo set *)
    destruct (fd_cut _ Hwf Hh) as (m & Hd & Hs). rewrite Hd.
    exists (concat b). split; [apply skips_refl|]. repeat split; auto.
    + apply dr_none. right. auto.
    + intros H; congruence.
  - (* DATA *)
    rewrite (fd_data _ _ _ Hwf Hh).
    destruct (head_data_suffix _ _ _ Hh) as [pre Hpre].
    destruct (chunks_ok_advance b (len (concat b) - len r2) (conj Hne Hwf)) as (b' & Hb & Hc & Hok'); [lia|].
    rewrite Hb. exists (concat b). split; [apply skips_refl|].
    assert (Hcb : concat b' = r2). { rewrite Hc. rewrite Hpre. apply skipn_suffix. }
    unfold fd_ok_resets_memo. split; [exact Hok'|]. rewrite Hcb.
    split; [apply dr_data; exact Hh|]. split; [exact I|reflexivity].
  - (* WebTransport *)
    rewrite (fd_wt _ _ _ Hwf Hh).
    destruct (head_wt_suffix _ _ _ Hh) as [pre Hpre].
    destruct (chunks_ok_advance b (len (concat b) - len r2) (conj Hne Hwf)) as (b' & Hb & Hc & Hok'); [lia|].
    rewrite Hb. exists (concat b). split; [apply skips_refl|].
    assert (Hcb : concat b' = r2). { rewrite Hc. rewrite Hpre. apply skipn_suffix. }
    unfold fd_ok_resets_memo. split; [exact Hok'|]. rewrite Hcb.
    split; [apply dr_wt; exact Hh|]. split; [exact I|reflexivity].
  - (* a complete non-DATA frame *)
    pose proof (fd_frame _ _ _ _ Hwf Hh) as Hfd.
    destruct (head_frame_suffix _ _ _ _ Hh) as [pre Hpre].
    destruct (head_frame_size _ _ _ _ Hwf Hh) as (Hsz & Hwr & Hwp).
    destruct (classify sc ty p) as [f|e|] eqn:Hc.
    + rewrite Hfd.
      destruct (chunks_ok_advance b (len (concat b) - len rest) (conj Hne Hwf)) as (b' & Hb & Hcc & Hok'); [lia|].
      rewrite Hb. exists (concat b). split; [apply skips_refl|].
      assert (Hcb : concat b' = rest). { rewrite Hcc. rewrite Hpre. apply skipn_suffix. }
      unfold fd_ok_resets_memo. split; [exact Hok'|]. rewrite Hcb.
      split; [eapply dr_known; eauto|]. split; [exact I|reflexivity].
    + destruct Hfd as (fe & Hd & Hbm). rewrite Hd.
      exists (concat b). split; [apply skips_refl|].
      destruct e as [|t|se]; cbn in Hbm; subst fe; cbv beta iota.
      * rewrite map_ferr_malformed. exists ty, p, rest, PCMalformed. repeat split; auto.
      * rewrite map_ferr_unsupported. exists ty, p, rest, (PCForbidden t). repeat split; auto.
      * rewrite map_ferr_settings. exists ty, p, rest, (PCSettings se). repeat split; auto.
    + rewrite Hfd.
      destruct (chunks_ok_advance b (len (concat b) - len rest) (conj Hne Hwf)) as (b' & Hb & Hcc & Hok'); [lia|].
      rewrite Hb.
      assert (Hcb : concat b' = rest). { rewrite Hcc. rewrite Hpre. apply skipn_suffix. }
      unfold fd_unknown_resets_memo.
      destruct (IH b' None Hok' I) as (v' & Hsk & Hres).
      { rewrite Hcb. unfold len in Hsz. lia. }
      exists v'. split; [|exact Hres].
      eapply skips_step; [exact Hh|exact Hc|]. rewrite <- Hcb. exact Hsk.
Qed.

(* ====================================================================================== *)
(* Part E: the stream state, its invariant, and what remains to be delivered               *)
(* ====================================================================================== *)

Inductive queue_ok : rx -> Prop :=
| qok_nil : queue_ok []
| qok_chunk c q : c <> [] -> wf_bytes c -> queue_ok q -> queue_ok (Chunk c :: q)
| qok_fin : queue_ok [Fin]
| qok_abort e : queue_ok [Abort e].

Fixpoint qbytes (q : rx) : bytes :=
  match q with
  | Chunk c :: q' => c ++ qbytes q'
  | _ => []
  end.

Fixpoint q_end (q : rx) : ending :=
  match q with
  | [] => Open
  | Chunk _ :: q' => q_end q'
  | Fin :: _ => Finished
  | Abort e :: _ => Broken e
  end.

Record fs_inv (s : fstream) : Prop := {
  inv_buf : chunks_ok (st_buf s);
  inv_q : queue_ok (st_q s);
  inv_memo : memo_ok (st_memo s) (concat (st_buf s));
  inv_eos : st_eos s = true -> st_q s = [Fin];
  inv_rem_memo : st_rem s <> 0 -> st_memo s = None;
  inv_rem : st_rem s < 2 ^ 62
}.

Lemma qbytes_wf q : queue_ok q -> wf_bytes (qbytes q).
Proof.
  induction 1; cbn [qbytes]; try constructor. apply wf_bytes_app. split; auto.
Qed.

(* the outcome owed from inside a DATA payload of which [rem] bytes are still to come *)
Definition outcome_in (rem : N) (v : bytes) (en : ending) : list tok * tail :=
  if rem =? 0 then frame_outcome sc v en
  else if len v <? rem then (map TByte v, cut_tail en)
  else let '(ts, t) := frame_outcome sc (skipn (N.to_nat rem) v) en in
       (map TByte (firstn (N.to_nat rem) v) ++ ts, t).

Definition pre (ts : list tok) (o : list tok * tail) : list tok * tail := (ts ++ fst o, snd o).

Lemma pre_nil o : pre [] o = o.
Proof. destruct o; reflexivity. Qed.

Lemma pre_pre a b o : pre a (pre b o) = pre (a ++ b) o.
Proof. destruct o; unfold pre; cbn. rewrite app_assoc. reflexivity. Qed.

Lemma outcome_data v l r2 en : wf_bytes v -> head_of v = HData l r2 ->
  frame_outcome sc v en = pre [TFrame (FData l)] (outcome_in l r2 en).
Proof.
  intros Hwf Hh. rewrite (frame_outcome_unfold v en Hwf), Hh. unfold outcome_in, pre.
  destruct (N.eqb_spec l 0) as [->|Hl].
  - destruct (N.ltb_spec (len r2) 0); [lia|]. cbn [N.to_nat skipn firstn map app].
    destruct (frame_outcome sc r2 en). reflexivity.
  - destruct (len r2 <? l); [reflexivity|].
    destruct (frame_outcome sc (skipn (N.to_nat l) r2) en). reflexivity.
Qed.

Lemma head_empty_iff v : head_of v = HEmpty <-> v = [].
Proof.
  split; [|intros ->; reflexivity].
  unfold head_of. destruct v as [|b0 t]; [reflexivity|].
  destruct (rfc_take_varint (b0 :: t)) as [[ty r1]|]; [|discriminate].
  destruct (ty =? T_WEBTRANSPORT_STREAM); [destruct (rfc_take_varint r1) as [[? ?]|]; discriminate|].
  destruct (rfc_take_varint r1) as [[l' r2']|]; [|discriminate].
  destruct (ty =? T_DATA); [discriminate|]. destruct (len r2' <? l'); discriminate.
Qed.

Lemma outcome_none_open v : wf_bytes v -> head_of v = HEmpty \/ head_of v = HCut ->
  frame_outcome sc v Open = ([], Waiting).
Proof. intros Hwf [H|H]; rewrite (frame_outcome_unfold v Open Hwf), H; reflexivity. Qed.

Lemma outcome_none_fin v : wf_bytes v -> head_of v = HEmpty \/ head_of v = HCut ->
  frame_outcome sc v Finished = ([], if len v =? 0 then CleanEnd else FrameError).
Proof.
  intros Hwf [H|H]; rewrite (frame_outcome_unfold v Finished Hwf), H.
  - apply head_empty_iff in H. subst v. reflexivity.
  - destruct (N.eqb_spec (len v) 0) as [e|_]; [|reflexivity].
    apply len_zero_nil in e. subst v. discriminate.
Qed.

Definition same_but_buf_memo (s1 s2 : fstream) : Prop :=
  st_eos s2 = st_eos s1 /\ st_rem s2 = st_rem s1 /\ st_q s2 = st_q s1.

Lemma decoder_decode_spec s1 Q en :
  chunks_ok (st_buf s1) -> memo_ok (st_memo s1) (concat (st_buf s1)) -> wf_bytes Q ->
  match decoder_decode s1 with
  | (Ok (Some f), s2) =>
      same_but_buf_memo s1 s2 /\ chunks_ok (st_buf s2) /\ st_memo s2 = None /\
      frame_outcome sc (concat (st_buf s1) ++ Q) en =
        match f with
        | FData l => pre [TFrame f] (outcome_in l (concat (st_buf s2) ++ Q) en)
        | FWebTransport _ => ([TFrame f], Handover)
        | _ => pre [TFrame f] (frame_outcome sc (concat (st_buf s2) ++ Q) en)
        end /\
      (forall l, f = FData l -> l < 2 ^ 62)
  | (Ok None, s2) =>
      same_but_buf_memo s1 s2 /\ chunks_ok (st_buf s2) /\ memo_ok (st_memo s2) (concat (st_buf s2)) /\
      frame_outcome sc (concat (st_buf s1) ++ Q) en = frame_outcome sc (concat (st_buf s2) ++ Q) en /\
      (head_of (concat (st_buf s2)) = HEmpty \/ head_of (concat (st_buf s2)) = HCut)
  | (Err (FsProto k fe), s2) =>
      exists e, bad_matches fe e /\ map_ferr fe = Some (FsProto k fe) /\
                frame_outcome sc (concat (st_buf s1) ++ Q) en = ([], ProtoError e)
  | (Err _, _) => False
  | (Panic _, _) => False
  end.
Proof.
  intros Hok Hmemo HQ. unfold decoder_decode.
  destruct (dec_loop_spec (S (length (concat (st_buf s1)))) (st_buf s1) (st_memo s1) Hok Hmemo (Nat.lt_succ_diag_r _))
    as (v' & Hsk & Hres).
  assert (HwB : wf_bytes (concat (st_buf s1))) by apply Hok.
  assert (Hwf1 : wf_bytes (concat (st_buf s1) ++ Q)) by (apply wf_bytes_app; auto).
  destruct (skips_outcome _ _ en Hwf1 (skips_app _ _ Q Hsk)) as (Hout & Hwf' & _).
  destruct (dec_loop (S (length (concat (st_buf s1)))) (st_buf s1) (st_memo s1)) as [[r b'] memo'].
  destruct r as [o|e|n]; [|destruct e as [k fe|q|]|]; try contradiction.
  - destruct Hres as (Hok' & Hdr & Hmemo' & Hnone).
    destruct o as [f|].
    + cbn [st_buf st_eos st_rem st_q st_memo]. split; [repeat split|]. split; [exact Hok'|].
      split; [apply Hnone; discriminate|]. rewrite Hout.
      inversion Hdr as [|v l r2 Hh|v sid r2 Hh|v ty p rest f' Hh Hc]; subst.
      * split.
        -- rewrite (frame_outcome_unfold _ en Hwf'). apply (head_data_app _ Q) in Hh.
           rewrite <- (frame_outcome_unfold _ en Hwf'). apply outcome_data; auto.
        -- intros l' E. inversion E; subst l'.
           destruct (head_data_inv _ _ _ Hh) as (r1 & H1 & H2).
           assert (Hwv : wf_bytes v').
           { apply wf_bytes_app in Hwf'. tauto. }
           eapply take_some_lt62; [eapply take_wf; [exact Hwv|exact H1]|exact H2].
      * split; [|intros l' E; discriminate].
        apply (head_wt_app _ Q) in Hh. rewrite (frame_outcome_unfold _ en Hwf'), Hh. reflexivity.
      * destruct (classify_not_data _ _ _ Hc) as [Hnd Hnw].
        apply (head_frame_app _ Q) in Hh.
        assert (Hgen : frame_outcome sc (v' ++ Q) en = pre [TFrame f] (frame_outcome sc (concat b' ++ Q) en)).
        { rewrite (frame_outcome_unfold _ en Hwf'), Hh, Hc. unfold pre.
          destruct (frame_outcome sc (concat b' ++ Q) en). reflexivity. }
        split; [|intros l' E; subst f; exfalso; eapply Hnd; reflexivity].
        destruct f; try exact Hgen.
        -- exfalso; eapply Hnd; reflexivity.
        -- exfalso; eapply Hnw; reflexivity.
    + cbn [st_buf st_eos st_rem st_q st_memo]. split; [repeat split|]. split; [exact Hok'|].
      split; [exact Hmemo'|]. inversion Hdr as [v Hh Hv Hv'| | |]. rewrite Hout. replace v' with (concat b') by congruence. auto.
  - destruct Hres as (ty & p & rest & e & Hh & Hc & Hbm & Hmap).
    exists e. repeat split; auto. rewrite Hout.
    apply (head_frame_app _ Q) in Hh. rewrite (frame_outcome_unfold _ en Hwf'), Hh, Hc. reflexivity.
Qed.

(* ---------- what one call does, relative to what the reference reader still owes ---------- *)
Definition V (s : fstream) (fut : bytes) : bytes := concat (st_buf s) ++ qbytes (st_q s) ++ fut.
Definition E (s : fstream) (fen : ending) : ending :=
  match q_end (st_q s) with Open => fen | e => e end.
Definition spec_of (s : fstream) (fut : bytes) (fen : ending) : list tok * tail :=
  outcome_in (st_rem s) (V s fut) (E s fen).
(* [fut]/[fen]: the bytes and the ending that will still arrive after the events already queued *)
Definition fut_ok (s : fstream) (fut : bytes) : Prop :=
  wf_bytes fut /\ (q_end (st_q s) <> Open -> fut = []).
Definition cont (en : ending) (fut : bytes) (fen : ending) (s' : fstream) : Prop :=
  fs_inv s' /\ fut_ok s' fut /\ E s' fen = en.

Inductive step_ok (O : list tok * tail) (en : ending) (fut : bytes) (fen : ending) : obs -> fstream -> Prop :=
| so_pend_n s' : cont en fut fen s' -> st_q s' = [] -> O = spec_of s' fut fen ->
    (fut = [] -> fen = Open -> O = ([], Waiting)) -> step_ok O en fut fen (ONext Pending) s'
| so_pend_d s' : cont en fut fen s' -> st_q s' = [] -> O = spec_of s' fut fen ->
    (fut = [] -> fen = Open -> O = ([], Waiting)) -> step_ok O en fut fen (OData Pending) s'
| so_frame f s' : (forall x, f <> FWebTransport x) -> cont en fut fen s' ->
    O = pre [TFrame f] (spec_of s' fut fen) -> step_ok O en fut fen (ONext (Ready (Ok (Some f)))) s'
| so_wt x s' : O = ([TFrame (FWebTransport x)], Handover) ->
    step_ok O en fut fen (ONext (Ready (Ok (Some (FWebTransport x))))) s'
| so_data d s' : cont en fut fen s' -> O = pre (map TByte d) (spec_of s' fut fen) ->
    step_ok O en fut fen (OData (Ready (Ok (Some d)))) s'
| so_nodata s' : cont en fut fen s' -> O = spec_of s' fut fen ->
    step_ok O en fut fen (OData (Ready (Ok None))) s'
| so_end s' : O = ([], CleanEnd) -> step_ok O en fut fen (ONext (Ready (Ok None))) s'
| so_uend_n s' : O = ([], FrameError) -> step_ok O en fut fen (ONext (Ready (Err FsUnexpectedEnd))) s'
| so_uend_d s' bs : O = (map TByte bs, FrameError) -> step_ok O en fut fen (OData (Ready (Err FsUnexpectedEnd))) s'
| so_proto k fe e s' : bad_matches fe e -> map_ferr fe = Some (FsProto k fe) -> O = ([], ProtoError e) ->
    step_ok O en fut fen (ONext (Ready (Err (FsProto k fe)))) s'
| so_abort_n e s' : en = Broken e -> step_ok O en fut fen (ONext (Ready (Err (FsQuic e)))) s'
| so_abort_d e s' : en = Broken e -> step_ok O en fut fen (OData (Ready (Err (FsQuic e)))) s'.

Lemma try_recv_cases s : fs_inv s ->
  (st_q s = [] /\ st_eos s = false /\ try_recv s = (Pending, s)) \/
  (exists c q', st_q s = Chunk c :: q' /\ c <> [] /\ wf_bytes c /\ queue_ok q' /\ st_eos s = false /\
     try_recv s = (Ready (Ok false),
       {| st_buf := st_buf s ++ [c]; st_eos := false; st_memo := st_memo s; st_rem := st_rem s; st_q := q' |})) \/
  (st_q s = [Fin] /\ exists s1, try_recv s = (Ready (Ok true), s1) /\ st_eos s1 = true /\
     st_buf s1 = st_buf s /\ st_memo s1 = st_memo s /\ st_rem s1 = st_rem s /\ st_q s1 = [Fin]) \/
  (exists e, st_q s = [Abort e] /\ st_eos s = false /\ try_recv s = (Ready (Err (FsQuic e)), s)).
Proof.
  intros Hinv. unfold try_recv. destruct (st_eos s) eqn:Heos.
  { right. right. left. split; [apply (inv_eos s Hinv Heos)|]. exists s. repeat split; auto.
    apply (inv_eos s Hinv Heos). }
  pose proof (inv_q s Hinv) as Hq. destruct Hq as [|c q Hc Hwc Hq| |e]; cbn [rx_poll].
  - left. auto.
  - right. left. exists c, q. destruct c as [|x c']; [congruence|]. repeat split; auto.
  - right. right. left. split; [reflexivity|]. eexists. split; [reflexivity|]. cbn. repeat split; auto.
  - right. right. right. exists e. auto.
Qed.

Lemma concat_snoc (b : buflist) (c : bytes) : concat (b ++ [c]) = concat b ++ c.
Proof. rewrite concat_app. cbn [concat]. rewrite app_nil_r. reflexivity. Qed.

Lemma chunks_ok_snoc b c : chunks_ok b -> c <> [] -> wf_bytes c -> chunks_ok (b ++ [c]).
Proof.
  intros [Hne Hwf] Hc Hwc. split.
  - apply Forall_app. split; auto.
  - rewrite concat_snoc. apply wf_bytes_app. auto.
Qed.

Lemma V_wf s fut : fs_inv s -> wf_bytes fut -> wf_bytes (V s fut).
Proof.
  intros Hinv Hf. unfold V. apply wf_bytes_app. split; [apply (inv_buf s Hinv)|].
  apply wf_bytes_app. split; auto. apply qbytes_wf. apply (inv_q s Hinv).
Qed.

Lemma with_rem_id s : with_rem s (st_rem s) = s.
Proof. destruct s; reflexivity. Qed.

Definition frame_ret (f : frame) (s2 : fstream) : poll (res fserr (option frame)) * fstream :=
  match f with
  | FData l => (Ready (Ok (Some (FData l))), with_rem s2 l)
  | FWebTransport x => (Ready (Ok (Some (FWebTransport x))), with_rem s2 usize_max)
  | fr => (Ready (Ok (Some fr)), s2)
  end.

Lemma frame_result_ok O fut fen s2 f :
  (forall r, r < 2 ^ 62 -> cont (E s2 fen) fut fen (with_rem s2 r)) -> st_rem s2 = 0 ->
  O = match f with
      | FData l => pre [TFrame f] (outcome_in l (V s2 fut) (E s2 fen))
      | FWebTransport _ => ([TFrame f], Handover)
      | _ => pre [TFrame f] (frame_outcome sc (V s2 fut) (E s2 fen))
      end ->
  (forall l, f = FData l -> l < 2 ^ 62) ->
  step_ok O (E s2 fen) fut fen (ONext (fst (frame_ret f s2))) (snd (frame_ret f s2)).
Proof.
  intros Hcont H0 Hout Hl.
  assert (Heq : with_rem s2 0 = s2) by (rewrite <- H0; apply with_rem_id).
  assert (Hlt0 : 0 < 2 ^ 62) by reflexivity.
  pose proof (Hcont 0 Hlt0) as Hs2. rewrite Heq in Hs2.
  assert (Hspec0 : spec_of s2 fut fen = frame_outcome sc (V s2 fut) (E s2 fen)).
  { unfold spec_of, outcome_in. rewrite H0. reflexivity. }
  destruct f; cbn [frame_ret fst snd];
    try (apply so_frame; [discriminate|exact Hs2|rewrite Hspec0; exact Hout]).
  - apply so_frame; [discriminate|apply Hcont; apply Hl; reflexivity|]. rewrite Hout. reflexivity.
  - apply so_wt. exact Hout.
Qed.

Lemma next_loop_spec fut fen : forall fuel s,
  fs_inv s -> st_rem s = 0 -> fut_ok s fut -> (length (st_q s) < fuel)%nat ->
  step_ok (spec_of s fut fen) (E s fen) fut fen (ONext (fst (next_loop fuel s))) (snd (next_loop fuel s)).
Proof.
  induction fuel as [|fuel IH]; intros s Hinv Hrem [Hwfut Hfut] Hfuel; [lia|].
  cbn [next_loop].
  destruct (try_recv_cases s Hinv) as
    [(Hq & Heos & Htr) | [(c & q' & Hq & Hc & Hwc & Hq' & Heos & Htr) | [(Hq & s1 & Htr & Heos1 & Hb1 & Hm1 & Hr1 & Hq1) | (e & Hq & Heos & Htr)]]];
    rewrite Htr; cbv beta iota.
  - (* nothing queued: Pending after a decode of what is buffered *)
    pose proof (decoder_decode_spec s (qbytes (st_q s) ++ fut) (E s fen) (inv_buf s Hinv) (inv_memo s Hinv)) as Hd.
    rewrite Hq in Hd. cbn [qbytes app] in Hd. specialize (Hd Hwfut).
    unfold spec_of, outcome_in. rewrite Hrem. change (0 =? 0) with true. cbv iota. unfold V. rewrite Hq. cbn [qbytes app].
    destruct (decoder_decode s) as [r s2]. destruct r as [[f|]|[k fe|qe|]|n]; try contradiction.
    + destruct Hd as ((He2 & Hr2 & Hq2) & Hok2 & Hm2 & Hout & Hl62).
      assert (HE2 : E s2 fen = E s fen) by (unfold E; rewrite Hq2; reflexivity).
      assert (Hcont : forall r, r < 2 ^ 62 -> cont (E s fen) fut fen (with_rem s2 r)).
      { intros r Hr. split; [|split].
        - constructor; cbn; auto.
          + rewrite Hq2. apply (inv_q s Hinv).
          + rewrite Hm2. exact I.
          + rewrite He2, Hq2. apply (inv_eos s Hinv).
        - split; auto. cbn. rewrite Hq2. exact Hfut.
        - unfold E. cbn. rewrite Hq2. reflexivity. }
      assert (HV2 : V s2 fut = concat (st_buf s2) ++ fut) by (unfold V; rewrite Hq2, Hq; reflexivity).
      assert (Hs20 : st_rem s2 = 0) by (rewrite Hr2; exact Hrem).
      rewrite <- HV2, <- HE2 in Hout. rewrite <- HE2 in Hcont. rewrite <- HE2.
      exact (frame_result_ok _ fut fen s2 f Hcont Hs20 Hout Hl62).
    + destruct Hd as ((He2 & Hr2 & Hq2) & Hok2 & Hm2 & Hout & Hhead). cbn [fst snd].
      assert (Hinv2 : fs_inv s2).
      { constructor; auto.
        - rewrite Hq2. apply (inv_q s Hinv).
        - rewrite He2, Hq2. apply (inv_eos s Hinv).
        - rewrite Hr2. intros Hx; congruence.
        - rewrite Hr2, Hrem. reflexivity. }
      apply so_pend_n.
      * split; [exact Hinv2|]. split; [split; auto; rewrite Hq2; exact Hfut|].
        unfold E. rewrite Hq2. reflexivity.
      * rewrite Hq2. exact Hq.
      * rewrite Hout. unfold spec_of, V, outcome_in. rewrite Hr2, Hrem. change (0 =? 0) with true. cbv iota.
        rewrite Hq2, Hq. cbn [qbytes app]. unfold E. rewrite Hq2. reflexivity.
      * intros -> ->. rewrite Hout. rewrite app_nil_r. unfold E. rewrite Hq. cbn [q_end].
        apply outcome_none_open; [apply Hok2|exact Hhead].
    + destruct Hd as (e & Hbm & Hmap & Hout). cbn [fst snd]. eapply so_proto; eauto.
  - (* one more chunk is moved into the buffer *)
    set (s1 := {| st_buf := st_buf s ++ [c]; st_eos := false; st_memo := st_memo s; st_rem := st_rem s; st_q := q' |}).
    assert (Hinv1 : fs_inv s1).
    { constructor; cbn; auto.
      - apply chunks_ok_snoc; auto. apply (inv_buf s Hinv).
      - rewrite concat_snoc. apply memo_ok_app. apply (inv_memo s Hinv).
      - discriminate.
      - apply (inv_rem_memo s Hinv).
      - apply (inv_rem s Hinv). }
    assert (HV1 : V s1 fut = V s fut).
    { unfold V. cbn [s1 st_buf st_q]. rewrite Hq. cbn [qbytes]. rewrite concat_snoc. rewrite <- !app_assoc. reflexivity. }
    assert (HE1 : E s1 fen = E s fen) by (unfold E; cbn [s1 st_q]; rewrite Hq; reflexivity).
    assert (Hfut1 : fut_ok s1 fut).
    { split; auto. cbn [s1 st_q]. rewrite Hq in Hfut. exact Hfut. }
    assert (Hspec1 : spec_of s1 fut fen = spec_of s fut fen).
    { unfold spec_of. rewrite HV1, HE1. reflexivity. }
    pose proof (decoder_decode_spec s1 (qbytes (st_q s1) ++ fut) (E s fen) (inv_buf s1 Hinv1) (inv_memo s1 Hinv1)) as Hd.
    assert (HwQ : wf_bytes (qbytes (st_q s1) ++ fut)).
    { apply wf_bytes_app. split; auto. apply qbytes_wf. apply (inv_q s1 Hinv1). }
    specialize (Hd HwQ).
    rewrite <- Hspec1, <- HE1.
    assert (Hso : spec_of s1 fut fen = frame_outcome sc (concat (st_buf s1) ++ qbytes (st_q s1) ++ fut) (E s1 fen)).
    { unfold spec_of, outcome_in. cbn [s1 st_rem]. rewrite Hrem. reflexivity. }
    rewrite Hso. rewrite HE1.
    destruct (decoder_decode s1) as [r s2]. destruct r as [[f|]|[k fe|qe|]|n]; try contradiction.
    + destruct Hd as ((He2 & Hr2 & Hq2) & Hok2 & Hm2 & Hout & Hl62).
      assert (HE2 : E s2 fen = E s fen) by (unfold E; rewrite Hq2; exact HE1).
      assert (Hcont : forall r, r < 2 ^ 62 -> cont (E s fen) fut fen (with_rem s2 r)).
      { intros r Hr. split; [|split].
        - constructor; cbn; auto.
          + rewrite Hq2. apply (inv_q s1 Hinv1).
          + rewrite Hm2. exact I.
          + rewrite He2. discriminate.
        - split; auto. cbn. rewrite Hq2. apply Hfut1.
        - unfold E. cbn. rewrite Hq2. exact HE1. }
      assert (Hs20 : st_rem s2 = 0) by (rewrite Hr2; exact Hrem).
      assert (HV2 : V s2 fut = concat (st_buf s2) ++ qbytes (st_q s1) ++ fut) by (unfold V; rewrite Hq2; reflexivity).
      rewrite <- HV2, <- HE2 in Hout. rewrite <- HE2 in Hcont. rewrite <- HE2.
      exact (frame_result_ok _ fut fen s2 f Hcont Hs20 Hout Hl62).
    + destruct Hd as ((He2 & Hr2 & Hq2) & Hok2 & Hm2 & Hout & Hhead).
      assert (Hinv2 : fs_inv s2).
      { constructor; auto.
        - rewrite Hq2. apply (inv_q s1 Hinv1).
        - rewrite He2. cbn. discriminate.
        - rewrite Hr2. cbn. intros Hx; congruence.
        - rewrite Hr2. cbn. rewrite Hrem. reflexivity. }
      assert (Hs20 : st_rem s2 = 0) by (rewrite Hr2; exact Hrem).
      assert (HE2 : E s2 fen = E s fen) by (unfold E; rewrite Hq2; exact HE1).
      assert (Hfut2 : fut_ok s2 fut) by (split; auto; rewrite Hq2; apply Hfut1).
      assert (Hlen2 : (length (st_q s2) < fuel)%nat).
      { rewrite Hq2. cbn [s1 st_q]. rewrite Hq in Hfuel. cbn [length] in Hfuel. lia. }
      specialize (IH s2 Hinv2 Hs20 Hfut2 Hlen2).
      rewrite Hout.
      replace (frame_outcome sc (concat (st_buf s2) ++ qbytes (st_q s1) ++ fut) (E s fen)) with (spec_of s2 fut fen).
      2:{ unfold spec_of, outcome_in, V. rewrite Hs20. change (0 =? 0) with true. cbv iota. rewrite Hq2, HE2. reflexivity. }
      rewrite <- HE2. exact IH.
    + destruct Hd as (e & Hbm & Hmap & Hout). cbn [fst snd]. eapply so_proto; eauto.
  - (* end of stream *)
    assert (Hfut0 : fut = []) by (apply Hfut; rewrite Hq; discriminate).
    assert (HEfin : E s fen = Finished) by (unfold E; rewrite Hq; reflexivity).
    assert (Hok1 : chunks_ok (st_buf s1)) by (rewrite Hb1; apply (inv_buf s Hinv)).
    assert (Hmemo1 : memo_ok (st_memo s1) (concat (st_buf s1))) by (rewrite Hb1, Hm1; apply (inv_memo s Hinv)).
    pose proof (decoder_decode_spec s1 [] Finished Hok1 Hmemo1 (Forall_nil _)) as Hd.
    assert (Hso : spec_of s fut fen = frame_outcome sc (concat (st_buf s1) ++ []) Finished).
    { unfold spec_of, outcome_in, V. rewrite Hrem, HEfin, Hq, Hfut0, Hb1. reflexivity. }
    rewrite Hso, HEfin.
    destruct (decoder_decode s1) as [r s2]. destruct r as [[f|]|[k fe|qe|]|n]; try contradiction.
    + destruct Hd as ((He2 & Hr2 & Hq2) & Hok2 & Hm2 & Hout & Hl62).
      assert (Hcont : forall r, r < 2 ^ 62 -> cont Finished fut fen (with_rem s2 r)).
      { intros r Hr. split; [|split].
        - constructor; cbn; auto.
          + rewrite Hq2, Hq1. constructor.
          + rewrite Hm2. exact I.
          + rewrite Hq2. auto.
        - split; auto.
        - unfold E. cbn. rewrite Hq2, Hq1. reflexivity. }
      assert (Hs20 : st_rem s2 = 0) by (rewrite Hr2, Hr1; exact Hrem).
      assert (HE2 : E s2 fen = Finished) by (unfold E; rewrite Hq2, Hq1; reflexivity).
      assert (HV2 : V s2 fut = concat (st_buf s2) ++ []).
      { unfold V. rewrite Hq2, Hq1, Hfut0. reflexivity. }
      rewrite <- HV2, <- HE2 in Hout. rewrite <- HE2 in Hcont. rewrite <- HE2.
      exact (frame_result_ok _ fut fen s2 f Hcont Hs20 Hout Hl62).
    + destruct Hd as ((He2 & Hr2 & Hq2) & Hok2 & Hm2 & Hout & Hhead).
      rewrite Hout, app_nil_r.
      rewrite (outcome_none_fin _ (proj2 Hok2) Hhead).
      unfold fs_next_end_checks_buffer, bl_remaining. cbn [andb].
      destruct (len (concat (st_buf s2)) =? 0); cbn [negb fst snd].
      * apply so_end. reflexivity.
      * apply so_uend_n. reflexivity.
    + destruct Hd as (e & Hbm & Hmap & Hout). cbn [fst snd]. eapply so_proto; eauto.
  - (* reset / connection lost *)
    cbn [fst snd]. apply so_abort_n. unfold E. rewrite Hq. reflexivity.
Qed.

Lemma poll_next_spec s fut fen : fs_inv s -> st_rem s = 0 -> fut_ok s fut ->
  step_ok (spec_of s fut fen) (E s fen) fut fen (ONext (fst (poll_next s))) (snd (poll_next s)).
Proof.
  intros Hinv Hrem Hfut. unfold poll_next. rewrite Hrem. change (negb (0 =? 0)) with false. cbv iota.
  apply next_loop_spec; auto.
Qed.

(* ---------- poll_data ---------- *)
Lemma outcome_in_split rem d v en : rem <> 0 -> len d <= rem ->
  outcome_in rem (d ++ v) en = pre (map TByte d) (outcome_in (rem - len d) v en).
Proof.
  intros Hrem Hd. unfold outcome_in at 1. rewrite (eqb_false _ _ Hrem). rewrite len_app.
  unfold outcome_in, pre.
  destruct (N.eqb_spec (rem - len d) 0) as [Hz|Hnz].
  - assert (Hl : len d = rem) by lia.
    destruct (N.ltb_spec (len d + len v) rem); [lia|].
    replace (N.to_nat rem) with (length d) by (unfold len in Hl; lia).
    rewrite skipn_app_exact, firstn_app_exact.
    destruct (frame_outcome sc v en). reflexivity.
  - destruct (N.ltb_spec (len d + len v) rem) as [Hlt|Hge]; destruct (N.ltb_spec (len v) (rem - len d)) as [Hlt'|Hge']; try lia.
    + cbn [fst snd]. rewrite map_app. reflexivity.
    + assert (Hn : N.to_nat rem = (length d + N.to_nat (rem - len d))%nat) by (unfold len in *; lia).
      rewrite Hn. rewrite skipn_app. rewrite skipn_all2 by lia.
      replace (length d + N.to_nat (rem - len d) - length d)%nat with (N.to_nat (rem - len d)) by lia.
      cbn [app]. rewrite firstn_app. rewrite firstn_all2 by lia.
      replace (length d + N.to_nat (rem - len d) - length d)%nat with (N.to_nat (rem - len d)) by lia.
      destruct (frame_outcome sc (skipn (N.to_nat (rem - len d)) v) en). cbn [fst snd].
      rewrite map_app, app_assoc. reflexivity.
Qed.

Lemma take_chunk_spec rem c0 r : chunks_ok (c0 :: r) -> rem <> 0 ->
  exists d b', bl_take_chunk rem (c0 :: r) = (Some d, b') /\ d <> [] /\ len d <= rem /\
    concat (c0 :: r) = d ++ concat b' /\ chunks_ok b' /\ (len d < rem -> b' = r).
Proof.
  intros [Hne Hwf] Hrem. inversion Hne as [|c' r' Hc Hr]; subst.
  cbn [bl_take_chunk]. set (n := N.to_nat (N.min rem (len c0))).
  assert (Hn : (1 <= n <= length c0)%nat).
  { subst n. destruct c0; [congruence|]. unfold len. cbn [length]. lia. }
  exists (firstn n c0). eexists. split; [reflexivity|].
  assert (Hld : len (firstn n c0) = N.of_nat n) by (apply len_firstn; unfold len; lia).
  split; [|split; [|split; [|split]]].
  - intros Ef. apply (f_equal (@length N)) in Ef. rewrite firstn_length in Ef. cbn in Ef. lia.
  - rewrite Hld. subst n. lia.
  - cbn [concat]. destruct (N.eqb_spec (len (skipn n c0)) 0) as [Hz|Hnz].
    + apply len_zero_nil in Hz. rewrite <- (firstn_skipn n c0) at 1. rewrite Hz, app_nil_r. reflexivity.
    + cbn [concat]. rewrite app_assoc, firstn_skipn. reflexivity.
  - cbn [concat] in Hwf. apply wf_bytes_app in Hwf as [Hw0 Hwr].
    destruct (N.eqb_spec (len (skipn n c0)) 0) as [Hz|Hnz].
    + split; auto.
    + split.
      * constructor; auto. intros Ez. rewrite Ez in Hnz. cbn in Hnz. congruence.
      * cbn [concat]. apply wf_bytes_app. split; auto. apply wf_bytes_skipn. auto.
  - intros Hlt. rewrite Hld in Hlt.
    assert (Hnn : n = length c0) by (subst n; unfold len in *; lia).
    rewrite Hnn, skipn_all. cbn. reflexivity.
Qed.

Definition data_ret (s1 : fstream) (endb : bool) : poll (res fserr (option bytes)) * fstream :=
  match bl_take_chunk (st_rem s1) (st_buf s1) with
  | (None, b') =>
      if endb then
        (if fs_data_none_end_guard && negb (st_rem s1 =? usize_max)
         then (Ready (Err FsUnexpectedEnd), with_buf s1 b')
         else (Ready (Ok None), with_buf s1 b'))
      else (Pending, with_buf s1 b')
  | (Some d, b') =>
      if endb && fs_data_short_last_guard && (len d <? st_rem s1) && (bl_remaining b' =? 0)
      then (Ready (Err FsUnexpectedEnd), with_buf s1 b')
      else (Ready (Ok (Some d)), with_rem (with_buf s1 b') (st_rem s1 - len d))
  end.

Lemma data_step s1 fut fen endb : fs_inv s1 -> fut_ok s1 fut -> st_rem s1 <> 0 ->
  (endb = true -> st_q s1 = [Fin] /\ fut = []) ->
  (endb = false -> st_buf s1 = [] -> st_q s1 = []) ->
  step_ok (spec_of s1 fut fen) (E s1 fen) fut fen (OData (fst (data_ret s1 endb))) (snd (data_ret s1 endb)).
Proof.
  intros Hinv [Hwfut Hfut] Hrem Hend Hnend. unfold data_ret.
  pose proof (inv_rem s1 Hinv) as Hr62.
  assert (Hmax : (st_rem s1 =? usize_max) = false).
  { apply eqb_false. unfold usize_max. intros Ex. rewrite Ex in Hr62. vm_compute in Hr62. discriminate. }
  destruct (st_buf s1) as [|c0 r] eqn:Hbuf.
  - cbn [bl_take_chunk]. destruct endb.
    + destruct (Hend eq_refl) as [Hq ->]. unfold fs_data_none_end_guard. rewrite Hmax. cbn [andb negb fst snd].
      apply so_uend_d with (bs := []).
      unfold spec_of, outcome_in, V, E. rewrite (eqb_false _ _ Hrem), Hbuf, Hq. cbn.
      destruct (N.ltb_spec 0 (st_rem s1)); [reflexivity|lia].
    + cbn [fst snd]. pose proof (Hnend eq_refl eq_refl) as Hq.
      assert (Hs : with_buf s1 [] = s1) by (destruct s1; cbn in *; subst; reflexivity).
      rewrite Hs. apply so_pend_d; auto.
      * split; [exact Hinv|]. split; [split; auto|reflexivity].
      * intros -> ->. unfold spec_of, outcome_in, V, E. rewrite (eqb_false _ _ Hrem), Hbuf, Hq. cbn.
        destruct (N.ltb_spec 0 (st_rem s1)); [reflexivity|lia].
  - pose proof (inv_buf s1 Hinv) as Hok. rewrite Hbuf in Hok.
    destruct (take_chunk_spec (st_rem s1) c0 r Hok Hrem) as (d & b' & Htk & Hd & Hld & Hcat & Hok' & Hshort).
    rewrite Htk.
    assert (HV : V s1 fut = d ++ (concat b' ++ qbytes (st_q s1) ++ fut)).
    { unfold V. rewrite Hbuf, Hcat. rewrite <- app_assoc. reflexivity. }
    destruct (endb && fs_data_short_last_guard && (len d <? st_rem s1) && (bl_remaining b' =? 0)) eqn:Hg.
    + (* the stream ended and this is the last, too short, piece *)
      apply andb_true_iff in Hg as [Hg Hb0]. apply andb_true_iff in Hg as [Hg Hlt]. apply andb_true_iff in Hg as [He _].
      destruct (Hend He) as [Hq ->]. cbn [fst snd].
      apply so_uend_d with (bs := d).
      unfold spec_of, outcome_in. rewrite (eqb_false _ _ Hrem), HV, Hq. cbn [qbytes].
      unfold bl_remaining in Hb0. apply N.eqb_eq in Hb0. apply len_zero_nil in Hb0. rewrite Hb0. rewrite !app_nil_r.
      rewrite Hlt. unfold E. rewrite Hq. reflexivity.
    + cbn [fst snd]. apply so_data.
      * split; [|split].
        -- constructor; cbn; auto.
           ++ apply (inv_q s1 Hinv).
           ++ rewrite (inv_rem_memo s1 Hinv Hrem). exact I.
           ++ apply (inv_eos s1 Hinv).
           ++ intros _. apply (inv_rem_memo s1 Hinv Hrem).
           ++ lia.
        -- split; auto.
        -- reflexivity.
      * unfold spec_of at 1. rewrite HV. rewrite (outcome_in_split _ _ _ _ Hrem Hld). reflexivity.
Qed.

Lemma poll_data_spec s fut fen : fs_inv s -> fut_ok s fut ->
  step_ok (spec_of s fut fen) (E s fen) fut fen (OData (fst (poll_data s))) (snd (poll_data s)).
Proof.
  intros Hinv Hfut. unfold poll_data.
  destruct (N.eqb_spec (st_rem s) 0) as [Hz|Hnz].
  { cbn [fst snd]. apply so_nodata; [|reflexivity]. split; [exact Hinv|]. split; [exact Hfut|reflexivity]. }
  destruct Hfut as [Hwfut Hfut].
  destruct (try_recv_cases s Hinv) as
    [(Hq & Heos & Htr) | [(c & q' & Hq & Hc & Hwc & Hq' & Heos & Htr) | [(Hq & s1 & Htr & Heos1 & Hb1 & Hm1 & Hr1 & Hq1) | (e & Hq & Heos & Htr)]]];
    rewrite Htr; cbv beta iota zeta.
  - change (step_ok (spec_of s fut fen) (E s fen) fut fen (OData (fst (data_ret s false))) (snd (data_ret s false))).
    apply data_step; auto; [split; auto|discriminate].
  - set (s1 := {| st_buf := st_buf s ++ [c]; st_eos := false; st_memo := st_memo s; st_rem := st_rem s; st_q := q' |}).
    assert (Hinv1 : fs_inv s1).
    { constructor; cbn; auto.
      - apply chunks_ok_snoc; auto. apply (inv_buf s Hinv).
      - rewrite concat_snoc. apply memo_ok_app. apply (inv_memo s Hinv).
      - discriminate.
      - apply (inv_rem_memo s Hinv).
      - apply (inv_rem s Hinv). }
    assert (HV1 : V s1 fut = V s fut).
    { unfold V. cbn [s1 st_buf st_q]. rewrite Hq. cbn [qbytes]. rewrite concat_snoc. rewrite <- !app_assoc. reflexivity. }
    assert (HE1 : E s1 fen = E s fen) by (unfold E; cbn [s1 st_q]; rewrite Hq; reflexivity).
    assert (Hspec1 : spec_of s1 fut fen = spec_of s fut fen) by (unfold spec_of; rewrite HV1, HE1; reflexivity).
    rewrite <- Hspec1, <- HE1.
    change (step_ok (spec_of s1 fut fen) (E s1 fen) fut fen (OData (fst (data_ret s1 false))) (snd (data_ret s1 false))).
    apply data_step; auto.
    + split; auto. cbn [s1 st_q]. rewrite Hq in Hfut. exact Hfut.
    + discriminate.
    + intros _ Hb. cbn [s1 st_buf] in Hb. destruct (st_buf s); discriminate.
  - assert (Hfut0 : fut = []) by (apply Hfut; rewrite Hq; discriminate).
    assert (Hinv1 : fs_inv s1).
    { constructor.
      - rewrite Hb1. apply (inv_buf s Hinv).
      - rewrite Hq1. constructor.
      - rewrite Hb1, Hm1. apply (inv_memo s Hinv).
      - auto.
      - rewrite Hr1, Hm1. apply (inv_rem_memo s Hinv).
      - rewrite Hr1. apply (inv_rem s Hinv). }
    assert (HV1 : V s1 fut = V s fut) by (unfold V; rewrite Hb1, Hq1, Hq; reflexivity).
    assert (HE1 : E s1 fen = E s fen) by (unfold E; rewrite Hq1, Hq; reflexivity).
    assert (Hspec1 : spec_of s1 fut fen = spec_of s fut fen) by (unfold spec_of; rewrite HV1, HE1, Hr1; reflexivity).
    rewrite <- Hspec1, <- HE1.
    change (step_ok (spec_of s1 fut fen) (E s1 fen) fut fen (OData (fst (data_ret s1 true))) (snd (data_ret s1 true))).
    apply data_step; auto.
    + split; auto.
    + rewrite Hr1. exact Hnz.
    + discriminate.
  - cbn [fst snd]. apply so_abort_d. unfold E. rewrite Hq. reflexivity.
Qed.

(* ====================================================================================== *)
(* Part F: histories                                                                      *)
(* ====================================================================================== *)

(* polls never change how the queue ends *)
Lemma try_recv_qend s : q_end (st_q (snd (try_recv s))) = q_end (st_q s).
Proof.
  unfold try_recv. destruct (st_eos s); [reflexivity|].
  destruct (st_q s) as [|a q'] eqn:Hq; [cbn; rewrite Hq; reflexivity|].
  destruct a as [c| |e]; cbn [rx_poll].
  - destruct c; cbn; [rewrite Hq|]; reflexivity.
  - cbn. reflexivity.
  - cbn. rewrite Hq. reflexivity.
Qed.

Lemma decoder_decode_q s : st_q (snd (decoder_decode s)) = st_q s.
Proof. unfold decoder_decode. destruct (dec_loop _ _ _) as [[r b] m]. reflexivity. Qed.

Lemma next_loop_qend : forall fuel s, q_end (st_q (snd (next_loop fuel s))) = q_end (st_q s).
Proof.
  induction fuel as [|fuel IH]; intros s; [reflexivity|].
  cbn [next_loop]. pose proof (try_recv_qend s) as Htq.
  destruct (try_recv s) as [p s1]. cbn [snd] in Htq.
  pose proof (decoder_decode_q s1) as Hdq.
  destruct (decoder_decode s1) as [r s2]. cbn [snd] in Hdq.
  assert (H2 : q_end (st_q s2) = q_end (st_q s)) by (rewrite Hdq; exact Htq).
  destruct p as [[b|e|n]|]; try exact Htq.
  - destruct r as [[f|]|e|n]; try exact H2.
    + destruct f; exact H2.
    + destruct b.
      * destruct (fs_next_end_checks_buffer && negb (bl_remaining (st_buf s2) =? 0)); exact H2.
      * rewrite IH. exact H2.
  - destruct r as [[f|]|e|n]; try exact H2. destruct f; exact H2.
Qed.

Lemma poll_next_qend s : q_end (st_q (snd (poll_next s))) = q_end (st_q s).
Proof. unfold poll_next. destruct (negb (st_rem s =? 0)); [reflexivity|apply next_loop_qend]. Qed.

Lemma poll_data_qend s : q_end (st_q (snd (poll_data s))) = q_end (st_q s).
Proof.
  unfold poll_data. destruct (st_rem s =? 0); [reflexivity|].
  pose proof (try_recv_qend s) as Htq. destruct (try_recv s) as [p s1]. cbn [snd] in Htq.
  destruct p as [[b|e|n]|]; try exact Htq.
  - destruct (bl_take_chunk (st_rem s1) (st_buf s1)) as [[d|] b'].
    + destruct (b && fs_data_short_last_guard && (len d <? st_rem s1) && (bl_remaining b' =? 0)); exact Htq.
    + destruct b; [destruct (fs_data_none_end_guard && negb (st_rem s1 =? usize_max))|]; exact Htq.
  - destruct (bl_take_chunk (st_rem s1) (st_buf s1)) as [[d|] b'].
    + cbn [andb]. exact Htq.
    + exact Htq.
Qed.

Lemma run_done : forall h s, fst (run h s true) = [].
Proof. induction h as [|a h IH]; intros s; [reflexivity|]. destruct a; cbn [run]; apply IH. Qed.

(* ---------- arrivals ---------- *)
Lemma terminated_qend q : queue_ok q -> (terminated q = false <-> q_end q = Open).
Proof.
  induction 1 as [|c q Hc Hw Hq IH| |e].
  - cbn. tauto.
  - unfold terminated in *. cbn. exact IH.
  - cbn. split; discriminate.
  - cbn. split; discriminate.
Qed.

Lemma open_queue_snoc q e : queue_ok q -> q_end q = Open ->
  qbytes (q ++ [e]) = qbytes q ++ qbytes [e] /\ q_end (q ++ [e]) = q_end [e] /\
  (match e with Chunk c => c <> [] /\ wf_bytes c | _ => True end -> queue_ok (q ++ [e])).
Proof.
  induction 1 as [|c q Hc Hw Hq IH| |x]; intros Hopen; cbn in Hopen; try discriminate.
  - cbn. repeat split; auto. intros He. destruct e as [c| |x]; [destruct He|..]; constructor; auto; constructor.
  - destruct (IH Hopen) as (H1 & H2 & H3). cbn [app qbytes q_end]. rewrite H1, H2. repeat split; auto.
    + rewrite app_assoc. reflexivity.
    + intros He. constructor; auto.
Qed.

Lemma arrive_inv e s : fs_inv s -> action_ok (Arrive e) -> fs_inv (arrive e s).
Proof.
  intros Hinv Hok. unfold arrive. destruct (terminated (st_q s)) eqn:Ht; [exact Hinv|].
  pose proof (proj1 (terminated_qend _ (inv_q s Hinv)) Ht) as Hopen.
  destruct (open_queue_snoc _ e (inv_q s Hinv) Hopen) as (_ & _ & Hq).
  constructor; cbn; try apply Hinv.
  - apply Hq. destruct e; auto.
  - intros Heos. rewrite (inv_eos s Hinv Heos) in Ht. discriminate.
Qed.

Lemma arrive_spec e h' s fut fen : fs_inv s -> action_ok (Arrive e) -> fut_ok s fut ->
  (q_end (st_q s) = Open -> arrivals (Arrive e :: h') = (fut, fen)) ->
  exists fut' fen', fut_ok (arrive e s) fut' /\
    (q_end (st_q (arrive e s)) = Open -> arrivals h' = (fut', fen')) /\
    spec_of (arrive e s) fut' fen' = spec_of s fut fen /\ E (arrive e s) fen' = E s fen.
Proof.
  intros Hinv Hok [Hwf Hfut] Har. unfold arrive.
  destruct (terminated (st_q s)) eqn:Ht.
  { exists fut, fen. repeat split; auto. intros Hopen.
    apply (terminated_qend _ (inv_q s Hinv)) in Hopen. congruence. }
  pose proof (proj1 (terminated_qend _ (inv_q s Hinv)) Ht) as Hopen.
  destruct (open_queue_snoc _ e (inv_q s Hinv) Hopen) as (Hqb & Hqe & _).
  specialize (Har Hopen).
  destruct e as [c| |x]; cbn [arrivals] in Har.
  - destruct (arrivals h') as [b e'] eqn:Hah. inversion Har; subst fut fen.
    apply wf_bytes_app in Hwf as [Hwc Hwb].
    exists b, e'. split; [|split; [|split]].
    + split; auto. cbn [st_q]. rewrite Hqe. cbn. congruence.
    + auto.
    + unfold spec_of, V, E. cbn [st_rem st_buf st_q]. rewrite Hqb, Hqe, Hopen. cbn [qbytes q_end].
      rewrite app_nil_r. rewrite <- !app_assoc. reflexivity.
    + unfold E. cbn [st_q]. rewrite Hqe, Hopen. reflexivity.
  - inversion Har; subst fut fen. exists [], Open. split; [|split; [|split]].
    + split; auto.
    + cbn [st_q]. rewrite Hqe. cbn. discriminate.
    + unfold spec_of, V, E. cbn [st_rem st_buf st_q]. rewrite Hqb, Hqe, Hopen. cbn [qbytes q_end].
      rewrite !app_nil_r. reflexivity.
    + unfold E. cbn [st_q]. rewrite Hqe, Hopen. reflexivity.
  - inversion Har; subst fut fen. exists [], Open. split; [|split; [|split]].
    + split; auto.
    + cbn [st_q]. rewrite Hqe. cbn. discriminate.
    + unfold spec_of, V, E. cbn [st_rem st_buf st_q]. rewrite Hqb, Hqe, Hopen. cbn [qbytes q_end].
      rewrite !app_nil_r. reflexivity.
    + unfold E. cbn [st_q]. rewrite Hqe, Hopen. reflexivity.
Qed.

(* ---------- composing observations ---------- *)
Lemma last_obs_cons o os : last_obs (o :: os) = match os with [] => Some o | _ => last_obs os end.
Proof. destruct os; reflexivity. Qed.

Lemma refines_final_pre ts toks t O1 en :
  refines_final toks t O1 en -> refines_final (ts ++ toks) t (pre ts O1) en.
Proof.
  intros [[H1 H2]|[(H1 & H2 & bs & H3)|(e & rest & H1 & H2 & H3)]]; unfold pre; cbn [fst snd].
  - left. subst. auto.
  - right. left. repeat split; auto. exists bs. rewrite H3, app_assoc. reflexivity.
  - right. right. exists e, rest. repeat split; auto. rewrite H3, app_assoc. reflexivity.
Qed.

Lemma refines_emit o os' O1 en q :
  obs_final o = false -> obs_pending o = false -> refines os' O1 en q ->
  refines (o :: os') (pre (toks_of_obs o) O1) en q.
Proof.
  intros Hnf Hnp (Hpre & Hfin & Hquiet). unfold refines.
  assert (Htoks : toks_of (o :: os') = toks_of_obs o ++ toks_of os') by reflexivity.
  rewrite Htoks, last_obs_cons. split; [|split].
  - destruct Hpre as [rest Hr]. exists rest. unfold pre. cbn [fst]. rewrite Hr, app_assoc. reflexivity.
  - intros o' Hl Hf. destruct os' as [|o2 os2].
    + inversion Hl; subst. congruence.
    + destruct (Hfin o' Hl Hf) as (t & Ht & Hr). exists t. split; auto. apply refines_final_pre. exact Hr.
  - intros Hq o' Hl Hp. destruct os' as [|o2 os2].
    + inversion Hl; subst. congruence.
    + destruct (Hquiet Hq o' Hl Hp) as [He HO]. split; auto. rewrite HO. reflexivity.
Qed.

Lemma refines_pending o os' O en q q' :
  obs_pending o = true -> refines os' O en q' -> (q = true -> q' = true) ->
  (os' = [] -> q = true -> en = Open /\ O = ([], Waiting)) ->
  refines (o :: os') O en q.
Proof.
  intros Hp (Hpre & Hfin & Hquiet) Hqq Hlast. unfold refines.
  assert (Hto : toks_of_obs o = []) by (destruct o as [[|]|[|]]; try discriminate; reflexivity).
  assert (Hnf : obs_final o = false) by (destruct o as [[|]|[|]]; try discriminate; reflexivity).
  assert (Htoks : toks_of (o :: os') = toks_of os') by (unfold toks_of; cbn [flat_map]; rewrite Hto; reflexivity).
  rewrite Htoks, last_obs_cons. split; [exact Hpre|]. split.
  - intros o' Hl Hf. destruct os' as [|o2 os2]; [inversion Hl; subst; congruence|]. apply Hfin; auto.
  - intros Hq o' Hl Hp'. destruct os' as [|o2 os2].
    + apply Hlast; auto.
    + apply (Hquiet (Hqq Hq) o'); auto.
Qed.

Lemma refines_last o O en q t :
  obs_final o = true -> obs_pending o = false -> tail_of_obs o = Some t ->
  refines_final (toks_of_obs o) t O en -> (exists rest, fst O = toks_of_obs o ++ rest) ->
  refines [o] O en q.
Proof.
  intros Hf Hnp Ht Hr Hpre. unfold refines, toks_of. cbn [flat_map last_obs]. rewrite app_nil_r.
  split; [exact Hpre|]. split.
  - intros o' Hl _. inversion Hl; subst. exists t. auto.
  - intros _ o' Hl Hp. inversion Hl; subst. congruence.
Qed.

Lemma tail_of_proto k fe e : bad_matches fe e -> tail_of_fserr (FsProto k fe) = Some (ProtoError e).
Proof. destruct e; cbn; intros ->; reflexivity. Qed.

(* a history without effective calls and without unsettled arrivals carries nothing *)
Lemma run_nonempty_of_call : forall h s, existsb is_call h = true -> fst (run h s false) <> [].
Proof.
  induction h as [|a h IH]; intros s Hc; [discriminate|].
  destruct a; cbn [run existsb is_call orb] in *.
  - apply IH. exact Hc.
  - destruct (poll_next s) as [r s']. destruct (run h s' (obs_final (ONext r))). discriminate.
  - destruct (poll_data s) as [r s']. destruct (run h s' (obs_final (OData r))). discriminate.
  - destruct (st_rem s =? 0).
    + destruct (poll_next s) as [r s']. destruct (run h s' (obs_final (ONext r))). discriminate.
    + destruct (poll_data s) as [r s']. destruct (run h s' (obs_final (OData r))). discriminate.
Qed.

Lemma settled_silent : forall h s, settled h = true -> fst (run h s false) = [] -> arrivals h = ([], Open).
Proof.
  induction h as [|a h IH]; intros s Hs Hr; [reflexivity|].
  destruct a; cbn [settled] in Hs.
  - apply andb_true_iff in Hs as [Hc _]. cbn [run] in Hr. exfalso. eapply run_nonempty_of_call; eauto.
  - cbn [run] in Hr. destruct (poll_next s) as [r s']. destruct (run h s' (obs_final (ONext r))). discriminate.
  - cbn [run] in Hr. destruct (poll_data s) as [r s']. destruct (run h s' (obs_final (OData r))). discriminate.
  - cbn [run] in Hr. destruct (st_rem s =? 0).
    + destruct (poll_next s) as [r s']. destruct (run h s' (obs_final (ONext r))). discriminate.
    + destruct (poll_data s) as [r s']. destruct (run h s' (obs_final (OData r))). discriminate.
Qed.

Lemma refines_quiet_mono os O en q q' : (q = true -> q' = true) -> refines os O en q' -> refines os O en q.
Proof. intros Hq (H1 & H2 & H3). split; [exact H1|]. split; [exact H2|]. intros Hqt. apply H3. auto. Qed.

Lemma refines_nil O en q : refines [] O en q.
Proof.
  split; [exists (fst O); reflexivity|]. split; intros; discriminate.
Qed.

Lemma call_case h' s fut fen o s1 :
  step_ok (spec_of s fut fen) (E s fen) fut fen o s1 ->
  q_end (st_q s1) = q_end (st_q s) ->
  (q_end (st_q s) = Open -> arrivals h' = (fut, fen)) ->
  (forall s' fut' fen', fs_inv s' -> fut_ok s' fut' ->
     (q_end (st_q s') = Open -> arrivals h' = (fut', fen')) ->
     refines (fst (run h' s' false)) (spec_of s' fut' fen') (E s' fen') (settled h')) ->
  refines (o :: fst (run h' s1 (obs_final o))) (spec_of s fut fen) (E s fen) (settled h').
Proof.
  intros Hstep Hqe Har IH.
  assert (Har1 : q_end (st_q s1) = Open -> arrivals h' = (fut, fen)) by (rewrite Hqe; exact Har).
  inversion Hstep as
    [s' Hc Hq HO Hw | s' Hc Hq HO Hw | f s' Hnw Hc HO | x s' HO | d s' Hc HO | s' Hc HO
     | s' HO | s' HO | s' bs HO | k fe e s' Hbm Hmap HO | e s' Hen | e s' Hen]; subst.
  - (* poll_next pending *)
    destruct Hc as (Hinv1 & Hfut1 & HE1). cbn [obs_final].
    rewrite HO, <- HE1. eapply refines_pending; [reflexivity|apply IH; auto|auto|].
    intros Hos Hs. pose proof (settled_silent _ _ Hs Hos) as Ha.
    assert (Hopen : q_end (st_q s1) = Open) by (rewrite Hq; reflexivity).
    rewrite (Har1 Hopen) in Ha. inversion Ha; subst. split.
    + unfold E. rewrite Hopen. reflexivity.
    + rewrite <- HO. apply Hw; reflexivity.
  - (* poll_data pending *)
    destruct Hc as (Hinv1 & Hfut1 & HE1). cbn [obs_final].
    rewrite HO, <- HE1. eapply refines_pending; [reflexivity|apply IH; auto|auto|].
    intros Hos Hs. pose proof (settled_silent _ _ Hs Hos) as Ha.
    assert (Hopen : q_end (st_q s1) = Open) by (rewrite Hq; reflexivity).
    rewrite (Har1 Hopen) in Ha. inversion Ha; subst. split.
    + unfold E. rewrite Hopen. reflexivity.
    + rewrite <- HO. apply Hw; reflexivity.
  - (* a frame *)
    destruct Hc as (Hinv1 & Hfut1 & HE1).
    assert (Hnf : obs_final (ONext (Ready (Ok (Some f)))) = false).
    { destruct f; try reflexivity. exfalso. eapply Hnw. reflexivity. }
    rewrite Hnf, HO, <- HE1.
    change [TFrame f] with (toks_of_obs (ONext (Ready (Ok (Some f))))).
    apply refines_emit; [exact Hnf|reflexivity|]. apply IH; auto.
  - (* WebTransport header: hand-over *)
    cbn [obs_final]. rewrite run_done.
    eapply refines_last; [reflexivity|reflexivity|reflexivity| |].
    + left. rewrite HO. split; reflexivity.
    + exists []. rewrite HO. reflexivity.
  - (* a piece of DATA *)
    destruct Hc as (Hinv1 & Hfut1 & HE1). cbn [obs_final]. rewrite HO, <- HE1.
    change (map TByte d) with (toks_of_obs (OData (Ready (Ok (Some d))))).
    apply refines_emit; [reflexivity|reflexivity|]. apply IH; auto.
  - (* poll_data with nothing owed *)
    destruct Hc as (Hinv1 & Hfut1 & HE1). cbn [obs_final]. rewrite HO, <- HE1.
    rewrite <- (pre_nil (spec_of s1 fut fen)).
    change (@nil tok) with (toks_of_obs (OData (Ready (Ok None)))).
    apply refines_emit; [reflexivity|reflexivity|]. apply IH; auto.
  - (* clean end *)
    cbn [obs_final]. rewrite run_done. rewrite HO.
    eapply refines_last; [reflexivity|reflexivity|reflexivity| |].
    + left. split; reflexivity.
    + exists []. reflexivity.
  - cbn [obs_final]. rewrite run_done. rewrite HO.
    eapply refines_last; [reflexivity|reflexivity|reflexivity| |].
    + left. split; reflexivity.
    + exists []. reflexivity.
  - cbn [obs_final]. rewrite run_done. rewrite HO.
    eapply refines_last; [reflexivity|reflexivity|reflexivity| |].
    + right. left. repeat split. exists bs. reflexivity.
    + exists (map TByte bs). reflexivity.
  - cbn [obs_final]. rewrite run_done. rewrite HO.
    eapply refines_last; [reflexivity|reflexivity|apply tail_of_proto; exact Hbm| |].
    + left. split; reflexivity.
    + exists []. reflexivity.
  - cbn [obs_final]. rewrite run_done.
    eapply refines_last; [reflexivity|reflexivity|reflexivity| |].
    + right. right. exists e, (fst (spec_of s fut fen)). repeat split; auto.
    + exists (fst (spec_of s fut fen)). reflexivity.
  - cbn [obs_final]. rewrite run_done.
    eapply refines_last; [reflexivity|reflexivity|reflexivity| |].
    + right. right. exists e, (fst (spec_of s fut fen)). repeat split; auto.
    + exists (fst (spec_of s fut fen)). reflexivity.
Qed.

Lemma run_refines : forall h s fut fen,
  fs_inv s -> fut_ok s fut -> hist_ok h ->
  (q_end (st_q s) = Open -> arrivals h = (fut, fen)) ->
  refines (fst (run h s false)) (spec_of s fut fen) (E s fen) (settled h).
Proof.
  induction h as [|a h' IH]; intros s fut fen Hinv Hfut Hh Har.
  - apply refines_nil.
  - inversion Hh as [|a' h'' Ha Hh']; subst.
    destruct a as [e| | |].
    + (* an arrival *)
      cbn [run].
      destruct (arrive_spec e h' s fut fen Hinv Ha Hfut Har) as (fut' & fen' & Hfut' & Har' & Hspec & HE).
      rewrite <- Hspec, <- HE.
      eapply refines_quiet_mono; [|apply IH; auto using arrive_inv].
      cbn [settled]. intros Hs. apply andb_true_iff in Hs. tauto.
    + destruct Ha.
    + (* poll_data *)
      cbn [run settled].
      pose proof (poll_data_spec s fut fen Hinv Hfut) as Hstep.
      pose proof (poll_data_qend s) as Hqe.
      destruct (poll_data s) as [r s1]. cbn [fst snd] in *.
      pose proof (call_case h' s fut fen (OData r) s1 Hstep Hqe Har) as Hcc.
      destruct (run h' s1 (obs_final (OData r))) as [os s2]. cbn [fst] in *.
      apply Hcc. intros s' fut' fen' H1 H2 H3. apply IH; auto.
    + (* the documented pattern *)
      cbn [run settled]. destruct (N.eqb_spec (st_rem s) 0) as [Hz|Hnz].
      * pose proof (poll_next_spec s fut fen Hinv Hz Hfut) as Hstep.
        pose proof (poll_next_qend s) as Hqe.
        destruct (poll_next s) as [r s1]. cbn [fst snd] in *.
        pose proof (call_case h' s fut fen (ONext r) s1 Hstep Hqe Har) as Hcc.
        destruct (run h' s1 (obs_final (ONext r))) as [os s2]. cbn [fst] in *.
        apply Hcc. intros s' fut' fen' H1 H2 H3. apply IH; auto.
      * pose proof (poll_data_spec s fut fen Hinv Hfut) as Hstep.
        pose proof (poll_data_qend s) as Hqe.
        destruct (poll_data s) as [r s1]. cbn [fst snd] in *.
        pose proof (call_case h' s fut fen (OData r) s1 Hstep Hqe Har) as Hcc.
        destruct (run h' s1 (obs_final (OData r))) as [os s2]. cbn [fst] in *.
        apply Hcc. intros s' fut' fen' H1 H2 H3. apply IH; auto.
Qed.

Lemma arrivals_wf h : hist_ok h -> wf_bytes (fst (arrivals h)).
Proof.
  induction 1 as [|a h Ha Hh IH]; [constructor|].
  destruct a as [[c| |e]| | |]; cbn [arrivals]; try exact IH; try constructor.
  destruct (arrivals h) as [b e']. cbn [fst] in *. apply wf_bytes_app. split; [apply Ha|exact IH].
Qed.

Lemma fs_new_inv : fs_inv (fs_new []).
Proof.
  constructor; cbn.
  - apply chunks_ok_nil.
  - constructor.
  - exact I.
  - discriminate.
  - reflexivity.
  - reflexivity.
Qed.

(* T2 *)
Theorem frames_refinement h : hist_ok h ->
  refines (fst (run h (fs_new []) false))
          (frame_outcome sc (flat_of h) (ending_of h)) (ending_of h) (settled h).
Proof.
  intros Hh.
  change (refines (fst (run h (fs_new []) false)) (spec_of (fs_new []) (flat_of h) (ending_of h))
            (E (fs_new []) (ending_of h)) (settled h)).
  apply run_refines; auto.
  - apply fs_new_inv.
  - split; [apply arrivals_wf; exact Hh|]. cbn. intros Hx; congruence.
  - intros _. unfold flat_of, ending_of. destruct (arrivals h); reflexivity.
Qed.

(* ====================================================================================== *)
(* Part G: corollaries                                                                    *)
(* ====================================================================================== *)

(* T1: the `expected` memo never hides a decodable frame *)
Lemma fd_incomplete_head v m n : wf_bytes v -> frame_decode v = (Err (Incomplete m), n) ->
  (v = [] /\ m = fdec_ty_addend) \/ (head_of v = HCut /\ memo_sound m v).
Proof.
  intros Hwf Hd. destruct (head_of v) as [| |l r2|sid r2|ty p rest] eqn:Hh.
  - apply head_empty_iff in Hh. subst v. rewrite fd_nil in Hd. inversion Hd. auto.
  - destruct (fd_cut _ Hwf Hh) as (m' & Hd' & Hs). rewrite Hd' in Hd. inversion Hd; subst. auto.
  - rewrite (fd_data _ _ _ Hwf Hh) in Hd. discriminate.
  - rewrite (fd_wt _ _ _ Hwf Hh) in Hd. discriminate.
  - pose proof (fd_frame _ _ _ _ Hwf Hh) as Hf. destruct (classify sc ty p) as [f|e|].
    + rewrite Hf in Hd. discriminate.
    + destruct Hf as (fe & Hf & Hbm). rewrite Hf in Hd. inversion Hd; subst.
      destruct e; cbn in Hbm; discriminate.
    + rewrite Hf in Hd. discriminate.
Qed.

Theorem memo_safety v m n : wf_bytes v -> frame_decode v = (Err (Incomplete m), n) ->
  forall w, wf_bytes w -> len (v ++ w) < m -> exists m', frame_decode (v ++ w) = (Err (Incomplete m'), 0).
Proof.
  intros Hwf Hd w Hww Hlen.
  destruct (fd_incomplete_head _ _ _ Hwf Hd) as [[-> ->]|[Hh Hs]].
  - assert (Hadd : fdec_ty_addend <= 1) by (vm_compute; discriminate).
    cbn [app] in *. assert (w = []) by (apply len_zero_nil; lia). subst w. eexists. apply fd_nil.
  - assert (Hwf' : wf_bytes (v ++ w)) by (apply wf_bytes_app; auto).
    destruct (fd_cut _ Hwf' (Hs w Hlen)) as (m' & Hd' & _). eauto.
Qed.

(* a final result is the last observation *)
Lemma run_final_last : forall h s os1 o os2,
  fst (run h s false) = os1 ++ o :: os2 -> obs_final o = true -> os2 = [].
Proof.
  assert (Hcall : forall (o0 : obs) (tl : list obs) os1 o os2,
            (obs_final o0 = true -> tl = []) ->
            (obs_final o0 = false -> forall os1' , tl = os1' ++ o :: os2 -> obs_final o = true -> os2 = []) ->
            o0 :: tl = os1 ++ o :: os2 -> obs_final o = true -> os2 = []).
  { intros o0 tl os1 o os2 Hfin Hnf Heq Hf. destruct os1 as [|x os1'].
    - cbn [app] in Heq. injection Heq as Ho Htl. subst o0. rewrite <- Htl. apply Hfin. exact Hf.
    - cbn [app] in Heq. injection Heq as Ho Htl. subst x. destruct (obs_final o0) eqn:Hx.
      + rewrite (Hfin eq_refl) in Htl. destruct os1'; discriminate.
      + eapply Hnf; eauto. }
  induction h as [|a h IH]; intros s os1 o os2 Heq Hf.
  - destruct os1; discriminate.
  - destruct a; cbn [run] in Heq.
    + eapply IH; eauto.
    + destruct (poll_next s) as [r s'] eqn:Hp.
      destruct (run h s' (obs_final (ONext r))) as [os s2] eqn:Hr. cbn [fst] in Heq.
      eapply (Hcall (ONext r) os); eauto.
      * intros Hfin. rewrite Hfin in Hr. pose proof (run_done h s') as Hd. rewrite Hr in Hd. exact Hd.
      * intros Hnf os1' Ho Hfo. rewrite Hnf in Hr. eapply (IH s' os1' o os2); eauto. rewrite Hr. exact Ho.
    + destruct (poll_data s) as [r s'] eqn:Hp.
      destruct (run h s' (obs_final (OData r))) as [os s2] eqn:Hr. cbn [fst] in Heq.
      eapply (Hcall (OData r) os); eauto.
      * intros Hfin. rewrite Hfin in Hr. pose proof (run_done h s') as Hd. rewrite Hr in Hd. exact Hd.
      * intros Hnf os1' Ho Hfo. rewrite Hnf in Hr. eapply (IH s' os1' o os2); eauto. rewrite Hr. exact Ho.
    + destruct (st_rem s =? 0).
      * destruct (poll_next s) as [r s'] eqn:Hp.
        destruct (run h s' (obs_final (ONext r))) as [os s2] eqn:Hr. cbn [fst] in Heq.
        eapply (Hcall (ONext r) os); eauto.
        -- intros Hfin. rewrite Hfin in Hr. pose proof (run_done h s') as Hd. rewrite Hr in Hd. exact Hd.
        -- intros Hnf os1' Ho Hfo. rewrite Hnf in Hr. eapply (IH s' os1' o os2); eauto. rewrite Hr. exact Ho.
      * destruct (poll_data s) as [r s'] eqn:Hp.
        destruct (run h s' (obs_final (OData r))) as [os s2] eqn:Hr. cbn [fst] in Heq.
        eapply (Hcall (OData r) os); eauto.
        -- intros Hfin. rewrite Hfin in Hr. pose proof (run_done h s') as Hd. rewrite Hr in Hd. exact Hd.
        -- intros Hnf os1' Ho Hfo. rewrite Hnf in Hr. eapply (IH s' os1' o os2); eauto. rewrite Hr. exact Ho.
Qed.

Definition obs_panic (o : obs) : bool :=
  match o with ONext (Ready (Panic _)) | OData (Ready (Panic _)) => true | _ => false end.

Lemma last_obs_app os o : last_obs (os ++ [o]) = Some o.
Proof. induction os as [|x os IH]; [reflexivity|]. cbn [app]. rewrite last_obs_cons. destruct (os ++ [o]) eqn:E; [destruct os; discriminate|]. exact IH. Qed.

(* no panic under the transport and call contracts, from any state satisfying the invariant *)
Theorem run_no_panic h s : fs_inv s -> hist_ok h ->
  forall o, In o (fst (run h s false)) -> obs_panic o = false.
Proof.
  intros Hinv Hh o Hin.
  destruct (obs_final o) eqn:Hf.
  2:{ destruct o as [[[ | |]|]|[[ | |]|]]; try reflexivity; discriminate. }
  apply in_split in Hin as (os1 & os2 & Heq).
  pose proof (run_final_last h s os1 o os2 Heq Hf) as ->.
  destruct (arrivals h) as [fut fen] eqn:Har.
  assert (Hfutok : exists fut', fut_ok s fut' /\ (q_end (st_q s) = Open -> arrivals h = (fut', fen))).
  { destruct (q_end (st_q s)) eqn:Hq.
    - exists fut. split; [|auto]. split; [|congruence].
      pose proof (arrivals_wf h Hh) as Hw. rewrite Har in Hw. exact Hw.
    - exists []. split; [split; [constructor|auto]|discriminate].
    - exists []. split; [split; [constructor|auto]|discriminate]. }
  destruct Hfutok as (fut' & Hfo & Hcompat).
  pose proof (run_refines h s fut' fen Hinv Hfo Hh Hcompat) as (_ & Hfin & _).
  rewrite Heq in Hfin. specialize (Hfin o (last_obs_app os1 o) Hf). destruct Hfin as (t & Ht & _).
  destruct o as [[[ | |]|]|[[ | |]|]]; try reflexivity; discriminate.
Qed.

(* T4: the error raised for a final result carries the code RFC 9114 prescribes for that tail *)
Lemma code_of_tail e t : tail_of_fserr e = Some t ->
  (forall k fe, e = FsProto k fe -> map_ferr fe = Some e) -> fserr_code e = tail_code t.
Proof.
  intros Ht Hm. destruct e as [k fe|q|].
  - specialize (Hm k fe eq_refl).
    destruct fe; cbn in Ht; try discriminate; inversion Ht; subst;
      cbn in Hm; inversion Hm; subst; reflexivity.
  - inversion Ht; subst. reflexivity.
  - inversion Ht; subst. reflexivity.
Qed.

(* T3: chunking (and interleaving) independence *)
Theorem chunking_independent h1 h2 :
  hist_ok h1 -> hist_ok h2 -> flat_of h1 = flat_of h2 -> ending_of h1 = ending_of h2 ->
  (forall e, ending_of h1 <> Broken e) ->
  let os1 := fst (run h1 (fs_new []) false) in
  let os2 := fst (run h2 (fs_new []) false) in
  (* two runs that reached a final result: same result, same tokens (up to the tail of a truncated DATA payload) *)
  (forall o1 o2 t1 t2, last_obs os1 = Some o1 -> last_obs os2 = Some o2 ->
     obs_final o1 = true -> obs_final o2 = true -> tail_of_obs o1 = Some t1 -> tail_of_obs o2 = Some t2 ->
     t1 = t2 /\
     (t1 <> FrameError -> toks_of os1 = toks_of os2) /\
     (exists bs1 bs2, toks_of os1 ++ map TByte bs1 = toks_of os2 ++ map TByte bs2)) /\
  (* two runs left pending with everything delivered: same tokens *)
  (forall o1 o2, settled h1 = true -> settled h2 = true -> last_obs os1 = Some o1 -> last_obs os2 = Some o2 ->
     obs_pending o1 = true -> obs_pending o2 = true -> toks_of os1 = toks_of os2).
Proof.
  intros Hh1 Hh2 Hflat Hend Hnb os1 os2.
  pose proof (frames_refinement h1 Hh1) as (_ & Hf1 & Hq1).
  pose proof (frames_refinement h2 Hh2) as (_ & Hf2 & Hq2).
  rewrite <- Hflat, <- Hend in Hf2, Hq2. fold os1 in Hf1, Hq1. fold os2 in Hf2, Hq2.
  set (O := frame_outcome sc (flat_of h1) (ending_of h1)) in *.
  split.
  - intros o1 o2 t1 t2 Hl1 Hl2 Hfo1 Hfo2 Ht1 Ht2.
    destruct (Hf1 o1 Hl1 Hfo1) as (t1' & Ht1' & Hr1). destruct (Hf2 o2 Hl2 Hfo2) as (t2' & Ht2' & Hr2).
    rewrite Ht1 in Ht1'. rewrite Ht2 in Ht2'. inversion Ht1'; inversion Ht2'; subst t1' t2'.
    destruct Hr1 as [[A1 B1]|[(A1 & B1 & bs1 & C1)|(e & rest & A1 & _)]]; [| |exfalso; eapply Hnb; eauto];
    destruct Hr2 as [[A2 B2]|[(A2 & B2 & bs2 & C2)|(e & rest & A2 & _)]]; try (exfalso; eapply Hnb; eauto; fail).
    + split; [congruence|]. split; [intros; congruence|]. exists [], []. rewrite !app_nil_r. congruence.
    + split; [congruence|]. split; [intros Hx; congruence|]. exists [], bs2. cbn [map]. rewrite app_nil_r. congruence.
    + split; [congruence|]. split; [intros Hx; congruence|]. exists bs1, []. cbn [map]. rewrite app_nil_r. congruence.
    + split; [congruence|]. split; [intros Hx; congruence|]. exists bs1, bs2. congruence.
  - intros o1 o2 Hs1 Hs2 Hl1 Hl2 Hp1 Hp2.
    destruct (Hq1 Hs1 o1 Hl1 Hp1) as [_ HO1]. destruct (Hq2 Hs2 o2 Hl2 Hp2) as [_ HO2].
    rewrite HO1 in HO2. inversion HO2. reflexivity.
Qed.
