From H3V Require Import Base.Bytes Base.BytesLemmas Gen.GenCodes Gen.GenHeaders Model.HttpCrate Model.Headers
  Spec.WellFormed Spec.HttpParseable.
From Coq Require Import ZifyBool ZifyNat ZifyN.
Ltac Zify.zify_post_hook ::= Z.div_mod_to_equations.

(* ---- the call sites: every refusal carries H3_MESSAGE_ERROR *)
Lemma srv_refusal_code g fs r :
  resolve_request g fs = Refused r ->
  r_code r = H3_MESSAGE_ERROR_rfc /\ r_reset r = Some H3_MESSAGE_ERROR_rfc /\ r_stop_sending r = Some H3_MESSAGE_ERROR_rfc.
Proof.
  unfold resolve_request. intros H.
  destruct (try_from g fs) as [h|e|s]; [destruct (into_request_parts h) as [[[[m u] p] hd]|e|s]|..];
    inversion H; subst; cbn; repeat split; reflexivity.
Qed.

(* ================================================================== generic helpers *)
Lemma bytes_eqb_eq a b : bytes_eqb a b = true <-> a = b.
Proof.
  revert b. induction a as [|x a IH]; intros [|y b]; cbn [bytes_eqb]; split; intros H; try congruence; try reflexivity.
  - apply andb_true_iff in H. destruct H as [H1 H2]. apply N.eqb_eq in H1. apply IH in H2. congruence.
  - inversion H; subst. rewrite N.eqb_refl. cbn. apply IH. reflexivity.
Qed.
Lemma bytes_eqb_refl a : bytes_eqb a a = true.
Proof. apply bytes_eqb_eq. reflexivity. Qed.
Lemma bytes_eqb_neq a b : bytes_eqb a b = false <-> a <> b.
Proof.
  split; intros H.
  - intros E. apply bytes_eqb_eq in E. congruence.
  - destruct (bytes_eqb a b) eqn:E; [apply bytes_eqb_eq in E; contradiction|reflexivity].
Qed.
Lemma beq_eq a b : beq a b = true <-> a = b.
Proof. unfold beq. destruct (list_eq_dec N.eq_dec a b); split; intros; congruence. Qed.
Lemma beq_refl a : beq a a = true.
Proof. apply beq_eq. reflexivity. Qed.
Lemma beq_neq a b : beq a b = false <-> a <> b.
Proof. unfold beq. destruct (list_eq_dec N.eq_dec a b); split; intros; congruence. Qed.
Lemma bytes_eqb_beq a b : bytes_eqb a b = beq a b.
Proof.
  destruct (beq a b) eqn:E.
  - apply beq_eq in E. subst. apply bytes_eqb_refl.
  - apply beq_neq in E. apply bytes_eqb_neq. exact E.
Qed.
Lemma memb_In a l : memb a l = true <-> In a l.
Proof.
  unfold memb. rewrite existsb_exists. split.
  - intros (x & Hx & E). apply beq_eq in E. subst. exact Hx.
  - intros H. exists a. split; [exact H|apply beq_refl].
Qed.

(* all 256 byte values, for facts about character tables *)
Definition all_bytes : list N := map N.of_nat (seq 0 256).
Lemma all_bytes_in b : b < 256 -> In b all_bytes.
Proof.
  intros H. unfold all_bytes. apply in_map_iff. exists (N.to_nat b). split; [lia|]. apply in_seq. lia.
Qed.
Lemma byte_table (P : N -> bool) : forallb P all_bytes = true -> forall b, b < 256 -> P b = true.
Proof. intros H b Hb. rewrite forallb_forall in H. apply H. apply all_bytes_in. exact Hb. Qed.

Lemma in_range_spec lo hi b : in_range lo hi b = true <-> lo <= b <= hi.
Proof. unfold in_range. lia. Qed.

(* ================================================================== character classes *)
(* is_token_char (generated from the Rust matches! pattern) is exactly RFC 9110 tchar minus A-Z *)
Lemma is_token_char_bounded b : is_token_char b = true -> b < 256.
Proof.
  unfold is_token_char, token_char_ranges. cbn [existsb fst snd]. unfold in_range. lia.
Qed.
Lemma is_token_char_table : forallb (fun b => Bool.eqb (is_token_char b) (lower_tchar b)) all_bytes = true.
Proof. vm_compute. reflexivity. Qed.
Lemma is_token_char_lower_tchar b : is_token_char b = true -> lower_tchar b = true.
Proof.
  intros H. pose proof (is_token_char_bounded b H) as Hb.
  pose proof (byte_table _ is_token_char_table b Hb) as T. cbn beta in T.
  apply Bool.eqb_prop in T. congruence.
Qed.
Lemma lower_tchar_is_token_char b : b < 256 -> lower_tchar b = true -> is_token_char b = true.
Proof.
  intros Hb H. pose proof (byte_table _ is_token_char_table b Hb) as T. cbn beta in T.
  apply Bool.eqb_prop in T. congruence.
Qed.

(* HeaderValue bytes are exactly the RFC 9110 field-value bytes *)
Lemma value_byte_table : forallb (fun b => Bool.eqb (value_byte_ok b) (field_value_byte b)) all_bytes = true.
Proof. vm_compute. reflexivity. Qed.
Lemma value_byte_ok_legal b : b < 256 -> value_byte_ok b = field_value_byte b.
Proof. intros Hb. pose proof (byte_table _ value_byte_table b Hb) as T. cbn beta in T. apply Bool.eqb_prop in T. exact T. Qed.
Lemma hvalue_ok_legal v : wf_bytes v -> hvalue_ok v = field_value_ok v.
Proof.
  unfold hvalue_ok, field_value_ok. induction v as [|b v IH]; intros W; [reflexivity|].
  apply wf_bytes_cons in W. destruct W as [Hb W]. cbn [forallb]. rewrite IH by exact W.
  rewrite value_byte_ok_legal by exact Hb. reflexivity.
Qed.

(* Method bytes are exactly tchar: a parseable :method is an RFC 9110 token *)
Lemma method_char_table : forallb (fun b => Bool.eqb (method_char b) (tchar b)) all_bytes = true.
Proof. vm_compute. reflexivity. Qed.
Lemma method_char_bounded b : method_char b = true -> b < 256.
Proof. unfold method_char, one_of, in_range. cbn [existsb]. lia. Qed.
Lemma method_char_tchar b : method_char b = true -> tchar b = true.
Proof.
  intros H. pose proof (byte_table _ method_char_table b (method_char_bounded b H)) as T. cbn beta in T.
  apply Bool.eqb_prop in T. congruence.
Qed.
Lemma method_ok_token m : method_ok m = true -> token m = true.
Proof.
  unfold method_ok, token. destruct m as [|b m]; [discriminate|]. intros H.
  rewrite forallb_forall in *. intros x Hx. apply method_char_tchar. apply H. exact Hx.
Qed.
Lemma tchar_legal_table : forallb (fun b => implb (tchar b) (field_value_byte b)) all_bytes = true.
Proof. vm_compute. reflexivity. Qed.

(* a name accepted by HeaderName::from_lowercase never starts with ':' *)
Lemma hname_ok_not_pseudo n : hname_ok n = true -> is_pseudo_name n = false.
Proof.
  unfold hname_ok, is_pseudo_name. destruct n as [|b n]; [reflexivity|]. intros H.
  apply andb_true_iff in H. destruct H as [_ H]. cbn [forallb] in H. apply andb_true_iff in H. destruct H as [H _].
  destruct b as [|p]; [reflexivity|].
  destruct (N.eqb_spec (N.pos p) 58) as [E|E]; [rewrite E in H; vm_compute in H; discriminate|].
  repeat (destruct p as [p|p|]; try reflexivity); exfalso; apply E; reflexivity.
Qed.

(* ================================================================== Field::parse *)
Lemma is_pseudo_name_cons c r : is_pseudo_name (c :: r) = (c =? 58).
Proof.
  destruct (N.eqb_spec c 58) as [E|E]; [subst; reflexivity|].
  unfold is_pseudo_name. destruct c as [|p]; [reflexivity|].
  repeat (destruct p as [p|p|]; try reflexivity); exfalso; apply E; reflexivity.
Qed.

Lemma forallb_token_name n : n <> [] -> forallb is_token_char n = true -> field_name_ok n = true.
Proof.
  intros Hn H. unfold field_name_ok. destruct n as [|b n]; [contradiction|].
  rewrite forallb_forall in *. intros x Hx. apply is_token_char_lower_tchar. apply H. exact Hx.
Qed.

(* a regular field line that Field::parse accepts *)
Lemma field_parse_regular n v f :
  field_parse n v = Ok f -> is_pseudo_name n = false ->
  f = FHeader n v /\ field_name_ok n = true /\ hname_ok n = true /\ hvalue_ok v = true.
Proof.
  unfold field_parse. destruct n as [|c r]; [cbn; discriminate|].
  rewrite is_pseudo_name_cons. intros H Hc. change pseudo_prefix with 58 in H. rewrite Hc in H. cbn [negb] in H.
  change token_check_used with true in H. change name_ctor_lowercase with true in H. change value_checked with true in H.
  cbn [andb negb] in H.
  destruct (forallb is_token_char (c :: r)) eqn:Ht; cbn [negb] in H; [|discriminate].
  destruct (hname_ok (c :: r)) eqn:Hn; [|discriminate].
  destruct (hvalue_ok v) eqn:Hv; cbn [negb] in H; [|discriminate].
  inversion H; subst. repeat split; try reflexivity.
  apply forallb_token_name; [discriminate|exact Ht].
Qed.

Definition pseudo_shape (n v : bytes) (f : field) : Prop :=
  (n = pn_method /\ f = FMethod v /\ method_ok v = true) \/
  (n = pn_scheme /\ f = FScheme v /\ utf8_valid v = true /\ scheme_ok v = true) \/
  (n = pn_authority /\ f = FAuthority v /\ utf8_valid v = true /\ authority_ok v = true) \/
  (n = pn_path /\ utf8_valid v = true /\ exists q, path_parse v = Ok q /\ f = FPath q) \/
  (n = pn_status /\ exists k, status_parse v = Some k /\ f = FStatus k) \/
  (n = pn_protocol /\ utf8_valid v = true /\ exists x, protocol_from_str v = Some x /\ f = FProtocol x).

Lemma assoc_bytes_in {V} k (l : list (bytes * V)) v : assoc_bytes k l = Some v -> In (k, v) l.
Proof.
  induction l as [|[k' v'] r IH]; [discriminate|]. cbn [assoc_bytes].
  destruct (bytes_eqb k k') eqn:E.
  - apply bytes_eqb_eq in E. subst. intros H. inversion H. left. reflexivity.
  - intros H. right. apply IH. exact H.
Qed.

(* a pseudo-header field line that Field::parse accepts is one of the six defined ones, with a parseable value
   (independent of the order of the match arms in the source) *)
Lemma parse_pseudo_shape n k p v f :
  In (n, (k, p)) pseudo_arms -> parse_pseudo k p v = Some f -> pseudo_shape n v f.
Proof.
  intros I H. unfold pseudo_arms in I. cbn [In] in I. unfold pseudo_shape.
  unfold parse_pseudo in H. change try_value_utf8 with true in H.
  repeat (destruct I as [I|I]; [inversion I; subst n k p; clear I|]); try contradiction; cbn [negb] in H;
    try (destruct (utf8_valid v) eqn:U; cbn [negb] in H; [|discriminate]);
    first
    [ (* :method *) destruct (method_ok v) eqn:S; [|discriminate]; inversion H; left; repeat split; assumption
    | (* :scheme *) destruct (scheme_ok v) eqn:S; [|discriminate]; inversion H; right; left; repeat split; assumption
    | (* :authority *) destruct (authority_ok v) eqn:S; [|discriminate]; inversion H; right; right; left; repeat split; assumption
    | (* :path *) destruct (path_parse v) as [q|e|s] eqn:S; try discriminate; inversion H; right; right; right; left;
        repeat split; try assumption; exists q; split; reflexivity
    | (* :status *) destruct (status_parse v) as [st|] eqn:S; [|discriminate]; inversion H;
        right; right; right; right; left; split; [reflexivity|]; exists st; split; reflexivity
    | (* :protocol *) destruct (protocol_from_str v) as [x|] eqn:S; [|discriminate]; inversion H;
        right; right; right; right; right; repeat split; try assumption; exists x; split; reflexivity ].
Qed.

Lemma field_parse_pseudo n v f :
  field_parse n v = Ok f -> is_pseudo_name n = true -> hvalue_ok v = true /\ pseudo_shape n v f.
Proof.
  unfold field_parse. destruct n as [|c r]; [cbn; discriminate|].
  rewrite is_pseudo_name_cons. intros H Hc. change pseudo_prefix with 58 in H. rewrite Hc in H. cbn [negb] in H.
  change pseudo_value_checked with true in H. cbn [andb] in H.
  destruct (hvalue_ok v) eqn:Hv; cbn [negb] in H; [|discriminate]. split; [reflexivity|].
  destruct (assoc_bytes (c :: r) pseudo_arms) as [[k p]|] eqn:A;
    [|change unknown_pseudo_is_error with true in H; discriminate].
  destruct (parse_pseudo k p v) as [f'|] eqn:PP; [|discriminate]. inversion H; subst f'.
  eapply parse_pseudo_shape; [apply assoc_bytes_in; exact A|exact PP].
Qed.

Lemma known_protocols_gen v x : protocol_from_str v = Some x -> memb v known_protocols = true.
Proof.
  unfold protocol_from_str, proto_from_str. cbn [assoc_bytes]. intros H.
  repeat match type of H with
  | context [bytes_eqb v ?k] =>
      let E := fresh "E" in destruct (bytes_eqb v k) eqn:E; [apply bytes_eqb_eq in E; subst v; vm_compute; reflexivity|]
  end.
  discriminate.
Qed.

Lemma pseudo_shape_parseable n v f :
  pseudo_shape n v f -> In n defined_pseudo /\ http_parseable n v = true.
Proof.
  unfold pseudo_shape. intros H.
  destruct H as [(E & _ & H)|[(E & _ & U & H)|[(E & _ & U & H)|[(E & U & q & H & _)|[(E & k & H & _)|(E & U & x & H & _)]]]]];
    subst n; (split; [unfold defined_pseudo; cbn; tauto|]); unfold http_parseable;
    repeat match goal with |- context [beq ?a ?b] => let T := eval vm_compute in (beq a b) in change (beq a b) with T; cbv iota end.
  - exact H.
  - rewrite U, H. reflexivity.
  - rewrite U, H. reflexivity.
  - rewrite U. unfold path_ok. rewrite H. reflexivity.
  - rewrite H. reflexivity.
  - eapply known_protocols_gen. exact H.
Qed.

(* ================================================================== HeaderMap as an ordered multimap *)
Definition hm_of (fs : list fieldline) (m : hmap) : hmap :=
  fold_left (fun m f => hm_append (fst f) (snd f) m) fs m.

Lemma values_of_app name a b : values_of name (a ++ b) = values_of name a ++ values_of name b.
Proof. unfold values_of. rewrite filter_app, map_app. reflexivity. Qed.
Lemma values_of_entry name k vs :
  values_of name (map (fun v => (k, v)) vs) = if beq k name then vs else [].
Proof.
  unfold values_of. induction vs as [|v vs IH]; cbn [map filter fst]; [destruct (beq k name); reflexivity|].
  destruct (beq k name) eqn:E; cbn [map snd]; rewrite IH; reflexivity.
Qed.
Lemma hm_iter_cons k vs r : hm_iter ((k, vs) :: r) = map (fun v => (k, v)) vs ++ hm_iter r.
Proof. reflexivity. Qed.
Lemma values_of_absent name m : ~ In name (map fst m) -> values_of name (hm_iter m) = [].
Proof.
  induction m as [|[k vs] r IH]; intros H; [reflexivity|].
  rewrite hm_iter_cons, values_of_app, values_of_entry. cbn [map fst] in H.
  destruct (beq k name) eqn:E; [apply beq_eq in E; subst; exfalso; apply H; left; reflexivity|].
  cbn [app]. apply IH. intros I. apply H. right. exact I.
Qed.

Lemma hm_append_keys n v m :
  map fst (hm_append n v m) = if existsb (beq n) (map fst m) then map fst m else map fst m ++ [n].
Proof.
  induction m as [|[k vs] r IH]; [reflexivity|].
  cbn [hm_append map fst existsb]. rewrite bytes_eqb_beq.
  destruct (beq k n) eqn:E.
  - apply beq_eq in E. subst. rewrite beq_refl. reflexivity.
  - assert (E' : beq n k = false) by (apply beq_neq; apply beq_neq in E; congruence).
    rewrite E'. cbn [orb map fst]. rewrite IH. destruct (existsb (beq n) (map fst r)); reflexivity.
Qed.
Lemma hm_append_nodup n v m : NoDup (map fst m) -> NoDup (map fst (hm_append n v m)).
Proof.
  intros H. rewrite hm_append_keys. destruct (existsb (beq n) (map fst m)) eqn:E; [exact H|].
  assert (Hn : ~ In n (map fst m)).
  { intros I. assert (existsb (beq n) (map fst m) = true) by (apply existsb_exists; exists n; split; [exact I|apply beq_refl]). congruence. }
  clear E. induction (map fst m) as [|x l IH]; cbn.
  - constructor; [intros []|constructor].
  - inversion H; subst. constructor.
    + rewrite in_app_iff. intros [I|[I|[]]]; [contradiction|]. subst. apply Hn. left. reflexivity.
    + apply IH; [assumption|]. intros I. apply Hn. right. exact I.
Qed.

Lemma values_of_hm_append name n v m :
  NoDup (map fst m) ->
  values_of name (hm_iter (hm_append n v m)) = values_of name (hm_iter m) ++ (if beq n name then [v] else []).
Proof.
  induction m as [|[k vs] r IH]; intros ND.
  - cbn [hm_append]. rewrite hm_iter_cons, values_of_app, values_of_entry. cbn. destruct (beq n name); reflexivity.
  - cbn [hm_append]. rewrite bytes_eqb_beq. cbn [map fst] in ND. inversion ND as [|? ? Hk ND']; subst.
    destruct (beq k n) eqn:E.
    + apply beq_eq in E. subst k. rewrite !hm_iter_cons, !values_of_app, !values_of_entry.
      destruct (beq n name) eqn:E2.
      * apply beq_eq in E2. subst name. rewrite (values_of_absent n r Hk). rewrite !app_nil_r. reflexivity.
      * rewrite app_nil_r. reflexivity.
    + rewrite !hm_iter_cons, !values_of_app. rewrite IH by exact ND'. rewrite app_assoc. reflexivity.
Qed.

Lemma hm_of_nodup fs : forall m, NoDup (map fst m) -> NoDup (map fst (hm_of fs m)).
Proof.
  induction fs as [|f fs IH]; intros m H; [exact H|]. cbn [hm_of fold_left]. apply IH. apply hm_append_nodup. exact H.
Qed.
Lemma values_of_cons name n v fs :
  values_of name ((n, v) :: fs) = (if beq n name then [v] else []) ++ values_of name fs.
Proof. unfold values_of. cbn [filter fst]. destruct (beq n name); reflexivity. Qed.
Lemma values_of_hm_of name fs : forall m,
  NoDup (map fst m) -> values_of name (hm_iter (hm_of fs m)) = values_of name (hm_iter m) ++ values_of name fs.
Proof.
  induction fs as [|[n v] fs IH]; intros m H.
  - cbn. rewrite app_nil_r. reflexivity.
  - cbn [hm_of fold_left fst snd]. change (fold_left _ fs ?x) with (hm_of fs x).
    rewrite IH by (apply hm_append_nodup; exact H). rewrite values_of_hm_append by exact H.
    rewrite values_of_cons, app_assoc. reflexivity.
Qed.

Lemma hm_get_first name m : NoDup (map fst m) -> hm_get name m = hd_error (values_of name (hm_iter m)).
Proof.
  induction m as [|[k vs] r IH]; intros ND; [reflexivity|].
  cbn [hm_get]. rewrite bytes_eqb_beq, hm_iter_cons, values_of_app, values_of_entry.
  cbn [map fst] in ND. inversion ND as [|? ? Hk ND']; subst.
  destruct (beq k name) eqn:E.
  - apply beq_eq in E. subst. rewrite (values_of_absent name r Hk), app_nil_r. reflexivity.
  - cbn [app]. apply IH. exact ND'.
Qed.

(* ================================================================== the try_from loop *)
Lemma last_value_cons name n v fs :
  last_value name ((n, v) :: fs) =
  match last_value name fs with Some x => Some x | None => if beq n name then Some v else None end.
Proof.
  unfold last_value. rewrite values_of_cons. destruct (beq n name); cbn [app].
  - cbn [rev]. destruct (rev (values_of name fs)); reflexivity.
  - destruct (rev (values_of name fs)); reflexivity.
Qed.
Lemma last_value_none name fs : last_value name fs = None <-> values_of name fs = [].
Proof.
  unfold last_value. destruct (values_of name fs) as [|x l] eqn:E; [cbn; tauto|].
  split; [|discriminate]. destruct (rev (x :: l)) eqn:R; [|discriminate].
  apply (f_equal (@length _)) in R. rewrite rev_length in R. cbn in R. discriminate.
Qed.
Lemma last_value_in name fs v : last_value name fs = Some v -> In (name, v) fs.
Proof.
  induction fs as [|[n x] fs IH]; [discriminate|]. rewrite last_value_cons.
  destruct (last_value name fs) as [y|].
  - intros H. inversion H; subst. right. apply IH. reflexivity.
  - destruct (beq n name) eqn:E; [|discriminate]. intros H. inversion H; subst. apply beq_eq in E. subst. left. reflexivity.
Qed.
Lemma values_of_in name fs v : In v (values_of name fs) <-> In (name, v) fs.
Proof.
  unfold values_of. rewrite in_map_iff. split.
  - intros ([n x] & E & I). cbn in E. subst. apply filter_In in I. destruct I as [I B]. cbn in B. apply beq_eq in B. subst. exact I.
  - intros I. exists (name, v). split; [reflexivity|]. apply filter_In. split; [exact I|]. cbn. apply beq_refl.
Qed.

Definition pick {A} (parse : bytes -> option A) (name : bytes) (fs : list fieldline) (d : option A) : option A :=
  match last_value name fs with Some v => parse v | None => d end.
Lemma pick_cons {A} (parse : bytes -> option A) name n v fs d :
  pick parse name ((n, v) :: fs) d =
  match last_value name fs with Some x => parse x | None => if beq n name then parse v else d end.
Proof. unfold pick. rewrite last_value_cons. destruct (last_value name fs); [reflexivity|]. destruct (beq n name); reflexivity. Qed.

Definition path_opt (v : bytes) : option pq := match path_parse v with Ok q => Some q | _ => None end.

Definition loop_post (fs : list fieldline) (ps : pseudo) (m : hmap) (h : header) : Prop :=
  h_fields h = hm_of (regular_fields fs) m /\
  p_method (h_pseudo h) = pick Some pn_method fs (p_method ps) /\
  p_scheme (h_pseudo h) = pick Some pn_scheme fs (p_scheme ps) /\
  p_authority (h_pseudo h) = pick Some pn_authority fs (p_authority ps) /\
  p_path (h_pseudo h) = pick path_opt pn_path fs (p_path ps) /\
  p_status (h_pseudo h) = pick status_parse pn_status fs (p_status ps) /\
  p_protocol (h_pseudo h) = pick protocol_from_str pn_protocol fs (p_protocol ps).

Lemma regular_fields_cons n v fs :
  regular_fields ((n, v) :: fs) = if is_pseudo_name n then regular_fields fs else (n, v) :: regular_fields fs.
Proof. unfold regular_fields. cbn [filter fst]. destruct (is_pseudo_name n); reflexivity. Qed.

Lemma beq_pseudo_regular n name : is_pseudo_name n = false -> is_pseudo_name name = true -> beq n name = false.
Proof. intros H1 H2. apply beq_neq. intros E. subst. congruence. Qed.

Ltac beq_compute :=
  repeat match goal with
  | |- context [beq ?a ?b] => let T := eval vm_compute in (beq a b) in change (beq a b) with T; cbv iota
  | H : context [beq ?a ?b] |- _ => let T := eval vm_compute in (beq a b) in change (beq a b) with T in H; cbv iota in H
  end.

Lemma try_from_loop_ok g fs : forall i ps m h,
  try_from_loop g i fs ps m = Ok h ->
  Forall (fun f => exists x, field_parse (fst f) (snd f) = Ok x) fs /\ loop_post fs ps m h.
Proof.
  induction fs as [|[n v] fs IH]; intros i ps m h H.
  - cbn in H. inversion H; subst. split; [constructor|]. unfold loop_post, pick. cbn. repeat split.
  - cbn [try_from_loop] in H. destruct (field_parse n v) as [f|e|s] eqn:P; try discriminate.
    destruct (is_pseudo_name n) eqn:Pn.
    + (* pseudo *)
      pose proof (field_parse_pseudo n v f P Pn) as [_ S]. unfold pseudo_shape in S.
      destruct S as [(E & F & _)|[(E & F & _)|[(E & F & _)|[(E & _ & q & Q & F)|[(E & k & Q & F)|(E & _ & x & Q & F)]]]]];
        subst n f; apply IH in H; destruct H as [H1 H2];
        (split; [constructor; [eexists; exact P|exact H1]|]);
        unfold loop_post in *; rewrite regular_fields_cons; cbn [is_pseudo_name];
        rewrite !pick_cons; unfold pick in H2; cbn [set_field p_method p_scheme p_authority p_path p_status p_protocol] in H2;
        destruct H2 as (F0 & F1 & F2 & F3 & F4 & F5 & F6); beq_compute;
        repeat split; try assumption;
        try (unfold path_opt at 2; rewrite Q); try rewrite Q; try assumption.
    + (* regular *)
      pose proof (field_parse_regular n v f P Pn) as (F & _). subst f.
      destruct (g i); [change append_fallible with true in H; discriminate|].
      apply IH in H. destruct H as [H1 H2].
      split; [constructor; [cbn; exists (FHeader n v); exact P|exact H1]|].
      unfold loop_post in *. rewrite regular_fields_cons, Pn. rewrite !pick_cons. unfold pick in H2.
      destruct H2 as (F0 & F1 & F2 & F3 & F4 & F5 & F6).
      rewrite !(beq_pseudo_regular n) by (exact Pn || reflexivity).
      repeat split; assumption.
Qed.

(* ================================================================== PathAndQuery: the stored data is the value without
   its fragment, and parsing it again (what the Uri builder does with as_str()) gives the same value back *)
Lemma strip_fragment_len s : len (strip_fragment s) <= len s.
Proof.
  unfold len. induction s as [|b r IH]; cbn [strip_fragment]; [lia|].
  destruct (b =? 35); cbn [length]; lia.
Qed.
Lemma query_class_frag b : query_class b = CFragment <-> b = 35.
Proof.
  unfold query_class. destruct (N.eqb_spec b 35) as [E|E]; [tauto|].
  split; [|contradiction]. repeat match goal with |- context [if ?c then _ else _] => destruct c end; discriminate.
Qed.
Lemma path_class_frag b : path_class b = CFragment <-> b = 35.
Proof.
  unfold path_class. destruct (N.eqb_spec b 63) as [E|E]; [subst; split; discriminate|].
  destruct (N.eqb_spec b 35) as [E2|E2]; [tauto|].
  split; [|contradiction]. repeat match goal with |- context [if ?c then _ else _] => destruct c end; discriminate.
Qed.

Definition frag_cut (s : bytes) (i : N) (f : option N) : Prop :=
  match f with
  | None => strip_fragment s = s
  | Some j => i <= j /\ firstn (N.to_nat (j - i)) s = strip_fragment s
  end.

Lemma frag_cut_step b r i f : b <> 35 -> frag_cut r (i + 1) f -> frag_cut (b :: r) i f.
Proof.
  intros B H. apply N.eqb_neq in B. destruct f as [j|]; cbn [frag_cut strip_fragment] in *; rewrite B.
  - destruct H as [L E]. split; [lia|]. replace (N.to_nat (j - i)) with (S (N.to_nat (j - (i + 1)))) by lia.
    cbn [firstn]. rewrite E. reflexivity.
  - rewrite H. reflexivity.
Qed.
Lemma frag_cut_here r i : frag_cut (35 :: r) i (Some i).
Proof. cbn [frag_cut strip_fragment]. rewrite N.eqb_refl. split; [lia|]. rewrite N.sub_diag. reflexivity. Qed.

Lemma scan_query_spec s : forall i hi f hi',
  scan_query s i hi = Ok (f, hi') ->
  frag_cut s i f /\ scan_query (strip_fragment s) i hi = Ok (None, hi').
Proof.
  induction s as [|b r IH]; intros i hi f hi' H.
  - cbn in H. inversion H; subst. cbn. split; reflexivity.
  - cbn [scan_query] in H. cbn [strip_fragment].
    destruct (query_class b) eqn:C; try discriminate.
    + (* valid *) assert (B : b <> 35) by (intros E; apply query_class_frag in E; congruence).
      apply N.eqb_neq in B. rewrite B. cbn [scan_query]. rewrite C.
      apply IH in H. destruct H as [H1 H2]. split; [|exact H2].
      apply frag_cut_step; [apply N.eqb_neq; exact B|exact H1].
    + (* fragment *) apply query_class_frag in C. subst b. inversion H; subst.
      rewrite N.eqb_refl. split; [apply frag_cut_here|reflexivity].
    + (* high *) assert (B : b <> 35) by (intros E; apply query_class_frag in E; congruence).
      apply N.eqb_neq in B. rewrite B. cbn [scan_query]. rewrite C.
      apply IH in H. destruct H as [H1 H2]. split; [|exact H2].
      apply frag_cut_step; [apply N.eqb_neq; exact B|exact H1].
Qed.

Lemma scan_path_spec s : forall i hi q f hi',
  scan_path s i hi = Ok (q, f, hi') ->
  frag_cut s i f /\ scan_path (strip_fragment s) i hi = Ok (q, None, hi').
Proof.
  induction s as [|b r IH]; intros i hi q f hi' H.
  - cbn in H. inversion H; subst. cbn. split; reflexivity.
  - cbn [scan_path] in H. cbn [strip_fragment].
    destruct (path_class b) eqn:C; try discriminate.
    + assert (B : b <> 35) by (intros E; apply path_class_frag in E; congruence).
      apply N.eqb_neq in B. rewrite B. cbn [scan_path]. rewrite C.
      apply IH in H. destruct H as [H1 H2]. split; [|exact H2].
      apply frag_cut_step; [apply N.eqb_neq; exact B|exact H1].
    + (* query *) assert (B : b <> 35) by (intros E; apply path_class_frag in E; congruence).
      apply N.eqb_neq in B. rewrite B. cbn [scan_path]. rewrite C.
      destruct (scan_query r (i + 1) hi) as [[f0 h0]|e|p] eqn:Q; try discriminate.
      inversion H; subst. apply scan_query_spec in Q. destruct Q as [H1 H2]. rewrite H2. split; [|reflexivity].
      apply frag_cut_step; [apply N.eqb_neq; exact B|exact H1].
    + apply path_class_frag in C. subst b. inversion H; subst.
      rewrite N.eqb_refl. split; [apply frag_cut_here|reflexivity].
    + assert (B : b <> 35) by (intros E; apply path_class_frag in E; congruence).
      apply N.eqb_neq in B. rewrite B. cbn [scan_path]. rewrite C.
      apply IH in H. destruct H as [H1 H2]. split; [|exact H2].
      apply frag_cut_step; [apply N.eqb_neq; exact B|exact H1].
Qed.

Lemma path_parse_data v q :
  path_parse v = Ok q ->
  pq_data q = strip_fragment v /\ (pq_data q <> [] -> path_parse (pq_data q) = Ok q).
Proof.
  unfold path_parse, scan_path_and_query. destruct v as [|b0 r] eqn:Ev; [discriminate|]. rewrite <- Ev.
  destruct (MAX_LEN <? len v) eqn:L; [discriminate|].
  destruct (bytes_eqb v [42]) eqn:Star.
  - apply bytes_eqb_eq in Star. intros H. inversion H; subst q. cbn [pq_data]. rewrite Star. cbn. split; [reflexivity|].
    intros _. reflexivity.
  - destruct (negb ((b0 =? 47) || (b0 =? 63) || (b0 =? 35))) eqn:F; [discriminate|].
    destruct (scan_path v 0 false) as [[[qi f] hi]|e|p] eqn:S; try discriminate.
    apply scan_path_spec in S. destruct S as [Cut S].
    assert (D : (match f with Some i => firstn (N.to_nat i) v | None => v end) = strip_fragment v).
    { destruct f as [j|]; cbn [frag_cut] in Cut; [|symmetry; exact Cut]. destruct Cut as [_ E]. rewrite N.sub_0_r in E. exact E. }
    rewrite D. intros H.
    assert (Q : q = {| pq_data := strip_fragment v; pq_query := qi |} /\ (hi = true -> utf8_valid (strip_fragment v) = true)).
    { destruct hi; [destruct (utf8_valid (strip_fragment v)); [|discriminate]|]; inversion H; split; auto; discriminate. }
    destruct Q as [Q U]. subst q. cbn [pq_data]. split; [reflexivity|]. intros NE.
    (* parse the stripped value again *)
    remember (strip_fragment v) as d eqn:Ed.
    destruct d as [|d0 dr]; [contradiction|].
    assert (d0 = b0 /\ b0 <> 35).
    { rewrite Ev in Ed. cbn [strip_fragment] in Ed. destruct (N.eqb_spec b0 35); [discriminate|]. inversion Ed. split; [reflexivity|assumption]. }
    destruct H0 as [-> B35].
    pose proof (strip_fragment_len v) as SL. rewrite <- Ed in SL.
    assert (L' : (MAX_LEN <? len (b0 :: dr)) = false) by lia. rewrite L'.
    destruct (bytes_eqb (b0 :: dr) [42]) eqn:Star2.
    + (* cannot happen: first byte is / or ? *)
      apply bytes_eqb_eq in Star2. inversion Star2; subst b0. vm_compute in F. discriminate.
    + rewrite F. rewrite S. destruct hi; [rewrite U by reflexivity|]; reflexivity.
Qed.

Lemma path_parse_as_str v q : path_parse v = Ok q -> pq_as_str q = path_canon v.
Proof.
  intros H. apply path_parse_data in H. destruct H as [D _]. unfold pq_as_str, path_canon. rewrite D. reflexivity.
Qed.

(* uri::Builder::path_and_query(path.as_str()) on a parsed :path never fails and keeps as_str *)
Lemma builder_path_reparse v q p :
  path_parse v = Ok q ->
  exists q', builder_path (Some p) (pq_as_str q) =
             Some {| pt_scheme := pt_scheme p; pt_authority := pt_authority p; pt_path := Some q' |}
             /\ pq_as_str q' = pq_as_str q.
Proof.
  intros H. apply path_parse_data in H. destruct H as [_ R]. unfold pq_as_str at 1.
  destruct (pq_data q) as [|d0 dr] eqn:D.
  - exists pq_slash. split; [reflexivity|]. unfold pq_as_str. rewrite D. reflexivity.
  - exists q. split; [|reflexivity]. unfold builder_path. rewrite R by discriminate. reflexivity.
Qed.

(* ================================================================== try_from as a whole *)
Definition parsed_header (fs : list fieldline) (h : header) : Prop :=
  Forall (fun f => exists x, field_parse (fst f) (snd f) = Ok x) fs /\
  h_fields h = hm_of (regular_fields fs) [] /\
  p_method (h_pseudo h) = last_value pn_method fs /\
  p_scheme (h_pseudo h) = last_value pn_scheme fs /\
  p_authority (h_pseudo h) = last_value pn_authority fs /\
  p_path (h_pseudo h) = match last_value pn_path fs with Some v => path_opt v | None => None end /\
  p_status (h_pseudo h) = match last_value pn_status fs with Some v => status_parse v | None => None end /\
  p_protocol (h_pseudo h) = match last_value pn_protocol fs with Some v => protocol_from_str v | None => None end.

Lemma try_from_ok g fs h : try_from g fs = Ok h -> parsed_header fs h.
Proof.
  unfold try_from. destruct (try_with_capacity_ok _); [|change alloc_fallible with true; discriminate].
  intros H. apply try_from_loop_ok in H. destruct H as [H1 (F0 & F1 & F2 & F3 & F4 & F5 & F6)].
  unfold parsed_header, pick in *. cbn in F1, F2, F3, F4, F5, F6.
  repeat split; try assumption.
  - rewrite F1. destruct (last_value pn_method fs); reflexivity.
  - rewrite F2. destruct (last_value pn_scheme fs); reflexivity.
  - rewrite F3. destruct (last_value pn_authority fs); reflexivity.
Qed.

Lemma parsed_fields_nodup fs h : parsed_header fs h -> NoDup (map fst (h_fields h)).
Proof. intros (_ & F & _). rewrite F. apply hm_of_nodup. constructor. Qed.
Lemma parsed_fields_values fs h name :
  parsed_header fs h -> values_of name (hm_iter (h_fields h)) = values_of name (regular_fields fs).
Proof. intros (_ & F & _). rewrite F. rewrite values_of_hm_of by constructor. reflexivity. Qed.

Lemma values_of_regular name fs : is_pseudo_name name = false -> values_of name (regular_fields fs) = values_of name fs.
Proof.
  intros Hn. induction fs as [|[n v] fs IH]; [reflexivity|].
  rewrite regular_fields_cons. destruct (is_pseudo_name n) eqn:P.
  - rewrite values_of_cons. assert (beq n name = false) by (apply beq_neq; intros E; subst; congruence).
    rewrite H. exact IH.
  - rewrite !values_of_cons, IH. reflexivity.
Qed.
Lemma values_of_regular_pseudo name fs : is_pseudo_name name = true -> values_of name (regular_fields fs) = [].
Proof.
  intros Hn. induction fs as [|[n v] fs IH]; [reflexivity|].
  rewrite regular_fields_cons. destruct (is_pseudo_name n) eqn:P; [exact IH|].
  rewrite values_of_cons, IH. rewrite (beq_pseudo_regular n name P Hn). reflexivity.
Qed.

Lemma field_parse_wf n v x :
  wf_bytes v -> field_parse n v = Ok x -> wf_field http_parseable (n, v).
Proof.
  intros W P. unfold wf_field. cbn [fst snd]. destruct (is_pseudo_name n) eqn:Pn.
  - destruct (field_parse_pseudo n v x P Pn) as [Hv S]. apply pseudo_shape_parseable in S. destruct S as [S1 S2].
    split; [rewrite <- hvalue_ok_legal by exact W; exact Hv|]. left. repeat split; assumption.
  - destruct (field_parse_regular n v x P Pn) as (_ & Hn & _ & Hv).
    split; [rewrite <- hvalue_ok_legal by exact W; exact Hv|]. right. split; [reflexivity|exact Hn].
Qed.

Definition wf_fields (fs : list fieldline) : Prop := Forall (fun f => wf_bytes (fst f) /\ wf_bytes (snd f)) fs.

Lemma parsed_all_wf fs h : wf_fields fs -> parsed_header fs h -> Forall (wf_field http_parseable) fs.
Proof.
  intros W (P & _). unfold wf_fields in W. rewrite Forall_forall in *. intros [n v] I.
  destruct (P _ I) as [x Hx]. destruct (W _ I) as [_ Wv]. eapply field_parse_wf; eassumption.
Qed.

Lemma authority_ok_nonempty a : authority_ok a = true -> a <> [].
Proof. destruct a; [discriminate|discriminate]. Qed.

(* ================================================================== into_request_parts *)
Lemma last_value_has name fs : (exists v, last_value name fs = Some v) <-> has_field name fs.
Proof.
  unfold has_field. split.
  - intros [v H]. exists v. apply last_value_in. exact H.
  - intros [v I]. destruct (last_value name fs) as [x|] eqn:L; [exists x; reflexivity|].
    apply last_value_none in L. apply values_of_in in I. rewrite L in I. destruct I.
Qed.
Lemma hd_error_in {A} (l : list A) x : hd_error l = Some x -> In x l.
Proof. destruct l; [discriminate|]. intros H. inversion H. left. reflexivity. Qed.

Definition uri_of_request (fs : list fieldline) (a : bytes) (u : uri) : Prop :=
  uri_scheme_str u = last_value pn_scheme fs /\
  uri_authority u = Some a /\
  match uri_path_and_query u with Some q => Some (pq_as_str q) | None => None end
    = match last_value pn_path fs with Some v => Some (path_canon v) | None => None end.

Lemma request_parts_ok fs h m u p hd :
  parsed_header fs h -> into_request_parts h = Ok (m, u, p, hd) ->
  last_value pn_method fs = Some m /\
  p = p_protocol (h_pseudo h) /\ hd = h_fields h /\
  exists a, a <> [] /\ authority_ok a = true /\
    (In (pn_authority, a) fs \/ In (hn_host, a) fs) /\
    (has_field pn_authority fs -> last_value pn_authority fs = Some a) /\
    (has_field hn_host fs -> hd_error (values_of hn_host fs) = Some a) /\
    uri_of_request fs a u.
Proof.
  intros PH H. pose proof (parsed_fields_nodup fs h PH) as ND.
  pose proof (parsed_fields_values fs h hn_host PH) as HV. rewrite values_of_regular in HV by reflexivity.
  destruct PH as (PF & _ & Fm & Fs & Fa & Fp & _ & _).
  unfold into_request_parts in H. change host_name with hn_host in H. rewrite (hm_get_first hn_host _ ND), HV in H.
  rewrite Fm, Fs, Fa, Fp in H.
  change req_missing_authority with true in H. change req_contradiction with true in H.
  change req_method_required with true in H. change req_uri_checked with true in H. cbn [andb] in H.
  (* the builder before the authority step *)
  set (b1 := match match last_value pn_path fs with Some v => path_opt v | None => None end with
             | Some q => builder_path builder_new (pq_as_str q) | None => builder_new end) in H.
  set (b2 := match last_value pn_scheme fs with Some s => builder_scheme b1 s | None => b1 end) in H.
  (* common tail *)
  assert (Tail : forall a,
    match last_value pn_method fs with
    | Some m0 => match builder_build (builder_authority b2 a) with
                 | Some u0 => Ok (m0, u0, p_protocol (h_pseudo h), h_fields h)
                 | None => Err InvalidRequest end
    | None => Err MissingMethod end = Ok (m, u, p, hd) ->
    last_value pn_method fs = Some m /\ p = p_protocol (h_pseudo h) /\ hd = h_fields h /\
    authority_ok a = true /\ uri_of_request fs a u).
  { intros a T. destruct (last_value pn_method fs) as [m0|]; [|discriminate].
    destruct (builder_build (builder_authority b2 a)) as [u0|] eqn:B; [|discriminate].
    inversion T; subst. split; [reflexivity|]. split; [reflexivity|]. split; [reflexivity|]. split.
    - unfold builder_authority in B. destruct b2 as [pt|]; [|discriminate]. destruct (authority_ok a); [reflexivity|discriminate].
    - (* the uri *)
      unfold uri_of_request. subst b2 b1.
      destruct (last_value pn_path fs) as [pv|] eqn:LP.
      + (* a :path is present *)
        assert (exists q, path_parse pv = Ok q) as [q Q].
        { apply last_value_in in LP. rewrite Forall_forall in PF. destruct (PF _ LP) as [x Hx]. cbn [fst snd] in Hx.
          destruct (field_parse_pseudo _ _ _ Hx eq_refl) as [_ S]. unfold pseudo_shape in S.
          destruct S as [(E & _)|[(E & _)|[(E & _)|[(_ & _ & q & Q & _)|[(E & _)|(E & _)]]]]]; try discriminate. exists q. exact Q. }
        unfold path_opt in B. rewrite Q in B.
        destruct (builder_path_reparse pv q parts0 Q) as (q' & BP & AS). unfold builder_new in B. rewrite BP in B.
        rewrite <- (path_parse_as_str pv q Q), <- AS.
        destruct (last_value pn_scheme fs) as [s|] eqn:LS.
        * unfold builder_scheme in B. destruct (scheme_ok s); [|discriminate]. cbn [pt_scheme pt_authority pt_path parts0] in B.
          unfold builder_authority in B. destruct (authority_ok a) eqn:A; [|discriminate].
          unfold builder_build, uri_from_parts in B. cbn in B. inversion B; subst u. cbn.
          unfold uri_authority, uri_path_and_query. cbn. pose proof (authority_ok_nonempty a A) as NE.
          destruct a; [contradiction|]. repeat split; reflexivity.
        * unfold builder_authority in B. destruct (authority_ok a) eqn:A; [|discriminate].
          unfold builder_build, uri_from_parts in B. cbn in B. discriminate.
      + (* no :path *)
        destruct (last_value pn_scheme fs) as [s|] eqn:LS.
        * unfold builder_scheme, builder_new in B. destruct (scheme_ok s); [|discriminate].
          unfold builder_authority in B. destruct (authority_ok a) eqn:A; [|discriminate].
          unfold builder_build, uri_from_parts in B. cbn in B. discriminate.
        * unfold builder_authority, builder_new in B. destruct (authority_ok a) eqn:A; [|discriminate].
          unfold builder_build, uri_from_parts in B. cbn in B. inversion B; subst u. cbn.
          unfold uri_authority, uri_path_and_query. cbn. pose proof (authority_ok_nonempty a A) as NE.
          destruct a; [contradiction|]. repeat split; reflexivity. }
  destruct (last_value pn_authority fs) as [a|] eqn:LA; destruct (hd_error (values_of hn_host fs)) as [hv|] eqn:LH.
  - (* both *)
    destruct (negb (bytes_eqb a hv)) eqn:C; [discriminate|]. apply negb_false_iff, bytes_eqb_eq in C. subst hv.
    apply Tail in H. destruct H as (H1 & H2 & H3 & H4 & H5).
    split; [exact H1|]. split; [exact H2|]. split; [exact H3|].
    exists a. split; [apply authority_ok_nonempty; exact H4|]. split; [exact H4|].
    split; [left; apply last_value_in; exact LA|]. split; [intros _; reflexivity|]. split; [intros _; reflexivity|exact H5].
  - (* :authority only *)
    apply Tail in H. destruct H as (H1 & H2 & H3 & H4 & H5).
    split; [exact H1|]. split; [exact H2|]. split; [exact H3|].
    exists a. split; [apply authority_ok_nonempty; exact H4|]. split; [exact H4|].
    split; [left; apply last_value_in; exact LA|]. split; [intros _; reflexivity|]. split; [|exact H5].
    intros [v I]. apply values_of_in in I. destruct (values_of hn_host fs); [destruct I|discriminate].
  - (* host only *)
    apply Tail in H. destruct H as (H1 & H2 & H3 & H4 & H5).
    split; [exact H1|]. split; [exact H2|]. split; [exact H3|].
    exists hv. split; [apply authority_ok_nonempty; exact H4|]. split; [exact H4|].
    split; [right; apply values_of_in; apply hd_error_in; exact LH|]. split; [|split; [intros _; reflexivity|exact H5]].
    intros HF. apply last_value_has in HF. destruct HF as [v Hv]. congruence.
  - discriminate.
Qed.

(* ================================================================== no panic *)
Lemma field_parse_no_panic n v s : field_parse n v <> Panic s.
Proof.
  unfold field_parse. destruct n as [|c r]; [change empty_name_is_error with true; discriminate|].
  change token_check_used with true. change name_ctor_lowercase with true. change value_checked with true.
  change pseudo_value_checked with true. change unknown_pseudo_is_error with true.
  destruct (negb (c =? pseudo_prefix)).
  - cbn [andb negb]. destruct (forallb is_token_char (c :: r)); cbn [negb]; [|discriminate].
    destruct (hname_ok (c :: r)); [|discriminate]. destruct (hvalue_ok v); cbn [negb]; discriminate.
  - cbn [andb]. destruct (hvalue_ok v); cbn [negb]; [|discriminate].
    destruct (assoc_bytes (c :: r) pseudo_arms) as [[k p]|]; [|discriminate].
    destruct (parse_pseudo k p v); discriminate.
Qed.
Lemma try_from_loop_no_panic g fs : forall i ps m s, try_from_loop g i fs ps m <> Panic s.
Proof.
  induction fs as [|[n v] fs IH]; intros i ps m s; [discriminate|].
  cbn [try_from_loop]. destruct (field_parse n v) as [f|e|s'] eqn:P; [|discriminate|exfalso; eapply field_parse_no_panic; exact P].
  destruct f; try apply IH. destruct (g i); [change append_fallible with true; discriminate|apply IH].
Qed.
Lemma try_from_no_panic g fs s : try_from g fs <> Panic s.
Proof.
  unfold try_from. destruct (try_with_capacity_ok _); [apply try_from_loop_no_panic|].
  change alloc_fallible with true. discriminate.
Qed.
Lemma into_request_parts_no_panic h s : into_request_parts h <> Panic s.
Proof.
  unfold into_request_parts.
  change req_missing_authority with true. change req_contradiction with true.
  change req_method_required with true. change req_uri_checked with true. cbn [andb].
  destruct (p_authority (h_pseudo h)); destruct (hm_get host_name (h_fields h));
    try destruct (negb (bytes_eqb _ _)); try discriminate;
    destruct (p_method (h_pseudo h)); try discriminate;
    match goal with |- context [builder_build ?b] => destruct (builder_build b) end; discriminate.
Qed.
Lemma resolve_request_no_panic g fs s : resolve_request g fs <> Panicked s.
Proof.
  unfold resolve_request. destruct (try_from g fs) as [h|e|s'] eqn:T; [|discriminate|exfalso; eapply try_from_no_panic; exact T].
  destruct (into_request_parts h) as [[[[m u] p] hd]|e|s'] eqn:I; [discriminate|discriminate|].
  exfalso; eapply into_request_parts_no_panic; exact I.
Qed.
Lemma recv_response_no_panic g fs s : recv_response g fs <> Panicked s.
Proof.
  unfold recv_response. destruct (try_from g fs) as [h|e|s'] eqn:T; [|discriminate|exfalso; eapply try_from_no_panic; exact T].
  unfold into_response_parts. destruct (p_status (h_pseudo h)); [discriminate|].
  change resp_status_required with true. discriminate.
Qed.
Lemma recv_trailers_no_panic g fs s : recv_trailers g fs <> Panicked s.
Proof.
  unfold recv_trailers. destruct (try_from g fs) as [h|e|s'] eqn:T; [discriminate|discriminate|].
  exfalso; eapply try_from_no_panic; exact T.
Qed.

(* ================================================================== the three gates *)
Lemma protocol_tables_agree v k : protocol_from_str v = Some k -> protocol_as_str k = Ok v.
Proof.
  unfold protocol_from_str, proto_from_str. cbn [assoc_bytes]. intros H.
  repeat match type of H with
  | context [bytes_eqb v ?c] =>
      let E := fresh "E" in destruct (bytes_eqb v c) eqn:E;
      [apply bytes_eqb_eq in E; subst v; inversion H; subst k; vm_compute; reflexivity|]
  end.
  discriminate.
Qed.

Definition protocol_matches (p : option N) (raw : option bytes) : Prop :=
  match p, raw with
  | Some k, Some v => protocol_as_str k = Ok v
  | None, None => True
  | _, _ => False
  end.

Lemma parsed_protocol fs h : parsed_header fs h -> protocol_matches (p_protocol (h_pseudo h)) (last_value pn_protocol fs).
Proof.
  intros PH. destruct PH as (PF & _ & _ & _ & _ & _ & _ & Fx). rewrite Fx. unfold protocol_matches.
  destruct (last_value pn_protocol fs) as [v|] eqn:L; [|exact I].
  apply last_value_in in L. rewrite Forall_forall in PF. destruct (PF _ L) as [x Hx]. cbn [fst snd] in Hx.
  destruct (field_parse_pseudo _ _ _ Hx eq_refl) as [_ S]. unfold pseudo_shape in S.
  destruct S as [(E & _)|[(E & _)|[(E & _)|[(E & _)|[(E & _)|(_ & _ & k & Q & _)]]]]]; try discriminate.
  rewrite Q. apply protocol_tables_agree. exact Q.
Qed.

Theorem request_gate_sound g fs req :
  wf_fields fs -> resolve_request g fs = Delivered req ->
  wf_request http_parseable fs /\
  last_value pn_method fs = Some (rq_method req) /\
  (exists a, a <> [] /\ (In (pn_authority, a) fs \/ In (hn_host, a) fs) /\ uri_of_request fs a (rq_uri req)) /\
  protocol_matches (rq_protocol req) (last_value pn_protocol fs) /\
  NoDup (map fst (rq_headers req)) /\
  (forall name, values_of name (hm_iter (rq_headers req)) = values_of name (regular_fields fs)).
Proof.
  intros W H. unfold resolve_request in H.
  destruct (try_from g fs) as [h|e|s] eqn:T; try discriminate.
  destruct (into_request_parts h) as [[[[m u] p] hd]|e|s] eqn:I; try discriminate.
  inversion H; subst req. cbn [rq_method rq_uri rq_protocol rq_headers].
  apply try_from_ok in T.
  destruct (request_parts_ok fs h m u p hd T I) as (Hm & Hp & Hh & a & NE & _ & Hin & Ha & Hho & Hu).
  subst p hd. split; [|split; [exact Hm|split; [|split; [|split]]]].
  - unfold wf_request. split; [apply (parsed_all_wf fs h W T)|]. split.
    + exists m. apply last_value_in. exact Hm.
    + exists a. split; [exact NE|]. split; [exact Hin|]. split.
      * intros HF. apply last_value_in. apply Ha. exact HF.
      * intros HF. apply values_of_in. apply hd_error_in. apply Hho. exact HF.
  - exists a. split; [exact NE|]. split; [exact Hin|exact Hu].
  - apply parsed_protocol. exact T.
  - apply (parsed_fields_nodup fs h T).
  - intros name. apply (parsed_fields_values fs h name T).
Qed.

Theorem request_gate_complete g fs :
  wf_fields fs -> ~ wf_request http_parseable fs ->
  exists why, resolve_request g fs =
    Refused {| r_code := H3_MESSAGE_ERROR_rfc; r_reset := Some H3_MESSAGE_ERROR_rfc;
               r_stop_sending := Some H3_MESSAGE_ERROR_rfc; r_why := why |}.
Proof.
  intros W NW. destruct (resolve_request g fs) as [req|r|s] eqn:R.
  - exfalso. apply NW. eapply request_gate_sound; eassumption.
  - destruct (srv_refusal_code g fs r R) as (C1 & C2 & C3). destruct r as [c rs st why]. cbn in *. subst.
    exists why. reflexivity.
  - exfalso. eapply resolve_request_no_panic. exact R.
Qed.

(* ---- status *)
Lemma status_parse_spec v n :
  wf_bytes v -> status_parse v = Some n ->
  100 <= n <= 999 /\ v = status_as_str n /\ Forall (fun b => is_digit b = true) v.
Proof.
  intros W. unfold status_parse. destruct v as [|x [|y [|z [|w r]]]]; try discriminate.
  apply wf_bytes_cons in W. destruct W as [Wx W]. apply wf_bytes_cons in W. destruct W as [Wy W].
  apply wf_bytes_cons in W. destruct W as [Wz _].
  unfold wrapping_sub8.
  destruct ((((x + 256 - 48) mod 256 =? 0) || (9 <? (x + 256 - 48) mod 256) || (9 <? (y + 256 - 48) mod 256) || (9 <? (z + 256 - 48) mod 256))) eqn:C; [discriminate|].
  destruct ((x + 256 - 48) mod 256 * 100 + (y + 256 - 48) mod 256 * 10 + (z + 256 - 48) mod 256 =? 0) eqn:Z; [discriminate|].
  intros H. inversion H; subst n. clear H.
  assert (Hx : 49 <= x <= 57) by lia. assert (Hy : 48 <= y <= 57) by lia. assert (Hz : 48 <= z <= 57) by lia.
  replace ((x + 256 - 48) mod 256) with (x - 48) by lia.
  replace ((y + 256 - 48) mod 256) with (y - 48) by lia.
  replace ((z + 256 - 48) mod 256) with (z - 48) by lia.
  split; [lia|]. split.
  - unfold status_as_str. f_equal; [|f_equal; [|f_equal]]; lia.
  - unfold is_digit. repeat constructor; lia.
Qed.

Theorem response_gate_sound g fs rs :
  wf_fields fs -> recv_response g fs = Delivered rs ->
  wf_response http_parseable fs /\
  (exists v, last_value pn_status fs = Some v /\ v = status_as_str (rs_status rs) /\ 100 <= rs_status rs <= 999) /\
  NoDup (map fst (rs_headers rs)) /\
  (forall name, values_of name (hm_iter (rs_headers rs)) = values_of name (regular_fields fs)).
Proof.
  intros W H. unfold recv_response in H.
  destruct (try_from g fs) as [h|e|s] eqn:T; try discriminate.
  unfold into_response_parts in H. destruct (p_status (h_pseudo h)) as [st|] eqn:S;
    [|change resp_status_required with true in H; discriminate].
  inversion H; subst rs. cbn [rs_status rs_headers]. apply try_from_ok in T.
  assert (exists v, last_value pn_status fs = Some v /\ status_parse v = Some st) as (v & Lv & Pv).
  { destruct T as (_ & _ & _ & _ & _ & _ & Fst & _). rewrite S in Fst.
    destruct (last_value pn_status fs) as [v|]; [|discriminate]. exists v. split; [reflexivity|symmetry; exact Fst]. }
  split; [|split; [|split]].
  - split; [apply (parsed_all_wf fs h W T)|]. exists v. apply last_value_in. exact Lv.
  - exists v. apply status_parse_spec in Pv.
    + destruct Pv as (R & E & _). repeat split; try assumption; lia.
    + apply last_value_in in Lv. unfold wf_fields in W. rewrite Forall_forall in W. apply (W _ Lv).
  - apply (parsed_fields_nodup fs h T).
  - intros name. apply (parsed_fields_values fs h name T).
Qed.

Lemma cli_refusal_code g fs r :
  recv_response g fs = Refused r -> r_code r = H3_MESSAGE_ERROR_rfc /\ r_stop_sending r = Some H3_MESSAGE_ERROR_rfc.
Proof.
  unfold recv_response. intros H.
  destruct (try_from g fs) as [h|e|s]; [destruct (into_response_parts h) as [[st hd]|e|s]|..];
    inversion H; subst; split; reflexivity.
Qed.
Lemma trl_refusal_code g fs r :
  recv_trailers g fs = Refused r -> r_code r = H3_MESSAGE_ERROR_rfc /\ r_stop_sending r = Some H3_MESSAGE_ERROR_rfc.
Proof.
  unfold recv_trailers. intros H. destruct (try_from g fs) as [h|e|s]; inversion H; subst; split; reflexivity.
Qed.

Theorem response_gate_complete g fs :
  wf_fields fs -> ~ wf_response http_parseable fs ->
  exists r, recv_response g fs = Refused r /\ r_code r = H3_MESSAGE_ERROR_rfc /\ r_stop_sending r = Some H3_MESSAGE_ERROR_rfc.
Proof.
  intros W NW. destruct (recv_response g fs) as [rs|r|s] eqn:R.
  - exfalso. apply NW. eapply response_gate_sound; eassumption.
  - exists r. split; [reflexivity|]. eapply cli_refusal_code. exact R.
  - exfalso. eapply recv_response_no_panic. exact R.
Qed.

Theorem trailers_gate_sound g fs m :
  wf_fields fs -> recv_trailers g fs = Delivered m ->
  wf_trailers http_parseable fs /\ NoDup (map fst m) /\
  (forall name, values_of name (hm_iter m) = values_of name (regular_fields fs)).
Proof.
  intros W H. unfold recv_trailers in H. destruct (try_from g fs) as [h|e|s] eqn:T; try discriminate.
  inversion H; subst m. unfold into_fields. apply try_from_ok in T. split; [|split].
  - apply (parsed_all_wf fs h W T).
  - apply (parsed_fields_nodup fs h T).
  - intros name. apply (parsed_fields_values fs h name T).
Qed.
Theorem trailers_gate_complete g fs :
  wf_fields fs -> ~ wf_trailers http_parseable fs ->
  exists r, recv_trailers g fs = Refused r /\ r_code r = H3_MESSAGE_ERROR_rfc /\ r_stop_sending r = Some H3_MESSAGE_ERROR_rfc.
Proof.
  intros W NW. destruct (recv_trailers g fs) as [m|r|s] eqn:R.
  - exfalso. apply NW. eapply trailers_gate_sound; eassumption.
  - exists r. split; [reflexivity|]. eapply trl_refusal_code. exact R.
  - exfalso. eapply recv_trailers_no_panic. exact R.
Qed.

(* ================================================================== the executable oracle decides the propositions *)
Lemma wf_fieldb_iff P f : wf_fieldb P f = true <-> wf_field P f.
Proof.
  unfold wf_fieldb, wf_field. destruct f as [n v]. cbn [fst snd]. rewrite andb_true_iff.
  destruct (is_pseudo_name n) eqn:Pn.
  - rewrite andb_true_iff, memb_In. split.
    + intros (A & B & C). split; [exact A|]. left. repeat split; assumption.
    + intros (A & [(_ & B & C)|(B & _)]); [|discriminate]. repeat split; assumption.
  - split.
    + intros (A & B). split; [exact A|]. right. split; [reflexivity|exact B].
    + intros (A & [(B & _)|(_ & B)]); [discriminate|]. split; assumption.
Qed.
Lemma forallb_wf_iff P fs : forallb (wf_fieldb P) fs = true <-> Forall (wf_field P) fs.
Proof.
  rewrite forallb_forall, Forall_forall. split; intros H x I; apply wf_fieldb_iff; apply H; exact I.
Qed.
Lemma nonempty_values name fs : nonempty (values_of name fs) = true <-> has_field name fs.
Proof.
  unfold has_field. split.
  - destruct (values_of name fs) as [|v l] eqn:E; [discriminate|]. intros _. exists v. apply values_of_in. rewrite E. left. reflexivity.
  - intros [v I]. apply values_of_in in I. destruct (values_of name fs); [destruct I|reflexivity].
Qed.
Lemma authority_agreesb_iff fs : authority_agreesb fs = true <-> authority_agrees fs.
Proof.
  unfold authority_agreesb, authority_agrees. rewrite existsb_exists. split.
  - intros (a & I & C). rewrite !andb_true_iff, !orb_true_iff, !negb_true_iff, !memb_In in C.
    destruct C as [[NE CA] CH]. exists a. split; [destruct a; [discriminate|discriminate]|].
    split; [apply in_app_iff in I; destruct I as [I|I]; [left|right]; apply values_of_in; exact I|]. split.
    + intros HF. apply values_of_in. destruct CA as [CA|CA]; [|exact CA].
      apply nonempty_values in HF. congruence.
    + intros HF. apply values_of_in. destruct CH as [CH|CH]; [|exact CH].
      apply nonempty_values in HF. congruence.
  - intros (a & NE & I & CA & CH). exists a. split.
    + apply in_app_iff. destruct I as [I|I]; [left|right]; apply values_of_in; exact I.
    + rewrite !andb_true_iff, !orb_true_iff, !negb_true_iff, !memb_In. split; [split|].
      * destruct a; [contradiction|reflexivity].
      * destruct (nonempty (values_of pn_authority fs)) eqn:E; [right|left; reflexivity].
        apply values_of_in. apply CA. apply nonempty_values. exact E.
      * destruct (nonempty (values_of hn_host fs)) eqn:E; [right|left; reflexivity].
        apply values_of_in. apply CH. apply nonempty_values. exact E.
Qed.
Lemma wf_requestb_iff P fs : wf_requestb P fs = true <-> wf_request P fs.
Proof.
  unfold wf_requestb, wf_request. rewrite !andb_true_iff, forallb_wf_iff, nonempty_values, authority_agreesb_iff. tauto.
Qed.
Lemma wf_responseb_iff P fs : wf_responseb P fs = true <-> wf_response P fs.
Proof. unfold wf_responseb, wf_response. rewrite !andb_true_iff, forallb_wf_iff, nonempty_values. tauto. Qed.
Lemma wf_trailersb_iff P fs : wf_trailersb P fs = true <-> wf_trailers P fs.
Proof. apply forallb_wf_iff. Qed.

(* ================================================================== HeaderMap capacity: more than 24576 field lines are
   refused (TooManyFields), never a panic *)
Lemma npow2_loop_ge fuel : forall p x, x <= p * 2 ^ N.of_nat fuel -> x <= npow2_loop fuel p x.
Proof.
  induction fuel as [|k IH]; intros p x H.
  - cbn in *. lia.
  - cbn [npow2_loop]. destruct (N.leb_spec x p); [assumption|]. apply IH.
    rewrite Nat2N.inj_succ, N.pow_succ_r' in H. lia.
Qed.
Lemma npow2_loop_le fuel : forall j p x, (j <= fuel)%nat -> x <= p * 2 ^ N.of_nat j -> 0 < p ->
  npow2_loop fuel p x <= p * 2 ^ N.of_nat j.
Proof.
  induction fuel as [|k IH]; intros j p x Hj H Hp.
  - cbn. assert (1 <= 2 ^ N.of_nat j) by (apply N.lt_pred_le; apply N.neq_0_lt_0; apply N.pow_nonzero; lia). nia.
  - cbn [npow2_loop]. destruct (N.leb_spec x p).
    + assert (1 <= 2 ^ N.of_nat j) by (apply N.lt_pred_le; apply N.neq_0_lt_0; apply N.pow_nonzero; lia). nia.
    + destruct j as [|j']; [cbn in H; lia|].
      rewrite Nat2N.inj_succ, N.pow_succ_r' in *.
      replace (p * (2 * 2 ^ N.of_nat j')) with ((2 * p) * 2 ^ N.of_nat j') in * by lia.
      apply IH; [lia|exact H|lia].
Qed.
Lemma try_with_capacity_ok_iff n : n < 2 ^ 63 -> (try_with_capacity_ok n = true <-> n + n / 3 <= 32768).
Proof.
  intros Hn. unfold try_with_capacity_ok, to_raw_capacity, checked_next_power_of_two, usize_max, MAX_SIZE.
  destruct (N.eqb_spec n 0) as [->|N0]; [cbn; split; [lia|reflexivity]|].
  destruct (N.leb_spec (n + n / 3) 18446744073709551615); [|lia].
  pose proof (npow2_loop_ge 64 1 (n + n / 3)) as GE.
  assert (P64 : 2 ^ N.of_nat 64 = 18446744073709551616) by reflexivity. rewrite P64 in GE.
  specialize (GE ltac:(lia)).
  destruct (N.leb_spec (npow2_loop 64 1 (n + n / 3)) 18446744073709551615).
  - split; intros T.
    + lia.
    + pose proof (npow2_loop_le 64 15 1 (n + n / 3) ltac:(lia)) as LE.
      assert (P15 : 2 ^ N.of_nat 15 = 32768) by reflexivity. rewrite P15 in LE. specialize (LE ltac:(lia) ltac:(lia)). lia.
  - split; [discriminate|]. intros T.
    pose proof (npow2_loop_le 64 15 1 (n + n / 3) ltac:(lia)) as LE.
    assert (P15 : 2 ^ N.of_nat 15 = 32768) by reflexivity. rewrite P15 in LE. specialize (LE ltac:(lia) ltac:(lia)). lia.
Qed.
Lemma capacity_limit n : n < 2 ^ 63 -> (try_with_capacity_ok n = true <-> n <= 24576).
Proof. intros H. rewrite try_with_capacity_ok_iff by exact H. lia. Qed.

Theorem too_many_fields g fs :
  24576 < N.of_nat (length fs) -> N.of_nat (length fs) < 2 ^ 63 -> try_from g fs = Err TooManyFields.
Proof.
  intros H B. unfold try_from. destruct (try_with_capacity_ok _) eqn:C; [|reflexivity].
  apply capacity_limit in C; [lia|exact B].
Qed.

(* ================================================================== send side *)
Lemma pq_path_nonempty q : is_nil (pq_path q) = false.
Proof. unfold pq_path. destruct (match pq_query q with None => _ | Some _ => _ end); reflexivity. Qed.

Definition regular_map (m : hmap) : Prop := Forall (fun e => is_pseudo_name (fst e) = false) m.
Lemma regular_map_iter m : regular_map m -> Forall (fun f => is_pseudo_name (fst f) = false) (hm_iter m).
Proof.
  unfold regular_map, hm_iter. intros H. rewrite Forall_forall in *. intros [n v] I.
  apply in_flat_map in I. destruct I as ([k vs] & Ik & Iv). apply in_map_iff in Iv. destruct Iv as (x & E & _).
  inversion E; subst. apply (H _ Ik).
Qed.
(* every HeaderMap a caller can build has keys accepted by HeaderName, hence regular *)
Lemma valid_map_regular m : Forall (fun e => hname_ok (fst e) = true) m -> regular_map m.
Proof. unfold regular_map. intros H. rewrite Forall_forall in *. intros e I. apply hname_ok_not_pseudo. apply H. exact I. Qed.

Ltac solve_subseq :=
  cbn [map fst]; repeat (constructor; [cbn; intros HN; repeat (destruct HN as [HN|HN]; [discriminate HN|]); exact HN|]); constructor.

(* the path Pseudo::request writes *)
Definition sent_path (u : uri) : bytes := pq_as_str (u_path u).
Definition sent_scheme (u : uri) : bytes := match uri_scheme_str u with Some s => s | None => s_https end.

Lemma pseudo_request_path m u ext q :
  p_path (pseudo_request m u ext) = Some q -> pq_as_str q = sent_path u.
Proof.
  unfold pseudo_request, sent_path. destruct (bytes_eqb m m_CONNECT && negb (is_some _)); cbn [snd p_path]; [discriminate|].
  intros H. inversion H; subst q. unfold parts_of_uri. cbn [pt_path].
  destruct (negb (is_nil (pq_data (u_path u))) || is_some (u_scheme u)) eqn:E.
  - rewrite pq_path_nonempty. reflexivity.
  - apply orb_false_iff in E. destruct E as [E _]. apply negb_false_iff in E. unfold pq_as_str.
    destruct (pq_data (u_path u)); [reflexivity|discriminate].
Qed.

Definition request_pseudo_ok (m : bytes) (u : uri) (ext : option N) (ps : list fieldline) : Prop :=
  In (pn_method, m) ps /\
  (forall v, In (pn_authority, v) ps <-> uri_authority u = Some v) /\
  (forall v, In (pn_scheme, v) ps -> v = sent_scheme u) /\
  (forall v, In (pn_path, v) ps -> v = sent_path u) /\
  (forall v, In (pn_protocol, v) ps -> m = m_CONNECT /\ exists k, ext = Some k /\ protocol_as_str k = Ok v) /\
  (forall v, ~ In (pn_status, v) ps) /\
  (* which ones are present: plain CONNECT carries neither :scheme nor :path, everything else both *)
  ((m = m_CONNECT /\ ext = None) -> forall v, ~ In (pn_scheme, v) ps /\ ~ In (pn_path, v) ps) /\
  (~ (m = m_CONNECT /\ ext = None) -> In (pn_scheme, sent_scheme u) ps /\ In (pn_path, sent_path u) ps).

Lemma in_pair_neq (a b : bytes) (x y : bytes) (l : list fieldline) :
  a <> b -> In (a, x) ((b, y) :: l) -> In (a, x) l.
Proof. intros N [E|I]; [inversion E; subst; contradiction|exact I]. Qed.

Ltac in_cases H :=
  repeat match type of H with
  | In _ [] => destruct H
  | In (?a, _) ((?b, _) :: _) =>
      first [ (assert (a <> b) as _ by (vm_compute; discriminate)); apply in_pair_neq in H; [|vm_compute; discriminate]
            | destruct H as [H|H]; [inversion H; subst; clear H|] ]
  end.

Theorem send_request_shape m u fields ext emitted :
  regular_map fields -> send_request m u fields ext = Ok emitted ->
  exists ps, pseudo_first emitted ps (hm_iter fields) /\ request_pseudo_ok m u ext ps.
Proof.
  intros RM H. unfold send_request in H.
  assert (HI : header_iter {| h_pseudo := pseudo_request m u ext; h_fields := fields |} = Ok emitted).
  { unfold header_request in H.
    destruct (uri_authority u); destruct (hm_get send_host_name fields);
      try (destruct (send_contradiction && negb (bytes_eqb _ _))); try (destruct send_missing_authority);
      try discriminate; exact H. }
  clear H. unfold header_iter in HI. cbn [h_pseudo h_fields] in HI. change iter_pseudo_first with true in HI.
  destruct (iter_pseudo iter_order (pseudo_request m u ext)) as [ps|e|s] eqn:IP; try discriminate.
  inversion HI; subst emitted. clear HI. exists ps.
  assert (RF := regular_map_iter fields RM).
  (* compute the pseudo part *)
  unfold iter_order in IP. cbn [iter_pseudo pseudo_value] in IP.
  assert (PP := pseudo_request_path m u ext).
  unfold pseudo_request in IP, PP. unfold request_pseudo_ok, sent_scheme, uri_scheme_str.
  cbn [p_method p_scheme p_authority p_path p_status p_protocol parts_of_uri pt_scheme pt_authority] in IP, PP.
  destruct (bytes_eqb m m_CONNECT) eqn:MC; [apply bytes_eqb_eq in MC|apply bytes_eqb_neq in MC].
  - destruct ext as [k|]; cbn [andb negb is_some fst snd] in IP, PP.
    + (* extended CONNECT *)
      destruct (protocol_as_str k) as [pv|e|s] eqn:PS; try discriminate.
      specialize (PP _ eq_refl). rewrite PP in IP.
      destruct (uri_authority u) as [a|] eqn:UA; inversion IP; subst ps; clear IP;
        (split; [unfold pseudo_first; split; [reflexivity|]; split; [repeat constructor|]; split; [exact RF|solve_subseq]|]);
        repeat split; intros;
        try match goal with H : In _ _ |- _ => in_cases H end;
        try (cbn; tauto); try (match goal with HS : Some _ = Some _ |- _ => inversion HS; subst end; cbn; tauto); try congruence; try discriminate; eauto;
        try (intros HH; in_cases HH); try (destruct H as [_ H]; discriminate).
    + (* plain CONNECT *)
      destruct (uri_authority u) as [a|] eqn:UA; inversion IP; subst ps; clear IP;
        (split; [unfold pseudo_first; split; [reflexivity|]; split; [repeat constructor|]; split; [exact RF|solve_subseq]|]);
        repeat split; intros;
        try match goal with H : In _ _ |- _ => in_cases H end;
        try (cbn; tauto); try (match goal with HS : Some _ = Some _ |- _ => inversion HS; subst end; cbn; tauto); try congruence; try discriminate; eauto;
        try (intros HH; in_cases HH); try (exfalso; apply H; split; reflexivity).
  - (* any other method: no :protocol *)
    cbn [andb negb is_some fst snd] in IP, PP. specialize (PP _ eq_refl). rewrite PP in IP.
    destruct (uri_authority u) as [a|] eqn:UA; inversion IP; subst ps; clear IP;
      (split; [unfold pseudo_first; split; [reflexivity|]; split; [repeat constructor|]; split; [exact RF|solve_subseq]|]);
      repeat split; intros;
      try match goal with H : In _ _ |- _ => in_cases H end;
      try (cbn; tauto); try (match goal with HS : Some _ = Some _ |- _ => inversion HS; subst end; cbn; tauto); try congruence; try discriminate; eauto;
      try (intros HH; in_cases HH); try (destruct H as [H _]; contradiction).
Qed.

Theorem send_response_shape st fields :
  send_response st fields = Ok ((pn_status, status_as_str st) :: hm_iter fields).
Proof. reflexivity. Qed.
Theorem send_trailers_shape fields : send_trailers fields = Ok (hm_iter fields).
Proof. reflexivity. Qed.
Lemma status_roundtrip st : 100 <= st <= 999 -> status_parse (status_as_str st) = Some st.
Proof.
  intros H. unfold status_as_str, status_parse, wrapping_sub8.
  replace ((48 + st / 100 + 256 - 48) mod 256) with (st / 100) by lia.
  replace ((48 + (st / 10) mod 10 + 256 - 48) mod 256) with ((st / 10) mod 10) by lia.
  replace ((48 + st mod 10 + 256 - 48) mod 256) with (st mod 10) by lia.
  destruct ((st / 100 =? 0) || (9 <? st / 100) || (9 <? (st / 10) mod 10) || (9 <? st mod 10)) eqn:C; [lia|].
  replace (st / 100 * 100 + (st / 10) mod 10 * 10 + st mod 10) with st by lia.
  destruct (N.eqb_spec st 0); [lia|reflexivity].
Qed.

(* ================================================================== a parseable authority: non-empty, and every byte is a
   URI character of the http crate's table or '%', none of '/', '?', '#' (so: visible ASCII only) *)
Definition authority_byte (b : N) : Prop := (uri_char b = true \/ b = 37) /\ b <> 47 /\ b <> 63 /\ b <> 35.
Lemma auth_loop_range s : forall i st e st', auth_loop s i st = Ok (e, st') -> i <= e <= i + len s.
Proof.
  unfold len. induction s as [|b r IH]; intros i st e st' H.
  - cbn in H. inversion H; subst. cbn. lia.
  - cbn [auth_loop] in H. cbn [length]. rewrite Nat2N.inj_succ.
    repeat match type of H with
    | (if ?c then _ else _) = _ => destruct c
    end; try discriminate; try (inversion H; subst; lia); apply IH in H; lia.
Qed.
Lemma auth_loop_full s : forall i st e st',
  auth_loop s i st = Ok (e, st') -> e = i + len s -> Forall authority_byte s.
Proof.
  induction s as [|b r IH]; intros i st e st' H E; [constructor|].
  assert (L : len (b :: r) = 1 + len r) by (unfold len; cbn [length]; lia).
  cbn [auth_loop] in H.
  destruct ((b =? 47) || (b =? 63) || (b =? 35)) eqn:Brk; [inversion H; subst; lia|].
  assert (NB : b <> 47 /\ b <> 63 /\ b <> 35) by lia.
  destruct (negb (uri_char b)) eqn:U.
  - destruct (N.eqb_spec b 37) as [P|P]; [|discriminate].
    constructor; [split; [right; exact P|exact NB]|]. eapply IH; [exact H|lia].
  - apply negb_false_iff in U.
    assert (AB : authority_byte b) by (split; [left; exact U|exact NB]).
    repeat match type of H with
    | (if ?c then _ else _) = _ => destruct c
    end; try discriminate; (constructor; [exact AB|]); eapply IH; try exact H; lia.
Qed.
Lemma authority_ok_bytes a : authority_ok a = true -> a <> [] /\ Forall authority_byte a.
Proof.
  intros H. split; [apply authority_ok_nonempty; exact H|].
  unfold authority_ok in H. destruct a as [|b r] eqn:Ea; [discriminate|]. rewrite <- Ea in *.
  unfold authority_parse in H. rewrite Ea in H. rewrite <- Ea in H.
  destruct (auth_loop a 0 astate0) as [[e st]|x|x] eqn:L; try discriminate.
  eapply auth_loop_full; [exact L|].
  repeat match type of H with
  | match (if ?c then _ else _) with _ => _ end = _ => destruct c
  end; try discriminate. apply N.eqb_eq in H. lia.
Qed.
Lemma authority_byte_visible b : authority_byte b -> 33 <= b <= 126.
Proof. unfold authority_byte, uri_char, one_of, in_range. cbn [existsb]. lia. Qed.

(* Header::request refuses to build a request without any authority information, or whose URI authority and
   (first) Host field differ *)
Theorem send_request_authority m u fields ext emitted :
  send_request m u fields ext = Ok emitted ->
  (uri_authority u <> None \/ hm_get hn_host fields <> None) /\
  (forall a h, uri_authority u = Some a -> hm_get hn_host fields = Some h -> a = h).
Proof.
  unfold send_request, header_request. change send_host_name with hn_host.
  change send_missing_authority with true. change send_contradiction with true. cbn [andb].
  destruct (uri_authority u) as [a|]; destruct (hm_get hn_host fields) as [h|]; intros H.
  - destruct (negb (bytes_eqb a h)) eqn:C; [discriminate|]. apply negb_false_iff, bytes_eqb_eq in C.
    split; [left; discriminate|]. intros a' h' E1 E2. congruence.
  - split; [left; discriminate|]. intros; discriminate.
  - split; [right; discriminate|]. intros; discriminate.
  - discriminate.
Qed.
