(* C11: encode_stateless writes RFC 9204 (T1), the reference decoder decides the grammar, and the round trip. *)
From H3V Require Import Base.Bytes Base.BytesLemmas Gen.GenStatic Gen.GenQStateless Gen.GenPrefixString
  Spec.PrefixInt Spec.RFC7541Huffman Spec.HuffmanKnown Spec.RFC9204Static Spec.FieldSize
  Model.PrefixInt Model.Huffman Model.PrefixString Model.Static Model.QpackStateless
  Proofs.C15Finite Proofs.BitsLemmas Proofs.HuffmanWalk Proofs.HuffmanStrict Proofs.HuffmanDecodeProofs Proofs.HuffmanEncodeProofs Proofs.PrefixIntProofs
  Proofs.StaticTableProofs Proofs.QpackSpecLemmas Proofs.QpackStatelessProofs.
From Coq Require Import ZifyBool ZifyNat ZifyN.
Ltac Zify.zify_post_hook ::= Z.div_mod_to_equations.

(* ---------------------------------------------------------------- the oracle decides the grammar *)
Theorem rfc_decode_static_iff bs fs : wf_bytes bs -> (rfc_decode_static bs = Some fs <-> section fs bs).
Proof.
  intros Hwf. unfold rfc_decode_static, section. split.
  - apply ref_section_sound; [|exact Hwf]. intros p s _ H. apply rfc_huff_decode_iff. exact H.
  - intros Hs. apply (ref_section_complete hs_strict rfc_huff_decode wf_bytes); [| |exact Hwf|exact Hs].
    + intros a b H. apply wf_bytes_app. exact H.
    + intros p s _ H. apply rfc_huff_decode_iff. exact H.
Qed.

(* a field h3 can encode: octets, and strings shorter than 2^26 octets (the Huffman encoder, like the decoder,
   addresses bits with u32 positions: Model/Huffman.v enc_fits) *)
Definition wf_field (f : field) : Prop :=
  wf_bytes (fst f) /\ wf_bytes (snd f) /\ len (fst f) < 2 ^ 26 /\ len (snd f) < 2 ^ 26.

Lemma codes_length_le s : wf_bytes s -> (length (codes s) <= 30 * length s)%nat.
Proof.
  induction s as [|c s IH]; intros Hwf; [cbn; lia|].
  apply wf_bytes_cons in Hwf. destruct Hwf as [Hc Hs].
  unfold codes. cbn [flat_map]. rewrite app_length. fold (codes s).
  pose proof (code_bits_len c ltac:(lia)) as Hl. specialize (IH Hs). cbn [length]. lia.
Qed.

Lemma huffman_length_bound e s : hs_strict e s -> len s < 2 ^ 26 -> len e < 2 ^ 64.
Proof.
  intros (Hwf & pad & Hb & Hp & _) Hl. pose proof (codes_length_le s Hwf) as Hc.
  assert (Hlen : length (bits_of_bytes e) = (length (codes s) + length pad)%nat) by (rewrite Hb, app_length; reflexivity).
  rewrite bits_of_bytes_length in Hlen. unfold len in *.
  change (2 ^ 26) with 67108864 in Hl. change (2 ^ 64) with 18446744073709551616. lia.
Qed.

Lemma ps_flag_values : N.lor (N.shiftl 0 1 mod 256) 1 = 1 /\ N.lor (N.shiftl 2 1 mod 256) 1 = 5.
Proof. split; reflexivity. Qed.

Section WithC15Enc.
  (* C15's hpack_encode_valid: the Huffman encoder writes a valid RFC 7541 5.2 encoding *)
  Lemma H_henc : forall s, wf_bytes s -> len s < 2 ^ 26 -> exists e, hpack_encode s = Ok e /\ wf_bytes e /\ hs_strict e s.
  Proof.
    intros s Hwf Hl. destruct (hpack_encode_valid s Hwf Hl) as (e & He & Hwe & Hv & _). exists e. auto.
  Qed.

  (* prefix_string::encode(8, 0, s) and (4, 0b0010, s): a Huffman string literal *)
  Lemma ps_encode_value s :
    wf_bytes s -> len s < 2 ^ 26 ->
    exists e, ps_encode 8 0 s = Ok e /\ wf_bytes e /\ str_lit hs_strict 7 0 s e.
  Proof.
    intros Hwf Hl. destruct (H_henc s Hwf Hl) as (p & Hp & Hwfp & Hhs).
    pose proof (huffman_length_bound _ _ Hhs Hl) as Hlp.
    unfold ps_encode, ps_enc_size_offset, ps_enc_flag_shift, ps_enc_flag_or. rewrite Hp. change (8 <? 1) with false. cbv iota.
    destruct ps_flag_values as [-> _]. change (8 - 1) with 7.
    destruct (pi_encode_total 7 1 (len p) ltac:(lia) ltac:(reflexivity) Hlp) as (e1 & He1 & Hwf1 & Hd & _).
    rewrite He1. exists (e1 ++ p). split; [reflexivity|]. split; [apply wf_bytes_app; auto|].
    apply str_huff; [|exact Hhs]. unfold int_enc. specialize (Hd []). rewrite app_nil_r in Hd. exact Hd.
  Qed.

  Lemma ps_encode_name s :
    wf_bytes s -> len s < 2 ^ 26 ->
    exists e, ps_encode 4 2 s = Ok e /\ wf_bytes e /\ str_lit hs_strict 3 (2 + 0) s e.
  Proof.
    intros Hwf Hl. destruct (H_henc s Hwf Hl) as (p & Hp & Hwfp & Hhs).
    pose proof (huffman_length_bound _ _ Hhs Hl) as Hlp.
    unfold ps_encode, ps_enc_size_offset, ps_enc_flag_shift, ps_enc_flag_or. rewrite Hp. change (4 <? 1) with false. cbv iota.
    destruct ps_flag_values as [_ ->]. change (4 - 1) with 3.
    destruct (pi_encode_total 3 5 (len p) ltac:(lia) ltac:(reflexivity) Hlp) as (e1 & He1 & Hwf1 & Hd & _).
    rewrite He1. exists (e1 ++ p). split; [reflexivity|]. split; [apply wf_bytes_app; auto|].
    apply str_huff; [|exact Hhs]. unfold int_enc. specialize (Hd []). rewrite app_nil_r in Hd. exact Hd.
  Qed.

  Lemma field_encode_sound f :
    wf_field f -> exists l, field_encode f = Ok l /\ wf_bytes l /\ field_line hs_strict f l.
  Proof.
    intros (Hwn & Hwv & Hln & Hlv). unfold field_encode.
    destruct (st_find f) as [i|] eqn:Ef.
    - (* indexed *)
      pose proof (st_find_sound _ _ Ef) as Hg. pose proof (st_get_range _ _ Hg) as Hi.
      change qs_idx_enc_bits with 6. change qs_idx_enc_static_flags with 3.
      destruct (pi_encode_total 6 3 i ltac:(lia) ltac:(reflexivity) ltac:(change (2 ^ 64) with 18446744073709551616; lia))
        as (e & He & Hwe & Hd & _).
      exists e. split; [exact He|]. split; [exact Hwe|].
      apply (fl_indexed hs_strict i f e); [|rewrite <- st_get_is_rfc; exact Hg].
      unfold int_enc. specialize (Hd []). rewrite app_nil_r in Hd. exact Hd.
    - destruct (st_find_name (fst f)) as [i|] eqn:En.
      + (* literal with static name reference *)
        destruct (st_find_name_sound _ _ En) as (v0 & Hg). pose proof (st_get_range _ _ Hg) as Hi.
        change qs_nr_enc_bits with 4. change qs_nr_enc_flags with 5.
        change qs_nr_enc_string_size with 8. change qs_nr_enc_string_flags with 0.
        destruct (pi_encode_total 4 5 i ltac:(lia) ltac:(reflexivity) ltac:(change (2 ^ 64) with 18446744073709551616; lia))
          as (e & He & Hwe & Hd & _).
        destruct (ps_encode_value (snd f) Hwv Hlv) as (sv & Hsv & Hwsv & Hlit).
        rewrite He, Hsv. cbn [cat2]. exists (e ++ sv). split; [reflexivity|]. split; [apply wf_bytes_app; auto|].
        destruct f as [n v]. cbn [fst snd] in *.
        apply (fl_name_ref hs_strict 0 i (n, v0) e v sv); [lia| |rewrite <- st_get_is_rfc; exact Hg|exact Hlit].
        unfold int_enc. specialize (Hd []). rewrite app_nil_r in Hd. exact Hd.
      + (* literal with literal name *)
        change qs_lit_enc_name_size with 4. change qs_lit_enc_name_flags with 2.
        change qs_lit_enc_value_size with 8. change qs_lit_enc_value_flags with 0.
        destruct (ps_encode_name (fst f) Hwn Hln) as (sn & Hsn & Hwsn & Hlitn).
        destruct (ps_encode_value (snd f) Hwv Hlv) as (sv & Hsv & Hwsv & Hlit).
        rewrite Hsn, Hsv. cbn [cat2]. exists (sn ++ sv). split; [reflexivity|]. split; [apply wf_bytes_app; auto|].
        destruct f as [n v]. cbn [fst snd] in *.
        apply (fl_literal hs_strict 0 n sn v sv); [lia|exact Hlitn|exact Hlit].
  Qed.

  Lemma fields_encode_sound fs :
    Forall wf_field fs ->
    exists bs, fields_encode fs = Ok (bs, section_size fs) /\ wf_bytes bs /\ field_lines hs_strict fs bs.
  Proof.
    induction fs as [|f fs IH]; intros Hwf.
    - exists []. split; [reflexivity|]. split; [constructor|constructor].
    - inversion Hwf as [|? ? Hf Hfs]; subst. destruct (IH Hfs) as (bs & Hbs & Hwbs & Hls).
      destruct (field_encode_sound f Hf) as (l & Hl & Hwl & Hfl).
      cbn [fields_encode]. rewrite Hl, Hbs. exists (l ++ bs).
      split; [rewrite mem_size_is_field_size; reflexivity|]. split; [apply wf_bytes_app; auto|].
      constructor; assumption.
  Qed.

  Lemma hp_encode_zero : hp_encode 0 false 0 = Ok [0; 0].
  Proof. vm_compute. reflexivity. Qed.

  (* T1: every field section h3 encodes is an RFC 9204 encoding of exactly that list; the returned size is the
     RFC 9114 4.2.2 size *)
  Theorem encode_writes_rfc fs :
    Forall wf_field fs ->
    exists bs, encode_stateless fs = Ok (bs, section_size fs) /\ wf_bytes bs /\ section fs bs.
  Proof.
    intros Hwf. destruct (fields_encode_sound fs Hwf) as (ls & Hls & Hwls & Hfl).
    unfold encode_stateless. rewrite hp_encode_zero, Hls. exists ([0; 0] ++ ls).
    split; [reflexivity|]. split; [apply wf_bytes_app; split; [repeat constructor; reflexivity|exact Hwls]|].
    exists [0], [0], 0, ls. split; [reflexivity|]. split; [reflexivity|]. split; [reflexivity|exact Hfl].
  Qed.

  Theorem encode_read_by_reference_decoder fs :
    Forall wf_field fs ->
    exists bs, encode_stateless fs = Ok (bs, section_size fs) /\ rfc_decode_static bs = Some fs.
  Proof.
    intros Hwf. destruct (encode_writes_rfc fs Hwf) as (bs & He & Hwb & Hs).
    exists bs. split; [exact He|]. apply rfc_decode_static_iff; assumption.
  Qed.

  Theorem encode_stateless_no_panic fs : Forall wf_field fs -> is_panic (encode_stateless fs) = false.
  Proof. intros Hwf. destruct (encode_writes_rfc fs Hwf) as (bs & He & _). rewrite He. reflexivity. Qed.
End WithC15Enc.

(* ---------------------------------------------------------------- the premise "no Huffman string of bs is in the known class" *)

(* a valid RFC 7541 5.2 payload is never in the class (the decomposition codes ++ ones is unique) *)
Lemma valid_not_long_ones p s : hs_strict p s -> ~ LongOnes p.
Proof.
  intros (Hwf & pad & Hb & Hl & Ho) (s' & pad' & Hwf' & Hb' & Ho' & Hl').
  rewrite Hb in Hb'. destruct (codes_ones_unique s s' pad pad' Hwf Hwf' Ho Ho' ltac:(lia) ltac:(lia) Hb') as [_ Hp].
  subst pad'. lia.
Qed.

Lemma hs_strict_outside p s : hs_strict p s -> hs_outside p s.
Proof. intros H. split; [left; exact H|]. eapply valid_not_long_ones; eauto. Qed.

Definition small_bytes (p : bytes) : Prop := wf_bytes p /\ fits_u32 p.

Lemma small_bytes_app a b : small_bytes (a ++ b) -> small_bytes a /\ small_bytes b.
Proof.
  unfold small_bytes, fits_u32. intros [Hwf Hf]. apply wf_bytes_app in Hwf. rewrite len_app in Hf.
  repeat split; try tauto; lia.
Qed.

Lemma hdec_model_complete p s : small_bytes p -> hs_lax p s -> hdec_model p = Some s.
Proof.
  intros [Hwf Hfit] H. unfold hdec_model. rewrite (fits_huff_guard p Hfit). destruct H as [Hv|Hl].
  - assert (H : hpack_decode p = Ok s).
    { apply hpack_decode_lax; [exact Hwf|exact Hfit|]. apply lax_split. left. exact Hv. }
    rewrite H. reflexivity.
  - rewrite (hpack_decode_known_class p s Hwf Hfit Hl). reflexivity.
Qed.

(* the premise is decidable by running two decoders: bs has no Huffman string in the known class exactly when
   the strict oracle accepts whatever the reference decoder run with h3's (lax) Huffman decoder accepts *)
Theorem no_known_huffman_iff_oracles bs :
  wf_bytes bs -> fits_u32 bs ->
  (no_known_huffman bs <->
   forall fs, ref_section rfc_pi_decode hdec_model bs = Some fs -> rfc_decode_static bs = Some fs).
Proof.
  intros Hwf Hfit. split.
  - intros Hnk fs Hr. apply rfc_decode_static_iff; [exact Hwf|].
    pose proof (ref_section_sound hs_lax hdec_model hdec_model_sound _ _ Hwf Hr) as Hl.
    apply Hnk in Hl. unfold section. eapply section_g_mono; [|exact Hl]. exact hs_outside_strict.
  - intros Ho fs Hl.
    pose proof (ref_section_complete hs_lax hdec_model small_bytes small_bytes_app hdec_model_complete _ _ (conj Hwf Hfit) Hl) as Hr.
    apply Ho in Hr. apply rfc_decode_static_iff in Hr; [|exact Hwf].
    unfold section in Hr. eapply section_g_mono; [|exact Hr]. exact hs_strict_outside.
Qed.
