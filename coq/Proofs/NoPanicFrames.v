(* C06 PART 3: Frame::decode (Model/FrameDec.v, owned by C02, imported read-only) never returns Panic on any
   well-formed byte string: not the copy_to_bytes site (30), not the unreachable!() arm (31), not the fuel site of
   the SETTINGS scan (90), not a varint site. *)
From H3V Require Import Base.Bytes Base.BytesLemmas Gen.GenVarint Gen.GenFrameTypes Spec.RFC9000 Spec.FrameVocab
  Model.Varint Model.FrameDec Proofs.VarintProofs.
From Coq Require Import ZifyBool ZifyNat ZifyN.
Ltac Zify.zify_post_hook ::= Z.div_mod_to_equations.

Lemma vi_decode_rest_wf bs : wf_bytes bs -> wf_bytes (snd (vi_decode bs)).
Proof.
  intros H. unfold vi_decode. destruct bs as [|b0 r]; [constructor|].
  apply wf_bytes_cons in H as [_ Hr].
  destruct (assoc _ dec_rows) as [[need [errc [copy total]]]|]; [|exact Hr].
  destruct (len r <? need); [exact Hr|]. destruct (len r <? copy); [exact Hr|].
  cbn [snd]. apply wf_bytes_skipn. exact Hr.
Qed.

Lemma vi_decode_no_panic' bs s r : wf_bytes bs -> vi_decode bs <> (Panic s, r).
Proof.
  intros H E. pose proof (vi_decode_no_panic bs H) as P. rewrite E in P. discriminate.
Qed.

Lemma vi_decode_rest_shorter bs x r : vi_decode bs = (Ok x, r) -> (length r < length bs)%nat.
Proof.
  unfold vi_decode. destruct bs as [|b0 t]; [discriminate|].
  destruct (assoc _ dec_rows) as [[need [errc [copy total]]]|]; [|discriminate].
  destruct (len t <? need); [discriminate|]. destruct (len t <? copy); [discriminate|].
  intros H. inversion H; subst. rewrite skipn_length. cbn [length]. lia.
Qed.

Lemma settings_scan_no_panic : forall fuel v seen,
  wf_bytes v -> (length v < fuel)%nat -> is_panic (settings_scan fuel v seen) = false.
Proof.
  induction fuel as [|f IH]; intros v seen Hwf Hf; [lia|].
  cbn [settings_scan]. destruct v as [|b0 r]; [reflexivity|].
  destruct (len (b0 :: r) <? fs_settings_min); [reflexivity|].
  destruct (vi_decode (b0 :: r)) as [[id|e|s] r1] eqn:V1; [|reflexivity|exfalso; eapply vi_decode_no_panic'; eauto].
  assert (W1 : wf_bytes r1) by (pose proof (vi_decode_rest_wf _ Hwf) as W; rewrite V1 in W; exact W).
  pose proof (vi_decode_rest_shorter _ _ _ V1) as S1.
  destruct (vi_decode r1) as [[val|e|s] r2] eqn:V2; [|reflexivity|exfalso; eapply vi_decode_no_panic'; eauto].
  assert (W2 : wf_bytes r2) by (pose proof (vi_decode_rest_wf _ W1) as W; rewrite V2 in W; exact W).
  pose proof (vi_decode_rest_shorter _ _ _ V2) as S2.
  destruct (memN id fs_forbidden_ids); [reflexivity|].
  destruct (memN id fs_supported_ids).
  - destruct (fs_settings_len <=? len seen); [reflexivity|].
    destruct (vi_from_u64 id), (vi_from_u64 val); try reflexivity.
    destruct (memN id seen); [reflexivity|]. apply IH; [exact W2|lia].
  - apply IH; [exact W2|lia].
Qed.

Lemma settings_check_no_panic p : wf_bytes p -> is_panic (settings_check p) = false.
Proof. intros H. unfold settings_check. apply settings_scan_no_panic; [exact H|lia]. Qed.

Lemma read_arm_no_panic a ty l p :
  wf_bytes p -> a <> ArmUnreachable -> (a = ArmHeaders -> l <= len p) -> is_panic (fst (read_arm a ty l p)) = false.
Proof.
  intros Hwf Hu Hh. destruct a; cbn [read_arm].
  - specialize (Hh eq_refl). destruct (len p <? l) eqn:E; [lia|reflexivity].
  - pose proof (settings_check_no_panic p Hwf) as S. destruct (settings_check p); [reflexivity|reflexivity|discriminate].
  - destruct (vi_decode p) as [[v|e|s] r] eqn:V; [|reflexivity|exfalso; eapply vi_decode_no_panic'; eauto].
    cbn [fst]. unfold push_id_try_from. destruct (vi_from_u64 v); reflexivity.
  - destruct (vi_decode p) as [[v|e|s] r] eqn:V; [reflexivity|reflexivity|exfalso; eapply vi_decode_no_panic'; eauto].
  - destruct (vi_decode p) as [[v|e|s] r] eqn:V; [reflexivity|reflexivity|exfalso; eapply vi_decode_no_panic'; eauto].
  - destruct (vi_decode p) as [[v|e|s] r] eqn:V; [|reflexivity|exfalso; eapply vi_decode_no_panic'; eauto].
    cbn [fst]. unfold push_id_try_from. destruct (vi_from_u64 v); reflexivity.
  - reflexivity.
  - congruence.
Qed.

(* the unreachable!() arm is keyed by the two types that return before the match (tie: GenFrameTypes) *)
Lemma arms_unreachable ty : assoc ty fdec_arms = Some ArmUnreachable -> ty = fdec_wt_type \/ ty = fdec_data_type.
Proof.
  unfold fdec_arms. cbn [assoc].
  repeat match goal with
         | |- context [if ty =? ?k then _ else _] => destruct (N.eqb_spec ty k); [try discriminate; auto|]
         end; try discriminate.
Qed.

Theorem frame_decode_no_panic v : wf_bytes v -> is_panic (fst (frame_decode v)) = false.
Proof.
  intros Hwf. unfold frame_decode.
  destruct (vi_decode v) as [[ty|e|s] r1] eqn:V1; [|reflexivity|exfalso; eapply vi_decode_no_panic'; eauto].
  assert (W1 : wf_bytes r1) by (pose proof (vi_decode_rest_wf _ Hwf) as W; rewrite V1 in W; exact W).
  destruct (N.eqb_spec ty fdec_wt_type) as [Ewt|Nwt].
  - destruct (vi_decode r1) as [[sid|e|s] r2] eqn:V2; [reflexivity|reflexivity|exfalso; eapply vi_decode_no_panic'; eauto].
  - destruct (vi_decode r1) as [[l|e|s] r2] eqn:V2; [|reflexivity|exfalso; eapply vi_decode_no_panic'; eauto].
    assert (W2 : wf_bytes r2) by (pose proof (vi_decode_rest_wf _ W1) as W; rewrite V2 in W; exact W).
    destruct (N.eqb_spec ty fdec_data_type) as [Ed|Nd]; [reflexivity|].
    change fdec_payload_cmp_strict with true. change fdec_payload_bounded with true. cbv iota.
    destruct (len r2 <? l) eqn:Hl; [reflexivity|].
    destruct (assoc ty fdec_arms) as [a|] eqn:A; [|reflexivity].
    assert (Hu : a <> ArmUnreachable).
    { intros ->. destruct (arms_unreachable _ A); contradiction. }
    assert (Hp : wf_bytes (firstn (N.to_nat l) r2)) by (apply wf_bytes_firstn; exact W2).
    assert (Hlen : l <= len (firstn (N.to_nat l) r2)).
    { unfold len. rewrite firstn_length. unfold len in Hl. lia. }
    pose proof (read_arm_no_panic a ty l _ Hp Hu (fun _ => Hlen)) as R.
    destruct (read_arm a ty l (firstn (N.to_nat l) r2)) as [[f|e|s] rest]; [|reflexivity|discriminate].
    destruct (fdec_trailing_check && negb (len rest =? 0)); reflexivity.
Qed.
