(* Proofs for property C19 (WebTransport streams stay attached to their session, bytes intact). *)
From H3V Require Import Base.Bytes Base.BytesLemmas Gen.GenCodes Gen.GenVarint Gen.GenWebTransport Gen.GenBufList
  Spec.RFC9000 Spec.WTSpec Model.Varint Model.WebTransport Proofs.VarintProofs.
From Coq Require Import ZifyBool ZifyNat ZifyN.
Ltac Zify.zify_post_hook ::= Z.div_mod_to_equations.

(* ------------------------------------------------------------------ generated facts the proofs rest on *)

Lemma gen_facts :
  wt_from_stream_into_inner = true /\ wt_encode_divisor = 1 /\
  wt_frame_checked = WT_BIDI_SIGNAL /\ wt_frame_bidi = WT_BIDI_SIGNAL /\ wt_frame_before_length = true /\
  wt_uni_hdr_type = WT_UNI_TYPE /\ wt_uni_hdr_type_first = true /\
  wt_bidi_hdr_type = WT_BIDI_SIGNAL /\ wt_bidi_hdr_type_first = true /\
  wt_into_stream_type = WT_UNI_TYPE /\ wt_st_uni = WT_UNI_TYPE /\ wt_st_bidi = WT_BIDI_SIGNAL /\
  wt_buffer_first = true /\ wt_memo_reset = true /\ wt_memo_min = 1 /\
  wt_second_varint_types = [wt_st_push; WT_UNI_TYPE] /\
  wt_into_inner_keeps_buffer = true /\ wt_gate = 1 /\
  wt_fallthrough_is_noop = true /\ wt_end_of_stream_removes = true /\ wt_session_from_connect_stream = true /\
  wt_fut_guard = 1 /\ wt_tokio_guard = 1 /\ wt_fut_take_capacity = true /\ wt_tokio_take_capacity = true /\
  wt_split_buf_to_recv = true /\ push_bytes_copies_whole_buffer = true.
Proof. repeat split; reflexivity. Qed.

(* ------------------------------------------------------------------ T1: the session id is the CONNECT stream id *)

Theorem session_is_connect_stream : forall sid, session_of_stream sid = wt_session_of_connect sid.
Proof. intros sid. reflexivity. Qed.

(* ------------------------------------------------------------------ T2: header bytes *)

Lemma write_var_spec x : x < 2 ^ 62 -> write_var x = Ok (wt_varint x).
Proof.
  intros Hx. unfold write_var. rewrite vi_from_u64_spec.
  destruct (N.ltb_spec x (2 ^ 62)) as [_|H]; [|lia].
  rewrite vi_encode_shortest by exact Hx. reflexivity.
Qed.

Lemma session_encode_spec s : s < 2 ^ 62 -> session_encode s = Ok (wt_varint s).
Proof.
  intros Hs. unfold session_encode. change wt_encode_divisor with 1. rewrite N.div_1_r.
  apply write_var_spec; exact Hs.
Qed.

Theorem headers_spec : forall s, s < 2 ^ 62 ->
  uni_header s = Ok (wt_stream_header WT_UNI_TYPE s) /\
  bidi_header s = Ok (wt_stream_header WT_BIDI_SIGNAL s).
Proof.
  intros s Hs. unfold uni_header, bidi_header, hdr_encode.
  change wt_uni_hdr_type with WT_UNI_TYPE. change wt_bidi_hdr_type with WT_BIDI_SIGNAL.
  rewrite !write_var_spec by (vm_compute; reflexivity).
  rewrite session_encode_spec by exact Hs. split; reflexivity.
Qed.

(* SessionId::encode would panic (unwrap) for a value that is not a varint: cannot happen for stream ids *)
Theorem headers_out_of_range : forall s, 2 ^ 62 <= s -> uni_header s = Panic 1 /\ bidi_header s = Panic 1.
Proof.
  intros s Hs. unfold uni_header, bidi_header, hdr_encode.
  change wt_uni_hdr_type with WT_UNI_TYPE. change wt_bidi_hdr_type with WT_BIDI_SIGNAL.
  rewrite !write_var_spec by (vm_compute; reflexivity).
  unfold session_encode. change wt_encode_divisor with 1. rewrite N.div_1_r.
  unfold write_var. rewrite vi_from_u64_spec.
  destruct (N.ltb_spec s (2 ^ 62)); [lia|]. split; reflexivity.
Qed.

(* the WriteBuf holding the header, drained by a transport that takes what it likes *)
Definition wb_inv (w : wbuf) : Prop := w_pos w <= len (w_bytes w).

Lemma len_skipn' n (l : bytes) : len (skipn n l) = len l - N.of_nat n.
Proof. unfold len. rewrite skipn_length. lia. Qed.

Lemma wb_chunk_len w : wb_inv w -> len (wb_chunk w) = wb_remaining w.
Proof. intros H. unfold wb_chunk, wb_remaining. rewrite len_skipn'. unfold wb_inv in H. lia. Qed.

Lemma wb_advance_chunk n w : wb_inv w -> n <= wb_remaining w ->
  wb_inv (wb_advance n w) /\ wb_chunk (wb_advance n w) = skipn (N.to_nat n) (wb_chunk w).
Proof.
  intros Hi Hn. unfold wb_advance.
  destruct (N.ltb_spec 0 (wb_remaining w)) as [Hr|Hr].
  - unfold wb_inv, wb_chunk, wb_remaining in *. cbn [w_bytes w_pos].
    replace (N.min n (len (w_bytes w) - w_pos w)) with n by lia. split; [lia|].
    rewrite skipn_skipn'. f_equal. lia.
  - assert (n = 0) by lia. subst n. split; [exact Hi|reflexivity].
Qed.

Theorem wb_send_exact : forall ks w, wb_inv w ->
  let (out, w') := wb_send ks w in out ++ wb_chunk w' = wb_chunk w /\ wb_inv w'.
Proof.
  induction ks as [|k ks IH]; intros w Hi; cbn [wb_send].
  - split; [reflexivity|exact Hi].
  - destruct (N.eqb_spec (wb_remaining w) 0) as [Hz|Hz]; [split; [reflexivity|exact Hi]|].
    set (n := N.min k (len (wb_chunk w))).
    assert (Hn : n <= wb_remaining w) by (unfold n; rewrite wb_chunk_len by exact Hi; lia).
    destruct (wb_advance_chunk n w Hi Hn) as [Hi' Hc'].
    specialize (IH (wb_advance n w) Hi').
    destruct (wb_send ks (wb_advance n w)) as [out w'].
    destruct IH as [IH1 IH2]. split; [|exact IH2].
    rewrite <- app_assoc, IH1, Hc'. apply firstn_skipn.
Qed.

(* every grant of at least one byte makes progress: len(header) grants finish the header *)
Theorem wb_send_complete : forall ks w, wb_inv w ->
  Forall (fun k => 1 <= k) ks -> wb_remaining w <= N.of_nat (length ks) ->
  wb_chunk (snd (wb_send ks w)) = [].
Proof.
  induction ks as [|k ks IH]; intros w Hi Hk Hl; cbn [wb_send].
  - cbn [snd length] in *. apply length_zero_iff_nil.
    pose proof (wb_chunk_len w Hi) as Hc. unfold len in Hc. lia.
  - destruct (N.eqb_spec (wb_remaining w) 0) as [Hz|Hz].
    + cbn [snd]. apply length_zero_iff_nil. pose proof (wb_chunk_len w Hi) as Hc. unfold len in Hc. lia.
    + inversion Hk as [|k' ks' Hk1 Hk2]; subst.
      set (n := N.min k (len (wb_chunk w))).
      assert (Hcl : len (wb_chunk w) = wb_remaining w) by (apply wb_chunk_len; exact Hi).
      assert (Hn : n <= wb_remaining w) by (unfold n; lia).
      destruct (wb_advance_chunk n w Hi Hn) as [Hi' Hc'].
      assert (Hrem : wb_remaining (wb_advance n w) <= N.of_nat (length ks)).
      { rewrite <- (wb_chunk_len _ Hi'), Hc', len_skipn', Hcl. cbn [length] in Hl. unfold n. lia. }
      specialize (IH (wb_advance n w) Hi' Hk2 Hrem).
      destruct (wb_send ks (wb_advance n w)) as [out w']. exact IH.
Qed.

(* ================================================================== receive side *)

(* ------------------------------------------------------------------ BufList facts *)

Definition nonempty (bufs : list bytes) : Prop := Forall (fun c => c <> []) bufs.

Lemma skipn_app_le' {A} n (a b : list A) : (n <= length a)%nat -> skipn n (a ++ b) = skipn n a ++ b.
Proof. intros H. rewrite skipn_app. replace (n - length a)%nat with 0%nat by lia. reflexivity. Qed.

Lemma firstn_app_le' {A} n (a b : list A) : (n <= length a)%nat -> firstn n (a ++ b) = firstn n a.
Proof. intros H. rewrite firstn_app. replace (n - length a)%nat with 0%nat by lia. cbn [firstn]. apply app_nil_r. Qed.

Lemma len_nil (l : bytes) : len l = 0 <-> l = [].
Proof. unfold len. destruct l; cbn [length]; split; intros H; try reflexivity; try discriminate; lia. Qed.

Lemma len_pos (l : bytes) : l <> [] <-> 0 < len l.
Proof. unfold len. destruct l; cbn [length]; split; intros H; try lia; try congruence. Qed.

Lemma len_cons x (l : bytes) : len (x :: l) = len l + 1.
Proof. unfold len. cbn [length]. lia. Qed.

Lemma nonempty_app a b : nonempty (a ++ b) <-> nonempty a /\ nonempty b.
Proof. unfold nonempty. apply Forall_app. Qed.

Lemma nonempty_concat_nil bufs : nonempty bufs -> concat bufs = [] -> bufs = [].
Proof.
  intros Hn Hc. destruct bufs as [|c r]; [reflexivity|].
  inversion Hn as [|? ? Hc0 _]; subst. cbn [concat] in Hc. apply app_eq_nil in Hc as [Hc _]. congruence.
Qed.

Lemma first_byte_spec bufs b0 r : nonempty bufs -> concat bufs = b0 :: r -> first_byte bufs = Some b0.
Proof.
  intros Hn Hc. destruct bufs as [|c rest]; [discriminate|].
  inversion Hn as [|? ? Hc0 _]; subst. destruct c as [|x c]; [congruence|].
  cbn [concat app] in Hc. injection Hc as -> _. reflexivity.
Qed.

Lemma bl_advance_spec : forall bufs n, nonempty bufs -> n <= len (concat bufs) ->
  exists bufs', bl_advance n bufs = Some bufs' /\ concat bufs' = skipn (N.to_nat n) (concat bufs) /\ nonempty bufs'.
Proof.
  induction bufs as [|c r IH]; intros n Hn Hl; cbn [bl_advance concat].
  - cbn [concat] in Hl. unfold len in Hl. cbn [length] in Hl.
    destruct (N.eqb_spec n 0) as [->|]; [|lia]. exists []. repeat split; constructor.
  - inversion Hn as [|? ? Hc Hr]; subst.
    destruct (N.eqb_spec n 0) as [->|Hn0].
    + exists (c :: r). repeat split; auto.
    + destruct (N.ltb_spec n (len c)) as [Hlt|Hge].
      * exists (skipn (N.to_nat n) c :: r). split; [reflexivity|]. split.
        -- cbn [concat]. rewrite skipn_app.
           replace (N.to_nat n - length c)%nat with 0%nat by (unfold len in Hlt; lia). reflexivity.
        -- constructor; [|exact Hr]. apply len_pos. rewrite len_skipn'. lia.
      * cbn [concat] in Hl. rewrite len_app in Hl.
        destruct (IH (n - len c) Hr ltac:(lia)) as (bufs' & H1 & H2 & H3).
        exists bufs'. split; [exact H1|]. split; [|exact H3].
        rewrite H2, skipn_app. rewrite (skipn_all2 c) by (unfold len in Hge; lia).
        cbn [app]. f_equal. unfold len. lia.
Qed.

(* ------------------------------------------------------------------ the reference reader of one integer *)

Lemma read_varint_cons b0 r :
  wt_read_varint (b0 :: r) =
    if len (b0 :: r) <? rfc_vi_len b0 then None
    else Some (rfc_vi_value (firstn (N.to_nat (rfc_vi_len b0)) (b0 :: r)), skipn (N.to_nat (rfc_vi_len b0)) (b0 :: r)).
Proof. reflexivity. Qed.

Lemma rfc_vi_len_pos b0 : 1 <= rfc_vi_len b0.
Proof. unfold rfc_vi_len. pose proof (N.pow_nonzero 2 (b0 / 64)). lia. Qed.

(* reading does not depend on what follows a complete integer *)
Lemma read_varint_extend v x rest ext :
  wt_read_varint v = Some (x, rest) -> wt_read_varint (v ++ ext) = Some (x, rest ++ ext).
Proof.
  destruct v as [|b0 r]; [discriminate|]. rewrite read_varint_cons.
  destruct (N.ltb_spec (len (b0 :: r)) (rfc_vi_len b0)) as [|Hle]; [discriminate|].
  intros H. injection H as <- <-. change ((b0 :: r) ++ ext) with (b0 :: (r ++ ext)).
  rewrite read_varint_cons. change (b0 :: (r ++ ext)) with ((b0 :: r) ++ ext).
  destruct (N.ltb_spec (len ((b0 :: r) ++ ext)) (rfc_vi_len b0)) as [Hlt|_]; [rewrite len_app in Hlt; lia|].
  assert (Hn : (N.to_nat (rfc_vi_len b0) <= length (b0 :: r))%nat) by (unfold len in Hle; lia).
  f_equal. f_equal.
  - rewrite firstn_app. replace (N.to_nat (rfc_vi_len b0) - length (b0 :: r))%nat with 0%nat by lia.
    cbn [firstn]. rewrite app_nil_r. reflexivity.
  - apply skipn_app_le'. exact Hn.
Qed.

Lemma read_varint_split v x rest : wt_read_varint v = Some (x, rest) ->
  exists e, v = e ++ rest /\ e <> [] /\ rest = skipn (length e) v.
Proof.
  destruct v as [|b0 r]; [discriminate|]. rewrite read_varint_cons.
  destruct (N.ltb_spec (len (b0 :: r)) (rfc_vi_len b0)) as [|Hle]; [discriminate|].
  intros H. injection H as _ <-.
  exists (firstn (N.to_nat (rfc_vi_len b0)) (b0 :: r)). split; [symmetry; apply firstn_skipn|]. split.
  - pose proof (rfc_vi_len_pos b0). destruct (N.to_nat (rfc_vi_len b0)) eqn:E; [lia|]. cbn [firstn]. discriminate.
  - rewrite firstn_length. f_equal. unfold len in Hle. lia.
Qed.

Lemma read_varint_shorter v x rest : wt_read_varint v = Some (x, rest) -> len rest < len v.
Proof.
  intros H. destruct (read_varint_split v x rest H) as (e & Hv & He & _).
  apply len_pos in He. rewrite Hv, len_app. lia.
Qed.

(* the model's decoder agrees with the reference reader on every well-formed view *)
Lemma vi_decode_read v : wf_bytes v ->
  match wt_read_varint v with
  | Some (x, rest) => vi_decode v = (Ok x, rest)
  | None => exists k r, vi_decode v = (Err k, r) /\ k <= 3
  end.
Proof.
  intros Hwf. destruct v as [|b0 r].
  - cbn [wt_read_varint]. exists 0, []. split; [apply vi_decode_empty|lia].
  - rewrite read_varint_cons. destruct (N.ltb_spec (len (b0 :: r)) (rfc_vi_len b0)) as [Hlt|Hle].
    + apply wf_bytes_cons in Hwf as [Hb _]. exists (tag_of b0), r. split; [apply vi_decode_truncated; assumption|].
      unfold tag_of. unfold wf_byte in *. lia.
    + apply vi_decode_complete; assumption.
Qed.

(* the memo of poll_next_varint *)
Lemma attempt_spec exp bufs :
  nonempty bufs -> wf_bytes (concat bufs) ->
  (exp = None \/ exists b0 r, concat bufs = b0 :: r /\ exp = Some (vi_encoded_size b0)) ->
  match wt_read_varint (concat bufs) with
  | Some (x, rest) =>
      exists bufs', varint_attempt exp bufs = AtValue x bufs' None /\ concat bufs' = rest /\ nonempty bufs'
  | None =>
      exists e', varint_attempt exp bufs = AtNeedMore e' /\
                 (e' = None \/ exists b0 r, concat bufs = b0 :: r /\ e' = Some (vi_encoded_size b0))
  end.
Proof.
  intros Hn Hwf Hm.
  destruct (concat bufs) as [|b0 r] eqn:Hc.
  - (* empty buffer *)
    cbn [wt_read_varint]. destruct Hm as [->|(b & r & Hbr & _)]; [|discriminate].
    exists None. split; [|left; reflexivity].
    unfold varint_attempt, memo_update, bl_remaining. rewrite Hc. reflexivity.
  - assert (Hmu : memo_update exp bufs = Ok (Some (vi_encoded_size b0))).
    { unfold memo_update. destruct Hm as [->|(b & r' & Hbr & ->)].
      - unfold bl_remaining. rewrite Hc. change wt_memo_min with 1.
        destruct (N.leb_spec 1 (len (b0 :: r))) as [_|H]; [|rewrite len_cons in H; lia].
        rewrite (first_byte_spec bufs b0 r Hn Hc). reflexivity.
      - injection Hbr as <- <-. reflexivity. }
    rewrite read_varint_cons.
    unfold varint_attempt. rewrite Hmu. unfold bl_remaining. rewrite Hc, vi_encoded_size_spec.
    destruct (N.ltb_spec (len (b0 :: r)) (rfc_vi_len b0)) as [Hlt|Hle].
    + destruct (N.leb_spec (rfc_vi_len b0) (len (b0 :: r))) as [H|_]; [lia|].
      exists (Some (rfc_vi_len b0)). split; [reflexivity|]. right. exists b0, r.
      rewrite vi_encoded_size_spec. auto.
    + destruct (N.leb_spec (rfc_vi_len b0) (len (b0 :: r))) as [_|H]; [|lia].
      rewrite vi_decode_complete by assumption.
      set (l := N.to_nat (rfc_vi_len b0)).
      assert (Hl : (l <= length (b0 :: r))%nat) by (unfold l, len in *; lia).
      destruct (bl_advance_spec bufs (len (b0 :: r) - len (skipn l (b0 :: r))) Hn) as (bufs' & H1 & H2 & H3).
      { rewrite Hc. lia. }
      rewrite H1. change wt_memo_reset with true. cbn [andb].
      exists bufs'. split; [reflexivity|]. split; [|exact H3].
      rewrite H2, Hc. f_equal. rewrite len_skipn'. unfold len. unfold l in *. lia.
Qed.

(* ------------------------------------------------------------------ transport queues *)

(* the transport contract: chunks are never empty; FIN / RESET is the last thing on a stream *)
Fixpoint q_ok (q : list ev) : Prop :=
  match q with
  | [] => True
  | Chunk b :: r => b <> [] /\ q_ok r
  | Fin :: r => r = []
  | Reset _ :: r => r = []
  end.

Fixpoint q_term (q : list ev) : option ev :=
  match q with
  | [] => None
  | Chunk _ :: r => q_term r
  | e :: _ => Some e
  end.

Definition aview (a : ars) (q : list ev) : bytes := concat (r_buf (a_s a)) ++ ev_bytes q.
Definition agood (a : ars) (q : list ev) : Prop :=
  nonempty (r_buf (a_s a)) /\ q_ok q /\ wf_bytes (aview a q).
Definition memo_ok (a : ars) : Prop :=
  a_exp a = None \/ exists b0 r, concat (r_buf (a_s a)) = b0 :: r /\ a_exp a = Some (vi_encoded_size b0).

Lemma concat_snoc (bufs : list bytes) b : concat (bufs ++ [b]) = concat bufs ++ b.
Proof. rewrite concat_app. cbn [concat]. rewrite app_nil_r. reflexivity. Qed.

Lemma memo_ok_push e' bufs b :
  (e' = None \/ exists b0 r, concat bufs = b0 :: r /\ e' = Some (vi_encoded_size b0)) ->
  (e' = None \/ exists b0 r, concat (bufs ++ [b]) = b0 :: r /\ e' = Some (vi_encoded_size b0)).
Proof.
  intros [->|(b0 & r & Hc & ->)]; [left; reflexivity|right].
  exists b0, (r ++ b). rewrite concat_snoc, Hc. auto.
Qed.

Ltac sst := cbn [a_s a_ty a_id a_exp ars_set_exp ars_set_s ars_set_ty ars_set_id brs_set_buf brs_set_eos
                  r_buf r_eos ev_bytes q_term] in *.

Lemma wf_rest v x rest ext : wt_read_varint v = Some (x, rest) -> wf_bytes (v ++ ext) -> wf_bytes (rest ++ ext).
Proof.
  intros Hrd Hwf. destruct (read_varint_split _ _ _ Hrd) as (e0 & Hv & _ & _).
  rewrite Hv, <- app_assoc in Hwf. apply wf_bytes_app in Hwf. tauto.
Qed.

(* poll_next_varint, characterised on the view (buffered bytes followed by what is queued) *)
Lemma pnv_spec : forall q a, agood a q -> memo_ok a ->
  match wt_read_varint (aview a q) with
  | Some (x, rest) =>
      exists q' a', poll_next_varint q a = (PnvValue x, q', a') /\ aview a' q' = rest /\ agood a' q' /\
                    a_exp a' = None /\ a_ty a' = a_ty a /\ a_id a' = a_id a /\ q_term q' = q_term q
  | None =>
      match q_term q with
      | Some _ => exists q' a', poll_next_varint q a = (PnvErr PtEndOfStream, q', a')
      | None => exists a', poll_next_varint q a = (PnvPending, [], a') /\ aview a' [] = aview a q /\
                           agood a' [] /\ memo_ok a' /\ a_ty a' = a_ty a /\ a_id a' = a_id a
      end
  end.
Proof.
  induction q as [|e q IH]; intros a (Hne & Hq & Hwf) Hm.
  - (* nothing queued *)
    unfold aview in *. cbn [ev_bytes q_term] in *. rewrite app_nil_r in *.
    pose proof (attempt_spec (a_exp a) (r_buf (a_s a)) Hne Hwf Hm) as Hat.
    cbn [poll_next_varint].
    destruct (wt_read_varint (concat (r_buf (a_s a)))) as [[x rest]|] eqn:Hrd.
    + destruct Hat as (bufs' & -> & Hc & Hn').
      eexists [], _. split; [reflexivity|]. unfold agood, aview. sst. rewrite app_nil_r, Hc.
      repeat split; auto.
      rewrite <- (app_nil_r rest). eapply wf_rest; [exact Hrd|rewrite app_nil_r; exact Hwf].
    + destruct Hat as (e' & -> & Hm').
      eexists. split; [reflexivity|]. unfold agood, aview, memo_ok. sst. rewrite !app_nil_r.
      repeat split; auto.
  - destruct e as [b| |c].
    + (* a chunk is queued *)
      cbn [q_ok] in Hq. destruct Hq as [Hb Hq].
      assert (Hwfb : wf_bytes (concat (r_buf (a_s a)))).
      { unfold aview in Hwf. apply wf_bytes_app in Hwf. tauto. }
      pose proof (attempt_spec (a_exp a) (r_buf (a_s a)) Hne Hwfb Hm) as Hat.
      cbn [poll_next_varint].
      destruct (wt_read_varint (concat (r_buf (a_s a)))) as [[x rest]|] eqn:Hrd.
      * (* already complete in the buffer *)
        destruct Hat as (bufs' & -> & Hc & Hn').
        unfold aview at 1. cbn [ev_bytes q_term].
        rewrite (read_varint_extend _ _ _ (b ++ ev_bytes q) Hrd).
        eexists (Chunk b :: q), _. split; [reflexivity|].
        unfold agood, aview. sst. rewrite Hc. cbn [q_ok].
        repeat split; auto.
        eapply wf_rest; [exact Hrd|exact Hwf].
      * destruct Hat as (e' & -> & Hm').
        apply len_pos in Hb as Hlb. destruct (N.eqb_spec (len b) 0) as [Hz|_]; [lia|].
        set (a2 := ars_set_s (ars_set_exp a e') (brs_set_buf (a_s (ars_set_exp a e')) (r_buf (a_s (ars_set_exp a e')) ++ [b]))).
        assert (Hv2 : aview a2 q = aview a (Chunk b :: q)).
        { unfold aview, a2. sst. rewrite concat_snoc, <- app_assoc. reflexivity. }
        assert (Hg2 : agood a2 q).
        { split; [|split; [exact Hq|rewrite Hv2; exact Hwf]].
          unfold a2. sst. apply nonempty_app. split; [exact Hne|].
          constructor; [exact Hb|constructor]. }
        assert (Hm2 : memo_ok a2).
        { unfold memo_ok, a2. sst. apply memo_ok_push. exact Hm'. }
        specialize (IH a2 Hg2 Hm2). rewrite Hv2 in IH. cbn [q_term].
        change (a_ty a2) with (a_ty a) in IH. change (a_id a2) with (a_id a) in IH.
        exact IH.
    + (* FIN at the head: by the contract nothing follows *)
      cbn [q_ok] in Hq. subst q. unfold aview in *. cbn [ev_bytes q_term] in *. rewrite app_nil_r in *.
      pose proof (attempt_spec (a_exp a) (r_buf (a_s a)) Hne Hwf Hm) as Hat.
      cbn [poll_next_varint].
      destruct (wt_read_varint (concat (r_buf (a_s a)))) as [[x rest]|] eqn:Hrd.
      * destruct Hat as (bufs' & -> & Hc & Hn').
        eexists [Fin], _. split; [reflexivity|]. unfold agood, aview. sst. rewrite app_nil_r, Hc. cbn [q_ok].
        repeat split; auto.
        rewrite <- (app_nil_r rest). eapply wf_rest; [exact Hrd|rewrite app_nil_r; exact Hwf].
      * destruct Hat as (e' & -> & Hm').
        unfold pnv_stopped. sst.
        pose proof (attempt_spec e' (r_buf (a_s a)) Hne Hwf Hm') as Hat2. rewrite Hrd in Hat2.
        destruct Hat2 as (e'' & -> & _). eexists _, _. reflexivity.
    + cbn [q_ok] in Hq. subst q. unfold aview in *. cbn [ev_bytes q_term] in *. rewrite app_nil_r in *.
      pose proof (attempt_spec (a_exp a) (r_buf (a_s a)) Hne Hwf Hm) as Hat.
      cbn [poll_next_varint].
      destruct (wt_read_varint (concat (r_buf (a_s a)))) as [[x rest]|] eqn:Hrd.
      * destruct Hat as (bufs' & -> & Hc & Hn').
        eexists [Reset c], _. split; [reflexivity|]. unfold agood, aview. sst. rewrite app_nil_r, Hc. cbn [q_ok].
        repeat split; auto.
        rewrite <- (app_nil_r rest). eapply wf_rest; [exact Hrd|rewrite app_nil_r; exact Hwf].
      * destruct Hat as (e' & -> & Hm').
        unfold pnv_stopped. sst.
        pose proof (attempt_spec e' (r_buf (a_s a)) Hne Hwf Hm') as Hat2. rewrite Hrd in Hat2.
        destruct Hat2 as (e'' & -> & _). eexists _, _. reflexivity.
Qed.

(* ------------------------------------------------------------------ poll_type on the view *)

Inductive tstat := TReady (t : N) (i : option N) (rest : bytes) | TWait1 | TWait2 (t : N) (rest1 : bytes).

Definition type_parse (ty0 : option N) (v : bytes) : tstat :=
  match ty0 with
  | None =>
      match wt_read_varint v with
      | None => TWait1
      | Some (t, r1) =>
          if needs_id (Some t) then
            match wt_read_varint r1 with
            | Some (i, r2) => TReady t (Some i) r2
            | None => TWait2 t r1
            end
          else TReady t None r1
      end
  | Some t =>
      match wt_read_varint v with
      | Some (i, r2) => TReady t (Some i) r2
      | None => TWait2 t v
      end
  end.

Lemma memo_ok_none a : a_exp a = None -> memo_ok a.
Proof. intros H. left. exact H. Qed.

Lemma poll_type_spec : forall q a, agood a q -> memo_ok a -> a_id a = None ->
  (forall t, a_ty a = Some t -> needs_id (Some t) = true) ->
  match type_parse (a_ty a) (aview a q) with
  | TReady t i rest =>
      exists q' a', poll_type q a = (PtReady, q', a') /\ a_ty a' = Some t /\ a_id a' = i /\
                    aview a' q' = rest /\ agood a' q' /\ q_term q' = q_term q
  | TWait1 =>
      match q_term q with
      | Some _ => exists q' a', poll_type q a = (PtError PtEndOfStream, q', a')
      | None => exists a', poll_type q a = (PtPending, [], a') /\ a_ty a' = None /\ a_id a' = None /\
                           aview a' [] = aview a q /\ agood a' [] /\ memo_ok a'
      end
  | TWait2 t r1 =>
      match q_term q with
      | Some _ => exists q' a', poll_type q a = (PtError PtEndOfStream, q', a')
      | None => exists a', poll_type q a = (PtPending, [], a') /\ a_ty a' = Some t /\ a_id a' = None /\
                           aview a' [] = r1 /\ agood a' [] /\ memo_ok a'
      end
  end.
Proof.
  intros q a Hg Hm Hid Hty. unfold poll_type, type_parse.
  destruct (a_ty a) as [t|] eqn:Eta.
  - (* the type is known: only the id is missing *)
    rewrite Eta, (Hty t eq_refl), Hid. cbn [andb].
    pose proof (pnv_spec q a Hg Hm) as Hp.
    destruct (wt_read_varint (aview a q)) as [[i r2]|].
    + destruct Hp as (q' & a' & -> & Hv & Hg' & He & Ht & Hi & Hq').
      eexists q', _. split; [reflexivity|]. unfold agood, aview in *. sst. rewrite Ht, Eta. repeat split; tauto.
    + destruct (q_term q).
      * destruct Hp as (q' & a' & ->). eexists _, _. reflexivity.
      * destruct Hp as (a' & -> & Hv & Hg' & Hm' & Ht & Hi).
        eexists. split; [reflexivity|]. rewrite Ht, Hi, Eta, Hid. repeat split; auto; apply Hg'.
  - pose proof (pnv_spec q a Hg Hm) as Hp.
    destruct (wt_read_varint (aview a q)) as [[t r1]|].
    + destruct Hp as (q1 & a1 & -> & Hv & Hg1 & He & Ht & Hi & Hq1).
      set (a1' := ars_set_ty a1 t).
      assert (Hg1' : agood a1' q1) by exact Hg1.
      assert (Hv1' : aview a1' q1 = r1) by exact Hv.
      assert (Hm1' : memo_ok a1') by (apply memo_ok_none; exact He).
      change (a_ty a1') with (Some t). change (a_id a1') with (a_id a1). rewrite Hi, Hid.
      destruct (needs_id (Some t)); cbn [andb].
      * pose proof (pnv_spec q1 a1' Hg1' Hm1') as Hp2. rewrite Hv1' in Hp2.
        destruct (wt_read_varint r1) as [[i r2]|].
        -- destruct Hp2 as (q' & a' & -> & Hv' & Hg' & He' & Ht' & Hi' & Hq').
           eexists q', _. split; [reflexivity|]. unfold agood, aview in *. sst. rewrite Ht'.
           repeat split; try tauto. congruence.
        -- rewrite <- Hq1. destruct (q_term q1).
           ++ destruct Hp2 as (q' & a' & ->). eexists _, _. reflexivity.
           ++ destruct Hp2 as (a' & -> & Hv' & Hg' & Hm' & Ht' & Hi').
              eexists. split; [reflexivity|]. rewrite Ht', Hi'. repeat split; auto; try apply Hg'.
              change (a_id a1') with (a_id a1). congruence.
      * eexists q1, a1'. repeat split; auto; try apply Hg1.
        change (a_id a1') with (a_id a1). congruence.
    + destruct (q_term q).
      * destruct Hp as (q' & a' & ->). eexists _, _. reflexivity.
      * destruct Hp as (a' & -> & Hv & Hg' & Hm' & Ht & Hi).
        eexists. split; [reflexivity|]. rewrite Ht, Hi, Eta, Hid. repeat split; auto; apply Hg'.
Qed.

(* ------------------------------------------------------------------ reading the handed-over stream *)

Definition sview (s : brs) (q : list ev) : bytes := concat (r_buf s) ++ ev_bytes q.
Definition sgood (s : brs) (q : list ev) : Prop := nonempty (r_buf s) /\ q_ok q.
Definition mode_ok (m : rmode) : Prop := match m with ModeData => True | ModeRead l => 1 <= l | ModeTokio l => 1 <= l end.
Definition ending_of (e : ev) : ending := match e with Reset c => EReset c | _ => EFin end.

Lemma q_no_bytes q : q_ok q -> ev_bytes q = [] -> q = [] \/ q = [Fin] \/ exists c, q = [Reset c].
Proof.
  destruct q as [|[b| |c] r]; cbn [q_ok ev_bytes]; intros Hq Hb; auto.
  - destruct Hq as [Hne _]. apply app_eq_nil in Hb as [Hb _]. congruence.
  - subst r. auto.
  - subst r. right. right. exists c. reflexivity.
Qed.

Lemma take_spec limit c rest : 1 <= limit -> c <> [] -> nonempty rest ->
  exists b bufs', bl_take_chunk limit (c :: rest) = (Some b, bufs') /\ b <> [] /\
                  b ++ concat bufs' = c ++ concat rest /\ nonempty bufs'.
Proof.
  intros Hl Hc Hr. cbn [bl_take_chunk]. apply len_pos in Hc as Hlc.
  set (n := N.to_nat (N.min limit (len c))).
  assert (Hn : (1 <= n <= length c)%nat) by (unfold n, len in *; lia).
  exists (firstn n c). eexists. split; [reflexivity|]. split.
  - destruct c as [|x c]; [congruence|]. destruct n; [lia|]. cbn [firstn]. discriminate.
  - destruct (N.eqb_spec (len (skipn n c)) 0) as [Hz|Hz].
    + apply len_nil in Hz. split; [|exact Hr].
      rewrite <- (firstn_skipn n c) at 2. rewrite Hz, app_nil_r. reflexivity.
    + split.
      * cbn [concat]. rewrite app_assoc, firstn_skipn. reflexivity.
      * constructor; [|exact Hr]. intros E. apply Hz. apply len_nil. exact E.
Qed.

Ltac bst := cbn [r_buf r_eos brs_set_buf brs_set_eos ev_bytes q_term q_ok concat app] in *.

Lemma brs_async_read_unfold l q s :
  brs_async_read l q s =
    if 0 <? bl_remaining (r_buf s) then brs_take l q s
    else match brs_poll_read q s with
         | (RdPending, q', s') => (RPending, q', s')
         | (RdEos, q', s') => (REnd, q', s')
         | (RdReset c, q', s') => (RReset c, q', s')
         | (RdPanic p, q', s') => (RPanic p, q', s')
         | (RdData, q', s') => brs_take l q' s'
         end.
Proof. reflexivity. Qed.

(* the tokio AsyncRead body is the futures one (same guard, same capacity argument) *)
Lemma brs_tokio_is_async l q s : brs_tokio_read l q s = brs_async_read l q s.
Proof. reflexivity. Qed.

Lemma read_call_tokio l q s : read_call (ModeTokio l) q s = read_call (ModeRead l) q s.
Proof. reflexivity. Qed.

Ltac rw_take Ht bb bufs' :=
  match goal with |- context [bl_take_chunk ?a ?b] =>
    replace (bl_take_chunk a b) with (Some bb, bufs') by (symmetry; exact Ht) end.

Lemma read_call_spec m q s : sgood s q -> mode_ok m ->
  match sview s q with
  | [] =>
      match q_term q with
      | None => exists s', read_call m q s = (RPending, [], s') /\ r_buf s' = []
      | Some (Reset c) => exists q' s', read_call m q s = (RReset c, q', s')
      | Some _ => exists q' s', read_call m q s = (REnd, q', s')
      end
  | _ :: _ =>
      exists b q' s', read_call m q s = (RData b, q', s') /\ b <> [] /\ b ++ sview s' q' = sview s q /\
                      sgood s' q' /\ q_term q' = q_term q
  end.
Proof.
  intros [Hne Hq] Hm0.
  assert (E : exists m', match m' with ModeTokio _ => False | _ => True end /\ mode_ok m' /\ read_call m q s = read_call m' q s).
  { destruct m as [|l|l]; [exists ModeData|exists (ModeRead l)|exists (ModeRead l)]; repeat split; auto. }
  destruct E as (m' & Hnt & Hm & ->). clear Hm0 m. rename m' into m.
  unfold sview, sgood.
  destruct (r_buf s) as [|c rest] eqn:Hb.
  - (* empty buffer: the transport is asked *)
    destruct q as [|[b| |c] q']; bst.
    + destruct m as [|l|l]; try contradiction; cbn [read_call]; rewrite ?brs_async_read_unfold; unfold brs_poll_data, brs_poll_read, bl_remaining;
        rewrite Hb; bst; eexists; split; try reflexivity; exact Hb.
    + destruct Hq as [Hbne Hq']. destruct b as [|x b']; [congruence|]. cbn [app].
      destruct m as [|l|l]; try contradiction; cbn [read_call mode_ok] in *.
      * unfold brs_poll_data. rewrite Hb. exists (x :: b'), q', s. rewrite Hb. bst.
        repeat split; auto; discriminate.
      * rewrite brs_async_read_unfold. unfold brs_poll_read, bl_remaining. rewrite Hb. bst.
        change (len []) with 0. destruct (N.ltb_spec 0 0) as [|_]; [lia|].
        destruct (N.eqb_spec (len (x :: b')) 0) as [Hz|_]; [rewrite len_cons in Hz; lia|].
        unfold brs_take. bst.
        destruct (take_spec l (x :: b') [] Hm ltac:(discriminate) ltac:(constructor)) as (bb & bufs' & Ht & Hbb & Hcat & Hn').
        rw_take Ht bb bufs'. apply len_pos in Hbb as Hlb. destruct (N.eqb_spec (len bb) 0) as [|_]; [lia|].
        exists bb, q', (brs_set_buf (brs_set_buf s [x :: b']) bufs'). bst.
        repeat split; auto. rewrite app_assoc, Hcat. bst. rewrite app_nil_r. reflexivity.
    + subst q'. destruct m as [|l|l]; try contradiction; cbn [read_call]; rewrite ?brs_async_read_unfold; unfold brs_poll_data, brs_poll_read, bl_remaining;
        rewrite Hb; bst; eexists _, _; reflexivity.
    + subst q'. destruct m as [|l|l]; try contradiction; cbn [read_call]; rewrite ?brs_async_read_unfold; unfold brs_poll_data, brs_poll_read, bl_remaining;
        rewrite Hb; bst; eexists _, _; reflexivity.
  - inversion Hne as [|? ? Hc Hr]; subst. destruct c as [|x c']; [congruence|]. cbn [concat app].
    destruct m as [|l|l]; try contradiction; cbn [read_call mode_ok] in *.
    + unfold brs_poll_data. rewrite Hb. exists (x :: c'), q, (brs_set_buf s rest). bst.
      repeat split; auto; try discriminate. rewrite <- app_assoc. reflexivity.
    + rewrite brs_async_read_unfold. unfold bl_remaining. rewrite Hb. cbn [concat].
      destruct (N.ltb_spec 0 (len ((x :: c') ++ concat rest))) as [_|H]; [|rewrite len_app, len_cons in H; lia].
      unfold brs_take. rewrite Hb.
      destruct (take_spec l (x :: c') rest Hm ltac:(discriminate) Hr) as (bb & bufs' & Ht & Hbb & Hcat & Hn').
      rw_take Ht bb bufs'. apply len_pos in Hbb as Hlb. destruct (N.eqb_spec (len bb) 0) as [|_]; [lia|].
      exists bb, q, (brs_set_buf s bufs'). bst.
      repeat split; auto. rewrite app_assoc, Hcat. cbn [app]. rewrite <- app_assoc. reflexivity.
Qed.

Lemma q_term_not_chunk q b : q_ok q -> q_term q <> Some (Chunk b).
Proof.
  induction q as [|[b'| |c] r IH]; cbn [q_ok q_term]; intros Hq; try discriminate.
  apply IH. tauto.
Qed.

(* the read loop delivers exactly the bytes in front of it, in order, then reports how the stream ended *)
Lemma read_loop_spec : forall fuel m q s acc, sgood s q -> mode_ok m ->
  (length (sview s q) < fuel)%nat ->
  match q_term q with
  | None =>
      exists s' out, read_loop fuel m q s acc = (None, [], s', out) /\ r_buf s' = [] /\
                     concat out = concat acc ++ sview s q
  | Some t =>
      exists q' s' out, read_loop fuel m q s acc = (Some (ending_of t), q', s', out) /\
                        concat out = concat acc ++ sview s q
  end.
Proof.
  induction fuel as [|k IH]; intros m q s acc Hg Hm Hf; [lia|].
  cbn [read_loop]. pose proof (read_call_spec m q s Hg Hm) as Hc.
  destruct (sview s q) as [|x v] eqn:Hv.
  - rewrite app_nil_r. destruct (q_term q) as [[b| |c]|] eqn:Ht.
    + exfalso. eapply q_term_not_chunk; [apply Hg|exact Ht].
    + destruct Hc as (q' & s' & ->). eexists _, _, _. split; reflexivity.
    + destruct Hc as (q' & s' & ->). eexists _, _, _. split; reflexivity.
    + destruct Hc as (s' & -> & Hb). eexists _, _. repeat split; auto.
  - destruct Hc as (b & q' & s' & -> & Hb & Hcat & Hg' & Ht').
    assert (Hf' : (length (sview s' q') < k)%nat).
    { apply (f_equal (@length N)) in Hcat. rewrite app_length in Hcat.
      destruct b; [congruence|]. cbn [length] in *. lia. }
    specialize (IH m q' s' (acc ++ [b]) Hg' Hm Hf'). rewrite Ht' in IH.
    rewrite concat_snoc, <- app_assoc, Hcat in IH. exact IH.
Qed.

Lemma read_fuel_enough q s : (length (sview s q) < read_fuel q s)%nat.
Proof. unfold read_fuel, sview. rewrite app_length. lia. Qed.

(* ------------------------------------------------------------------ the reference parser is stable under extension *)

Lemma wt_parse_extend sig tot ext :
  match wt_parse sig tot with
  | WtStream i p => wt_parse sig (tot ++ ext) = WtStream i (p ++ ext)
  | WtOtherKind t => wt_parse sig (tot ++ ext) = WtOtherKind t
  | WtIncomplete => True
  end.
Proof.
  unfold wt_parse. destruct (wt_read_varint tot) as [[t r]|] eqn:H1; [|exact I].
  rewrite (read_varint_extend _ _ _ ext H1).
  destruct (t =? sig); [|reflexivity].
  destruct (wt_read_varint r) as [[s p]|] eqn:H2; [|exact I].
  rewrite (read_varint_extend _ _ _ ext H2). reflexivity.
Qed.

Lemma needs_id_iff t : needs_id (Some t) = true <-> t = 1 \/ t = WT_UNI_TYPE.
Proof.
  unfold needs_id. change wt_second_varint_types with [1; WT_UNI_TYPE]. cbn [existsb].
  destruct (N.eqb_spec t 1); destruct (N.eqb_spec t WT_UNI_TYPE); cbn [orb]; split; intros H; auto; try discriminate.
  destruct H; contradiction.
Qed.

Definition no_stream (tot : bytes) : Prop := forall i p, wt_parse WT_UNI_TYPE tot <> WtStream i p.

Lemma type_parse_none tot :
  match type_parse None tot with
  | TReady t (Some i) rest =>
      (t = WT_UNI_TYPE /\ wt_parse WT_UNI_TYPE tot = WtStream i rest) \/ (t = 1 /\ wt_parse WT_UNI_TYPE tot = WtOtherKind t)
  | TReady t None rest => needs_id (Some t) = false /\ wt_parse WT_UNI_TYPE tot = WtOtherKind t
  | TWait1 => wt_parse WT_UNI_TYPE tot = WtIncomplete
  | TWait2 t r1 => needs_id (Some t) = true /\ wt_read_varint tot = Some (t, r1) /\ no_stream tot
  end.
Proof.
  unfold type_parse, wt_parse, no_stream.
  destruct (wt_read_varint tot) as [[t r1]|] eqn:H1; [|reflexivity].
  destruct (needs_id (Some t)) eqn:Hn.
  - apply needs_id_iff in Hn as Hn'. unfold wt_parse. rewrite H1.
    destruct (wt_read_varint r1) as [[i r2]|] eqn:H2.
    + destruct Hn' as [->| ->]; [right|left]; split; reflexivity.
    + repeat split; auto. intros i p. destruct (t =? WT_UNI_TYPE); discriminate.
  - split; [first [exact Hn | reflexivity]|]. destruct (N.eqb_spec t WT_UNI_TYPE) as [->|]; [|reflexivity].
    assert (needs_id (Some WT_UNI_TYPE) = true) by (apply needs_id_iff; auto). congruence.
Qed.

Lemma type_parse_some tot t view : needs_id (Some t) = true -> wt_read_varint tot = Some (t, view) ->
  match type_parse (Some t) view with
  | TReady t' (Some i) rest =>
      t' = t /\ ((t = WT_UNI_TYPE /\ wt_parse WT_UNI_TYPE tot = WtStream i rest) \/
                 (t = 1 /\ wt_parse WT_UNI_TYPE tot = WtOtherKind t))
  | TReady _ None _ => False
  | TWait1 => False
  | TWait2 t' r1 => t' = t /\ r1 = view /\ no_stream tot
  end.
Proof.
  intros Hn H1. apply needs_id_iff in Hn. unfold type_parse, no_stream, wt_parse. rewrite H1.
  destruct (wt_read_varint view) as [[i r2]|] eqn:H2.
  - split; [reflexivity|]. destruct Hn as [->| ->]; [right|left]; split; reflexivity.
  - repeat split; auto. intros i p. destruct (t =? WT_UNI_TYPE); discriminate.
Qed.

(* what UAccepting states satisfy, relative to everything that has arrived *)
Definition acc_inv (tot : bytes) (term : option ev) (q : list ev) (a : ars) : Prop :=
  agood a q /\ memo_ok a /\ a_id a = None /\ q_term q = term /\
  match a_ty a with
  | None => aview a q = tot
  | Some t => needs_id (Some t) = true /\ wt_read_varint tot = Some (t, aview a q)
  end.

Lemma gate_open_spec en : gate_open en = en.
Proof. destruct en; reflexivity. Qed.

Lemma into_stream_wt a i : a_ty a = Some WT_UNI_TYPE -> a_id a = Some i -> into_stream a = AcWtUni i (a_s a).
Proof. intros Ht Hi. unfold into_stream. rewrite Ht, Hi. reflexivity. Qed.

(* STOP_SENDING is sent for stream types without a meaning: an unknown type, or (if the code has an arm for it)
   type 0x54 while the extension is off *)
Definition stopped_ok (en : bool) (tot : bytes) (c : N) : Prop :=
  (c = H3_STREAM_CREATION_ERROR /\ exists t, wt_parse WT_UNI_TYPE tot = WtOtherKind t) \/
  (en = false /\ exists i p, wt_parse WT_UNI_TYPE tot = WtStream i p).

Lemma route_spec en tot term q a : acc_inv tot term q a ->
  match route_uni en q a with
  | (RtPending a', q') => term = None /\ q' = [] /\ acc_inv tot term [] a' /\ no_stream tot
  | (RtSurfaced i s, q') =>
      en = true /\ sgood s q' /\ q_term q' = term /\ wf_bytes (sview s q') /\
      wt_parse WT_UNI_TYPE tot = WtStream i (sview s q')
  | (RtRemoved, _) => term <> None /\ no_stream tot
  | (RtDropped, _) => en = false /\ exists i p, wt_parse WT_UNI_TYPE tot = WtStream i p
  | (RtStopped c, _) => stopped_ok en tot c
  | (RtOther t, _) => wt_parse WT_UNI_TYPE tot = WtOtherKind t
  | (RtConnError _, _) => False
  | (RtPanic _, _) => False
  end.
Proof.
  intros (Hg & Hm & Hid & Hterm & Hty).
  assert (Hneeds : forall t, a_ty a = Some t -> needs_id (Some t) = true).
  { intros t Ht. rewrite Ht in Hty. tauto. }
  pose proof (poll_type_spec q a Hg Hm Hid Hneeds) as Hp. unfold route_uni.
  assert (Hnostream : forall T : Prop, wt_parse WT_UNI_TYPE tot = WtIncomplete -> no_stream tot).
  { intros _ H i p. rewrite H. discriminate. }
  destruct (a_ty a) as [t0|] eqn:Eta.
  - (* type known, id missing *)
    destruct Hty as [Hn H1]. pose proof (type_parse_some tot t0 (aview a q) Hn H1) as Htp.
    destruct (type_parse (Some t0) (aview a q)) as [t [i|] rest| |t r1].
    + destruct Hp as (q' & a' & -> & Ht' & Hi' & Hv' & Hg' & Hq').
      destruct Htp as [-> [[-> Hw]|[-> Hw]]].
      * rewrite (into_stream_wt a' i Ht' Hi'). rewrite gate_open_spec.
        destruct en; [|destruct wt_disabled_stops; [right; split; [reflexivity|eauto]|split; [reflexivity|eauto]]].
        unfold sview, sgood. unfold agood, aview in *. subst rest.
        repeat split; try tauto; congruence.
      * unfold into_stream. rewrite Ht'. cbn. exact Hw.
    + contradiction.
    + contradiction.
    + destruct Htp as (-> & -> & Hns). rewrite Hterm in Hp. destruct term.
      * destruct Hp as (q' & a' & ->). split; [discriminate|exact Hns].
      * destruct Hp as (a' & -> & Ht' & Hi' & Hv' & Hg' & Hm').
        repeat split; auto; try apply Hg'. rewrite Ht'. split; [exact Hn|]. rewrite Hv'. exact H1.
  - pose proof (type_parse_none tot) as Htp. rewrite Hty in Hp.
    destruct (type_parse None tot) as [t [i|] rest| |t r1].
    + destruct Hp as (q' & a' & -> & Ht' & Hi' & Hv' & Hg' & Hq').
      destruct Htp as [[-> Hw]|[-> Hw]].
      * rewrite (into_stream_wt a' i Ht' Hi'). rewrite gate_open_spec.
        destruct en; [|destruct wt_disabled_stops; [right; split; [reflexivity|eauto]|split; [reflexivity|eauto]]].
        unfold sview, sgood. unfold agood, aview in *. subst rest.
        repeat split; try tauto; congruence.
      * unfold into_stream. rewrite Ht'. cbn. exact Hw.
    + destruct Hp as (q' & a' & -> & Ht' & Hi' & Hv' & Hg' & Hq').
      destruct Htp as [Hn Hw]. unfold into_stream. rewrite Ht', Hi'.
      change wt_st_control with 0. change wt_st_push with 1. change wt_st_encoder with 2.
      change wt_st_decoder with 3. change wt_into_stream_type with WT_UNI_TYPE.
      destruct (N.eqb_spec t 0) as [->|]; [exact Hw|].
      destruct (N.eqb_spec t 1) as [->|]; [exact Hw|].
      destruct (N.eqb_spec t 2) as [->|]; [exact Hw|].
      destruct (N.eqb_spec t 3) as [->|]; [exact Hw|].
      destruct (N.eqb_spec t WT_UNI_TYPE) as [->|].
      * assert (needs_id (Some WT_UNI_TYPE) = true) by (apply needs_id_iff; auto). congruence.
      * left. split; [reflexivity|eauto].
    + rewrite Hterm in Hp. destruct term.
      * destruct Hp as (q' & a' & ->). split; [discriminate|]. apply (Hnostream True Htp).
      * destruct Hp as (a' & -> & Ht' & Hi' & Hv' & Hg' & Hm').
        repeat split; auto; try apply Hg'; try apply (Hnostream True Htp). rewrite Ht'. congruence.
    + destruct Htp as (Hn & H1 & Hns). rewrite Hterm in Hp. destruct term.
      * destruct Hp as (q' & a' & ->). split; [discriminate|exact Hns].
      * destruct Hp as (a' & -> & Ht' & Hi' & Hv' & Hg' & Hm').
        repeat split; auto; try apply Hg'. rewrite Ht'. split; [exact Hn|]. rewrite Hv'. exact H1.
Qed.

(* ------------------------------------------------------------------ the uni-stream application: invariant *)

Lemma q_ok_snoc_chunk q b : q_ok q -> q_term q = None -> b <> [] -> q_ok (q ++ [Chunk b]).
Proof.
  induction q as [|[b'| |c] r IH]; cbn [q_ok q_term app]; intros Hq Ht Hb; try discriminate; auto.
  split; [tauto|]. apply IH; tauto.
Qed.
Lemma q_ok_snoc_term q t : q_ok q -> q_term q = None -> (forall b, t <> Chunk b) -> q_ok (q ++ [t]).
Proof.
  induction q as [|[b'| |c] r IH]; cbn [q_ok q_term app]; intros Hq Ht Hb; try discriminate.
  - destruct t; auto. exfalso. eapply Hb. reflexivity.
  - split; [tauto|]. apply IH; tauto.
Qed.
Lemma q_term_snoc_chunk q b : q_term q = None -> q_term (q ++ [Chunk b]) = None.
Proof. induction q as [|[b'| |c] r IH]; cbn [q_term app]; intros Ht; try discriminate; auto. Qed.
Lemma q_term_snoc_term q t : q_term q = None -> (forall b, t <> Chunk b) -> q_term (q ++ [t]) = Some t.
Proof.
  induction q as [|[b'| |c] r IH]; cbn [q_term app]; intros Ht Hb; try discriminate; auto.
  destruct t; auto. exfalso. eapply Hb. reflexivity.
Qed.
Lemma ev_bytes_app q1 q2 : ev_bytes (q1 ++ q2) = ev_bytes q1 ++ ev_bytes q2.
Proof.
  induction q1 as [|[b| |c] r IH]; cbn [ev_bytes app]; auto. rewrite IH, app_assoc. reflexivity.
Qed.

Definition is_term (t : ev) : Prop := forall b, t <> Chunk b.

Definition uinv (en : bool) (tot : bytes) (term : option ev) (st : uapp) : Prop :=
  wf_bytes tot /\
  match u_ph st with
  | UAccepting a => acc_inv tot term (u_q st) a /\ u_out st = []
  | UReading i s =>
      sgood s (u_q st) /\ q_term (u_q st) = term /\ en = true /\
      wt_parse WT_UNI_TYPE tot = WtStream i (concat (u_out st) ++ sview s (u_q st))
  | UEnded i e =>
      en = true /\ (exists t, term = Some t /\ e = ending_of t) /\
      wt_parse WT_UNI_TYPE tot = WtStream i (concat (u_out st))
  | UNever r =>
      u_out st = [] /\
      match r with
      | RtRemoved => term <> None /\ no_stream tot
      | RtDropped => en = false /\ exists i p, wt_parse WT_UNI_TYPE tot = WtStream i p
      | RtStopped c => stopped_ok en tot c
      | RtOther t => wt_parse WT_UNI_TYPE tot = WtOtherKind t
      | _ => False
      end
  end.

(* after a poll nothing that could be processed is left lying around *)
Definition uquiet (tot : bytes) (st : uapp) : Prop :=
  match u_ph st with
  | UAccepting _ => u_q st = [] /\ no_stream tot
  | UReading _ s => u_q st = [] /\ r_buf s = []
  | _ => True
  end.

Lemma uinv_init en : uinv en [] None uapp_init.
Proof.
  split; [constructor|]. cbn. repeat split; try constructor; auto.
Qed.

Lemma uinv_chunk en m tot st b : uinv en tot None st -> b <> [] -> wf_bytes b ->
  uinv en (tot ++ b) None (uni_step en m st (Arrive (Chunk b))).
Proof.
  intros [Hwf H] Hb Hwb. split; [apply wf_bytes_app; auto|].
  cbn [uni_step u_q u_ph u_out]. destruct (u_ph st) as [a|i s|i e|r].
  - destruct H as [(Hg & Hm & Hid & Hterm & Hty) Ho]. split; [|exact Ho].
    destruct Hg as (Hne & Hq & Hwv).
    assert (Hview : aview a (u_q st ++ [Chunk b]) = aview a (u_q st) ++ b).
    { unfold aview. rewrite ev_bytes_app. cbn [ev_bytes]. rewrite app_nil_r, app_assoc. reflexivity. }
    repeat split; auto.
    + apply q_ok_snoc_chunk; auto.
    + rewrite Hview. apply wf_bytes_app; auto.
    + apply q_term_snoc_chunk; auto.
    + destruct (a_ty a) as [t|].
      * destruct Hty as [Hn H1]. split; [exact Hn|]. rewrite Hview. apply read_varint_extend. exact H1.
      * rewrite Hview. congruence.
  - destruct H as ((Hne & Hq) & Hterm & Hen & Hp).
    repeat split; auto.
    + apply q_ok_snoc_chunk; auto.
    + apply q_term_snoc_chunk; auto.
    + pose proof (wt_parse_extend WT_UNI_TYPE tot b) as He. rewrite Hp in He. rewrite He.
      f_equal. unfold sview. rewrite ev_bytes_app. cbn [ev_bytes]. rewrite app_nil_r, <- !app_assoc. reflexivity.
  - destruct H as (_ & (t & Ht & _) & _). discriminate.
  - destruct H as [Ho H]. split; [exact Ho|]. destruct r; auto.
    + destruct H as [H _]. congruence.
    + destruct H as [He (i & p & Hp)]. split; [exact He|].
      pose proof (wt_parse_extend WT_UNI_TYPE tot b) as Hx. rewrite Hp in Hx. eauto.
    + destruct H as [[He (t & Hp)]|[He (i & p & Hp)]]; [left|right]; (split; [exact He|]);
        pose proof (wt_parse_extend WT_UNI_TYPE tot b) as Hx; rewrite Hp in Hx; eauto.
    + pose proof (wt_parse_extend WT_UNI_TYPE tot b) as Hx. rewrite H in Hx. exact Hx.
Qed.

Lemma uinv_term en m tot st t : uinv en tot None st -> is_term t ->
  uinv en tot (Some t) (uni_step en m st (Arrive t)).
Proof.
  intros [Hwf H] Ht. split; [exact Hwf|].
  cbn [uni_step u_q u_ph u_out]. destruct (u_ph st) as [a|i s|i e|r].
  - destruct H as [(Hg & Hm & Hid & Hterm & Hty) Ho]. split; [|exact Ho].
    destruct Hg as (Hne & Hq & Hwv).
    assert (Hview : aview a (u_q st ++ [t]) = aview a (u_q st)).
    { unfold aview. rewrite ev_bytes_app. destruct t; cbn [ev_bytes]; try rewrite app_nil_r; auto.
      exfalso. eapply Ht. reflexivity. }
    repeat split; auto.
    + apply q_ok_snoc_term; auto.
    + rewrite Hview. exact Hwv.
    + apply q_term_snoc_term; auto.
    + rewrite Hview. exact Hty.
  - destruct H as ((Hne & Hq) & Hterm & Hen & Hp).
    repeat split; auto.
    + apply q_ok_snoc_term; auto.
    + apply q_term_snoc_term; auto.
    + rewrite Hp. f_equal. unfold sview. rewrite ev_bytes_app.
      destruct t; cbn [ev_bytes]; try rewrite app_nil_r; auto. exfalso. eapply Ht. reflexivity.
  - destruct H as (_ & (t' & Ht' & _) & _). discriminate.
  - destruct H as [Ho H]. split; [exact Ho|]. destruct r; auto.
    destruct H as [H _]. congruence.
Qed.

Lemma uni_read_inv en m tot term i q s acc : mode_ok m -> wf_bytes tot ->
  sgood s q -> q_term q = term -> en = true ->
  wt_parse WT_UNI_TYPE tot = WtStream i (concat acc ++ sview s q) ->
  uinv en tot term (uni_read m i q s acc) /\ uquiet tot (uni_read m i q s acc).
Proof.
  intros Hm Hwf Hg Hterm Hen Hp. unfold uni_read.
  pose proof (read_loop_spec (read_fuel q s) m q s acc Hg Hm (read_fuel_enough q s)) as Hr.
  rewrite Hterm in Hr. destruct term as [t|].
  - destruct Hr as (q' & s' & out & -> & Hcat). split; [|exact I].
    split; [exact Hwf|]. cbn [u_ph u_out]. repeat split; auto; [eauto|]. rewrite Hcat. exact Hp.
  - destruct Hr as (s' & out & -> & Hb & Hcat). split.
    + split; [exact Hwf|]. cbn [u_ph u_out u_q]. unfold sgood, sview. rewrite Hb. cbn [concat ev_bytes app q_term q_ok].
      repeat split; auto; try constructor. rewrite app_nil_r, Hcat. exact Hp.
    + cbn. auto.
Qed.

Lemma uinv_poll en m tot term st : mode_ok m -> uinv en tot term st ->
  uinv en tot term (uni_poll en m st) /\ uquiet tot (uni_poll en m st).
Proof.
  intros Hm [Hwf H]. unfold uni_poll. destruct (u_ph st) as [a|i s|i e|r] eqn:Eph.
  - destruct H as [Hacc Ho]. pose proof (route_spec en tot term (u_q st) a Hacc) as Hr.
    destruct (route_uni en (u_q st) a) as [[a'| |c|i s| |c|t|p] q'].
    + destruct Hr as (Ht & -> & Hacc' & Hns). split; [split; [exact Hwf|]|unfold uquiet]; cbn [u_ph u_q u_out]; auto.
    + split; [|exact I]. split; [exact Hwf|]. cbn [u_ph u_out]. auto.
    + contradiction.
    + destruct Hr as (Hen & Hg & Ht & Hwv & Hp). rewrite Ho.
      apply uni_read_inv; auto.
    + split; [|exact I]. split; [exact Hwf|]. cbn [u_ph u_out]. auto.
    + split; [|exact I]. split; [exact Hwf|]. cbn [u_ph u_out]. auto.
    + split; [|exact I]. split; [exact Hwf|]. cbn [u_ph u_out]. auto.
    + contradiction.
  - destruct H as (Hg & Ht & Hen & Hp). apply uni_read_inv; auto.
  - split; [|unfold uquiet; rewrite Eph; exact I]. split; [exact Hwf|]. rewrite Eph. exact H.
  - split; [|unfold uquiet; rewrite Eph; exact I]. split; [exact Hwf|]. rewrite Eph. exact H.
Qed.

(* ------------------------------------------------------------------ histories *)

Fixpoint arrived_bytes (h : list item) : bytes :=
  match h with
  | [] => []
  | Arrive (Chunk b) :: r => b ++ arrived_bytes r
  | _ :: r => arrived_bytes r
  end.
Fixpoint arrived_term (h : list item) : option ev :=
  match h with
  | [] => None
  | Arrive (Chunk _) :: r => arrived_term r
  | Arrive t :: _ => Some t
  | Poll :: r => arrived_term r
  end.
Definition only_polls (h : list item) : Prop := Forall (fun it => it = Poll) h.
(* the transport contract on what arrives: chunks are non-empty byte strings, nothing follows FIN / RESET;
   polls may happen anywhere, any number of times *)
Fixpoint h_ok (h : list item) : Prop :=
  match h with
  | [] => True
  | Poll :: r => h_ok r
  | Arrive (Chunk b) :: r => b <> [] /\ wf_bytes b /\ h_ok r
  | Arrive _ :: r => only_polls r
  end.
Definition end_of (t : option ev) : wt_end :=
  match t with Some Fin => WtFin | Some (Reset c) => WtReset c | _ => WtOpen end.

Lemma only_polls_facts h : only_polls h -> arrived_bytes h = [] /\ arrived_term h = None.
Proof.
  induction h as [|it r IH]; intros H; [auto|]. inversion H as [|? ? Hit Hr]; subst. cbn. auto.
Qed.

Lemma uinv_polls en m tot term : mode_ok m -> forall h st, only_polls h -> uinv en tot term st ->
  uinv en tot term (fold_left (uni_step en m) h st).
Proof.
  intros Hm. induction h as [|it r IH]; intros st Hp Hi; [exact Hi|].
  inversion Hp as [|? ? Hit Hr]; subst. cbn [fold_left uni_step]. apply IH; [exact Hr|].
  apply uinv_poll; assumption.
Qed.

Lemma uinv_run en m : mode_ok m -> forall h st tot, uinv en tot None st -> h_ok h ->
  uinv en (tot ++ arrived_bytes h) (arrived_term h) (fold_left (uni_step en m) h st).
Proof.
  intros Hm. induction h as [|[[b| |c]|] r IH]; intros st tot Hi Hh; cbn [fold_left arrived_bytes arrived_term h_ok] in *.
  - rewrite app_nil_r. exact Hi.
  - destruct Hh as (Hb & Hwb & Hr). rewrite app_assoc. apply IH; [|exact Hr]. apply uinv_chunk; assumption.
  - destruct (only_polls_facts r Hh) as [-> _]. rewrite app_nil_r.
    apply uinv_polls; [exact Hm|exact Hh|]. apply uinv_term; [exact Hi|]. intros b; discriminate.
  - destruct (only_polls_facts r Hh) as [-> _]. rewrite app_nil_r.
    apply uinv_polls; [exact Hm|exact Hh|]. apply uinv_term; [exact Hi|]. intros b; discriminate.
  - apply IH; [|exact Hh]. apply uinv_poll; assumption.
Qed.

(* what the application task has seen of the stream *)
Inductive seen :=
| SeenStream (session : N) (data : bytes) (e : wt_end)
| SeenNothing                    (* not surfaced; h3 neither closed the connection nor sent STOP_SENDING *)
| SeenStopped (code : N)         (* not surfaced; STOP_SENDING(code) *)
| SeenOther                      (* a control / push / QPACK stream *)
| SeenBad.                       (* connection error or panic *)

Definition seen_end (e : ending) : option wt_end :=
  match e with EFin => Some WtFin | EReset c => Some (WtReset c) | _ => None end.

Definition uni_seen (st : uapp) : seen :=
  match u_ph st with
  | UAccepting _ => SeenNothing
  | UReading i _ => SeenStream i (concat (u_out st)) WtOpen
  | UEnded i e => match seen_end e with Some w => SeenStream i (concat (u_out st)) w | None => SeenBad end
  | UNever RtRemoved => SeenNothing
  | UNever RtDropped => SeenNothing
  | UNever (RtStopped c) => SeenStopped c
  | UNever (RtOther _) => SeenOther
  | UNever _ => SeenBad
  end.

(* what the property allows for a stream that must not be surfaced: it is not surfaced and there is no connection
   error (whether h3 also sends STOP_SENDING for it is not constrained) *)
Definition not_surfaced_no_error (s : seen) : Prop := s = SeenNothing \/ exists c, s = SeenStopped c.

(* T3 + T4 + T5 for unidirectional streams, against the flat-bytes specification: for EVERY history (any
   chunking, polls anywhere) that ends with a poll, the application has seen exactly what the specification
   says for the bytes and the ending that arrived *)
Theorem uni_run_spec : forall en m h, mode_ok m -> h_ok h ->
  let st := uni_run en m (h ++ [Poll]) in
  match wt_expect_uni en (arrived_bytes h) (end_of (arrived_term h)) with
  | ObsStream s p e => uni_seen st = SeenStream s p e
  | ObsNothing => not_surfaced_no_error (uni_seen st)
  | ObsUnconstrained => uni_seen st = SeenStopped H3_STREAM_CREATION_ERROR \/ uni_seen st = SeenOther \/ uni_seen st = SeenNothing
  end.
Proof.
  intros en m h Hm Hh st.
  pose proof (uinv_run en m Hm h uapp_init [] (uinv_init en) Hh) as Hi. cbn [app] in Hi.
  assert (Hst : st = uni_poll en m (fold_left (uni_step en m) h uapp_init)).
  { unfold st, uni_run. rewrite fold_left_app. reflexivity. }
  destruct (uinv_poll en m _ _ _ Hm Hi) as [[Hwf Hinv] Hq]. rewrite <- Hst in Hinv, Hq.
  set (tot := arrived_bytes h) in *. set (term := arrived_term h) in *.
  unfold wt_expect_uni, uni_seen, uquiet, no_stream in *.
  destruct (u_ph st) as [a|i s|i e|r].
  - (* still accepting: no complete header arrived, and the stream has not ended *)
    destruct Hq as [Hq0 Hns]. destruct Hinv as [(Hg & _ & _ & Hterm & _) _]. rewrite Hq0 in Hterm. cbn in Hterm.
    destruct (wt_parse WT_UNI_TYPE tot) as [s p| |t] eqn:Hp; auto; try (left; reflexivity).
    exfalso. eapply Hns. reflexivity.
  - destruct Hq as [Hq0 Hb]. destruct Hinv as (_ & Hterm & Hen & Hp). rewrite Hq0 in Hterm, Hp. cbn in Hterm.
    unfold sview in Hp. rewrite Hb in Hp. cbn [concat ev_bytes app] in Hp. rewrite app_nil_r in Hp.
    rewrite Hp, Hen, <- Hterm. reflexivity.
  - destruct Hinv as (Hen & (t & Ht & ->) & Hp). rewrite Hp, Hen, Ht.
    assert (Hok : is_term t).
    { clear - Ht Hh. subst term. intros b ->. induction h as [|[[b'| |c]|] r IH]; cbn in *; try discriminate; tauto. }
    destruct t as [b| |c]; [exfalso; eapply Hok; reflexivity| |]; reflexivity.
  - destruct Hinv as [_ Hr]. destruct r as [a'| |c|i s| |c|t|p]; try contradiction.
    + destruct Hr as [Ht Hns]. destruct (wt_parse WT_UNI_TYPE tot) as [s p| |t] eqn:Hp; auto; try (left; reflexivity).
      exfalso. eapply Hns. reflexivity.
    + destruct Hr as [Hen (i & p & Hp)]. rewrite Hp, Hen. left. reflexivity.
    + destruct Hr as [[-> (t & Hp)]|[Hen (i & p & Hp)]]; rewrite Hp.
      * auto.
      * rewrite Hen. right. eauto.
    + rewrite Hr. auto.
Qed.

(* ================================================================== bidirectional streams *)

Lemma read_varint_big v x r : wt_read_varint v = Some (x, r) -> 64 <= x -> len r + 2 <= len v.
Proof.
  destruct v as [|b0 r0]; [discriminate|]. rewrite read_varint_cons.
  destruct (N.ltb_spec (len (b0 :: r0)) (rfc_vi_len b0)) as [|Hle]; [discriminate|].
  intros H Hx. injection H as Hv <-. rewrite len_skipn'.
  assert (Hl : 2 <= rfc_vi_len b0).
  { unfold rfc_vi_len. destruct (N.eq_dec (b0 / 64) 0) as [Hz|Hz].
    - exfalso. unfold rfc_vi_len in Hv. rewrite Hz in Hv. change (N.to_nat (2 ^ 0)) with 1%nat in Hv.
      cbn [firstn] in Hv. unfold rfc_vi_value, be_value, len in Hv. cbn [be_acc length] in Hv.
      change (8 * N.of_nat 1 - 2) with 6 in Hv. change (2 ^ 6) with 64 in Hv. lia.
    - replace (b0 / 64) with (N.succ (b0 / 64 - 1)) by lia. rewrite N.pow_succ_r'.
      pose proof (N.pow_nonzero 2 (b0 / 64 - 1)). lia. }
  lia.
Qed.

Lemma parse_nil sig : wt_parse sig [] = WtIncomplete.
Proof. reflexivity. Qed.

Lemma parse_stream_split sig v s p : wt_parse sig v = WtStream s p -> exists e, v = e ++ p.
Proof.
  unfold wt_parse. destruct (wt_read_varint v) as [[t r]|] eqn:E1; [|discriminate].
  destruct (t =? sig); [|discriminate].
  destruct (wt_read_varint r) as [[s' p']|] eqn:E2; [|discriminate].
  intros H. injection H as <- <-.
  destruct (read_varint_split _ _ _ E1) as (e1 & Hv & _). destruct (read_varint_split _ _ _ E2) as (e2 & Hr & _).
  exists (e1 ++ e2). rewrite <- app_assoc, <- Hr. exact Hv.
Qed.

Lemma frame_decode_head_spec v : wf_bytes v ->
  match wt_parse WT_BIDI_SIGNAL v with
  | WtStream s p => frame_decode_head v = FdWt s (len v - len p) /\ len p <= len v /\ wf_bytes p
  | WtOtherKind t => frame_decode_head v = FdOther t
  | WtIncomplete => exists m, frame_decode_head v = FdIncomplete m /\ m <= len v + 1
  end.
Proof.
  intros Hwf. unfold wt_parse, frame_decode_head. change wt_frame_checked with WT_BIDI_SIGNAL.
  change wt_frame_type_incomplete_add with 1.
  pose proof (vi_decode_read v Hwf) as H1.
  destruct (wt_read_varint v) as [[t r]|] eqn:E1.
  - rewrite H1. destruct (N.eqb_spec t WT_BIDI_SIGNAL) as [->|]; [|reflexivity].
    assert (Hwr : wf_bytes r).
    { rewrite <- (app_nil_r r). eapply wf_rest; [exact E1|rewrite app_nil_r; exact Hwf]. }
    pose proof (vi_decode_read r Hwr) as H2.
    pose proof (read_varint_big v _ r E1 ltac:(vm_compute; discriminate)) as Hbig.
    destruct (wt_read_varint r) as [[s p]|] eqn:E2.
    + rewrite H2. split; [reflexivity|]. pose proof (read_varint_shorter _ _ _ E2). split; [lia|].
      rewrite <- (app_nil_r p). eapply wf_rest; [exact E2|rewrite app_nil_r; exact Hwr].
    + destruct H2 as (k & r' & -> & Hk). exists k. split; [reflexivity|lia].
  - destruct H1 as (k & r' & -> & _). eexists. split; [reflexivity|lia].
Qed.

Definition fbuf (f : fs) : bytes := concat (r_buf (f_s f)).
Definition fview (f : fs) (q : list ev) : bytes := fbuf f ++ ev_bytes q.
Definition memo_stored (f : fs) : Prop :=
  forall m, f_exp f = Some m -> m <= len (fbuf f) + 1 /\ wt_parse WT_BIDI_SIGNAL (fbuf f) = WtIncomplete.
Definition memo_pre (f : fs) : Prop :=
  forall m, f_exp f = Some m ->
    (m <= len (fbuf f) + 1 /\ wt_parse WT_BIDI_SIGNAL (fbuf f) = WtIncomplete) \/ m <= len (fbuf f).

Ltac fst_ := cbn [f_s f_exp f_rem fs_set_s fs_set_exp fs_set_rem r_buf r_eos brs_set_buf brs_set_eos] in *.

Lemma fs_decode_spec f : nonempty (r_buf (f_s f)) -> wf_bytes (fbuf f) -> memo_pre f ->
  match wt_parse WT_BIDI_SIGNAL (fbuf f) with
  | WtStream s p =>
      exists f', fs_decode f = (DWt s, f') /\ fbuf f' = p /\ nonempty (r_buf (f_s f')) /\
                 r_eos (f_s f') = r_eos (f_s f) /\ f_rem f' = f_rem f /\ wf_bytes p
  | WtOtherKind t => fs_decode f = (DOther t, f)
  | WtIncomplete =>
      exists f', fs_decode f = (DNone, f') /\ f_s f' = f_s f /\ f_rem f' = f_rem f /\ memo_stored f'
  end.
Proof.
  intros Hne Hwf Hmp. unfold fbuf in *. pose proof (frame_decode_head_spec _ Hwf) as Hd.
  unfold fs_decode, bl_remaining.
  destruct (N.eqb_spec (len (concat (r_buf (f_s f)))) 0) as [Hz|Hnz].
  - (* empty buffer *)
    apply len_nil in Hz. rewrite Hz in *. rewrite parse_nil. exists f. split; [reflexivity|split; [reflexivity|split; [reflexivity|]]].
    intros m Hm. unfold fbuf. rewrite Hz. destruct (Hmp m Hm) as [H|H]; unfold fbuf in H; rewrite Hz in H.
    + exact H.
    + change (len []) with 0 in *. split; [lia|reflexivity].
  - set (blocked := match f_exp f with Some min => len (concat (r_buf (f_s f))) <? min | None => false end).
    destruct blocked eqn:Eb; unfold blocked in Eb.
    + (* the memo says: not enough bytes yet.  It is right. *)
      destruct (f_exp f) as [m|] eqn:Ee; [|discriminate].
      destruct (N.ltb_spec (len (concat (r_buf (f_s f)))) m) as [Hlt|]; [|discriminate].
      destruct (Hmp m Ee) as [[Hm1 Hinc]|H]; [|unfold fbuf in H; lia].
      unfold fbuf in Hinc. rewrite Hinc. exists f. split; [reflexivity|split; [reflexivity|split; [reflexivity|]]].
      intros m' Hm'. rewrite Ee in Hm'. injection Hm' as <-. unfold fbuf. auto.
    + destruct (wt_parse WT_BIDI_SIGNAL (concat (r_buf (f_s f)))) as [s p| |t] eqn:Hp.
      * destruct Hd as (-> & Hlp & Hwp).
        destruct (bl_advance_spec _ (len (concat (r_buf (f_s f))) - len p) Hne ltac:(lia)) as (bufs' & -> & Hc & Hn').
        eexists. split; [reflexivity|]. unfold fbuf. fst_. repeat split; auto.
        rewrite Hc. destruct (parse_stream_split _ _ _ _ Hp) as (e & He). rewrite He at 2.
        replace (N.to_nat (len (concat (r_buf (f_s f))) - len p)) with (length e).
        -- apply skipn_app_exact.
        -- rewrite He, len_app. unfold len. lia.
      * destruct Hd as (m' & -> & Hm'). eexists. split; [reflexivity|]. fst_. split; [reflexivity|split; [reflexivity|]].
        intros m'' E. unfold fbuf. fst_. injection E as <-. auto.
      * rewrite Hd. reflexivity.
Qed.

(* what BAccepting states satisfy (between polls the buffer never holds a complete header) *)
Definition finv (f : fs) (q : list ev) : Prop :=
  nonempty (r_buf (f_s f)) /\ q_ok q /\ wf_bytes (fview f q) /\ memo_stored f /\
  r_eos (f_s f) = false /\ f_rem f = 0 /\ wt_parse WT_BIDI_SIGNAL (fbuf f) = WtIncomplete.

Lemma finv_intro f q :
  nonempty (r_buf (f_s f)) -> q_ok q -> wf_bytes (fview f q) -> memo_stored f ->
  r_eos (f_s f) = false -> f_rem f = 0 -> wt_parse WT_BIDI_SIGNAL (fbuf f) = WtIncomplete -> finv f q.
Proof. unfold finv. tauto. Qed.

Lemma memo_stored_pre f : memo_stored f -> memo_pre f.
Proof. intros H m Hm. left. apply H. exact Hm. Qed.

Lemma fs_loop_spec : forall q f, finv f q ->
  match wt_parse WT_BIDI_SIGNAL (fview f q) with
  | WtStream s p =>
      exists q' f', fs_next_loop q f = (PnWt s, q', f') /\ sview (f_s f') q' = p /\ sgood (f_s f') q' /\
                    q_term q' = q_term q
  | WtOtherKind t => exists q' f', fs_next_loop q f = (PnOther t, q', f')
  | WtIncomplete =>
      match q_term q with
      | None => exists f', fs_next_loop q f = (PnPending, [], f') /\ finv f' [] /\ fview f' [] = fview f q
      | Some (Reset c) => exists q' f', fs_next_loop q f = (PnQuic c, q', f')
      | Some _ => exists r q' f', fs_next_loop q f = (r, q', f') /\ (r = PnEndNone \/ r = PnUnexpectedEnd)
      end
  end.
Proof.
  induction q as [|e q IH]; intros f (Hne & Hq & Hwf & Hms & Heos & Hrem & Hinc).
  - (* nothing queued: decode what is buffered (incomplete), then Pending *)
    unfold fview in *. cbn [ev_bytes q_term] in *. rewrite app_nil_r in *. rewrite Hinc.
    cbn [fs_next_loop]. rewrite Heos.
    pose proof (fs_decode_spec f Hne Hwf (memo_stored_pre f Hms)) as Hd. rewrite Hinc in Hd.
    destruct Hd as (f' & -> & Hs & Hr & Hms'). cbn [pn_of_decode].
    exists f'. split; [reflexivity|]. split.
    + apply finv_intro; auto; unfold fview, fbuf; rewrite ?Hs, ?Hr; cbn [ev_bytes q_ok]; rewrite ?app_nil_r; auto.
    + unfold fview, fbuf. rewrite Hs. cbn [ev_bytes]. rewrite app_nil_r. reflexivity.
  - destruct e as [b| |c].
    + (* a chunk: buffered, then decoded *)
      cbn [q_ok] in Hq. destruct Hq as [Hb Hq]. cbn [fs_next_loop q_term]. rewrite Heos.
      apply len_pos in Hb as Hlb. destruct (N.eqb_spec (len b) 0) as [|_]; [lia|].
      set (f1 := fs_set_s f (brs_set_buf (f_s f) (r_buf (f_s f) ++ [b]))).
      assert (Hb1 : fbuf f1 = fbuf f ++ b) by (unfold fbuf, f1; fst_; apply concat_snoc).
      assert (Hv1 : fview f1 q = fview f (Chunk b :: q)).
      { unfold fview. rewrite Hb1. cbn [ev_bytes]. rewrite app_assoc. reflexivity. }
      assert (Hne1 : nonempty (r_buf (f_s f1))).
      { unfold f1. fst_. apply nonempty_app. split; [exact Hne|]. constructor; [apply len_pos; exact Hlb|constructor]. }
      assert (Hwf1 : wf_bytes (fbuf f1)).
      { rewrite <- Hv1 in Hwf. unfold fview in Hwf. apply wf_bytes_app in Hwf. tauto. }
      assert (Hmp1 : memo_pre f1).
      { intros m Hm. right. change (f_exp f1) with (f_exp f) in Hm. destruct (Hms m Hm) as [H _].
        rewrite Hb1, len_app. lia. }
      pose proof (fs_decode_spec f1 Hne1 Hwf1 Hmp1) as Hd.
      pose proof (wt_parse_extend WT_BIDI_SIGNAL (fbuf f1) (ev_bytes q)) as Hext.
      rewrite <- Hv1. unfold fview at 1.
      destruct (wt_parse WT_BIDI_SIGNAL (fbuf f1)) as [s p| |t] eqn:Hp1.
      * rewrite Hext. destruct Hd as (f' & -> & Hb' & Hn' & _ & _ & _). cbn [pn_of_decode].
        eexists q, _. split; [reflexivity|]. unfold sview, sgood, fbuf in *. fst_. rewrite Hb'. auto.
      * destruct Hd as (f' & -> & Hs & Hr & Hms').
        assert (Hf' : finv f' q).
        { apply finv_intro; auto; unfold fview, fbuf in *; rewrite ?Hs, ?Hr; auto.
          rewrite <- Hv1 in Hwf. exact Hwf. }
        assert (Hv' : fview f' q = fview f1 q) by (unfold fview, fbuf; rewrite Hs; reflexivity).
        specialize (IH f' Hf'). rewrite Hv' in IH. unfold fview in IH. exact IH.
      * rewrite Hext. rewrite Hd. cbn [pn_of_decode]. eexists _, _. reflexivity.
    + (* FIN *)
      cbn [q_ok] in Hq. subst q. unfold fview in *. cbn [ev_bytes q_term] in *. rewrite app_nil_r in *. rewrite Hinc.
      cbn [fs_next_loop]. rewrite Heos.
      set (f1 := fs_set_s f (brs_set_eos (f_s f))).
      pose proof (fs_decode_spec f1 Hne Hwf (memo_stored_pre f1 Hms)) as Hd.
      change (fbuf f1) with (fbuf f) in Hd. rewrite Hinc in Hd.
      destruct Hd as (f' & -> & Hs & Hr & Hms'). cbn [pn_of_decode].
      destruct (0 <? bl_remaining (r_buf (f_s f'))); eexists _, _, _; split; try reflexivity; auto.
    + cbn [q_ok] in Hq. subst q. unfold fview in *. cbn [ev_bytes q_term] in *. rewrite app_nil_r in *. rewrite Hinc.
      cbn [fs_next_loop]. rewrite Heos. eexists _, _. reflexivity.
Qed.

(* ------------------------------------------------------------------ the bidi-stream application: invariant *)

Definition binv (tot : bytes) (term : option ev) (st : bapp) : Prop :=
  wf_bytes tot /\
  match b_ph st with
  | BAccepting f => finv f (b_q st) /\ fview f (b_q st) = tot /\ q_term (b_q st) = term /\ b_out st = []
  | BReading i s =>
      sgood s (b_q st) /\ q_term (b_q st) = term /\
      wt_parse WT_BIDI_SIGNAL tot = WtStream i (concat (b_out st) ++ sview s (b_q st))
  | BEnded i e =>
      (exists t, term = Some t /\ e = ending_of t) /\ wt_parse WT_BIDI_SIGNAL tot = WtStream i (concat (b_out st))
  | BNotWt r =>
      b_out st = [] /\
      match r with
      | PnOther t => wt_parse WT_BIDI_SIGNAL tot = WtOtherKind t
      | PnEndNone | PnUnexpectedEnd | PnQuic _ => term <> None /\ wt_parse WT_BIDI_SIGNAL tot = WtIncomplete
      | _ => False
      end
  end.

Definition bquiet (tot : bytes) (st : bapp) : Prop :=
  match b_ph st with
  | BAccepting _ => b_q st = [] /\ wt_parse WT_BIDI_SIGNAL tot = WtIncomplete
  | BReading _ s => b_q st = [] /\ r_buf s = []
  | _ => True
  end.

Lemma binv_init : binv [] None bapp_init.
Proof.
  split; [constructor|]. cbn [b_ph bapp_init b_q b_out]. split; [|auto].
  apply finv_intro; try reflexivity; try (constructor; fail).
  intros m0 Hm0. discriminate.
Qed.

Lemma binv_chunk sp m tot st b : binv tot None st -> b <> [] -> wf_bytes b ->
  binv (tot ++ b) None (bidi_step sp m st (Arrive (Chunk b))).
Proof.
  intros [Hwf H] Hb Hwb. split; [apply wf_bytes_app; auto|].
  cbn [bidi_step b_q b_ph b_out]. destruct (b_ph st) as [f|i s|i e|r].
  - destruct H as ((Hne & Hq & Hwv & Hms & Heos & Hrem & Hinc) & Hv & Hterm & Ho).
    assert (Hview : fview f (b_q st ++ [Chunk b]) = fview f (b_q st) ++ b).
    { unfold fview. rewrite ev_bytes_app. cbn [ev_bytes]. rewrite app_nil_r, app_assoc. reflexivity. }
    split; [apply finv_intro; auto|].
    + apply q_ok_snoc_chunk; auto.
    + rewrite Hview. apply wf_bytes_app; auto.
    + rewrite Hview, Hv. split; [reflexivity|]. split; [apply q_term_snoc_chunk; auto|exact Ho].
  - destruct H as ((Hne & Hq) & Hterm & Hp).
    repeat split; auto.
    + apply q_ok_snoc_chunk; auto.
    + apply q_term_snoc_chunk; auto.
    + pose proof (wt_parse_extend WT_BIDI_SIGNAL tot b) as He. rewrite Hp in He. rewrite He.
      f_equal. unfold sview. rewrite ev_bytes_app. cbn [ev_bytes]. rewrite app_nil_r, <- !app_assoc. reflexivity.
  - destruct H as ((t & Ht & _) & _). discriminate.
  - destruct H as [Ho H]. split; [exact Ho|]. destruct r; auto; try (exfalso; apply (proj1 H); reflexivity).
    pose proof (wt_parse_extend WT_BIDI_SIGNAL tot b) as Hx. rewrite H in Hx. exact Hx.
Qed.

Lemma binv_term sp m tot st t : binv tot None st -> is_term t ->
  binv tot (Some t) (bidi_step sp m st (Arrive t)).
Proof.
  intros [Hwf H] Ht. split; [exact Hwf|].
  assert (Hnb : ev_bytes [t] = []) by (destruct t; cbn [ev_bytes]; auto; exfalso; eapply Ht; reflexivity).
  cbn [bidi_step b_q b_ph b_out]. destruct (b_ph st) as [f|i s|i e|r].
  - destruct H as ((Hne & Hq & Hwv & Hms & Heos & Hrem & Hinc) & Hv & Hterm & Ho).
    assert (Hview : fview f (b_q st ++ [t]) = fview f (b_q st)).
    { unfold fview. rewrite ev_bytes_app, Hnb, app_nil_r. reflexivity. }
    split; [apply finv_intro; auto|].
    + apply q_ok_snoc_term; auto.
    + rewrite Hview. exact Hwv.
    + rewrite Hview. split; [exact Hv|]. split; [apply q_term_snoc_term; auto|exact Ho].
  - destruct H as ((Hne & Hq) & Hterm & Hp).
    repeat split; auto.
    + apply q_ok_snoc_term; auto.
    + apply q_term_snoc_term; auto.
    + rewrite Hp. f_equal. unfold sview. rewrite ev_bytes_app, Hnb, app_nil_r. reflexivity.
  - destruct H as ((t' & Ht' & _) & _). discriminate.
  - destruct H as [Ho H]. split; [exact Ho|]. destruct r; auto; destruct H as [H _]; congruence.
Qed.

Lemma bidi_read_inv m tot term i q s acc : mode_ok m -> wf_bytes tot ->
  sgood s q -> q_term q = term ->
  wt_parse WT_BIDI_SIGNAL tot = WtStream i (concat acc ++ sview s q) ->
  binv tot term (bidi_read m i q s acc) /\ bquiet tot (bidi_read m i q s acc).
Proof.
  intros Hm Hwf Hg Hterm Hp. unfold bidi_read.
  pose proof (read_loop_spec (read_fuel q s) m q s acc Hg Hm (read_fuel_enough q s)) as Hr.
  rewrite Hterm in Hr. destruct term as [t|].
  - destruct Hr as (q' & s' & out & -> & Hcat). split; [|exact I].
    split; [exact Hwf|]. cbn [b_ph b_out]. split; [eauto|]. rewrite Hcat. exact Hp.
  - destruct Hr as (s' & out & -> & Hb & Hcat). split.
    + split; [exact Hwf|]. cbn [b_ph b_out b_q]. unfold sgood, sview. rewrite Hb. cbn [concat ev_bytes app q_term q_ok].
      repeat split; auto; try constructor. rewrite app_nil_r, Hcat. exact Hp.
    + cbn. auto.
Qed.

Lemma split_keeps_payload s :
  r_buf (snd (brs_split s)) = r_buf s /\ r_buf (fst (brs_split s)) = [] /\
  r_eos (snd (brs_split s)) = r_eos s /\ r_eos (fst (brs_split s)) = r_eos s.
Proof. repeat split; reflexivity. Qed.

Lemma after_accept_buf sp s : r_buf (after_accept sp s) = r_buf s.
Proof. destruct sp; reflexivity. Qed.

Lemma binv_poll sp m tot term st : mode_ok m -> binv tot term st ->
  binv tot term (bidi_poll sp m st) /\ bquiet tot (bidi_poll sp m st).
Proof.
  intros Hm [Hwf H]. unfold bidi_poll. destruct (b_ph st) as [f|i s|i e|r] eqn:Eph.
  - destruct H as (Hf & Hv & Hterm & Ho). unfold fs_poll_next.
    assert (Hrem : f_rem f = 0) by apply Hf. rewrite Hrem. change (0 =? 0) with true. cbn iota.
    pose proof (fs_loop_spec (b_q st) f Hf) as Hl. rewrite Hv in Hl.
    destruct (wt_parse WT_BIDI_SIGNAL tot) as [s p| |t] eqn:Hp.
    + destruct Hl as (q' & f' & -> & Hsv & Hg & Hq'). rewrite Ho.
      apply bidi_read_inv; auto; try congruence.
      * unfold sgood in *. rewrite after_accept_buf. exact Hg.
      * unfold fs_into_inner, sview in *. rewrite after_accept_buf. cbn [concat app]. rewrite Hsv. exact Hp.
    + rewrite Hterm in Hl. destruct term as [[b| |c]|].
      * exfalso. eapply (q_term_not_chunk (b_q st)); [apply Hf|exact Hterm].
      * destruct Hl as (r & q' & f' & -> & [-> | ->]); (split; [|exact I]); (split; [exact Hwf|]);
          cbn [b_ph b_out]; repeat split; auto; discriminate.
      * destruct Hl as (q' & f' & ->). split; [|exact I]. split; [exact Hwf|]. cbn [b_ph b_out].
        repeat split; auto; discriminate.
      * destruct Hl as (f' & -> & Hf' & Hv'). split.
        -- split; [exact Hwf|]. cbn [b_ph b_q b_out]. rewrite Hv' in *. auto.
        -- cbn. auto.
    + destruct Hl as (q' & f' & ->). split; [|exact I]. split; [exact Hwf|]. cbn [b_ph b_out]. auto.
  - destruct H as (Hg & Ht & Hp). apply bidi_read_inv; auto.
  - split; [|unfold bquiet; rewrite Eph; exact I]. split; [exact Hwf|]. rewrite Eph. exact H.
  - split; [|unfold bquiet; rewrite Eph; exact I]. split; [exact Hwf|]. rewrite Eph. exact H.
Qed.

Lemma binv_polls sp m tot term : mode_ok m -> forall h st, only_polls h -> binv tot term st ->
  binv tot term (fold_left (bidi_step sp m) h st).
Proof.
  intros Hm. induction h as [|it r IH]; intros st Hp Hi; [exact Hi|].
  inversion Hp as [|? ? Hit Hr]; subst. cbn [fold_left bidi_step]. apply IH; [exact Hr|].
  apply binv_poll; assumption.
Qed.

Lemma binv_run sp m : mode_ok m -> forall h st tot, binv tot None st -> h_ok h ->
  binv (tot ++ arrived_bytes h) (arrived_term h) (fold_left (bidi_step sp m) h st).
Proof.
  intros Hm. induction h as [|[[b| |c]|] r IH]; intros st tot Hi Hh; cbn [fold_left arrived_bytes arrived_term h_ok] in *.
  - rewrite app_nil_r. exact Hi.
  - destruct Hh as (Hb & Hwb & Hr). rewrite app_assoc. apply IH; [|exact Hr]. apply binv_chunk; assumption.
  - destruct (only_polls_facts r Hh) as [-> _]. rewrite app_nil_r.
    apply binv_polls; [exact Hm|exact Hh|]. apply binv_term; [exact Hi|]. intros b; discriminate.
  - destruct (only_polls_facts r Hh) as [-> _]. rewrite app_nil_r.
    apply binv_polls; [exact Hm|exact Hh|]. apply binv_term; [exact Hi|]. intros b; discriminate.
  - apply IH; [|exact Hh]. apply binv_poll; assumption.
Qed.

Definition bidi_seen (st : bapp) : seen :=
  match b_ph st with
  | BAccepting _ => SeenNothing
  | BReading i _ => SeenStream i (concat (b_out st)) WtOpen
  | BEnded i e => match seen_end e with Some w => SeenStream i (concat (b_out st)) w | None => SeenBad end
  | BNotWt (PnOther _) | BNotWt PnEndNone | BNotWt PnUnexpectedEnd | BNotWt (PnQuic _) => SeenOther
  | BNotWt _ => SeenBad
  end.

Lemma arrived_term_is_term h t : h_ok h -> arrived_term h = Some t -> is_term t.
Proof.
  intros Hh Ht b ->. induction h as [|[[b'| |c]|] r IH]; cbn in *; try discriminate; tauto.
Qed.

(* T3 + T5 for bidirectional streams against the flat-bytes specification *)
Theorem bidi_run_spec : forall sp m h, mode_ok m -> h_ok h ->
  let st := bidi_run sp m (h ++ [Poll]) in
  match wt_expect_bidi (arrived_bytes h) (end_of (arrived_term h)) with
  | ObsStream s p e => bidi_seen st = SeenStream s p e
  | ObsNothing => bidi_seen st = SeenNothing
  | ObsUnconstrained => bidi_seen st = SeenOther
  end.
Proof.
  intros sp m h Hm Hh st.
  pose proof (binv_run sp m Hm h bapp_init [] binv_init Hh) as Hi. cbn [app] in Hi.
  assert (Hst : st = bidi_poll sp m (fold_left (bidi_step sp m) h bapp_init)).
  { unfold st, bidi_run. rewrite fold_left_app. reflexivity. }
  destruct (binv_poll sp m _ _ _ Hm Hi) as [[Hwf Hinv] Hq]. rewrite <- Hst in Hinv, Hq.
  set (tot := arrived_bytes h) in *. pose proof (arrived_term_is_term h) as Hit.
  set (term := arrived_term h) in *.
  unfold wt_expect_bidi, bidi_seen, bquiet in *.
  destruct (b_ph st) as [f|i s|i e|r].
  - destruct Hq as [Hq0 Hinc]. destruct Hinv as (_ & _ & Hterm & _). rewrite Hq0 in Hterm. cbn in Hterm.
    rewrite Hinc, <- Hterm. reflexivity.
  - destruct Hq as [Hq0 Hb]. destruct Hinv as (_ & Hterm & Hp). rewrite Hq0 in Hterm, Hp. cbn in Hterm.
    unfold sview in Hp. rewrite Hb in Hp. cbn [concat ev_bytes app] in Hp. rewrite app_nil_r in Hp.
    rewrite Hp, <- Hterm. reflexivity.
  - destruct Hinv as ((t & Ht & ->) & Hp). rewrite Hp, Ht.
    specialize (Hit t Hh Ht).
    destruct t as [b| |c]; [exfalso; eapply Hit; reflexivity| |]; reflexivity.
  - destruct Hinv as [_ Hr]. destruct r as [i| | | |c|t|p]; try contradiction.
    + destruct Hr as [Ht Hp]. rewrite Hp. destruct term as [t|]; [|congruence].
      specialize (Hit t Hh eq_refl). destruct t as [b| |c]; [exfalso; eapply Hit; reflexivity| |]; reflexivity.
    + destruct Hr as [Ht Hp]. rewrite Hp. destruct term as [t|]; [|congruence].
      specialize (Hit t Hh eq_refl). destruct t as [b| |c]; [exfalso; eapply Hit; reflexivity| |]; reflexivity.
    + destruct Hr as [Ht Hp]. rewrite Hp. destruct term as [t|]; [|congruence].
      specialize (Hit t Hh eq_refl). destruct t as [b| |c']; [exfalso; eapply Hit; reflexivity| |]; reflexivity.
    + rewrite Hr. reflexivity.
Qed.

(* ================================================================== corollaries in header ++ payload form *)

Definition valid_form (l x : N) : Prop := (l = 1 \/ l = 2 \/ l = 4 \/ l = 8) /\ x < 2 ^ (8 * l - 2).

Lemma read_enc l x rest : valid_form l x -> wt_read_varint (rfc_vi_enc l x ++ rest) = Some (x, rest).
Proof.
  intros [Hl Hx]. destruct (rfc_enc_head l x Hl Hx) as (b0 & t & He & Hlen & Hval).
  assert (Hlt : length (b0 :: t) = N.to_nat l) by (rewrite <- He; apply rfc_vi_enc_length).
  rewrite He. change ((b0 :: t) ++ rest) with (b0 :: (t ++ rest)). rewrite read_varint_cons.
  change (b0 :: (t ++ rest)) with ((b0 :: t) ++ rest). rewrite Hlen.
  destruct (N.ltb_spec (len ((b0 :: t) ++ rest)) l) as [H|_].
  { rewrite len_app in H. unfold len in H. lia. }
  rewrite <- Hlt, firstn_app_exact, skipn_app_exact, <- He, Hval. reflexivity.
Qed.

Lemma shortest_valid x : x < 2 ^ 62 -> valid_form (rfc_vi_shortest x) x.
Proof. intros Hx. exact (shortest_cases x Hx). Qed.

Lemma parse_any_form sig tl sl s payload : valid_form tl sig -> valid_form sl s ->
  wt_parse sig (rfc_vi_enc tl sig ++ rfc_vi_enc sl s ++ payload) = WtStream s payload.
Proof.
  intros Ht Hs. unfold wt_parse. rewrite (read_enc tl sig _ Ht), N.eqb_refl, (read_enc sl s _ Hs). reflexivity.
Qed.

Lemma parse_stream_bytes sig s payload : sig < 2 ^ 62 -> s < 2 ^ 62 ->
  wt_parse sig (wt_stream_bytes sig s payload) = WtStream s payload.
Proof.
  intros Hsig Hs. unfold wt_stream_bytes, wt_stream_header, wt_varint. rewrite <- app_assoc.
  apply parse_any_form; apply shortest_valid; assumption.
Qed.

(* T2 (receive side): what h3 writes is parsed back, for every session id *)
Theorem header_parses_back : forall s payload, s < 2 ^ 62 -> wf_bytes payload ->
  frame_decode_head (wt_stream_bytes WT_BIDI_SIGNAL s payload) =
    FdWt s (len (wt_stream_header WT_BIDI_SIGNAL s)) /\
  type_parse None (wt_stream_bytes WT_UNI_TYPE s payload) = TReady WT_UNI_TYPE (Some s) payload.
Proof.
  intros s payload Hs Hwp. split.
  - assert (Hwf : wf_bytes (wt_stream_bytes WT_BIDI_SIGNAL s payload)).
    { unfold wt_stream_bytes, wt_stream_header, wt_varint. rewrite !wf_bytes_app. repeat split; auto; apply rfc_vi_enc_wf. }
    pose proof (frame_decode_head_spec _ Hwf) as Hd.
    rewrite parse_stream_bytes in Hd by (auto; vm_compute; reflexivity).
    destruct Hd as (-> & _ & _). f_equal. unfold wt_stream_bytes. rewrite len_app. lia.
  - unfold type_parse, wt_stream_bytes, wt_stream_header, wt_varint. rewrite <- app_assoc.
    rewrite read_enc by (apply shortest_valid; vm_compute; reflexivity).
    assert (Hn : needs_id (Some WT_UNI_TYPE) = true) by (apply needs_id_iff; auto). rewrite Hn.
    rewrite read_enc by (apply shortest_valid; exact Hs). reflexivity.
Qed.

(* T3, unidirectional: every chunking of header ++ payload (the header in any of the accepted forms), polls
   anywhere, either read call with any buffer size >= 1: exactly the payload, then the stream's ending *)
Theorem uni_bytes_intact : forall m h tl sl s payload, mode_ok m -> h_ok h ->
  valid_form tl WT_UNI_TYPE -> valid_form sl s ->
  arrived_bytes h = rfc_vi_enc tl WT_UNI_TYPE ++ rfc_vi_enc sl s ++ payload ->
  uni_seen (uni_run true m (h ++ [Poll])) = SeenStream s payload (end_of (arrived_term h)).
Proof.
  intros m h tl sl s payload Hm Hh Ht Hs Hb.
  pose proof (uni_run_spec true m h Hm Hh) as H. cbv zeta in H. unfold wt_expect_uni in H.
  rewrite Hb, (parse_any_form _ _ _ _ _ Ht Hs) in H. exact H.
Qed.

Theorem bidi_bytes_intact : forall sp m h tl sl s payload, mode_ok m -> h_ok h ->
  valid_form tl WT_BIDI_SIGNAL -> valid_form sl s ->
  arrived_bytes h = rfc_vi_enc tl WT_BIDI_SIGNAL ++ rfc_vi_enc sl s ++ payload ->
  bidi_seen (bidi_run sp m (h ++ [Poll])) = SeenStream s payload (end_of (arrived_term h)).
Proof.
  intros sp m h tl sl s payload Hm Hh Ht Hs Hb.
  pose proof (bidi_run_spec sp m h Hm Hh) as H. cbv zeta in H. unfold wt_expect_bidi in H.
  rewrite Hb, (parse_any_form _ _ _ _ _ Ht Hs) in H. exact H.
Qed.

(* safety at every moment (no trailing poll required): what has been delivered so far is a prefix of the
   payload of the stream's own header, attached to that header's session; nothing invented, nothing twice *)
Theorem uni_prefix_safe : forall en m h, mode_ok m -> h_ok h ->
  match uni_seen (uni_run en m h) with
  | SeenStream i d _ => en = true /\ exists rest, wt_parse WT_UNI_TYPE (arrived_bytes h) = WtStream i (d ++ rest)
  | SeenBad => False
  | _ => True
  end.
Proof.
  intros en m h Hm Hh. pose proof (uinv_run en m Hm h uapp_init [] (uinv_init en) Hh) as [_ Hi]. cbn [app] in Hi.
  unfold uni_run, uni_seen. destruct (u_ph (fold_left (uni_step en m) h uapp_init)) as [a|i s|i e|r]; auto.
  - destruct Hi as (_ & _ & Hen & Hp). split; [exact Hen|]. eauto.
  - destruct Hi as (Hen & (t & Ht & ->) & Hp).
    pose proof (arrived_term_is_term h t Hh Ht) as Hit.
    destruct t as [b| |c]; [exfalso; eapply Hit; reflexivity| |]; cbn [ending_of seen_end];
      (split; [exact Hen|]); exists []; rewrite app_nil_r; exact Hp.
  - destruct Hi as [_ Hr]. destruct r; auto.
Qed.

Theorem bidi_prefix_safe : forall sp m h, mode_ok m -> h_ok h ->
  match bidi_seen (bidi_run sp m h) with
  | SeenStream i d _ => exists rest, wt_parse WT_BIDI_SIGNAL (arrived_bytes h) = WtStream i (d ++ rest)
  | SeenBad => False
  | _ => True
  end.
Proof.
  intros sp m h Hm Hh. pose proof (binv_run sp m Hm h bapp_init [] binv_init Hh) as [_ Hi]. cbn [app] in Hi.
  unfold bidi_run, bidi_seen. destruct (b_ph (fold_left (bidi_step sp m) h bapp_init)) as [f|i s|i e|r]; auto.
  - destruct Hi as (_ & _ & Hp). eauto.
  - destruct Hi as ((t & Ht & ->) & Hp).
    pose proof (arrived_term_is_term h t Hh Ht) as Hit.
    destruct t as [b| |c]; [exfalso; eapply Hit; reflexivity| |]; cbn [ending_of seen_end];
      exists []; rewrite app_nil_r; exact Hp.
  - destruct Hi as [_ Hr]. destruct r; auto.
Qed.

(* T4: a complete 0x54 header is surfaced iff the extension is enabled; disabled: not surfaced, no connection error *)
Theorem uni_gate : forall en m h s p, mode_ok m -> h_ok h ->
  wt_parse WT_UNI_TYPE (arrived_bytes h) = WtStream s p ->
  let seen := uni_seen (uni_run en m (h ++ [Poll])) in
  (en = true -> seen = SeenStream s p (end_of (arrived_term h))) /\
  (en = false -> not_surfaced_no_error seen) /\
  ((exists i d e, seen = SeenStream i d e) <-> en = true).
Proof.
  intros en m h s p Hm Hh Hp seen.
  pose proof (uni_run_spec en m h Hm Hh) as H. cbv zeta in H. unfold wt_expect_uni in H. rewrite Hp in H.
  fold seen in H. destruct en.
  - repeat split; auto; try discriminate. eauto.
  - repeat split; auto; try discriminate. intros (i & d & e & He).
    destruct H as [H|(c & H)]; rewrite H in He; discriminate.
Qed.

(* T5: once the complete header has arrived, ONE poll surfaces the stream, whatever else has or has not arrived *)
Theorem uni_liveness : forall m h s p, mode_ok m -> h_ok h ->
  wt_parse WT_UNI_TYPE (arrived_bytes h) = WtStream s p ->
  exists e, uni_seen (uni_run true m (h ++ [Poll])) = SeenStream s p e.
Proof.
  intros m h s p Hm Hh Hp. eexists. apply (uni_gate true m h s p Hm Hh Hp). reflexivity.
Qed.
Theorem bidi_liveness : forall sp m h s p, mode_ok m -> h_ok h ->
  wt_parse WT_BIDI_SIGNAL (arrived_bytes h) = WtStream s p ->
  exists e, bidi_seen (bidi_run sp m (h ++ [Poll])) = SeenStream s p e.
Proof.
  intros sp m h s p Hm Hh Hp.
  pose proof (bidi_run_spec sp m h Hm Hh) as H. cbv zeta in H. unfold wt_expect_bidi in H. rewrite Hp in H. eauto.
Qed.
