(* C20, instruction parsers: the model of stream.rs' decoders (Model/QParse.v) against the encoders of Model/QWire.v.
   1. every parser is SELF-DELIMITING on all inputs: what it accepts, it accepts whatever follows, having consumed exactly
      the same bytes, and every strict prefix of those bytes is reported Incomplete (never an error, never an early result);
   2. round trip with exact consumption for every instruction the codecs support;
   3. hence byte-granular delivery: parse_all on the first n bytes of a wire stream returns the instructions that
      Model/QBytes.complete_within counts, and leaves the bytes it says;
   4. hence any chunking of the stream is parsed to exactly the instruction list;
   5. every answer other than Incomplete is stable under extension of the input, hence
   6. for ANY byte stream (malformed included) and any chunking, the receiver fed in pieces reports what the receive loop
      reports on the whole stream. *)
From H3V Require Import Base.Bytes Base.BytesLemmas Gen.GenQpack Gen.GenPrefixInt Gen.GenPrefixString Spec.RFC7541Huffman
  Model.PrefixInt Model.Huffman Model.PrefixString Model.QInstr Model.QSystem Model.QWire Model.QBytes Model.QParse
  Proofs.C15Finite Proofs.PrefixIntProofs Proofs.HuffmanEncodeProofs Proofs.PrefixStringProofs.
From Coq Require Import ZifyBool ZifyNat ZifyN.
Ltac Zify.zify_post_hook ::= Z.div_mod_to_equations.

(* ------------------------------------------------------------------ list facts *)
Lemma firstn_app_le {A} (n : nat) (a b : list A) : (n <= length a)%nat -> firstn n (a ++ b) = firstn n a.
Proof.
  intros H. rewrite firstn_app. replace (n - length a)%nat with 0%nat by lia. cbn [firstn]. apply app_nil_r.
Qed.

Lemma firstn_app_ge {A} (n : nat) (a b : list A) : (length a <= n)%nat -> firstn n (a ++ b) = a ++ firstn (n - length a) b.
Proof. intros H. rewrite firstn_app. rewrite firstn_all2 by assumption. reflexivity. Qed.

Lemma skipn_app_ge {A} (n : nat) (a b : list A) : (length a <= n)%nat -> skipn n (a ++ b) = skipn (n - length a) b.
Proof. intros H. rewrite skipn_app. rewrite skipn_all2 by assumption. reflexivity. Qed.

Lemma skipn_app_le {A} (n : nat) (a b : list A) : (n <= length a)%nat -> skipn n (a ++ b) = skipn n a ++ b.
Proof. intros H. rewrite skipn_app. replace (n - length a)%nat with 0%nat by lia. reflexivity. Qed.

Lemma len_firstn_le (n : nat) (a : bytes) : (n <= length a)%nat -> len (firstn n a) = N.of_nat n.
Proof. intros H. unfold len. rewrite firstn_length. f_equal. lia. Qed.

(* ------------------------------------------------------------------ 1. self-delimiting parsers *)

(* the continuation loop of prefix_int::decode *)
Lemma pi_dec_loop_sd bs : forall value power x rest,
  pi_dec_loop bs value power = Ok (x, rest) ->
  exists a, bs = a ++ rest /\ a <> [] /\
    (forall t, pi_dec_loop (a ++ t) value power = Ok (x, t)) /\
    (forall n, (n < length a)%nat -> pi_dec_loop (firstn n a) value power = Err PiUnexpectedEnd).
Proof.
  induction bs as [|b r IH]; intros value power x rest H; [discriminate|].
  cbn [pi_dec_loop] in H.
  destruct (64 <=? power) eqn:E1; [discriminate|].
  set (add := N.shiftl (N.land b pi_dec_val_mask) power mod 2 ^ 64) in *.
  destruct (2 ^ 64 <=? value + add) eqn:E2; [discriminate|].
  destruct (N.land b pi_dec_cont_mask =? 0) eqn:E3.
  - inversion H; subst. exists [b]. split; [reflexivity|]. split; [discriminate|]. split.
    + intros t. cbn [app pi_dec_loop]. rewrite E1. fold add. rewrite E2, E3. reflexivity.
    + intros n Hn. cbn [length] in Hn. replace n with 0%nat by lia. reflexivity.
  - destruct (cmp_ge pi_dec_overflow_ge (power + pi_dec_step) pi_max_power) eqn:E4; [discriminate|].
    destruct (IH _ _ _ _ H) as (a & Ha & Hne & Hext & Htr). subst r.
    exists (b :: a). split; [reflexivity|]. split; [discriminate|]. split.
    + intros t. cbn [app pi_dec_loop]. rewrite E1. fold add. rewrite E2, E3, E4. apply Hext.
    + intros n Hn. destruct n as [|n]; [reflexivity|].
      cbn [firstn pi_dec_loop]. rewrite E1. fold add. rewrite E2, E3, E4. apply Htr. cbn [length] in Hn. lia.
Qed.

Lemma pi_decode_sd size bs f x rest :
  pi_decode size bs = Ok (f, x, rest) ->
  exists b0 a, bs = (b0 :: a) ++ rest /\ f = N.shiftr b0 size mod 256 /\
    (forall t, pi_decode size ((b0 :: a) ++ t) = Ok (f, x, t)) /\
    (forall n, (n < length (b0 :: a))%nat -> pi_decode size (firstn n (b0 :: a)) = Err PiUnexpectedEnd).
Proof.
  unfold pi_decode.
  destruct (negb (cmp_lt (negb pi_dec_size_le) size pi_dec_size_max)) eqn:E1; [discriminate|].
  destruct bs as [|b0 r]; [discriminate|].
  destruct (pi_dec_mask_width <? size) eqn:E2; [discriminate|].
  destruct (8 <=? pi_dec_mask_width - size) eqn:E3; [discriminate|].
  set (mask := N.shiftr pi_dec_mask_full (pi_dec_mask_width - size)).
  destruct (cmp_lt pi_dec_short_lt (N.land b0 mask) mask) eqn:E4.
  - intros H. inversion H; subst. exists b0, []. split; [reflexivity|]. split; [reflexivity|]. split.
    + intros t. cbn [app]. rewrite E4. reflexivity.
    + intros n Hn. cbn [length] in Hn. replace n with 0%nat by lia. reflexivity.
  - destruct (pi_dec_loop r mask pi_dec_power_init) as [[v rest']|e|p] eqn:EL; try discriminate.
    intros H. inversion H; subst.
    destruct (pi_dec_loop_sd _ _ _ _ _ EL) as (a & Ha & Hne & Hext & Htr). subst r.
    exists b0, a. split; [reflexivity|]. split; [reflexivity|]. split.
    + intros t. cbn [app]. rewrite E4, Hext. reflexivity.
    + intros n Hn. destruct n as [|n]; [reflexivity|].
      cbn [firstn]. rewrite E4, Htr; [reflexivity|]. cbn [length] in Hn. lia.
Qed.

Lemma pi_decode_nil size : pi_decode size [] = Err PiUnexpectedEnd \/ exists s, pi_decode size [] = Panic s.
Proof.
  unfold pi_decode. destruct (negb (cmp_lt (negb pi_dec_size_le) size pi_dec_size_max)); [right; eexists; reflexivity|left; reflexivity].
Qed.

(* prefix_string::decode *)
Lemma ps_decode_sd size bs v rest :
  ps_decode size bs = Ok (v, rest) ->
  exists b0 a, bs = (b0 :: a) ++ rest /\
    (exists f x r, pi_decode (size - ps_dec_size_offset) bs = Ok (f, x, r)) /\
    (forall t, ps_decode size ((b0 :: a) ++ t) = Ok (v, t)) /\
    (forall n, (n < length (b0 :: a))%nat -> ps_decode size (firstn n (b0 :: a)) = Err PsUnexpectedEnd).
Proof.
  unfold ps_decode, ps_dec_remaining_lt.
  destruct (size <? ps_dec_size_offset) eqn:E1; [discriminate|].
  destruct (pi_decode (size - ps_dec_size_offset) bs) as [[[f n] r]|e|p] eqn:EP; [|destruct e; discriminate|discriminate].
  destruct (pi_decode_sd _ _ _ _ _ EP) as (b0 & ia & Hbs & _ & Hext & Htr).
  destruct (N.ltb_spec (len r) n) as [|Hge]; [discriminate|].
  set (k := N.to_nat n) in *.
  assert (Hk : (k <= length r)%nat) by (unfold len, k in *; lia).
  assert (Hfl : length (firstn k r) = k) by (rewrite firstn_length; lia).
  intros H.
  exists b0, (ia ++ firstn k r).
  assert (Hrest : rest = skipn k r).
  { destruct (N.land f ps_dec_h_mask =? 0); [inversion H; reflexivity|].
    destruct (2 ^ ps_dec_guard_width - 1 <? ps_guard_value n); [discriminate|].
    destruct (hpack_decode (firstn k r)); inversion H; reflexivity. }
  split; [|split; [|split]].
  - rewrite Hbs, Hrest. change ((b0 :: ia ++ firstn k r) ++ skipn k r) with (b0 :: (ia ++ firstn k r) ++ skipn k r).
    rewrite <- app_assoc, firstn_skipn. reflexivity.
  - exists f, n, r. reflexivity.
  - intros t. change ((b0 :: ia ++ firstn k r) ++ t) with (((b0 :: ia) ++ firstn k r) ++ t).
    rewrite <- app_assoc, Hext.
    destruct (N.ltb_spec (len (firstn k r ++ t)) n) as [Hc|_].
    { unfold len in Hc. rewrite app_length, Hfl in Hc. unfold k in Hc. lia. }
    assert (Hf1 : firstn k (firstn k r ++ t) = firstn k r).
    { rewrite <- Hfl at 1. apply firstn_app_exact. }
    assert (Hs1 : skipn k (firstn k r ++ t) = t).
    { rewrite <- Hfl at 1. apply skipn_app_exact. }
    change (N.to_nat n) with k. rewrite Hf1, Hs1.
    destruct (N.land f ps_dec_h_mask =? 0); [inversion H; reflexivity|].
    destruct (2 ^ ps_dec_guard_width - 1 <? ps_guard_value n); [discriminate|].
    destruct (hpack_decode (firstn k r)); inversion H; reflexivity.
  - intros m Hm. change (b0 :: ia ++ firstn k r) with ((b0 :: ia) ++ firstn k r) in *.
    rewrite app_length, Hfl in Hm.
    destruct (Nat.lt_ge_cases m (length (b0 :: ia))) as [Hlt|Hge'].
    + rewrite firstn_app_le by lia. rewrite Htr by assumption. reflexivity.
    + rewrite firstn_app_ge by assumption. rewrite Hext.
      destruct (N.ltb_spec (len (firstn (m - length (b0 :: ia)) (firstn k r))) n) as [_|Hc]; [reflexivity|].
      unfold len in Hc. rewrite firstn_length, Hfl in Hc. unfold k in *. lia.
Qed.

(* a continuation of a decoder is self-delimiting: it consumes a (possibly empty) prefix [a] of what it is given, whatever
   follows, and answers Ok(None) on every strict prefix of [a] *)
Definition sdk {A} (q : bytes -> dres A) : Prop :=
  forall r x rest, q r = Ok (Some (x, rest)) ->
    exists a, r = a ++ rest /\ (forall t, q (a ++ t) = Ok (Some (x, t))) /\
      (forall n, (n < length a)%nat -> q (firstn n a) = Ok None).

(* ... and consumes at least one byte *)
Definition sdk1 {A} (q : bytes -> dres A) : Prop :=
  forall r x rest, q r = Ok (Some (x, rest)) ->
    exists a, a <> [] /\ r = a ++ rest /\ (forall t, q (a ++ t) = Ok (Some (x, t))) /\
      (forall n, (n < length a)%nat -> q (firstn n a) = Ok None).

Lemma sdk1_sdk {A} (q : bytes -> dres A) : sdk1 q -> sdk q.
Proof. intros H r x rest E. destruct (H r x rest E) as (a & _ & H1 & H2 & H3). exists a. auto. Qed.

Lemma sdk_const {A} (c : res perr unit) (x : A) :
  sdk (fun r => match c with Ok _ => Ok (Some (x, r)) | Err e => Err e | Panic s => Panic s end).
Proof.
  intros r y rest E. destruct c as [u|e|s]; try discriminate. inversion E; subst.
  exists []. split; [reflexivity|]. split; [reflexivity|]. intros n Hn. cbn [length] in Hn. lia.
Qed.

Lemma sdk_int {A} size (k : N -> N -> bytes -> dres A) :
  (forall f x, sdk (k f x)) -> sdk1 (fun bs => with_int size bs k).
Proof.
  intros Hk r x rest H. unfold with_int in *.
  destruct (pi_decode size r) as [[[f v] r1]|e|p] eqn:EP; [|destruct e; discriminate|discriminate].
  destruct (pi_decode_sd _ _ _ _ _ EP) as (b0 & a1 & Hr & _ & Hext & Htr).
  destruct (Hk f v r1 x rest H) as (a2 & Hr1 & Hext2 & Htr2).
  exists ((b0 :: a1) ++ a2). split; [discriminate|]. split; [rewrite Hr, Hr1, app_assoc; reflexivity|]. split.
  - intros t. rewrite <- app_assoc, Hext. apply Hext2.
  - intros n Hn. rewrite app_length in Hn.
    destruct (Nat.lt_ge_cases n (length (b0 :: a1))) as [Hlt|Hge].
    + rewrite firstn_app_le by lia. rewrite Htr by assumption. reflexivity.
    + rewrite firstn_app_ge by assumption. rewrite Hext. apply Htr2. lia.
Qed.

Lemma sdk_str {A} size (k : bytes -> bytes -> dres A) :
  (forall v, sdk (k v)) -> sdk1 (fun bs => with_str size bs k).
Proof.
  intros Hk r x rest H. unfold with_str in *.
  destruct (ps_decode size r) as [[v r1]|e|p] eqn:EP; [|destruct e; discriminate|discriminate].
  destruct (ps_decode_sd _ _ _ _ EP) as (b0 & a1 & Hr & _ & Hext & Htr).
  destruct (Hk v r1 x rest H) as (a2 & Hr1 & Hext2 & Htr2).
  exists ((b0 :: a1) ++ a2). split; [discriminate|]. split; [rewrite Hr, Hr1, app_assoc; reflexivity|]. split.
  - intros t. rewrite <- app_assoc, Hext. apply Hext2.
  - intros n Hn. rewrite app_length in Hn.
    destruct (Nat.lt_ge_cases n (length (b0 :: a1))) as [Hlt|Hge].
    + rewrite firstn_app_le by lia. rewrite Htr by assumption. reflexivity.
    + rewrite firstn_app_ge by assumption. rewrite Hext. apply Htr2. lia.
Qed.

Lemma sdk_ite {A} (c : bool) (q1 q2 : bytes -> dres A) : sdk q1 -> sdk q2 -> sdk (fun r => if c then q1 r else q2 r).
Proof. intros H1 H2. destruct c; assumption. Qed.

Lemma sdk_err {A} (e : perr) : sdk (fun _ : bytes => (Err e : dres A)).
Proof. intros r x rest E. discriminate. Qed.

Lemma sdk_ok {A} (x : A) : sdk (fun r : bytes => (Ok (Some (x, r)) : dres A)).
Proof.
  intros r y rest E. inversion E; subst. exists []. split; [reflexivity|]. split; [reflexivity|].
  intros n Hn. cbn [length] in Hn. lia.
Qed.

Lemma dec_insert_name_ref_sd : sdk1 dec_insert_name_ref.
Proof.
  unfold dec_insert_name_ref. apply sdk_int. intros f idx.
  apply (sdk_ite (negb (N.land f 2 =? 2))); [apply sdk_err|].
  apply sdk1_sdk. apply sdk_str. intros v. apply sdk_ok.
Qed.

Lemma dec_insert_literal_sd : sdk1 dec_insert_literal.
Proof.
  unfold dec_insert_literal. apply sdk_str. intros n. apply sdk1_sdk. apply sdk_str. intros v. apply sdk_ok.
Qed.

Lemma dec_duplicate_sd : sdk1 dec_duplicate.
Proof.
  unfold dec_duplicate. apply sdk_int. intros f x.
  apply (sdk_ite (f =? 0)); [|apply sdk_err]. apply (sdk_ite (u64_max <? x)); [apply sdk_err|apply sdk_ok].
Qed.

Lemma dec_size_update_sd : sdk1 dec_size_update.
Proof.
  unfold dec_size_update. apply sdk_int. intros f x.
  apply (sdk_ite (f =? 1)); [|apply sdk_err]. apply (sdk_ite (u64_max <? x)); [apply sdk_err|apply sdk_ok].
Qed.

Lemma dec_increment_sd : sdk1 dec_increment.
Proof.
  unfold dec_increment. apply sdk_int. intros f x.
  apply (sdk_ite (f =? 0)); [|apply sdk_err]. apply (sdk_ite (q_increment_limit <? x)); [apply sdk_err|apply sdk_ok].
Qed.

Lemma dec_header_ack_sd : sdk1 dec_header_ack.
Proof. unfold dec_header_ack. apply sdk_int. intros f x. apply (sdk_ite (f =? 1)); [apply sdk_ok|apply sdk_err]. Qed.

Lemma dec_stream_cancel_sd : sdk1 dec_stream_cancel.
Proof. unfold dec_stream_cancel. apply sdk_int. intros f x. apply (sdk_ite (f =? 1)); [apply sdk_ok|apply sdk_err]. Qed.

Lemma finish_sd {A} (p : bytes -> dres A) : sdk1 p -> forall bs x used,
  finish bs (p bs) = PComplete x used ->
  exists a0 a rest, bs = (a0 :: a) ++ rest /\ used = len (a0 :: a) /\
    (forall t, finish ((a0 :: a) ++ t) (p ((a0 :: a) ++ t)) = PComplete x (len (a0 :: a))) /\
    (forall n, (n < length (a0 :: a))%nat -> finish (firstn n (a0 :: a)) (p (firstn n (a0 :: a))) = PIncomplete).
Proof.
  intros Hp bs x used H. unfold finish in H.
  destruct (p bs) as [[[y rest]|]|e|s] eqn:E; try discriminate. inversion H; subst.
  destruct (Hp _ _ _ E) as (a & Hne & Hbs & Hext & Htr). destruct a as [|a0 a]; [contradiction|].
  exists a0, a, rest. split; [assumption|]. split; [rewrite Hbs, len_app; lia|]. split.
  - intros t. unfold finish. rewrite Hext. rewrite len_app. f_equal. lia.
  - intros n Hn. unfold finish. rewrite Htr by assumption. reflexivity.
Qed.

(* THE PARSERS ARE SELF-DELIMITING, on every input: a complete instruction is recognised from exactly [used] bytes whatever
   follows them, and no strict prefix of those bytes is anything but Incomplete *)
Theorem parse_einstr_sd bs i used :
  parse_einstr bs = PComplete i used ->
  exists a rest, bs = a ++ rest /\ used = len a /\ 0 < used /\
    (forall t, parse_einstr (a ++ t) = PComplete i used) /\
    (forall n, (n < length a)%nat -> parse_einstr (firstn n a) = PIncomplete).
Proof.
  destruct bs as [|first tl]; [discriminate|]. unfold parse_einstr.
  destruct (ekind_of first) eqn:EK; try discriminate; intros H;
    [apply (finish_sd _ dec_insert_name_ref_sd) in H | apply (finish_sd _ dec_insert_literal_sd) in H
    |apply (finish_sd _ dec_duplicate_sd) in H | apply (finish_sd _ dec_size_update_sd) in H];
    destruct H as (a0 & a & rest & Hbs & Hu & Hext & Htr); inversion Hbs; subst a0 tl;
    (exists (first :: a), rest; split; [reflexivity|]; split; [assumption|]; split; [unfold len in *; cbn [length] in *; lia|]; split;
     [intros t; cbn [app]; rewrite EK; rewrite Hu; apply Hext
     |intros n Hn; destruct n as [|n]; [reflexivity|]; cbn [firstn]; rewrite EK; apply (Htr (S n) Hn)]).
Qed.

Theorem parse_dinstr_sd bs i used :
  parse_dinstr bs = PComplete i used ->
  exists a rest, bs = a ++ rest /\ used = len a /\ 0 < used /\
    (forall t, parse_dinstr (a ++ t) = PComplete i used) /\
    (forall n, (n < length a)%nat -> parse_dinstr (firstn n a) = PIncomplete).
Proof.
  destruct bs as [|first tl]; [discriminate|]. unfold parse_dinstr.
  destruct (dkind_of first) eqn:EK; try discriminate; intros H;
    [apply (finish_sd _ dec_increment_sd) in H | apply (finish_sd _ dec_header_ack_sd) in H
    |apply (finish_sd _ dec_stream_cancel_sd) in H];
    destruct H as (a0 & a & rest & Hbs & Hu & Hext & Htr); inversion Hbs; subst a0 tl;
    (exists (first :: a), rest; split; [reflexivity|]; split; [assumption|]; split; [unfold len in *; cbn [length] in *; lia|]; split;
     [intros t; cbn [app]; rewrite EK; rewrite Hu; apply Hext
     |intros n Hn; destruct n as [|n]; [reflexivity|]; cbn [firstn]; rewrite EK; apply (Htr (S n) Hn)]).
Qed.

(* ------------------------------------------------------------------ 2. round trip with exact consumption *)

(* the ranges of the codecs (C15_int_roundtrip_partial, C15_string_roundtrip, InsertCountIncrement::decode) *)
Definition int_ok (size v : N) : Prop := v < 2 ^ 63 + (2 ^ size - 1).
Definition str_ok (s : bytes) : Prop := wf_bytes s /\ len s < 2 ^ 26.

Definition einstr_ok (i : einstr) : Prop :=
  match i with
  | ISizeUpdate n => int_ok 5 n
  | IInsertStatic idx v => int_ok 6 idx /\ str_ok v
  | IInsertDyn idx v => int_ok 6 idx /\ str_ok v
  | IInsertLit n v => str_ok n /\ str_ok v
  | IDuplicate idx => int_ok 5 idx
  end.

Definition dinstr_ok (i : dinstr) : Prop :=
  match i with
  | DAck sid => int_ok 7 sid
  | DCancel sid => int_ok 6 sid
  | DIncrement n => n <= q_increment_limit
  end.

(* what prefix_int::encode writes: non-empty, octets, the flags in the bits above the prefix of the first octet, and it
   decodes to (flags, v) leaving whatever follows *)
Lemma pi_wire size flags v r :
  1 <= size <= 8 -> flags < 2 ^ (8 - size) -> int_ok size v -> wf_bytes r ->
  exists b0 tl, pi_encode size flags v = Ok (b0 :: tl) /\ wf_bytes (b0 :: tl) /\ b0 / 2 ^ size = flags /\
    pi_decode size ((b0 :: tl) ++ r) = Ok (flags, v, r).
Proof.
  intros Hs Hf Hv Hr. unfold int_ok in Hv.
  destruct (pi_roundtrip size flags v r Hs Hf Hv Hr) as (e & He & Hdec).
  assert (Hv64 : v < 2 ^ 64).
  { assert (2 ^ size <= 2 ^ 8) by (apply N.pow_le_mono_r; lia).
    change (2 ^ 8) with 256 in *. change (2 ^ 63) with 9223372036854775808 in Hv.
    change (2 ^ 64) with 18446744073709551616. lia. }
  destruct (pi_encode_total size flags v Hs Hf Hv64) as (e' & He' & Hwf & _).
  rewrite He in He'. inversion He'; subst e'.
  destruct (pi_decode_sd _ _ _ _ _ Hdec) as (b0 & a & Hbs & Hfl & _).
  apply app_inv_tail in Hbs. subst e.
  exists b0, a. split; [assumption|]. split; [assumption|]. split; [|assumption].
  apply wf_bytes_cons in Hwf as [Hb _].
  destruct (first_dec_facts size b0 Hs Hb) as (F1 & _). rewrite F1 in Hfl. symmetry. exact Hfl.
Qed.

(* what prefix_string::encode writes *)
Lemma ps_wire size flags s r :
  2 <= size <= 8 -> flags < 2 ^ (8 - size) -> str_ok s -> wf_bytes r ->
  exists b0 tl, ps_encode size flags s = Ok (b0 :: tl) /\ wf_bytes (b0 :: tl) /\ b0 / 2 ^ (size - 1) = 2 * flags + 1 /\
    ps_decode size ((b0 :: tl) ++ r) = Ok (s, r).
Proof.
  intros Hs Hf [Hwf Hlen] Hr.
  destruct (ps_roundtrip size flags s r Hs Hf Hwf Hlen Hr) as (enc & Henc & Hdec).
  destruct (hpack_encode_valid s Hwf Hlen) as (e & He & Hwe & _ & Hel).
  pose proof (codes_length s Hwf) as Hcl.
  assert (Hf128 : flags < 128).
  { assert (2 ^ (8 - size) <= 2 ^ 6) by (apply N.pow_le_mono_r; lia). change (2 ^ 6) with 64 in *. lia. }
  destruct (h_flag_fact flags Hf128) as [Hlor _].
  assert (Hf' : 2 * flags + 1 < 2 ^ (8 - (size - 1))).
  { replace (8 - (size - 1)) with (N.succ (8 - size)) by lia. rewrite N.pow_succ_r'. lia. }
  destruct (pi_wire (size - 1) (2 * flags + 1) (len e) []) as (b0 & tl & Hhd & Hwhd & Hb0 & _).
  { lia. }
  { exact Hf'. }
  { unfold int_ok. unfold len in *. change (2 ^ 26) with 67108864 in Hlen. change (2 ^ 63) with 9223372036854775808. lia. }
  { constructor. }
  pose proof Henc as Henc0.
  unfold ps_encode, ps_enc_size_offset, ps_enc_flag_shift, ps_enc_flag_or in Henc. rewrite He in Henc.
  destruct (N.ltb_spec size 1) as [?|_]; [lia|].
  rewrite Hlor, Hhd in Henc. inversion Henc; subst enc.
  exists b0, (tl ++ e). split; [exact Henc0|]. split; [|split; [assumption|assumption]].
  change (b0 :: tl ++ e) with ((b0 :: tl) ++ e). apply wf_bytes_app. auto.
Qed.

(* first octet -> instruction kind, by evaluation over the 256 octets *)
Definition ekind_n (k : ekind) : N :=
  match k with KInsertWithNameRef => 4 | KInsertWithoutNameRef => 2 | KDuplicate => 0 | KSizeUpdate => 1 | KEUnknown => 9 end.
Definition dkind_n (k : dkind) : N :=
  match k with KIncrement => 0 | KHeaderAck => 2 | KStreamCancel => 1 | KDUnknown => 9 end.

Lemma kind_check :
  forall_below 256 (fun b =>
    (ekind_n (ekind_of b) =? (if 4 <=? b / 32 then 4 else if 2 <=? b / 32 then 2 else b / 32)) &&
    (dkind_n (dkind_of b) =? (if 2 <=? b / 64 then 2 else b / 64))) = true.
Proof. vm_compute. reflexivity. Qed.

Lemma ekind_fact b : b < 256 ->
  ekind_n (ekind_of b) = (if 4 <=? b / 32 then 4 else if 2 <=? b / 32 then 2 else b / 32).
Proof.
  intros Hb. pose proof (forall_below_spec 256 _ kind_check b Hb) as H. cbv beta in H.
  apply andb_true_iff in H as [H _]. apply N.eqb_eq in H. exact H.
Qed.

Lemma dkind_fact b : b < 256 -> dkind_n (dkind_of b) = (if 2 <=? b / 64 then 2 else b / 64).
Proof.
  intros Hb. pose proof (forall_below_spec 256 _ kind_check b Hb) as H. cbv beta in H.
  apply andb_true_iff in H as [_ H]. apply N.eqb_eq in H. exact H.
Qed.

(* the dispatch never ends in Unknown (RFC 9204 4.3 / 4.4 leave no unassigned first octet) *)
Lemma kinds_total b : b < 256 -> ekind_of b <> KEUnknown /\ dkind_of b <> KDUnknown.
Proof.
  intros Hb. pose proof (ekind_fact b Hb) as He. pose proof (dkind_fact b Hb) as Hd.
  assert (b / 32 < 8) by lia. assert (b / 64 < 4) by lia.
  split; intros E; [rewrite E in He | rewrite E in Hd]; cbn [ekind_n dkind_n] in *.
  - destruct (4 <=? b / 32); [discriminate|]. destruct (2 <=? b / 32); [discriminate|]. lia.
  - destruct (2 <=? b / 64); [discriminate|]. lia.
Qed.

Ltac kind_is He :=
  match type of He with
  | ekind_n ?k = _ => destruct k; cbn [ekind_n] in He; try reflexivity; exfalso;
      repeat match type of He with context [?a <=? ?b] => destruct (N.leb_spec a b) end; lia
  | dkind_n ?k = _ => destruct k; cbn [dkind_n] in He; try reflexivity; exfalso;
      repeat match type of He with context [?a <=? ?b] => destruct (N.leb_spec a b) end; lia
  end.

Lemma len_cancel (w rest : bytes) : len (w ++ rest) - len rest = len w.
Proof. rewrite len_app. lia. Qed.

(* T1, encoder stream *)
Theorem parse_einstr_roundtrip i w rest :
  einstr_ok i -> wf_bytes rest -> wire_einstr i = Ok w ->
  parse_einstr (w ++ rest) = PComplete i (len w) /\ wf_bytes w /\ w <> [].
Proof.
  intros Hok Hr Hw. destruct i as [n|idx v|idx v|n v|idx]; cbn [einstr_ok wire_einstr] in *.
  - (* Set Dynamic Table Capacity *)
    destruct (pi_wire 5 1 n rest) as (b0 & tl & He & Hwf & Hb0 & Hdec); [lia|reflexivity|assumption|assumption|].
    rewrite He in Hw. inversion Hw; subst w. split; [|split; [assumption|discriminate]].
    pose proof Hwf as Hwf'. apply wf_bytes_cons in Hwf' as [Hb _].
    pose proof (ekind_fact b0 Hb) as Hk. change (2 ^ 5) with 32 in Hb0. rewrite Hb0 in Hk.
    assert (EK : ekind_of b0 = KSizeUpdate) by (kind_is Hk).
    change ((b0 :: tl) ++ rest) with (b0 :: tl ++ rest). unfold parse_einstr. rewrite EK.
    change (b0 :: tl ++ rest) with ((b0 :: tl) ++ rest).
    unfold dec_size_update, with_int. rewrite Hdec. change (1 =? 1) with true. cbv iota.
    unfold int_ok, u64_max in *. change (2 ^ 63) with 9223372036854775808 in Hok. change (2 ^ 5) with 32 in Hok.
    destruct (N.ltb_spec 18446744073709551615 n) as [?|_]; [lia|].
    unfold finish. rewrite len_cancel. reflexivity.
  - (* Insert With Name Reference, static *)
    destruct Hok as [Hi Hv].
    destruct (ps_wire 8 0 v rest) as (c0 & ctl & Hev & Hwv & _ & Hdv); [lia|reflexivity|assumption|assumption|].
    rewrite Hev in Hw.
    destruct (pi_wire 6 3 idx ((c0 :: ctl) ++ rest)) as (b0 & tl & He & Hwf & Hb0 & Hdec);
      [lia|reflexivity|assumption|apply wf_bytes_app; auto|].
    rewrite He in Hw. cbn [wcat] in Hw.
    assert (Ew : w = (b0 :: tl) ++ (c0 :: ctl)) by congruence. clear Hw. subst w.
    split; [|split; [apply wf_bytes_app; auto|discriminate]].
    pose proof Hwf as Hwf'. apply wf_bytes_cons in Hwf' as [Hb _].
    pose proof (ekind_fact b0 Hb) as Hk. change (2 ^ 6) with 64 in Hb0.
    assert (EK : ekind_of b0 = KInsertWithNameRef) by (kind_is Hk).
    rewrite <- app_assoc. change ((b0 :: tl) ++ (c0 :: ctl) ++ rest) with (b0 :: tl ++ (c0 :: ctl) ++ rest).
    unfold parse_einstr. rewrite EK.
    change (b0 :: tl ++ (c0 :: ctl) ++ rest) with ((b0 :: tl) ++ (c0 :: ctl) ++ rest).
    unfold dec_insert_name_ref, with_int. rewrite Hdec.
    change (negb (N.land 3 2 =? 2)) with false. cbv iota. unfold with_str. rewrite Hdv.
    change (N.land 3 1 =? 1) with true. cbv iota.
    unfold finish. rewrite app_assoc, len_cancel. reflexivity.
  - (* Insert With Name Reference, dynamic *)
    destruct Hok as [Hi Hv].
    destruct (ps_wire 8 0 v rest) as (c0 & ctl & Hev & Hwv & _ & Hdv); [lia|reflexivity|assumption|assumption|].
    rewrite Hev in Hw.
    destruct (pi_wire 6 2 idx ((c0 :: ctl) ++ rest)) as (b0 & tl & He & Hwf & Hb0 & Hdec);
      [lia|reflexivity|assumption|apply wf_bytes_app; auto|].
    rewrite He in Hw. cbn [wcat] in Hw.
    assert (Ew : w = (b0 :: tl) ++ (c0 :: ctl)) by congruence. clear Hw. subst w.
    split; [|split; [apply wf_bytes_app; auto|discriminate]].
    pose proof Hwf as Hwf'. apply wf_bytes_cons in Hwf' as [Hb _].
    pose proof (ekind_fact b0 Hb) as Hk. change (2 ^ 6) with 64 in Hb0.
    assert (EK : ekind_of b0 = KInsertWithNameRef) by (kind_is Hk).
    rewrite <- app_assoc. change ((b0 :: tl) ++ (c0 :: ctl) ++ rest) with (b0 :: tl ++ (c0 :: ctl) ++ rest).
    unfold parse_einstr. rewrite EK.
    change (b0 :: tl ++ (c0 :: ctl) ++ rest) with ((b0 :: tl) ++ (c0 :: ctl) ++ rest).
    unfold dec_insert_name_ref, with_int. rewrite Hdec.
    change (negb (N.land 2 2 =? 2)) with false. cbv iota. unfold with_str. rewrite Hdv.
    change (N.land 2 1 =? 1) with false. cbv iota.
    unfold finish. rewrite app_assoc, len_cancel. reflexivity.
  - (* Insert With Literal Name *)
    destruct Hok as [Hn Hv].
    destruct (ps_wire 8 0 v rest) as (c0 & ctl & Hev & Hwv & _ & Hdv); [lia|reflexivity|assumption|assumption|].
    rewrite Hev in Hw.
    destruct (ps_wire 6 1 n ((c0 :: ctl) ++ rest)) as (b0 & tl & He & Hwf & Hb0 & Hdec);
      [lia|reflexivity|assumption|apply wf_bytes_app; auto|].
    rewrite He in Hw. cbn [wcat] in Hw.
    assert (Ew : w = (b0 :: tl) ++ (c0 :: ctl)) by congruence. clear Hw. subst w.
    split; [|split; [apply wf_bytes_app; auto|discriminate]].
    pose proof Hwf as Hwf'. apply wf_bytes_cons in Hwf' as [Hb _].
    pose proof (ekind_fact b0 Hb) as Hk. change (2 ^ (6 - 1)) with 32 in Hb0. rewrite Hb0 in Hk.
    assert (EK : ekind_of b0 = KInsertWithoutNameRef) by (kind_is Hk).
    rewrite <- app_assoc. change ((b0 :: tl) ++ (c0 :: ctl) ++ rest) with (b0 :: tl ++ (c0 :: ctl) ++ rest).
    unfold parse_einstr. rewrite EK.
    change (b0 :: tl ++ (c0 :: ctl) ++ rest) with ((b0 :: tl) ++ (c0 :: ctl) ++ rest).
    unfold dec_insert_literal, with_str. rewrite Hdec, Hdv.
    unfold finish. rewrite app_assoc, len_cancel. reflexivity.
  - (* Duplicate *)
    destruct (pi_wire 5 0 idx rest) as (b0 & tl & He & Hwf & Hb0 & Hdec); [lia|reflexivity|assumption|assumption|].
    rewrite He in Hw. inversion Hw; subst w. split; [|split; [assumption|discriminate]].
    pose proof Hwf as Hwf'. apply wf_bytes_cons in Hwf' as [Hb _].
    pose proof (ekind_fact b0 Hb) as Hk. change (2 ^ 5) with 32 in Hb0. rewrite Hb0 in Hk.
    assert (EK : ekind_of b0 = KDuplicate) by (kind_is Hk).
    change ((b0 :: tl) ++ rest) with (b0 :: tl ++ rest). unfold parse_einstr. rewrite EK.
    change (b0 :: tl ++ rest) with ((b0 :: tl) ++ rest).
    unfold dec_duplicate, with_int. rewrite Hdec. change (0 =? 0) with true. cbv iota.
    unfold int_ok, u64_max in *. change (2 ^ 63) with 9223372036854775808 in Hok. change (2 ^ 5) with 32 in Hok.
    destruct (N.ltb_spec 18446744073709551615 idx) as [?|_]; [lia|].
    unfold finish. rewrite len_cancel. reflexivity.
Qed.

(* T1, decoder stream *)
Theorem parse_dinstr_roundtrip i w rest :
  dinstr_ok i -> wf_bytes rest -> wire_dinstr i = Ok w ->
  parse_dinstr (w ++ rest) = PComplete i (len w) /\ wf_bytes w /\ w <> [].
Proof.
  intros Hok Hr Hw. destruct i as [sid|sid|n]; cbn [dinstr_ok wire_dinstr] in *.
  - (* Section Acknowledgement *)
    destruct (pi_wire 7 1 sid rest) as (b0 & tl & He & Hwf & Hb0 & Hdec); [lia|reflexivity|assumption|assumption|].
    rewrite He in Hw. inversion Hw; subst w. split; [|split; [assumption|discriminate]].
    pose proof Hwf as Hwf'. apply wf_bytes_cons in Hwf' as [Hb _].
    pose proof (dkind_fact b0 Hb) as Hk. change (2 ^ 7) with 128 in Hb0.
    assert (EK : dkind_of b0 = KHeaderAck) by (kind_is Hk).
    change ((b0 :: tl) ++ rest) with (b0 :: tl ++ rest). unfold parse_dinstr. rewrite EK.
    change (b0 :: tl ++ rest) with ((b0 :: tl) ++ rest).
    unfold dec_header_ack, with_int. rewrite Hdec. change (1 =? 1) with true. cbv iota.
    unfold finish. rewrite len_cancel. reflexivity.
  - (* Stream Cancellation *)
    destruct (pi_wire 6 1 sid rest) as (b0 & tl & He & Hwf & Hb0 & Hdec); [lia|reflexivity|assumption|assumption|].
    rewrite He in Hw. inversion Hw; subst w. split; [|split; [assumption|discriminate]].
    pose proof Hwf as Hwf'. apply wf_bytes_cons in Hwf' as [Hb _].
    pose proof (dkind_fact b0 Hb) as Hk. change (2 ^ 6) with 64 in Hb0. rewrite Hb0 in Hk.
    assert (EK : dkind_of b0 = KStreamCancel) by (kind_is Hk).
    change ((b0 :: tl) ++ rest) with (b0 :: tl ++ rest). unfold parse_dinstr. rewrite EK.
    change (b0 :: tl ++ rest) with ((b0 :: tl) ++ rest).
    unfold dec_stream_cancel, with_int. rewrite Hdec. change (1 =? 1) with true. cbv iota.
    unfold finish. rewrite len_cancel. reflexivity.
  - (* Insert Count Increment *)
    assert (Hn : int_ok 6 n).
    { unfold int_ok, q_increment_limit in *. change (2 ^ 63) with 9223372036854775808. lia. }
    destruct (pi_wire 6 0 n rest) as (b0 & tl & He & Hwf & Hb0 & Hdec); [lia|reflexivity|assumption|assumption|].
    rewrite He in Hw. inversion Hw; subst w. split; [|split; [assumption|discriminate]].
    pose proof Hwf as Hwf'. apply wf_bytes_cons in Hwf' as [Hb _].
    pose proof (dkind_fact b0 Hb) as Hk. change (2 ^ 6) with 64 in Hb0. rewrite Hb0 in Hk.
    assert (EK : dkind_of b0 = KIncrement) by (kind_is Hk).
    change ((b0 :: tl) ++ rest) with (b0 :: tl ++ rest). unfold parse_dinstr. rewrite EK.
    change (b0 :: tl ++ rest) with ((b0 :: tl) ++ rest).
    unfold dec_increment, with_int. rewrite Hdec. change (0 =? 0) with true. cbv iota.
    destruct (N.ltb_spec q_increment_limit n) as [?|_]; [lia|].
    unfold finish. rewrite len_cancel. reflexivity.
Qed.

(* T2: every strict prefix of an instruction's wire form is Incomplete *)
Theorem parse_einstr_prefix_incomplete i w n :
  einstr_ok i -> wire_einstr i = Ok w -> (n < length w)%nat -> parse_einstr (firstn n w) = PIncomplete.
Proof.
  intros Hok Hw Hn.
  destruct (parse_einstr_roundtrip i w [] Hok ltac:(constructor) Hw) as (Hp & _ & _).
  destruct (parse_einstr_sd _ _ _ Hp) as (a & rest & Hbs & Hu & _ & _ & Htr).
  assert (a = w).
  { rewrite app_nil_r in Hbs. assert (Hl : length a = length w) by (unfold len in Hu; lia).
    rewrite Hbs in Hl. rewrite app_length in Hl. destruct rest; [rewrite app_nil_r in Hbs; congruence|cbn [length] in Hl; lia]. }
  subst a. apply Htr. assumption.
Qed.

Theorem parse_dinstr_prefix_incomplete i w n :
  dinstr_ok i -> wire_dinstr i = Ok w -> (n < length w)%nat -> parse_dinstr (firstn n w) = PIncomplete.
Proof.
  intros Hok Hw Hn.
  destruct (parse_dinstr_roundtrip i w [] Hok ltac:(constructor) Hw) as (Hp & _ & _).
  destruct (parse_dinstr_sd _ _ _ Hp) as (a & rest & Hbs & Hu & _ & _ & Htr).
  assert (a = w).
  { rewrite app_nil_r in Hbs. assert (Hl : length a = length w) by (unfold len in Hu; lia).
    rewrite Hbs in Hl. rewrite app_length in Hl. destruct rest; [rewrite app_nil_r in Hbs; congruence|cbn [length] in Hl; lia]. }
  subst a. apply Htr. assumption.
Qed.

(* ------------------------------------------------------------------ 3./4. streams of instructions *)
Lemma wire_list_cons {A} (f : A -> res unit bytes) x r W :
  wire_list f (x :: r) = Ok W -> exists w W', f x = Ok w /\ wire_list f r = Ok W' /\ W = w ++ W'.
Proof.
  cbn [wire_list]. unfold wcat. destruct (f x) as [w|e|s]; try discriminate.
  destruct (wire_list f r) as [W'|e|s]; try discriminate.
  intros H. exists w, W'. split; [reflexivity|]. split; [reflexivity|]. congruence.
Qed.

Section Stream.
  Context {A : Type}.
  Variable wire : A -> res unit bytes.
  Variable parse : bytes -> presult A.
  Variable ok : A -> Prop.
  Hypothesis parse_nil : parse [] = PIncomplete.
  Hypothesis rt : forall i w rest, ok i -> wf_bytes rest -> wire i = Ok w ->
    parse (w ++ rest) = PComplete i (len w) /\ wf_bytes w /\ w <> [].
  Hypothesis inc : forall i w n, ok i -> wire i = Ok w -> (n < length w)%nat -> parse (firstn n w) = PIncomplete.

  Lemma wire_list_wf q : forall W, Forall ok q -> wire_list wire q = Ok W -> wf_bytes W.
  Proof.
    induction q as [|x r IH]; intros W Hok HW.
    - inversion HW. constructor.
    - destruct (wire_list_cons _ _ _ _ HW) as (w & W' & Hw & HW' & ->). inversion Hok; subst.
      apply wf_bytes_app. split; [|eapply IH; eauto].
      destruct (rt x w [] ltac:(assumption) ltac:(constructor) Hw) as (_ & Hwf & _). exact Hwf.
  Qed.

  Lemma wire_len_is_len q : forall W, wire_list wire q = Ok W -> wire_len wire q = len W.
  Proof.
    induction q as [|x r IH]; intros W HW.
    - inversion HW. reflexivity.
    - destruct (wire_list_cons _ _ _ _ HW) as (w & W' & Hw & HW' & ->).
      cbn [wire_len]. rewrite Hw, (IH _ HW'), len_app. reflexivity.
  Qed.

  (* T3 with explicit fuel *)
  Lemma parse_all_fuel_prefix q : forall W n fuel,
    Forall ok q -> wire_list wire q = Ok W -> (n <= length W)%nat -> (n < fuel)%nat ->
    parse_all_fuel parse fuel (firstn n W) =
      (firstn (N.to_nat (fst (complete_within wire (N.of_nat n) q))) q,
       skipn (N.to_nat (snd (complete_within wire (N.of_nat n) q))) (firstn n W), StopIncomplete).
  Proof.
    induction q as [|x r IH]; intros W n fuel Hok HW Hn Hf.
    - inversion HW; subst W. cbn [length] in Hn. replace n with 0%nat by lia.
      destruct fuel as [|f]; [lia|]. cbn [firstn parse_all_fuel complete_within fst snd]. rewrite parse_nil. reflexivity.
    - destruct (wire_list_cons _ _ _ _ HW) as (w & W' & Hw & HW' & ->). inversion Hok as [|? ? Hx Hr]; subst.
      pose proof (wire_list_wf r W' Hr HW') as HwfW'.
      destruct fuel as [|f]; [lia|].
      cbn [complete_within]. rewrite Hw.
      destruct (N.leb_spec (len w) (N.of_nat n)) as [Hfit|Hnofit].
      + assert (Hlw : (length w <= n)%nat) by (unfold len in Hfit; lia).
        rewrite firstn_app_ge by assumption.
        destruct (rt x w (firstn (n - length w) W') Hx (wf_bytes_firstn _ _ HwfW') Hw) as (Hp & _ & Hne).
        cbn [parse_all_fuel]. rewrite Hp.
        replace (N.to_nat (len w)) with (length w) by (unfold len; lia).
        rewrite skipn_app_exact.
        assert (Hw1 : (1 <= length w)%nat) by (destruct w; [contradiction|cbn [length]; lia]).
        rewrite app_length in Hn.
        rewrite (IH W' (n - length w)%nat f Hr HW') by lia.
        replace (N.of_nat n - len w) with (N.of_nat (n - length w)) by (unfold len; lia).
        destruct (complete_within wire (N.of_nat (n - length w)) r) as [k used]. cbn [fst snd].
        replace (N.to_nat (k + 1)) with (S (N.to_nat k)) by lia. cbn [firstn].
        f_equal. f_equal.
        rewrite skipn_app_ge by (unfold len; lia). f_equal. unfold len. lia.
      + assert (Hlw : (n < length w)%nat) by (unfold len in Hnofit; lia).
        rewrite firstn_app_le by lia.
        cbn [parse_all_fuel]. rewrite (inc x w n Hx Hw Hlw). reflexivity.
  Qed.

  (* T3: the first n bytes of a wire stream parse to the instructions that are complete within them *)
  Theorem parse_all_prefix q W n :
    Forall ok q -> wire_list wire q = Ok W -> n <= len W ->
    parse_all parse (firstn (N.to_nat n) W) =
      (firstn (N.to_nat (fst (complete_within wire n q))) q,
       skipn (N.to_nat (snd (complete_within wire n q))) (firstn (N.to_nat n) W), StopIncomplete).
  Proof.
    intros Hok HW Hn. unfold parse_all.
    assert (Hn' : (N.to_nat n <= length W)%nat) by (unfold len in Hn; lia).
    rewrite (parse_all_fuel_prefix q W (N.to_nat n)); [|assumption|assumption|assumption|rewrite firstn_length; lia].
    rewrite N2Nat.id. reflexivity.
  Qed.

  (* facts about complete_within *)
  Lemma cw_split q : forall W m,
    Forall ok q -> wire_list wire q = Ok W ->
    let k := N.to_nat (fst (complete_within wire m q)) in
    let used := N.to_nat (snd (complete_within wire m q)) in
    snd (complete_within wire m q) <= m /\ (used <= length W)%nat /\
    wire_list wire (skipn k q) = Ok (skipn used W) /\ Forall ok (skipn k q) /\
    complete_within wire (m - snd (complete_within wire m q)) (skipn k q) = (0, 0).
  Proof.
    induction q as [|x r IH]; intros W m Hok HW.
    - inversion HW; subst W. cbn. repeat split; try lia. constructor.
    - destruct (wire_list_cons _ _ _ _ HW) as (w & W' & Hw & HW' & ->). inversion Hok as [|? ? Hx Hr]; subst.
      cbn [complete_within]. rewrite Hw.
      destruct (N.leb_spec (len w) m) as [Hfit|Hnofit].
      + specialize (IH W' (m - len w) Hr HW'). cbv zeta in IH.
        destruct (complete_within wire (m - len w) r) as [k used]. cbn [fst snd] in *.
        destruct IH as (I1 & I2 & I3 & I4 & I5).
        replace (N.to_nat (k + 1)) with (S (N.to_nat k)) by lia. cbn [skipn].
        split; [lia|]. split; [rewrite app_length; unfold len in *; lia|]. split; [|split; [assumption|]].
        * rewrite skipn_app_ge by (unfold len; lia). rewrite I3. f_equal. f_equal. unfold len. lia.
        * replace (m - (used + len w)) with (m - len w - used) by lia. exact I5.
      + cbn [fst snd]. change (N.to_nat 0) with 0%nat. cbn [skipn]. rewrite N.sub_0_r.
        split; [lia|]. split; [lia|]. split; [assumption|]. split; [assumption|].
        cbn [complete_within]. rewrite Hw. destruct (N.leb_spec (len w) m); [lia|reflexivity].
  Qed.

  Lemma cw_all q : forall W, Forall ok q -> wire_list wire q = Ok W ->
    complete_within wire (len W) q = (N.of_nat (length q), len W).
  Proof.
    induction q as [|x r IH]; intros W Hok HW.
    - inversion HW. reflexivity.
    - destruct (wire_list_cons _ _ _ _ HW) as (w & W' & Hw & HW' & ->). inversion Hok as [|? ? Hx Hr]; subst.
      cbn [complete_within]. rewrite Hw, len_app.
      destruct (N.leb_spec (len w) (len w + len W')) as [_|?]; [|lia].
      replace (len w + len W' - len w) with (len W') by lia. rewrite (IH W' Hr HW').
      f_equal; cbn [length]; lia.
  Qed.

  Lemma cw_zero q W : Forall ok q -> wire_list wire q = Ok W -> complete_within wire 0 q = (0, 0).
  Proof.
    intros Hok HW. destruct q as [|x r]; [reflexivity|].
    destruct (wire_list_cons _ _ _ _ HW) as (w & W' & Hw & HW' & ->). inversion Hok as [|? ? Hx Hr]; subst.
    cbn [complete_within]. rewrite Hw.
    destruct (rt x w [] Hx ltac:(constructor) Hw) as (_ & _ & Hne).
    destruct (N.leb_spec (len w) 0) as [Hc|_]; [|reflexivity].
    destruct w; [contradiction|]. unfold len in Hc. cbn [length] in Hc. lia.
  Qed.

  (* T4, general form: a receiver holding a tail that completes no instruction, fed the rest of the stream in pieces *)
  Lemma feed_chunks chunks : forall tail q W,
    Forall ok q -> wire_list wire q = Ok W -> tail ++ concat chunks = W ->
    complete_within wire (len tail) q = (0, 0) ->
    feed parse tail chunks = (q, [], StopIncomplete).
  Proof.
    induction chunks as [|c cs IH]; intros tail q W Hok HW Hcat Hcw.
    - cbn [concat] in Hcat. rewrite app_nil_r in Hcat. subst tail.
      rewrite (cw_all q W Hok HW) in Hcw. inversion Hcw as [[Hq HWl]].
      destruct q; [|cbn [length] in Hq; lia]. inversion HW. reflexivity.
    - cbn [concat] in Hcat. rewrite app_assoc in Hcat.
      cbn [feed].
      assert (Hpre : tail ++ c = firstn (N.to_nat (len (tail ++ c))) W).
      { unfold len. rewrite Nat2N.id, <- Hcat. symmetry. apply firstn_app_exact. }
      assert (Hle : len (tail ++ c) <= len W) by (rewrite <- Hcat, !len_app; lia).
      rewrite Hpre at 1. rewrite (parse_all_prefix q W (len (tail ++ c)) Hok HW Hle). rewrite <- Hpre.
      pose proof (cw_split q W (len (tail ++ c)) Hok HW) as Hs. cbv zeta in Hs.
      destruct (complete_within wire (len (tail ++ c)) q) as [k used]. cbn [fst snd] in *.
      destruct Hs as (S1 & S2 & S3 & S4 & S5).
      assert (Hul : (N.to_nat used <= length (tail ++ c))%nat) by (unfold len in S1; lia).
      rewrite (IH (skipn (N.to_nat used) (tail ++ c)) (skipn (N.to_nat k) q) (skipn (N.to_nat used) W)); try assumption.
      + rewrite firstn_skipn. reflexivity.
      + rewrite <- Hcat. symmetry. apply skipn_app_le. assumption.
      + replace (len (skipn (N.to_nat used) (tail ++ c))) with (len (tail ++ c) - used); [exact S5|].
        unfold len. rewrite skipn_length. unfold len in S1. lia.
  Qed.

  (* T4: however the stream is cut into pieces, the receiver ends up with exactly the instruction list, nothing left over *)
  Theorem feed_any_chunking q W chunks :
    Forall ok q -> wire_list wire q = Ok W -> concat chunks = W -> feed parse [] chunks = (q, [], StopIncomplete).
  Proof.
    intros Hok HW Hcat. apply (feed_chunks chunks [] q W Hok HW); [exact Hcat|].
    change (len []) with 0. eapply cw_zero; eauto.
  Qed.
End Stream.

Lemma parse_einstr_nil : parse_einstr [] = PIncomplete. Proof. reflexivity. Qed.
Lemma parse_dinstr_nil : parse_dinstr [] = PIncomplete. Proof. reflexivity. Qed.

Theorem parse_all_einstr_prefix q W n :
  Forall einstr_ok q -> wire_einstrs q = Ok W -> n <= len W ->
  parse_all parse_einstr (firstn (N.to_nat n) W) =
    (firstn (N.to_nat (fst (complete_within wire_einstr n q))) q,
     skipn (N.to_nat (snd (complete_within wire_einstr n q))) (firstn (N.to_nat n) W), StopIncomplete).
Proof. exact (parse_all_prefix wire_einstr parse_einstr einstr_ok parse_einstr_nil parse_einstr_roundtrip parse_einstr_prefix_incomplete q W n). Qed.

Theorem parse_all_dinstr_prefix q W n :
  Forall dinstr_ok q -> wire_list wire_dinstr q = Ok W -> n <= len W ->
  parse_all parse_dinstr (firstn (N.to_nat n) W) =
    (firstn (N.to_nat (fst (complete_within wire_dinstr n q))) q,
     skipn (N.to_nat (snd (complete_within wire_dinstr n q))) (firstn (N.to_nat n) W), StopIncomplete).
Proof. exact (parse_all_prefix wire_dinstr parse_dinstr dinstr_ok parse_dinstr_nil parse_dinstr_roundtrip parse_dinstr_prefix_incomplete q W n). Qed.

Theorem feed_einstr_any_chunking q W chunks :
  Forall einstr_ok q -> wire_einstrs q = Ok W -> concat chunks = W -> feed parse_einstr [] chunks = (q, [], StopIncomplete).
Proof. exact (feed_any_chunking wire_einstr parse_einstr einstr_ok parse_einstr_nil parse_einstr_roundtrip parse_einstr_prefix_incomplete q W chunks). Qed.

Theorem feed_dinstr_any_chunking q W chunks :
  Forall dinstr_ok q -> wire_list wire_dinstr q = Ok W -> concat chunks = W -> feed parse_dinstr [] chunks = (q, [], StopIncomplete).
Proof. exact (feed_any_chunking wire_dinstr parse_dinstr dinstr_ok parse_dinstr_nil parse_dinstr_roundtrip parse_dinstr_prefix_incomplete q W chunks). Qed.

(* ------------------------------------------------------------------ the byte-granular step of Model/QBytes.v *)
(* the number of instructions Model/QBytes.bop_op hands over for `BDeliverBytes n` / `BFeedbackBytes n`, and the number of
   pending bytes it records, are what parse_all returns on the bytes the receiver holds at that point (its pending bytes
   followed by the next n bytes of the stream, i.e. the first `avail` bytes of the wire form of the queue) *)
Theorem bop_deliver_bytes_is_parse_all b n W :
  Forall einstr_ok (s_eq (b_sys b)) -> wire_einstrs (s_eq (b_sys b)) = Ok W ->
  exists k tail,
    bop_op b (BDeliverBytes n) = (ODeliver k, len tail, b_dpend b) /\
    parse_all parse_einstr (firstn (N.to_nat (N.min (b_epend b + n) (len W))) W) =
      (firstn (N.to_nat k) (s_eq (b_sys b)), tail, StopIncomplete).
Proof.
  intros Hok HW. cbn [bop_op]. unfold wire_einstrs in HW.
  rewrite (wire_len_is_len wire_einstr _ W HW).
  set (avail := N.min (b_epend b + n) (len W)).
  assert (Hle : avail <= len W) by (unfold avail; lia).
  pose proof (parse_all_einstr_prefix _ W avail Hok HW Hle) as Hp.
  pose proof (cw_split wire_einstr parse_einstr einstr_ok parse_einstr_roundtrip parse_einstr_prefix_incomplete _ W avail Hok HW) as Hs. cbv zeta in Hs.
  destruct (complete_within wire_einstr avail (s_eq (b_sys b))) as [k used]. cbn [fst snd] in *.
  destruct Hs as (S1 & _).
  exists k, (skipn (N.to_nat used) (firstn (N.to_nat avail) W)). split; [|exact Hp].
  f_equal. f_equal. unfold len in *. rewrite skipn_length, firstn_length. lia.
Qed.

Theorem bop_feedback_bytes_is_parse_all b n W :
  Forall dinstr_ok (s_dq (b_sys b)) -> wire_list wire_dinstr (s_dq (b_sys b)) = Ok W ->
  exists k tail,
    bop_op b (BFeedbackBytes n) = (OFeedback k, b_epend b, len tail) /\
    parse_all parse_dinstr (firstn (N.to_nat (N.min (b_dpend b + n) (len W))) W) =
      (firstn (N.to_nat k) (s_dq (b_sys b)), tail, StopIncomplete).
Proof.
  intros Hok HW. cbn [bop_op].
  rewrite (wire_len_is_len wire_dinstr _ W HW).
  set (avail := N.min (b_dpend b + n) (len W)).
  assert (Hle : avail <= len W) by (unfold avail; lia).
  pose proof (parse_all_dinstr_prefix _ W avail Hok HW Hle) as Hp.
  pose proof (cw_split wire_dinstr parse_dinstr dinstr_ok parse_dinstr_roundtrip parse_dinstr_prefix_incomplete _ W avail Hok HW) as Hs. cbv zeta in Hs.
  destruct (complete_within wire_dinstr avail (s_dq (b_sys b))) as [k used]. cbn [fst snd] in *.
  destruct Hs as (S1 & _).
  exists k, (skipn (N.to_nat used) (firstn (N.to_nat avail) W)). split; [|exact Hp].
  f_equal. unfold len in *. rewrite skipn_length, firstn_length. lia.
Qed.

(* ------------------------------------------------------------------ no panic, on any input *)
Definition np {A} (q : bytes -> dres A) : Prop := forall r, wf_bytes r -> is_panic (q r) = false.

Lemma np_int {A} size (k : N -> N -> bytes -> dres A) :
  1 <= size <= 8 -> (forall f x, np (k f x)) -> np (fun bs => with_int size bs k).
Proof.
  intros Hs Hk r Hr. unfold with_int.
  pose proof (pi_decode_no_panic size r Hs Hr) as Hnp.
  destruct (pi_decode size r) as [[[f v] r1]|e|p] eqn:EP; [|destruct e; reflexivity|discriminate].
  destruct (pi_decode_sd _ _ _ _ _ EP) as (b0 & a & Hbs & _). subst r.
  apply wf_bytes_app in Hr as [_ Hr1]. apply Hk. exact Hr1.
Qed.

Lemma np_str {A} size (k : bytes -> bytes -> dres A) :
  2 <= size <= 8 -> (forall v, np (k v)) -> np (fun bs => with_str size bs k).
Proof.
  intros Hs Hk r Hr. unfold with_str.
  pose proof (ps_decode_no_panic size r Hs Hr) as Hnp.
  destruct (ps_decode size r) as [[v r1]|e|p] eqn:EP; [|destruct e; reflexivity|discriminate].
  destruct (ps_decode_sd _ _ _ _ EP) as (b0 & a & Hbs & _). subst r.
  apply wf_bytes_app in Hr as [_ Hr1]. apply Hk. exact Hr1.
Qed.

Lemma finish_np {A} (p : bytes -> dres A) bs s : np p -> wf_bytes bs -> finish bs (p bs) <> PPanic s.
Proof.
  intros Hp Hwf. specialize (Hp bs Hwf). unfold finish.
  destruct (p bs) as [[[x r]|]|e|s']; try discriminate.
Qed.

Theorem parse_einstr_no_panic bs s : wf_bytes bs -> parse_einstr bs <> PPanic s.
Proof.
  intros Hwf. destruct bs as [|first tl]; [discriminate|]. unfold parse_einstr.
  destruct (ekind_of first); [| | | |discriminate]; apply finish_np; try assumption.
  - unfold dec_insert_name_ref. apply np_int; [lia|]. intros f x r Hr.
    destruct (negb (N.land f 2 =? 2)); [reflexivity|].
    apply np_str; [lia| |exact Hr]. intros v r' _. reflexivity.
  - unfold dec_insert_literal. apply np_str; [lia|]. intros n r Hr.
    apply np_str; [lia| |exact Hr]. intros v r' _. reflexivity.
  - unfold dec_duplicate. apply np_int; [lia|]. intros f x r _.
    destruct (f =? 0); [|reflexivity]. destruct (u64_max <? x); reflexivity.
  - unfold dec_size_update. apply np_int; [lia|]. intros f x r _.
    destruct (f =? 1); [|reflexivity]. destruct (u64_max <? x); reflexivity.
Qed.

Theorem parse_dinstr_no_panic bs s : wf_bytes bs -> parse_dinstr bs <> PPanic s.
Proof.
  intros Hwf. destruct bs as [|first tl]; [discriminate|]. unfold parse_dinstr.
  destruct (dkind_of first); [| | |discriminate]; apply finish_np; try assumption.
  - unfold dec_increment. apply np_int; [lia|]. intros f x r _.
    destruct (f =? 0); [|reflexivity]. destruct (q_increment_limit <? x); reflexivity.
  - unfold dec_header_ack. apply np_int; [lia|]. intros f x r _. destruct (f =? 1); reflexivity.
  - unfold dec_stream_cancel. apply np_int; [lia|]. intros f x r _. destruct (f =? 1); reflexivity.
Qed.

(* the receive loop on ANY input: no panic (the fuel of the model is never exhausted), the tail is a suffix of the input
   and the bytes before it are exactly the bytes the parsed instructions took *)
Section Loop.
  Context {A : Type}.
  Variable parse : bytes -> presult A.
  Hypothesis parse_sd : forall bs i used, parse bs = PComplete i used ->
    exists a rest, bs = a ++ rest /\ used = len a /\ 0 < used /\
      (forall t, parse (a ++ t) = PComplete i used) /\
      (forall n, (n < length a)%nat -> parse (firstn n a) = PIncomplete).
  Hypothesis parse_np : forall bs s, wf_bytes bs -> parse bs <> PPanic s.

  Lemma parse_all_fuel_any fuel : forall bs xs tail st,
    wf_bytes bs -> (length bs < fuel)%nat -> parse_all_fuel parse fuel bs = (xs, tail, st) ->
    (forall s, st <> StopPanic s) /\ (exists pre, bs = pre ++ tail) /\
    match st with
    | StopIncomplete => parse tail = PIncomplete
    | StopError e => parse tail = PError e
    | StopPanic _ => False
    end.
  Proof.
    induction fuel as [|f IH]; intros bs xs tail st Hwf Hf H; [lia|].
    cbn [parse_all_fuel] in H.
    destruct (parse bs) as [x used| |e|s] eqn:EP.
    - destruct (parse_sd _ _ _ EP) as (a & rest & Hbs & Hu & Hpos & _).
      assert (Hsk : skipn (N.to_nat used) bs = rest).
      { rewrite Hbs, Hu. unfold len. rewrite Nat2N.id. apply skipn_app_exact. }
      rewrite Hsk in H.
      destruct (parse_all_fuel parse f rest) as [[ys t'] st'] eqn:ER. inversion H; subst xs tail st.
      assert (Hwr : wf_bytes rest) by (rewrite Hbs in Hwf; apply wf_bytes_app in Hwf; tauto).
      assert (Hlr : (length rest < f)%nat).
      { rewrite Hbs, app_length in Hf. unfold len in Hu. lia. }
      destruct (IH _ _ _ _ Hwr Hlr ER) as (I1 & (pre & I2) & I3).
      split; [assumption|]. split; [|assumption]. exists (a ++ pre). rewrite Hbs, I2, app_assoc. reflexivity.
    - inversion H; subst. split; [discriminate|]. split; [exists []; reflexivity|assumption].
    - inversion H; subst. split; [discriminate|]. split; [exists []; reflexivity|assumption].
    - exfalso. exact (parse_np bs s Hwf EP).
  Qed.

  Theorem parse_all_any bs xs tail st :
    wf_bytes bs -> parse_all parse bs = (xs, tail, st) ->
    (forall s, st <> StopPanic s) /\ (exists pre, bs = pre ++ tail) /\
    match st with
    | StopIncomplete => parse tail = PIncomplete
    | StopError e => parse tail = PError e
    | StopPanic _ => False
    end.
  Proof. intros Hwf H. apply (parse_all_fuel_any (S (length bs)) bs xs tail st Hwf); [lia|exact H]. Qed.
End Loop.

Theorem parse_all_einstr_any bs xs tail st :
  wf_bytes bs -> parse_all parse_einstr bs = (xs, tail, st) ->
  (forall s, st <> StopPanic s) /\ (exists pre, bs = pre ++ tail) /\
  match st with
  | StopIncomplete => parse_einstr tail = PIncomplete
  | StopError e => parse_einstr tail = PError e
  | StopPanic _ => False
  end.
Proof. exact (parse_all_any parse_einstr parse_einstr_sd parse_einstr_no_panic bs xs tail st). Qed.

Theorem parse_all_dinstr_any bs xs tail st :
  wf_bytes bs -> parse_all parse_dinstr bs = (xs, tail, st) ->
  (forall s, st <> StopPanic s) /\ (exists pre, bs = pre ++ tail) /\
  match st with
  | StopIncomplete => parse_dinstr tail = PIncomplete
  | StopError e => parse_dinstr tail = PError e
  | StopPanic _ => False
  end.
Proof. exact (parse_all_any parse_dinstr parse_dinstr_sd parse_dinstr_no_panic bs xs tail st). Qed.

(* outside the round trip: Decoder::on_encoder_recv writes InsertCountIncrement(n) for any n <= 255 (u8::try_from), but
   InsertCountIncrement::decode refuses n > 64 *)
Lemma increment_above_limit_rejected :
  wire_dinstr (DIncrement 65) = Ok [63; 2] /\ parse_dinstr [63; 2] = PError (PEInteger PiOverflow).
Proof. split; vm_compute; reflexivity. Qed.

(* ------------------------------------------------------------------ 5. decided answers are stable under extension *)
(* whatever a decoder answers other than "unexpected end" it answers on every extension of its input, with the extension
   appended to what it left unread *)
Definition ext3 {E X} (r : res E (X * bytes)) (t : bytes) : res E (X * bytes) :=
  match r with Ok (x, rest) => Ok (x, rest ++ t) | other => other end.

Lemma pi_dec_loop_stable bs : forall value power t,
  pi_dec_loop bs value power <> Err PiUnexpectedEnd ->
  pi_dec_loop (bs ++ t) value power = ext3 (pi_dec_loop bs value power) t.
Proof.
  induction bs as [|b r IH]; intros value power t H; [contradiction H; reflexivity|].
  cbn [app pi_dec_loop] in *.
  destruct (64 <=? power); [reflexivity|].
  destruct (2 ^ 64 <=? value + N.shiftl (N.land b pi_dec_val_mask) power mod 2 ^ 64); [reflexivity|].
  destruct (N.land b pi_dec_cont_mask =? 0); [reflexivity|].
  destruct (cmp_ge pi_dec_overflow_ge (power + pi_dec_step) pi_max_power); [reflexivity|].
  apply IH. exact H.
Qed.

Lemma pi_decode_stable size bs t :
  pi_decode size bs <> Err PiUnexpectedEnd ->
  pi_decode size (bs ++ t) = match pi_decode size bs with Ok (f, x, rest) => Ok (f, x, rest ++ t) | other => other end.
Proof.
  unfold pi_decode.
  destruct (negb (cmp_lt (negb pi_dec_size_le) size pi_dec_size_max)); [reflexivity|].
  destruct bs as [|b0 r]; [intros H; contradiction H; reflexivity|]. cbn [app].
  destruct (pi_dec_mask_width <? size); [reflexivity|].
  destruct (8 <=? pi_dec_mask_width - size); [reflexivity|].
  set (mask := N.shiftr pi_dec_mask_full (pi_dec_mask_width - size)).
  destruct (cmp_lt pi_dec_short_lt (N.land b0 mask) mask); [reflexivity|].
  intros H.
  assert (H' : pi_dec_loop r mask pi_dec_power_init <> Err PiUnexpectedEnd).
  { intros E. rewrite E in H. contradiction H; reflexivity. }
  rewrite (pi_dec_loop_stable r mask pi_dec_power_init t H').
  destruct (pi_dec_loop r mask pi_dec_power_init) as [[v rest]|e|p]; reflexivity.
Qed.

Lemma ps_decode_stable size bs t :
  ps_decode size bs <> Err PsUnexpectedEnd ->
  ps_decode size (bs ++ t) = ext3 (ps_decode size bs) t.
Proof.
  unfold ps_decode, ps_dec_remaining_lt.
  destruct (size <? ps_dec_size_offset); [reflexivity|].
  intros H.
  assert (H' : pi_decode (size - ps_dec_size_offset) bs <> Err PiUnexpectedEnd).
  { intros E. rewrite E in H. contradiction H; reflexivity. }
  rewrite (pi_decode_stable _ bs t H').
  destruct (pi_decode (size - ps_dec_size_offset) bs) as [[[f n] r]|e|p]; [|destruct e; reflexivity|reflexivity].
  destruct (N.ltb_spec (len r) n) as [|Hge]; [contradiction H; reflexivity|].
  assert (Hk : (N.to_nat n <= length r)%nat) by (unfold len in Hge; lia).
  destruct (N.ltb_spec (len (r ++ t)) n) as [Hc|_]; [rewrite len_app in Hc; lia|].
  rewrite (firstn_app_le _ r t Hk), (skipn_app_le _ r t Hk).
  destruct (N.land f ps_dec_h_mask =? 0); [reflexivity|].
  destruct (2 ^ ps_dec_guard_width - 1 <? ps_guard_value n); [reflexivity|].
  destruct (hpack_decode (firstn (N.to_nat n) r)); reflexivity.
Qed.

Definition extd {A} (r : dres A) (t : bytes) : dres A :=
  match r with Ok (Some (x, rest)) => Ok (Some (x, rest ++ t)) | other => other end.

Definition stk {A} (q : bytes -> dres A) : Prop := forall r t, q r <> Ok None -> q (r ++ t) = extd (q r) t.

Lemma stk_int {A} size (k : N -> N -> bytes -> dres A) : (forall f x, stk (k f x)) -> stk (fun bs => with_int size bs k).
Proof.
  intros Hk r t H. unfold with_int in *.
  assert (H' : pi_decode size r <> Err PiUnexpectedEnd).
  { intros E. rewrite E in H. contradiction H; reflexivity. }
  rewrite (pi_decode_stable size r t H').
  destruct (pi_decode size r) as [[[f v] r1]|e|p]; [|destruct e; reflexivity|reflexivity].
  apply Hk. exact H.
Qed.

Lemma stk_str {A} size (k : bytes -> bytes -> dres A) : (forall v, stk (k v)) -> stk (fun bs => with_str size bs k).
Proof.
  intros Hk r t H. unfold with_str in *.
  assert (H' : ps_decode size r <> Err PsUnexpectedEnd).
  { intros E. rewrite E in H. contradiction H; reflexivity. }
  rewrite (ps_decode_stable size r t H'). unfold ext3.
  destruct (ps_decode size r) as [[v r1]|e|p]; [|destruct e; reflexivity|reflexivity].
  apply Hk. exact H.
Qed.

Lemma stk_ite {A} (c : bool) (q1 q2 : bytes -> dres A) : stk q1 -> stk q2 -> stk (fun r => if c then q1 r else q2 r).
Proof. intros H1 H2. destruct c; assumption. Qed.
Lemma stk_err {A} (e : perr) : stk (fun _ : bytes => (Err e : dres A)).
Proof. intros r t _. reflexivity. Qed.
Lemma stk_ok {A} (x : A) : stk (fun r : bytes => (Ok (Some (x, r)) : dres A)).
Proof. intros r t _. reflexivity. Qed.

Lemma dec_insert_name_ref_st : stk dec_insert_name_ref.
Proof.
  unfold dec_insert_name_ref. apply stk_int. intros f idx.
  apply (stk_ite (negb (N.land f 2 =? 2))); [apply stk_err|]. apply stk_str. intros v. apply stk_ok.
Qed.
Lemma dec_insert_literal_st : stk dec_insert_literal.
Proof. unfold dec_insert_literal. apply stk_str. intros n. apply stk_str. intros v. apply stk_ok. Qed.
Lemma dec_duplicate_st : stk dec_duplicate.
Proof.
  unfold dec_duplicate. apply stk_int. intros f x.
  apply (stk_ite (f =? 0)); [|apply stk_err]. apply (stk_ite (u64_max <? x)); [apply stk_err|apply stk_ok].
Qed.
Lemma dec_size_update_st : stk dec_size_update.
Proof.
  unfold dec_size_update. apply stk_int. intros f x.
  apply (stk_ite (f =? 1)); [|apply stk_err]. apply (stk_ite (u64_max <? x)); [apply stk_err|apply stk_ok].
Qed.
Lemma dec_increment_st : stk dec_increment.
Proof.
  unfold dec_increment. apply stk_int. intros f x.
  apply (stk_ite (f =? 0)); [|apply stk_err]. apply (stk_ite (q_increment_limit <? x)); [apply stk_err|apply stk_ok].
Qed.
Lemma dec_header_ack_st : stk dec_header_ack.
Proof. unfold dec_header_ack. apply stk_int. intros f x. apply (stk_ite (f =? 1)); [apply stk_ok|apply stk_err]. Qed.
Lemma dec_stream_cancel_st : stk dec_stream_cancel.
Proof. unfold dec_stream_cancel. apply stk_int. intros f x. apply (stk_ite (f =? 1)); [apply stk_ok|apply stk_err]. Qed.

Lemma finish_stable {A} (p : bytes -> dres A) bs t : stk p ->
  finish bs (p bs) <> PIncomplete -> finish (bs ++ t) (p (bs ++ t)) = finish bs (p bs).
Proof.
  intros Hp H.
  assert (H' : p bs <> Ok None) by (intros E; rewrite E in H; contradiction H; reflexivity).
  rewrite (Hp bs t H'). unfold finish, extd.
  destruct (p bs) as [[[x rest]|]|e|s]; try reflexivity.
  f_equal. rewrite !len_app. lia.
Qed.

(* a complete instruction, an error (or a panic) is not changed by more bytes: only Incomplete ever is *)
Theorem parse_einstr_stable bs t : parse_einstr bs <> PIncomplete -> parse_einstr (bs ++ t) = parse_einstr bs.
Proof.
  destruct bs as [|first tl]; [intros H; contradiction H; reflexivity|].
  change ((first :: tl) ++ t) with (first :: tl ++ t). unfold parse_einstr.
  destruct (ekind_of first); [| | | |reflexivity]; change (first :: tl ++ t) with ((first :: tl) ++ t); apply finish_stable.
  - exact dec_insert_name_ref_st.
  - exact dec_insert_literal_st.
  - exact dec_duplicate_st.
  - exact dec_size_update_st.
Qed.

Theorem parse_dinstr_stable bs t : parse_dinstr bs <> PIncomplete -> parse_dinstr (bs ++ t) = parse_dinstr bs.
Proof.
  destruct bs as [|first tl]; [intros H; contradiction H; reflexivity|].
  change ((first :: tl) ++ t) with (first :: tl ++ t). unfold parse_dinstr.
  destruct (dkind_of first); [| | |reflexivity]; change (first :: tl ++ t) with ((first :: tl) ++ t); apply finish_stable.
  - exact dec_increment_st.
  - exact dec_header_ack_st.
  - exact dec_stream_cancel_st.
Qed.

(* ------------------------------------------------------------------ 6. chunking does not matter, for ANY byte stream *)
Section Chunks.
  Context {A : Type}.
  Variable parse : bytes -> presult A.
  Hypothesis parse_nil : parse [] = PIncomplete.
  Hypothesis parse_sd : forall bs i used, parse bs = PComplete i used ->
    exists a rest, bs = a ++ rest /\ used = len a /\ 0 < used /\
      (forall t, parse (a ++ t) = PComplete i used) /\
      (forall n, (n < length a)%nat -> parse (firstn n a) = PIncomplete).
  Hypothesis parse_stable : forall bs t, parse bs <> PIncomplete -> parse (bs ++ t) = parse bs.
  Hypothesis parse_np : forall bs s, wf_bytes bs -> parse bs <> PPanic s.

  (* the receive loop on bs ++ t, from the receive loop on bs *)
  Lemma parse_all_fuel_app fuel : forall bs t fuel',
    (length bs < fuel)%nat -> (length (bs ++ t) < fuel')%nat ->
    match parse_all_fuel parse fuel bs with
    | (xs, tail, StopIncomplete) =>
        exists f2, (length (tail ++ t) < f2)%nat /\
          parse_all_fuel parse fuel' (bs ++ t) =
            (let '(ys, tl, st) := parse_all_fuel parse f2 (tail ++ t) in (xs ++ ys, tl, st))
    | (xs, tail, StopError e) => parse_all_fuel parse fuel' (bs ++ t) = (xs, tail ++ t, StopError e)
    | (_, _, StopPanic _) => True
    end.
  Proof.
    induction fuel as [|f IH]; intros bs t fuel' Hf Hf'; [lia|].
    cbn [parse_all_fuel].
    destruct (parse bs) as [x used| |e|s] eqn:EP.
    - destruct (parse_sd _ _ _ EP) as (a & rest & Hbs & Hu & Hpos & _).
      assert (Hsk : skipn (N.to_nat used) bs = rest).
      { rewrite Hbs, Hu. unfold len. rewrite Nat2N.id. apply skipn_app_exact. }
      assert (Hsk' : skipn (N.to_nat used) (bs ++ t) = rest ++ t).
      { rewrite Hbs, <- app_assoc, Hu. unfold len. rewrite Nat2N.id. apply skipn_app_exact. }
      rewrite Hsk.
      assert (Hla : (1 <= length a)%nat) by (unfold len in Hu; lia).
      assert (Hlr : (length rest < f)%nat) by (rewrite Hbs, app_length in Hf; lia).
      destruct fuel' as [|f']; [lia|].
      assert (Hlr' : (length (rest ++ t) < f')%nat).
      { rewrite Hbs, <- app_assoc, app_length in Hf'. lia. }
      specialize (IH rest t f' Hlr Hlr').
      assert (EP' : parse (bs ++ t) = PComplete x used).
      { rewrite parse_stable; [exact EP|rewrite EP; discriminate]. }
      cbn [parse_all_fuel]. rewrite EP', Hsk'.
      destruct (parse_all_fuel parse f rest) as [[xs tail] st]. destruct st as [|e|s].
      + destruct IH as (f2 & Hf2 & IH). exists f2. split; [assumption|]. rewrite IH.
        destruct (parse_all_fuel parse f2 (tail ++ t)) as [[ys tl] st']. reflexivity.
      + rewrite IH. reflexivity.
      + exact I.
    - exists fuel'. split; [assumption|].
      destruct (parse_all_fuel parse fuel' (bs ++ t)) as [[ys tl] st']. reflexivity.
    - destruct fuel' as [|f']; [lia|]. cbn [parse_all_fuel].
      rewrite parse_stable; [rewrite EP; reflexivity|rewrite EP; discriminate].
    - exact I.
  Qed.

  (* the result does not depend on the fuel once there is enough of it *)
  Lemma parse_all_fuel_enough f1 : forall bs f2, (length bs < f1)%nat -> (length bs < f2)%nat ->
    parse_all_fuel parse f1 bs = parse_all_fuel parse f2 bs.
  Proof.
    induction f1 as [|f1 IH]; intros bs f2 H1 H2; [lia|]. destruct f2 as [|f2]; [lia|].
    cbn [parse_all_fuel]. destruct (parse bs) as [x used| |e|s] eqn:EP; try reflexivity.
    destruct (parse_sd _ _ _ EP) as (a & rest & Hbs & Hu & Hpos & _).
    assert (Hsk : skipn (N.to_nat used) bs = rest).
    { rewrite Hbs, Hu. unfold len. rewrite Nat2N.id. apply skipn_app_exact. }
    rewrite Hsk. rewrite Hbs, app_length in H1, H2. unfold len in Hu.
    rewrite (IH rest f2) by lia. reflexivity.
  Qed.

  Lemma parse_all_app bs t :
    match parse_all parse bs with
    | (xs, tail, StopIncomplete) =>
        parse_all parse (bs ++ t) = (let '(ys, tl, st) := parse_all parse (tail ++ t) in (xs ++ ys, tl, st))
    | (xs, tail, StopError e) => parse_all parse (bs ++ t) = (xs, tail ++ t, StopError e)
    | (_, _, StopPanic _) => True
    end.
  Proof.
    unfold parse_all.
    pose proof (parse_all_fuel_app (S (length bs)) bs t (S (length (bs ++ t))) ltac:(lia) ltac:(lia)) as H.
    destruct (parse_all_fuel parse (S (length bs)) bs) as [[xs tail] st]. destruct st as [|e|s]; try exact H.
    destruct H as (f2 & Hf2 & H). rewrite H.
    rewrite (parse_all_fuel_enough f2 (tail ++ t) (S (length (tail ++ t))) Hf2 ltac:(lia)). reflexivity.
  Qed.

  Lemma parse_all_incomplete_tail bs xs tail :
    parse_all parse bs = (xs, tail, StopIncomplete) -> parse tail = PIncomplete.
  Proof.
    unfold parse_all. generalize (S (length bs)). intros fuel. revert bs xs tail.
    induction fuel as [|f IH]; intros bs xs tail H; [discriminate|].
    cbn [parse_all_fuel] in H. destruct (parse bs) as [x used| |e|s] eqn:EP.
    - destruct (parse_all_fuel parse f (skipn (N.to_nat used) bs)) as [[ys t'] st'] eqn:ER.
      inversion H; subst. eapply IH. exact ER.
    - inversion H; subst. exact EP.
    - discriminate.
    - discriminate.
  Qed.

  (* the receiver fed in pieces, against the receive loop on the whole stream *)
  Lemma feed_is_parse_all chunks : forall tail,
    wf_bytes (tail ++ concat chunks) -> parse tail = PIncomplete ->
    match parse_all parse (tail ++ concat chunks) with
    | (xs, tl, StopIncomplete) => feed parse tail chunks = (xs, tl, StopIncomplete)
    | (xs, tl, StopError e) => exists tl' rest, feed parse tail chunks = (xs, tl', StopError e) /\ tl = tl' ++ rest
    | (_, _, StopPanic _) => False
    end.
  Proof.
    induction chunks as [|c cs IH]; intros tail Hwf Ht.
    - cbn [concat feed]. rewrite app_nil_r. unfold parse_all. cbn [parse_all_fuel]. rewrite Ht. reflexivity.
    - cbn [concat feed] in *. rewrite app_assoc in *.
      pose proof (parse_all_app (tail ++ c) (concat cs)) as Happ.
      assert (Hwf1 : wf_bytes (tail ++ c)) by (apply wf_bytes_app in Hwf; tauto).
      destruct (parse_all parse (tail ++ c)) as [[xs1 t1] st1] eqn:E1.
      destruct (parse_all_any parse parse_sd parse_np _ _ _ _ Hwf1 E1) as (Hnp & (pre & Hpre) & _).
      destruct st1 as [|e|s].
      + rewrite Happ.
        assert (Hwf2 : wf_bytes (t1 ++ concat cs)).
        { rewrite Hpre in Hwf. rewrite <- app_assoc in Hwf. apply wf_bytes_app in Hwf. tauto. }
        specialize (IH t1 Hwf2 (parse_all_incomplete_tail _ _ _ E1)).
        destruct (parse_all parse (t1 ++ concat cs)) as [[ys tl] st]. destruct st as [|e|s].
        * rewrite IH. reflexivity.
        * destruct IH as (tl' & rest & IH & Htl). rewrite IH. exists tl', rest. split; [reflexivity|assumption].
        * exact IH.
      + rewrite Happ. exists t1, (concat cs). split; reflexivity.
      + exfalso. exact (Hnp s eq_refl).
  Qed.

  (* ANY byte stream, ANY chunking: the receiver fed in pieces reports the instructions, the verdict and (when there is no
     error) the unconsumed tail of the receive loop run once on the whole stream *)
  Theorem feed_chunking_invariant chunks :
    wf_bytes (concat chunks) ->
    match parse_all parse (concat chunks) with
    | (xs, tl, StopIncomplete) => feed parse [] chunks = (xs, tl, StopIncomplete)
    | (xs, tl, StopError e) => exists tl' rest, feed parse [] chunks = (xs, tl', StopError e) /\ tl = tl' ++ rest
    | (_, _, StopPanic _) => False
    end.
  Proof. intros Hwf. exact (feed_is_parse_all chunks [] Hwf parse_nil). Qed.
End Chunks.

Theorem feed_einstr_chunking_invariant chunks :
  wf_bytes (concat chunks) ->
  match parse_all parse_einstr (concat chunks) with
  | (xs, tl, StopIncomplete) => feed parse_einstr [] chunks = (xs, tl, StopIncomplete)
  | (xs, tl, StopError e) => exists tl' rest, feed parse_einstr [] chunks = (xs, tl', StopError e) /\ tl = tl' ++ rest
  | (_, _, StopPanic _) => False
  end.
Proof. exact (feed_chunking_invariant parse_einstr parse_einstr_nil parse_einstr_sd parse_einstr_stable parse_einstr_no_panic chunks). Qed.

Theorem feed_dinstr_chunking_invariant chunks :
  wf_bytes (concat chunks) ->
  match parse_all parse_dinstr (concat chunks) with
  | (xs, tl, StopIncomplete) => feed parse_dinstr [] chunks = (xs, tl, StopIncomplete)
  | (xs, tl, StopError e) => exists tl' rest, feed parse_dinstr [] chunks = (xs, tl', StopError e) /\ tl = tl' ++ rest
  | (_, _, StopPanic _) => False
  end.
Proof. exact (feed_chunking_invariant parse_dinstr parse_dinstr_nil parse_dinstr_sd parse_dinstr_stable parse_dinstr_no_panic chunks). Qed.
