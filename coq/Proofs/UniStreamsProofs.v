(* Proofs for C04, part 2: the control-stream automaton of the driver model against Spec/UniStreams.v. *)
From H3V Require Import Base.Bytes Base.BytesLemmas Gen.GenCodes Gen.GenVarint Gen.GenFrameTypes Gen.GenStreamTypes
  Spec.RFC9000 Spec.FrameVocab Spec.Frames Spec.UniStreams
  Model.Varint Model.FrameDec Model.FrameStream Model.AcceptRecv Model.ConnInner Proofs.VarintProofs.
From Coq Require Import ZifyBool ZifyNat ZifyN.
Ltac Zify.zify_post_hook ::= Z.div_mod_to_equations.

(* ---------- generated facts: the code at every error site is the one the RFC names ---------- *)
Lemma error_site_codes :
  code_par_two_control = E_STREAM_CREATION /\ code_par_two_encoder = E_STREAM_CREATION /\
  code_par_two_decoder = E_STREAM_CREATION /\ code_par_stop_unknown = E_STREAM_CREATION /\
  code_pc_reset = E_CLOSED_CRITICAL /\ code_pc_closed = E_CLOSED_CRITICAL /\
  code_pc_unexpected_end = E_FRAME_ERROR /\
  code_pc_second_settings = E_FRAME_UNEXPECTED /\ code_pc_missing_settings = E_MISSING_SETTINGS /\
  code_pc_unexpected_frame = E_FRAME_UNEXPECTED /\
  code_goaway_increase = E_ID_ERROR /\ code_cli_goaway_id = E_ID_ERROR /\
  code_cli_unexpected = E_FRAME_UNEXPECTED /\ code_srv_unexpected = E_FRAME_UNEXPECTED.
Proof. vm_compute. repeat split; reflexivity. Qed.

Lemma stream_type_facts :
  st_CONTROL = ST_CONTROL /\ st_PUSH = ST_PUSH /\ st_ENCODER = ST_QPACK_ENCODER /\ st_DECODER = ST_QPACK_DECODER /\
  st_WEBTRANSPORT_UNI = ST_WEBTRANSPORT_UNI /\
  into_stream_arms = [(ST_CONTROL, UControl); (ST_PUSH, UPush); (ST_QPACK_ENCODER, UEncoder); (ST_QPACK_DECODER, UDecoder);
                      (ST_WEBTRANSPORT_UNI, UWebTransportUni)] /\
  two_varint_types = [ST_PUSH; ST_WEBTRANSPORT_UNI] /\
  pnv_buffer_first = true /\ pnv_memo_reset = true /\ grease_pending_propagates = false /\
  goaway_reject_cmp = GLt /\ pc_pass_through = [KGoaway; KCancelPush; KMaxPushId] /\
  srv_ignored = [KMaxPushId; KCancelPush].
Proof. vm_compute. repeat split; reflexivity. Qed.


(* the remaining generated codes (their sites are not reachable over the simulated transport) *)
Lemma remaining_codes :
  code_pc_quic_unknown = E_CLOSED_CRITICAL /\ code_pnv_internal = 258 /\ code_cli_bidi = E_STREAM_CREATION.
Proof. vm_compute. repeat split; reflexivity. Qed.

(* the bodies of the functions the model mirrors by hand are the ones it was written against *)
Lemma source_shapes :
  shape_poll_accept_recv = 591983135190798518 /\
  shape_inner_poll_control = 890975112773524947 /\
  shape_process_goaway = 871731484758505634 /\
  shape_poll_grease_stream = 635301977400214042 /\
  shape_into_stream = 261516598973359362 /\
  shape_poll_next_varint = 120984297333425183 /\
  shape_poll_type = 607312072019453852 /\
  shape_server_accept = 1127531358984613172 /\
  shape_server_shutdown = 832965435934073669 /\
  shape_server_poll_accept_request = 17685302642143960 /\
  shape_server_poll_control = 1019207998921379069 /\
  shape_server_poll_next_control = 426661483519124924 /\
  shape_client_poll_close = 966646822472731881 /\
  shape_client_wait_idle = 549684088248201512 /\
  shape_server_poll_accept_request_stream = 818014197823978860 /\
  shape_server_poll_requests_completion = 214212503412079944 /\
  shape_server_create_resolver_internal = 928008039183429589 /\
  shape_pushid_to_varint = 290316249488136314 /\
  shape_varint_to_pushid = 1065242208624881100.
Proof. vm_compute. repeat split; reflexivity. Qed.

(* ---------- which parts of the connection state a function leaves alone ---------- *)
(* the control automaton's part *)
Definition ctl_part (c : conn) := (c_taken c, c_acted c, c_got c, c_recv_closing c).
Definition err_part (c : conn) := (c_err c, c_cause c).
Definition grease_part (c : conn) := (c_gflag c, c_gstep c, c_gid c).
Definition slot_part (c : conn) := (c_pending c, c_control c, c_enc c, c_dec c, c_wt c).

Lemma fail_spec {A} z code c w wr :
  @fail A z code (c, w, wr) =
    match c_err c with
    | Some e => (PErr e, (c, w, wr))
    | None => (PErr code, (set_err c (Some code) z, log_close w code, wr))
    end.
Proof. reflexivity. Qed.

(* the causes poll_accept_recv can have, with their codes *)
Definition par_cause_code (z : cause) (code : N) : Prop :=
  (z = CzTwoControl /\ code = code_par_two_control) \/
  (z = CzTwoEncoder /\ code = code_par_two_encoder) \/
  (z = CzTwoDecoder /\ code = code_par_two_decoder) \/
  z = CzHeaderInternal.

(* what a function may do to the error cell: nothing, or set it (when it was empty) from one of its own sites *)
Definition err_step (P : cause -> N -> Prop) (c c' : conn) : Prop :=
  err_part c' = err_part c \/
  (c_err c = None /\ exists z code, c_err c' = Some code /\ c_cause c' = Some z /\ P z code).

Lemma err_step_refl (P : cause -> N -> Prop) c : err_step P c c.
Proof. left. reflexivity. Qed.

(* a function's footprint on the connection state, as far as the control automaton is concerned;
   [o] = the code of the error the function returned, if it returned one *)
Definition err_of {A} (r : pres A) : option N := match r with PErr e => Some e | _ => None end.

Definition footprint (P : cause -> N -> Prop) (c c' : conn) (o : option N) : Prop :=
  ctl_part c' = ctl_part c /\ grease_part c' = grease_part c /\
  err_step P c c' /\
  match o with
  | Some e => c_err c' = Some e
  | None => c_err c = None -> c_err c' = None
  end.

Lemma footprint_id (P : cause -> N -> Prop) c c' :
  ctl_part c' = ctl_part c -> grease_part c' = grease_part c -> err_part c' = err_part c ->
  footprint P c c' None.
Proof.
  intros Hc Hg He. unfold footprint. repeat split; auto.
  - left. exact He.
  - unfold err_part in He. congruence.
Qed.

Lemma footprint_fail (P : cause -> N -> Prop) {A} z code c0 c w wr (r : pres A) c' w' wr' :
  ctl_part c0 = ctl_part c -> grease_part c0 = grease_part c -> err_part c0 = err_part c ->
  P z code ->
  @fail A z code (c0, w, wr) = (r, (c', w', wr')) ->
  footprint P c c' (err_of r) /\ wr' = wr /\ (exists e, r = PErr e).
Proof.
  intros Hctl Hg He HP H. rewrite fail_spec in H.
  assert (Hce : c_err c0 = c_err c) by (unfold err_part in He; congruence).
  destruct (c_err c0) eqn:E0; inversion H; subst; clear H; (split; [|split; [reflexivity|eauto]]);
    unfold footprint; cbn [err_of].
  - repeat split; auto. left. exact He.
  - repeat split; auto. right. split; [congruence|]. exists z, code. auto.
Qed.

Lemma footprint_weaken (P Q : cause -> N -> Prop) c c' o :
  (forall z code, P z code -> Q z code) -> footprint P c c' o -> footprint Q c c' o.
Proof.
  intros HPQ (H1 & H2 & H3 & H4). unfold footprint. repeat split; auto.
  destruct H3 as [H3|(Hn & z & code & Ha & Hb & Hc)]; [left; exact H3|right].
  split; [exact Hn|]. exists z, code. auto.
Qed.

Lemma footprint_trans (P : cause -> N -> Prop) c c1 c' o :
  footprint P c c1 None -> c_err c = None -> footprint P c1 c' o -> footprint P c c' o.
Proof.
  intros (H1 & H2 & H3 & H4) Hc (K1 & K2 & K3 & K4).
  assert (Hn : c_err c1 = None) by auto.
  assert (He1 : err_part c1 = err_part c).
  { destruct H3 as [H3|(_ & z & code & Ha & _)]; [exact H3|congruence]. }
  unfold footprint. repeat split; try congruence.
  - destruct K3 as [K3|(Kn & z & code & Ka & Kb & Kc)]; [left; congruence|right].
    split; [exact Hc|]. exists z, code. auto.
  - destruct o; auto.
Qed.

Lemma par_iter_frame wt : forall todo kept c w wr r c' w' wr',
  par_iter wt todo kept (c, w, wr) = (r, (c', w', wr')) ->
  footprint par_cause_code c c' (err_of r) /\ wr' = wr /\ r <> PIndet.
Proof.
  induction todo as [|[id a] rest IH]; intros kept c w wr r c' w' wr' H; cbn [par_iter] in H.
  - inversion H; subst. split; [apply footprint_id; reflexivity|split; [reflexivity|discriminate]].
  - destruct (poll_type a (rxq w id)) as [[p a'] q'] eqn:Hp.
    destruct p as [[u|e|n]|].
    + (* resolved *)
      destruct (into_stream_kind a') as [k|e|n] eqn:Hk.
      * cbn [c_control c_enc c_dec log_seen] in H. destruct k.
        -- destruct (c_control c) eqn:Hc.
           ++ eapply (footprint_fail par_cause_code) with (c := c) in H; try reflexivity; [|left; auto].
              destruct H as (H1 & H2 & e & ->). split; [exact H1|split; [exact H2|discriminate]].
           ++ apply IH in H. exact H.
        -- apply IH in H. exact H.
        -- destruct (c_enc c) eqn:Hc.
           ++ eapply (footprint_fail par_cause_code) with (c := c) in H; try reflexivity; [|right; left; auto].
              destruct H as (H1 & H2 & e & ->). split; [exact H1|split; [exact H2|discriminate]].
           ++ apply IH in H. exact H.
        -- destruct (c_dec c) eqn:Hc.
           ++ eapply (footprint_fail par_cause_code) with (c := c) in H; try reflexivity; [|right; right; left; auto].
              destruct H as (H1 & H2 & e & ->). split; [exact H1|split; [exact H2|discriminate]].
           ++ apply IH in H. exact H.
        -- destruct wt; apply IH in H; exact H.
        -- apply IH in H. exact H.
      * inversion H; subst. split; [apply footprint_id; reflexivity|split; [reflexivity|discriminate]].
      * inversion H; subst. split; [apply footprint_id; reflexivity|split; [reflexivity|discriminate]].
    + destruct e as [|code|qe].
      * apply IH in H. exact H.
      * eapply (footprint_fail par_cause_code) with (c := c) in H; try reflexivity; [|right; right; right; reflexivity].
        destruct H as (H1 & H2 & e & ->). split; [exact H1|split; [exact H2|discriminate]].
      * inversion H; subst. split; [apply footprint_id; reflexivity|split; [reflexivity|discriminate]].
    + inversion H; subst. split; [apply footprint_id; reflexivity|split; [reflexivity|discriminate]].
    + apply IH in H. exact H.
Qed.

Lemma poll_accept_recv_frame wt c w wr r c' w' wr' :
  poll_accept_recv wt (c, w, wr) = (r, (c', w', wr')) ->
  footprint par_cause_code c c' (err_of r) /\ wr' = wr /\ r <> PIndet.
Proof.
  unfold poll_accept_recv. destruct (c_err c) eqn:He.
  - intros H; inversion H; subst. split; [|split; [reflexivity|discriminate]].
    unfold footprint. split; [reflexivity|]. split; [reflexivity|]. split; [apply err_step_refl|].
    cbn [err_of]. exact He.
  - intros H. apply par_iter_frame in H. exact H.
Qed.

(* ---------- the grease sub-machine never touches anything but its own three fields ---------- *)
Definition grease_only (c c' : conn) : Prop := exists f st id, c' = set_grease c f st id.

Lemma grease_only_refl c : grease_only c c.
Proof. exists (c_gflag c), (c_gstep c), (c_gid c). destruct c; reflexivity. Qed.
Lemma grease_only_trans a b c : grease_only a b -> grease_only b c -> grease_only a c.
Proof. intros (f & st & id & ->) (f' & st' & id' & ->). exists f', st', id'. reflexivity. Qed.
Lemma grease_only_set c f st id : grease_only c (set_grease c f st id).
Proof. exists f, st, id. reflexivity. Qed.

Lemma grease_finish_only c w wr r c' w' wr' :
  grease_finish (c, w, wr) = (r, (c', w', wr')) -> grease_only c c'.
Proof.
  unfold grease_finish. destruct (c_gstep c); try (intros H; inversion H; subst; apply grease_only_set).
  destruct (assoc (c_gid c) (w_finp w)) as [[|p]|]; intros H; inversion H; subst;
    auto using grease_only_set, grease_only_refl.
Qed.

Lemma grease_ready_only c w wr r c' w' wr' :
  grease_ready (c, w, wr) = (r, (c', w', wr')) -> grease_only c c'.
Proof.
  unfold grease_ready. destruct (c_gstep c);
    try (intros H; apply grease_finish_only in H; exact H).
  destruct (poll_ready (c_gid c) wr w) as [[x wr1] w1]. destruct x.
  - intros H. apply grease_finish_only in H.
    eapply grease_only_trans; [apply grease_only_set|exact H].
  - intros H; inversion H; subst. apply grease_only_refl.
  - intros H; inversion H; subst. apply grease_only_refl.
  - intros H; inversion H; subst. apply grease_only_set.
Qed.

Lemma grease_send_only c w wr r c' w' wr' :
  grease_send (c, w, wr) = (r, (c', w', wr')) -> grease_only c c'.
Proof.
  unfold grease_send. destruct (c_gstep c);
    intros H; apply grease_ready_only in H; exact H.
Qed.

Lemma poll_grease_only c w wr r c' w' wr' :
  poll_grease_stream (c, w, wr) = (r, (c', w', wr')) -> grease_only c c'.
Proof.
  unfold poll_grease_stream. destruct (c_gstep c);
    try (intros H; apply grease_send_only in H; exact H).
  destruct (open_send w) as [[id w1]|].
  - intros H. apply grease_send_only in H. eapply grease_only_trans; [apply grease_only_set|exact H].
  - intros H; inversion H; subst. apply grease_only_refl.
Qed.

(* Exactly-once hinges on this: once a frame has been taken out of the control stream, poll_control hands it to
   the role's driver whatever the grease stream does (credit, write budget), and the grease step changes nothing
   but the grease fields. *)
Lemma after_frame_spec f c w wr r c' w' wr' :
  after_frame f (c, w, wr) = (r, (c', w', wr')) ->
  exists c1, grease_only c c1 /\ ((r = PReady f /\ c' = log_handed c1 f) \/ (r = PIndet /\ c' = c1)).
Proof.
  unfold after_frame, hand. destruct (c_gflag c).
  - destruct (poll_grease_stream (c, w, wr)) as [g [[c1 w1] wr1]] eqn:Hg.
    apply poll_grease_only in Hg. change grease_pending_propagates with false.
    destruct g; intros H; inversion H; subst; eexists; (split; [exact Hg|auto]).
  - intros H; inversion H; subst. exists c. split; [apply grease_only_refl|auto].
Qed.

Lemma grease_only_ctl c c' : grease_only c c' ->
  ctl_part c' = ctl_part c /\ err_part c' = err_part c /\ slot_part c' = slot_part c /\
  c_settings c' = c_settings c /\ c_closing c' = c_closing c.
Proof. intros (f & st & id & ->). repeat split. Qed.

(* ---------- poll_control's arms for a frame, as a decision table ---------- *)
Definition is_settings (f : frame) : bool := match f with FSettings _ => true | _ => false end.

Inductive frame_decision (got : bool) (f : frame) : option N -> Prop :=
| FdFirstSettings : is_settings f = true -> got = false -> frame_decision got f None
| FdPass : is_settings f = false -> got = true -> passes f pc_pass_through = true -> frame_decision got f None
| FdSecondSettings : is_settings f = true -> got = true -> frame_decision got f (Some code_pc_second_settings)
| FdMissing : is_settings f = false -> got = false -> frame_decision got f (Some code_pc_missing_settings)
| FdUnexpected : is_settings f = false -> got = true -> passes f pc_pass_through = false ->
    frame_decision got f (Some code_pc_unexpected_frame).

Lemma control_frame_spec f c w wr r c' w' wr' :
  c_err c = None -> control_frame f (c, w, wr) = (r, (c', w', wr')) ->
  (frame_decision (c_got c) f None /\ (r = PReady f \/ r = PIndet) /\
   c_err c' = None /\ c_taken c' = c_taken c /\ c_acted c' = c_acted c /\ c_recv_closing c' = c_recv_closing c /\
   c_got c' = true) \/
  (exists e, frame_decision (c_got c) f (Some e) /\ r = PErr e /\ c_err c' = Some e /\ c_cause c' = Some (CzFrame f) /\
             ctl_part c' = ctl_part c).
Proof.
  intros He H. unfold control_frame in H.
  assert (Hfail : forall code, @fail frame (CzFrame f) code (c, w, wr) = (r, (c', w', wr')) ->
            r = PErr code /\ c_err c' = Some code /\ c_cause c' = Some (CzFrame f) /\ ctl_part c' = ctl_part c).
  { intros code Hf. rewrite fail_spec, He in Hf. inversion Hf; subst. repeat split. }
  assert (Hafter : forall c0, c_err c0 = None -> c_taken c0 = c_taken c -> c_acted c0 = c_acted c ->
            c_recv_closing c0 = c_recv_closing c -> c_got c0 = true ->
            after_frame f (c0, w, wr) = (r, (c', w', wr')) ->
            (r = PReady f \/ r = PIndet) /\ c_err c' = None /\ c_taken c' = c_taken c /\ c_acted c' = c_acted c /\
            c_recv_closing c' = c_recv_closing c /\ c_got c' = true).
  { intros c0 H0 H1 H2 H3 H4 Ha. apply after_frame_spec in Ha. destruct Ha as (c1 & Hg & Hr).
    destruct Hg as (gf & st & id & ->).
    destruct Hr as [[-> ->]|[-> ->]]; cbn [c_err c_taken c_acted c_recv_closing c_got set_grease log_handed]; auto 10. }
  destruct f; cbn [is_settings] in *;
    try (destruct (c_got c) eqn:Hg; cbn [negb] in H;
         [ destruct (passes _ pc_pass_through) eqn:Hp;
           [ left; apply Hafter in H; auto; split; [apply FdPass; auto|exact H]
           | right; apply Hfail in H; eexists; split; [apply FdUnexpected; auto|exact H] ]
         | right; apply Hfail in H; eexists; split; [apply FdMissing; auto|exact H] ]).
  (* SETTINGS *)
  destruct (c_got c) eqn:Hg.
  - right. apply Hfail in H. eexists. split; [apply FdSecondSettings; auto|exact H].
  - left. apply Hafter in H; auto. split; [apply FdFirstSettings; auto|exact H].
Qed.

(* ---------- poll_control ---------- *)
Definition pc_cause_code (z : cause) (code : N) : Prop :=
  par_cause_code z code \/
  (z = CzCtlReset /\ code = code_pc_reset) \/
  (z = CzCtlTruncated /\ code = code_pc_unexpected_end) \/
  (z = CzCtlClosed /\ code = code_pc_closed) \/
  (exists k, z = CzCtlProto k /\ perr_code k = Some code).

(* what one call of poll_control does to the control automaton's part of the state *)
Inductive pc_outcome (c c' : conn) (r : pres frame) : Prop :=
| PcNoFrame :                                   (* no frame was taken out of the control stream *)
    footprint pc_cause_code c c' (err_of r) -> (forall f, r <> PReady f) -> r <> PIndet -> pc_outcome c c' r
| PcAccepted f :                                (* f was taken and is handed to the role's driver *)
    frame_decision (c_got c) f None -> (r = PReady f \/ r = PIndet) ->
    c_err c' = None -> c_taken c' = c_taken c ++ [f] -> c_acted c' = c_acted c ->
    c_recv_closing c' = c_recv_closing c -> c_got c' = true -> pc_outcome c c' r
| PcRefused f e :                               (* f was taken and refused by poll_control itself *)
    frame_decision (c_got c) f (Some e) -> r = PErr e -> c_err c' = Some e -> c_cause c' = Some (CzFrame f) ->
    c_taken c' = c_taken c ++ [f] -> c_acted c' = c_acted c -> c_got c' = c_got c ->
    c_recv_closing c' = c_recv_closing c -> pc_outcome c c' r.

Lemma poll_control_spec wt c w wr r c' w' wr' :
  c_err c = None -> poll_control wt (c, w, wr) = (r, (c', w', wr')) -> pc_outcome c c' r.
Proof.
  intros He H. unfold poll_control in H. rewrite He in H.
  destruct (poll_accept_recv wt (c, w, wr)) as [r1 [[c1 w1] wr1]] eqn:Hpar.
  apply poll_accept_recv_frame in Hpar. destruct Hpar as (Hfp & -> & Hni).
  apply (footprint_weaken par_cause_code pc_cause_code) in Hfp; [|intros z code Hz; left; exact Hz].
  destruct r1 as [u| |e|n| |].
  2:{ inversion H; subst; apply PcNoFrame; [exact Hfp|discriminate|discriminate]. }
  2:{ inversion H; subst; apply PcNoFrame; [exact Hfp|discriminate|discriminate]. }
  2:{ inversion H; subst; apply PcNoFrame; [exact Hfp|discriminate|discriminate]. }
  2:{ exfalso; apply Hni; reflexivity. }
  2:{ inversion H; subst; apply PcNoFrame; [exact Hfp|discriminate|discriminate]. }
  cbn [err_of] in Hfp.
  assert (Hc1 : c_err c1 = None) by (destruct Hfp as (_ & _ & _ & H4); auto).
  destruct (c_control c1) as [[id fs]|] eqn:Hctl.
  2:{ inversion H; subst. apply PcNoFrame; [exact Hfp|discriminate|discriminate]. }
  destruct (poll_next (fs_with_q fs (rxq w1 id))) as [pr fs'] eqn:Hpn.
  set (c2 := set_ghost (set_control c1 (Some (id, fs_with_q fs' []))) (c_ctl0 c1) (c_trace c1 ++ [CallAuto])) in *.
  set (w2 := set_rxq w1 id (st_q fs')) in *.
  assert (Hfp2 : footprint pc_cause_code c c2 None).
  { destruct Hfp as (H1 & H2 & H3 & H4). unfold footprint. repeat split; auto. }
  (* a failure of the control stream itself *)
  assert (Hfail : forall z code, pc_cause_code z code ->
            @fail frame z code (c2, w2, wr) = (r, (c', w', wr')) -> pc_outcome c c' r).
  { intros z code Hz Hf. eapply (footprint_fail pc_cause_code) with (c := c2) in Hf; try reflexivity; [|exact Hz].
    destruct Hf as (Hf & _ & e & ->). apply PcNoFrame; [|discriminate|discriminate].
    eapply footprint_trans; [exact Hfp2|exact He|exact Hf]. }
  assert (Hstay : forall x : pres frame, err_of x = None -> (forall f, x <> PReady f) -> x <> PIndet ->
            (x, (c2, w2, wr)) = (r, (c', w', wr')) -> pc_outcome c c' r).
  { intros x Hx Hnf Hnd Heq. inversion Heq; subst. apply PcNoFrame; [rewrite Hx; exact Hfp2|exact Hnf|exact Hnd]. }
  destruct pr as [[[f|]|e|n]|].
  - (* a frame *)
    set (c3 := log_taken c2 f) in *.
    assert (Hc3 : c_err c3 = None) by exact Hc1.
    destruct Hfp2 as (Hp1 & _ & _ & _). unfold ctl_part in Hp1.
    assert (Ht : c_taken c3 = c_taken c ++ [f] /\ c_acted c3 = c_acted c /\ c_got c3 = c_got c /\
                 c_recv_closing c3 = c_recv_closing c).
    { inversion Hp1 as [[Hq1 Hq2 Hq3 Hq4]]. repeat split; reflexivity. }
    destruct Ht as (Ht1 & Ht2 & Ht3 & Ht4).
    clearbody c3. clear Hp1.
    apply control_frame_spec in H; [|exact Hc3].
    destruct H as [(Hd & Hr & Hn & Hk & Ha & Hrc & Hg)|(e & Hd & Hr & Hn & Hz & Hcp)].
    + eapply PcAccepted with (f := f); auto; try congruence.
    + unfold ctl_part in Hcp. inversion Hcp as [[Hq1 Hq2 Hq3 Hq4]].
      eapply PcRefused with (f := f) (e := e); auto; try congruence.
  - apply (Hfail CzCtlClosed code_pc_closed); [|exact H]. right; right; right; left. auto.
  - destruct e as [k fe|qe|].
    + destruct (perr_code k) as [code|] eqn:Hk.
      * apply (Hfail (CzCtlProto k) code); [|exact H]. right; right; right; right. exists k. auto.
      * apply (Hstay (PPanic 53)); auto; discriminate.
    + destruct qe; try (apply (Hstay POutside); auto; discriminate).
      apply (Hfail CzCtlReset code_pc_reset); [|exact H]. right; left. auto.
    + apply (Hfail CzCtlTruncated code_pc_unexpected_end); [|exact H]. right; right; left. auto.
  - apply (Hstay (PPanic n)); auto; discriminate.
  - apply (Hstay PPending); auto; discriminate.
Qed.

(* ---------- the role's driver: one frame of the control stream against the rule table of the specification ---------- *)
Definition srole_of (r : role) : srole := match r with RServer => SServer | RClient => SClient end.
Definition to_sact (a : act) : sact :=
  match a with
  | ASettings p => SaSettings p | AGoaway i => SaGoaway i | ACancelPush i => SaCancelPush i | AMaxPushId i => SaMaxPushId i
  end.
(* the automaton state of the specification that corresponds to the connection's fields *)
Definition st_match (c : conn) (st : cstate) : Prop := cs_got st = c_got c /\ cs_goaway st = c_recv_closing c.

Inductive step_outcome (r : role) (st : cstate) (c c' : conn) (res : pres unit) : Prop :=
| SoNoFrame :       (* no frame left the control stream: the automaton's state is untouched *)
    footprint pc_cause_code c c' (err_of res) -> res <> PReady tt -> res <> PIndet -> step_outcome r st c c' res
| SoActed f a st' soft :   (* one frame left the stream, the rule table says "act", and it was acted upon once *)
    ctl_rule (srole_of r) st f = CAct a st' soft -> res = PReady tt -> c_err c' = None ->
    c_taken c' = c_taken c ++ [f] -> map to_sact (c_acted c') = map to_sact (c_acted c) ++ [a] ->
    st_match c' st' -> step_outcome r st c c' res
| SoRefused f codes e :    (* one frame left the stream, the rule table says "fail": failed with one of its codes *)
    ctl_rule (srole_of r) st f = CFail codes -> In e codes -> res = PErr e -> c_err c' = Some e ->
    (exists f', c_cause c' = Some (CzFrame f')) ->
    c_taken c' = c_taken c ++ [f] -> c_acted c' = c_acted c -> step_outcome r st c c' res
| SoIndet : res = PIndet -> step_outcome r st c c' res.

Lemma is_request_mod4 id : sid_is_request id = (id mod 4 =? 0).
Proof.
  rewrite sid_is_request_spec. unfold rfc_sid_bidi, rfc_sid_client.
  destruct (N.eqb_spec (id mod 4) 0); destruct (N.eqb_spec ((id / 2) mod 2) 0); destruct (N.eqb_spec (id mod 2) 0);
    cbn [andb]; try reflexivity; exfalso; lia.
Qed.

Lemma lift_err {A B} (r : pres A) : (forall a, r <> PReady a) -> err_of (@lift A B r) = err_of r.
Proof. destruct r; cbn; auto. Qed.

Lemma log_s_fields a c w wr : log_s a (c, w, wr) = (log_act c a, w, wr).
Proof. reflexivity. Qed.

Lemma process_goaway_spec id c w wr r c' w' wr' :
  c_err c = None -> process_goaway id (c, w, wr) = (r, (c', w', wr')) ->
  (match c_recv_closing c with Some p => p <? id | None => false end = false /\
   r = PReady tt /\ c' = set_closing c (Some id)) \/
  (match c_recv_closing c with Some p => p <? id | None => false end = true /\
   r = PErr code_goaway_increase /\ c' = set_err c (Some code_goaway_increase) (CzFrame (FGoaway id))).
Proof.
  intros He. unfold process_goaway. change goaway_reject_cmp with GLt. cbn [gcmp_eval].
  destruct (c_recv_closing c) as [p|].
  - destruct (p <? id) eqn:Hlt.
    + rewrite fail_spec, He. intros H; inversion H; subst. right. auto.
    + intros H; inversion H; subst. left. auto.
  - intros H; inversion H; subst. left. auto.
Qed.

(* a frame the rule table refuses because SETTINGS has / has not been seen, or because of its type *)
Lemma refused_by_poll_control role st f got e :
  cs_got st = got -> frame_decision got f (Some e) ->
  exists codes, ctl_rule (srole_of role) st f = CFail codes /\ In e codes.
Proof.
  intros Hg Hd. inversion Hd as [ | | Hs Hgt | Hs Hgf | Hs Hgt Hps]; subst.
  - destruct f; try discriminate Hs. cbn [ctl_rule]. rewrite Hgt. eexists. split; [reflexivity|]. left. reflexivity.
  - destruct f; try discriminate Hs; cbn [ctl_rule]; rewrite Hgf; cbn [negb before_settings];
      eexists; (split; [reflexivity|]); cbn; auto.
  - destruct f; try discriminate Hs; try (vm_compute in Hps; discriminate Hps);
      cbn [ctl_rule]; rewrite Hgt; cbn [negb before_settings]; eexists; (split; [reflexivity|]); cbn; auto.
Qed.

Lemma srv_next_control_spec wt c w wr res c' w' wr' st :
  c_err c = None -> st_match c st ->
  srv_next_control wt (c, w, wr) = (res, (c', w', wr')) ->
  step_outcome RServer st c c' res.
Proof.
  intros He [Hg Hgo] H. unfold srv_next_control in H.
  destruct (poll_control wt (c, w, wr)) as [r [[c1 w1] wr1]] eqn:Hp.
  apply poll_control_spec in Hp; [|exact He].
  destruct Hp as [Hfp Hnr Hni | f Hd Hr Hn1 Ht1 Ha1 Hrc1 Hg1 | f e Hd -> Hn1 Hz1 Ht1 Ha1 Hg1 Hrc1].
  - (* nothing taken *)
    assert (H' : (@lift frame unit r, (c1, w1, wr1)) = (res, (c', w', wr'))).
    { destruct r; try exact H. exfalso; eapply Hnr; reflexivity. }
    inversion H'; subst. apply SoNoFrame.
    + rewrite lift_err by exact Hnr. exact Hfp.
    + destruct r; discriminate.
    + destruct r; try discriminate. congruence.
  - destruct Hr as [-> | ->].
    2:{ apply SoIndet. inversion H; reflexivity. }
    inversion Hd as [Hs Hgf | Hs Hgt Hps | | | ]; subst.
    + (* the first SETTINGS *)
      destruct f; try discriminate Hs.
      rewrite log_s_fields in H. inversion H; subst.
      eapply SoActed with (f := FSettings payload).
      * cbn [ctl_rule]. rewrite Hg, Hgf. reflexivity.
      * reflexivity.
      * exact Hn1.
      * exact Ht1.
      * cbn [c_acted log_act]. rewrite map_app, Ha1. reflexivity.
      * split; cbn [cs_got cs_goaway c_got c_recv_closing log_act]; congruence.
    + (* GOAWAY, CANCEL_PUSH or MAX_PUSH_ID after SETTINGS *)
      destruct f; try discriminate Hs; try (vm_compute in Hps; discriminate Hps).
      * (* CANCEL_PUSH *)
        change (kind_in KCancelPush srv_ignored) with true in H. cbn iota in H.
        rewrite log_s_fields in H. inversion H; subst.
        eapply SoActed with (f := FCancelPush id).
        -- cbn [ctl_rule srole_of]. rewrite Hg, Hgt. reflexivity.
        -- reflexivity.
        -- exact Hn1.
        -- exact Ht1.
        -- cbn [c_acted log_act]. rewrite map_app, Ha1. reflexivity.
        -- split; cbn [c_got c_recv_closing log_act]; congruence.
      * (* GOAWAY *)
        destruct (process_goaway id (c1, w1, wr1)) as [rg [[c2 w2] wr2]] eqn:Hpg.
        apply process_goaway_spec in Hpg; [|exact Hn1].
        destruct Hpg as [(Hcmp & -> & ->)|(Hcmp & -> & ->)].
        -- rewrite log_s_fields in H. inversion H; subst.
           eapply SoActed with (f := FGoaway id).
           ++ cbn [ctl_rule srole_of]. rewrite Hg, Hgt, Hgo, <- Hrc1, Hcmp. reflexivity.
           ++ reflexivity.
           ++ exact Hn1.
           ++ exact Ht1.
           ++ cbn [c_acted log_act set_closing]. rewrite map_app, Ha1. reflexivity.
           ++ split; cbn [cs_got cs_goaway c_got c_recv_closing log_act set_closing]; congruence.
        -- inversion H; subst.
           eapply SoRefused with (f := FGoaway id) (e := code_goaway_increase).
           ++ cbn [ctl_rule srole_of]. rewrite Hg, Hgt, Hgo, <- Hrc1, Hcmp. reflexivity.
           ++ left. reflexivity.
           ++ reflexivity.
           ++ reflexivity.
           ++ eexists. reflexivity.
           ++ exact Ht1.
           ++ exact Ha1.
      * (* MAX_PUSH_ID *)
        change (kind_in KMaxPushId srv_ignored) with true in H. cbn iota in H.
        rewrite log_s_fields in H. inversion H; subst.
        eapply SoActed with (f := FMaxPushId id).
        -- cbn [ctl_rule srole_of]. rewrite Hg, Hgt. reflexivity.
        -- reflexivity.
        -- exact Hn1.
        -- exact Ht1.
        -- cbn [c_acted log_act]. rewrite map_app, Ha1. reflexivity.
        -- split; cbn [cs_got cs_goaway c_got c_recv_closing log_act]; congruence.
  - (* refused by poll_control *)
    inversion H; subst.
    destruct (refused_by_poll_control RServer st f (c_got c) e Hg Hd) as (codes & Hrule & Hin).
    eapply SoRefused with (f := f) (e := e); eauto.
Qed.

Lemma cli_next_control_spec wt c w wr res c' w' wr' st :
  c_err c = None -> st_match c st ->
  cli_next_control wt (c, w, wr) = (res, (c', w', wr')) ->
  step_outcome RClient st c c' res.
Proof.
  intros He [Hg Hgo] H. unfold cli_next_control in H.
  destruct (poll_control wt (c, w, wr)) as [r [[c1 w1] wr1]] eqn:Hp.
  apply poll_control_spec in Hp; [|exact He].
  destruct Hp as [Hfp Hnr Hni | f Hd Hr Hn1 Ht1 Ha1 Hrc1 Hg1 | f e Hd -> Hn1 Hz1 Ht1 Ha1 Hg1 Hrc1].
  - (* nothing taken *)
    assert (H' : (@lift frame unit r, (c1, w1, wr1)) = (res, (c', w', wr'))).
    { destruct r; try exact H. exfalso; eapply Hnr; reflexivity. }
    inversion H'; subst. apply SoNoFrame.
    + rewrite lift_err by exact Hnr. exact Hfp.
    + destruct r; discriminate.
    + destruct r; try discriminate. congruence.
  - destruct Hr as [-> | ->].
    2:{ apply SoIndet. inversion H; reflexivity. }
    inversion Hd as [Hs Hgf | Hs Hgt Hps | | | ]; subst.
    + (* the first SETTINGS *)
      destruct f; try discriminate Hs.
      rewrite log_s_fields in H. inversion H; subst.
      eapply SoActed with (f := FSettings payload).
      * cbn [ctl_rule]. rewrite Hg, Hgf. reflexivity.
      * reflexivity.
      * exact Hn1.
      * exact Ht1.
      * cbn [c_acted log_act]. rewrite map_app, Ha1. reflexivity.
      * split; cbn [cs_got cs_goaway c_got c_recv_closing log_act]; congruence.
    + destruct f; try discriminate Hs; try (vm_compute in Hps; discriminate Hps).
      * (* CANCEL_PUSH: a client never allowed a push *)
        rewrite fail_spec, Hn1 in H. inversion H; subst.
        eapply SoRefused with (f := FCancelPush id) (e := code_cli_unexpected).
        -- cbn [ctl_rule srole_of]. rewrite Hg, Hgt. reflexivity.
        -- left. reflexivity.
        -- reflexivity.
        -- reflexivity.
        -- eexists. reflexivity.
        -- exact Ht1.
        -- exact Ha1.
      * (* GOAWAY *)
        rewrite is_request_mod4 in H.
        destruct (id mod 4 =? 0) eqn:Hreq; cbn [negb] in H.
        -- destruct (process_goaway id (c1, w1, wr1)) as [rg [[c2 w2] wr2]] eqn:Hpg.
           apply process_goaway_spec in Hpg; [|exact Hn1].
           destruct Hpg as [(Hcmp & -> & ->)|(Hcmp & -> & ->)].
           ++ rewrite log_s_fields in H. inversion H; subst.
              eapply SoActed with (f := FGoaway id).
              ** cbn [ctl_rule srole_of]. rewrite Hg, Hgt, Hreq, Hgo, <- Hrc1, Hcmp. reflexivity.
              ** reflexivity.
              ** exact Hn1.
              ** exact Ht1.
              ** cbn [c_acted log_act set_closing]. rewrite map_app, Ha1. reflexivity.
              ** split; cbn [cs_got cs_goaway c_got c_recv_closing log_act set_closing]; congruence.
           ++ inversion H; subst.
              eapply SoRefused with (f := FGoaway id) (e := code_goaway_increase).
              ** cbn [ctl_rule srole_of]. rewrite Hg, Hgt, Hreq, Hgo, <- Hrc1, Hcmp. reflexivity.
              ** left. reflexivity.
              ** reflexivity.
              ** reflexivity.
              ** eexists. reflexivity.
              ** exact Ht1.
              ** exact Ha1.
        -- rewrite fail_spec, Hn1 in H. inversion H; subst.
           eapply SoRefused with (f := FGoaway id) (e := code_cli_goaway_id).
           ++ cbn [ctl_rule srole_of]. rewrite Hg, Hgt, Hreq. reflexivity.
           ++ left. reflexivity.
           ++ reflexivity.
           ++ reflexivity.
           ++ eexists. reflexivity.
           ++ exact Ht1.
           ++ exact Ha1.
      * (* MAX_PUSH_ID *)
        rewrite fail_spec, Hn1 in H. inversion H; subst.
        eapply SoRefused with (f := FMaxPushId id) (e := code_cli_unexpected).
        -- cbn [ctl_rule srole_of]. rewrite Hg, Hgt. reflexivity.
        -- left. reflexivity.
        -- reflexivity.
        -- reflexivity.
        -- eexists. reflexivity.
        -- exact Ht1.
        -- exact Ha1.
  - inversion H; subst.
    destruct (refused_by_poll_control RClient st f (c_got c) e Hg Hd) as (codes & Hrule & Hin).
    eapply SoRefused with (f := f) (e := e); eauto.
Qed.

(* The control-stream automaton: whatever the role, the pending streams, the grease stream's credit and write
   budget, one round of the driver's control loop either leaves the automaton alone, or takes exactly one frame
   out of the control stream and does with it what the rule table of the specification says - acts on it once,
   or fails with one of the codes the table lists. *)
Theorem next_control_spec role wt c w wr res c' w' wr' st :
  c_err c = None -> st_match c st ->
  next_control role wt (c, w, wr) = (res, (c', w', wr')) ->
  step_outcome role st c c' res.
Proof.
  destruct role; [apply srv_next_control_spec|apply cli_next_control_spec].
Qed.

(* ---------- exactly once, over whole histories ---------- *)
Lemma ctl_run_snoc r f : forall fs st0 acts st,
  ctl_run r st0 fs = (acts, st, None) ->
  ctl_run r st0 (fs ++ [f]) =
    match ctl_rule r st f with
    | CFail codes => (acts, st, Some codes)
    | CAct a st' _ => (acts ++ [a], st', None)
    end.
Proof.
  induction fs as [|g fs IH]; intros st0 acts st H; cbn [ctl_run app] in *.
  - inversion H; subst. destruct (ctl_rule r st f); reflexivity.
  - destruct (ctl_rule r st0 g) as [a st1 soft|codes]; [|discriminate].
    destruct (ctl_run r st1 fs) as [[acts1 st2] v] eqn:Hr. inversion H; subst.
    rewrite (IH _ _ _ Hr). destruct (ctl_rule r st f); reflexivity.
Qed.

(* The invariant: the frames acted upon are exactly those the rule table accepts among the frames taken out of
   the control stream, in order, each once; the automaton state of the connection is the table's; and if the table
   refuses a taken frame the connection has failed with one of the codes it lists for that frame. *)
Definition ctl_inv (r : role) (c : conn) : Prop :=
  match ctl_run (srole_of r) cs_init (c_taken c) with
  | (acts, st, None) =>
      map to_sact (c_acted c) = acts /\
      (c_err c = None -> st_match c st) /\
      (forall e, c_err c = Some e -> exists z, c_cause c = Some z /\ pc_cause_code z e)
  | (acts, st, Some codes) =>
      map to_sact (c_acted c) = acts /\ exists e, c_err c = Some e /\ In e codes
  end.

Lemma ctl_inv_new r g : ctl_inv r (new_conn g).
Proof. unfold ctl_inv, new_conn, st_match. cbn. repeat split; auto. discriminate. Qed.

(* the invariant only reads these fields *)
Lemma ctl_inv_ext r c c' :
  ctl_part c' = ctl_part c -> err_part c' = err_part c -> ctl_inv r c -> ctl_inv r c'.
Proof.
  unfold ctl_part, err_part, ctl_inv, st_match. intros H1 H2. inversion H1 as [[Ha Hb Hc Hd]]. inversion H2 as [[He Hf]].
  rewrite Ha, Hb, Hc, Hd, He, Hf. auto.
Qed.

Lemma ctl_inv_step role st c c' res :
  ctl_inv role c -> c_err c = None ->
  (forall acts v, ctl_run (srole_of role) cs_init (c_taken c) = (acts, st, v) -> True) ->
  snd (fst (ctl_run (srole_of role) cs_init (c_taken c))) = st ->
  step_outcome role st c c' res -> res <> PIndet -> ctl_inv role c'.
Proof.
  intros Hinv He _ Hst Hout Hni. unfold ctl_inv in *.
  destruct (ctl_run (srole_of role) cs_init (c_taken c)) as [[acts st0] v] eqn:Hrun. cbn [fst snd] in Hst. subst st0.
  destruct v as [codes|].
  { destruct Hinv as (_ & e & Hx & _). congruence. }
  destruct Hinv as (Hacts & Hm & Hcz).
  destruct Hout as [Hfp Hnr _ | f a st' soft Hrule -> Hn Ht Ha Hm' | f codes e Hrule Hin -> Hn Hz Ht Ha | ->].
  - destruct Hfp as (Hp & _ & Hes & Ho). unfold ctl_part in Hp. inversion Hp as [[Ha Hb Hc Hd]].
    rewrite Ha, Hrun. split; [congruence|]. split.
    + intros Hn. unfold st_match in *. rewrite Hc, Hd. apply Hm. exact He.
    + intros e Hce. destruct Hes as [Hsame|(_ & z & code & Hx & Hy & Hz)].
      * unfold err_part in Hsame. congruence.
      * exists z. split; [exact Hy|]. congruence.
  - rewrite Ht, (ctl_run_snoc _ _ _ _ _ _ Hrun), Hrule. split; [congruence|]. split; [auto|]. congruence.
  - rewrite Ht, (ctl_run_snoc _ _ _ _ _ _ Hrun), Hrule. split; [congruence|]. exists e. auto.
  - congruence.
Qed.

Lemma control_loop_inv role wt : forall fuel c w wr res c' w' wr',
  control_loop (next_control role wt) fuel (c, w, wr) = (res, (c', w', wr')) ->
  ctl_inv role c -> c_err c = None -> res <> PIndet ->
  ctl_inv role c' /\ (forall e, res = PErr e -> c_err c' = Some e) /\ ((forall e, res <> PErr e) -> c_err c' = None) /\
  res <> PReady tt.
Proof.
  induction fuel as [|fuel IH]; intros c w wr res c' w' wr' H Hinv He Hni; cbn [control_loop] in H.
  - inversion H; subst. repeat split; auto; discriminate.
  - destruct (next_control role wt (c, w, wr)) as [r1 [[c1 w1] wr1]] eqn:Hn.
    pose (st := snd (fst (ctl_run (srole_of role) cs_init (c_taken c)))).
    assert (Hm : st_match c st).
    { unfold ctl_inv in Hinv. unfold st.
      destruct (ctl_run (srole_of role) cs_init (c_taken c)) as [[acts st0] [codes|]]; cbn [fst snd].
      - destruct Hinv as (_ & e & Hx & _). congruence.
      - destruct Hinv as (_ & Hm & _). auto. }
    pose proof (next_control_spec role wt c w wr r1 c1 w1 wr1 st He Hm Hn) as Hout.
    assert (Hstep : r1 <> PIndet -> ctl_inv role c1).
    { intros Hx. eapply ctl_inv_step; eauto. }
    destruct r1 as [u| |e|n| |].
    + (* another round *)
      assert (Hc1 : c_err c1 = None).
      { destruct Hout as [_ Hnr _ | ? ? ? ? _ _ Hn1 | ? ? ? _ _ Hx | Hx]; try discriminate; auto.
        destruct u. exfalso. apply Hnr. reflexivity. }
      eapply IH; eauto. apply Hstep. discriminate.
    + inversion H; subst. split; [apply Hstep; discriminate|]. repeat split; try discriminate.
      intros _. destruct Hout as [(_ & _ & _ & Ho) _ _ | ? ? ? ? _ Hx | ? ? ? _ _ Hx | Hx]; try discriminate. auto.
    + inversion H; subst. split; [apply Hstep; discriminate|]. repeat split; try discriminate.
      * intros e0 Hx. inversion Hx; subst.
        destruct Hout as [(_ & _ & _ & Ho) _ _ | ? ? ? ? _ Hy | ? ? ? _ _ Hy Hz | Hy]; try discriminate; auto.
        inversion Hy; subst. exact Hz.
      * intros Hx. exfalso. eapply Hx. reflexivity.
    + inversion H; subst. split; [apply Hstep; discriminate|]. repeat split; try discriminate.
      intros _. destruct Hout as [(_ & _ & _ & Ho) _ _ | ? ? ? ? _ Hx | ? ? ? _ _ Hx | Hx]; try discriminate. auto.
    + inversion H; subst. congruence.
    + inversion H; subst. split; [apply Hstep; discriminate|]. repeat split; try discriminate.
      intros _. destruct Hout as [(_ & _ & _ & Ho) _ _ | ? ? ? ? _ Hx | ? ? ? _ _ Hx | Hx]; try discriminate. auto.
Qed.

(* ---------- the driver task ---------- *)
Definition drv_inv (d : drv) : Prop :=
  (d_res d <> RIndet -> ctl_inv (d_role d) (conn_of d)) /\
  (forall e, d_res d = RErr e -> c_err (conn_of d) = Some e) /\
  ((forall e, d_res d <> RErr e) -> d_res d <> RIndet -> c_err (conn_of d) = None) /\
  (d_ph d <> PhDone -> d_res d <> RIndet /\ forall e, d_res d <> RErr e).

Lemma finish_fields d ph c w wr r :
  d_role (finish d ph (c, w, wr) r) = d_role d /\ conn_of (finish d ph (c, w, wr) r) = c /\
  d_res (finish d ph (c, w, wr) r) = r /\ d_ph (finish d ph (c, w, wr) r) = ph /\
  d_grease (finish d ph (c, w, wr) r) = d_grease d /\ d_wt (finish d ph (c, w, wr) r) = d_wt d.
Proof. repeat split. Qed.

(* a state in which the driver may run: invariant, no error so far *)
Definition runnable (r : role) (c : conn) : Prop := ctl_inv r c /\ c_err c = None.

Lemma drv_inv_going d ph c w wr r :
  r = RPending \/ r = RNone -> runnable (d_role d) c -> drv_inv (finish d ph (c, w, wr) r).
Proof.
  intros Hr [Hi He]. unfold drv_inv. destruct (finish_fields d ph c w wr r) as (-> & -> & -> & -> & _).
  split; [auto|]. split; [intros e Hx; destruct Hr; congruence|]. split; [auto|].
  intros _. split; [destruct Hr; congruence|intros e; destruct Hr; congruence].
Qed.
Lemma drv_inv_pending d ph c w wr :
  runnable (d_role d) c -> drv_inv (finish d ph (c, w, wr) RPending).
Proof. apply drv_inv_going. auto. Qed.

Lemma drv_inv_stopped d c w wr r :
  r <> RIndet -> (forall e, r <> RErr e) -> runnable (d_role d) c -> drv_inv (finish d PhDone (c, w, wr) r).
Proof.
  intros H1 H2 [Hi He]. unfold drv_inv. destruct (finish_fields d PhDone c w wr r) as (-> & -> & -> & -> & _).
  split; [auto|]. split; [intros e Hx; exfalso; exact (H2 e Hx)|]. split; [auto|]. congruence.
Qed.

Lemma run_shutdown_inv d c w wr :
  runnable (d_role d) c -> drv_inv (run_shutdown d (c, w, wr)).
Proof.
  intros Hr. unfold run_shutdown.
  destruct (poll_ready (control_send_id (d_role d)) wr w) as [[x wr1] w1].
  destruct x.
  - apply drv_inv_going; auto.
  - apply drv_inv_going; auto.
  - unfold drv_inv. destruct (finish_fields d PhDone c w1 wr1 RIndet) as (-> & -> & -> & -> & _).
    repeat split; try congruence; try discriminate.
  - apply drv_inv_stopped; [discriminate|discriminate|exact Hr].
Qed.

Lemma set_closing_runnable r c x : c_recv_closing c = x -> runnable r c -> runnable r (set_closing c x).
Proof.
  intros Hx [Hi He]. split; [|exact He]. eapply ctl_inv_ext; [| |exact Hi].
  - unfold ctl_part. cbn [c_taken c_acted c_got c_recv_closing set_closing]. congruence.
  - reflexivity.
Qed.

Lemma drv_inv_final d c w wr r :
  (r <> RIndet -> ctl_inv (d_role d) c) -> (forall e, r = RErr e -> c_err c = Some e) ->
  ((forall e, r <> RErr e) -> r <> RIndet -> c_err c = None) ->
  drv_inv (finish d PhDone (c, w, wr) r).
Proof.
  intros H1 H2 H3. unfold drv_inv.
  destruct (finish_fields d PhDone c w wr r) as (-> & -> & -> & -> & _).
  split; [exact H1|]. split; [exact H2|]. split; [exact H3|]. congruence.
Qed.

(* what the loop leaves behind, turned into the driver's result *)
Lemma loop_result_inv d role res c1 w1 wr1 :
  d_role d = role ->
  (res <> PIndet -> ctl_inv role c1 /\ (forall e, res = PErr e -> c_err c1 = Some e) /\
                    ((forall e, res <> PErr e) -> c_err c1 = None) /\ res <> PReady tt) ->
  res <> PPending ->
  drv_inv (finish d PhDone (c1, w1, wr1) (of_pres res)).
Proof.
  intros Hrole Hloop Hnp. apply drv_inv_final; rewrite ?Hrole.
  - intros Hx. destruct res; cbn [of_pres] in Hx; try congruence; apply Hloop; discriminate.
  - intros e Hx. destruct res; cbn [of_pres] in Hx; try discriminate. inversion Hx; subst.
    apply Hloop; [discriminate|reflexivity].
  - intros Hx Hy. destruct res as [u| |e|n| |]; cbn [of_pres] in *; try congruence.
    + destruct Hloop as (_ & _ & _ & Hz); [discriminate|]. destruct u. congruence.
    + apply Hloop; discriminate.
    + apply Hloop; discriminate.
Qed.

Lemma run_driver_inv d c w wr :
  runnable (d_role d) c -> drv_inv (run_driver d (c, w, wr)).
Proof.
  intros [Hi He]. unfold run_driver. destruct (d_role d) eqn:Hrole.
  - destruct (control_loop (next_control RServer (d_wt d)) (fuel_of (c, w, wr)) (c, w, wr)) as [res [[c1 w1] wr1]] eqn:Hl.
    assert (Hloop : res <> PIndet -> ctl_inv RServer c1 /\ (forall e, res = PErr e -> c_err c1 = Some e) /\
                    ((forall e, res <> PErr e) -> c_err c1 = None) /\ res <> PReady tt).
    { intros Hx. eapply control_loop_inv; eauto. }
    destruct res as [u| |e|n| |]; try (apply (loop_result_inv d RServer); [exact Hrole|exact Hloop|discriminate]).
    destruct Hloop as (Hi1 & _ & Hn1 & _); [discriminate|].
    assert (Hr1 : runnable (d_role d) c1) by (rewrite Hrole; split; [exact Hi1|apply Hn1; discriminate]).
    destruct (c_recv_closing c1) eqn:Hrc.
    + destruct (c_sent c1).
      * apply drv_inv_going; auto.
      * apply run_shutdown_inv. destruct (set_closing_runnable (d_role d) c1 (Some n) Hrc Hr1) as [Ha Hb].
        split; [|exact Hb]. eapply ctl_inv_ext; [| |exact Ha]; reflexivity.
    + apply drv_inv_pending. exact Hr1.
  - destruct (control_loop (next_control RClient (d_wt d)) (fuel_of (c, w, wr)) (c, w, wr)) as [res [[c1 w1] wr1]] eqn:Hl.
    assert (Hloop : res <> PIndet -> ctl_inv RClient c1 /\ (forall e, res = PErr e -> c_err c1 = Some e) /\
                    ((forall e, res <> PErr e) -> c_err c1 = None) /\ res <> PReady tt).
    { intros Hx. eapply control_loop_inv; eauto. }
    destruct res as [u| |e|n| |]; try (apply (loop_result_inv d RClient); [exact Hrole|exact Hloop|discriminate]).
    destruct Hloop as (Hi1 & _ & Hn1 & _); [discriminate|].
    apply drv_inv_pending. rewrite Hrole. split; [exact Hi1|apply Hn1; discriminate].
Qed.

Lemma run_headers_inv d c w wr :
  runnable (d_role d) c -> drv_inv (run_headers d (c, w, wr)).
Proof.
  intros Hr. unfold run_headers.
  destruct (poll_ready (control_send_id (d_role d)) wr w) as [[r1 wr1] w1].
  assert (Hindet : forall w0 wr0, drv_inv (finish d PhDone (c, w0, wr0) RIndet)).
  { intros w0 wr0. apply drv_inv_final; congruence. }
  assert (Hout : forall w0 wr0, drv_inv (finish d PhDone (c, w0, wr0) ROutside)).
  { intros w0 wr0. apply drv_inv_stopped; [discriminate|discriminate|exact Hr]. }
  destruct r1; try apply Hindet; try apply Hout;
    destruct (poll_ready (decoder_send_id (d_role d)) wr1 w1) as [[r2 wr2] w2];
    destruct r2; try apply Hindet; try apply Hout;
    destruct (poll_ready (encoder_send_id (d_role d)) wr2 w2) as [[r3 wr3] w3];
    destruct r3; try apply Hindet; try apply Hout;
    try (apply drv_inv_pending; exact Hr).
  apply run_driver_inv. exact Hr.
Qed.

Lemma run_open_inv d : forall n k c w wr,
  runnable (d_role d) c -> drv_inv (run_open n k d (c, w, wr)).
Proof.
  induction n as [|n IH]; intros k c w wr Hr; cbn [run_open].
  - destruct (3 <=? k); [apply run_headers_inv; exact Hr|].
    apply drv_inv_final.
    + intros _. apply Hr.
    + discriminate.
    + intros _ _. apply Hr.
  - destruct (3 <=? k); [apply run_headers_inv; exact Hr|].
    destruct (open_send w) as [[id w']|].
    + apply IH. exact Hr.
    + apply drv_inv_pending. exact Hr.
Qed.

Lemma with_polls_inv d n :
  drv_inv d ->
  drv_inv {| d_role := d_role d; d_grease := d_grease d; d_wt := d_wt d; d_ph := d_ph d; d_s := d_s d;
             d_res := d_res d; d_polls := n; d_at := d_at d |}.
Proof. intros H. exact H. Qed.

(* in a phase other than PhDone no error has been recorded and the invariant holds unconditionally *)
Lemma drv_inv_runnable d : drv_inv d -> d_ph d <> PhDone -> runnable (d_role d) (conn_of d).
Proof.
  intros (H1 & H2 & H3 & H4) Hph. destruct (H4 Hph) as [Ha Hb]. split.
  - apply H1. exact Ha.
  - apply H3; assumption.
Qed.

Lemma drive_inv d : drv_inv d -> drv_inv (drive d).
Proof.
  intros Hinv. unfold drive.
  set (d1 := {| d_role := d_role d; d_grease := d_grease d; d_wt := d_wt d; d_ph := d_ph d; d_s := d_s d;
                d_res := d_res d; d_polls := d_polls d + 1; d_at := d_at d |}).
  assert (H1 : drv_inv d1) by exact Hinv.
  assert (Hs : d_s d1 = d_s d) by reflexivity.
  assert (Hrun : d_ph d <> PhDone -> runnable (d_role d1) (conn_of d)) by (apply drv_inv_runnable; exact Hinv).
  change (d_ph d1) with (d_ph d). rewrite Hs. unfold conn_of in Hrun.
  destruct (d_s d) as [[c w] wr].
  destruct (d_ph d); try (specialize (Hrun ltac:(discriminate))).
  - apply run_open_inv. exact Hrun.
  - apply run_headers_inv. exact Hrun.
  - apply run_driver_inv. exact Hrun.
  - apply run_shutdown_inv. exact Hrun.
  - apply run_driver_inv. exact Hrun.
  - exact H1.
Qed.

Lemma ghost_arrive_parts e c :
  ctl_part (ghost_arrive e c) = ctl_part c /\ err_part (ghost_arrive e c) = err_part c.
Proof.
  unfold ghost_arrive. destruct e; try (split; reflexivity).
  destruct (c_control c) as [[cid fs]|]; [|split; reflexivity].
  destruct (id =? cid); split; reflexivity.
Qed.

Lemma step_inv d e : drv_inv d -> drv_inv (step d e).
Proof.
  intros Hinv. destruct e; cbn [step]; try (apply drive_inv; exact Hinv);
    unfold drv_inv, conn_of in *; destruct (d_s d) as [[c w] wr]; cbn [d_res d_role d_s d_ph];
    match goal with |- context [ghost_arrive ?e c] =>
      destruct (ghost_arrive_parts e c) as [Hp He];
      assert (Hce : c_err (ghost_arrive e c) = c_err c) by (unfold err_part in He; congruence)
    end;
    destruct Hinv as (H1 & H2 & H3 & H4); rewrite Hce;
    (split; [intros Hx; eapply ctl_inv_ext; [exact Hp|exact He|apply H1; exact Hx]|]);
    (split; [exact H2|split; [exact H3|exact H4]]).
Qed.

Lemma new_drv_inv r g wt cr dflt : drv_inv (new_drv r g wt cr dflt).
Proof.
  unfold drv_inv, new_drv, conn_of. cbn [d_res d_role d_s d_ph].
  split; [intros _; apply ctl_inv_new|]. split; [discriminate|]. split; [reflexivity|]. intros _. split; discriminate.
Qed.

Theorem run_history_inv h : forall d, drv_inv d -> drv_inv (run_history h d).
Proof.
  unfold run_history. induction h as [|e h IH]; intros d Hd; cbn [fold_left]; [exact Hd|].
  apply IH. apply step_inv. exact Hd.
Qed.

(* the role and the configuration never change *)
Definition same_cfg (d d' : drv) : Prop := d_role d' = d_role d /\ d_grease d' = d_grease d /\ d_wt d' = d_wt d.
Lemma same_cfg_finish d ph s r : same_cfg d (finish d ph s r).
Proof. repeat split. Qed.
Lemma run_shutdown_cfg d s : same_cfg d (run_shutdown d s).
Proof.
  destruct s as [[c w] wr]. unfold run_shutdown.
  destruct (poll_ready (control_send_id (d_role d)) wr w) as [[x wr1] w1]. destruct x; apply same_cfg_finish.
Qed.
Lemma run_driver_cfg d s : same_cfg d (run_driver d s).
Proof.
  unfold run_driver. destruct (d_role d).
  - destruct (control_loop _ _ s) as [res [[c1 w1] wr1]]. destruct res; try apply same_cfg_finish.
    destruct (c_recv_closing c1); [destruct (c_sent c1); [apply same_cfg_finish|apply run_shutdown_cfg]|apply same_cfg_finish].
  - destruct (control_loop _ _ s) as [res s1]. destruct res; apply same_cfg_finish.
Qed.
Lemma run_headers_cfg d s : same_cfg d (run_headers d s).
Proof.
  destruct s as [[c w] wr]. unfold run_headers.
  destruct (poll_ready (control_send_id (d_role d)) wr w) as [[r1 wr1] w1].
  destruct r1; try apply same_cfg_finish;
    destruct (poll_ready (decoder_send_id (d_role d)) wr1 w1) as [[r2 wr2] w2];
    destruct r2; try apply same_cfg_finish;
    destruct (poll_ready (encoder_send_id (d_role d)) wr2 w2) as [[r3 wr3] w3];
    destruct r3; try apply same_cfg_finish; apply run_driver_cfg.
Qed.
Lemma run_open_cfg d : forall n k s, same_cfg d (run_open n k d s).
Proof.
  induction n as [|n IH]; intros k [[c w] wr]; cbn [run_open].
  - destruct (3 <=? k); [apply run_headers_cfg|apply same_cfg_finish].
  - destruct (3 <=? k); [apply run_headers_cfg|].
    destruct (open_send w) as [[id w']|]; [apply IH|apply same_cfg_finish].
Qed.
Lemma drive_cfg d : same_cfg d (drive d).
Proof.
  unfold drive.
  set (d1 := {| d_role := d_role d; d_grease := d_grease d; d_wt := d_wt d; d_ph := d_ph d; d_s := d_s d;
                d_res := d_res d; d_polls := d_polls d + 1; d_at := d_at d |}).
  assert (H1 : same_cfg d d1) by (repeat split).
  assert (Ht : forall d2, same_cfg d1 d2 -> same_cfg d d2).
  { intros d2 (A & B & C). destruct H1 as (A1 & B1 & C1). unfold same_cfg. repeat split; congruence. }
  change (d_ph d1) with (d_ph d). destruct (d_ph d); apply Ht.
  - apply run_open_cfg.
  - apply run_headers_cfg.
  - apply run_driver_cfg.
  - apply run_shutdown_cfg.
  - apply run_driver_cfg.
  - repeat split.
Qed.
Lemma step_cfg d e : same_cfg d (step d e).
Proof. destruct e; cbn [step]; try apply drive_cfg; destruct (d_s d) as [[c w] wr]; repeat split. Qed.
Lemma run_history_cfg h : forall d, same_cfg d (run_history h d).
Proof.
  unfold run_history. induction h as [|e h IH]; intros d; cbn [fold_left]; [repeat split|].
  destruct (IH (step d e)) as (A & B & C). destruct (step_cfg d e) as (A1 & B1 & C1).
  unfold same_cfg. repeat split; congruence.
Qed.

(* Exactly once (relative to the frames the frame layer hands out): for every history of stream openings, chunk
   arrivals, FIN/RESET, credit grants, write grants and polls, in either role, with grease on or off -
   the control frames acted upon are, in order and each once, the frames the rule table accepts among those taken
   out of the control stream; if the table refuses one, the connection failed with a code the table lists;
   and a failure not caused by a frame has one of the stream-level causes with its code. *)
Theorem exactly_once role grease wt credit dflt h :
  let d := run_history h (new_drv role grease wt credit dflt) in
  d_res d <> RIndet ->
  let c := conn_of d in
  match ctl_run (srole_of role) cs_init (c_taken c) with
  | (acts, _, None) =>
      map to_sact (c_acted c) = acts /\
      (forall e, d_res d = RErr e -> exists z, c_cause c = Some z /\ pc_cause_code z e)
  | (acts, _, Some codes) =>
      map to_sact (c_acted c) = acts /\ exists e, d_res d = RErr e /\ In e codes
  end.
Proof.
  intros d Hni c.
  pose proof (run_history_inv h _ (new_drv_inv role grease wt credit dflt)) as Hinv. fold d in Hinv.
  assert (Hrole : d_role d = role).
  { destruct (run_history_cfg h (new_drv role grease wt credit dflt)) as (A & _). exact A. }
  destruct Hinv as (H1 & H2 & H3 & H4). specialize (H1 Hni). rewrite Hrole in H1. fold c in H1, H2, H3.
  unfold ctl_inv in H1.
  destruct (ctl_run (srole_of role) cs_init (c_taken c)) as [[acts st] [codes|]].
  - destruct H1 as (Ha & e & He & Hin). split; [exact Ha|]. exists e. split; [|exact Hin].
    (* the error is the driver's result *)
    destruct (d_res d) as [| |e'|n| |] eqn:Hr; try congruence.
    + assert (Hx : c_err c = None) by (apply H3; [discriminate|discriminate]). congruence.
    + assert (Hx : c_err c = None) by (apply H3; [discriminate|discriminate]). congruence.
    + specialize (H2 e' eq_refl). congruence.
    + assert (Hx : c_err c = None) by (apply H3; [discriminate|discriminate]). congruence.
    + assert (Hx : c_err c = None) by (apply H3; [discriminate|discriminate]). congruence.
  - destruct H1 as (Ha & _ & Hcz). split; [exact Ha|]. intros e He. apply Hcz. apply H2. exact He.
Qed.
