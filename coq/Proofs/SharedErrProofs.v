(* Proofs for C05 over Model/SharedErr.v: invariants of ALL interleavings (induction over `reachable`),
   for any number of stream tasks, any errors, any shapes of driver polls. *)
From H3V Require Import Base.Bytes Gen.GenCodes Gen.GenSharedErr Spec.FirstErrorWins
  Model.SharedErr Model.SharedErrRun Proofs.SharedErrLemmas.

(* ------------------------------------------------------------------------------------------ *)
(* Part 1: single outcome.  Needs: first store wins, the memo, the statement lists of the hit
   branch and of handle_connection_error, poll_connection_error STARTS with the memo check (the
   order of its other statements is irrelevant here), and the two tables.                       *)

Record safety_cfg (c : cfg) : Prop := {
  sc_first : c_first_wins c = true;
  sc_memo : c_memo c = true;
  sc_hit : c_hit c = [HOClose; HOConvert];
  sc_handle : c_handle c = [HOMemo; HOSet; HOClose; HOConvert];
  sc_poll : exists body, c_poll c = POMemo :: body;
  sc_close : c_close c = std_close;
  sc_convert : c_convert c = std_convert }.

Definition plain (i : instr) : Prop :=
  match i with I_close _ | I_convert _ => False | _ => True end.

Lemma plain_pce : forall l, Forall plain (map pce_instr l).
Proof. induction l as [|o l IH]; cbn; constructor; [destruct o; exact I | exact IH]. Qed.

Lemma plain_call : forall c d, safety_cfg c -> Forall plain (call_prog c d).
Proof.
  intros c d Hs. destruct d as [|e]; cbn.
  - apply plain_pce.
  - rewrite (sc_handle c Hs). cbn. repeat constructor.
Qed.

Lemma plain_poll_prog : forall c calls pend, safety_cfg c -> Forall plain (poll_prog c calls pend).
Proof.
  intros c calls pend Hs. unfold poll_prog. apply Forall_app. split; [apply plain_pce|].
  apply Forall_app. split; [|repeat constructor].
  induction calls as [|d calls IH]; cbn; [constructor|].
  apply Forall_app. split; [apply plain_call; exact Hs | exact IH].
Qed.

Lemma plain_not_convert : forall (A : Type) p (f : err -> A) (d : A),
  Forall plain p -> match p with [I_convert e] => f e | _ => d end = d.
Proof.
  intros A p f d Hp. destruct p as [|i [|j r]]; try reflexivity.
  - inversion Hp as [|x l Hi Hr]; subst. destruct i; try reflexivity. destruct Hi.
  - destruct i; reflexivity.
Qed.

Definition clist (c : cfg) (o : option err) : list N :=
  match o with
  | Some e => match close_code c e with Some k => [k] | None => [] end
  | None => []
  end.

Definition closes_expected (c : cfg) (w : world) : list N :=
  match handled w with
  | Some _ => clist c (cell w)
  | None => match dprog w with [I_convert e] => clist c (Some e) | _ => [] end
  end.

Record inv1 (c : cfg) (w : world) : Prop := {
  i_acc : forall s e, In s (streams w) -> sacc s = Some e -> cell w = Some e;
  i_shape : Forall plain (dprog w) \/
            exists e, cell w = Some e /\ (dprog w = [I_close e; I_convert e] \/ dprog w = [I_convert e]);
  i_handled : forall ce, handled w = Some ce -> exists e, cell w = Some e /\ ce = convert c e;
  i_reports : forall h ce, In (EReport h ce) (trace w) -> exists e, cell w = Some e /\ ce = convert c e;
  i_refine : first_raised (raises (trace w)) = cell w;
  i_memo : handled w <> None -> forall i r, dprog w = i :: r ->
           i = I_memo \/ i = I_guard \/ exists p, i = I_end p;
  i_closes : closes (trace w) = closes_expected c w;
  i_dreported : forall ce, In (EReport HDriver ce) (trace w) -> handled w <> None }.

Lemma store_some : forall c x e, c_first_wins c = true -> store c (Some x) e = Some x.
Proof. intros c x e H. unfold store. rewrite H. reflexivity. Qed.
Lemma store_is_fw : forall c cl e, c_first_wins c = true -> store c cl e = fw_raise cl e.
Proof. intros c cl e H. unfold store, fw_raise. destruct cl; [rewrite H|]; reflexivity. Qed.
Lemma store_not_none : forall c cl e, store c cl e <> None.
Proof. intros c cl e. unfold store. destruct cl; [destruct (c_first_wins c)|]; discriminate. Qed.

Ltac wfields := cbn [cell wslot woken gen dprog parked handled streams trace sprog sacc] in *.

(* all the ways a step can go, with every branch of the step function resolved *)
Ltac step_cases c w a :=
  destruct a as [xcalls xpend|xsr0| |xi xe|xi];
  [ unfold step; destruct (dprog w) as [|xi0 xr0] eqn:Edp
  | unfold step; destruct (dprog w) as [|xi0 xr0] eqn:Edp
  | unfold step, dstep; destruct (dprog w) as [|[| | | |xn|xe0|xe0|xe0|xp] xrest] eqn:Edp;
    [ | destruct (handled w) as [xce|] eqn:Ehd | | destruct (cell w) as [xe1|] eqn:Ecl
      | destruct (cell w) as [xe1|] eqn:Ecl | | |
      destruct (close_code c xe0) as [xk|] eqn:Ecc | | destruct xp ]
  | unfold step; destruct (nth_error (streams w) xi) as [xs0|] eqn:Enth;
    [ destruct (sprog xs0) as [|xsi xsr] eqn:Esp | ]
  | unfold step, sstep; destruct (nth_error (streams w) xi) as [xs0|] eqn:Enth;
    [ destruct (sprog xs0) as [|[xe0| |xn|] xsr] eqn:Esp;
      [ | | | | destruct (sacc xs0) as [xea|] eqn:Eacc ] | ] ].

(* the cell is written at most once *)
Lemma step_cell_mono : forall c w a e,
  c_first_wins c = true -> cell w = Some e -> cell (step c w a) = Some e.
Proof.
  intros c w a e Hf Hc. step_cases c w a; wfields; try exact Hc;
    rewrite Hc; apply store_some; exact Hf.
Qed.

Ltac destruct_world w :=
  destruct w as [cl ws wk gn dp pk hd st tr]; wfields.

(* same case analysis once the world has been split into its fields (named as in destruct_world) *)
Ltac step_cases2 c a cl dp hd st :=
  destruct a as [xcalls xpend|xsr0| |xi xe|xi]; unfold step, dstep, sstep; wfields;
  [ destruct dp as [|xi0 xr0]
  | destruct dp as [|xi0 xr0]
  | destruct dp as [|[| | | |xn|xe0|xe0|xe0|xp] xrest];
    [ | destruct hd as [xce|] | | destruct cl as [xe1|] | destruct cl as [xe1|] | | |
      destruct (close_code c xe0) as [xk|] eqn:Ecc | | destruct xp ]
  | destruct (nth_error st xi) as [xs0|] eqn:Enth;
    [ destruct xs0 as [sp sa]; wfields; destruct sp as [|xsi xsr] | ]
  | destruct (nth_error st xi) as [xs0|] eqn:Enth;
    [ destruct xs0 as [sp sa]; wfields; destruct sp as [|[xe0| |xn|] xsr];
      [ | | | | destruct sa as [xea|] ] | ] ]; wfields.


Ltac tail_shape H :=
  let Hp := fresh "Hp" in let Hq := fresh "Hq" in
  destruct H as [Hp|[? [? [Hq|Hq]]]];
  [ left; inversion Hp; subst; assumption | discriminate Hq | discriminate Hq ].

Ltac no_memo Hmemo :=
  let Hne := fresh "Hne" in let H0 := fresh "H0" in
  intros Hne; exfalso; destruct (Hmemo Hne _ _ eq_refl) as [H0|[H0|[? H0]]]; discriminate H0.

Ltac start := constructor; unfold closes_expected; wfields; try assumption.

Lemma plain_tail : forall i r, Forall plain (i :: r) -> Forall plain r.
Proof. intros i r H. inversion H; assumption. Qed.

Lemma shape_plain_tail : forall i r (cl : option err),
  plain i ->
  (Forall plain (i :: r) \/ exists e, cl = Some e /\ (i :: r = [I_close e; I_convert e] \/ i :: r = [I_convert e])) ->
  Forall plain r.
Proof.
  intros i r cl Hi [Hp|[e [_ [Hq|Hq]]]].
  - eapply plain_tail; exact Hp.
  - inversion Hq; subst. destruct Hi.
  - inversion Hq; subst. destruct Hi.
Qed.

Lemma inv1_step : forall c w a, safety_cfg c -> inv1 c w -> inv1 c (step c w a).
Proof.
  intros c w a Hs [Hacc Hshape Hhd Hrep Href Hmemo Hcl Hdr].
  pose proof (sc_first c Hs) as Hfw. pose proof (sc_memo c Hs) as Hmm.
  pose proof (sc_hit c Hs) as Hhit. pose proof (sc_handle c Hs) as Hhan.
  destruct (sc_poll c Hs) as [body Hpoll].
  unfold closes_expected in Hcl.
  destruct_world w.
  step_cases2 c a cl dp hd st.
  - (* ABegin, idle *) start.
    + left. apply plain_poll_prog. exact Hs.
    + intros _ i r E. unfold poll_prog in E. rewrite Hpoll in E. cbn in E. inversion E. left. reflexivity.
    + rewrite Hcl. unfold poll_prog. rewrite Hpoll. cbn. reflexivity.
  - start.
  - (* AShutdown, idle *)
    assert (Hpl : Forall plain (shutdown_prog c xsr0)).
    { unfold shutdown_prog. apply Forall_app. split; [destruct (c_sd_guard c); repeat constructor|].
      destruct xsr0; [apply plain_call; exact Hs | repeat constructor]. }
    start.
    + left. exact Hpl.
    + intros _ i r E. unfold shutdown_prog, call_prog in E. rewrite Hhan in E.
      destruct (c_sd_guard c); destruct xsr0; cbn in E; inversion E; eauto.
    + rewrite Hcl. symmetry. destruct hd; [reflexivity|]. apply plain_not_convert. exact Hpl.
  - start.
  - start.
  - (* memo, handled *) start.
    + left. constructor.
    + intros h ce [E|Hin]; [inversion E; subst; apply Hhd; reflexivity | eapply Hrep; exact Hin].
    + intros _ i r E. discriminate E.
    + intros ce _. discriminate.
  - (* memo, not handled *)
    assert (Hpl : Forall plain xrest) by (eapply shape_plain_tail; [|exact Hshape]; exact I).
    start.
    + left. exact Hpl.
    + intros H. contradiction.
    + rewrite Hcl. symmetry. apply plain_not_convert. exact Hpl.
  - (* register *)
    assert (Hpl : Forall plain xrest) by (eapply shape_plain_tail; [|exact Hshape]; exact I).
    start.
    + left. exact Hpl.
    + no_memo Hmemo.
    + rewrite Hcl. destruct hd; [reflexivity|]. symmetry. apply plain_not_convert. exact Hpl.
  - (* check, hit *) rewrite Hhit. cbn [map hop]. start.
    + right. exists xe1. auto.
    + no_memo Hmemo.
  - (* check, none *)
    assert (Hpl : Forall plain xrest) by (eapply shape_plain_tail; [|exact Hshape]; exact I).
    start.
    + left. exact Hpl.
    + no_memo Hmemo.
    + rewrite Hcl. destruct hd; [reflexivity|]. symmetry. apply plain_not_convert. exact Hpl.
  - (* guard, hit: handle_connection_error(stored error) *)
    unfold call_prog. rewrite Hhan. cbn [upto_set map hop]. start.
    + left. repeat constructor.
    + intros _ i r E. inversion E. left. reflexivity.
  - (* guard, nothing stored *)
    assert (Hpl : Forall plain xrest) by (eapply shape_plain_tail; [|exact Hshape]; exact I).
    assert (Hnone : hd = None).
    { destruct hd as [ce|]; [|reflexivity]. destruct (Hhd ce eq_refl) as [e [Hc _]]. discriminate Hc. }
    subst hd. start.
    + left. exact Hpl.
    + intros H. contradiction.
    + rewrite Hcl. symmetry. apply plain_not_convert. exact Hpl.
  - (* point *)
    assert (Hpl : Forall plain xrest) by (eapply shape_plain_tail; [|exact Hshape]; exact I).
    start.
    + left. exact Hpl.
    + no_memo Hmemo.
    + rewrite Hcl. destruct hd; [reflexivity|]. symmetry. apply plain_not_convert. exact Hpl.
  - (* set *) rewrite Hhan. cbn [after_set map hop].
    assert (Hnone : hd = None).
    { destruct hd; [|reflexivity]. exfalso.
      destruct (Hmemo ltac:(discriminate) _ _ eq_refl) as [H0|[H0|[? H0]]]; discriminate H0. }
    subst hd.
    assert (Hst : exists e', store c cl xe0 = Some e' /\ (forall x, cl = Some x -> e' = x)).
    { destruct cl as [x|]; [rewrite store_some by exact Hfw | unfold store]; eexists; split; try reflexivity;
      intros y Hy; congruence. }
    destruct Hst as [e' [He' Hmono]]. rewrite He'. start.
    + intros s e Hin Ha. rewrite (Hmono e); [reflexivity|]. eapply Hacc; eassumption.
    + right. exists e'. auto.
    + intros ce H. discriminate.
    + intros h ce [E|Hin]; [discriminate|]. destruct (Hrep _ _ Hin) as [e [Hc Hce]].
      exists e. split; [|exact Hce]. rewrite (Hmono e Hc). reflexivity.
    + cbn. rewrite Href. rewrite <- He'. symmetry. apply store_is_fw. exact Hfw.
    + intros H. contradiction.
    + intros ce [E|Hin]; [discriminate|]. eapply Hdr; exact Hin.
  - (* close, closing *)
    destruct Hshape as [Hp|[e' [Hc [Hq|Hq]]]]; [inversion Hp as [|? ? Hi ?]; destruct Hi | | discriminate Hq].
    inversion Hq; subst xe0 xrest.
    assert (Hnone : hd = None).
    { destruct hd; [|reflexivity]. exfalso.
      destruct (Hmemo ltac:(discriminate) _ _ eq_refl) as [H0|[H0|[? H0]]]; discriminate H0. }
    subst hd. start.
    + right. exists e'. auto.
    + intros h ce [E|Hin]; [discriminate|]. eapply Hrep; exact Hin.
    + intros H. contradiction.
    + cbn. rewrite Hcl, Ecc. reflexivity.
    + intros ce [E|Hin]; [discriminate|]. eapply Hdr; exact Hin.
  - (* close, nothing to close *)
    destruct Hshape as [Hp|[e' [Hc [Hq|Hq]]]]; [inversion Hp as [|? ? Hi ?]; destruct Hi | | discriminate Hq].
    inversion Hq; subst xe0 xrest.
    assert (Hnone : hd = None).
    { destruct hd; [|reflexivity]. exfalso.
      destruct (Hmemo ltac:(discriminate) _ _ eq_refl) as [H0|[H0|[? H0]]]; discriminate H0. }
    subst hd. start.
    + right. exists e'. auto.
    + intros H. contradiction.
    + cbn. rewrite Hcl, Ecc. reflexivity.
  - (* convert *)
    destruct Hshape as [Hp|[e' [Hc [Hq|Hq]]]]; [inversion Hp as [|? ? Hi ?]; destruct Hi | discriminate Hq | ].
    inversion Hq; subst xe0 xrest.
    assert (Hnone : hd = None).
    { destruct hd; [|reflexivity]. exfalso.
      destruct (Hmemo ltac:(discriminate) _ _ eq_refl) as [H0|[H0|[? H0]]]; discriminate H0. }
    subst hd. rewrite Hmm. start.
    + left. constructor.
    + intros ce E. inversion E. exists e'. auto.
    + intros h ce [E|Hin]; [inversion E; exists e'; auto | eapply Hrep; exact Hin].
    + intros _ i r E. discriminate E.
    + cbn. rewrite Hcl, Hc. reflexivity.
    + intros ce _. discriminate.
  - (* end, pending *) start.
    + left. constructor.
    + intros h ce [E|Hin]; [discriminate | eapply Hrep; exact Hin].
    + intros _ i r E. discriminate E.
    + intros ce [E|Hin]; [discriminate | eapply Hdr; exact Hin].
  - (* end, ready *) start.
    + left. constructor.
    + intros h ce [E|Hin]; [discriminate | eapply Hrep; exact Hin].
    + intros _ i r E. discriminate E.
    + intros ce [E|Hin]; [discriminate | eapply Hdr; exact Hin].
  - (* ARaise, idle stream *) start.
    intros s e Hin Ha. apply upd_in in Hin. destruct Hin as [E|Hin]; [subst s; discriminate | eapply Hacc; eassumption].
  - start.
  - start.
  - start.
  - (* S_store *)
    assert (Hst : exists e', store c cl xe0 = Some e' /\ (forall x, cl = Some x -> e' = x)).
    { destruct cl as [x|]; [rewrite store_some by exact Hfw | unfold store]; eexists; split; try reflexivity;
      intros y Hy; congruence. }
    destruct Hst as [e' [He' Hmono]]. rewrite He'. start.
    + intros s e Hin Ha. apply upd_in in Hin. destruct Hin as [E|Hin].
      * subst s. exact Ha.
      * rewrite (Hmono e); [reflexivity|]. eapply Hacc; eassumption.
    + destruct Hshape as [Hp|[e1 [Hc Hq]]]; [left; exact Hp|]. right. exists e1. split; [|exact Hq].
      rewrite (Hmono e1 Hc). reflexivity.
    + intros ce H. destruct (Hhd ce H) as [e1 [Hc Hce]]. exists e1. split; [|exact Hce].
      rewrite (Hmono e1 Hc). reflexivity.
    + intros h ce [E|Hin]; [discriminate|]. destruct (Hrep _ _ Hin) as [e1 [Hc Hce]].
      exists e1. split; [|exact Hce]. rewrite (Hmono e1 Hc). reflexivity.
    + cbn. rewrite Href. rewrite <- He'. symmetry. apply store_is_fw. exact Hfw.
    + cbn. rewrite Hcl. destruct hd as [ce|]; [|reflexivity].
      destruct (Hhd ce eq_refl) as [e1 [Hc _]]. rewrite (Hmono e1 Hc), Hc. reflexivity.
    + intros ce [E|Hin]; [discriminate|]. eapply Hdr; exact Hin.
  - (* S_wake *) start.
    intros s e Hin Ha. apply upd_in in Hin. destruct Hin as [E|Hin]; [|eapply Hacc; eassumption].
    subst s. eapply Hacc; [eapply nth_error_In; exact Enth | exact Ha].
  - (* S_point *) start.
    intros s e Hin Ha. apply upd_in in Hin. destruct Hin as [E|Hin]; [|eapply Hacc; eassumption].
    subst s. eapply Hacc; [eapply nth_error_In; exact Enth | exact Ha].
  - (* S_ret, with a value *) start.
    + intros s e Hin Ha. apply upd_in in Hin. destruct Hin as [E|Hin]; [subst s; discriminate | eapply Hacc; eassumption].
    + intros h ce [E|Hin]; [|eapply Hrep; exact Hin]. inversion E. exists xea. split; [|reflexivity].
      eapply Hacc; [eapply nth_error_In; exact Enth | reflexivity].
    + intros ce [E|Hin]; [discriminate | eapply Hdr; exact Hin].
  - (* S_ret, nothing *) start.
    intros s e Hin Ha. apply upd_in in Hin. destruct Hin as [E|Hin]; [subst s; discriminate | eapply Hacc; eassumption].
  - start.
Qed.

Lemma inv1_init : forall c k, inv1 c (init k).
Proof.
  intros c k. constructor; unfold closes_expected; cbn.
  - intros s e Hin Ha. apply repeat_spec in Hin. subst s. discriminate.
  - left. constructor.
  - intros ce H. discriminate.
  - intros h ce H. contradiction.
  - reflexivity.
  - intros H. contradiction.
  - reflexivity.
  - intros ce H. contradiction.
Qed.

Lemma inv1_reachable : forall c k w, safety_cfg c -> reachable c k w -> inv1 c w.
Proof.
  intros c k w Hs Hr. induction Hr as [|w a Hr IH]; [apply inv1_init | apply inv1_step; assumption].
Qed.

Lemma reachable_run : forall c k acts w, reachable c k w -> reachable c k (run c acts w).
Proof.
  intros c k acts. induction acts as [|a acts IH]; intros w Hr; cbn; [exact Hr|].
  apply IH. constructor. exact Hr.
Qed.

(* T1a: the cell changes at most once, along any continuation *)
Lemma run_cell_mono : forall c acts w e,
  c_first_wins c = true -> cell w = Some e -> cell (run c acts w) = Some e.
Proof.
  intros c acts. induction acts as [|a acts IH]; intros w e Hf Hc; cbn; [exact Hc|].
  apply IH; [exact Hf|]. apply step_cell_mono; assumption.
Qed.

(* the model's cell is the abstract first-store-wins cell applied to the raises observed so far *)
Lemma cell_refines_spec : forall c k w, safety_cfg c -> reachable c k w -> cell w = outcome (obs w).
Proof.
  intros c k w Hs Hr. rewrite outcome_obs. symmetry. apply (i_refine c w). eapply inv1_reachable; eassumption.
Qed.

(* T1b *)
Lemma single_outcome_holds : forall c k w, safety_cfg c -> reachable c k w -> single_outcome (obs w).
Proof.
  intros c k w Hs Hr h ce Hin. apply in_obs in Hin.
  pose proof (inv1_reachable c k w Hs Hr) as Hi.
  destruct (i_reports c w Hi h ce Hin) as [e [Hc Hce]].
  exists e. split.
  - rewrite <- (cell_refines_spec c k w Hs Hr). exact Hc.
  - rewrite Hce. apply convert_is_spec. apply (sc_convert c Hs).
Qed.

Lemma clist_spec : forall c o, c_close c = std_close ->
  clist c o = match o with
              | Some e => match spec_close_code e with Some k => [k] | None => [] end
              | None => []
              end.
Proof. intros c o H. destruct o as [e|]; cbn; [rewrite (close_is_spec c e H)|]; reflexivity. Qed.

(* T1c *)
Lemma close_ok_holds : forall c k w, safety_cfg c -> reachable c k w -> close_ok (obs w).
Proof.
  intros c k w Hs Hr. pose proof (inv1_reachable c k w Hs Hr) as Hi.
  unfold close_ok, obs. rewrite closes_rev. rewrite (i_closes c w Hi).
  fold (obs w). rewrite <- (cell_refines_spec c k w Hs Hr).
  unfold closes_expected.
  assert (Hcase : forall e,
            rev (clist c (Some e)) = [] \/
            exists c0, spec_close_code e = Some c0 /\ rev (clist c (Some e)) = [c0]).
  { intros e. rewrite (clist_spec c _ (sc_close c Hs)).
    destruct (spec_close_code e) as [k0|] eqn:Ek; [right; exists k0; auto | left; reflexivity]. }
  destruct (handled w) as [ce|] eqn:Ehd.
  - destruct (i_handled c w Hi ce Ehd) as [e [Hc _]]. rewrite Hc.
    destruct (Hcase e) as [H|[c0 [H1 H2]]]; [left; exact H | right; exists e, c0; auto].
  - destruct (dprog w) as [|[| | | |n|e0|e0|e0|p] [|j r]] eqn:Edp; try (left; reflexivity).
    destruct (i_shape c w Hi) as [Hp|[e [Hc [Hq|Hq]]]].
    + rewrite Edp in Hp. inversion Hp as [|? ? Hx ?]. destruct Hx.
    + rewrite Edp in Hq. discriminate.
    + rewrite Edp in Hq. inversion Hq; subst e0. rewrite Hc.
      destruct (Hcase e) as [H|[c0 [H1 H2]]]; [left; exact H | right; exists e, c0; auto].
Qed.

(* T1d: once the driver has reported, an h3-detected outcome has been closed, with its code *)
Lemma closed_when_reported_holds : forall c k w, safety_cfg c -> reachable c k w -> closed_when_reported (obs w).
Proof.
  intros c k w Hs Hr ce Hin e code Hout Hcode. apply in_obs in Hin.
  pose proof (inv1_reachable c k w Hs Hr) as Hi.
  pose proof (i_dreported c w Hi ce Hin) as Hne.
  unfold obs. rewrite closes_rev, (i_closes c w Hi). unfold closes_expected.
  destruct (handled w) as [ce0|]; [|contradiction Hne; reflexivity].
  rewrite <- (cell_refines_spec c k w Hs Hr) in Hout. rewrite Hout.
  rewrite (clist_spec c _ (sc_close c Hs)), Hcode. reflexivity.
Qed.

(* T1e: any two reports, on any handles, at any times, are the same error *)
Lemma reports_agree : forall c k w h1 c1 h2 c2, safety_cfg c -> reachable c k w ->
  In (EReport h1 c1) (obs w) -> In (EReport h2 c2) (obs w) -> c1 = c2.
Proof.
  intros c k w h1 c1 h2 c2 Hs Hr H1 H2.
  destruct (single_outcome_holds c k w Hs Hr h1 c1 H1) as [e1 [Ho1 E1]].
  destruct (single_outcome_holds c k w Hs Hr h2 c2 H2) as [e2 [Ho2 E2]].
  congruence.
Qed.

(* ... and they stay the same along every continuation (the later calls) *)
Lemma reports_stable : forall c k w acts h1 c1 h2 c2, safety_cfg c -> reachable c k w ->
  In (EReport h1 c1) (obs w) -> In (EReport h2 c2) (obs (run c acts w)) -> c1 = c2.
Proof.
  intros c k w acts h1 c1 h2 c2 Hs Hr H1 H2.
  pose proof (reachable_run c k acts w Hr) as Hr2.
  destruct (single_outcome_holds c k w Hs Hr h1 c1 H1) as [e1 [Ho1 E1]].
  destruct (single_outcome_holds c k _ Hs Hr2 h2 c2 H2) as [e2 [Ho2 E2]].
  rewrite <- (cell_refines_spec c k w Hs Hr) in Ho1.
  rewrite <- (cell_refines_spec c k _ Hs Hr2) in Ho2.
  rewrite (run_cell_mono c acts w e1 (sc_first c Hs) Ho1) in Ho2. congruence.
Qed.

(* ------------------------------------------------------------------------------------------ *)
(* Part 2: no lost wake-up.  Needs, in addition, the ORDER inside poll_connection_error
   (register before check) and inside set_conn_error_and_wake (store before wake).            *)

Definition std_poll : list pce_op := [POMemo; POPoint 0; PORegister; POPoint 1; POCheck; POPoint 2].
Definition std_raise : list raise_op := [ROStore; ROPoint 0; ROWake; ROPoint 1].

Record liveness_cfg (c : cfg) : Prop := {
  lc_safety : safety_cfg c;
  lc_poll : c_poll c = std_poll;
  lc_raise : c_raise c = std_raise;
  lc_guard : c_sd_guard c = true }.

(* the rest of this poll can reach its end without looking at the cell again *)
Fixpoint exposed_prog (p : list instr) : bool :=
  match p with
  | [] => false
  | I_end _ :: _ => true
  | I_memo :: r => exposed_prog r
  | I_point _ :: r => exposed_prog r
  | I_register :: r => exposed_prog r
  | _ :: _ => false
  end.

(* ... and return Pending: the driver parks *)
Fixpoint parks_prog (p : list instr) : bool :=
  match p with
  | [] => false
  | I_end pend :: _ => pend
  | I_memo :: r => parks_prog r
  | I_point _ :: r => parks_prog r
  | I_register :: r => parks_prog r
  | _ :: _ => false
  end.

(* the next check (or the parking end of the poll) comes before any further register: the slot must already be armed *)
Fixpoint need_slot (p : list instr) : bool :=
  match p with
  | [] => false
  | I_register :: _ => false
  | I_memo :: r => need_slot r
  | I_point _ :: r => need_slot r
  | I_check :: _ => true
  | I_end pend :: _ => pend
  | _ :: _ => false
  end.

(* shape of driver programs: no register is followed by the end of the poll without a check in between *)
Fixpoint wf_prog (p : list instr) : Prop :=
  match p with
  | [] => True
  | i :: r =>
      (parks_prog (i :: r) = true -> need_slot (i :: r) = true) /\
      match i with
      | I_close _ => exposed_prog r = false /\ parks_prog r = false /\ need_slot r = false
      | I_guard => parks_prog r = false /\ need_slot r = false
      | _ => True
      end /\
      wf_prog r
  end.

Fixpoint has_wake (p : list sinstr) : bool :=
  match p with
  | [] => false
  | S_wake :: _ => true
  | _ :: r => has_wake r
  end.
Fixpoint wake_follows_store (p : list sinstr) : bool :=
  match p with
  | [] => true
  | S_store _ :: r => has_wake r && wake_follows_store r
  | _ :: r => wake_follows_store r
  end.
(* the task has stored and not yet woken *)
Fixpoint stored (p : list sinstr) : bool :=
  match p with
  | [] => false
  | S_wake :: _ => true
  | S_store _ :: _ => false
  | _ :: r => stored r
  end.

Lemma has_wake_In : forall p, has_wake p = true -> In S_wake p.
Proof.
  induction p as [|i p IH]; cbn; [discriminate|].
  destruct i; intros H; try (right; apply IH; exact H). left; reflexivity.
Qed.

Record inv2 (w : world) : Prop := {
  j_wf : wf_prog (dprog w);
  j_inpoll : dprog w <> [] -> parked w = false;
  j_streams : forall s, In s (streams w) ->
              wake_follows_store (sprog s) = true /\ (stored (sprog s) = true -> cell w <> None);
  j_slot : (dprog w = [] /\ parked w = true) \/ need_slot (dprog w) = true ->
           wslot w = Some (gen w) \/ woken w = true;
  j_wake : cell w <> None ->
           (dprog w = [] /\ parked w = true) \/ parks_prog (dprog w) = true ->
           woken w = true \/ exists s, In s (streams w) /\ has_wake (sprog s) = true }.

Lemma wf_head : forall p, wf_prog p -> parks_prog p = true -> need_slot p = true.
Proof. intros p H He. destruct p as [|i r]; [discriminate|]. destruct H as [H _]. apply H. exact He. Qed.

Lemma wf_calls : forall c calls pend, liveness_cfg c ->
  wf_prog (flat_map (call_prog c) calls ++ [I_end pend]).
Proof.
  intros c calls pend Hl. induction calls as [|d calls IH].
  - cbn. repeat split; auto.
  - cbn [flat_map]. rewrite <- app_assoc.
    pose proof (wf_head _ IH) as Hh.
    destruct d as [|e]; cbn [call_prog].
    + rewrite (lc_poll c Hl). cbn. repeat split; try discriminate; try exact IH; exact Hh.
    + rewrite (sc_handle c (lc_safety c Hl)). cbn. repeat split; try discriminate; try exact IH; exact Hh.
Qed.

Lemma wf_poll_prog : forall c calls pend, liveness_cfg c -> wf_prog (poll_prog c calls pend).
Proof.
  intros c calls pend Hl. unfold poll_prog.
  pose proof (wf_calls c calls pend Hl) as IH. pose proof (wf_head _ IH) as Hh.
  rewrite (lc_poll c Hl). cbn. repeat split; try discriminate; try exact IH; exact Hh.
Qed.

Lemma inv2_init : forall k, inv2 (init k).
Proof.
  intros k. constructor; cbn.
  - exact I.
  - intros H. contradiction.
  - intros s Hin. apply repeat_spec in Hin. subst s. cbn. split; [reflexivity | discriminate].
  - intros [[_ H]|H]; discriminate.
  - intros H. contradiction.
Qed.

Ltac start2 := constructor; wfields; try assumption.

Lemma inv2_step : forall c w a, liveness_cfg c -> inv2 w -> inv2 (step c w a).
Proof.
  intros c w a Hl [Hwf Hin Hst Hslot Hwake].
  pose proof (lc_safety c Hl) as Hs.
  pose proof (sc_hit c Hs) as Hhit. pose proof (sc_handle c Hs) as Hhan.
  pose proof (lc_poll c Hl) as Hpoll. pose proof (lc_raise c Hl) as Hraise.
  destruct_world w.
  step_cases2 c a cl dp hd st.
  - (* ABegin *) start2.
    + apply wf_poll_prog. exact Hl.
    + intros _. reflexivity.
    + unfold poll_prog. rewrite Hpoll. cbn. intros [[H _]|H]; discriminate.
    + unfold poll_prog. rewrite Hpoll. cbn. intros _ [[H _]|H]; discriminate.
  - start2.
  - (* AShutdown *) unfold shutdown_prog, call_prog. rewrite (lc_guard c Hl), Hhan. start2.
    + destruct xsr0; cbn; repeat split; discriminate.
    + intros _. reflexivity.
    + destruct xsr0; cbn; intros [[H _]|H]; discriminate.
    + destruct xsr0; cbn; intros _ [[H _]|H]; discriminate.
  - start2.
  - start2.
  - (* memo, handled: the poll returns the error *) start2.
    + exact I.
    + intros H. contradiction H. reflexivity.
    + intros [[_ H]|H]; discriminate.
    + intros _ [[_ H]|H]; discriminate.
  - (* memo, not handled *)
    assert (Hpk : pk = false) by (apply Hin; discriminate).
    destruct Hwf as [Hw1 [_ Hw3]]. start2.
    + intros _. exact Hpk.
    + intros [[_ H]|H]; [congruence|]. apply Hslot. right. exact H.
    + intros Hc [[_ H]|H]; [congruence|]. apply Hwake; [exact Hc|]. right. exact H.
  - (* register *)
    assert (Hpk : pk = false) by (apply Hin; discriminate).
    destruct Hwf as [Hw1 [_ Hw3]]. start2.
    + intros _. exact Hpk.
    + intros _. left. reflexivity.
    + intros Hc [[_ H]|H]; [congruence|]. apply Hwake; [exact Hc|]. right. exact H.
  - (* check, hit *) rewrite Hhit. cbn [map hop].
    assert (Hpk : pk = false) by (apply Hin; discriminate). start2.
    + cbn. repeat split; discriminate.
    + intros _. exact Hpk.
    + cbn. intros [[H _]|H]; discriminate.
    + cbn. intros _ [[H _]|H]; discriminate.
  - (* check, none *)
    assert (Hpk : pk = false) by (apply Hin; discriminate).
    destruct Hwf as [Hw1 [_ Hw3]]. start2.
    + intros _. exact Hpk.
    + intros _. apply Hslot. right. reflexivity.
    + intros Hc. contradiction Hc. reflexivity.
  - (* guard, hit *) unfold call_prog. rewrite Hhan. cbn [upto_set map hop].
    assert (Hpk : pk = false) by (apply Hin; discriminate). start2.
    + cbn. repeat split; discriminate.
    + intros _. exact Hpk.
    + cbn. intros [[H _]|H]; discriminate.
    + cbn. intros _ [[H _]|H]; discriminate.
  - (* guard, nothing stored *)
    assert (Hpk : pk = false) by (apply Hin; discriminate).
    destruct Hwf as [Hw1 [[Hw2a Hw2b] Hw3]]. start2.
    + intros _. exact Hpk.
    + intros [[_ H]|H]; congruence.
    + intros Hc. contradiction Hc. reflexivity.
  - (* point *)
    assert (Hpk : pk = false) by (apply Hin; discriminate).
    destruct Hwf as [Hw1 [_ Hw3]]. start2.
    + intros _. exact Hpk.
    + intros [[_ H]|H]; [congruence|]. apply Hslot. right. exact H.
    + intros Hc [[_ H]|H]; [congruence|]. apply Hwake; [exact Hc|]. right. exact H.
  - (* set *) rewrite Hhan. cbn [after_set map hop].
    assert (Hpk : pk = false) by (apply Hin; discriminate). start2.
    + cbn. repeat split; discriminate.
    + intros _. exact Hpk.
    + intros s Hs0. destruct (Hst s Hs0) as [H1 _]. split; [exact H1|]. intros _. apply store_not_none.
    + cbn. intros [[H _]|H]; discriminate.
    + cbn. intros _ [[H _]|H]; discriminate.
  - (* close *)
    assert (Hpk : pk = false) by (apply Hin; discriminate).
    destruct Hwf as [Hw1 [[Hw2a [Hw2b Hw2c]] Hw3]]. start2.
    + intros _. exact Hpk.
    + intros [[_ H]|H]; congruence.
    + intros _ [[_ H]|H]; congruence.
  - (* close *)
    assert (Hpk : pk = false) by (apply Hin; discriminate).
    destruct Hwf as [Hw1 [[Hw2a [Hw2b Hw2c]] Hw3]]. start2.
    + intros _. exact Hpk.
    + intros [[_ H]|H]; congruence.
    + intros _ [[_ H]|H]; congruence.
  - (* convert *) start2.
    + exact I.
    + intros H. contradiction H. reflexivity.
    + intros [[_ H]|H]; discriminate.
    + intros _ [[_ H]|H]; discriminate.
  - (* end: Pending *) start2.
    + exact I.
    + intros H. contradiction H. reflexivity.
    + intros _. apply Hslot. right. reflexivity.
    + intros Hc _. apply Hwake; [exact Hc|]. right. reflexivity.
  - (* end: Ready *) start2.
    + exact I.
    + intros H. contradiction H. reflexivity.
    + intros [[_ H]|H]; discriminate.
    + intros _ [[_ H]|H]; discriminate.
  - (* ARaise *) start2.
    + intros s Hs0. apply upd_in in Hs0. destruct Hs0 as [E|Hs0]; [|apply Hst; exact Hs0].
      subst s. unfold raise_prog. rewrite Hraise. cbn. split; [reflexivity | discriminate].
    + intros Hc Ha. destruct (Hwake Hc Ha) as [H|[s0 [Hs0 Hw]]]; [left; exact H|]. right.
      destruct (upd_keep _ st xi {| sprog := raise_prog c xe; sacc := None |} s0 Hs0) as [H|H].
      * exists s0. auto.
      * rewrite Enth in H. inversion H; subst s0. discriminate.
  - start2.
  - start2.
  - start2.
  - (* S_store *)
    assert (Hmine := Hst _ (nth_error_In _ _ Enth)). wfields. destruct Hmine as [Hm1 _].
    cbn [wake_follows_store] in Hm1. apply andb_prop in Hm1. destruct Hm1 as [Hm1 Hm2].
    start2.
    + intros s Hs0. apply upd_in in Hs0. destruct Hs0 as [E|Hs0].
      * subst s. wfields. split; [exact Hm2|]. intros _. apply store_not_none.
      * destruct (Hst s Hs0) as [H1 _]. split; [exact H1|]. intros _. apply store_not_none.
    + intros _ _. right. eexists. split; [eapply upd_in_new; exact Enth|]. exact Hm1.
  - (* S_wake *)
    assert (Hmine := Hst _ (nth_error_In _ _ Enth)). wfields. destruct Hmine as [Hm1 Hm2].
    start2.
    + intros s Hs0. apply upd_in in Hs0. destruct Hs0 as [E|Hs0]; [|apply Hst; exact Hs0].
      subst s. wfields. split; [exact Hm1|]. intros _. apply Hm2. reflexivity.
    + intros Ha. right. destruct (Hslot Ha) as [H|H]; rewrite H;
        [rewrite Nat.eqb_refl; reflexivity | destruct ws as [g|]; [destruct (Nat.eqb g gn)|]; reflexivity].
    + intros _ Ha. left.
      assert (Hc : ws = Some gn \/ wk = true).
      { destruct Ha as [[E H]|H]; [apply Hslot; left; auto|]. apply Hslot. right. apply wf_head; assumption. }
      destruct Hc as [H|H]; rewrite H;
        [rewrite Nat.eqb_refl; reflexivity | destruct ws as [g|]; [destruct (Nat.eqb g gn)|]; reflexivity].
  - (* S_point *)
    assert (Hmine := Hst _ (nth_error_In _ _ Enth)). wfields. destruct Hmine as [Hm1 Hm2].
    start2.
    + intros s Hs0. apply upd_in in Hs0. destruct Hs0 as [E|Hs0]; [|apply Hst; exact Hs0].
      subst s. wfields. split; [exact Hm1 | exact Hm2].
    + intros Hc Ha. destruct (Hwake Hc Ha) as [H|[s0 [Hs0 Hw]]]; [left; exact H|]. right.
      destruct (upd_keep _ st xi {| sprog := xsr; sacc := sa |} s0 Hs0) as [H|H].
      * exists s0. auto.
      * rewrite Enth in H. inversion H; subst s0. eexists. split; [eapply upd_in_new; exact Enth|]. exact Hw.
  - (* S_ret *)
    assert (Hmine := Hst _ (nth_error_In _ _ Enth)). wfields. destruct Hmine as [Hm1 Hm2].
    start2.
    + intros s Hs0. apply upd_in in Hs0. destruct Hs0 as [E|Hs0]; [|apply Hst; exact Hs0].
      subst s. wfields. split; [exact Hm1 | exact Hm2].
    + intros Hc Ha. destruct (Hwake Hc Ha) as [H|[s0 [Hs0 Hw]]]; [left; exact H|]. right.
      destruct (upd_keep _ st xi {| sprog := xsr; sacc := None |} s0 Hs0) as [H|H].
      * exists s0. auto.
      * rewrite Enth in H. inversion H; subst s0. eexists. split; [eapply upd_in_new; exact Enth|]. exact Hw.
  - (* S_ret *)
    assert (Hmine := Hst _ (nth_error_In _ _ Enth)). wfields. destruct Hmine as [Hm1 Hm2].
    start2.
    + intros s Hs0. apply upd_in in Hs0. destruct Hs0 as [E|Hs0]; [|apply Hst; exact Hs0].
      subst s. wfields. split; [exact Hm1 | exact Hm2].
    + intros Hc Ha. destruct (Hwake Hc Ha) as [H|[s0 [Hs0 Hw]]]; [left; exact H|]. right.
      destruct (upd_keep _ st xi {| sprog := xsr; sacc := None |} s0 Hs0) as [H|H].
      * exists s0. auto.
      * rewrite Enth in H. inversion H; subst s0. eexists. split; [eapply upd_in_new; exact Enth|]. exact Hw.
  - start2.
Qed.

Lemma inv2_reachable : forall c k w, liveness_cfg c -> reachable c k w -> inv2 w.
Proof.
  intros c k w Hl Hr. induction Hr as [|w a Hr IH]; [apply inv2_init | apply inv2_step with (c := c); assumption].
Qed.

(* T2a: a parked driver is never left without a wake-up once the cell is set: either the waker of its
   last poll has been woken, or THAT waker (not one of an earlier poll) is registered and a stream task is
   about to call wake() *)
Lemma no_lost_wakeup : forall c k w, liveness_cfg c -> reachable c k w ->
  cell w <> None -> dprog w = [] -> parked w = true ->
  woken w = true \/ (wslot w = Some (gen w) /\ wake_coming w).
Proof.
  intros c k w Hl Hr Hc Hd Hp. pose proof (inv2_reachable c k w Hl Hr) as Hi.
  assert (Ha : dprog w = [] /\ parked w = true) by auto.
  destruct (j_wake w Hi Hc (or_introl Ha)) as [H|[s [Hs Hw]]]; [left; exact H|].
  destruct (j_slot w Hi (or_introl Ha)) as [H|H]; [|left; exact H].
  right. split; [exact H|]. exists s. split; [exact Hs | apply has_wake_In; exact Hw].
Qed.

(* T2b: ... so when the stream tasks have finished their calls, it HAS been woken *)
Lemma parked_driver_woken : forall c k w, liveness_cfg c -> reachable c k w ->
  cell w <> None -> dprog w = [] -> parked w = true -> quiescent w -> woken w = true.
Proof.
  intros c k w Hl Hr Hc Hd Hp Hq.
  destruct (no_lost_wakeup c k w Hl Hr Hc Hd Hp) as [H|[_ [s [Hs Hw]]]]; [exact H|].
  rewrite (Hq s Hs) in Hw. contradiction.
Qed.

(* T2c: once the cell is set, a driver poll that will still look at the cell (in particular every
   poll started afterwards) cannot return without reporting the error *)
Lemma quiet_step : forall c w a, liveness_cfg c -> inv2 w ->
  cell w <> None -> exposed_prog (dprog w) = false ->
  cell (step c w a) <> None /\ exposed_prog (dprog (step c w a)) = false /\
  quiet_polls (trace (step c w a)) = quiet_polls (trace w).
Proof.
  intros c w a Hl [Hwf _ _ _ _] Hc He.
  pose proof (lc_safety c Hl) as Hs.
  pose proof (sc_hit c Hs) as Hhit. pose proof (sc_handle c Hs) as Hhan.
  pose proof (lc_poll c Hl) as Hpoll.
  destruct_world w.
  step_cases2 c a cl dp hd st; try (repeat split; solve [assumption | reflexivity | apply store_not_none]).
  - (* ABegin *) repeat split; try assumption. unfold poll_prog. rewrite Hpoll. reflexivity.
  - (* AShutdown *) unfold shutdown_prog. rewrite (lc_guard c Hl). repeat split; try assumption; reflexivity.
  - (* check hit *) rewrite Hhit. repeat split; try assumption; reflexivity.
  - (* check none *) contradiction Hc. reflexivity.
  - (* guard hit *) unfold call_prog. rewrite Hhan. repeat split; try assumption; reflexivity.
  - (* guard none *) contradiction Hc. reflexivity.
  - (* set *) rewrite Hhan. repeat split; try reflexivity. apply store_not_none.
  - (* close *) destruct Hwf as [_ [[H _] _]]. repeat split; assumption.
  - destruct Hwf as [_ [[H _] _]]. repeat split; assumption.
  - discriminate He.
  - discriminate He.
Qed.

Lemma quiet_run : forall c k acts w, liveness_cfg c -> reachable c k w ->
  cell w <> None -> exposed_prog (dprog w) = false ->
  quiet_polls (obs (run c acts w)) = quiet_polls (obs w).
Proof.
  intros c k acts. induction acts as [|a acts IH]; intros w Hl Hr Hc He; [reflexivity|].
  cbn [run fold_left]. fold (run c acts (step c w a)).
  destruct (quiet_step c w a Hl (inv2_reachable c k w Hl Hr) Hc He) as [H1 [H2 H3]].
  rewrite (IH (step c w a) Hl (reach_step c k w a Hr) H1 H2).
  unfold obs. rewrite !quiet_rev. exact H3.
Qed.

Lemma no_quiet_poll_after_error : forall c k acts w, liveness_cfg c -> reachable c k w ->
  cell w <> None -> dprog w = [] ->
  quiet_polls (obs (run c acts w)) = quiet_polls (obs w).
Proof.
  intros c k acts w Hl Hr Hc Hd. apply quiet_run with (k := k); try assumption. rewrite Hd. reflexivity.
Qed.

(* all facts fixed: the configuration is this one *)
Definition std_cfg : cfg :=
  {| c_poll := std_poll; c_hit := [HOClose; HOConvert]; c_handle := [HOMemo; HOSet; HOClose; HOConvert];
     c_raise := std_raise; c_first_wins := true; c_memo := true; c_sd_guard := true;
     c_close := std_close; c_convert := std_convert |}.

Lemma liveness_cfg_eq : forall c, liveness_cfg c -> c = std_cfg.
Proof.
  intros c [[H1 H2 H3 H4 _ H6 H7] H8 H9 H10]. destruct c. cbn in *. subst. reflexivity.
Qed.

(* ... and the poll it runs when it is polled again reports the error: after the statements of one
   poll_connection_error the driver is back outside a poll with the error memoised *)
Lemma repoll_reports : forall c k w e calls pend, liveness_cfg c -> reachable c k w ->
  cell w = Some e -> dprog w = [] ->
  exists n, let w' := run c (ABegin calls pend :: repeat AStep n) w in
    dprog w' = [] /\ parked w' = false /\ handled w' = Some (spec_report e) /\
    In (EReport HDriver (spec_report e)) (obs w').
Proof.
  intros c k w e calls pend Hl Hr Hc Hd.
  pose proof (lc_safety c Hl) as Hs.
  pose proof (inv1_reachable c k w Hs Hr) as Hi.
  pose proof (convert_is_spec c e (sc_convert c Hs)) as Hconv.
  pose proof (i_handled c w Hi) as Hh.
  rewrite (liveness_cfg_eq c Hl) in *. clear Hi Hr Hs Hl.
  destruct_world w. subst cl dp.
  destruct hd as [ce|].
  - destruct (Hh ce eq_refl) as [e1 [Hc1 Hce]]. inversion Hc1; subst e1. rewrite Hconv in Hce. subst ce.
    exists 1%nat. cbn. repeat split; try reflexivity. apply in_or_app. right. left. reflexivity.
  - exists 7%nat. cbn. rewrite Hconv. repeat split; try reflexivity. apply in_or_app. right. left. reflexivity.
Qed.

(* shutdown() once the cell is set -- whether the transport would still accept the GOAWAY (r = None), has nothing
   to write, or refuses the write with e' (r = Some e') -- returns the connection's outcome *)
Lemma shutdown_reports : forall c k w e r, liveness_cfg c -> reachable c k w ->
  cell w = Some e -> dprog w = [] ->
  exists n, let w' := run c (AShutdown r :: repeat AStep n) w in
    dprog w' = [] /\ cell w' = Some e /\ handled w' = Some (spec_report e) /\
    last_dev (trace w') = Some (EReport HDriver (spec_report e)).
Proof.
  intros c k w e r Hl Hr Hc Hd.
  pose proof (lc_safety c Hl) as Hs.
  pose proof (inv1_reachable c k w Hs Hr) as Hi.
  pose proof (convert_is_spec c e (sc_convert c Hs)) as Hconv.
  pose proof (i_handled c w Hi) as Hh.
  rewrite (liveness_cfg_eq c Hl) in *. clear Hi Hr Hs Hl.
  destruct_world w. subst cl dp.
  destruct hd as [ce|].
  - destruct (Hh ce eq_refl) as [e1 [Hc1 Hce]]. inversion Hc1; subst e1. rewrite Hconv in Hce. subst ce.
    exists 2%nat. destruct r; cbn; repeat split; reflexivity.
  - exists 5%nat. destruct r; cbn; rewrite Hconv;
    (destruct (first_arm std_close e) as [[|k0]|]; [destruct e| |]); repeat split; reflexivity.
Qed.

(* ------------------------------------------------------------------------------------------ *)
(* Part 3: the order matters.  With the statements of poll_connection_error in the order h3 had
   before commit 72520bb (check, then register) a wake-up is lost.                             *)

Definition old_poll : list pce_op := [POMemo; POCheck; POPoint 2; POPoint 0; PORegister; POPoint 1].
Definition with_poll (c : cfg) (p : list pce_op) : cfg :=
  {| c_poll := p; c_hit := c_hit c; c_handle := c_handle c; c_raise := c_raise c;
     c_first_wins := c_first_wins c; c_memo := c_memo c; c_sd_guard := c_sd_guard c;
     c_close := c_close c; c_convert := c_convert c |}.

(* driver: memo, check (nothing yet), two points | stream: store, point, wake (nobody registered: lost),
   point, return | driver: register, point, Pending *)
Definition lost_wakeup_schedule : list action :=
  [ABegin [] true; AStep; AStep; AStep;
   ARaise 0 (Internal H3_FRAME_UNEXPECTED); ASStep 0; ASStep 0; ASStep 0; ASStep 0; ASStep 0;
   AStep; AStep; AStep; AStep].

Definition only_stream_steps (acts : list action) : Prop :=
  Forall (fun a => exists i, a = ASStep i) acts.

Lemma sstep_quiescent : forall c w i, quiescent w -> sstep c w i = w.
Proof.
  intros c w i Hq. unfold sstep. destruct (nth_error (streams w) i) as [s|] eqn:E; [|reflexivity].
  rewrite (Hq s (nth_error_In _ _ E)). reflexivity.
Qed.

Lemma stream_steps_quiescent : forall c acts w, quiescent w -> only_stream_steps acts -> run c acts w = w.
Proof.
  intros c acts. induction acts as [|a acts IH]; intros w Hq Ha; [reflexivity|].
  inversion Ha as [|x l [i Hi] Hl]; subst. cbn [run fold_left step]. rewrite sstep_quiescent by exact Hq.
  apply IH; assumption.
Qed.

Lemma lost_wakeup_old_order : forall c, liveness_cfg c ->
  exists acts, let w := run (with_poll c old_poll) acts (init 1) in
    cell w <> None /\ dprog w = [] /\ parked w = true /\ woken w = false /\ quiescent w /\
    forall more, only_stream_steps more -> woken (run (with_poll c old_poll) more w) = false.
Proof.
  intros c Hl. rewrite (liveness_cfg_eq c Hl). exists lost_wakeup_schedule.
  assert (Hq : quiescent (run (with_poll std_cfg old_poll) lost_wakeup_schedule (init 1))).
  { intros s Hin. vm_compute in Hin. destruct Hin as [E|[]]. subst s. reflexivity. }
  cbv zeta. repeat split; try (vm_compute; congruence); try exact Hq.
  intros more Hm. rewrite stream_steps_quiescent by assumption. reflexivity.
Qed.

(* ... and so does the guard at the top of shutdown (commit 6ec7732): without it shutdown() answers Ok(()) on a
   connection whose error the driver has already reported *)
Definition without_guard (c : cfg) : cfg :=
  {| c_poll := c_poll c; c_hit := c_hit c; c_handle := c_handle c; c_raise := c_raise c;
     c_first_wins := c_first_wins c; c_memo := c_memo c; c_sd_guard := false;
     c_close := c_close c; c_convert := c_convert c |}.
Definition quiet_shutdown_schedule : list action :=
  [ARaise 0 (Internal H3_FRAME_UNEXPECTED); ASStep 0; ASStep 0; ASStep 0; ASStep 0; ASStep 0;
   ABegin [] true; AStep; AStep; AStep; AStep; AStep; AStep; AStep].
Lemma quiet_shutdown_without_guard : forall c, liveness_cfg c ->
  let w := run (without_guard c) quiet_shutdown_schedule (init 1) in
  last_dev (trace w) = Some (EReport HDriver (CLocal H3_FRAME_UNEXPECTED)) /\ dprog w = [] /\
  last_dev (trace (run (without_guard c) [AShutdown None; AStep] w)) = Some EReadyOk.
Proof. intros c Hl. rewrite (liveness_cfg_eq c Hl). vm_compute. repeat split; reflexivity. Qed.

(* ------------------------------------------------------------------------------------------ *)
(* Part 4: the harness protocol only composes steps                                            *)

Lemma dstep_is_step : forall c w, dstep c w = step c w AStep.
Proof. reflexivity. Qed.
Lemma sstep_is_step : forall c w i, sstep c w i = step c w (ASStep i).
Proof. reflexivity. Qed.

Lemma d_turn_reach : forall f c k w, reachable c k w -> reachable c k (d_turn f c w).
Proof.
  induction f as [|f IH]; intros c k w Hr; cbn [d_turn]; [exact Hr|].
  destruct (dprog w) as [|[] r]; try exact Hr; rewrite dstep_is_step;
    try (apply IH); constructor; exact Hr.
Qed.

Lemma s_turn_reach : forall f c k w i, reachable c k w -> reachable c k (s_turn f c w i).
Proof.
  induction f as [|f IH]; intros c k w i Hr; cbn [s_turn]; [exact Hr|].
  destruct (nth_error (streams w) i) as [s|]; [|exact Hr].
  destruct (sprog s) as [|[e| |n|] r]; try exact Hr; try (apply IH; rewrite sstep_is_step; constructor; exact Hr).
  destruct (blocking_spoint n); [|apply IH]; rewrite sstep_is_step; constructor; exact Hr.
Qed.

Lemma d_finish_reach : forall n c k w, reachable c k w -> reachable c k (d_finish n c w).
Proof.
  induction n as [|n IH]; intros c k w Hr; cbn [d_finish]; [exact Hr|].
  destruct (d_idle w); [exact Hr|]. apply IH. apply d_turn_reach. exact Hr.
Qed.
Lemma s_finish_reach : forall n c k w i, reachable c k w -> reachable c k (s_finish n c w i).
Proof.
  induction n as [|n IH]; intros c k w i Hr; cbn [s_finish]; [exact Hr|].
  destruct (s_idle w i); [exact Hr|]. apply IH. apply s_turn_reach. exact Hr.
Qed.

Lemma d_begin_if_reach : forall c k np p1 r, reachable c k (rw r) -> reachable c k (rw (d_begin_if c np p1 r)).
Proof.
  intros c k np p1 r Hr. unfold d_begin_if. destruct (d_idle (rw r)); [|exact Hr].
  destruct (d_more np r); [|exact Hr]. cbn [rw]. constructor. exact Hr.
Qed.
Lemma d_turn_r_reach : forall c k r, reachable c k (rw r) -> reachable c k (rw (d_turn_r c r)).
Proof. intros c k r Hr. unfold d_turn_r. cbn [rw]. apply d_turn_reach. exact Hr. Qed.

Lemma turn_reach : forall c k np p1 errs r t, reachable c k (rw r) -> reachable c k (rw (turn c np p1 errs r t)).
Proof.
  intros c k np p1 errs r t Hr. unfold turn. destruct t as [|i].
  - pose proof (d_turn_r_reach c k _ (d_begin_if_reach c k np p1 r Hr)) as H1.
    destruct (d_idle (rw (d_turn_r c (d_begin_if c np p1 r)))); [|exact H1].
    apply d_turn_r_reach. apply d_begin_if_reach. exact H1.
  - destruct (nth_error (sstarted r) i) as [[|]|]; try exact Hr.
    + cbn [rw]. apply s_turn_reach. exact Hr.
    + destruct (nth_error errs i); [|exact Hr]. cbn [rw]. apply s_turn_reach. constructor. exact Hr.
Qed.

Lemma turns_reach : forall n c k np p1 errs r t, reachable c k (rw r) -> reachable c k (rw (turns n c np p1 errs r t)).
Proof.
  induction n as [|n IH]; intros c k np p1 errs r t Hr; cbn [turns]; [exact Hr|].
  apply IH. apply turn_reach. exact Hr.
Qed.

Lemma complete_reach : forall c k np p1 errs r t, reachable c k (rw r) -> reachable c k (rw (complete c np p1 errs r t)).
Proof. intros. unfold complete. apply turns_reach. assumption. Qed.

Lemma fold_reach : forall c k (f : rstate -> nat -> rstate) l r,
  (forall r t, reachable c k (rw r) -> reachable c k (rw (f r t))) ->
  reachable c k (rw r) -> reachable c k (rw (fold_left f l r)).
Proof.
  intros c k f l. induction l as [|t l IH]; intros r Hf Hr; cbn; [exact Hr|]. apply IH; [exact Hf|]. apply Hf. exact Hr.
Qed.

Lemma d_poll_reach : forall c k p w, reachable c k w -> reachable c k (d_poll c p w).
Proof. intros c k p w Hr. unfold d_poll. apply d_finish_reach. constructor. exact Hr. Qed.
Lemma d_shutdown_reach : forall c k r w, reachable c k w -> reachable c k (d_shutdown c r w).
Proof. intros c k r w Hr. unfold d_shutdown. apply d_finish_reach. constructor. exact Hr. Qed.

Lemma raise_all_reach : forall c k es w i, reachable c k w -> reachable c k (fst (raise_all c w i es)).
Proof.
  intros c k es. induction es as [|[e|] es IH]; intros w i Hr; cbn [raise_all]; [exact Hr| |].
  - specialize (IH (s_raise c w i e) (S i)).
    destruct (raise_all c (s_raise c w i e) (S i) es) as [w2 l]. cbn [fst] in *.
    apply IH. unfold s_raise. apply s_finish_reach. constructor. exact Hr.
  - specialize (IH w (S i) Hr). destruct (raise_all c w (S i) es) as [w2 l]. exact IH.
Qed.

Lemma run_case_reachable : forall c k setup np p1 errs sched p2 errs2 errs3 e4,
  reachable c k (r_final (run_case c k setup np p1 errs sched p2 errs2 errs3 e4)).
Proof.
  intros c k setup np p1 errs sched p2 errs2 errs3 e4. unfold run_case.
  set (w0 := match setup with Some p => d_poll c p (init k) | None => init k end).
  assert (H0 : reachable c k w0).
  { unfold w0. destruct setup; [apply d_poll_reach|]; constructor. }
  set (r0 := {| rw := w0; dpolls := O; sstarted := repeat false k |}).
  set (r1 := fold_left (turn c np p1 errs) sched r0).
  assert (H1 : reachable c k (rw r1)) by (apply fold_reach; [intros; apply turn_reach; assumption | exact H0]).
  set (r2 := fold_left (complete c np p1 errs) (map S (seq0 k)) r1).
  assert (H2 : reachable c k (rw r2)) by (apply fold_reach; [intros; apply complete_reach; assumption | exact H1]).
  set (r3 := complete c np p1 errs r2 O).
  assert (H3 : reachable c k (rw r3)) by (apply complete_reach; exact H2).
  pose proof (d_shutdown_reach c k None _ (d_poll_reach c k p2 _ H3)) as H4.
  pose proof (raise_all_reach c k errs2 _ O H4) as H5.
  destruct (raise_all c (d_shutdown c None (d_poll c p2 (rw r3))) 0 errs2) as [w3a s2]. cbn [fst] in H5.
  pose proof (raise_all_reach c k errs3 _ O H5) as H6.
  destruct (raise_all c w3a 0 errs3) as [w3 s3]. cbn [fst] in H6.
  cbn [r_final]. apply d_poll_reach. apply d_shutdown_reach. exact H6.
Qed.

(* ------------------------------------------------------------------------------------------ *)
(* Part 5: instantiation with the facts generated from the source today                        *)

Lemma gen_facts_ok : liveness_cfg gen_cfg.
Proof.
  constructor; [constructor|..]; try reflexivity. eexists. reflexivity.
Qed.
(* the stream side, as read from the source: every arm of the frame-error dispatcher goes through one of the two
   CloseStream helpers, both of which are `set_conn_error_and_wake; report convert(returned value)` (= raise_prog) *)
Lemma gen_stream_facts_ok :
  frame_error_arms = [(FsQuic, ViaQuicHelper); (FsProto, ViaInternalHelper); (FsUnexpectedEnd, ViaInternalHelperCode H3_FRAME_ERROR)].
Proof. reflexivity. Qed.
Lemma gen_safety_ok : safety_cfg gen_cfg.
Proof. exact (lc_safety _ gen_facts_ok). Qed.

(* single outcome does not depend on the register/check order: it also holds for the old order *)
Lemma old_order_safety : safety_cfg (with_poll gen_cfg old_poll).
Proof. constructor; try reflexivity. eexists. reflexivity. Qed.
