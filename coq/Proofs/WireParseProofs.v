(* C14, part 3: the reference parser of Spec/RFC9114Wire.v reads back what an RFC 9114 sender writes. *)
From H3V Require Import Base.Bytes Base.BytesLemmas Spec.RFC9000 Spec.RFC9114Wire Proofs.VarintProofs
  Proofs.DatagramProofs.
From Coq Require Import ZifyBool ZifyNat ZifyN.
Ltac Zify.zify_post_hook ::= Z.div_mod_to_equations.

Lemma read_varint_enc x r : x < 2 ^ 62 -> rfc_read_varint (rfc_varint x ++ r) = Some (x, r).
Proof.
  intros Hx. unfold rfc_varint.
  destruct (shortest_cases x Hx) as [Hl Hb]. set (l := rfc_vi_shortest x) in *.
  destruct (rfc_enc_head l x Hl Hb) as (b0 & t & He & Hlen & Hval).
  assert (Hlt : length (b0 :: t) = N.to_nat l) by (rewrite <- He; apply rfc_vi_enc_length).
  unfold rfc_read_varint. rewrite He. cbn [app]. rewrite Hlen.
  destruct (N.ltb_spec (len (b0 :: t ++ r)) l) as [Hc|_].
  { unfold len in Hc. cbn [length] in *. rewrite app_length in Hc. lia. }
  change (b0 :: t ++ r) with ((b0 :: t) ++ r). rewrite <- Hlt.
  rewrite firstn_app_exact, skipn_app_exact. rewrite <- He, Hval. reflexivity.
Qed.

Lemma len_rfc_varint_pos x : 1 <= len (rfc_varint x).
Proof.
  unfold rfc_varint, len. rewrite rfc_vi_enc_length. unfold rfc_vi_shortest.
  destruct (x <? 2 ^ 6); [lia|]. destruct (x <? 2 ^ 14); [lia|]. destruct (x <? 2 ^ 30); lia.
Qed.

Lemma read_frame_enc ty p r :
  ty < 2 ^ 62 -> len p < 2 ^ 62 -> rfc_read_frame (rfc_frame ty p ++ r) = Some ((ty, p), r).
Proof.
  intros Ht Hp. unfold rfc_read_frame, rfc_frame. rewrite <- !app_assoc.
  rewrite read_varint_enc by exact Ht. rewrite read_varint_enc by exact Hp.
  destruct (N.ltb_spec (len (p ++ r)) (len p)) as [Hc|_]; [rewrite len_app in Hc; lia|].
  replace (N.to_nat (len p)) with (length p) by (unfold len; lia).
  rewrite firstn_app_exact, skipn_app_exact. reflexivity.
Qed.

Definition frame_good (f : N * bytes) : Prop := fst f < 2 ^ 62 /\ len (snd f) < 2 ^ 62.
Definition frames_bytes (fs : list (N * bytes)) : bytes := concat (map (fun f => rfc_frame (fst f) (snd f)) fs).

Lemma len_rfc_frame_ge2 ty p : 2 <= len (rfc_frame ty p).
Proof.
  unfold rfc_frame. rewrite !len_app. pose proof (len_rfc_varint_pos ty). pose proof (len_rfc_varint_pos (len p)). lia.
Qed.

Lemma frames_fuel_ok fs : Forall frame_good fs ->
  forall fuel, (length (frames_bytes fs) <= fuel)%nat -> rfc_frames_fuel fuel (frames_bytes fs) = Some fs.
Proof.
  induction fs as [|[ty p] fs IH]; intros Hg fuel Hf.
  - cbn. destruct fuel; reflexivity.
  - inversion Hg as [|? ? [Ht Hp] Hr]; subst. cbn [fst snd] in *.
    unfold frames_bytes in *. cbn [map concat fst snd] in *.
    pose proof (len_rfc_frame_ge2 ty p) as H2.
    assert (Hne : rfc_frame ty p ++ concat (map (fun f => rfc_frame (fst f) (snd f)) fs) <> []).
    { intros E. apply (f_equal len) in E. rewrite len_app in E. unfold len in E at 3. cbn in E. lia. }
    rewrite app_length in Hf. unfold len in H2.
    destruct fuel as [|k]; [lia|].
    cbn [rfc_frames_fuel].
    destruct (rfc_frame ty p ++ concat (map (fun f => rfc_frame (fst f) (snd f)) fs)) eqn:E; [congruence|].
    rewrite <- E. rewrite read_frame_enc by assumption.
    rewrite IH; [reflexivity|exact Hr|lia].
Qed.

Lemma frames_ok fs : Forall frame_good fs -> rfc_frames (frames_bytes fs) = Some fs.
Proof. intros H. unfold rfc_frames. apply frames_fuel_ok; auto. Qed.

(* settings payloads *)
Definition pair_good (e : N * N) : Prop := fst e < 2 ^ 62 /\ snd e < 2 ^ 62.
Definition pairs_bytes (es : list (N * N)) : bytes := concat (map (fun e => rfc_varint (fst e) ++ rfc_varint (snd e)) es).

Lemma settings_fuel_ok es : Forall pair_good es ->
  forall fuel, (length (pairs_bytes es) <= fuel)%nat -> rfc_settings_fuel fuel (pairs_bytes es) = Some es.
Proof.
  induction es as [|[i v] es IH]; intros Hg fuel Hf.
  - cbn. destruct fuel; reflexivity.
  - inversion Hg as [|? ? [Hi Hv] Hr]; subst. cbn [fst snd] in *.
    unfold pairs_bytes in *. cbn [map concat fst snd] in *.
    pose proof (len_rfc_varint_pos i) as H1. pose proof (len_rfc_varint_pos v) as H2.
    set (rest := concat (map (fun e => rfc_varint (fst e) ++ rfc_varint (snd e)) es)) in *.
    assert (Hne : (rfc_varint i ++ rfc_varint v) ++ rest <> []).
    { intros E. apply (f_equal len) in E. rewrite !len_app in E. unfold len in E at 4. cbn in E. lia. }
    rewrite !app_length in Hf. unfold len in H1, H2.
    destruct fuel as [|k]; [lia|].
    cbn [rfc_settings_fuel].
    destruct ((rfc_varint i ++ rfc_varint v) ++ rest) eqn:E; [congruence|].
    rewrite <- E. rewrite <- app_assoc. rewrite read_varint_enc by exact Hi. rewrite read_varint_enc by exact Hv.
    rewrite IH; [reflexivity|exact Hr|lia].
Qed.

Lemma settings_pairs_ok es : Forall pair_good es -> rfc_settings_pairs (pairs_bytes es) = Some es.
Proof. intros H. unfold rfc_settings_pairs. apply settings_fuel_ok; auto. Qed.

Lemma single_varint_ok x : x < 2 ^ 62 -> rfc_single_varint (rfc_varint x) = true.
Proof.
  intros H. unfold rfc_single_varint. rewrite <- (app_nil_r (rfc_varint x)).
  rewrite read_varint_enc by exact H. reflexivity.
Qed.

Lemma nodup_ids_spec l : NoDup l -> nodup_ids l = true.
Proof.
  induction 1 as [|x l Hx Hl IH]; [reflexivity|]. cbn [nodup_ids]. rewrite IH, andb_true_r.
  apply negb_true_iff. destruct (existsb (N.eqb x) l) eqn:E; [|reflexivity].
  apply existsb_exists in E as (y & Hy & Heq). apply N.eqb_eq in Heq. subst. contradiction.
Qed.
