(* The table invariant along every history of the connected pair (T1, T2 at system level). *)
From H3V Require Import Base.Bytes Gen.GenQpack Gen.GenStatic Model.Vas Model.DynTable Model.QInstr Model.QEncoder
  Model.QDecoder Model.QSystem Proofs.VasProofs Proofs.AMapLemmas Proofs.DynTableProofs Proofs.QEncoderProofs.
From Coq Require Import ZifyBool ZifyN ZifyNat.
Ltac Zify.zify_post_hook ::= Z.div_mod_to_equations.

Lemma dt_put_track t f t' : dt_ok t -> dt_put t f = Ok t' -> dt_track t' = dt_track t.
Proof.
  intros Hok. unfold dt_put.
  destruct (dt_insert_spec t f Hok) as [(t1 & n & Ei & _ & _ & _ & _ & _ & _ & G3 & _) | [Ei | [Ei _]]]; rewrite Ei; [| |discriminate].
  - destruct (static_find_name (fst f)); intros H; inversion H; subst; cbn [with_maps dt_track pushed with_store]; assumption.
  - intros H; inversion H; subst; reflexivity.
Qed.

(* the decoder's table under ANY encoder-stream input (including capacity updates and bad indices) *)
Theorem dec_apply_ok is : forall t, dt_ok t -> dt_track t = [] ->
  dt_ok (fst (dec_apply t is)) /\ dt_track (fst (dec_apply t is)) = [].
Proof.
  induction is as [|i r IH]; intros t Hok Ht; cbn [dec_apply]; [auto|].
  destruct (dec_resolve t i) as [[f|n]| |]; cbn [fst]; auto.
  - destruct (dt_put t f) as [t1| |] eqn:E; cbn [fst]; auto.
    apply IH; [eapply dt_put_ok; eauto | rewrite (dt_put_track _ _ _ Hok E); assumption].
  - destruct (dt_set_max_size t n) as [t1| |] eqn:E; cbn [fst]; auto.
    destruct (dt_set_max_size_ok_untracked _ _ _ Hok Ht E) as (H1 & H2 & _). apply IH; assumption.
Qed.

Lemma dec_on_encoder_recv_ok t is : dt_ok t -> dt_track t = [] ->
  dt_ok (fst (dec_on_encoder_recv t is)) /\ dt_track (fst (dec_on_encoder_recv t is)) = [].
Proof.
  intros Hok Ht. unfold dec_on_encoder_recv. pose proof (dec_apply_ok is t Hok Ht) as H.
  destruct (dec_apply t is) as [t1 [u| |]]; cbn [fst] in *; auto.
  destruct (dt_total_inserted t1 =? dt_total_inserted t); cbn [fst]; auto.
  destruct (dt_total_inserted t1 <? dt_total_inserted t); cbn [fst]; auto.
  destruct (255 <? dt_total_inserted t1 - dt_total_inserted t); cbn [fst]; auto.
Qed.

Definition sys_ok (s : sys) : Prop := dt_ok (s_enc s) /\ dt_ok (s_dec s) /\ dt_track (s_dec s) = [].

Definition is_resize (o : op) : bool := match o with OResize _ => true | _ => false end.

Lemma sys_init_ok cap blocked s : sys_init cap blocked = Some s -> sys_ok s /\ dt_max (s_enc s) = cap /\ dt_max (s_dec s) = cap.
Proof.
  unfold sys_init. destruct (dt_set_max_size dt_new cap) as [t| |] eqn:E; try discriminate.
  destruct (dt_set_max_size_ok_untracked _ _ _ dt_new_ok eq_refl E) as (H1 & H2 & H3).
  unfold dt_set_max_blocked. destruct (cmp_eval q_set_max_blocked_cmp blocked q_blocked_streams_max); [discriminate|].
  intros H; inversion H; subst. unfold sys_ok; cbn [s_enc s_dec with_bmax dt_track dt_max].
  pose proof (with_bmax_ok t blocked H1) as Hb.
  split; [split; [exact Hb | split; [exact Hb | exact H2]] | split; reflexivity].
Qed.

Ltac ok3 := unfold sys_ok; cbn [s_enc s_dec]; split; [assumption | split; assumption].

Lemma sys_step_ok s o : sys_ok s -> is_resize o = false -> sys_ok (fst (sys_step s o)).
Proof.
  intros (He & Hd & Ht) Hr. destruct o as [sid fs|k|j honest|k|sid|n]; cbn [sys_step]; [| | | | |discriminate].
  - pose proof (enc_encode_ok (s_enc s) sid fs He) as H.
    destruct (enc_encode (s_enc s) sid fs) as [t [e| |]]; cbn [fst] in *; ok3.
  - destruct (dec_on_encoder_recv_ok (s_dec s) (firstn (N.to_nat k) (s_eq s)) Hd Ht) as [H1 H2].
    destruct (dec_on_encoder_recv (s_dec s) (firstn (N.to_nat k) (s_eq s))) as [t [[ins inc]| |]]; cbn [fst] in *;
      ok3.
  - destruct (nth_opt (s_secs s) j) as [sec|]; cbn [fst]; [|ok3].
    destruct (honest && sec_done sec); cbn [fst]; [ok3|].
    destruct (honest && earlier_pending (s_secs s) j (sec_sid sec)); cbn [fst]; [ok3|].
    destruct (dec_decode_header (s_dec s) (sec_block sec)) as [[fs dr]| |]; cbn [fst]; try ok3.
    destruct honest; cbn [fst]; ok3.
  - pose proof (enc_on_decoder_recv_ok (firstn (N.to_nat k) (s_dq s)) (s_enc s) He) as H.
    destruct (enc_on_decoder_recv (s_enc s) (firstn (N.to_nat k) (s_dq s))) as [t [u| |]]; cbn [fst] in *; ok3.
  - cbn [fst]. ok3.
Qed.

Lemma sys_run_fst s o os : fst (sys_run s (o :: os)) = fst (sys_run (fst (sys_step s o)) os).
Proof. cbn [sys_run]. destruct (sys_step s o) as [s1 x]. cbn [fst]. destruct (sys_run s1 os) as [s2 xs]. reflexivity. Qed.

Theorem sys_run_ok os : forall s, sys_ok s -> existsb is_resize os = false ->
  sys_ok (fst (sys_run s os)).
Proof.
  induction os as [|o r IH]; intros s Hok Hnr; [assumption|].
  cbn [existsb] in Hnr. apply orb_false_iff in Hnr. destruct Hnr as [H1 H2].
  rewrite sys_run_fst. apply IH; [apply sys_step_ok; assumption | assumption].
Qed.

(* T1 for the pair *)
Theorem sys_capacity :
  forall cap blocked s os s', sys_init cap blocked = Some s -> existsb is_resize os = false -> fst (sys_run s os) = s' ->
    dt_curr (s_enc s') = sum_sizes (dt_fields (s_enc s')) /\ dt_curr (s_enc s') <= dt_max (s_enc s') /\
    dt_curr (s_dec s') = sum_sizes (dt_fields (s_dec s')) /\ dt_curr (s_dec s') <= dt_max (s_dec s').
Proof.
  intros cap blocked s os s' Hi Hnr <-. destruct (sys_init_ok _ _ _ Hi) as (Hok & _).
  destruct (sys_run_ok os s Hok Hnr) as (He & Hd & _).
  repeat split; [apply (ok_curr _ He) | apply (ok_cap _ He) | apply (ok_curr _ Hd) | apply (ok_cap _ Hd)].
Qed.

(* T2 for the pair: whatever carries a reference count is still in the encoder's table *)
Theorem sys_referenced_live :
  forall cap blocked s os s', sys_init cap blocked = Some s -> existsb is_resize os = false -> fst (sys_run s os) = s' ->
    forall r, dt_is_tracked (s_enc s') r = true ->
      vas_live (dt_vas (s_enc s')) r /\ exists f, field_at (s_enc s') r = Some f.
Proof.
  intros cap blocked s os s' Hi Hnr <- r Ht. destruct (sys_init_ok _ _ _ Hi) as (Hok & _).
  destruct (sys_run_ok os s Hok Hnr) as (He & _).
  unfold dt_is_tracked in Ht. destruct (aget N.eqb r (dt_track (s_enc (fst (sys_run s os))))) as [c|] eqn:E; [|discriminate].
  destruct (ok_track _ He r c E) as [_ Hl]. split; [assumption|].
  unfold field_at. apply nth_opt_lt_some. rewrite <- (ok_delta _ He). pose proof (ok_vas _ He) as Hv.
  unfold vas_live, vas_pos, vas_inv in *. lia.
Qed.

(* the resize defect: shrinking the encoder's table while entries are referenced leaves curr_size above max_size *)
Definition resize_witness : list op :=
  [OEncode 0 [([97], [49]); ([98], [49]); ([99], [49])]; OResize 64; OEncode 4 [([100], [49])]].

Theorem sys_capacity_resize_refuted :
  exists s os, sys_init 128 10 = Some s /\ os = firstn 2 resize_witness /\
    dt_max (s_enc (fst (sys_run s os))) < dt_curr (s_enc (fst (sys_run s os))) /\
    exists p, nth 2 (snd (sys_run s resize_witness)) RQueued = RPanic p.
Proof.
  destruct (sys_init 128 10) as [s|] eqn:E; [|vm_compute in E; discriminate].
  exists s, (firstn 2 resize_witness). split; [reflexivity|]. split; [reflexivity|].
  vm_compute in E. inversion E; subst. split; [vm_compute; reflexivity|]. eexists. vm_compute. reflexivity.
Qed.
