(* Association-list lemmas for Model/DynTable.v's aget / aset / adel, and the equality tests on byte strings / fields. *)
From H3V Require Import Base.Bytes Model.Vas Model.DynTable.
From Coq Require Import ZifyBool ZifyN.

Lemma bytes_eqb_eq a b : bytes_eqb a b = true <-> a = b.
Proof.
  revert b. induction a as [|x a IH]; intros [|y b]; cbn [bytes_eqb]; split; intros H; try discriminate; try reflexivity.
  - apply andb_true_iff in H. destruct H as [H1 H2]. apply N.eqb_eq in H1. apply IH in H2. subst. reflexivity.
  - inversion H; subst. apply andb_true_iff. split; [apply N.eqb_refl | apply IH; reflexivity].
Qed.

Lemma field_eqb_eq (f g : field) : field_eqb f g = true <-> f = g.
Proof.
  unfold field_eqb. destruct f as [a b], g as [c d]. cbn [fst snd]. rewrite andb_true_iff, !bytes_eqb_eq.
  split; [intros [-> ->]; reflexivity | intros H; inversion H; auto].
Qed.

Lemma Neqb_eq' (a b : N) : N.eqb a b = true <-> a = b.
Proof. apply N.eqb_eq. Qed.

Section AMapLemmas.
  Context {K V : Type} (eqb : K -> K -> bool).
  Hypothesis eqb_eq : forall a b, eqb a b = true <-> a = b.

  Lemma eqb_refl' k : eqb k k = true.
  Proof. apply eqb_eq. reflexivity. Qed.

  Lemma eqb_neq k k' : k <> k' -> eqb k k' = false.
  Proof. intros H. destruct (eqb k k') eqn:E; [apply eqb_eq in E; contradiction | reflexivity]. Qed.

  Definition keys (l : list (K * V)) : list K := map fst l.
  Definition nodup_keys (l : list (K * V)) : Prop := NoDup (keys l).

  Lemma aget_In k v (l : list (K * V)) : aget eqb k l = Some v -> In (k, v) l.
  Proof.
    induction l as [|[k' v'] r IH]; cbn [aget]; [discriminate|].
    destruct (eqb k k') eqn:E; intros H.
    - apply eqb_eq in E. inversion H; subst. left. reflexivity.
    - right. auto.
  Qed.

  Lemma aget_None_notin k (l : list (K * V)) : aget eqb k l = None -> ~ In k (keys l).
  Proof.
    induction l as [|[k' v'] r IH]; cbn [aget keys map fst]; [intros _ []|].
    destruct (eqb k k') eqn:E; [discriminate|]. intros H [H1 | H1].
    - subst. rewrite eqb_refl' in E. discriminate.
    - apply IH; assumption.
  Qed.

  Lemma In_aget k v (l : list (K * V)) : nodup_keys l -> In (k, v) l -> aget eqb k l = Some v.
  Proof.
    unfold nodup_keys. induction l as [|[k' v'] r IH]; cbn [aget keys map fst]; [intros _ []|].
    intros Hn [H | H].
    - inversion H; subst. rewrite eqb_refl'. reflexivity.
    - inversion Hn as [|? ? Hnot Hn']; subst.
      destruct (eqb k k') eqn:E.
      + apply eqb_eq in E. subst. exfalso. apply Hnot. change (In (fst (k', v)) (map fst r)). apply in_map. assumption.
      + apply IH; assumption.
  Qed.

  Lemma aget_aset_same k v (l : list (K * V)) : aget eqb k (aset eqb k v l) = Some v.
  Proof.
    induction l as [|[k' v'] r IH]; cbn [aset aget].
    - rewrite eqb_refl'. reflexivity.
    - destruct (eqb k k') eqn:E; cbn [aget]; [rewrite eqb_refl'; reflexivity | rewrite E; assumption].
  Qed.

  Lemma aget_aset_other k k' v (l : list (K * V)) : k' <> k -> aget eqb k' (aset eqb k v l) = aget eqb k' l.
  Proof.
    intros Hne. induction l as [|[k2 v2] r IH]; cbn [aset aget].
    - rewrite eqb_neq; auto.
    - destruct (eqb k k2) eqn:E; cbn [aget].
      + apply eqb_eq in E. subst. rewrite !eqb_neq; auto.
      + destruct (eqb k' k2); auto.
  Qed.

  Lemma keys_aset k v (l : list (K * V)) :
    keys (aset eqb k v l) = if existsb (fun x => eqb k x) (keys l) then keys l else keys l ++ [k].
  Proof.
    induction l as [|[k2 v2] r IH]; cbn [aset keys map fst existsb app]; [reflexivity|].
    destruct (eqb k k2) eqn:E; cbn [map fst orb].
    - apply eqb_eq in E. subst. reflexivity.
    - fold (keys (aset eqb k v r)). rewrite IH. fold (keys r). destruct (existsb (fun x => eqb k x) (keys r)); reflexivity.
  Qed.

  Lemma nodup_aset k v (l : list (K * V)) : nodup_keys l -> nodup_keys (aset eqb k v l).
  Proof.
    unfold nodup_keys. rewrite keys_aset. destruct (existsb (fun x => eqb k x) (keys l)) eqn:E; [auto|].
    intros Hn.
    assert (Hnot : ~ In k (keys l)).
    { intros Hin. assert (existsb (fun x => eqb k x) (keys l) = true); [|congruence].
      apply existsb_exists. exists k. split; [assumption | apply eqb_refl']. }
    clear E. induction (keys l) as [|x r IH]; cbn [app].
    - constructor; [intros [] | constructor].
    - inversion Hn; subst. constructor.
      + intros Hin. apply in_app_or in Hin. destruct Hin as [Hin | [Hin | []]]; [contradiction|].
        subst. apply Hnot. left. reflexivity.
      + apply IH; [assumption|]. intros Hin. apply Hnot. right. assumption.
  Qed.

  Lemma In_aset x k v (l : list (K * V)) : In x (aset eqb k v l) -> x = (k, v) \/ In x l.
  Proof.
    induction l as [|[k2 v2] r IH]; cbn [aset In].
    - intros [H | []]; auto.
    - destruct (eqb k k2); cbn [In]; intros [H | H]; auto. destruct (IH H); auto.
  Qed.

  Lemma In_adel x k (l : list (K * V)) : In x (adel eqb k l) -> In x l.
  Proof.
    induction l as [|[k2 v2] r IH]; cbn [adel In]; [auto|].
    destruct (eqb k k2); cbn [In]; intros H; auto. destruct H; auto.
  Qed.

  Lemma keys_adel_incl k (l : list (K * V)) x : In x (keys (adel eqb k l)) -> In x (keys l).
  Proof.
    induction l as [|[k2 v2] r IH]; cbn [adel keys map fst In]; [auto|].
    destruct (eqb k k2); cbn [map fst In]; intros H; auto. destruct H; auto.
  Qed.

  Lemma nodup_adel k (l : list (K * V)) : nodup_keys l -> nodup_keys (adel eqb k l).
  Proof.
    unfold nodup_keys. induction l as [|[k2 v2] r IH]; cbn [adel keys map fst]; [auto|].
    intros Hn. inversion Hn; subst. destruct (eqb k k2); [assumption|].
    cbn [map fst]. constructor; [|apply IH; assumption].
    intros Hin. apply keys_adel_incl in Hin. contradiction.
  Qed.

  Lemma aget_adel_other k k' (l : list (K * V)) : k' <> k -> aget eqb k' (adel eqb k l) = aget eqb k' l.
  Proof.
    intros Hne. induction l as [|[k2 v2] r IH]; cbn [adel aget]; [reflexivity|].
    destruct (eqb k k2) eqn:E; cbn [aget].
    - apply eqb_eq in E. subst. rewrite eqb_neq; auto.
    - destruct (eqb k' k2); auto.
  Qed.

  Lemma aget_adel_same k (l : list (K * V)) : nodup_keys l -> aget eqb k (adel eqb k l) = None.
  Proof.
    unfold nodup_keys. induction l as [|[k2 v2] r IH]; cbn [adel aget keys map fst]; [reflexivity|].
    intros Hn. inversion Hn as [|? ? Hnot Hn']; subst. destruct (eqb k k2) eqn:E.
    - apply eqb_eq in E. subst. destruct (aget eqb k2 r) eqn:G; [|reflexivity].
      exfalso. apply Hnot. apply aget_In in G. change (In (fst (k2, v)) (map fst r)). apply in_map. assumption.
    - cbn [aget]. rewrite E. apply IH. assumption.
  Qed.
End AMapLemmas.

(* filter keeps key uniqueness *)
Lemma nodup_keys_filter {K V} (p : K * V -> bool) (l : list (K * V)) :
  NoDup (map fst l) -> NoDup (map fst (filter p l)).
Proof.
  induction l as [|x r IH]; cbn [filter map]; [auto|]. intros Hn. inversion Hn; subst.
  destruct (p x); cbn [map]; [|auto]. constructor; [|auto].
  intros Hin. apply H1. apply in_map_iff in Hin. destruct Hin as [y [Hy Hin]]. apply filter_In in Hin.
  apply in_map_iff. exists y. tauto.
Qed.
