(* C06 PART 1: every panic-capable site of the receive-path files (regenerated from the Rust source on every
   run into Gen/GenPanicSites.v) has a reviewed classification row in Spec/PanicReview.v. *)
From Coq Require Import String.
From H3V Require Import Base.Bytes Gen.GenPanicSites Spec.PanicReview.

Lemma panic_sites_all_reviewed : forallb reviewed sites = true.
Proof. vm_compute. reflexivity. Qed.

Lemma panic_sites_universal : forall s, In s sites -> reviewed s = true.
Proof. apply forallb_forall. exact panic_sites_all_reviewed. Qed.

(* the inventory is not empty and the table is not vacuous *)
Lemma panic_sites_counted : N.of_nat (length sites) = n_sites /\ 300 <= n_sites.
Proof. vm_compute. split; [reflexivity | discriminate]. Qed.

(* every site has exactly one row: no duplicate keys in the reviewed table *)
Fixpoint nodup_rows (l : list review) : bool :=
  match l with
  | [] => true
  | r :: t => negb (existsb (fun r' => String.eqb (r_file r) (r_file r') && String.eqb (r_fn r) (r_fn r')
                                       && pkind_eqb (r_kind r) (r_kind r') && N.eqb (r_ord r) (r_ord r')) t) && nodup_rows t
  end.
Lemma panic_review_no_duplicate_rows : nodup_rows table = true.
Proof. vm_compute. reflexivity. Qed.

(* every function that owns an inventory row still has the text it had when the rows were reviewed: a changed
   operator / argument at an existing site, or a weakened guard, changes the fingerprint *)
Lemma panic_owner_functions_unchanged : forallb print_reviewed fn_prints = true.
Proof. vm_compute. reflexivity. Qed.

Lemma panic_owner_functions_universal : forall q, In q fn_prints -> print_reviewed q = true.
Proof. apply forallb_forall. exact panic_owner_functions_unchanged. Qed.
