(* C16 core development.  Same lemmas as Proofs/VarintProofs.v (which other properties import and which is left
   untouched), except that nothing here depends on the INTEGER carried by UnexpectedEnd: the decode row lemma
   quantifies it existentially and the truncated / empty cases conclude "is an error", which is all the property
   text ("a truncated encoding is reported as such") and the case comparison (canon of lib/props/c16.py) demand.
   Properties/C16.v depends on this file only, so a change of those integers in varint.rs does not break C16. *)
From H3V Require Import Base.Bytes Base.BytesLemmas Gen.GenVarint Spec.RFC9000 Model.Varint.
From Coq Require Import ZifyBool ZifyNat ZifyN.
Ltac Zify.zify_post_hook ::= Z.div_mod_to_equations.

(* ---------- bit-level helpers ---------- *)

Lemma land_low_high a t k : a < 2 ^ k -> N.land (t * 2 ^ k) a = 0.
Proof.
  intros Ha. apply N.bits_inj. intros n. rewrite N.land_spec, N.bits_0.
  destruct (N.ltb_spec n k) as [Hn|Hn].
  - rewrite N.mul_pow2_bits_low by assumption. reflexivity.
  - replace (N.testbit a n) with false; [apply andb_false_r|].
    symmetry. destruct (N.eq_dec a 0) as [->|Hz]; [apply N.bits_0|].
    apply N.bits_above_log2. apply N.log2_lt_pow2 in Ha; lia.
Qed.

Lemma lor_disjoint a t k : a < 2 ^ k -> N.lor (t * 2 ^ k) a = t * 2 ^ k + a.
Proof.
  intros Ha. pose proof (land_low_high a t k Ha) as H0.
  rewrite <- N.lxor_lor by assumption.
  symmetry. apply N.add_nocarry_lxor. assumption.
Qed.

Lemma land_63 b : N.land b 63 = b mod 64.
Proof. change 63 with (N.ones 6). rewrite N.land_ones. reflexivity. Qed.

Lemma shiftr_6 b : N.shiftr b 6 = b / 64.
Proof. rewrite N.shiftr_div_pow2. reflexivity. Qed.

Lemma be_value_cons b t : be_value (b :: t) = b * 256 ^ len t + be_value t.
Proof. unfold be_value. cbn [be_acc]. rewrite be_acc_lin. lia. Qed.

Lemma len_firstn_ge n (r : bytes) : N.of_nat n <= len r -> len (firstn n r) = N.of_nat n.
Proof. unfold len. intros H. rewrite firstn_length. lia. Qed.

Lemma firstn_app_repeat_exact (n : nat) (l pad : bytes) :
  length l = n -> firstn n (l ++ pad) = l.
Proof. intros <-. apply firstn_app_exact. Qed.

(* ---------- T3 / T4: decode agrees with RFC 9000 on every input ---------- *)

Lemma dec_row_of_tag b0 : b0 < 256 ->
  exists (n : nat) (errc : N),
    (n = 0 \/ n = 1 \/ n = 3 \/ n = 7)%nat /\
    N.of_nat (S n) = rfc_vi_len b0 /\
    assoc (N.shiftr b0 dec_tag_shift) dec_rows =
      Some (N.of_nat n, (errc, (N.of_nat n, N.of_nat (S n)))).
Proof.
  intros Hb. unfold dec_tag_shift. rewrite shiftr_6. unfold rfc_vi_len.
  assert (Ht : b0 / 64 = 0 \/ b0 / 64 = 1 \/ b0 / 64 = 2 \/ b0 / 64 = 3) by lia.
  destruct Ht as [-> | [-> | [-> | ->]]];
    [exists 0%nat | exists 1%nat | exists 3%nat | exists 7%nat]; cbn; eexists; repeat split; auto.
Qed.

Theorem vi_decode_complete :
  forall b0 r, wf_bytes (b0 :: r) ->
    rfc_vi_len b0 <= len (b0 :: r) ->
    let l := N.to_nat (rfc_vi_len b0) in
    vi_decode (b0 :: r) = (Ok (rfc_vi_value (firstn l (b0 :: r))), skipn l (b0 :: r)).
Proof.
  intros b0 r Hwf Hlen l.
  apply wf_bytes_cons in Hwf as [Hb Hr].
  destruct (dec_row_of_tag b0 Hb) as (n & errc & Hn & Hl & Hrow).
  unfold vi_decode. rewrite Hrow.
  assert (Hlr : N.of_nat n <= len r).
  { unfold len in *. cbn [length] in Hlen. lia. }
  destruct (N.ltb_spec (len r) (N.of_nat n)) as [Hc|_]; [lia|].
  subst l. rewrite <- Hl. rewrite !Nat2N.id. cbn [firstn skipn].
  f_equal. f_equal.
  assert (Hfl : length (firstn n r) = n).
  { rewrite firstn_length. unfold len in Hlr. lia. }
  rewrite (firstn_app_repeat_exact n) by exact Hfl.
  unfold rfc_vi_value, dec_mask. rewrite land_63.
  rewrite !be_value_cons.
  assert (Hlen' : len (firstn n r) = N.of_nat n) by (apply len_firstn_ge; exact Hlr).
  assert (Hbv : be_value (firstn n r) < 256 ^ N.of_nat n).
  { rewrite <- Hlen'. apply be_value_bound. apply wf_bytes_firstn. exact Hr. }
  rewrite Hlen'.
  replace (len (b0 :: firstn n r)) with (N.of_nat n + 1)
    by (unfold len; cbn [length]; rewrite Hfl; lia).
  replace (8 * (N.of_nat n + 1) - 2) with (8 * N.of_nat n + 6) by lia.
  rewrite N.pow_add_r. replace (256 ^ N.of_nat n) with (2 ^ (8 * N.of_nat n)) in *
    by (rewrite N.pow_mul_r; reflexivity).
  set (P := 2 ^ (8 * N.of_nat n)) in *.
  assert (HP : 0 < P) by (unfold P; apply N.neq_0_lt_0, N.pow_nonzero; lia).
  apply N.mod_unique with (b0 / 64).
  - change (2 ^ 6) with 64. nia.
  - change (2 ^ 6) with 64. pose proof (N.div_mod b0 64). nia.
Qed.

(* a truncated encoding is reported as such: the result is an error (whatever integer it carries, wherever the
   reader stands afterwards) *)
Theorem vi_decode_truncated_reported :
  forall b0 r, b0 < 256 -> len (b0 :: r) < rfc_vi_len b0 ->
    exists e rest, vi_decode (b0 :: r) = (Err e, rest).
Proof.
  intros b0 r Hb Hlen.
  destruct (dec_row_of_tag b0 Hb) as (n & errc & Hn & Hl & Hrow).
  unfold vi_decode. rewrite Hrow.
  assert (Hc : len r < N.of_nat n).
  { unfold len in *. cbn [length] in Hlen. lia. }
  exists errc, r.
  destruct (N.ltb_spec (len r) (N.of_nat n)); [reflexivity|lia].
Qed.

Theorem vi_decode_empty_reported : exists e rest, vi_decode [] = (Err e, rest).
Proof. eexists. eexists. reflexivity. Qed.

(* no panic on any well-formed input *)
Theorem vi_decode_no_panic :
  forall bs, wf_bytes bs -> is_panic (fst (vi_decode bs)) = false.
Proof.
  intros [|b0 r] Hwf; [reflexivity|].
  destruct (N.le_gt_cases (rfc_vi_len b0) (len (b0 :: r))) as [H|H].
  - rewrite vi_decode_complete by assumption. reflexivity.
  - apply wf_bytes_cons in Hwf as [Hb _].
    destruct (vi_decode_truncated_reported b0 r Hb H) as (e & rest & He). rewrite He. reflexivity.
Qed.

(* ---------- T2: encode is the RFC's shortest form ---------- *)

Lemma vi_size_shortest x : x < 2 ^ 62 -> vi_size x = Some (rfc_vi_shortest x).
Proof.
  intros Hx. unfold vi_size, rfc_vi_shortest, size_rows. cbn [first_row].
  destruct (x <? 2 ^ 6); [reflexivity|].
  destruct (x <? 2 ^ 14); [reflexivity|].
  destruct (x <? 2 ^ 30); [reflexivity|].
  destruct (N.ltb_spec x (2 ^ 62)); [reflexivity|lia].
Qed.

Lemma vi_size_unreachable x : 2 ^ 62 <= x -> vi_size x = None.
Proof.
  intros Hx. unfold vi_size, size_rows. cbn [first_row].
  assert (2 ^ 6 < 2 ^ 62 /\ 2 ^ 14 < 2 ^ 62 /\ 2 ^ 30 < 2 ^ 62) by (vm_compute; auto).
  destruct (N.ltb_spec x (2 ^ 6)); [lia|].
  destruct (N.ltb_spec x (2 ^ 14)); [lia|].
  destruct (N.ltb_spec x (2 ^ 30)); [lia|].
  destruct (N.ltb_spec x (2 ^ 62)); [lia|reflexivity].
Qed.

Lemma enc_form (tag sh width : N) x :
  x < 2 ^ sh -> sh + 2 = width -> tag < 4 ->
  N.lor (N.shiftl tag sh mod 2 ^ width) (x mod 2 ^ width) = tag * 2 ^ sh + x.
Proof.
  intros Hx Hw Ht. rewrite N.shiftl_mul_pow2.
  assert (Hpw : 2 ^ width = 4 * 2 ^ sh).
  { rewrite <- Hw, N.pow_add_r. change (2 ^ 2) with 4. lia. }
  assert (0 < 2 ^ sh) by (apply N.neq_0_lt_0, N.pow_nonzero; lia).
  rewrite (N.mod_small (tag * 2 ^ sh)) by nia.
  rewrite (N.mod_small x) by nia.
  apply lor_disjoint. assumption.
Qed.

Lemma first_row_enc x : x < 2 ^ 62 ->
  first_row x enc_rows =
    Some (if x <? 2 ^ 6 then (8, (0, 0)) else if x <? 2 ^ 14 then (16, (1, 14))
          else if x <? 2 ^ 30 then (32, (2, 30)) else (64, (3, 62))).
Proof.
  intros Hx. unfold enc_rows. cbn [first_row].
  destruct (x <? 2 ^ 6); [reflexivity|].
  destruct (x <? 2 ^ 14); [reflexivity|].
  destruct (x <? 2 ^ 30); [reflexivity|].
  destruct (N.ltb_spec x (2 ^ 62)); [reflexivity|lia].
Qed.

Theorem vi_encode_shortest :
  forall x, x < 2 ^ 62 ->
    vi_encode x = Some (rfc_vi_enc (rfc_vi_shortest x) x).
Proof.
  intros x Hx. unfold vi_encode. rewrite first_row_enc by assumption.
  unfold rfc_vi_shortest, rfc_vi_enc.
  destruct (N.ltb_spec x (2 ^ 6)) as [H6|H6].
  { f_equal. f_equal. rewrite N.shiftl_0_l. change (0 mod 2 ^ 8) with 0.
    rewrite N.lor_0_l. rewrite N.mod_small by (change (2 ^ 8) with 256; change (2 ^ 6) with 64 in H6; lia).
    change (rfc_vi_prefix 1) with 0. lia. }
  destruct (N.ltb_spec x (2 ^ 14)) as [H14|H14].
  { f_equal. change (N.to_nat (16 / 8)) with (N.to_nat 2). f_equal.
    rewrite (enc_form 1 14 16) by (auto; lia). reflexivity. }
  destruct (N.ltb_spec x (2 ^ 30)) as [H30|H30].
  { f_equal. change (N.to_nat (32 / 8)) with (N.to_nat 4). f_equal.
    rewrite (enc_form 2 30 32) by (auto; lia). reflexivity. }
  { f_equal. change (N.to_nat (64 / 8)) with (N.to_nat 8). f_equal.
    rewrite (enc_form 3 62 64) by (auto; lia). reflexivity. }
Qed.

Theorem vi_encode_unreachable x : 2 ^ 62 <= x -> vi_encode x = None.
Proof.
  intros Hx. unfold vi_encode, enc_rows. cbn [first_row].
  assert (2 ^ 6 < 2 ^ 62 /\ 2 ^ 14 < 2 ^ 62 /\ 2 ^ 30 < 2 ^ 62) by (vm_compute; auto).
  destruct (N.ltb_spec x (2 ^ 6)); [lia|].
  destruct (N.ltb_spec x (2 ^ 14)); [lia|].
  destruct (N.ltb_spec x (2 ^ 30)); [lia|].
  destruct (N.ltb_spec x (2 ^ 62)); [lia|reflexivity].
Qed.

Lemma rfc_vi_enc_length l x : length (rfc_vi_enc l x) = N.to_nat l.
Proof. unfold rfc_vi_enc. apply be_bytes_length. Qed.

Lemma rfc_vi_enc_wf l x : wf_bytes (rfc_vi_enc l x).
Proof. unfold rfc_vi_enc. apply be_bytes_wf. Qed.

(* ---------- T1: round trip ---------- *)

Lemma shortest_cases x :
  let l := rfc_vi_shortest x in
  x < 2 ^ 62 ->
  (l = 1 \/ l = 2 \/ l = 4 \/ l = 8) /\ x < 2 ^ (8 * l - 2).
Proof.
  intros l Hx. subst l. unfold rfc_vi_shortest.
  destruct (N.ltb_spec x (2 ^ 6)); [split; [auto|exact H]|].
  destruct (N.ltb_spec x (2 ^ 14)); [split; [auto|exact H0]|].
  destruct (N.ltb_spec x (2 ^ 30)); [split; [auto|exact H1]|].
  split; [auto 6|exact Hx].
Qed.

(* the RFC encoding on l bytes decodes (by the RFC value function) to x, and its first
   byte announces l *)
Lemma rfc_enc_head l x :
  (l = 1 \/ l = 2 \/ l = 4 \/ l = 8) -> x < 2 ^ (8 * l - 2) ->
  exists b0 t, rfc_vi_enc l x = b0 :: t /\ rfc_vi_len b0 = l /\ rfc_vi_value (rfc_vi_enc l x) = x.
Proof.
  intros Hl Hx.
  set (v := rfc_vi_prefix l * 2 ^ (8 * l - 2) + x).
  assert (Hpre : rfc_vi_prefix l < 4 /\ 2 ^ rfc_vi_prefix l = l).
  { destruct Hl as [-> | [-> | [-> | ->]]]; vm_compute; auto. }
  destruct Hpre as [Hp4 Hpl].
  assert (Hpow : 256 ^ l = 4 * 2 ^ (8 * l - 2)).
  { replace 256 with (2 ^ 8) by reflexivity. rewrite <- N.pow_mul_r.
    replace (8 * l) with (2 + (8 * l - 2)) at 1 by lia. rewrite N.pow_add_r. reflexivity. }
  assert (HP : 0 < 2 ^ (8 * l - 2)) by (apply N.neq_0_lt_0, N.pow_nonzero; lia).
  assert (Hv : v < 256 ^ N.of_nat (N.to_nat l)).
  { rewrite N2Nat.id, Hpow. unfold v. nia. }
  assert (Hval : be_value (rfc_vi_enc l x) = v).
  { unfold rfc_vi_enc. fold v. apply be_value_be_bytes. exact Hv. }
  assert (Hlen : len (rfc_vi_enc l x) = l).
  { unfold len. rewrite rfc_vi_enc_length. lia. }
  assert (Hvalue : rfc_vi_value (rfc_vi_enc l x) = x).
  { unfold rfc_vi_value. rewrite Hval, Hlen. unfold v.
    symmetry. apply N.mod_unique with (rfc_vi_prefix l); lia. }
  destruct (rfc_vi_enc l x) as [|b0 t] eqn:He.
  { unfold len in Hlen. cbn in Hlen. lia. }
  exists b0, t. repeat split; auto.
  (* first byte = v / 256^(l-1), whose top two bits are the prefix *)
  assert (Hwf : wf_bytes (b0 :: t)) by (rewrite <- He; apply rfc_vi_enc_wf).
  apply wf_bytes_cons in Hwf as [Hb Ht].
  rewrite be_value_cons in Hval.
  assert (Hlt : len t = l - 1) by (unfold len in *; cbn [length] in Hlen; lia).
  pose proof (be_value_bound t Ht) as Hbt. rewrite Hlt in Hbt.
  assert (H256 : 256 ^ (l - 1) * 64 = 2 ^ (8 * l - 2)).
  { replace 256 with (2 ^ 8) by reflexivity. rewrite <- N.pow_mul_r.
    replace 64 with (2 ^ 6) by reflexivity. rewrite <- N.pow_add_r. f_equal. lia. }
  assert (HQ : 0 < 256 ^ (l - 1)) by (apply N.neq_0_lt_0, N.pow_nonzero; lia).
  rewrite Hlt in Hval. unfold v in Hval.
  unfold rfc_vi_len. rewrite <- Hpl. f_equal.
  set (Q := 256 ^ (l - 1)) in *. rewrite <- H256 in *.
  symmetry. apply N.div_unique with (b0 - rfc_vi_prefix l * 64); nia.
Qed.

Theorem vi_roundtrip :
  forall x r, x < 2 ^ 62 -> wf_bytes r ->
    exists e, vi_encode x = Some e /\ wf_bytes e /\ vi_decode (e ++ r) = (Ok x, r).
Proof.
  intros x r Hx Hr. exists (rfc_vi_enc (rfc_vi_shortest x) x).
  split; [apply vi_encode_shortest; exact Hx|].
  split; [apply rfc_vi_enc_wf|].
  destruct (shortest_cases x Hx) as [Hl Hb].
  set (l := rfc_vi_shortest x) in *.
  destruct (rfc_enc_head l x Hl Hb) as (b0 & t & He & Hlen & Hval).
  assert (Hlt : length (b0 :: t) = N.to_nat l) by (rewrite <- He; apply rfc_vi_enc_length).
  rewrite He. cbn [app].
  assert (Hwf : wf_bytes (b0 :: t ++ r)).
  { change (b0 :: t ++ r) with ((b0 :: t) ++ r). apply wf_bytes_app. split; auto.
    rewrite <- He. apply rfc_vi_enc_wf. }
  rewrite vi_decode_complete; auto.
  - rewrite Hlen, <- Hlt. change (b0 :: t ++ r) with ((b0 :: t) ++ r).
    rewrite firstn_app_exact, skipn_app_exact. rewrite <- He, Hval. reflexivity.
  - rewrite Hlen. unfold len. cbn [length] in *. rewrite app_length. lia.
Qed.

(* ---------- T5: checked constructors ---------- *)

Theorem vi_from_u64_spec x : vi_from_u64 x = if x <? 2 ^ 62 then Some x else None.
Proof. reflexivity. Qed.

Theorem sid_try_from_spec v : sid_try_from v = if v <? 2 ^ 62 then Some v else None.
Proof.
  unfold sid_try_from, sid_try_from_strict_gt, vi_max, max_shift.
  destruct (N.ltb_spec (2 ^ 62 - 1) v); destruct (N.ltb_spec v (2 ^ 62)); auto; lia.
Qed.

Theorem vi_encoded_size_spec b : vi_encoded_size b = rfc_vi_len b.
Proof. unfold vi_encoded_size, encsize_shift. rewrite shiftr_6. reflexivity. Qed.

(* ---------- T6: stream-id classification = RFC 9000 2.1 ---------- *)

Lemma land_1 id : N.land id 1 = id mod 2.
Proof. change 1 with (N.ones 1). rewrite N.land_ones. reflexivity. Qed.

Lemma land_2 id : (N.land id 2 =? 0) = ((id / 2) mod 2 =? 0).
Proof.
  replace (N.land id 2) with (2 * ((id / 2) mod 2)).
  - destruct (N.eqb_spec ((id / 2) mod 2) 0) as [->|H]; [reflexivity|].
    apply N.eqb_neq. lia.
  - apply N.bits_inj. intros n. rewrite N.land_spec.
    destruct (N.eq_dec n 1) as [->|Hn].
    + change 2 with (2 ^ 1) at 1. rewrite N.mul_comm, N.mul_pow2_bits_high by lia.
      replace (1 - 1) with 0 by lia. change (N.testbit 2 1) with true. rewrite andb_true_r.
      change 2 with (2 ^ 1) at 2. rewrite N.mod_pow2_bits_low by lia.
      change 2 with (2 ^ 1). rewrite N.div_pow2_bits. reflexivity.
    + replace (N.testbit 2 n) with false.
      2:{ destruct n as [|[p|p|]]; try reflexivity. congruence. }
      rewrite andb_false_r.
      destruct (N.eq_dec n 0) as [->|Hn0].
      * rewrite N.testbit_even_0. reflexivity.
      * replace n with (N.succ (N.pred n)) by lia. rewrite N.testbit_even_succ by lia.
        change 2 with (2 ^ 1) at 2. rewrite N.mod_pow2_bits_high; [reflexivity|lia].
Qed.

Theorem sid_initiator_spec id :
  sid_initiator id = if rfc_sid_client id then Client else Server.
Proof.
  unfold sid_initiator, sid_init_mask, sid_init_zero_is_client, rfc_sid_client.
  rewrite land_1. reflexivity.
Qed.

Theorem sid_dir_spec id : sid_dir id = if rfc_sid_bidi id then Bi else Uni.
Proof.
  unfold sid_dir, sid_dir_mask, sid_dir_zero_is_bi, rfc_sid_bidi. rewrite land_2. reflexivity.
Qed.

Theorem sid_index_spec id : sid_index id = rfc_sid_index id.
Proof. unfold sid_index, sid_index_shift, rfc_sid_index. rewrite N.shiftr_div_pow2. reflexivity. Qed.

Theorem sid_is_request_spec id :
  sid_is_request id = rfc_sid_bidi id && rfc_sid_client id.
Proof.
  unfold sid_is_request, is_request_bi_client. rewrite sid_dir_spec, sid_initiator_spec.
  destruct (rfc_sid_bidi id), (rfc_sid_client id); reflexivity.
Qed.

Theorem sid_is_push_spec id :
  sid_is_push id = negb (rfc_sid_bidi id) && negb (rfc_sid_client id).
Proof.
  unfold sid_is_push, is_push_uni_server. rewrite sid_dir_spec, sid_initiator_spec.
  destruct (rfc_sid_bidi id), (rfc_sid_client id); reflexivity.
Qed.

(* ---------- T7: advancing a stream id saturates ---------- *)

Lemma sid_new_spec index d s :
  index < 2 ^ 62 ->
  sid_new index d s = rfc_sid_make index (dir_n d =? 0) (side_n s =? 0).
Proof.
  intros Hi. unfold sid_new, sid_new_index_shift, sid_new_dir_shift, rfc_sid_make.
  rewrite !N.shiftl_mul_pow2.
  rewrite (N.mod_small (index * 2 ^ 2)).
  2:{ change (2 ^ 64) with (2 ^ 62 * 2 ^ 2). apply N.mul_lt_mono_pos_r; [reflexivity|exact Hi]. }
  assert (Hd : dir_n d * 2 ^ 1 < 2 ^ 2) by (destruct d; vm_compute; reflexivity).
  rewrite (lor_disjoint _ index 2 Hd).
  replace (index * 2 ^ 2 + dir_n d * 2 ^ 1) with ((2 * index + dir_n d) * 2 ^ 1).
  2:{ change (2 ^ 2) with 4. change (2 ^ 1) with 2. lia. }
  assert (Hs : side_n s < 2 ^ 1) by (destruct s; vm_compute; reflexivity).
  rewrite (lor_disjoint _ _ 1 Hs).
  change (2 ^ 1) with 2. clear Hd Hs.
  destruct d, s; unfold dir_n, side_n;
    repeat match goal with |- context [?a =? ?b] => let E := fresh in destruct (N.eqb_spec a b) as [E|E]; try discriminate E; try congruence end; lia.
Qed.

Theorem sid_add_spec :
  forall id rhs, id < 2 ^ 62 -> rhs < 2 ^ 64 ->
    sid_add id rhs =
      rfc_sid_make (N.min (rfc_sid_index id + rhs) rfc_max_index) (rfc_sid_bidi id) (rfc_sid_client id).
Proof.
  intros id rhs Hid Hrhs. unfold sid_add.
  rewrite sid_index_spec, sid_dir_spec, sid_initiator_spec.
  assert (Hcap : N.shiftr vi_max sid_add_cap_shift = rfc_max_index) by (vm_compute; reflexivity).
  rewrite Hcap.
  assert (Hmax : rfc_max_index < 2 ^ 62) by (vm_compute; reflexivity).
  assert (Hmm : N.min (N.min (rfc_sid_index id + rhs) (2 ^ 64 - 1)) rfc_max_index
                = N.min (rfc_sid_index id + rhs) rfc_max_index).
  { assert (rfc_max_index <= 2 ^ 64 - 1) by (vm_compute; discriminate). lia. }
  rewrite Hmm. rewrite sid_new_spec by lia.
  destruct (rfc_sid_bidi id), (rfc_sid_client id); reflexivity.
Qed.

(* the result is a valid id of the same kind whose index is the saturated sum *)
Theorem sid_add_valid :
  forall id rhs, id < 2 ^ 62 -> rhs < 2 ^ 64 ->
    let id' := sid_add id rhs in
    id' < 2 ^ 62 /\
    rfc_sid_client id' = rfc_sid_client id /\
    rfc_sid_bidi id' = rfc_sid_bidi id /\
    rfc_sid_index id' = N.min (rfc_sid_index id + rhs) (2 ^ 60 - 1).
Proof.
  intros id rhs Hid Hrhs id'. subst id'. rewrite sid_add_spec by assumption.
  set (ix := N.min (rfc_sid_index id + rhs) rfc_max_index).
  assert (Hix : ix <= 2 ^ 60 - 1) by (unfold ix, rfc_max_index; lia).
  assert (Hixd : ix = N.min (id / 4 + rhs) (2 ^ 60 - 1)) by reflexivity.
  clearbody ix.
  change (2 ^ 60) with 1152921504606846976 in *. change (2 ^ 62) with 4611686018427387904 in *.
  unfold rfc_sid_make, rfc_sid_client, rfc_sid_bidi, rfc_sid_index.
  destruct ((id / 2) mod 2 =? 0) eqn:Eb, (id mod 2 =? 0) eqn:Ec;
    repeat split; try lia;
    try (apply N.eqb_eq; lia); try (apply N.eqb_neq; lia).
Qed.

(* ---------- the other checked constructors and the wrappers h3 itself calls ---------- *)

Theorem vi_try_from_u64_spec x : vi_try_from_u64 x = if x <? 2 ^ 62 then Some x else None.
Proof. reflexivity. Qed.

Theorem vi_try_from_usize_spec x : vi_try_from_usize x = if x <? 2 ^ 62 then Some x else None.
Proof. reflexivity. Qed.

Theorem push_id_try_from_spec x : push_id_try_from x = if x <? 2 ^ 62 then Some x else None.
Proof. reflexivity. Qed.

Theorem vi_write_var_spec x :
  vi_write_var x = if x <? 2 ^ 62 then Some (rfc_vi_enc (rfc_vi_shortest x) x) else None.
Proof.
  unfold vi_write_var, write_var_is_checked_encode. rewrite vi_from_u64_spec.
  destruct (N.ltb_spec x (2 ^ 62)) as [H|H]; [|reflexivity].
  apply vi_encode_shortest. exact H.
Qed.

Theorem vi_get_var_is_decode bs : vi_get_var bs = vi_decode bs.
Proof. reflexivity. Qed.

Theorem vi_write_get_roundtrip :
  forall x r, x < 2 ^ 62 -> wf_bytes r ->
    exists e, vi_write_var x = Some e /\ vi_get_var (e ++ r) = (Ok x, r).
Proof.
  intros x r Hx Hr. destruct (vi_roundtrip x r Hx Hr) as (e & He & _ & Hd).
  exists e. split; [|rewrite vi_get_var_is_decode; exact Hd].
  rewrite vi_write_var_spec. destruct (N.ltb_spec x (2 ^ 62)); [|lia].
  rewrite vi_encode_shortest in He by assumption. exact He.
Qed.
