(* The table invariant dt_ok is preserved by every encoder- and decoder-side operation (T1, T2). *)
From H3V Require Import Base.Bytes Gen.GenQpack Gen.GenStatic Model.Vas Model.DynTable Model.QInstr Model.QEncoder
  Model.QDecoder Proofs.VasProofs Proofs.AMapLemmas Proofs.DynTableProofs.
From Coq Require Import ZifyBool ZifyN ZifyNat.
Ltac Zify.zify_post_hook ::= Z.div_mod_to_equations.

(* dt_ok only looks at these seven components *)
Lemma dt_ok_frame t t' :
  dt_fields t' = dt_fields t -> dt_curr t' = dt_curr t -> dt_max t' = dt_max t -> dt_vas t' = dt_vas t ->
  dt_fmap t' = dt_fmap t -> dt_nmap t' = dt_nmap t -> dt_track t' = dt_track t -> dt_ok t -> dt_ok t'.
Proof.
  intros H1 H2 H3 H4 H5 H6 H7 Hok. destruct Hok.
  constructor; unfold field_at in *; rewrite ?H1, ?H2, ?H3, ?H4, ?H5, ?H6, ?H7; assumption.
Qed.

Lemma with_blocks_ok t b : dt_ok t -> dt_ok (with_blocks t b).
Proof. apply dt_ok_frame; reflexivity. Qed.
Lemma with_blocked_ok t a b c : dt_ok t -> dt_ok (with_blocked t a b c).
Proof. apply dt_ok_frame; reflexivity. Qed.
Lemma with_bmax_ok t m : dt_ok t -> dt_ok (with_bmax t m).
Proof. apply dt_ok_frame; reflexivity. Qed.

(* changing only the reference counts *)
Lemma with_track_ok t tr :
  dt_ok t -> nodup_keys tr ->
  (forall r c, aget N.eqb r tr = Some c -> 0 < c /\ vas_live (dt_vas t) r) -> dt_ok (with_track t tr).
Proof.
  intros Hok Hn Hv. destruct Hok. constructor; cbn [with_track dt_fields dt_curr dt_max dt_vas dt_fmap dt_nmap dt_track];
    unfold field_at in *; cbn [with_track dt_fields dt_vas]; assumption.
Qed.

(* changing only the two maps *)
Lemma with_maps_ok t fm nm :
  dt_ok t -> nodup_keys fm -> nodup_keys nm ->
  (forall g i, aget field_eqb g fm = Some i -> vas_live (dt_vas t) i /\ field_at t i = Some g) ->
  (forall n i, aget bytes_eqb n nm = Some i -> vas_live (dt_vas t) i /\ exists f, field_at t i = Some f /\ fst f = n) ->
  dt_ok (with_maps t fm nm).
Proof.
  intros Hok H1 H2 H3 H4. destruct Hok. constructor; cbn [with_maps dt_fields dt_curr dt_max dt_vas dt_fmap dt_nmap dt_track];
    unfold field_at in *; cbn [with_maps dt_fields dt_vas]; assumption.
Qed.

Lemma refs_incr_nodup r m : nodup_keys m -> nodup_keys (refs_incr r m).
Proof.
  intros H. unfold refs_incr. destruct (aget N.eqb r m); apply (nodup_aset N.eqb Neqb_eq'); assumption.
Qed.

Lemma refs_incr_get r m r' c :
  aget N.eqb r' (refs_incr r m) = Some c ->
  (r' = r /\ 0 < c) \/ (r' <> r /\ aget N.eqb r' m = Some c).
Proof.
  unfold refs_incr. destruct (N.eq_dec r' r) as [->|Hne].
  - destruct (aget N.eqb r m) eqn:E; rewrite (aget_aset_same N.eqb Neqb_eq'); intros H; inversion H; left; split; lia.
  - destruct (aget N.eqb r m) eqn:E; rewrite (aget_aset_other N.eqb Neqb_eq') by assumption; intros H; right; auto.
Qed.

Lemma dt_track_ref_ok t r : dt_ok t -> vas_live (dt_vas t) r -> dt_ok (dt_track_ref t r).
Proof.
  intros Hok Hl. unfold dt_track_ref. apply with_track_ok; [assumption | apply refs_incr_nodup; apply (ok_track_nd t Hok) |].
  intros r' c H. apply refs_incr_get in H. destruct H as [[-> Hc] | [Hne H]]; [auto|]. apply (ok_track t Hok). assumption.
Qed.

(* ---------------------------------------------------------------- DynamicTable::encoder *)
Lemma refresh_maps_ok t : dt_ok t ->
  forall fs idx fm nm,
    (forall k f, nth_opt fs k = Some f -> nth_opt (dt_fields t) (idx + k) = Some f) ->
    idx + N.of_nat (length fs) <= v_delta (dt_vas t) ->
    nodup_keys fm -> nodup_keys nm ->
    (forall g i, aget field_eqb g fm = Some i -> vas_live (dt_vas t) i /\ field_at t i = Some g) ->
    (forall n i, aget bytes_eqb n nm = Some i -> vas_live (dt_vas t) i /\ exists f, field_at t i = Some f /\ fst f = n) ->
    exists fm' nm', refresh_maps (dt_vas t) fs idx fm nm = Ok (fm', nm') /\ nodup_keys fm' /\ nodup_keys nm' /\
      (forall g i, aget field_eqb g fm' = Some i -> vas_live (dt_vas t) i /\ field_at t i = Some g) /\
      (forall n i, aget bytes_eqb n nm' = Some i -> vas_live (dt_vas t) i /\ exists f, field_at t i = Some f /\ fst f = n).
Proof.
  intros Hok. pose proof (ok_vas t Hok) as Hv.
  induction fs as [|f r IH]; intros idx fm nm Hnth Hlen Hn1 Hn2 Hf Hn; cbn [refresh_maps].
  - exists fm, nm. auto.
  - cbn [length] in Hlen. unfold vas_index. destruct (v_delta (dt_vas t) <=? idx) eqn:E; [lia|].
    set (a := idx + v_dropped (dt_vas t) + 1).
    assert (Hla : vas_live (dt_vas t) a) by (unfold vas_live, a, vas_inv in *; lia).
    assert (Hfa : field_at t a = Some f).
    { unfold field_at, vas_pos, a. replace (idx + v_dropped (dt_vas t) + 1 - v_dropped (dt_vas t) - 1) with (idx + 0) by lia.
      apply Hnth. reflexivity. }
    apply IH.
    + intros k g Hk. replace (idx + 1 + k) with (idx + (k + 1)) by lia. apply Hnth.
      rewrite nth_opt_cons_pos by lia. replace (k + 1 - 1) with k by lia. assumption.
    + lia.
    + apply (nodup_aset field_eqb field_eqb_eq); assumption.
    + apply (nodup_aset bytes_eqb bytes_eqb_eq); assumption.
    + intros g i H. destruct (field_eqb g f) eqn:Eg.
      * apply field_eqb_eq in Eg. subst g. rewrite (aget_aset_same field_eqb field_eqb_eq) in H. inversion H; subst. auto.
      * rewrite (aget_aset_other field_eqb field_eqb_eq) in H; [auto|]. intros ->.
        rewrite (proj2 (field_eqb_eq f f) eq_refl) in Eg. discriminate.
    + intros n i H. destruct (bytes_eqb n (fst f)) eqn:Eg.
      * apply bytes_eqb_eq in Eg. subst n. rewrite (aget_aset_same bytes_eqb bytes_eqb_eq) in H. inversion H; subst.
        split; [assumption|]. exists f. auto.
      * rewrite (aget_aset_other bytes_eqb bytes_eqb_eq) in H; [auto|]. intros ->.
        rewrite (proj2 (bytes_eqb_eq _ _) eq_refl) in Eg. discriminate.
Qed.

(* the encoder-side working state *)
Definition te_ok (e : tenc) : Prop := dt_ok (te_t e).

Lemma dt_encoder_ok t sid : dt_ok t ->
  exists e, dt_encoder t sid = Ok e /\ te_ok e /\ te_base e = vas_largest_ref (dt_vas t) /\ te_sid e = sid /\ te_refs e = [] /\
            dt_fields (te_t e) = dt_fields t /\ dt_curr (te_t e) = dt_curr t /\ dt_max (te_t e) = dt_max t /\
            dt_vas (te_t e) = dt_vas t /\ dt_track (te_t e) = dt_track t /\ dt_blocks (te_t e) = dt_blocks t /\
            dt_lkr (te_t e) = dt_lkr t /\ dt_bmax (te_t e) = dt_bmax t /\ dt_bcount (te_t e) = dt_bcount t /\
            dt_bstreams (te_t e) = dt_bstreams t.
Proof.
  intros Hok. unfold dt_encoder.
  destruct (refresh_maps_ok t Hok (dt_fields t) 0 (dt_fmap t) (dt_nmap t)) as (fm & nm & E & H1 & H2 & H3 & H4).
  - intros k f H. replace (0 + k) with k by lia. assumption.
  - pose proof (ok_delta t Hok). lia.
  - apply (ok_fmap_nd t Hok).
  - apply (ok_nmap_nd t Hok).
  - apply (ok_fmap t Hok).
  - apply (ok_nmap t Hok).
  - rewrite E. eexists. split; [reflexivity|]. split.
    + unfold te_ok; cbn [te_t]. apply with_maps_ok; assumption.
    + cbn. repeat split; reflexivity.
Qed.

Lemma te_track_ref_ok e r : te_ok e -> vas_live (dt_vas (te_t e)) r -> te_ok (te_track_ref e r).
Proof. unfold te_ok, te_track_ref; cbn [te_t]. apply dt_track_ref_ok. Qed.

Lemma te_lookup_result_ok e a e' l :
  te_ok e -> (forall x, a = Some x -> vas_live (dt_vas (te_t e)) x) -> te_lookup_result e a = (e', l) -> te_ok e'.
Proof.
  intros Hok Ha. unfold te_lookup_result. destruct a as [x|]; [|intros H; inversion H; subst; assumption].
  destruct (x <=? te_base e); intros H; inversion H; subst; apply te_track_ref_ok; auto.
Qed.

Lemma te_find_ok e f e' l : te_ok e -> te_find e f = (e', l) -> te_ok e'.
Proof.
  intros Hok. unfold te_find. apply te_lookup_result_ok; [assumption|].
  intros x Hx. apply (ok_fmap _ Hok) in Hx. tauto.
Qed.

Lemma te_find_name_ok e n e' l : te_ok e -> te_find_name e n = (e', l) -> te_ok e'.
Proof.
  intros Hok. unfold te_find_name. destruct (static_find_name n); [intros H; inversion H; subst; assumption|].
  apply te_lookup_result_ok; [assumption|]. intros x Hx. apply (ok_nmap _ Hok) in Hx. tauto.
Qed.

(* the frame of the table-level helpers used below *)
Lemma te_with_t_t e t : te_t (te_with_t e t) = t. Proof. reflexivity. Qed.

Lemma aset_valid_fmap t f index fm :
  dt_ok t -> vas_live (dt_vas t) index -> field_at t index = Some f ->
  (forall g i, aget field_eqb g fm = Some i -> vas_live (dt_vas t) i /\ field_at t i = Some g) ->
  (forall g i, aget field_eqb g (aset field_eqb f index fm) = Some i -> vas_live (dt_vas t) i /\ field_at t i = Some g).
Proof.
  intros Hok Hl Hf Hv g i H. destruct (field_eqb g f) eqn:Eg.
  - apply field_eqb_eq in Eg. subst g. rewrite (aget_aset_same field_eqb field_eqb_eq) in H. inversion H; subst. auto.
  - rewrite (aget_aset_other field_eqb field_eqb_eq) in H; [auto|]. intros ->.
    rewrite (proj2 (field_eqb_eq f f) eq_refl) in Eg. discriminate.
Qed.

Lemma aset_valid_nmap t f index nm :
  dt_ok t -> vas_live (dt_vas t) index -> field_at t index = Some f ->
  (forall n i, aget bytes_eqb n nm = Some i -> vas_live (dt_vas t) i /\ exists g, field_at t i = Some g /\ fst g = n) ->
  (forall n i, aget bytes_eqb n (aset bytes_eqb (fst f) index nm) = Some i ->
               vas_live (dt_vas t) i /\ exists g, field_at t i = Some g /\ fst g = n).
Proof.
  intros Hok Hl Hf Hv n i H. destruct (bytes_eqb n (fst f)) eqn:Eg.
  - apply bytes_eqb_eq in Eg. subst n. rewrite (aget_aset_same bytes_eqb bytes_eqb_eq) in H. inversion H; subst.
    split; [assumption|]. exists f. auto.
  - rewrite (aget_aset_other bytes_eqb bytes_eqb_eq) in H; [auto|]. intros ->.
    rewrite (proj2 (bytes_eqb_eq _ _) eq_refl) in Eg. discriminate.
Qed.

(* DynamicTableEncoder::insert keeps the invariant *)
Lemma te_insert_ok e f e' r : te_ok e -> te_insert e f = Ok (e', r) -> te_ok e'.
Proof.
  intros Hok. unfold te_insert. rewrite cmp_gate.
  destruct (dt_bmax (te_t e) <=? dt_bcount (te_t e)).
  { destruct (te_find_name e (fst f)) as [e1 l] eqn:Ef. intros H; inversion H; subst. eapply te_find_name_ok; eauto. }
  destruct (dt_insert_spec (te_t e) f Hok) as [(t1 & n & Ei & _ & _ & Hok1 & Hokp & G) | [Ei | [Ei _]]]; rewrite Ei.
  2:{ destruct (te_find_name (te_with_t e (te_t e)) (fst f)) as [e1 l] eqn:Ef. intros H; inversion H; subst.
      eapply te_find_name_ok; [|eauto]. unfold te_ok. rewrite te_with_t_t. assumption. }
  2:{ destruct (te_find_name e (fst f)) as [e1 l] eqn:Ef. intros H; inversion H; subst. eapply te_find_name_ok; eauto. }
  set (index := v_inserted (dt_vas (te_t e)) + 1).
  set (tp := pushed t1 f) in *.
  assert (Hli : vas_live (dt_vas tp) index).
  { destruct G as (_ & _ & _ & _ & _ & _ & _ & _ & G9 & G10 & _). unfold vas_live, tp, pushed, vas_add, index.
    cbn [dt_vas with_store v_inserted v_dropped]. pose proof (ok_vas t1 Hok1) as Hv. unfold vas_inv in Hv. lia. }
  assert (Hfi : field_at tp index = Some f).
  { destruct G as (_ & _ & _ & _ & _ & _ & _ & _ & G9 & _). unfold index. rewrite <- G9. apply field_at_pushed_new. assumption. }
  set (e1 := te_track_ref (te_with_t e tp) index).
  assert (Hok_e1 : te_ok e1).
  { unfold e1. apply te_track_ref_ok; [unfold te_ok; rewrite te_with_t_t; assumption | rewrite te_with_t_t; assumption]. }
  destruct (index <=? te_base e); [discriminate|].
  assert (Hvas1 : dt_vas (te_t e1) = dt_vas tp) by reflexivity.
  assert (Hfld1 : forall a, field_at (te_t e1) a = field_at tp a) by reflexivity.
  assert (Hli1 : vas_live (dt_vas (te_t e1)) index) by (rewrite Hvas1; assumption).
  assert (Hfi1 : field_at (te_t e1) index = Some f) by (rewrite Hfld1; assumption).
  destruct (aget field_eqb f (dt_fmap (te_t e1))) as [ref_index|] eqn:Efm.
  - destruct (index <=? ref_index); [discriminate|]. intros H; inversion H; subst; clear H.
    apply te_track_ref_ok.
    + unfold te_ok. rewrite te_with_t_t. apply with_maps_ok; try assumption.
      * apply (nodup_aset field_eqb field_eqb_eq). apply (ok_fmap_nd _ Hok_e1).
      * match goal with |- context [match ?x with Some _ => _ | None => _ end] => destruct x end;
          [apply (nodup_aset bytes_eqb bytes_eqb_eq)|]; apply (ok_nmap_nd _ Hok_e1).
      * apply aset_valid_fmap; try assumption. apply (ok_fmap _ Hok_e1).
      * match goal with |- context [match ?x with Some _ => _ | None => _ end] => destruct x end;
          [apply aset_valid_nmap; try assumption|]; apply (ok_nmap _ Hok_e1).
    + rewrite te_with_t_t. cbn [with_maps dt_vas]. apply (ok_fmap _ Hok_e1) in Efm. tauto.
  - destruct (static_find_name (fst f)) as [si|].
    + intros H; inversion H; subst; clear H. unfold te_ok. rewrite te_with_t_t. apply with_maps_ok; try assumption.
      * apply (nodup_aset field_eqb field_eqb_eq). apply (ok_fmap_nd _ Hok_e1).
      * apply (ok_nmap_nd _ Hok_e1).
      * apply aset_valid_fmap; try assumption. apply (ok_fmap _ Hok_e1).
      * apply (ok_nmap _ Hok_e1).
    + destruct (aget bytes_eqb (fst f) (dt_nmap (te_t e1))) as [ref_index|] eqn:Enm.
      * destruct (index <=? ref_index); [discriminate|]. intros H; inversion H; subst; clear H.
        apply te_track_ref_ok.
        -- unfold te_ok. rewrite te_with_t_t. apply with_maps_ok; try assumption.
           ++ apply (nodup_aset field_eqb field_eqb_eq). apply (ok_fmap_nd _ Hok_e1).
           ++ apply (nodup_aset bytes_eqb bytes_eqb_eq). apply (ok_nmap_nd _ Hok_e1).
           ++ apply aset_valid_fmap; try assumption. apply (ok_fmap _ Hok_e1).
           ++ apply aset_valid_nmap; try assumption. apply (ok_nmap _ Hok_e1).
        -- rewrite te_with_t_t. cbn [with_maps dt_vas]. apply (ok_nmap _ Hok_e1) in Enm. tauto.
      * intros H; inversion H; subst; clear H. unfold te_ok. rewrite te_with_t_t. apply with_maps_ok; try assumption.
        -- apply (nodup_aset field_eqb field_eqb_eq). apply (ok_fmap_nd _ Hok_e1).
        -- apply (nodup_aset bytes_eqb bytes_eqb_eq). apply (ok_nmap_nd _ Hok_e1).
        -- apply aset_valid_fmap; try assumption. apply (ok_fmap _ Hok_e1).
        -- apply aset_valid_nmap; try assumption. apply (ok_nmap _ Hok_e1).
Qed.

Lemma encode_field_ok e f e' em : te_ok e -> encode_field e f = Ok (e', em) -> te_ok e'.
Proof.
  intros Hok. unfold encode_field. destruct (static_find f); [intros H; inversion H; subst; assumption|].
  destruct (te_find e f) as [e1 l] eqn:Ef. pose proof (te_find_ok e f e1 l Hok Ef) as Hok1.
  assert (Hins : forall e2 r, te_insert e1 f = Ok (e2, r) -> te_ok e2) by (intros; eapply te_insert_ok; eauto).
  destruct l; try (intros H; inversion H; subst; assumption);
    destruct (te_insert e1 f) as [[e2 r]| |]; try discriminate; intros H; inversion H; subst; eapply Hins; reflexivity.
Qed.

Lemma encode_fields_ok fs : forall e required reps ins e' res,
  te_ok e -> encode_fields e fs required reps ins = (e', res) -> te_ok e'.
Proof.
  induction fs as [|f r IH]; intros e required reps ins e' res Hok; cbn [encode_fields].
  - intros H; inversion H; subst; assumption.
  - destruct (encode_field e f) as [[e1 em]| |] eqn:Ef; try (intros H; inversion H; subst; assumption).
    apply IH. eapply encode_field_ok; eauto.
Qed.

(* giving references back never breaks the invariant *)
Lemma dt_track_cancel_ok rs : forall tr tr' v,
  nodup_keys tr -> (forall r c, aget N.eqb r tr = Some c -> 0 < c /\ vas_live v r) ->
  dt_track_cancel rs tr = Ok tr' ->
  nodup_keys tr' /\ (forall r c, aget N.eqb r tr' = Some c -> 0 < c /\ vas_live v r).
Proof.
  induction rs as [|[r c] rest IH]; intros tr tr' v Hn Hv; cbn [dt_track_cancel].
  - intros H; inversion H; subst; auto.
  - destruct (aget N.eqb r tr) as [have|] eqn:E; [|discriminate].
    destruct (have <? c) eqn:E1; [discriminate|]. destruct (have =? c) eqn:E2.
    + apply IH; [apply (nodup_adel N.eqb); assumption|].
      intros r' c' H. destruct (N.eq_dec r' r) as [->|Hne].
      * rewrite (aget_adel_same N.eqb Neqb_eq') in H by assumption. discriminate.
      * rewrite (aget_adel_other N.eqb Neqb_eq') in H by assumption. auto.
    + apply IH; [apply (nodup_aset N.eqb Neqb_eq'); assumption|].
      intros r' c' H. destruct (N.eq_dec r' r) as [->|Hne].
      * rewrite (aget_aset_same N.eqb Neqb_eq') in H. inversion H; subst. destruct (Hv r have E). split; [lia | assumption].
      * rewrite (aget_aset_other N.eqb Neqb_eq') in H by assumption. auto.
Qed.

Lemma te_drop_uncommitted_ok e : te_ok e -> dt_ok (te_drop_uncommitted e).
Proof.
  intros Hok. unfold te_drop_uncommitted. destruct (dt_track_cancel (te_refs e) (dt_track (te_t e))) as [tr| |] eqn:E; try assumption.
  destruct (dt_track_cancel_ok _ _ _ (dt_vas (te_t e)) (ok_track_nd _ Hok) (ok_track _ Hok) E).
  apply with_track_ok; assumption.
Qed.

Lemma dt_track_block_ok t sid rs : dt_ok t -> dt_ok (dt_track_block t sid rs).
Proof. intros H. unfold dt_track_block. destruct (aget N.eqb sid (dt_blocks t)); apply with_blocks_ok; assumption. Qed.

Lemma dt_register_blocked_ok t l : dt_ok t -> dt_ok (dt_register_blocked t l).
Proof.
  intros H. unfold dt_register_blocked. destruct (cmp_eval q_register_blocked_cmp l (dt_lkr t)); [assumption|].
  apply with_blocked_ok. assumption.
Qed.

Lemma te_commit_ok e l : te_ok e -> dt_ok (te_commit e l).
Proof. intros H. unfold te_commit. apply dt_register_blocked_ok, dt_track_block_ok. assumption. Qed.

(* Encoder::encode *)
Theorem enc_encode_ok t sid fs : dt_ok t -> dt_ok (fst (enc_encode t sid fs)).
Proof.
  intros Hok. unfold enc_encode. destruct (dt_encoder_ok t sid Hok) as (e0 & E0 & Hok0 & _). rewrite E0.
  destruct (encode_fields e0 fs 0 [] []) as [e1 res] eqn:Ef.
  pose proof (encode_fields_ok fs _ _ _ _ _ _ Hok0 Ef) as Hok1.
  destruct res as [[[required reps] ins]| |]; cbn [fst].
  - destruct (hp_new required (te_base e1) (dt_total_inserted (te_t e1)) (dt_max (te_t e1))); cbn [fst];
      [apply te_commit_ok | apply te_drop_uncommitted_ok | apply te_drop_uncommitted_ok]; assumption.
  - apply te_drop_uncommitted_ok; assumption.
  - apply te_drop_uncommitted_ok; assumption.
Qed.

(* acknowledgements, cancellations, increments: whatever the peer sends *)
Lemma dt_untrack_block_ok t sid t' : dt_ok t -> dt_untrack_block t sid = Ok t' -> dt_ok t'.
Proof.
  intros Hok. unfold dt_untrack_block. destruct (aget N.eqb sid (dt_blocks t)) as [q|]; [|discriminate].
  assert (K : forall b t1, dt_ok t1 -> dt_track t1 = dt_track t -> dt_vas t1 = dt_vas t ->
              match dt_track_cancel b (dt_track t1) with Ok tr => Ok (with_track t1 tr) | Err e => Err e | Panic s => Panic s end = Ok t' -> dt_ok t').
  { intros b t1 Hok1 Ht Hv. destruct (dt_track_cancel b (dt_track t1)) as [tr| |] eqn:E; try discriminate.
    intros H; inversion H; subst.
    destruct (dt_track_cancel_ok _ _ _ (dt_vas t1) (ok_track_nd _ Hok1) (ok_track _ Hok1) E).
    apply with_track_ok; assumption. }
  destruct q as [|b [|b2 rest]].
  - intros H; inversion H; subst. apply with_blocks_ok. assumption.
  - apply K; [apply with_blocks_ok; assumption | reflexivity | reflexivity].
  - apply K; [apply with_blocks_ok; assumption | reflexivity | reflexivity].
Qed.

Lemma dt_update_largest_received_ok t n t' : dt_ok t -> dt_update_largest_received t n = Ok t' -> dt_ok t'.
Proof.
  intros Hok. unfold dt_update_largest_received. destruct (dt_bcount t =? 0).
  - intros H; inversion H; subst. apply with_blocked_ok; assumption.
  - match goal with |- context [if ?c then _ else _] => destruct c end; [discriminate|].
    intros H; inversion H; subst. apply with_blocked_ok; assumption.
Qed.

Theorem enc_on_decoder_recv_ok is : forall t, dt_ok t -> dt_ok (fst (enc_on_decoder_recv t is)).
Proof.
  induction is as [|i r IH]; intros t Hok; cbn [enc_on_decoder_recv]; [assumption|].
  destruct i as [sid|sid|n].
  - destruct (dt_untrack_block t sid) as [t1| |] eqn:E; cbn [fst]; try assumption.
    apply IH. eapply dt_untrack_block_ok; eauto.
  - destruct (dt_untrack_block t sid) as [t1| |] eqn:E; cbn [fst]; try assumption; [|apply IH; assumption].
    pose proof (dt_untrack_block_ok _ _ _ Hok E) as Hok1.
    destruct (dt_untrack_block t1 sid) as [t2| |] eqn:E2; cbn [fst]; try assumption; [|apply IH; assumption].
    apply IH. eapply dt_untrack_block_ok; eauto.
  - destruct (q_increment_limit <? n); cbn [fst]; [assumption|].
    destruct (dt_update_largest_received t n) as [t1| |] eqn:E; cbn [fst]; try assumption.
    apply IH. eapply dt_update_largest_received_ok; eauto.
Qed.

(* ---------------------------------------------------------------- decoder side *)
Lemma dt_put_ok t f t' : dt_ok t -> dt_put t f = Ok t' -> dt_ok t'.
Proof.
  intros Hok. unfold dt_put.
  destruct (dt_insert_spec t f Hok) as [(t1 & n & Ei & _ & _ & Hok1 & Hokp & G) | [Ei | [Ei _]]]; rewrite Ei; [| |discriminate].
  2:{ intros H; inversion H; subst; assumption. }
  set (index := v_inserted (dt_vas t) + 1). set (tp := pushed t1 f) in *.
  assert (Hli : vas_live (dt_vas tp) index).
  { destruct G as (_ & _ & _ & _ & _ & _ & _ & _ & G9 & G10 & _). unfold vas_live, tp, pushed, vas_add, index.
    cbn [dt_vas with_store v_inserted v_dropped]. pose proof (ok_vas t1 Hok1) as Hv. unfold vas_inv in Hv. lia. }
  assert (Hfi : field_at tp index = Some f).
  { destruct G as (_ & _ & _ & _ & _ & _ & _ & _ & G9 & _). unfold index. rewrite <- G9. apply field_at_pushed_new. assumption. }
  destruct (static_find_name (fst f)); intros H; inversion H; subst; apply with_maps_ok; try assumption.
  - apply (nodup_aset field_eqb field_eqb_eq). apply (ok_fmap_nd _ Hokp).
  - apply (ok_nmap_nd _ Hokp).
  - apply aset_valid_fmap; try assumption. apply (ok_fmap _ Hokp).
  - apply (ok_nmap _ Hokp).
  - apply (nodup_aset field_eqb field_eqb_eq). apply (ok_fmap_nd _ Hokp).
  - apply (nodup_aset bytes_eqb bytes_eqb_eq). apply (ok_nmap_nd _ Hokp).
  - apply aset_valid_fmap; try assumption. apply (ok_fmap _ Hokp).
  - apply aset_valid_nmap; try assumption. apply (ok_nmap _ Hokp).
Qed.

(* a table without references can always be shrunk: set_max_size keeps the invariant (decoder side) *)
Lemma cf_loop_untracked t lower : dt_track t = [] -> vas_inv (dt_vas t) ->
  forall fs idx hyp ev, idx + N.of_nat (length fs) <= v_delta (dt_vas t) -> sum_sizes fs <= hyp ->
    exists hyp' ev', cf_loop t lower fs idx hyp ev = Ok (hyp', ev') /\ (hyp' <= lower \/ hyp' = hyp - sum_sizes fs).
Proof.
  intros Ht Hv. induction fs as [|f r IH]; intros idx hyp ev Hl Hs; cbn [cf_loop].
  - eexists _, _. split; [reflexivity|]. right. cbn [sum_sizes]. lia.
  - cbn [length sum_sizes] in Hl, Hs. rewrite cmp_loop. destruct (hyp <=? lower) eqn:E.
    + eexists _, _. split; [reflexivity|]. left. lia.
    + unfold vas_index. destruct (v_delta (dt_vas t) <=? idx) eqn:Ei; [lia|].
      unfold dt_is_tracked. rewrite Ht. cbn [aget].
      destruct (hyp <? mem_size f) eqn:Eh; [lia|].
      destruct (IH (idx + 1) (hyp - mem_size f) (ev + 1)) as (h' & e' & E1 & E2); [lia | lia |].
      exists h', e'. split; [assumption|]. destruct E2; [left; assumption | right; cbn [sum_sizes]; lia].
Qed.

Lemma dt_set_max_size_ok_untracked t size t' :
  dt_ok t -> dt_track t = [] -> dt_set_max_size t size = Ok t' -> dt_ok t' /\ dt_track t' = [] /\ dt_max t' = size.
Proof.
  intros Hok Ht. unfold dt_set_max_size. rewrite cmp_setsize.
  destruct (q_cap_max <? size); [discriminate|].
  assert (Hmax : forall t1 m, dt_ok t1 -> dt_curr t1 <= m -> dt_ok (with_max t1 m)).
  { intros t1 m H1 Hm. destruct H1. constructor; cbn [with_max dt_fields dt_curr dt_max dt_vas dt_fmap dt_nmap dt_track];
      unfold field_at in *; cbn [with_max dt_fields dt_vas]; try assumption. }
  destruct (dt_max t <=? size) eqn:E.
  - intros H; inversion H; subst. split; [|split; [assumption | reflexivity]]. apply Hmax; [assumption|].
    pose proof (ok_cap t Hok). lia.
  - destruct (dt_can_free t (dt_max t - size)) as [[n|]| |] eqn:Ecf; try discriminate.
    + destruct (dt_can_free_spec t _ n Hok Ecf) as (H1 & H2 & H3).
      destruct (dt_evict_ok (N.to_nat n) t Hok H1) as (t1 & Ee & Hok1 & G1 & G2 & G3 & _).
      { intros i Hi. apply H3. lia. }
      rewrite Ee. intros H; inversion H; subst. split; [|split; [cbn [with_max dt_track]; congruence | reflexivity]].
      apply Hmax; [assumption|]. rewrite (ok_curr t1 Hok1), G1. lia.
    + (* impossible without references *)
      exfalso. unfold dt_can_free in Ecf. rewrite cmp_toolarge, cmp_room in Ecf.
      destruct (dt_max t <? dt_max t - size); [discriminate|].
      destruct (dt_max t <? dt_curr t) eqn:E2; [discriminate|].
      destruct (dt_max t - size <=? dt_max t - dt_curr t); [discriminate|].
      destruct (cf_loop_untracked t (dt_max t - (dt_max t - size)) Ht (ok_vas t Hok) (dt_fields t) 0 (dt_curr t) 0) as (h' & e' & L1 & L2).
      * pose proof (ok_delta t Hok). lia.
      * pose proof (ok_curr t Hok). lia.
      * rewrite L1 in Ecf. destruct (dt_max t <? h') eqn:E4; [discriminate|]. rewrite cmp_final in Ecf.
        destruct (dt_max t - size <=? dt_max t - h') eqn:E5; [discriminate|].
        pose proof (ok_curr t Hok). lia.
Qed.
