From H3V Require Import Base.Bytes Base.BytesLemmas Gen.GenVarint Spec.RFC9000 Model.Varint Model.VarintExtra Proofs.VarintCore.
From Coq Require Import ZifyBool ZifyNat ZifyN.
Ltac Zify.zify_post_hook ::= Z.div_mod_to_equations.

(* ---------- SessionId::try_from ---------- *)

Theorem sess_try_from_spec v : sess_try_from v = if v <? 2 ^ 62 then Some v else None.
Proof.
  unfold sess_try_from, sess_try_from_strict_gt, vi_max, max_shift.
  destruct (N.ltb_spec (2 ^ 62 - 1) v); destruct (N.ltb_spec v (2 ^ 62)); auto; lia.
Qed.

(* ---------- the `from_u64(self.0).unwrap().encode(buf)` writers ---------- *)

Theorem checked_encode_spec x :
  checked_encode x = if x <? 2 ^ 62 then Some (rfc_vi_enc (rfc_vi_shortest x) x) else None.
Proof.
  unfold checked_encode. rewrite vi_from_u64_spec.
  destruct (N.ltb_spec x (2 ^ 62)) as [H|H]; [|reflexivity].
  apply vi_encode_shortest. exact H.
Qed.

Theorem checked_encode_roundtrip :
  forall x r, x < 2 ^ 62 -> wf_bytes r ->
    exists e, checked_encode x = Some e /\ vi_decode (e ++ r) = (Ok x, r).
Proof.
  intros x r Hx Hr. destruct (vi_roundtrip x r Hx Hr) as (e & He & _ & Hd).
  exists e. split; [|exact Hd].
  rewrite checked_encode_spec. destruct (N.ltb_spec x (2 ^ 62)); [|lia].
  rewrite vi_encode_shortest in He by assumption. exact He.
Qed.

Theorem sid_encode_spec id :
  sid_encode id = if id <? 2 ^ 62 then Some (rfc_vi_enc (rfc_vi_shortest id) id) else None.
Proof. exact (checked_encode_spec id). Qed.

Theorem sid_encode_roundtrip :
  forall id r, id < 2 ^ 62 -> wf_bytes r ->
    exists e, sid_encode id = Some e /\ vi_decode (e ++ r) = (Ok id, r).
Proof. exact checked_encode_roundtrip. Qed.

(* a session id that try_from accepts is written in the shortest form and read back *)
Theorem sess_encode_spec :
  forall v id, sess_try_from v = Some id ->
    id = v /\ sess_encode id = Some (rfc_vi_enc (rfc_vi_shortest id) id).
Proof.
  intros v id H. rewrite sess_try_from_spec in H.
  destruct (N.ltb_spec v (2 ^ 62)) as [Hv|Hv]; [|discriminate].
  injection H as <-. split; [reflexivity|].
  unfold sess_encode. rewrite checked_encode_spec.
  destruct (N.ltb_spec v (2 ^ 62)); [reflexivity|lia].
Qed.

Theorem sess_roundtrip :
  forall v r, v < 2 ^ 62 -> wf_bytes r ->
    exists e, sess_try_from v = Some v /\ sess_encode v = Some e /\ sess_decode (e ++ r) = (Ok v, r).
Proof.
  intros v r Hv Hr. destruct (checked_encode_roundtrip v r Hv Hr) as (e & He & Hd).
  exists e. repeat split; auto.
  rewrite sess_try_from_spec. destruct (N.ltb_spec v (2 ^ 62)); [reflexivity|lia].
Qed.

(* ---------- StreamType ---------- *)

Theorem st_encode_spec v :
  st_encode v = if v <? 2 ^ 62 then Some (rfc_vi_enc (rfc_vi_shortest v) v) else None.
Proof. exact (vi_write_var_spec v). Qed.

Theorem st_decode_complete :
  forall b0 r, wf_bytes (b0 :: r) -> rfc_vi_len b0 <= len (b0 :: r) ->
    let l := N.to_nat (rfc_vi_len b0) in
    st_decode (b0 :: r) = (Ok (rfc_vi_value (firstn l (b0 :: r))), skipn l (b0 :: r)).
Proof.
  intros b0 r Hwf Hlen l. unfold st_decode. rewrite vi_get_var_is_decode.
  apply vi_decode_complete; assumption.
Qed.

Theorem st_decode_truncated_reported :
  forall b0 r, b0 < 256 -> len (b0 :: r) < rfc_vi_len b0 ->
    exists e rest, st_decode (b0 :: r) = (Err e, rest).
Proof.
  intros b0 r Hb Hlen. unfold st_decode. rewrite vi_get_var_is_decode.
  apply vi_decode_truncated_reported; assumption.
Qed.

Theorem st_roundtrip :
  forall v r, v < 2 ^ 62 -> wf_bytes r ->
    exists e, st_encode v = Some e /\ st_decode (e ++ r) = (Ok v, r).
Proof. exact vi_write_get_roundtrip. Qed.

(* ---------- Display for StreamId ---------- *)

Theorem sid_display_spec id :
  sid_display id = (if rfc_sid_client id then Client else Server,
                    if rfc_sid_bidi id then Bi else Uni,
                    rfc_sid_index id).
Proof.
  unfold sid_display, disp_side_words_straight, disp_dir_words_straight, disp_number_is_index.
  rewrite sid_initiator_spec, sid_dir_spec, sid_index_spec. reflexivity.
Qed.
