(* C08: every history of the server model stays on the line of Spec/GoawaySpec.v (invariant induction),
   and the client model equals the RFC reference client. *)
From H3V Require Import Base.Bytes Base.BytesLemmas Gen.GenCodes Gen.GenVarint Gen.GenGoaway
  Spec.RFC9000 Spec.GoawaySpec Model.Varint Model.Goaway Proofs.VarintProofs Proofs.GoawaySpecLemmas.
From Coq Require Import ZifyBool ZifyN.

(* ---------- the decision points as read from the source (each is a proof obligation: a changed
   operator / addend / code makes the corresponding line fail to compile) ---------- *)
Lemma fact_reject_test sent id :
  (reject_present && match sent with Some max_id => cmp_eval reject_cmp id max_id | None => false end)
  = match sent with Some g => g <=? id | None => false end.
Proof. reflexivity. Qed.
Lemma fact_reject_codes :
  reject_stop_code = Some rfc_H3_REQUEST_REJECTED /\ reject_reset_code = Some rfc_H3_REQUEST_REJECTED.
Proof. split; reflexivity. Qed.
Lemma fact_last_is_max : last_accepted_is_max = true.
Proof. reflexivity. Qed.
Lemma fact_guard sent_id max_id : (guard_present && cmp_eval guard_cmp sent_id max_id) = (sent_id <=? max_id).
Proof. reflexivity. Qed.
Lemma fact_shutdown_some l n : shutdown_id (Some l) n = sid_add (sid_add l n) 1.
Proof. reflexivity. Qed.
Lemma fact_shutdown_none n : shutdown_id None n = sid_add first_request n.
Proof. reflexivity. Qed.
Lemma fact_first_request : first_request = 0.
Proof. reflexivity. Qed.
Lemma fact_accept_none : accept_none_shutdown = Some 0.
Proof. reflexivity. Qed.
Lemma fact_accept_none_unguarded : accept_none_only_if_unsent = false.
Proof. reflexivity. Qed.
Lemma fact_insert_arg : ongoing_insert_is_stream = true.
Proof. reflexivity. Qed.

(* ---------- stream-id arithmetic for request ids ---------- *)
Definition top_index : N := 2 ^ 60 - 1.
Definition okid (id : N) : Prop := id mod 4 = 0 /\ id <= 2 ^ 62 - 8.

Lemma sid_add_req id n :
  id mod 4 = 0 -> id < 2 ^ 62 -> n < 2 ^ 64 -> sid_add id n = 4 * N.min (id / 4 + n) top_index.
Proof.
  intros Hm Hid Hn. rewrite sid_add_spec by assumption.
  unfold rfc_sid_make, rfc_sid_bidi, rfc_sid_client, rfc_sid_index, rfc_max_index, top_index.
  assert (E1 : (id / 2) mod 2 = 0) by lia. assert (E2 : id mod 2 = 0) by lia.
  rewrite E1, E2. change (0 =? 0) with true. cbv iota. lia.
Qed.

Lemma shutdown_some_above l n :
  okid l -> n < 2 ^ 64 -> l < shutdown_id (Some l) n.
Proof.
  intros [Hm Hl] Hn. rewrite fact_shutdown_some.
  change (2 ^ 62) with 4611686018427387904 in *. change (2 ^ 64) with 18446744073709551616 in *.
  rewrite (sid_add_req l n) by (try assumption; change (2 ^ 62) with 4611686018427387904; change (2 ^ 64) with 18446744073709551616; lia).
  assert (Ht : top_index = 1152921504606846975) by reflexivity.
  set (x := N.min (l / 4 + n) top_index).
  assert (Hx : l / 4 <= x /\ x <= top_index) by (unfold x; rewrite Ht; lia).
  rewrite sid_add_req.
  - replace (4 * x / 4) with x by lia. rewrite Ht in *. lia.
  - lia.
  - change (2 ^ 62) with 4611686018427387904. rewrite Ht in *. lia.
  - change (2 ^ 64) with 18446744073709551616. lia.
Qed.

(* ---------- invariant linking the server state to the monitor state ---------- *)
Record srv_inv (s : server) (m : mon) : Prop := {
  si_wire : m_wire m = s_sent s;
  si_wait : m_wait m = s_inq s;
  si_top : m_top m = s_last s;
  si_lt : forall l g, s_last s = Some l -> s_sent s = Some g -> l < g;
  si_last : forall l, s_last s = Some l -> okid l;
  si_inq : Forall okid (s_inq s)
}.

Definition wf_gop (o : gop) : Prop :=
  match o with
  | Arrive id => okid id
  | Shutdown n => n < 2 ^ 64
  | _ => True
  end.

Lemma remove1_head x l : remove1 x (x :: l) = l.
Proof. cbn [remove1]. rewrite N.eqb_refl. reflexivity. Qed.

Lemma memb_head x l : memb x (x :: l) = true.
Proof. unfold memb. cbn [existsb]. rewrite N.eqb_refl. reflexivity. Qed.

(* ConnectionInner::shutdown against the monitor *)
Lemma inner_shutdown_mon m sent last G :
  m_wire m = sent -> m_top m = last ->
  (forall l, last = Some l -> l < G) ->
  (forall l g, last = Some l -> sent = Some g -> l < g) ->
  exists m', mon_run m (fst (inner_shutdown sent G)) = Some m' /\
             m_wire m' = snd (inner_shutdown sent G) /\ m_top m' = last /\ m_wait m' = m_wait m /\
             (forall l g, last = Some l -> snd (inner_shutdown sent G) = Some g -> l < g).
Proof.
  intros Hw Ht HG Hlt. unfold inner_shutdown.
  destruct sent as [g0|].
  - rewrite fact_guard. destruct (g0 <=? G) eqn:C; cbn [fst snd mon_run].
    + exists m. repeat split; try assumption.
    + cbn [mon_step]. rewrite Hw, Ht.
      assert (C1 : (G <=? g0) = true) by lia. rewrite C1.
      assert (C2 : opt_lt last G = true).
      { destruct last as [l|]; cbn [opt_lt]; [|reflexivity]. specialize (HG l eq_refl). lia. }
      rewrite C2. cbn [andb]. eexists. split; [reflexivity|]. cbn [m_wire m_top m_wait].
      repeat split; try assumption; try reflexivity. intros l g El Eg. inversion Eg; subst. auto.
  - cbn [fst snd mon_run mon_step]. rewrite Hw, Ht.
    assert (C2 : opt_lt last G = true).
    { destruct last as [l|]; cbn [opt_lt]; [|reflexivity]. specialize (HG l eq_refl). lia. }
    rewrite C2. cbn [andb]. eexists. split; [reflexivity|]. cbn [m_wire m_top m_wait].
    repeat split; try assumption; try reflexivity. intros l g El Eg. inversion Eg; subst. auto.
Qed.

Lemma do_shutdown_inv s m n :
  n < 2 ^ 64 -> srv_inv s m ->
  exists m', mon_run m (fst (do_shutdown s n)) = Some m' /\ srv_inv (snd (do_shutdown s n)) m'.
Proof.
  intros Hn [Hw Hq Ht Hlt Hlast Hinq]. unfold do_shutdown.
  destruct (inner_shutdown_mon m (s_sent s) (s_last s) (shutdown_id (s_last s) n) Hw Ht) as (m' & Hr & Hw' & Ht' & Hq' & Hlt').
  - intros l El. rewrite El. apply shutdown_some_above; [apply Hlast; exact El|exact Hn].
  - exact Hlt.
  - destruct (inner_shutdown (s_sent s) (shutdown_id (s_last s) n)) as [w sent'] eqn:E.
    cbn [fst snd] in *. exists m'. split; [exact Hr|].
    split; cbn [s_sent s_inq s_last]; try assumption. congruence.
Qed.

(* the closing GOAWAY of accept(): after shutdown(0) the id on the wire promises nothing beyond the served requests *)
Lemma shutdown_id_zero last :
  (forall l, last = Some l -> okid l) -> shutdown_id last 0 = first_unserved last.
Proof.
  intros Hl. destruct last as [l|]; cbn [first_unserved].
  - destruct (Hl l eq_refl) as [Hm Hle]. rewrite fact_shutdown_some.
    change (2 ^ 62) with 4611686018427387904 in *.
    assert (Ht : top_index = 1152921504606846975) by reflexivity.
    rewrite (sid_add_req l 0) by (try assumption; try reflexivity; change (2 ^ 62) with 4611686018427387904; lia).
    replace (4 * N.min (l / 4 + 0) top_index) with l by (rewrite Ht; lia).
    rewrite (sid_add_req l 1) by (try assumption; try reflexivity; change (2 ^ 62) with 4611686018427387904; lia).
    rewrite Ht. lia.
  - rewrite fact_shutdown_none, fact_first_request. reflexivity.
Qed.

Lemma do_shutdown_closing s :
  (forall l, s_last s = Some l -> okid l) ->
  exists g, s_sent (snd (do_shutdown s 0)) = Some g /\ g <= first_unserved (s_last s) /\
            s_last (snd (do_shutdown s 0)) = s_last s.
Proof.
  intros Hl. unfold do_shutdown, inner_shutdown. rewrite (shutdown_id_zero _ Hl).
  destruct (s_sent s) as [g0|].
  - rewrite fact_guard. destruct (g0 <=? first_unserved (s_last s)) eqn:C; cbn [snd s_sent s_last].
    + exists g0. repeat split. lia.
    + eexists. repeat split. lia.
  - cbn [snd s_sent s_last]. eexists. repeat split. lia.
Qed.

(* the accept loop against the monitor *)
Definition loop_post (sent last : option N) (m1 : mon) (a : answer) (q' : list N) (last' : option N) : Prop :=
  m_wire m1 = sent /\
  match a with
  | ASome id => m_top m1 = last /\ m_wait m1 = id :: q' /\ last' = opt_max last id /\ okid id /\
                (forall g, sent = Some g -> id < g) /\ Forall okid q'
  | ANone => m_top m1 = last /\ m_wait m1 = q' /\ last' = last /\ Forall okid q'
  | APending => m_top m1 = last /\ m_wait m1 = [] /\ q' = [] /\ last' = last
  end.

Lemma accept_loop_mon : forall q sent recv last ongoing m,
  m_wire m = sent -> m_wait m = q -> m_top m = last -> Forall okid q ->
  match accept_loop sent recv last ongoing q with
  | (rej, a, q', last', ong') =>
      exists m1, mon_run m rej = Some m1 /\ loop_post sent last m1 a q' last'
  end.
Proof.
  induction q as [|id q IH]; intros sent recv last ongoing m Hw Hq Ht Hok; cbn [accept_loop].
  - destruct (if pending_needs_recv_closing then _ else _);
      (exists m; split; [reflexivity|]; unfold loop_post; repeat split; assumption).
  - rewrite fact_reject_test. apply Forall_cons_iff in Hok. destruct Hok as [Hid Hok'].
    destruct (match sent with Some g => g <=? id | None => false end) eqn:C.
    + (* refused *)
      destruct sent as [g|]; [|discriminate C].
      destruct fact_reject_codes as [Es Er].
      set (m2 := {| m_wire := Some g; m_top := m_top m; m_wait := q |}).
      assert (Hstep : mon_step m (ERejected id reject_stop_code reject_reset_code) = Some m2).
      { cbn [mon_step]. rewrite Hq, memb_head, Es, Er, Hw. cbn [code_is]. rewrite N.eqb_refl, C.
        cbn [andb]. rewrite remove1_head. reflexivity. }
      destruct (reject_none_if_idle && is_nil ongoing).
      * exists m2. split; [cbn [mon_run]; rewrite Hstep; reflexivity|].
        unfold loop_post, m2; cbn [m_wire m_top m_wait]. repeat split; assumption.
      * specialize (IH (Some g) recv last ongoing m2 eq_refl eq_refl Ht Hok').
        destruct (accept_loop (Some g) recv last ongoing q) as [[[[rej a] q'] last'] ong'].
        destruct IH as (m1 & Hr & Hp). exists m1. split; [|exact Hp].
        cbn [mon_run]. rewrite Hstep. exact Hr.
    + (* shown *)
      exists m. split; [reflexivity|]. unfold loop_post. rewrite fact_last_is_max.
      split; [exact Hw|]. split; [exact Ht|]. split; [exact Hq|]. split; [destruct last; reflexivity|].
      split; [exact Hid|]. split; [|exact Hok']. intros g Eg. rewrite Eg in C. lia.
Qed.

Lemma opt_max_okid last id : (forall l, last = Some l -> okid l) -> okid id ->
  forall l, opt_max last id = Some l -> okid l.
Proof.
  intros Hl Hid l E. destruct last as [l0|]; cbn [opt_max] in E; inversion E; subst.
  - specialize (Hl l0 eq_refl). destruct (N.max_spec l0 id) as [[_ ->]|[_ ->]]; assumption.
  - exact Hid.
Qed.

Lemma accept_inv s m :
  srv_inv s m ->
  exists m', mon_run m (fst (accept s)) = Some m' /\ srv_inv (snd (accept s)) m'.
Proof.
  intros [Hw Hq Ht Hlt Hlast Hinq]. unfold accept.
  destruct (s_err s) as [e|].
  { cbn [fst snd mon_run mon_step]. exists m. split; [reflexivity|]. split; assumption. }
  destruct (process_goaways (s_recv s) (s_ctl s)) as [recv' [e|]].
  { cbn [fst snd mon_run mon_step]. exists m. split; [reflexivity|]. split; assumption. }
  pose proof (accept_loop_mon (s_inq s) (s_sent s) recv' (s_last s) (drain (s_ongoing s) (s_chan s)) m Hw Hq Ht Hinq) as HL.
  destruct (accept_loop (s_sent s) recv' (s_last s) (drain (s_ongoing s) (s_chan s)) (s_inq s))
    as [[[[rej a] q'] last'] ong'].
  destruct HL as (m1 & Hr & Hw1 & Hp).
  destruct a as [id| |].
  - (* shown *)
    destruct Hp as (Ht1 & Hq1 & El & Hid & Hbelow & Hok').
    cbn [fst snd]. rewrite mon_run_app, Hr. cbn [mon_run mon_step].
    rewrite Hq1, memb_head, Hw1.
    assert (C : (match s_sent s with None => true | Some g => id <? g end) = true).
    { destruct (s_sent s) as [g|]; [|reflexivity]. specialize (Hbelow g eq_refl). lia. }
    rewrite C. cbn [andb]. eexists. split; [reflexivity|].
    split; cbn [m_wire m_top m_wait s_sent s_inq s_last].
    + reflexivity.
    + apply remove1_head.
    + rewrite Ht1, El. reflexivity.
    + intros l g E1 E2. subst last'. destruct (s_last s) as [l0|]; cbn [opt_max] in E1; inversion E1; subst l.
      * specialize (Hlt l0 g eq_refl E2). specialize (Hbelow g E2). lia.
      * apply Hbelow. exact E2.
    + subst last'. apply opt_max_okid; assumption.
    + exact Hok'.
  - (* none *)
    destruct Hp as (Ht1 & Hq1 & El & Hok'). subst last'.
    rewrite fact_accept_none, fact_accept_none_unguarded. cbn [andb].
    set (s1 := {| s_last := s_last s; s_sent := s_sent s; s_recv := recv'; s_ongoing := ong'; s_chan := [];
                  s_inq := q'; s_ctl := []; s_err := None; s_dead := false |}).
    assert (Hinv1 : srv_inv s1 m1) by (split; cbn [s_sent s_inq s_last s1]; assumption).
    destruct (do_shutdown_inv s1 m1 0 ltac:(reflexivity) Hinv1) as (m2 & Hr2 & Hinv2).
    destruct (do_shutdown_closing s1 Hlast) as (g & Eg & Hle & El2).
    destruct (do_shutdown s1 0) as [w s2]. cbn [fst snd] in *.
    exists m2. split; [|exact Hinv2].
    rewrite mon_run_app, Hr, mon_run_app, Hr2. cbn [mon_run mon_step].
    rewrite (si_wire _ _ Hinv2), Eg, (si_top _ _ Hinv2), El2. cbn [s1 s_last].
    assert (C : (g <=? first_unserved (s_last s)) = true) by (cbn [s1 s_last] in Hle; lia).
    rewrite C. reflexivity.
  - (* pending *)
    destruct Hp as (Ht1 & Hq1 & Eq' & El). subst q' last'.
    cbn [fst snd]. rewrite mon_run_app, Hr. cbn [mon_run mon_step]. rewrite Hq1.
    exists m1. split; [reflexivity|]. split; cbn [s_sent s_inq s_last]; try assumption. constructor.
Qed.

Lemma gstep_inv g m o :
  wf_gop o -> srv_inv (g_srv g) m ->
  exists m', mon_run m (fst (gstep g o)) = Some m' /\ srv_inv (g_srv (snd (gstep g o))) m'.
Proof.
  intros Hwf Hinv. unfold gstep. destruct (s_dead (g_srv g)).
  { destruct o as [id|n| |id|pid|id]; try (exists m; split; [reflexivity|exact Hinv]).
    destruct (s_err (g_srv g)) as [e|]; [|exists m; split; [reflexivity|exact Hinv]].
    assert (Eg : shutdown_error_guard = true) by reflexivity. rewrite Eg.
    exists m. split; [reflexivity|exact Hinv]. }
  destruct o as [id|n| |id|pid|id]; cbn [wf_gop] in Hwf.
  - (* Arrive *)
    cbn [fst snd g_srv mon_run mon_step]. eexists. split; [reflexivity|].
    destruct Hinv as [Hw Hq Ht Hlt Hlast Hinq].
    split; cbn [m_wire m_top m_wait with_inq s_sent s_inq s_last]; try assumption.
    + rewrite Hq. reflexivity.
    + apply Forall_app. split; [exact Hinq|]. constructor; [exact Hwf|constructor].
  - (* Shutdown *)
    destruct (do_shutdown_inv _ _ n Hwf Hinv) as (m' & Hr & Hinv').
    destruct (do_shutdown (g_srv g) n) as [w s']. cbn [fst snd g_srv] in *.
    exists m'. split; [|exact Hinv']. cbn [mon_run mon_step]. exact Hr.
  - (* Poll *)
    destruct (accept_inv _ _ Hinv) as (m' & Hr & Hinv').
    destruct (accept (g_srv g)) as [out s']. cbn [fst snd g_srv] in *.
    exists m'. split; [|exact Hinv']. cbn [mon_run mon_step]. exact Hr.
  - (* Complete *)
    destruct (existsb (N.eqb id) (g_live g)); cbn [fst snd g_srv mon_run mon_step].
    + exists m. split; [reflexivity|].
      destruct Hinv as [Hw Hq Ht Hlt Hlast Hinq].
      destruct end_created_at_accept; [|split; assumption].
      unfold end_dropped. destruct end_drop_sends; split; cbn [with_chan s_sent s_inq s_last]; assumption.
    + exists m. split; [reflexivity|exact Hinv].
  - (* PeerGoaway *)
    cbn [fst snd g_srv mon_run mon_step]. exists m. split; [reflexivity|].
    destruct Hinv as [Hw Hq Ht Hlt Hlast Hinq]. split; cbn [with_ctl s_sent s_inq s_last]; assumption.
  - (* Serve *)
    exists m. split; [reflexivity|exact Hinv].
Qed.

Lemma grun_inv h : forall g m,
  Forall wf_gop h -> srv_inv (g_srv g) m ->
  exists m', mon_run m (fst (grun g h)) = Some m' /\ srv_inv (g_srv (snd (grun g h))) m'.
Proof.
  induction h as [|o h IH]; intros g m Hwf Hinv; cbn [grun].
  - exists m. split; [reflexivity|exact Hinv].
  - inversion Hwf as [|? ? Ho Hh]; subst.
    destruct (gstep_inv g m o Ho Hinv) as (m1 & Hr1 & Hinv1).
    destruct (gstep g o) as [out g']. cbn [fst snd] in *.
    destruct (IH g' m1 Hh Hinv1) as (m2 & Hr2 & Hinv2).
    destruct (grun g' h) as [out' g'']. cbn [fst snd] in *.
    exists m2. split; [|exact Hinv2]. rewrite mon_run_app, Hr1. exact Hr2.
Qed.

Lemma srv_inv0 : srv_inv server0 mon0.
Proof. split; cbn; try reflexivity; try discriminate. constructor. Qed.

(* the monitor accepts every trace of the model *)
Theorem model_on_the_line h : Forall wf_gop h -> line_okb (gtrace h) = true.
Proof.
  intros Hwf. destruct (grun_inv h gstate0 mon0 Hwf srv_inv0) as (m & Hr & _).
  unfold line_okb, gtrace. rewrite Hr. reflexivity.
Qed.

Theorem model_line h : Forall wf_gop h -> line (gtrace h).
Proof. intros Hwf. apply line_okb_sound, model_on_the_line, Hwf. Qed.

Theorem model_closing h : Forall wf_gop h -> closing_goaway (gtrace h).
Proof. intros Hwf. apply line_okb_closing, model_on_the_line, Hwf. Qed.

(* ---------- client: the model is the RFC reference client ---------- *)
Lemma sid_is_request_mod4 id : sid_is_request id = (id mod 4 =? 0).
Proof.
  rewrite sid_is_request_spec. unfold rfc_sid_bidi, rfc_sid_client.
  destruct (N.eqb_spec ((id / 2) mod 2) 0) as [E1|E1], (N.eqb_spec (id mod 2) 0) as [E2|E2],
    (N.eqb_spec (id mod 4) 0) as [E3|E3]; cbn [andb]; try reflexivity; exfalso; lia.
Qed.

Lemma fact_kind_test id :
  (kind_present && (if kind_negated then negb (sid_is_request id) else sid_is_request id)) = negb (id mod 4 =? 0).
Proof. rewrite <- sid_is_request_mod4. reflexivity. Qed.
Lemma fact_order_test recv id :
  (order_present && match recv with Some prev => cmp_eval order_cmp prev id | None => false end)
  = match recv with Some l => l <? id | None => false end.
Proof. reflexivity. Qed.
Lemma fact_client_codes : kind_code = rfc_H3_ID_ERROR /\ order_code = rfc_H3_ID_ERROR.
Proof. split; reflexivity. Qed.
Lemma fact_client_flags :
  client_processes = true /\ process_sets_closing = true /\ closing_test_first = true /\ closing_test_reads_flag = true.
Proof. repeat split; reflexivity. Qed.
Lemma fact_retest :
  closing_retest_after_open = true /\ closing_retest_reset_code = Some rfc_H3_REQUEST_CANCELLED.
Proof. split; reflexivity. Qed.

Definition is_some {A} (o : option A) : bool := match o with Some _ => true | None => false end.

Lemma client_goaways_rfc ids : forall recv closing,
  closing = is_some recv ->
  let '(recv', closing', err) := client_goaways recv closing ids in
  let '(l, bad) := rfc_process recv ids in
  recv' = l /\ closing' = is_some l /\ err = (if bad then Some rfc_H3_ID_ERROR else None).
Proof.
  destruct fact_client_codes as [Ek Eo]. destruct fact_client_flags as (Ep & Es & _).
  induction ids as [|id ids IH]; intros recv closing Hc; cbn [client_goaways rfc_process].
  - auto.
  - rewrite fact_kind_test, fact_order_test, Ep, Es.
    destruct (negb (id mod 4 =? 0)).
    + rewrite Ek. auto.
    + destruct (match recv with Some l => l <? id | None => false end).
      * rewrite Eo. auto.
      * apply IH. rewrite orb_true_r. reflexivity.
Qed.

Record cl_sim (c : client) (r : rcl) : Prop := {
  cs_recv : c_recv c = r_limit r;
  cs_closing : c_closing c = is_some (r_limit r);
  cs_ctl : c_ctl c = r_inbox r;
  cs_dead : c_dead c = r_failed r;
  cs_next : c_next c = r_next r;
  cs_credit : c_credit c = r_credit r;
  cs_parked : c_parked c = r_parked r
}.

Lemma cstep_rfc c r o :
  cl_sim c r ->
  fst (cstep c o) = fst (rfc_client_step r o) /\ cl_sim (snd (cstep c o)) (snd (rfc_client_step r o)).
Proof.
  intros [Hr Hc Hq Hd Hn Hcr Hp]. unfold cstep, rfc_client_step. rewrite Hd.
  destruct (r_failed r) eqn:Ef.
  { cbn [fst snd]. split; [reflexivity|]. split; try assumption. congruence. }
  destruct o as [id| | | |n].
  - cbn [fst snd]. split; [reflexivity|].
    split; cbn [c_recv c_closing c_ctl c_dead c_next c_credit c_parked rcl_set r_limit r_inbox r_failed r_next r_credit r_parked];
      try assumption; try reflexivity. rewrite Hq. reflexivity.
  - pose proof (client_goaways_rfc (c_ctl c) (c_recv c) (c_closing c)) as H.
    rewrite Hc, Hr in H. specialize (H eq_refl). rewrite <- Hr, <- Hq in *.
    destruct (client_goaways (c_recv c) (is_some (c_recv c)) (c_ctl c)) as [[recv' closing'] err] eqn:E.
    rewrite Hc, Hr in *. rewrite E.
    destruct (rfc_process (r_limit r) (c_ctl c)) as [l bad].
    destruct H as (H1 & H2 & H3). subst recv' closing' err.
    destruct bad; cbn [fst snd]; (split; [reflexivity|]);
      split; cbn [cl_drive c_recv c_closing c_ctl c_dead c_next c_credit c_parked rcl_set r_limit r_inbox r_failed r_next r_credit r_parked]; auto.
  - (* send_request *)
    unfold send_request_poll.
    destruct fact_client_flags as (_ & _ & E1 & E2). destruct fact_retest as (E3 & E4).
    rewrite E1, E2, E3, E4, Hc, Hp, Hcr, Hn. cbn [andb].
    destruct (r_parked r) eqn:Epk; cbn [negb andb].
    + destruct (r_credit r =? 0) eqn:Ecr.
      * cbn [fst snd]. split; [reflexivity|].
        split; cbn [cl_stream rcl_stream c_recv c_closing c_ctl c_dead c_next c_credit c_parked r_limit r_inbox r_failed r_next r_credit r_parked];
          try assumption; try congruence. apply N.eqb_eq in Ecr. congruence.
      * destruct (r_limit r) as [l|] eqn:El; cbn [is_some fst snd]; (split; [reflexivity|]);
          split; cbn [cl_stream rcl_stream c_recv c_closing c_ctl c_dead c_next c_credit c_parked r_limit r_inbox r_failed r_next r_credit r_parked];
          try assumption; try congruence.
    + destruct (r_limit r) as [l|] eqn:El; cbn [is_some].
      * cbn [fst snd]. split; [reflexivity|]. split; try assumption; congruence.
      * destruct (r_credit r =? 0) eqn:Ecr; cbn [fst snd]; (split; [reflexivity|]);
          split; cbn [cl_stream rcl_stream c_recv c_closing c_ctl c_dead c_next c_credit c_parked r_limit r_inbox r_failed r_next r_credit r_parked];
          try assumption; try congruence.
  - cbn [fst snd]. split; [reflexivity|].
    split; cbn [cl_stream rcl_stream c_recv c_closing c_ctl c_dead c_next c_credit c_parked r_limit r_inbox r_failed r_next r_credit r_parked];
      try assumption; try congruence.
  - cbn [fst snd]. split; [reflexivity|].
    split; cbn [cl_stream rcl_stream c_recv c_closing c_ctl c_dead c_next c_credit c_parked r_limit r_inbox r_failed r_next r_credit r_parked];
      try assumption; try congruence.
Qed.

Lemma crun_rfc h : forall c r, cl_sim c r -> crun c h = rfc_client_run r h.
Proof.
  induction h as [|o h IH]; intros c r Hs; cbn [crun rfc_client_run]; [reflexivity|].
  destruct (cstep_rfc c r o Hs) as [E1 Hs'].
  destruct (cstep c o) as [out c'], (rfc_client_step r o) as [out' r']. cbn [fst snd] in *.
  subst out'. f_equal. apply IH. exact Hs'.
Qed.

Theorem client_is_rfc h : crun client0 h = rfc_client_run rcl0 h.
Proof. apply crun_rfc. split; reflexivity. Qed.

(* no request is started once a GOAWAY has been processed - whether the call is new or was waiting for a stream *)
Fixpoint rfc_state (s : rcl) (h : list cop) : rcl :=
  match h with [] => s | o :: r => rfc_state (snd (rfc_client_step s o)) r end.
Theorem rfc_no_request_after_goaway s sid :
  r_limit s <> None -> ~ In (CReqOpened sid) (fst (rfc_client_step s KRequest)).
Proof.
  intros Hl. unfold rfc_client_step. destruct (r_failed s); [intros []|].
  destruct (r_limit s) as [l|]; [|contradiction].
  destruct (r_parked s); [destruct (r_credit s =? 0)|]; cbn [fst In]; intros [H|[H|[]]]; discriminate H.
Qed.

(* ---------- the line, read per stream taken by accept(): shown <-> below the last GOAWAY ---------- *)
Lemma last_wire_In a g : last_wire a = Some g -> In (EWire g) a.
Proof.
  induction a as [|e a IH]; cbn [last_wire]; [discriminate|].
  destruct (last_wire a) as [g'|].
  - intros E. inversion E; subst. right. apply IH. reflexivity.
  - destruct e; try discriminate. intros E. inversion E; subst. left. reflexivity.
Qed.

Theorem line_exact t :
  line t ->
  forall a b e id, t = a ++ e :: b -> taken e = Some id ->
    match last_wire a with
    | Some g => (e = EShown id <-> id < g) /\
                (g <= id -> e = ERejected id (Some rfc_H3_REQUEST_REJECTED) (Some rfc_H3_REQUEST_REJECTED))
    | None => e = EShown id
    end.
Proof.
  intros (Hw & Hs & Hr & (Hl1 & Hl2 & Hl3)) a b e id Ht He.
  assert (Hcases : e = EShown id \/ (exists st rs, e = ERejected id st rs) \/ e = ELost id).
  { destruct e; cbn [taken] in He; try discriminate He; inversion He; subst; eauto. }
  destruct (last_wire a) as [g|] eqn:Eg.
  - assert (Hin : In (EWire g) t) by (subst t; apply in_app_iff; left; apply last_wire_In; exact Eg).
    split; [split|].
    + intros E. apply Hs; [|exact Hin]. subst t e. apply in_app_iff. right. left. reflexivity.
    + intros Hlt. destruct Hcases as [E|[(st & rs & E)|E]]; [exact E| |].
      * subst e. destruct (Hr _ _ _ _ _ Ht) as (_ & _ & g' & Eg' & Hle). rewrite Eg in Eg'. inversion Eg'; subst. lia.
      * exfalso. apply (Hl1 id). subst t e. apply in_app_iff. right. left. reflexivity.
    + intros Hge. destruct Hcases as [E|[(st & rs & E)|E]].
      * exfalso. assert (id < g); [|lia]. apply Hs; [|exact Hin]. subst t e. apply in_app_iff. right. left. reflexivity.
      * subst e. destruct (Hr _ _ _ _ _ Ht) as (E1 & E2 & _). subst. reflexivity.
      * exfalso. apply (Hl1 id). subst t e. apply in_app_iff. right. left. reflexivity.
  - destruct Hcases as [E|[(st & rs & E)|E]]; [exact E| |].
    + subst e. destruct (Hr _ _ _ _ _ Ht) as (_ & _ & g' & Eg' & _). rewrite Eg in Eg'. discriminate Eg'.
    + exfalso. apply (Hl1 id). subst t e. apply in_app_iff. right. left. reflexivity.
Qed.
