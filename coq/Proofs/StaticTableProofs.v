(* C11-T4: facts about the static table regenerated from h3/src/qpack/static_.rs (Gen/GenStatic.v) against the
   hand transcription of RFC 9204 Appendix A (Spec/RFC9204Static.v).  The domain IS the table, so the facts
   are established by evaluation and then turned into the quantified statements used by the codec proofs. *)
From H3V Require Import Base.Bytes Base.BytesLemmas Gen.GenStatic Model.Static Spec.RFC9204AppendixA Spec.RFC9204Static.
From Coq Require Import ZifyBool ZifyNat ZifyN.
Ltac Zify.zify_post_hook ::= Z.div_mod_to_equations.

Lemma bytes_eq_spec a : forall b, bytes_eq a b = true <-> a = b.
Proof.
  induction a as [|x a IH]; intros [|y b]; cbn [bytes_eq]; try (split; congruence).
  rewrite andb_true_iff, IH, N.eqb_eq. split.
  - intros [-> ->]. reflexivity.
  - intros H. inversion H. auto.
Qed.

Lemma bytes_eq_refl a : bytes_eq a a = true.
Proof. apply bytes_eq_spec. reflexivity. Qed.

(* ---- the octet-string table of the specification is the text transcribed from the RFC ---- *)
Lemma rfc_table_is_transcription : rfc9204_static_table = rfc9204_static_transcription.
Proof. vm_compute. reflexivity. Qed.

(* ---- the rows are Appendix A ---- *)
Lemma static_rows_are_rfc : static_rows = rfc9204_static_table.
Proof. vm_compute. reflexivity. Qed.

Lemma static_rows_length : length static_rows = 99%nat.
Proof. vm_compute. reflexivity. Qed.

Lemma static_declared_len_ok : static_declared_len = N.of_nat (length static_rows).
Proof. vm_compute. reflexivity. Qed.

Lemma rows_get_table_nth t : forall i, rows_get t i = table_nth t i.
Proof. induction t as [|f t IH]; intros [|i]; cbn; auto. Qed.

(* StaticTable::get is the RFC table lookup, for every index *)
Lemma st_get_is_rfc i : st_get i = rfc_static i.
Proof.
  unfold st_get, rfc_static. rewrite static_rows_length.
  change (N.of_nat 99) with 99. destruct (i <? 99); [|reflexivity].
  rewrite rows_get_table_nth, static_rows_are_rfc. reflexivity.
Qed.

Lemma st_get_range i f : st_get i = Some f -> i < 99.
Proof.
  unfold st_get. rewrite static_rows_length. change (N.of_nat 99) with 99.
  destruct (i <? 99) eqn:E; [lia|discriminate].
Qed.

Lemma st_get_out_of_range i : 99 <= i -> st_get i = None.
Proof.
  intros H. unfold st_get. rewrite static_rows_length. change (N.of_nat 99) with 99.
  destruct (i <? 99) eqn:E; [lia|reflexivity].
Qed.

(* ---- every arm of `find` points at its own row ---- *)
Definition find_arm_ok (a : bytes * bytes * N) : bool :=
  let '(n, v, i) := a in
  match st_get i with
  | Some (n', v') => bytes_eq n n' && bytes_eq v v'
  | None => false
  end.

Lemma find_arms_point_at_rows_b : forallb find_arm_ok static_find_arms = true.
Proof. vm_compute. reflexivity. Qed.

Lemma find_arms_point_at_rows n v i : In (n, v, i) static_find_arms -> st_get i = Some (n, v).
Proof.
  intros Hin. pose proof find_arms_point_at_rows_b as H. rewrite forallb_forall in H.
  specialize (H _ Hin). cbn [find_arm_ok] in H.
  destruct (st_get i) as [[n' v']|]; [|discriminate].
  apply andb_true_iff in H. destruct H as [H1 H2].
  apply bytes_eq_spec in H1. apply bytes_eq_spec in H2. subst. reflexivity.
Qed.

(* ---- every arm of `find_name` points at a row with that name ---- *)
Definition find_name_arm_ok (a : bytes * N) : bool :=
  let '(n, i) := a in
  match st_get i with
  | Some (n', _) => bytes_eq n n'
  | None => false
  end.

Lemma find_name_arms_point_at_rows_b : forallb find_name_arm_ok static_find_name_arms = true.
Proof. vm_compute. reflexivity. Qed.

Lemma find_name_arms_point_at_rows n i :
  In (n, i) static_find_name_arms -> exists v, st_get i = Some (n, v).
Proof.
  intros Hin. pose proof find_name_arms_point_at_rows_b as H. rewrite forallb_forall in H.
  specialize (H _ Hin). cbn [find_name_arm_ok] in H.
  destruct (st_get i) as [[n' v']|]; [|discriminate].
  apply bytes_eq_spec in H. subst. exists v'. reflexivity.
Qed.

(* ---- no arm is shadowed by an earlier one: looking up an arm's own key yields that arm's index ---- *)
Lemma find_arms_not_shadowed_b :
  forallb (fun a => let '(n, v, i) := a in
                    match find_arms n v static_find_arms with Some j => j =? i | None => false end)
          static_find_arms = true.
Proof. vm_compute. reflexivity. Qed.

Lemma find_name_arms_not_shadowed_b :
  forallb (fun a => let '(n, i) := a in
                    match find_name_arms n static_find_name_arms with Some j => j =? i | None => false end)
          static_find_name_arms = true.
Proof. vm_compute. reflexivity. Qed.

Lemma find_arms_not_shadowed n v i : In (n, v, i) static_find_arms -> st_find (n, v) = Some i.
Proof.
  intros Hin. pose proof find_arms_not_shadowed_b as H. rewrite forallb_forall in H.
  specialize (H _ Hin). cbn beta iota in H. unfold st_find. cbn [fst snd].
  destruct (find_arms n v static_find_arms) as [j|]; [|discriminate].
  apply N.eqb_eq in H. subst. reflexivity.
Qed.

Lemma find_name_arms_not_shadowed n i : In (n, i) static_find_name_arms -> st_find_name n = Some i.
Proof.
  intros Hin. pose proof find_name_arms_not_shadowed_b as H. rewrite forallb_forall in H.
  specialize (H _ Hin). cbn beta iota in H. unfold st_find_name.
  destruct (find_name_arms n static_find_name_arms) as [j|]; [|discriminate].
  apply N.eqb_eq in H. subst. reflexivity.
Qed.

(* ---- what a successful lookup means ---- *)
Lemma find_arms_In n v : forall arms i, find_arms n v arms = Some i -> In (n, v, i) arms.
Proof.
  induction arms as [|[[n' v'] j] arms IH]; intros i H; cbn [find_arms] in H; [discriminate|].
  destruct (bytes_eq n n' && bytes_eq v v') eqn:E.
  - apply andb_true_iff in E. destruct E as [E1 E2].
    apply bytes_eq_spec in E1. apply bytes_eq_spec in E2. inversion H. subst. left. reflexivity.
  - right. apply IH. exact H.
Qed.

Lemma find_name_arms_In n : forall arms i, find_name_arms n arms = Some i -> In (n, i) arms.
Proof.
  induction arms as [|[n' j] arms IH]; intros i H; cbn [find_name_arms] in H; [discriminate|].
  destruct (bytes_eq n n') eqn:E.
  - apply bytes_eq_spec in E. inversion H. subst. left. reflexivity.
  - right. apply IH. exact H.
Qed.

(* find(f) = Some i  ==>  row i IS f *)
Lemma st_find_sound f i : st_find f = Some i -> st_get i = Some f.
Proof.
  destruct f as [n v]. unfold st_find. cbn [fst snd]. intros H.
  apply find_arms_In in H. apply find_arms_point_at_rows. exact H.
Qed.

(* find_name(n) = Some i  ==>  row i has name n *)
Lemma st_find_name_sound n i : st_find_name n = Some i -> exists v, st_get i = Some (n, v).
Proof.
  unfold st_find_name. intros H. apply find_name_arms_In in H.
  apply find_name_arms_point_at_rows. exact H.
Qed.

(* ---- completeness of the lookups (compression quality, not needed for correctness): every row is found
        under its own index, every row's name is found at the first row carrying that name ---- *)
Fixpoint rows_indexed (rows : list field) (i : N) : list (N * field) :=
  match rows with
  | [] => []
  | f :: r => (i, f) :: rows_indexed r (i + 1)
  end.

Lemma every_row_is_found_b :
  forallb (fun p => match st_find (snd p) with Some j => j =? fst p | None => false end)
          (rows_indexed static_rows 0) = true.
Proof. vm_compute. reflexivity. Qed.

Lemma every_name_is_found_b :
  forallb (fun p => match st_find_name (fst (snd p)) with
                    | Some j => (j <=? fst p) &&
                                match st_get j with Some (n, _) => bytes_eq n (fst (snd p)) | None => false end
                    | None => false
                    end)
          (rows_indexed static_rows 0) = true.
Proof. vm_compute. reflexivity. Qed.

Lemma rows_indexed_In rows : forall k i f, rows_get rows i = Some f -> In (k + N.of_nat i, f) (rows_indexed rows k).
Proof.
  induction rows as [|g rows IH]; intros k [|i] f H; cbn [rows_get] in H; try discriminate.
  - inversion H. subst. left. f_equal. lia.
  - right. replace (k + N.of_nat (S i)) with (k + 1 + N.of_nat i) by lia. apply IH. exact H.
Qed.

Lemma every_row_is_found i f : st_get i = Some f -> st_find f = Some i.
Proof.
  intros H. pose proof (st_get_range _ _ H) as Hr. unfold st_get in H.
  destruct (i <? N.of_nat (length static_rows)); [|discriminate].
  pose proof (rows_indexed_In static_rows 0 _ _ H) as Hin.
  pose proof every_row_is_found_b as Hb. rewrite forallb_forall in Hb. specialize (Hb _ Hin).
  cbn [fst snd] in Hb. destruct (st_find f) as [j|]; [|discriminate].
  apply N.eqb_eq in Hb. f_equal. lia.
Qed.
