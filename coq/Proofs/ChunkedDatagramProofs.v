(* Datagram::decode on a non-contiguous Buf = Datagram::decode on the flat bytes, for EVERY chunking: same stream id, the
   payload buffer left behind has the flat payload as its view (and only non-empty chunks), same error code. *)
From H3V Require Import Base.Bytes Base.BytesLemmas Gen.GenCodes Gen.GenDatagram Spec.RFC9000 Spec.RFC9297
  Model.Varint Model.Datagram Model.ChunkedBuf Model.ChunkedVarint Model.ChunkedDatagram
  Proofs.ChunkedBufProofs Proofs.ChunkedVarintProofs Proofs.DatagramProofs.

Theorem dg_decode_buf_flat cs : cb_wf cs ->
  res_flat (dg_decode_buf cs) = dg_decode (concat cs) /\
  (forall s p, dg_decode_buf cs = Ok (s, p) -> cb_wf p).
Proof.
  intros W. destruct (vi_decode_buf_flat cs W) as (A & B & C).
  unfold dg_decode_buf, dg_decode.
  destruct (vi_decode_buf cs) as [rb cb]. destruct (vi_decode (concat cs)) as [rf bf].
  cbn [fst snd] in A, B, C. subst rf bf.
  destruct rb as [q|e|s].
  - destruct (sid_try_from ((q * dec_multiplier) mod 2 ^ 64)) as [sid|].
    + cbn [res_flat]. split; [reflexivity|]. intros s p H. inversion H; subst. exact C.
    + cbn [res_flat]. split; [reflexivity|]. intros s p H. discriminate.
  - cbn [res_flat]. split; [reflexivity|]. intros s p H. discriminate.
  - cbn [res_flat]. split; [reflexivity|]. intros s' p H. discriminate.
Qed.

(* ... hence the RFC 9297 reference decoder on the concatenation, whatever the chunk boundaries *)
Theorem dg_decode_buf_spec cs : cb_wf cs -> wf_bytes (concat cs) ->
  res_flat (dg_decode_buf cs) = match rfc_dg_decode (concat cs) with
                                | Some (s, p) => Ok (s, p)
                                | None => Err H3_DATAGRAM_ERROR_rfc
                                end.
Proof.
  intros W Hwf. destruct (dg_decode_buf_flat cs W) as (A & _). rewrite A. apply dg_decode_spec. exact Hwf.
Qed.
