(* C15: the generated decode tree and encode rows seen as objects over bit strings, and the
   finite facts (T3) that tie them to the RFC 7541 Appendix B table.  Every fact here is a
   vm_compute over the tables themselves. *)
From H3V Require Import Base.Bytes Base.BytesLemmas Gen.GenHuffDec Gen.GenHuffEnc
  Spec.RFC7541Huffman Spec.HuffmanKnown Proofs.C15Finite Proofs.BitsLemmas.
From Coq Require Import ZifyBool ZifyNat ZifyN.
Ltac Zify.zify_post_hook ::= Z.div_mod_to_equations.

Scheme dnode_mut := Induction for dnode Sort Prop
  with dlist_mut := Induction for dlist Sort Prop.

(* ---------- the decode tree walked over a bit string ---------- *)
Inductive wres := WFound (x : N) (rest : bits) | WRunOut | WUnhandled.

Fixpoint twalk (d : dnode) (l : bits) {struct d} : wres :=
  match d with
  | DNode lookup table =>
      let c := N.to_nat lookup in
      if Nat.ltb (length l) c then WRunOut
      else tpick table (N.to_nat (bits_val 0 (firstn c l))) (skipn c l)
  end
with tpick (t : dlist) (i : nat) (rest : bits) {struct t} : wres :=
  match t with
  | DNil => WUnhandled
  | DSym b t' => match i with O => WFound b rest | S i' => tpick t' i' rest end
  | DSub d' t' => match i with O => twalk d' rest | S i' => tpick t' i' rest end
  end.

(* every lookup width of the tree is between 1 and 8 (what read_bits can deliver) *)
Fixpoint lookups_ok (d : dnode) : bool :=
  match d with
  | DNode lookup table => (1 <=? lookup) && (lookup <=? 8) && lookups_ok_l table
  end
with lookups_ok_l (t : dlist) : bool :=
  match t with
  | DNil => true
  | DSym _ t' => lookups_ok_l t'
  | DSub d' t' => lookups_ok d' && lookups_ok_l t'
  end.

(* leaves with their bit paths *)
Fixpoint leaves (d : dnode) : list (bits * N) :=
  match d with
  | DNode lookup table => leaves_l table (N.to_nat lookup) 0
  end
with leaves_l (t : dlist) (c : nat) (i : N) : list (bits * N) :=
  match t with
  | DNil => []
  | DSym b t' => (bits_msb c i, b) :: leaves_l t' c (i + 1)
  | DSub d' t' => map (fun pb => (bits_msb c i ++ fst pb, snd pb)) (leaves d') ++ leaves_l t' c (i + 1)
  end.

Fixpoint bits_eqb (a b : bits) : bool :=
  match a, b with
  | [], [] => true
  | x :: a', y :: b' => Bool.eqb x y && bits_eqb a' b'
  | _, _ => false
  end.

Lemma bits_eqb_eq a : forall b, bits_eqb a b = true -> a = b.
Proof.
  induction a as [|x a IH]; intros [|y b] H; try discriminate; [reflexivity|].
  cbn in H. apply andb_true_iff in H as [H1 H2]. apply Bool.eqb_prop in H1. f_equal; auto.
Qed.

Lemma bits_eqb_refl a : bits_eqb a a = true.
Proof. induction a as [|x a IH]; [reflexivity|]. cbn. rewrite Bool.eqb_reflx, IH. reflexivity. Qed.

Definition wres_eqb (a b : wres) : bool :=
  match a, b with
  | WFound x r, WFound y s => (x =? y) && bits_eqb r s
  | WRunOut, WRunOut => true
  | WUnhandled, WUnhandled => true
  | _, _ => false
  end.

Lemma wres_eqb_eq a b : wres_eqb a b = true -> a = b.
Proof.
  destruct a, b; cbn; intros H; try discriminate; try reflexivity.
  apply andb_true_iff in H as [H1 H2]. apply N.eqb_eq in H1. apply bits_eqb_eq in H2. congruence.
Qed.

(* ---------- T3: finite facts about the generated decode tree ---------- *)

Lemma root_lookups_ok : lookups_ok huff_dec_root = true.
Proof. vm_compute. reflexivity. Qed.

(* walking the code of every octet from the root finds that octet and consumes exactly the code *)
Lemma root_walks_codes_check :
  forall_below 256 (fun x => wres_eqb (twalk huff_dec_root (code_bits x)) (WFound x [])) = true.
Proof. vm_compute. reflexivity. Qed.

Lemma root_walks_codes x : x < 256 -> twalk huff_dec_root (code_bits x) = WFound x [].
Proof.
  intros Hx. apply wres_eqb_eq. exact (forall_below_spec 256 _ root_walks_codes_check x Hx).
Qed.

(* every leaf of the tree is a row of the RFC table: path = code of its symbol, symbol < 256 *)
Lemma root_leaves_check :
  forallb (fun pb => (snd pb <? 256) && bits_eqb (fst pb) (code_bits (snd pb))) (leaves huff_dec_root) = true.
Proof. vm_compute. reflexivity. Qed.

Lemma root_leaves path x : In (path, x) (leaves huff_dec_root) -> x < 256 /\ path = code_bits x.
Proof.
  intros H. pose proof root_leaves_check as C. rewrite forallb_forall in C.
  specialize (C _ H). cbn [fst snd] in C. apply andb_true_iff in C as [C1 C2].
  apply bits_eqb_eq in C2. split; [lia|assumption].
Qed.

Lemma root_leaves_count : length (leaves huff_dec_root) = 256%nat.
Proof. vm_compute. reflexivity. Qed.

(* every octet is a leaf (with T: leaves = RFC rows minus EOS) *)
Lemma root_leaves_complete_check :
  forall_below 256 (fun x => existsb (fun pb => (snd pb =? x) && bits_eqb (fst pb) (code_bits x)) (leaves huff_dec_root)) = true.
Proof. vm_compute. reflexivity. Qed.

(* one bits only: the walk runs out of bits for 0..37 ones and hits the empty EOF table with 38 *)
Lemma root_ones_runout_check :
  forall_below 38 (fun k => wres_eqb (twalk huff_dec_root (repeat true (N.to_nat k))) WRunOut) = true.
Proof. vm_compute. reflexivity. Qed.

Lemma root_ones_runout k : (k <= 37)%nat -> twalk huff_dec_root (repeat true k) = WRunOut.
Proof.
  intros Hk. apply wres_eqb_eq.
  pose proof (forall_below_spec 38 _ root_ones_runout_check (N.of_nat k) ltac:(lia)) as H.
  cbv beta in H. rewrite Nat2N.id in H. exact H.
Qed.

Lemma root_ones_38 : twalk huff_dec_root (repeat true 38) = WUnhandled.
Proof. vm_compute. reflexivity. Qed.

(* ---------- T3: the RFC table itself ---------- *)

Lemma rfc_table_length : length rfc_code_table = 257%nat.
Proof. vm_compute. reflexivity. Qed.

(* code lengths are between 5 and 30 *)
Lemma rfc_code_len_check :
  forallb (fun c => Nat.leb 5 (length c) && Nat.leb (length c) 30) rfc_code_table = true.
Proof. vm_compute. reflexivity. Qed.

Lemma code_bits_len x : x < 257 -> (5 <= length (code_bits x) <= 30)%nat.
Proof.
  intros Hx. pose proof rfc_code_len_check as C. rewrite forallb_forall in C.
  unfold code_bits. specialize (C (nth (N.to_nat x) rfc_code_table [])).
  assert (Hin : In (nth (N.to_nat x) rfc_code_table []) rfc_code_table).
  { apply nth_In. rewrite rfc_table_length. lia. }
  specialize (C Hin). apply andb_true_iff in C as [C1 C2].
  apply Nat.leb_le in C1, C2. lia.
Qed.

(* prefix-free: no code is a prefix of another one (EOS included) *)
Definition prefix_free_b (t : list bits) : bool :=
  forallb (fun i => forallb (fun j => (i =? j) || match strip (nth (N.to_nat i) t []) (nth (N.to_nat j) t []) with
                                                  | Some _ => false | None => true end)
                            (range_from 0 (length t)))
          (range_from 0 (length t)).

Lemma rfc_prefix_free_check : prefix_free_b rfc_code_table = true.
Proof. vm_compute. reflexivity. Qed.

Lemma prefix_free_b_spec t : prefix_free_b t = true ->
  forall i j, i < N.of_nat (length t) -> j < N.of_nat (length t) -> i <> j ->
    strip (nth (N.to_nat i) t []) (nth (N.to_nat j) t []) = None.
Proof.
  unfold prefix_free_b. intros C i j Hi Hj Hne.
  rewrite forallb_forall in C.
  specialize (C i (range_from_In (length t) 0 i ltac:(lia) ltac:(lia))).
  rewrite forallb_forall in C.
  specialize (C j (range_from_In (length t) 0 j ltac:(lia) ltac:(lia))).
  apply orb_true_iff in C as [C|C]; [apply N.eqb_eq in C; contradiction|].
  destruct (strip (nth (N.to_nat i) t []) (nth (N.to_nat j) t [])); [discriminate|reflexivity].
Qed.

Lemma rfc_prefix_free i j r : i < 257 -> j < 257 ->
  code_bits j = code_bits i ++ r -> i = j.
Proof.
  intros Hi Hj H. destruct (N.eq_dec i j) as [E|Hne]; [exact E|exfalso].
  pose proof (prefix_free_b_spec rfc_code_table rfc_prefix_free_check i j) as C.
  rewrite rfc_table_length in C. specialize (C ltac:(lia) ltac:(lia) Hne).
  unfold code_bits in H. rewrite H, strip_app in C. discriminate.
Qed.

(* complete: the Kraft sum of the 257 codes is exactly 1 (scaled by 2^30) *)
Lemma rfc_kraft_complete :
  fold_right (fun c acc => 2 ^ (30 - N.of_nat (length c)) + acc) 0 rfc_code_table = 2 ^ 30.
Proof. vm_compute. reflexivity. Qed.

(* no octet code (rows 0..255) is a prefix of a string of ones: match_code finds nothing in 0..29 ones;
   with 30 ones the only match in the full table is EOS *)
Lemma sym_table_ones_check :
  forall_below 64 (fun k => match match_code sym_code_table 0 (repeat true (N.to_nat k)) with
                            | None => true | Some _ => false end) = true.
Proof. vm_compute. reflexivity. Qed.

Lemma full_table_short_ones_check :
  forall_below 8 (fun k => match match_code rfc_code_table 0 (repeat true (N.to_nat k)) with
                           | None => true | Some _ => false end) = true.
Proof. vm_compute. reflexivity. Qed.

(* ---------- T3: the generated encode rows ---------- *)

(* the bits a row (bit_count, bytes) stands for: 8 bits of each byte, the low bits of the last one *)
Fixpoint row_parts_bits (parts : bytes) (rest : N) : bits :=
  match parts with
  | [] => []
  | p :: ps => let c := if rest <? 8 then rest else 8 in
               bits_msb (N.to_nat c) p ++ row_parts_bits ps (rest - c)
  end.

(* the row has exactly the bytes its bit count needs, and every byte is an octet *)
Fixpoint parts_ok (parts : bytes) (rest : N) : bool :=
  match parts with
  | [] => rest =? 0
  | p :: ps => (0 <? rest) && (p <? 256) && parts_ok ps (rest - (if rest <? 8 then rest else 8))
  end.

Definition enc_row_ok (x : N) : bool :=
  match nth_error huff_enc_rows (N.to_nat x) with
  | Some (bit_count, parts) => parts_ok parts bit_count && bits_eqb (row_parts_bits parts bit_count) (code_bits x)
  | None => false
  end.

Lemma enc_rows_check : forall_below 256 enc_row_ok = true.
Proof. vm_compute. reflexivity. Qed.

Lemma enc_rows_length : length huff_enc_rows = 256%nat.
Proof. vm_compute. reflexivity. Qed.

Lemma enc_row x : x < 256 ->
  exists bit_count parts, nth_error huff_enc_rows (N.to_nat x) = Some (bit_count, parts) /\
    parts_ok parts bit_count = true /\ row_parts_bits parts bit_count = code_bits x.
Proof.
  intros Hx. pose proof (forall_below_spec 256 _ enc_rows_check x Hx) as H. unfold enc_row_ok in H.
  destruct (nth_error huff_enc_rows (N.to_nat x)) as [[bc parts]|]; [|discriminate].
  apply andb_true_iff in H as [H1 H2]. apply bits_eqb_eq in H2. eauto.
Qed.

Lemma pad_tables : pad_right = [0; 1; 3; 7; 15; 31; 63; 127; 255] /\
                   pad_left = [0; 128; 192; 224; 240; 248; 252; 254; 255].
Proof. split; reflexivity. Qed.
