From H3V Require Import Base.Bytes Base.BytesLemmas Gen.GenQuinn Spec.RFC9000 Spec.QuinnApi Spec.AdapterSpec
  Model.Varint Model.QuinnAdapter Proofs.VarintProofs.
From Coq Require Import ZifyBool ZifyNat ZifyN.
Ltac Zify.zify_post_hook ::= Z.div_mod_to_equations.

(* ====================================================================== generated facts used below *)
Lemma fact_guard : send_data_guard = true. Proof. reflexivity. Qed.
Lemma fact_refusal : refusal_error = Err spec_refusal. Proof. reflexivity. Qed.
Lemma fact_advance : poll_ready_advances_by_written = true. Proof. reflexivity. Qed.
Lemma fact_clears : poll_ready_clears_writing = true. Proof. reflexivity. Qed.
Lemma fact_cached : recv_id_cached = true. Proof. reflexivity. Qed.
Lemma fact_puts_back : poll_data_puts_back = true. Proof. reflexivity. Qed.
Lemma fact_puts_back_on_error : poll_data_puts_back_on_error = true. Proof. reflexivity. Qed.
Lemma fact_delivers : poll_data_delivers_stop = true. Proof. reflexivity. Qed.
Lemma fact_defers : stop_sending_defers = true. Proof. reflexivity. Qed.
Lemma fact_saturates : reset_saturates = true. Proof. reflexivity. Qed.
Lemma fact_poll_send_guard : poll_send_guard = true. Proof. reflexivity. Qed.
Lemma fact_finish_drains : poll_finish_drains = true. Proof. reflexivity. Qed.
Lemma fact_gives_up : poll_ready_gives_up_on_error = true. Proof. reflexivity. Qed.
Lemma fact_reset_memo : poll_data_reset_memo = true. Proof. reflexivity. Qed.
Lemma fact_sites : forall site, In site [site_conn_close; site_conn_opener; site_conn_poll_accept_bidi; site_conn_poll_accept_recv;
    site_conn_poll_open_bidi; site_conn_poll_open_send; site_opener_clone; site_opener_close;
    site_opener_poll_open_bidi; site_opener_poll_open_send] -> assoc site site_converts = Some true.
Proof. intros site H. cbn in H. repeat (destruct H as [H|H]; [subst; reflexivity|]). contradiction. Qed.

(* ====================================================================== T3: conversion tables *)

Lemma convert_connection_error_spec e : convert_connection_error e = Ok (spec_conn_class e).
Proof. destruct e; reflexivity. Qed.

Lemma convert_write_error_spec e : convert_write_error e = Ok (spec_write_class e).
Proof. destruct e as [c|ce| |]; try reflexivity. destruct ce; reflexivity. Qed.

Lemma convert_read_error_spec e :
  convert_read_error e = match spec_read_class e with Some c => Ok c | None => Panic 33 end.
Proof. destruct e as [c|ce| | |]; try reflexivity. destruct ce; reflexivity. Qed.

Lemma convert_h3_error_to_datagram_error_id c : convert_h3_error_to_datagram_error c = Ok c.
Proof. destruct c; reflexivity. Qed.

Lemma convert_send_datagram_error_spec e : convert_send_datagram_error e = Ok (spec_dgram_class e).
Proof. destruct e as [| | |ce]; try reflexivity. destruct ce; reflexivity. Qed.

(* the datagram Quinn is given is the whole encoded datagram; errors by class *)
Lemma send_datagram_spec view a :
  send_datagram view a = match a with None => Ok view | Some e => Err (spec_dgram_class e) end.
Proof. unfold send_datagram. destruct a as [e|]; [rewrite convert_send_datagram_error_spec|]; reflexivity. Qed.

Lemma poll_incoming_datagram_spec a :
  poll_incoming_datagram a =
    match a with
    | Pending => Pending
    | Ready (Ok b) => Ready (Ok b)
    | Ready (Err e) => Ready (Err (spec_conn_class e))
    | Ready (Panic p) => Ready (Panic p)
    end.
Proof. destruct a as [[b|e|p]|]; try reflexivity. cbn. rewrite convert_connection_error_spec. reflexivity. Qed.

Lemma read_class_none_iff e : spec_read_class e = None <-> e = QRIllegalOrderedRead.
Proof. destruct e; cbn; split; intros H; congruence. Qed.

(* the peer's code is preserved, spelled out *)
Lemma codes_preserved c :
  convert_connection_error (QApplicationClosed c) = Ok (HApplicationClose c) /\
  convert_connection_error QTimedOut = Ok HTimeout /\
  convert_read_error (QRReset c) = Ok (HStreamTerminated c) /\
  convert_write_error (QWStopped c) = Ok (HStreamTerminated c) /\
  convert_read_error (QRConnectionLost (QApplicationClosed c)) = Ok (HConnErr (HApplicationClose c)) /\
  convert_write_error (QWConnectionLost (QApplicationClosed c)) = Ok (HConnErr (HApplicationClose c)) /\
  convert_read_error (QRConnectionLost QTimedOut) = Ok (HConnErr HTimeout) /\
  convert_write_error (QWConnectionLost QTimedOut) = Ok (HConnErr HTimeout).
Proof. repeat split; reflexivity. Qed.

(* ====================================================================== the buffer *)

Definition nonempty_chunks (p : list bytes) : Prop := Forall (fun c => c <> []) p.

Lemma len_nil_iff (l : bytes) : len l = 0 <-> l = [].
Proof. unfold len. destruct l; cbn; split; intros; try congruence; lia. Qed.

Lemma skipn_app_le {A} n (a b : list A) : (n <= length a)%nat -> skipn n (a ++ b) = skipn n a ++ b.
Proof. intros H. rewrite skipn_app. replace (n - length a)%nat with 0%nat by lia. reflexivity. Qed.

Lemma skipn_app_ge {A} n (a b : list A) : (length a <= n)%nat -> skipn n (a ++ b) = skipn (n - length a) b.
Proof. intros H. rewrite skipn_app. rewrite skipn_all2 by lia. reflexivity. Qed.

Lemma firstn_app_le {A} n (a b : list A) : (n <= length a)%nat -> firstn n (a ++ b) = firstn n a.
Proof. intros H. rewrite firstn_app. replace (n - length a)%nat with 0%nat by lia. cbn. apply app_nil_r. Qed.

Lemma wb_advance_ok n b :
  n <= len (wb_view b) ->
  exists b', wb_advance n b = Some b' /\ wb_view b' = skipn (N.to_nat n) (wb_view b).
Proof.
  unfold wb_view. revert n. induction b as [|c r IH]; intros n Hn.
  - cbn in Hn. unfold len in Hn. cbn in Hn. assert (Hz : n = 0) by lia. subst. exists []. split; reflexivity.
  - cbn [wb_advance concat] in *. rewrite len_app in Hn.
    destruct (N.ltb_spec n (len c)) as [Hlt|Hge].
    + exists (skipn (N.to_nat n) c :: r). split; [reflexivity|].
      cbn [concat]. rewrite skipn_app_le; [reflexivity|]. unfold len in Hlt. lia.
    + destruct (IH (n - len c)) as (b' & H1 & H2); [lia|].
      exists b'. split; [exact H1|]. rewrite H2.
      rewrite skipn_app_ge by (unfold len in Hge; lia). f_equal. unfold len. lia.
Qed.

Lemma wb_advance_nonempty n b b' :
  nonempty_chunks b -> wb_advance n b = Some b' -> nonempty_chunks b'.
Proof.
  revert n b'. induction b as [|c r IH]; intros n b' Hne H.
  - cbn in H. destruct (n =? 0); inversion H. constructor.
  - inversion Hne as [|? ? Hc Hr]; subst. cbn [wb_advance] in H.
    destruct (N.ltb_spec n (len c)) as [Hlt|Hge].
    + inversion H; subst. constructor; [|exact Hr].
      intros E. apply (f_equal (@length N)) in E. rewrite skipn_length in E. unfold len in Hlt. cbn in E. lia.
    + eapply IH; eauto.
Qed.

Lemma has_remaining_false b : wb_has_remaining b = false -> wb_view b = [].
Proof.
  unfold wb_has_remaining. intros H. apply len_nil_iff. destruct (N.eqb_spec (len (wb_view b)) 0); [assumption|discriminate].
Qed.

Lemma has_remaining_true b : wb_has_remaining b = true -> 0 < len (wb_view b).
Proof. unfold wb_has_remaining. intros H. destruct (N.eqb_spec (len (wb_view b)) 0); [discriminate|lia]. Qed.

Lemma chunk_prefix b : exists rest, wb_view b = wb_chunk b ++ rest.
Proof. destruct b as [|c r]; [exists []; reflexivity|exists (concat r); reflexivity]. Qed.

Lemma chunk_nonempty b : nonempty_chunks b -> wb_has_remaining b = true -> wb_chunk b <> [].
Proof.
  intros Hne Hr. apply has_remaining_true in Hr. destruct b as [|c r].
  - cbn in Hr. unfold len in Hr. cbn in Hr. lia.
  - inversion Hne; assumption.
Qed.

(* ====================================================================== T1: the write loop *)

Definition view_opt (w : option wbuf) : bytes := match w with Some d => wb_view d | None => [] end.

Definition not_panic {E A} (r : res E A) : Prop := match r with Panic _ => False | _ => True end.
Definition poll_not_panic {E A} (p : poll (res E A)) : Prop := match p with Ready r => not_panic r | Pending => True end.

Lemma of_conv_write_not_panic {A} e : not_panic (@of_conv A (convert_write_error e)).
Proof. rewrite convert_write_error_spec. exact I. Qed.

(* a poll that reports an error (for poll_ready: Quinn refused a write - the rest of the buffer is given up) *)
Definition poll_failed {A} (p : poll (sres A)) : Prop := match p with Ready (Err _) => True | _ => False end.

(* every oracle: whatever Quinn answers, what it has been handed plus what is still waiting is unchanged,
   in order - until Quinn fails a write: then the rest of the buffer is given up (`writing = None`) and what Quinn
   took before stays; "ready" means nothing is waiting *)
Lemma write_loop_exact o : forall q data r q' w' o',
  write_loop o q data = (r, q', w', o') ->
  (~ poll_failed r -> qs_log q' ++ view_opt w' = qs_log q ++ wb_view data) /\
  (exists rest, qs_log q' ++ view_opt w' ++ rest = qs_log q ++ wb_view data) /\
  (poll_failed r -> w' = None) /\
  qs_id q' = qs_id q /\ qs_finished q' = qs_finished q /\ qs_reset q' = qs_reset q /\
  poll_not_panic r /\
  (r = Ready (Ok tt) -> w' = None) /\
  (r = Pending -> exists d, w' = Some d /\ wb_has_remaining d = true) /\
  (exists used, o = used ++ o').
Proof.
  induction o as [|a o IH]; intros q data r q' w' o' H.
  - cbn [write_loop] in H. destruct (wb_has_remaining data) eqn:Hrem.
    + inversion H; subst. cbn [view_opt poll_failed]. repeat split; auto; try discriminate; try contradiction.
      * exists []. rewrite app_nil_r. reflexivity.
      * intros _. exists data. auto.
      * exists []. reflexivity.
    + rewrite fact_clears in H. inversion H; subst. cbn [view_opt poll_failed]. rewrite (has_remaining_false _ Hrem).
      repeat split; auto; try (intros C; congruence); try contradiction.
      * exists []. reflexivity.
      * exists []. reflexivity.
  - cbn [write_loop] in H. destruct (wb_has_remaining data) eqn:Hrem.
    + destruct a as [k| |e].
      * rewrite fact_advance in H.
        set (c := wb_chunk data) in *. set (w := N.min k (len c)) in *.
        destruct (chunk_prefix data) as (rest & Hview). fold c in Hview.
        assert (Hw : w <= len (wb_view data)) by (rewrite Hview, len_app; unfold w; lia).
        destruct (wb_advance_ok w data Hw) as (d' & Hadv & Hv'). rewrite Hadv in H.
        destruct (IH _ _ _ _ _ _ H) as (E0 & (rest0 & E1) & EF & E2 & E3 & E4 & E5 & E6 & E7 & (used & E8)).
        cbn [q_accept qs_log qs_id qs_finished qs_reset] in *.
        assert (Hf : firstn (N.to_nat w) c = firstn (N.to_nat w) (wb_view data)).
        { rewrite Hview. rewrite firstn_app_le; [reflexivity|]. unfold w, len. lia. }
        assert (Hcut : (qs_log q ++ firstn (N.to_nat w) c) ++ wb_view d' = qs_log q ++ wb_view data).
        { rewrite Hv'. rewrite <- app_assoc. f_equal. rewrite Hf. apply firstn_skipn. }
        repeat split; auto.
        -- intros Hnf. rewrite (E0 Hnf). exact Hcut.
        -- exists rest0. rewrite E1. exact Hcut.
        -- exists (WAccept k :: used). rewrite E8. reflexivity.
      * inversion H; subst. cbn [view_opt poll_failed]. repeat split; auto; try discriminate; try contradiction.
        -- exists []. rewrite app_nil_r. reflexivity.
        -- intros _. exists data. auto.
        -- exists [WBlocked]. reflexivity.
      * rewrite fact_gives_up in H. inversion H; subst. cbn [view_opt]. rewrite convert_write_error_spec. cbn [of_conv poll_failed].
        repeat split; auto; try discriminate.
        -- intros C. exfalso. apply C. exact I.
        -- exists (wb_view data). reflexivity.
        -- exists [WFail e]. reflexivity.
    + rewrite fact_clears in H. inversion H; subst. cbn [view_opt poll_failed]. rewrite (has_remaining_false _ Hrem).
      repeat split; auto; try (intros C; congruence); try contradiction.
      * exists []. reflexivity.
      * exists []. reflexivity.
Qed.

Lemma poll_ready_exact o s r s' o' :
  poll_ready o s = (r, s', o') ->
  (~ poll_failed r -> qs_log (s_q s') ++ view_opt (s_writing s') = qs_log (s_q s) ++ view_opt (s_writing s)) /\
  qs_id (s_q s') = qs_id (s_q s) /\ qs_finished (s_q s') = qs_finished (s_q s) /\ qs_reset (s_q s') = qs_reset (s_q s) /\
  poll_not_panic r /\
  (r = Ready (Ok tt) -> s_writing s' = None) /\
  (exists used, o = used ++ o') /\
  (exists rest, qs_log (s_q s') ++ view_opt (s_writing s') ++ rest = qs_log (s_q s) ++ view_opt (s_writing s)) /\
  (poll_failed r -> s_writing s' = None).
Proof.
  unfold poll_ready. destruct (s_writing s) as [data|] eqn:Hw.
  - destruct (write_loop o (s_q s) data) as [[[r0 q0] w0] o0] eqn:HL. intros H. inversion H; subst. cbn [s_q s_writing].
    destruct (write_loop_exact _ _ _ _ _ _ _ HL) as (E0 & E1 & EF & E2 & E3 & E4 & E5 & E6 & _ & E8).
    cbn [view_opt]. repeat split; auto.
  - intros H. inversion H; subst. rewrite Hw. cbn [poll_failed view_opt]. repeat split; auto; try contradiction.
    + exists []. reflexivity.
    + exists []. rewrite !app_nil_r. reflexivity.
Qed.

(* a poll_ready that reports an error has consumed a failing answer of Quinn, and reports it in its class *)
Lemma poll_ready_error_source o s e s' o' :
  poll_ready o s = (Ready (Err e), s', o') ->
  exists qe used, o = used ++ WFail qe :: o' /\ e = spec_write_class qe.
Proof.
  intros H. unfold poll_ready in H. destruct (s_writing s) as [data|]; [|discriminate].
  destruct (write_loop o (s_q s) data) as [[[r0 q0] w0] o0] eqn:HL. inversion H; subst r0 o0. clear H.
  revert data HL. generalize (s_q s). induction o as [|a o IH]; intros q data HL.
  - cbn [write_loop] in HL. destruct (wb_has_remaining data); [discriminate|]. destruct poll_ready_clears_writing; discriminate.
  - cbn [write_loop] in HL. destruct (wb_has_remaining data); [|destruct poll_ready_clears_writing; discriminate].
    destruct a as [k| |qe].
    + destruct (wb_advance _ data) as [d'|]; [|discriminate].
      destruct (IH _ _ HL) as (qe & used & Hu & He). exists qe, (WAccept k :: used). rewrite Hu. split; [reflexivity|exact He].
    + discriminate.
    + rewrite convert_write_error_spec in HL. cbn [of_conv] in HL. inversion HL; subst. exists qe, []. split; reflexivity.
Qed.

Lemma write_class_not_finish qe : spec_write_class qe <> HUnknownFinish.
Proof. destruct qe; discriminate. Qed.

(* SendStreamUnframed::poll_send.  While a framed write is unfinished it is refused (the Rust panics) and
   touches nothing: the raw bytes are never interleaved with the buffer in flight. *)
Lemma poll_send_refused o buf d s :
  s_writing s = Some d -> poll_send o buf s = (Ready (Panic 41), s, buf, o).
Proof. intros H. unfold poll_send, poll_send_with. rewrite H, fact_poll_send_guard. reflexivity. Qed.

(* the bytes of the caller's buffer that a poll_send result reports as written *)
Definition raw_of (r : poll (sres N)) (buf : wbuf) : bytes :=
  match r with Ready (Ok k) => firstn (N.to_nat k) (wb_view buf) | _ => [] end.

(* With no write pending: whatever Quinn answers, a prefix of the caller's buffer is handed over and the
   buffer is advanced by exactly the count reported; no panic *)
Lemma poll_send_exact o buf s r s' buf' o' :
  s_writing s = None ->
  poll_send o buf s = (r, s', buf', o') ->
  qs_log (s_q s') ++ wb_view buf' = qs_log (s_q s) ++ wb_view buf /\
  s_writing s' = None /\ qs_id (s_q s') = qs_id (s_q s) /\
  poll_not_panic r /\
  (forall k, r = Ready (Ok k) -> len (wb_view buf') + k = len (wb_view buf)) /\
  qs_log (s_q s') = qs_log (s_q s) ++ raw_of r buf /\
  (exists used, o = used ++ o').
Proof.
  intros Hw H. unfold poll_send, poll_send_with in H. rewrite Hw in H.
  destruct o as [|[k| |e] o1].
  - inversion H; subst. cbn [raw_of]. rewrite app_nil_r. repeat split; auto. intros k E. discriminate. exists []. reflexivity.
  - set (c := wb_chunk buf) in *. set (w := N.min k (len c)) in *.
    destruct (chunk_prefix buf) as (rest & Hview). fold c in Hview.
    assert (Hwle : w <= len (wb_view buf)) by (rewrite Hview, len_app; unfold w; lia).
    destruct (wb_advance_ok w buf Hwle) as (b' & Hadv & Hv'). rewrite Hadv in H. inversion H; subst.
    cbn [s_q s_writing q_accept qs_log qs_id raw_of].
    assert (Hf : firstn (N.to_nat w) c = firstn (N.to_nat w) (wb_view buf)).
    { rewrite Hview. rewrite firstn_app_le; [reflexivity|]. unfold w, len. lia. }
    repeat split; auto.
    + rewrite Hv'. rewrite <- app_assoc. f_equal. rewrite Hf. apply firstn_skipn.
    + intros k0 E. inversion E; subst k0. rewrite Hv'. unfold len. rewrite skipn_length. unfold len in Hwle. lia.
    + rewrite Hf. reflexivity.
    + exists [WAccept k]. reflexivity.
  - inversion H; subst. cbn [raw_of]. rewrite app_nil_r. repeat split; auto. intros k E. discriminate. exists [WBlocked]. reflexivity.
  - inversion H; subst. cbn [raw_of].
    assert (Hnp : poll_not_panic (Ready (@of_conv N (convert_write_error e)))) by apply (@of_conv_write_not_panic N).
    assert (Hne : forall k, Ready (@of_conv N (convert_write_error e)) <> Ready (Ok k)).
    { intros k E. rewrite convert_write_error_spec in E. discriminate. }
    rewrite convert_write_error_spec in *. cbn [of_conv raw_of] in *. rewrite app_nil_r.
    repeat split; auto. intros k E. exfalso. exact (Hne k E). exists [WFail e]. reflexivity.
Qed.

(* poll_finish: a pending write is drained first; finish() itself touches neither the log nor `writing` *)
Lemma q_finish_exact s r s' :
  q_finish s = (r, s') ->
  qs_log (s_q s') = qs_log (s_q s) /\ s_writing s' = s_writing s /\ qs_id (s_q s') = qs_id (s_q s) /\ poll_not_panic r /\
  (r = Ready (Ok tt) -> qs_finished (s_q s') = true).
Proof.
  unfold q_finish. destruct (qs_finished (s_q s) || match qs_reset (s_q s) with Some _ => true | None => false end);
    intros H; inversion H; subst; cbn; repeat split; auto; discriminate.
Qed.

Lemma poll_finish_exact o s r s' o' :
  poll_finish o s = (r, s', o') ->
  (~ poll_failed r \/ r = Ready (Err HUnknownFinish) ->
   qs_log (s_q s') ++ view_opt (s_writing s') = qs_log (s_q s) ++ view_opt (s_writing s)) /\
  qs_id (s_q s') = qs_id (s_q s) /\
  poll_not_panic r /\
  (r = Ready (Ok tt) -> s_writing s' = None /\ qs_finished (s_q s') = true) /\
  (exists used, o = used ++ o') /\
  (* any other error is a write error met while draining `writing`: poll_ready's own answer *)
  (poll_failed r -> r <> Ready (Err HUnknownFinish) -> exists e, r = Ready (Err e) /\ poll_ready o s = (Ready (Err e), s', o')).
Proof.
  unfold poll_finish, poll_finish_with. rewrite fact_finish_drains.
  destruct (s_writing s) as [d|] eqn:Hw.
  - destruct (poll_ready o s) as [[r1 s1] o1] eqn:HP.
    destruct (poll_ready_exact _ _ _ _ _ HP) as (E1 & E2 & _ & _ & E5 & E6 & E7 & _ & _).
    destruct r1 as [[[]|e|p]|].
    + destruct (q_finish s1) as [r2 s2] eqn:HF. intros H. inversion H; subst.
      destruct (q_finish_exact _ _ _ HF) as (F1 & F2 & F3 & F4 & F5).
      rewrite F1, F2, F3. split; [intros _; rewrite E1, Hw by (cbn; tauto); reflexivity|]. split; [exact E2|]. split; [exact F4|].
      split; [|split; [exact E7|]].
      * intros Hr. split; [apply E6; reflexivity|apply F5; exact Hr].
      * intros Hf Hne. exfalso. unfold q_finish in HF.
        destruct (qs_finished (s_q s1) || match qs_reset (s_q s1) with Some _ => true | None => false end);
          inversion HF; subst; [apply Hne; reflexivity|exact Hf].
    + intros H. inversion H; subst. cbn [poll_failed].
      destruct (poll_ready_error_source _ _ _ _ _ HP) as (qe & used & Hu & He).
      split.
      * intros [C|C]; [exfalso; apply C; exact I|]. inversion C as [C1]. exfalso. subst e. exact (write_class_not_finish qe C1).
      * repeat split; auto; try discriminate. intros _ _. exists e. split; reflexivity.
    + intros H. inversion H; subst. rewrite Hw in E1. cbn [poll_failed] in *.
      repeat split; auto; try discriminate; try contradiction; try (intros _; apply E1; tauto).
    + intros H. inversion H; subst. rewrite Hw in E1. cbn [poll_failed] in *.
      repeat split; auto; try discriminate; try contradiction; try (intros _; apply E1; tauto).
  - destruct (q_finish s) as [r2 s2] eqn:HF. intros H. inversion H; subst.
    destruct (q_finish_exact _ _ _ HF) as (F1 & F2 & F3 & F4 & F5).
    rewrite F1, F2, F3, Hw. repeat split; auto.
    + exists []. reflexivity.
    + intros Hf Hne. exfalso. unfold q_finish in HF.
      destruct (qs_finished (s_q s) || match qs_reset (s_q s) with Some _ => true | None => false end);
        inversion HF; subst; [apply Hne; reflexivity|exact Hf].
Qed.

(* T1c: an overlapping send_data is refused and touches nothing *)
Lemma send_data_refused b d s :
  s_writing s = Some d -> send_data b s = (Err spec_refusal, s).
Proof. intros H. unfold send_data, send_data_with. rewrite H, fact_guard, fact_refusal. reflexivity. Qed.

Lemma send_data_accepted b s :
  s_writing s = None -> send_data b s = (Ok tt, {| s_q := s_q s; s_writing := Some b |}).
Proof. intros H. unfold send_data, send_data_with. rewrite H. reflexivity. Qed.

(* abstraction of a model trace into the specification's events *)
Definition abs_send (ev : send_op * send_result) : send_event :=
  match ev with
  | (OSendData b, SRUnit (Ok _)) => EvAccepted b
  | (OSendData _, _) => EvRefused
  | (OPollSend buf, SRSend (Ready (Ok k))) => EvRaw (firstn (N.to_nat k) (wb_view buf))
  | (OPollSend _, SRSend (Ready (Panic _))) => EvRefused
  | _ => EvSendOther
  end.

(* no call panics, with ONE deliberate exception: poll_send issued while a framed write is unfinished is
   refused by the Rust `panic!` (site 41, see poll_send_refused) *)
Definition send_ev_ok (ev : send_op * send_result) : Prop :=
  match snd ev with
  | SRUnit r => not_panic r
  | SRPoll p => poll_not_panic p
  | SRId r => not_panic r
  | SRNone r => not_panic r
  | SRSend (Ready (Panic p)) => p = 41
  | SRSend _ => True
  end.

Lemma send_id_ok s : qs_id (s_q s) <= varint_max -> send_id s = Ok (qs_id (s_q s)).
Proof.
  intros H. unfold send_id. rewrite sid_try_from_spec. unfold varint_max in H.
  destruct (N.ltb_spec (qs_id (s_q s)) (2 ^ 62)); [reflexivity|lia].
Qed.

(* a poll_ready / poll_finish that reported an error: the only events after which the exact account below stops
   (the rest of the buffer in flight has been given up) *)
Definition no_write_failure (ev : send_op * send_result) : Prop :=
  match ev with
  | (OPollReady, SRPoll p) => ~ poll_failed p
  | (OPollFinish, SRPoll p) => ~ poll_failed p \/ p = Ready (Err HUnknownFinish)   (* finish() itself failing loses nothing *)
  | _ => True
  end.

Lemma send_step_exact op s o r s' o' :
  send_step op s o = (r, s', o') ->
  (no_write_failure (op, r) ->
   qs_log (s_q s') ++ view_opt (s_writing s') =
    (qs_log (s_q s) ++ view_opt (s_writing s)) ++ spec_handed [abs_send (op, r)]) /\
  qs_id (s_q s') = qs_id (s_q s) /\
  (qs_id (s_q s) <= varint_max -> send_ev_ok (op, r)) /\
  (exists used, o = used ++ o').
Proof.
  destruct op as [b| | |c| |buf]; cbn [send_step]; intros H.
  6: {
    destruct (s_writing s) as [d|] eqn:Hw.
    - rewrite (poll_send_refused o buf d s Hw) in H. inversion H; subst. cbn [abs_send spec_handed].
      rewrite app_nil_r, ?Hw. split; [reflexivity|]. split; [reflexivity|]. split; [intros _; reflexivity|].
      exists []. reflexivity.
    - destruct (poll_send o buf s) as [[[r0 s0] b0] o0] eqn:HP. inversion H; subst.
      destruct (poll_send_exact _ _ _ _ _ _ _ Hw HP) as (_ & E2 & E3 & E4 & _ & E6 & E7).
      rewrite E2. cbn [view_opt]. rewrite !app_nil_r. rewrite E6.
      split.
      + intros _. f_equal. destruct r0 as [[k|e|p]|]; cbn [raw_of abs_send spec_handed]; rewrite ?app_nil_r; reflexivity.
      + split; [exact E3|]. split; [|exact E7]. intros _. unfold send_ev_ok. cbn [snd].
        destruct r0 as [[k|e|p]|]; auto. cbn in E4. contradiction. }
  - destruct (s_writing s) as [d|] eqn:Hw.
    + rewrite (send_data_refused b d s Hw) in H. inversion H; subst. cbn [no_write_failure]. cbn. rewrite app_nil_r, ?Hw. cbn [view_opt].
      repeat split; auto. exists []. reflexivity.
    + rewrite (send_data_accepted b s Hw) in H. inversion H; subst. cbn [s_q s_writing view_opt abs_send spec_handed].
      rewrite ?Hw. cbn [view_opt]. rewrite !app_nil_r. unfold wb_view.
      repeat split; auto. exists []. reflexivity.
  - destruct (poll_ready o s) as [[r0 s0] o0] eqn:HP. inversion H; subst.
    destruct (poll_ready_exact _ _ _ _ _ HP) as (E1 & E2 & _ & _ & E5 & _ & E7 & _ & _).
    cbn [abs_send spec_handed no_write_failure]. rewrite app_nil_r. repeat split; auto.
  - destruct (poll_finish o s) as [[r0 s0] o0] eqn:HP. inversion H; subst.
    destruct (poll_finish_exact _ _ _ _ _ HP) as (E1 & E2 & E3 & _ & E5 & _).
    cbn [abs_send spec_handed no_write_failure]. rewrite app_nil_r. repeat split; auto.
  - unfold send_reset, reset_code in H. rewrite fact_saturates in H.
    destruct (c <=? varint_max); inversion H; subst; cbn; rewrite app_nil_r; repeat split; auto; exists []; reflexivity.
  - inversion H; subst. cbn [abs_send spec_handed]. rewrite app_nil_r. repeat split; auto.
    + intros Hid. unfold send_ev_ok. cbn [snd]. rewrite send_id_ok by assumption. exact I.
    + exists []. reflexivity.
Qed.

Lemma spec_handed_app a b : spec_handed (a ++ b) = spec_handed a ++ spec_handed b.
Proof.
  induction a as [|e a IH]; [reflexivity|]. cbn [app spec_handed]. destruct e; rewrite IH; try reflexivity; apply app_assoc.
Qed.

(* T1a: for every program and every oracle *)
Lemma send_run_exact ops : forall s o tr s' o',
  send_run ops s o = (tr, s', o') ->
  (Forall no_write_failure tr ->
   qs_log (s_q s') ++ view_opt (s_writing s') =
    (qs_log (s_q s) ++ view_opt (s_writing s)) ++ spec_handed (map abs_send tr)) /\
  qs_id (s_q s') = qs_id (s_q s) /\
  (qs_id (s_q s) <= varint_max -> Forall send_ev_ok tr) /\
  map fst tr = ops.
Proof.
  induction ops as [|op ops IH]; intros s o tr s' o' H.
  - cbn in H. inversion H; subst. cbn. rewrite app_nil_r. repeat split; auto.
  - cbn [send_run] in H. destruct (send_step op s o) as [[r s1] o1] eqn:HS.
    destruct (send_run ops s1 o1) as [[tr1 s2] o2] eqn:HR. inversion H; subst.
    destruct (send_step_exact _ _ _ _ _ _ HS) as (E1 & E2 & E3 & _).
    destruct (IH _ _ _ _ _ HR) as (F1 & F2 & F3 & F4).
    repeat split.
    + intros Hnf. rewrite F1 by (exact (Forall_inv_tail Hnf)). rewrite E1 by (exact (Forall_inv Hnf)).
      cbn [map]. change (abs_send (op, r) :: map abs_send tr1) with ([abs_send (op, r)] ++ map abs_send tr1).
      rewrite spec_handed_app. rewrite !app_assoc. reflexivity.
    + congruence.
    + intros Hid. constructor; [apply E3; assumption|]. apply F3. rewrite E2. assumption.
    + cbn [map fst]. rewrite F4. reflexivity.
Qed.

(* T1b: completion.  When the last step of a program is a poll_ready that answered Ready(Ok), Quinn has
   been handed exactly the accepted buffers *)
Lemma send_run_complete ops s o tr s' o' :
  send_run (ops ++ [OPollReady]) s o = (tr, s', o') ->
  (exists tr0, tr = tr0 ++ [(OPollReady, SRPoll (Ready (Ok tt)))]) ->
  Forall no_write_failure tr ->
  s_writing s' = None /\
  qs_log (s_q s') = (qs_log (s_q s) ++ view_opt (s_writing s)) ++ spec_handed (map abs_send tr).
Proof.
  intros H (tr0 & Htr) Hnf.
  assert (Hsplit : forall ops1 ops2 s o,
    send_run (ops1 ++ ops2) s o =
      let '(t1, s1, o1) := send_run ops1 s o in let '(t2, s2, o2) := send_run ops2 s1 o1 in (t1 ++ t2, s2, o2)).
  { clear. induction ops1 as [|op ops1 IH]; intros ops2 s o.
    - cbn. destruct (send_run ops2 s o) as [[t2 s2] o2]. reflexivity.
    - cbn [app send_run]. destruct (send_step op s o) as [[r s1] o1]. rewrite IH.
      destruct (send_run ops1 s1 o1) as [[t1 s2] o2]. destruct (send_run ops2 s2 o2) as [[t2 s3] o3]. reflexivity. }
  pose proof (send_run_exact _ _ _ _ _ _ H) as (E1 & _ & _ & _). specialize (E1 Hnf).
  rewrite Hsplit in H. destruct (send_run ops s o) as [[t1 s1] o1] eqn:H1.
  cbn [send_run send_step] in H. destruct (poll_ready o1 s1) as [[r2 s2] o2] eqn:HP.
  injection H as Htr' Hs' Ho'. subst s2 o2.
  rewrite Htr in Htr'. apply app_inj_tail in Htr'. destruct Htr' as [_ Heq]. injection Heq as Hr. subst r2.
  destruct (poll_ready_exact _ _ _ _ _ HP) as (_ & _ & _ & _ & _ & E6 & _ & _ & _).
  specialize (E6 eq_refl). split; [exact E6|]. rewrite E6 in E1. cbn [view_opt] in E1. rewrite app_nil_r in E1. exact E1.
Qed.

(* ---------------------------------------------------------------------- progress *)

Fixpoint count_pos (o : list wanswer) : N :=
  match o with
  | [] => 0
  | WAccept k :: r => (if 0 <? k then 1 else 0) + count_pos r
  | _ :: r => count_pos r
  end.
Definition no_fail (o : list wanswer) : Prop := Forall (fun a => match a with WFail _ => False | _ => True end) o.

Lemma write_loop_progress o : forall q data,
  nonempty_chunks data -> no_fail o -> len (wb_view data) <= count_pos o ->
  exists r q' w' o', write_loop o q data = (r, q', w', o') /\
    ((r = Ready (Ok tt) /\ w' = None /\ qs_log q' = qs_log q ++ wb_view data) \/
     (r = Pending /\ exists d, w' = Some d /\ nonempty_chunks d /\ no_fail o' /\
        len (wb_view d) <= count_pos o' /\ 0 < len (wb_view d) /\ (length o' < length o)%nat /\
        qs_log q' ++ wb_view d = qs_log q ++ wb_view data)).
Proof.
  induction o as [|a o IH]; intros q data Hne Hnf Hcnt.
  - cbn [write_loop count_pos] in *. destruct (wb_has_remaining data) eqn:Hrem.
    + apply has_remaining_true in Hrem. lia.
    + rewrite fact_clears. do 4 eexists. split; [reflexivity|]. left.
      rewrite (has_remaining_false _ Hrem), app_nil_r. auto.
  - cbn [write_loop]. destruct (wb_has_remaining data) eqn:Hrem.
    + inversion Hnf as [|? ? Ha Hnf']; subst.
      destruct a as [k| |e]; [| |contradiction].
      * rewrite fact_advance.
        set (c := wb_chunk data) in *. set (w := N.min k (len c)) in *.
        destruct (chunk_prefix data) as (rest & Hview). fold c in Hview.
        assert (Hw : w <= len (wb_view data)) by (rewrite Hview, len_app; unfold w; lia).
        destruct (wb_advance_ok w data Hw) as (d' & Hadv & Hv'). rewrite Hadv.
        assert (Hc : c <> []) by (apply chunk_nonempty; assumption).
        assert (Hclen : 0 < len c) by (destruct c; [congruence|unfold len; cbn; lia]).
        cbn [count_pos] in Hcnt.
        assert (Hlen' : len (wb_view d') = len (wb_view data) - w).
        { rewrite Hv'. unfold len. rewrite skipn_length. lia. }
        assert (Hcnt' : len (wb_view d') <= count_pos o).
        { rewrite Hlen'. destruct (N.ltb_spec 0 k); unfold w; lia. }
        destruct (IH (q_accept q (firstn (N.to_nat w) c)) d' (wb_advance_nonempty _ _ _ Hne Hadv) Hnf' Hcnt')
          as (r & q' & w' & o' & HL & Hcase).
        exists r, q', w', o'. split; [exact HL|].
        assert (Hlog : (qs_log q ++ firstn (N.to_nat w) c) ++ wb_view d' = qs_log q ++ wb_view data).
        { rewrite Hv'. rewrite <- app_assoc. f_equal.
          assert (Hf : firstn (N.to_nat w) c = firstn (N.to_nat w) (wb_view data)).
          { rewrite Hview. rewrite firstn_app_le; [reflexivity|]. unfold w, len. lia. }
          rewrite Hf. apply firstn_skipn. }
        destruct Hcase as [(R1 & R2 & R3)|(R1 & d & R2 & R3 & R4 & R5 & R6 & R7 & R8)].
        -- left. repeat split; auto. rewrite R3. cbn [q_accept qs_log]. exact Hlog.
        -- right. split; [exact R1|]. exists d. repeat split; auto.
           ++ cbn [length]. lia.
           ++ rewrite R8. cbn [q_accept qs_log]. exact Hlog.
      * do 4 eexists. split; [reflexivity|]. right. split; [reflexivity|]. exists data.
        cbn [count_pos] in Hcnt. repeat split; auto. apply has_remaining_true; assumption.
    + rewrite fact_clears. do 4 eexists. split; [reflexivity|]. left.
      rewrite (has_remaining_false _ Hrem), app_nil_r. auto.
Qed.

(* T1d: whatever the sizes Quinn accepts and wherever it blocks, as long as it does not fail and
   eventually accepts enough, polling to completion hands over exactly the buffer *)
Lemma drive_ready_complete fuel : forall o q data,
  nonempty_chunks data -> no_fail o -> len (wb_view data) <= count_pos o -> (length o < fuel)%nat ->
  exists s' o', drive_ready fuel o {| s_q := q; s_writing := Some data |} = (Ready (Ok tt), s', o') /\
    s_writing s' = None /\ qs_log (s_q s') = qs_log q ++ wb_view data.
Proof.
  induction fuel as [|f IH]; intros o q data Hne Hnf Hcnt Hfuel; [lia|].
  cbn [drive_ready poll_ready s_writing s_q].
  destruct (write_loop_progress o q data Hne Hnf Hcnt) as (r & q' & w' & o' & HL & Hcase). rewrite HL.
  destruct Hcase as [(R1 & R2 & R3)|(R1 & d & R2 & R3 & R4 & R5 & R6 & R7 & R8)]; subst.
  - do 2 eexists. split; [reflexivity|]. cbn. auto.
  - destruct o' as [|a o'']; [cbn [count_pos] in R5; lia|].
    destruct (IH (a :: o'') q' d R3 R4 R5) as (s' & o3 & HD & E1 & E2); [lia|].
    exists s', o3. split; [exact HD|]. split; [exact E1|]. rewrite E2. exact R8.
Qed.

(* ====================================================================== T2: identifiers *)

(* send side: every send_id of a program returns the same value, the Quinn stream's id *)
Definition send_id_events_are (id : N) (tr : list (send_op * send_result)) : Prop :=
  Forall (fun ev => match ev with (OSendId, r) => r = SRId (Ok id) | _ => True end) tr.

Lemma send_ids_constant ops : forall s o tr s' o',
  qs_id (s_q s) <= varint_max ->
  send_run ops s o = (tr, s', o') -> send_id_events_are (qs_id (s_q s)) tr.
Proof.
  induction ops as [|op ops IH]; intros s o tr s' o' Hid H.
  - cbn in H. inversion H. constructor.
  - cbn [send_run] in H. destruct (send_step op s o) as [[r s1] o1] eqn:HS.
    destruct (send_run ops s1 o1) as [[tr1 s2] o2] eqn:HR. inversion H; subst.
    destruct (send_step_exact _ _ _ _ _ _ HS) as (_ & E2 & _ & _).
    constructor.
    + destruct op; auto. cbn in HS. inversion HS; subst. rewrite send_id_ok by assumption. reflexivity.
    + rewrite <- E2. eapply IH; eauto. rewrite E2. assumption.
Qed.

(* receive side.  The invariant of the ownership dance: the Quinn stream is in `self.stream` or inside
   the read future, never lost, never duplicated; no stop is held while the stream is at hand; once the peer's
   reset has been recorded the stream is at hand (it was put back before the memo was written) *)
Definition recv_inv (id : N) (r : recv_stream) : Prop :=
  r_id r = id /\
  (exists q, underlying r = Some q /\ qr_id q = id) /\
  (r_stream r <> None -> r_pending_stop r = None) /\
  (r_reset r <> None -> r_stream r <> None).

Lemma recv_new_inv id : id <= varint_max ->
  exists r, recv_new (qrecv_new id) = Ok r /\ recv_inv id r /\ r_stream r <> None /\ r_reset r = None.
Proof.
  intros H. unfold recv_new. cbn [qrecv_new qr_id]. rewrite sid_try_from_spec. unfold varint_max in H.
  destruct (N.ltb_spec id (2 ^ 62)); [|lia]. eexists. split; [reflexivity|].
  split; [|cbn; split; congruence]. repeat split; cbn; eauto; congruence.
Qed.

Lemma recv_id_ok id r : recv_inv id r -> recv_id r = Ok id.
Proof. intros (H & _). unfold recv_id, recv_id_with. rewrite fact_cached. congruence. Qed.

Definition rr_not_panic (x : recv_result) : Prop :=
  match x with
  | RRData p => poll_not_panic p
  | RRStop r => not_panic r
  | RRId r => not_panic r
  end.

Definition answers_ordered (o : list ranswer) : Prop :=
  Forall (fun a => a <> RFail QRIllegalOrderedRead) o.
Definition op_codes_ok (op : recv_op) : Prop :=
  match op with OStopSending c => c <= varint_max | _ => True end.

Lemma read_result_not_panic a : a <> RBlocked -> a <> RFail QRIllegalOrderedRead -> not_panic (read_result a).
Proof.
  intros H1 H2. destruct a as [b| | |e]; cbn; auto.
  rewrite convert_read_error_spec. destruct (spec_read_class e) eqn:E; cbn; auto.
  apply read_class_none_iff in E. subst. congruence.
Qed.

Definition abs_recv (ev : recv_op * recv_result) : recv_event :=
  match ev with
  | (OStopSending c, RRStop (Ok _)) => EvStop c
  | (OPollData, RRData Pending) => EvReadPending
  | (OPollData, RRData (Ready _)) => EvReadReady
  | _ => EvRecvOther
  end.

(* refinement relation between the adapter's receive state and the abstract stop-delivery state *)
Definition stop_rel (r : recv_stream) (st : stop_state) : Prop :=
  in_flight st = (match r_stream r with None => true | Some _ => false end) /\
  held st = r_pending_stop r /\
  exists q, underlying r = Some q /\ qr_stops q = delivered st.

Definition is_ready_data (x : recv_result) : option (sres (option bytes)) :=
  match x with RRData (Ready v) => Some v | _ => None end.

Definition abs_outcome (v : sres (option bytes)) : read_outcome :=
  match v with
  | Ok (Some b) => RoChunk b
  | Ok None => RoEnd
  | Err e => RoError (Some e)
  | Panic _ => RoError None
  end.

Lemma read_result_outcome a :
  a <> RBlocked -> Some (abs_outcome (read_result a)) = spec_read_outcome spec_read_class a.
Proof.
  intros H. destruct a as [b| | |e]; cbn; auto; [congruence|].
  rewrite convert_read_error_spec. destruct (spec_read_class e); reflexivity.
Qed.

(* the reset code a completed read leaves in the memo *)
Definition reset_after (r : recv_stream) (a : ranswer) : option N :=
  match a with RFail (QRReset c) => Some c | _ => r_reset r end.

(* poll_data under the invariant: the read future owns (or is given) the Quinn stream *)
Definition blocked_state (r : recv_stream) (q : qrecv) : recv_stream :=
  {| r_id := r_id r; r_stream := None; r_fut := FutReading q; r_pending_stop := r_pending_stop r; r_reset := r_reset r |}.
Definition ready_state (r : recv_stream) (q : qrecv) (a : ranswer) : recv_stream :=
  {| r_id := r_id r;
     r_stream := Some match r_pending_stop r with Some c => q_stop c q | None => q end;
     r_fut := FutDone; r_pending_stop := None; r_reset := reset_after r a |}.

(* no reset recorded: the read goes to Quinn *)
Lemma poll_data_char r q o :
  underlying r = Some q -> r_reset r = None ->
  poll_data o r =
    match o with
    | [] => (Pending, blocked_state r q, [])
    | RBlocked :: o' => (Pending, blocked_state r q, o')
    | a :: o' => (Ready (read_result a), ready_state r q a, o')
    end.
Proof.
  intros Hq Hr. unfold poll_data, poll_data_with. rewrite Hr.
  assert (Hf : match r_stream r with Some q0 => FutReading q0 | None => r_fut r end = FutReading q).
  { unfold underlying in Hq. destruct (r_stream r) as [q0|]; [congruence|]. destruct (r_fut r); congruence. }
  destruct (if poll_data_reset_memo then @None N else None) eqn:Hm; [destruct poll_data_reset_memo; discriminate|].
  rewrite Hf, fact_delivers, fact_puts_back, fact_puts_back_on_error. unfold blocked_state, ready_state, reset_after.
  rewrite ?Hr. destruct o as [|[b| | |e] o1]; try reflexivity; try (destruct e; reflexivity).
Qed.

(* the peer's reset was reported before: it is reported again, nothing else happens, Quinn is not asked *)
Lemma poll_data_reset r c o :
  r_reset r = Some c -> poll_data o r = (Ready (Err (HStreamTerminated c)), r, o).
Proof. intros Hr. unfold poll_data, poll_data_with. rewrite Hr. reflexivity. Qed.

Lemma underlying_blocked r q : underlying (blocked_state r q) = Some q.
Proof. reflexivity. Qed.

Lemma recv_step_inv id op r o x r' o' :
  recv_inv id r -> recv_step op r o = (x, r', o') -> recv_inv id r'.
Proof.
  intros (Hid & (q & Hq & Hqid) & Hps & Hrs) H.
  destruct op as [|c|]; cbn [recv_step] in H.
  - destruct (r_reset r) as [c|] eqn:Hr.
    + rewrite (poll_data_reset r c o Hr) in H. inversion H; subst x r' o'.
      split; [exact Hid|split; [exists q; auto|split; [exact Hps|rewrite Hr; exact Hrs]]].
    + rewrite (poll_data_char r q o Hq Hr) in H.
      destruct o as [|[b| | |e] o1]; inversion H; subst x r' o'; unfold recv_inv;
        (split; [exact Hid|split; [|split; [cbn; congruence|cbn; congruence]]]).
      all: try (exists q; split; [reflexivity|exact Hqid]).
      all: cbn [ready_state underlying r_stream]; destruct (r_pending_stop r); eexists; split; try reflexivity; exact Hqid.
  - unfold stop_sending in H. destruct (varint_max <? c).
    + inversion H; subst. repeat split; eauto.
    + rewrite fact_defers in H. unfold underlying in Hq. destruct (r_stream r) as [q0|] eqn:Hs.
      * inversion Hq; subst q0. inversion H; subst x r' o'.
        split; [exact Hid|split; [|split]].
        -- eexists. split; [reflexivity|exact Hqid].
        -- intros _. cbn. apply Hps. congruence.
        -- cbn. congruence.
      * inversion H; subst x r' o'.
        split; [exact Hid|split; [|split]].
        -- exists q. split; [|exact Hqid]. unfold underlying. cbn. exact Hq.
        -- cbn. congruence.
        -- cbn. intros Hn. apply Hrs in Hn. congruence.
  - inversion H; subst. repeat split; eauto.
Qed.

Lemma recv_step_rel id op r o x r' o' st :
  recv_inv id r -> stop_rel r st -> recv_step op r o = (x, r', o') ->
  stop_rel r' (stop_step st (abs_recv (op, x))).
Proof.
  intros (Hid & (q & Hq & Hqid) & Hps & Hrs) (S1 & S2 & (q2 & Hq2 & S3)) H.
  rewrite Hq in Hq2. inversion Hq2; subst q2. clear Hq2.
  destruct op as [|c|]; cbn [recv_step] in H.
  - destruct (r_reset r) as [c|] eqn:Hr.
    + (* the reset is reported again: the stream is at hand, nothing is held, nothing changes *)
      rewrite (poll_data_reset r c o Hr) in H. inversion H; subst x r' o'. cbn [abs_recv stop_step]. unfold stop_rel.
      assert (Hs : r_stream r <> None) by (apply Hrs; congruence).
      pose proof (Hps Hs) as Hp. rewrite Hp in S2.
      destruct (r_stream r) as [q0|] eqn:Hs0; [|congruence].
      cbn [in_flight held delivered].
      split; [reflexivity|split; [symmetry; exact Hp|]]. exists q. split; [exact Hq|]. rewrite S2, app_nil_r. exact S3.
    + rewrite (poll_data_char r q o Hq Hr) in H.
      destruct o as [|[b| | |e] o1]; inversion H; subst x r' o'; cbn [abs_recv stop_step]; unfold stop_rel.
      all: try (split; [reflexivity|split; [exact S2|exists q; split; [reflexivity|exact S3]]]).
      all: split; [reflexivity|split; [reflexivity|]];
        cbn [ready_state underlying r_stream delivered]; rewrite <- S2;
        destruct (held st); eexists; (split; [reflexivity|]); cbn [q_stop qr_stops]; rewrite S3, ?app_nil_r; reflexivity.
  - unfold stop_sending in H. destruct (varint_max <? c).
    + inversion H; subst. cbn [abs_recv stop_step]. repeat split; eauto.
    + rewrite fact_defers in H. unfold underlying in Hq. destruct (r_stream r) as [q0|] eqn:Hs.
      * inversion Hq; subst q0. inversion H; subst x r' o'. cbn [abs_recv stop_step]. rewrite S1.
        split; [reflexivity|split; [exact S2|]]. eexists. split; [reflexivity|]. cbn. rewrite S3. reflexivity.
      * inversion H; subst x r' o'. cbn [abs_recv stop_step]. rewrite S1.
        split; [reflexivity|split; [reflexivity|]]. exists q. split; [|exact S3]. unfold underlying. cbn. exact Hq.
  - inversion H; subst. cbn [abs_recv stop_step]. repeat split; eauto.
Qed.

Lemma recv_step_id id r o x r' o' :
  recv_inv id r -> recv_step ORecvId r o = (x, r', o') -> x = RRId (Ok id).
Proof. intros Hinv H. cbn [recv_step] in H. inversion H; subst. rewrite (recv_id_ok id _ Hinv). reflexivity. Qed.

Lemma recv_step_not_panic id op r o x r' o' :
  recv_inv id r -> op_codes_ok op -> answers_ordered o -> recv_step op r o = (x, r', o') -> rr_not_panic x.
Proof.
  intros Hinv Hc Hord H. pose proof Hinv as (Hid & (q & Hq & Hqid) & Hps & Hrs).
  destruct op as [|c|]; cbn [recv_step] in H.
  - destruct (r_reset r) as [c|] eqn:Hr.
    + rewrite (poll_data_reset r c o Hr) in H. inversion H; subst. exact I.
    + rewrite (poll_data_char r q o Hq Hr) in H.
      destruct o as [|[b| | |e] o1]; inversion H; subst x r' o'; cbn; auto.
      inversion Hord as [|? ? Ha _]; subst. apply (read_result_not_panic (RFail e)); [discriminate|assumption].
  - unfold stop_sending in H. cbn in Hc. destruct (N.ltb_spec varint_max c); [lia|].
    rewrite fact_defers in H. destruct (r_stream r); inversion H; subst; exact I.
  - inversion H; subst. unfold rr_not_panic. rewrite (recv_id_ok _ _ Hinv). exact I.
Qed.

(* ====================================================================== whole receive-side programs *)

Definition ready_outcomes (tr : list (recv_op * recv_result)) : list read_outcome :=
  flat_map (fun ev => match is_ready_data (snd ev) with Some v => [abs_outcome v] | None => [] end) tr.

Definition is_poll (op : recv_op) : bool := match op with OPollData => true | _ => false end.
Definition count_polls (ops : list recv_op) : nat := length (filter is_poll ops).

(* stop_sending and recv_id leave the memo alone *)
Lemma recv_step_keeps_reset op r o x r' o' :
  is_poll op = false -> recv_step op r o = (x, r', o') ->
  r_reset r' = r_reset r /\ o' = o /\ is_ready_data x = None.
Proof.
  intros Hop H. destruct op as [|c|]; [discriminate| |]; cbn [recv_step] in H.
  - unfold stop_sending in H. destruct (varint_max <? c); [|destruct (r_stream r); [|destruct stop_sending_defers]];
      inversion H; subst; repeat split.
  - inversion H; subst. repeat split.
Qed.

(* receive fidelity: the outcomes the application gets, and what is left of Quinn's answers, are those of the
   specification's reader started in the adapter's memo state *)
Lemma recv_run_reads ops : forall id r o tr r' o',
  recv_inv id r -> recv_run ops r o = (tr, r', o') ->
  spec_reads spec_read_class (r_reset r) (count_polls ops) o = (ready_outcomes tr, o').
Proof.
  induction ops as [|op ops IH]; intros id r o tr r' o' Hinv H.
  - cbn in H. inversion H; subst. reflexivity.
  - cbn [recv_run] in H. destruct (recv_step op r o) as [[x r1] o1] eqn:HS.
    destruct (recv_run ops r1 o1) as [[tr1 r2] o2] eqn:HR. inversion H; subst tr r' o'. clear H.
    pose proof (recv_step_inv _ _ _ _ _ _ _ Hinv HS) as Hinv1.
    specialize (IH _ _ _ _ _ _ Hinv1 HR).
    destruct (is_poll op) eqn:Hop.
    + destruct op; try discriminate. unfold count_polls. cbn [filter is_poll length]. fold (count_polls ops).
      cbn [recv_step] in HS. pose proof Hinv as (Hid & (q & Hq & Hqid) & Hps & Hrs).
      unfold ready_outcomes. cbn [flat_map snd]. fold (ready_outcomes tr1).
      destruct (r_reset r) as [c|] eqn:Hr.
      * rewrite (poll_data_reset r c o Hr) in HS. inversion HS; subst x r1 o1.
        cbn [spec_reads]. rewrite Hr in IH. rewrite IH. reflexivity.
      * rewrite (poll_data_char r q o Hq Hr) in HS. cbn [spec_reads].
        destruct o as [|a o0].
        -- inversion HS; subst x r1 o1. cbn [blocked_state r_reset] in IH. rewrite Hr in IH. rewrite IH. reflexivity.
        -- destruct a as [b| | |e]; inversion HS; subst x r1 o1; cbn [ready_state blocked_state r_reset reset_after] in IH;
             rewrite ?Hr in IH; cbn [spec_read_outcome is_ready_data abs_outcome read_result app].
           ++ rewrite IH. reflexivity.
           ++ rewrite IH. reflexivity.
           ++ rewrite IH. reflexivity.
           ++ unfold reset_after in IH. cbn [of_conv].
              destruct e as [c|ce| | |]; rewrite IH; rewrite ?convert_read_error_spec; cbn [spec_read_class]; reflexivity.
    + destruct (recv_step_keeps_reset _ _ _ _ _ _ Hop HS) as (E1 & E2 & E3). subst o1.
      unfold count_polls. cbn [filter]. rewrite Hop. fold (count_polls ops). rewrite <- E1, IH.
      unfold ready_outcomes. cbn [flat_map snd]. rewrite E3. reflexivity.
Qed.

Lemma recv_run_ok ops : forall id r o st tr r' o',
  recv_inv id r -> stop_rel r st -> recv_run ops r o = (tr, r', o') ->
  recv_inv id r' /\ stop_rel r' (stop_run st (map abs_recv tr)) /\
  Forall (fun ev => fst ev = ORecvId -> snd ev = RRId (Ok id)) tr /\
  (Forall op_codes_ok ops -> answers_ordered o -> Forall (fun ev => rr_not_panic (snd ev)) tr) /\
  map fst tr = ops /\
  exists used, o = used ++ o'.
Proof.
  induction ops as [|op ops IH]; intros id r o st tr r' o' Hinv Hrel H.
  - cbn in H. inversion H; subst. cbn [map stop_run fold_left].
    split; [exact Hinv|split; [exact Hrel|split; [constructor|split; [intros; constructor|split; [reflexivity|exists []; reflexivity]]]]].
  - cbn [recv_run] in H. destruct (recv_step op r o) as [[x r1] o1] eqn:HS.
    destruct (recv_run ops r1 o1) as [[tr1 r2] o2] eqn:HR. inversion H; subst tr r' o'. clear H.
    pose proof (recv_step_inv _ _ _ _ _ _ _ Hinv HS) as Hinv1.
    pose proof (recv_step_rel _ _ _ _ _ _ _ _ Hinv Hrel HS) as Hrel1.
    assert (Hu : exists u1, o = u1 ++ o1).
    { pose proof Hinv as (Hid & (q & Hq & Hqid) & Hps & Hrs).
      destruct op as [|c|]; cbn [recv_step] in HS.
      - destruct (r_reset r) as [c|] eqn:Hr.
        + rewrite (poll_data_reset r c o Hr) in HS. inversion HS; subst. exists []. reflexivity.
        + rewrite (poll_data_char r q o Hq Hr) in HS.
          destruct o as [|a o0]; [inversion HS; subst; exists []; reflexivity|].
          destruct a; inversion HS; subst; eexists [_]; reflexivity.
      - unfold stop_sending in HS. destruct (varint_max <? c); [|destruct (r_stream r); [|destruct stop_sending_defers]];
          inversion HS; subst; exists []; reflexivity.
      - inversion HS; subst. exists []. reflexivity. }
    destruct Hu as (u1 & Hu1).
    destruct (IH _ _ _ _ _ _ _ Hinv1 Hrel1 HR) as (F1 & F2 & F3 & F4 & F5 & (u2 & Hu2)).
    split; [exact F1|]. split; [exact F2|]. split; [|split; [|split]].
    + constructor; [|exact F3]. cbn [fst snd]. intros E. subst op. exact (recv_step_id _ _ _ _ _ _ Hinv HS).
    + intros Hc Hord. pose proof (Forall_inv Hc) as Hc1. pose proof (Forall_inv_tail Hc) as Hc2.
      constructor.
      * cbn [snd]. exact (recv_step_not_panic _ _ _ _ _ _ _ Hinv Hc1 Hord HS).
      * apply F4; [assumption|]. unfold answers_ordered in *. rewrite Hu1 in Hord. apply Forall_app in Hord. tauto.
    + cbn [map fst]. rewrite F5. reflexivity.
    + exists (u1 ++ u2). rewrite Hu1, Hu2. apply app_assoc.
Qed.

Lemma stop_rel_new r : r_stream r <> None -> r_pending_stop r = None ->
  forall q, r_stream r = Some q -> stop_rel r {| in_flight := false; held := None; delivered := qr_stops q |}.
Proof.
  intros _ Hp q Hq. unfold stop_rel. cbn. rewrite Hq, Hp. repeat split. exists q. split; [|reflexivity].
  unfold underlying. rewrite Hq. reflexivity.
Qed.

(* T2 + T4 + receive fidelity, for every program and every oracle, from a freshly accepted/opened stream *)
Lemma recv_program_ok id ops o r tr r' o' :
  id <= varint_max -> recv_new (qrecv_new id) = Ok r -> recv_run ops r o = (tr, r', o') ->
  Forall (fun ev => fst ev = ORecvId -> snd ev = RRId (Ok id)) tr /\
  (Forall op_codes_ok ops -> answers_ordered o -> Forall (fun ev => rr_not_panic (snd ev)) tr) /\
  (exists q, underlying r' = Some q /\ qr_id q = id /\
     qr_stops q = delivered (stop_run {| in_flight := false; held := None; delivered := [] |} (map abs_recv tr))) /\
  r_pending_stop r' = held (stop_run {| in_flight := false; held := None; delivered := [] |} (map abs_recv tr)) /\
  spec_reads spec_read_class None (count_polls ops) o = (ready_outcomes tr, o').
Proof.
  intros Hid Hnew Hrun. destruct (recv_new_inv id Hid) as (r0 & Hr0 & Hinv & Hs & Hrs0). rewrite Hnew in Hr0. inversion Hr0; subst r0.
  assert (Hrel : stop_rel r {| in_flight := false; held := None; delivered := [] |}).
  { unfold recv_new in Hnew. cbn [qrecv_new qr_id] in Hnew. destruct (sid_try_from id); inversion Hnew; subst.
    unfold stop_rel. cbn. repeat split. eexists. split; reflexivity. }
  destruct (recv_run_ok _ _ _ _ _ _ _ _ Hinv Hrel Hrun) as (F1 & (S1 & S2 & (q & Hq & S3)) & F3 & F4 & _ & _).
  split; [exact F3|]. split; [exact F4|]. split; [|split; [congruence|]].
  - destruct F1 as (_ & (q' & Hq' & Hqid) & _). rewrite Hq in Hq'. inversion Hq'; subst q'.
    exists q. auto.
  - rewrite <- Hrs0. exact (recv_run_reads _ _ _ _ _ _ _ Hinv Hrun).
Qed.

(* once a read has reported the peer's reset, every later read of every program reports that reset again - never the
   end of the stream, never another class, whatever Quinn would answer (it is not asked: its answers stay untouched);
   ids and stops keep working *)
Lemma reset_is_sticky id r c o :
  recv_inv id r -> r_reset r = None ->
  exists r1, poll_data (RFail (QRReset c) :: o) r = (Ready (Err (HStreamTerminated c)), r1, o) /\
    recv_inv id r1 /\
    forall ops o2 tr r2 o3, recv_run ops r1 o2 = (tr, r2, o3) ->
      Forall (fun ev => fst ev = OPollData -> snd ev = RRData (Ready (Err (HStreamTerminated c)))) tr /\
      Forall (fun ev => fst ev = ORecvId -> snd ev = RRId (Ok id)) tr /\
      o3 = o2 /\ r_reset r2 = Some c.
Proof.
  intros Hinv Hr. pose proof Hinv as (Hid & (q & Hq & Hqid) & Hps & Hrs).
  assert (Hstep : recv_step OPollData r (RFail (QRReset c) :: o)
                  = (RRData (Ready (Err (HStreamTerminated c))), ready_state r q (RFail (QRReset c)), o)).
  { cbn [recv_step]. rewrite (poll_data_char r q _ Hq Hr). reflexivity. }
  pose proof (recv_step_inv _ _ _ _ _ _ _ Hinv Hstep) as Hinv1.
  set (r1 := ready_state r q (RFail (QRReset c))) in *.
  exists r1.
  split; [rewrite (poll_data_char r q _ Hq Hr); reflexivity|]. split; [exact Hinv1|].
  assert (Hr1 : r_reset r1 = Some c) by reflexivity.
  clearbody r1. clear Hstep. intros ops.
  revert r1 Hinv1 Hr1. induction ops as [|op ops IH]; intros r1 Hinv1 Hr1 o2 tr r2 o3 H.
  - cbn in H. inversion H; subst. repeat split; try constructor. exact Hr1.
  - cbn [recv_run] in H. destruct (recv_step op r1 o2) as [[x r1'] o1] eqn:HS.
    destruct (recv_run ops r1' o1) as [[tr1 r2'] o2'] eqn:HR. inversion H; subst tr r2 o3. clear H.
    pose proof (recv_step_inv _ _ _ _ _ _ _ Hinv1 HS) as Hinv2.
    assert (Hk : r_reset r1' = Some c /\ o1 = o2 /\ (op = OPollData -> x = RRData (Ready (Err (HStreamTerminated c))))).
    { destruct (is_poll op) eqn:Hop.
      - destruct op; try discriminate. cbn [recv_step] in HS. rewrite (poll_data_reset r1 c o2 Hr1) in HS.
        inversion HS; subst. repeat split; auto.
      - destruct (recv_step_keeps_reset _ _ _ _ _ _ Hop HS) as (E1 & E2 & _).
        split; [congruence|split; [exact E2|]]. intros E. subst op. discriminate. }
    destruct Hk as (K1 & K2 & K3). subst o1.
    destruct (IH _ Hinv2 K1 _ _ _ _ HR) as (G1 & G2 & G3 & G4).
    split; [constructor; [exact K3|exact G1]|]. split; [|split; [exact G3|exact G4]].
    constructor; [|exact G2]. cbn [fst snd]. intros E. subst op. exact (recv_step_id _ _ _ _ _ _ Hinv1 HS).
Qed.

(* ---------------------------------------------------------------------- properties of the abstract stop delivery *)

Definition held_count (st : stop_state) : nat := match held st with Some _ => 1 | None => 0 end.

(* no stop is invented or duplicated: at most one delivery per request *)
Lemma stop_never_duplicated evs : forall st,
  (length (delivered (stop_run st evs)) + held_count (stop_run st evs)
   <= length (delivered st) + held_count st + count_stop_requests evs)%nat.
Proof.
  unfold stop_run, count_stop_requests. induction evs as [|e evs IH]; intros st; [cbn; lia|].
  cbn [fold_left filter]. specialize (IH (stop_step st e)).
  destruct e as [c| | |]; cbn [stop_step] in *.
  - destruct (in_flight st); unfold held_count in *; cbn [held delivered length] in *;
      rewrite ?app_length in IH; cbn [length] in *; destruct (held st); lia.
  - unfold held_count in *. cbn [held delivered] in *. lia.
  - unfold held_count in *. cbn [held delivered] in *. rewrite app_length in IH. destruct (held st); cbn [length] in *; lia.
  - lia.
Qed.

(* stops already delivered are never withdrawn or reordered *)
Lemma stop_delivered_grows evs : forall st, exists more, delivered (stop_run st evs) = delivered st ++ more.
Proof.
  unfold stop_run. induction evs as [|e evs IH]; intros st; [exists []; cbn; rewrite app_nil_r; reflexivity|].
  cbn [fold_left]. destruct (IH (stop_step st e)) as (more & Hm). rewrite Hm.
  destruct e as [c| | |]; cbn [stop_step].
  - destruct (in_flight st); cbn [delivered]; [exists more; reflexivity|]. exists ([c] ++ more). rewrite app_assoc. reflexivity.
  - exists more. reflexivity.
  - cbn [delivered]. eexists. rewrite <- app_assoc. reflexivity.
  - exists more. reflexivity.
Qed.

(* the scenario of the property text: a stop issued while the read future owns the stream *)
Lemma deferred_stop_once r q c :
  underlying r = Some q -> r_stream r = None -> r_reset r = None -> c <= varint_max ->
  exists r1, stop_sending c r = (Ok tt, r1) /\
    underlying r1 = Some q /\ r_stream r1 = None /\ r_pending_stop r1 = Some c /\
    (* the read stays pending: nothing is delivered, the stop stays held *)
    (forall o, exists r2, poll_data (RBlocked :: o) r1 = (Pending, r2, o) /\
        underlying r2 = Some q /\ r_stream r2 = None /\ r_pending_stop r2 = Some c) /\
    (* the read completes, with whatever answer: delivered once, nothing left to deliver again *)
    (forall a o, a <> RBlocked -> exists r2, poll_data (a :: o) r1 = (Ready (read_result a), r2, o) /\
        r_stream r2 = Some (q_stop c q) /\ r_pending_stop r2 = None).
Proof.
  intros Hq Hs Hrs Hc. unfold stop_sending. destruct (N.ltb_spec varint_max c); [lia|].
  rewrite Hs, fact_defers. eexists. split; [reflexivity|].
  assert (Hq1 : underlying {| r_id := r_id r; r_stream := None; r_fut := r_fut r; r_pending_stop := Some c; r_reset := r_reset r |} = Some q).
  { unfold underlying in *. rewrite Hs in Hq. cbn. exact Hq. }
  split; [exact Hq1|]. split; [reflexivity|]. split; [reflexivity|]. split.
  - intros o. rewrite (poll_data_char _ q _ Hq1 Hrs). eexists. split; [reflexivity|]. repeat split.
  - intros a o Ha. rewrite (poll_data_char _ q _ Hq1 Hrs). destruct a; try congruence; eexists; split; reflexivity || (split; reflexivity).
Qed.

(* the state the repaired recv_id was written for is reachable: after a pending poll the stream is
   inside the future, and recv_id still answers *)
Lemma recv_id_while_read_pending id o :
  id <= varint_max ->
  exists r r1, recv_new (qrecv_new id) = Ok r /\ poll_data (RBlocked :: o) r = (Pending, r1, o) /\
    r_stream r1 = None /\ recv_id r1 = Ok id.
Proof.
  intros Hid. destruct (recv_new_inv id Hid) as (r & Hr & Hinv & Hs & Hrs).
  pose proof Hinv as (_ & (q & Hq & _) & _).
  exists r. eexists. split; [exact Hr|]. rewrite (poll_data_char r q _ Hq Hrs). split; [reflexivity|]. split; [reflexivity|].
  unfold recv_id, recv_id_with. rewrite fact_cached. cbn [blocked_state r_id]. destruct Hinv as (H1 & _ & _). congruence.
Qed.

(* after a FAILED read the stream is back in `self.stream`: it can be polled again, asked for its id and stopped
   (at once, nothing is parked), whatever Quinn answers next *)
Lemma after_failed_read id r e o :
  recv_inv id r -> r_reset r = None -> e <> QRIllegalOrderedRead ->
  exists cls r2 q2,
    poll_data (RFail e :: o) r = (Ready (Err cls), r2, o) /\ spec_read_class e = Some cls /\
    r_stream r2 = Some q2 /\ r_pending_stop r2 = None /\ recv_inv id r2 /\ recv_id r2 = Ok id /\
    (forall c, c <= varint_max ->
       stop_sending c r2 = (Ok tt, {| r_id := r_id r2; r_stream := Some (q_stop c q2); r_fut := r_fut r2; r_pending_stop := None;
                                      r_reset := r_reset r2 |})) /\
    (forall a o', a <> RFail QRIllegalOrderedRead ->
       exists x r3 o3, poll_data (a :: o') r2 = (x, r3, o3) /\ poll_not_panic x /\ recv_inv id r3 /\ recv_id r3 = Ok id).
Proof.
  intros Hinv Hrs0 He. pose proof Hinv as (Hid & (q & Hq & Hqid) & Hps & Hrs).
  destruct (spec_read_class e) as [cls|] eqn:Hc; [|apply read_class_none_iff in Hc; contradiction].
  assert (Hstep : recv_step OPollData r (RFail e :: o) = (RRData (Ready (Err cls)), ready_state r q (RFail e), o)).
  { cbn [recv_step]. rewrite (poll_data_char r q _ Hq Hrs0). cbn [read_result]. rewrite convert_read_error_spec, Hc. reflexivity. }
  pose proof (recv_step_inv _ _ _ _ _ _ _ Hinv Hstep) as Hinv2.
  exists cls, (ready_state r q (RFail e)). eexists.
  split; [rewrite (poll_data_char r q _ Hq Hrs0); cbn [read_result]; rewrite convert_read_error_spec, Hc; reflexivity|].
  split; [reflexivity|]. split; [reflexivity|]. split; [reflexivity|]. split; [exact Hinv2|].
  split; [apply recv_id_ok; exact Hinv2|]. split.
  - intros c Hcle. unfold stop_sending. destruct (N.ltb_spec varint_max c); [lia|]. reflexivity.
  - intros a o' Ha. destruct (recv_step OPollData (ready_state r q (RFail e)) (a :: o')) as [[x r3] o3] eqn:HS.
    pose proof (recv_step_inv _ _ _ _ _ _ _ Hinv2 HS) as Hinv3.
    cbn [recv_step] in HS. destruct (poll_data (a :: o') (ready_state r q (RFail e))) as [[x0 r0] o0] eqn:HP.
    inversion HS; subst. exists x0, r3, o3. split; [reflexivity|]. split; [|split; [exact Hinv3|apply recv_id_ok; exact Hinv3]].
    destruct (r_reset (ready_state r q (RFail e))) as [c|] eqn:Hr2.
    + rewrite (poll_data_reset _ c _ Hr2) in HP. inversion HP; subst. exact I.
    + destruct Hinv2 as (_ & (q2' & Hq2' & _) & _). rewrite (poll_data_char _ q2' _ Hq2' Hr2) in HP.
      destruct a as [b| | |e']; inversion HP; subst; cbn; auto.
      apply (read_result_not_panic (RFail e')); [discriminate|exact Ha].
Qed.

(* ====================================================================== BidiStream, open / accept *)

Lemma bidi_ids id : id <= varint_max ->
  exists b, bidi_new id = Ok b /\ send_id (b_send b) = Ok id /\ recv_id (b_recv b) = Ok id.
Proof.
  intros Hid. unfold bidi_new. destruct (recv_new_inv id Hid) as (r & Hr & Hinv & _). rewrite Hr.
  eexists. split; [reflexivity|]. cbn [b_send b_recv]. split.
  - apply send_id_ok. exact Hid.
  - apply recv_id_ok. exact Hinv.
Qed.

Lemma site_error_spec site e :
  In site [site_conn_close; site_conn_opener; site_conn_poll_accept_bidi; site_conn_poll_accept_recv;
    site_conn_poll_open_bidi; site_conn_poll_open_send; site_opener_clone; site_opener_close;
    site_opener_poll_open_bidi; site_opener_poll_open_send] ->
  site_error site e = Ok (spec_conn_class e).
Proof. intros H. unfold site_error. rewrite (fact_sites site H). apply convert_connection_error_spec. Qed.

(* both `impl OpenStreams` (Connection itself; the handle from opener() and its clones) and both accepts *)
Lemma open_accept_errors w e :
  open_bidi w (Err e) = Err (HConnErr (spec_conn_class e)) /\
  open_send w (Err e) = Err (HConnErr (spec_conn_class e)) /\
  accept_recv (Err e) = Err (spec_conn_class e) /\
  accept_bidi (Err e) = Err (spec_conn_class e).
Proof.
  unfold open_bidi, open_send, accept_recv, accept_bidi, open_bidi_site, open_send_site.
  destruct w; rewrite !site_error_spec by (cbn; tauto); repeat split.
Qed.

Lemma conn_close_spec w code : code <= varint_max -> conn_close w code = Ok code.
Proof.
  intros H. unfold conn_close, close_site. destruct w; rewrite fact_sites by (cbn; tauto);
    destruct (N.ltb_spec varint_max code); try lia; reflexivity.
Qed.

(* ---- finish ---- *)

(* For every program - including writes that were abandoned while pending - and every oracle: when a
   poll_finish answers Ready(Ok) (the stream is now finished), nothing is left in `writing` and Quinn has been
   handed every buffer send_data accepted, completely and in order, BEFORE the finish *)
Lemma finish_hands_over_everything ops id o tr s' o' :
  send_run (ops ++ [OPollFinish]) (send_new (qsend_new id)) o = (tr, s', o') ->
  (exists tr0, tr = tr0 ++ [(OPollFinish, SRPoll (Ready (Ok tt)))]) ->
  Forall no_write_failure tr ->
  s_writing s' = None /\ qs_finished (s_q s') = true /\
  qs_log (s_q s') = spec_handed (map abs_send tr).
Proof.
  intros H (tr0 & Htr) Hnf.
  assert (Hsplit : forall ops1 ops2 s o,
    send_run (ops1 ++ ops2) s o =
      let '(t1, s1, o1) := send_run ops1 s o in let '(t2, s2, o2) := send_run ops2 s1 o1 in (t1 ++ t2, s2, o2)).
  { clear. induction ops1 as [|op ops1 IH]; intros ops2 s o.
    - cbn. destruct (send_run ops2 s o) as [[t2 s2] o2]. reflexivity.
    - cbn [app send_run]. destruct (send_step op s o) as [[r s1] o1]. rewrite IH.
      destruct (send_run ops1 s1 o1) as [[t1 s2] o2]. destruct (send_run ops2 s2 o2) as [[t2 s3] o3]. reflexivity. }
  pose proof (send_run_exact _ _ _ _ _ _ H) as (E1 & _ & _ & _). specialize (E1 Hnf).
  rewrite Hsplit in H. destruct (send_run ops (send_new (qsend_new id)) o) as [[t1 s1] o1] eqn:H1.
  cbn [send_run send_step] in H. destruct (poll_finish o1 s1) as [[r2 s2] o2] eqn:HP.
  injection H as Htr' Hs' Ho'. subst s2 o2.
  rewrite Htr in Htr'. apply app_inj_tail in Htr'. destruct Htr' as [_ Heq]. injection Heq as Hr. subst r2.
  destruct (poll_finish_exact _ _ _ _ _ HP) as (_ & _ & _ & E4 & _ & _).
  destruct (E4 eq_refl) as (Hw & Hf). split; [exact Hw|]. split; [exact Hf|].
  rewrite Hw in E1. cbn [view_opt send_new s_q s_writing qsend_new qs_log app] in E1. rewrite app_nil_r in E1. exact E1.
Qed.

(* the scenario that used to truncate (repaired defect F21): a write left pending, then finish: the rest of the
   buffer is written out first, with whatever split Quinn chooses *)
Lemma finish_after_abandoned_write :
  let ops := [OSendData [[0; 4]; [1; 2; 3; 4]]; OPollReady; OPollFinish; OPollFinish] in
  let o := [WAccept 2; WAccept 1; WBlocked; WAccept 2; WBlocked; WAccept 100] in
  exists tr s' o', send_run ops (send_new (qsend_new 0)) o = (tr, s', o') /\
    map snd tr = [SRUnit (Ok tt); SRPoll Pending; SRPoll Pending; SRPoll (Ready (Ok tt))] /\
    qs_finished (s_q s') = true /\ s_writing s' = None /\
    qs_log (s_q s') = [0; 4; 1; 2; 3; 4].
Proof. do 3 eexists. split; [vm_compute; reflexivity|]. repeat split; vm_compute; reflexivity. Qed.

Lemma send_drop_keeps s :
  qs_log (send_drop s) = qs_log (s_q s) /\ qs_reset (send_drop s) = qs_reset (s_q s) /\ qs_id (send_drop s) = qs_id (s_q s) /\
  qs_finished (send_drop s) = (qs_finished (s_q s) || negb (match qs_reset (s_q s) with Some _ => true | None => false end)) /\
  (qs_finished (s_q s) = true -> send_drop s = s_q s).
Proof.
  unfold send_drop. destruct (qs_finished (s_q s)) eqn:Hf; destruct (qs_reset (s_q s)) eqn:Hr; cbn; rewrite ?Hf, ?Hr; repeat split; auto; discriminate.
Qed.

Lemma reset_code_spec c : reset_code c = Ok (spec_reset_code c).
Proof.
  unfold reset_code, spec_reset_code. rewrite fact_saturates. destruct (N.leb_spec c varint_max); f_equal; lia.
Qed.

(* ====================================================================== after a write error (Quinn's failures are final) *)

Definition only_fails (qe : qwrite_err) (o : list wanswer) : Prop := Forall (fun a => a = WFail qe) o.

Lemma only_fails_final qe o : only_fails qe o -> fail_is_final o.
Proof. intros H. destruct o as [|a r]; [exact I|]. inversion H; subst. exact H3. Qed.

Lemma fail_is_final_suffix used : forall o', fail_is_final (used ++ o') -> fail_is_final o'.
Proof.
  induction used as [|a used IH]; intros o' H; [exact H|]. cbn [app fail_is_final] in H.
  destruct a as [k| |e]; try (apply IH; exact H).
  apply Forall_app in H. apply (only_fails_final e). exact (proj2 H).
Qed.

Lemma fail_is_final_after used : forall qe o', fail_is_final (used ++ WFail qe :: o') -> only_fails qe o'.
Proof.
  induction used as [|a used IH]; intros qe o' H.
  - exact H.
  - cbn [app fail_is_final] in H. destruct a as [k| |e]; try (apply IH; exact H).
    apply Forall_app in H. destruct H as [_ H]. inversion H as [|? ? Hq Hr]; subst. inversion Hq; subst. exact Hr.
Qed.

Lemma only_fails_suffix qe used o' : only_fails qe (used ++ o') -> only_fails qe o'.
Proof. intros H. apply Forall_app in H. exact (proj2 H). Qed.

(* what a poll can report while Quinn only fails with qe (or has no answer left) *)
Definition sticky_ev (e : h3_stream_err) (ev : send_op * send_result) : Prop :=
  match ev with
  | (OPollReady, SRPoll (Ready (Err e'))) => e' = e
  | (OPollFinish, SRPoll (Ready (Err e'))) => e' = e \/ e' = HUnknownFinish
  | (OPollSend _, SRSend (Ready (Err e'))) => e' = e
  | (OSendData _, SRUnit (Err e')) => e' = spec_refusal
  | _ => True
  end.

Lemma write_loop_only_fails qe o : only_fails qe o -> forall q data r q' w' o',
  write_loop o q data = (r, q', w', o') ->
  q' = q /\ (forall e, r = Ready (Err e) -> e = spec_write_class qe).
Proof.
  intros Ho q data r q' w' o' H. destruct o as [|a o1].
  - cbn [write_loop] in H. destruct (wb_has_remaining data); inversion H; subst; split; auto; intros e C; discriminate.
  - inversion Ho as [|? ? Ha _]; subst a. cbn [write_loop] in H. destruct (wb_has_remaining data).
    + rewrite convert_write_error_spec in H. cbn [of_conv] in H. inversion H; subst. split; [reflexivity|].
      intros e C. inversion C. reflexivity.
    + inversion H; subst. split; auto. intros e C. discriminate.
Qed.

Lemma send_step_only_fails qe op s o r s' o' :
  only_fails qe o -> send_step op s o = (r, s', o') ->
  qs_log (s_q s') = qs_log (s_q s) /\ only_fails qe o' /\ sticky_ev (spec_write_class qe) (op, r).
Proof.
  intros Ho H.
  assert (Hsuf : forall used, o = used ++ o' -> only_fails qe o') by (intros used E; subst o; exact (only_fails_suffix _ _ _ Ho)).
  destruct op as [b| | |c| |buf]; cbn [send_step] in H.
  - unfold send_data, send_data_with in H. rewrite fact_guard, fact_refusal in H.
    destruct (s_writing s); inversion H; subst; repeat split; auto.
  - destruct (poll_ready o s) as [[r0 s0] o0] eqn:HP. inversion H; subst.
    destruct (poll_ready_exact _ _ _ _ _ HP) as (_ & _ & _ & _ & _ & _ & (used & Hu) & _ & _). pose proof (Hsuf _ Hu) as Ho'. clear Hu Hsuf.
    unfold poll_ready in HP. destruct (s_writing s) as [data|].
    + destruct (write_loop o (s_q s) data) as [[[r1 q1] w1] o1] eqn:HL. inversion HP; subst.
      destruct (write_loop_only_fails qe _ Ho _ _ _ _ _ _ HL) as (Hq & He). cbn [s_q]. subst q1.
      split; [reflexivity|]. split; [exact Ho'|]. cbn [sticky_ev]. destruct r0 as [[[]|e|p]|]; auto.
    + inversion HP; subst. repeat split; auto.
  - destruct (poll_finish o s) as [[r0 s0] o0] eqn:HP. inversion H; subst.
    destruct (poll_finish_exact _ _ _ _ _ HP) as (_ & _ & _ & _ & (used & Hu) & _). pose proof (Hsuf _ Hu) as Ho'. clear Hu Hsuf.
    unfold poll_finish, poll_finish_with in HP. rewrite fact_finish_drains in HP.
    assert (HQ : forall s1 r2 s2, q_finish s1 = (r2, s2) ->
              qs_log (s_q s2) = qs_log (s_q s1) /\ (forall e, r2 = Ready (Err e) -> e = HUnknownFinish)).
    { intros s1 r2 s2 HF. unfold q_finish in HF.
      destruct (qs_finished (s_q s1) || match qs_reset (s_q s1) with Some _ => true | None => false end);
        inversion HF; subst; split; auto; intros e C; inversion C; reflexivity || discriminate. }
    destruct (s_writing s) as [data|] eqn:Hw.
    + destruct (poll_ready o s) as [[r1 s1] o1] eqn:HR.
      assert (HR' := HR). unfold poll_ready in HR'. rewrite Hw in HR'.
      destruct (write_loop o (s_q s) data) as [[[r3 q3] w3] o3] eqn:HL. inversion HR'; subst r3 s1 o3.
      destruct (write_loop_only_fails qe _ Ho _ _ _ _ _ _ HL) as (Hq & He). subst q3.
      destruct r1 as [[[]|e|p]|].
      * destruct (q_finish _) as [r2 s2] eqn:HF. inversion HP; subst. destruct (HQ _ _ _ HF) as (F1 & F2).
        split; [rewrite F1; reflexivity|]. split; [exact Ho'|]. cbn [sticky_ev]. destruct r0 as [[[]|e|p]|]; auto.
      * inversion HP; subst. cbn [s_q]. split; [reflexivity|]. split; [exact Ho'|]. cbn [sticky_ev]. left. apply He. reflexivity.
      * inversion HP; subst. cbn [s_q]. split; [reflexivity|]. split; [exact Ho'|]. exact I.
      * inversion HP; subst. cbn [s_q]. split; [reflexivity|]. split; [exact Ho'|]. exact I.
    + destruct (q_finish s) as [r2 s2] eqn:HF. inversion HP; subst. destruct (HQ _ _ _ HF) as (F1 & F2).
      split; [exact F1|]. split; [exact Ho|]. cbn [sticky_ev]. destruct r0 as [[[]|e|p]|]; auto.
  - unfold send_reset in H. destruct (reset_code c); inversion H; subst; repeat split; auto.
  - inversion H; subst. repeat split; auto.
  - destruct (poll_send o buf s) as [[[r0 s0] b0] o0] eqn:HP. inversion H; subst.
    unfold poll_send, poll_send_with in HP.
    destruct (match s_writing s with Some _ => poll_send_guard | None => false end).
    + inversion HP; subst. repeat split; auto.
    + destruct o as [|a o1].
      * inversion HP; subst. repeat split; auto.
      * inversion Ho as [|? ? Ha Hr]; subst a. rewrite convert_write_error_spec in HP. cbn [of_conv] in HP.
        inversion HP; subst. split; [reflexivity|]. split; [exact Hr|]. reflexivity.
Qed.

Lemma send_run_only_fails qe ops : forall s o tr s' o',
  only_fails qe o -> send_run ops s o = (tr, s', o') ->
  qs_log (s_q s') = qs_log (s_q s) /\ only_fails qe o' /\ Forall (sticky_ev (spec_write_class qe)) tr.
Proof.
  induction ops as [|op ops IH]; intros s o tr s' o' Ho H.
  - cbn in H. inversion H; subst. repeat split; auto.
  - cbn [send_run] in H. destruct (send_step op s o) as [[r s1] o1] eqn:HS.
    destruct (send_run ops s1 o1) as [[tr1 s2] o2] eqn:HR. inversion H; subst.
    destruct (send_step_only_fails _ _ _ _ _ _ _ Ho HS) as (E1 & E2 & E3).
    destruct (IH _ _ _ _ _ E2 HR) as (F1 & F2 & F3).
    split; [congruence|]. split; [exact F2|]. constructor; assumption.
Qed.

(* (i) in EVERY reachable state, errors included, given that Quinn's write failures are final: what Quinn has been
   handed is a prefix of the concatenation of the buffers send_data accepted, in order - nothing duplicated, nothing
   interleaved, nothing from a refused buffer; and while no write has failed it is exact (with what waits in `writing`) *)
Lemma send_run_prefix ops : forall s o tr s' o' H0,
  fail_is_final o ->
  (qs_log (s_q s) ++ view_opt (s_writing s) = H0 \/ exists qe rest, only_fails qe o /\ qs_log (s_q s) ++ rest = H0) ->
  send_run ops s o = (tr, s', o') ->
  (qs_log (s_q s') ++ view_opt (s_writing s') = H0 ++ spec_handed (map abs_send tr) \/
   exists qe rest, only_fails qe o' /\ qs_log (s_q s') ++ rest = H0 ++ spec_handed (map abs_send tr)).
Proof.
  induction ops as [|op ops IH]; intros s o tr s' o' H0 Hfin HJ H.
  - cbn in H. inversion H; subst. cbn [map spec_handed]. rewrite app_nil_r. exact HJ.
  - cbn [send_run] in H. destruct (send_step op s o) as [[r s1] o1] eqn:HS.
    destruct (send_run ops s1 o1) as [[tr1 s2] o2] eqn:HR. inversion H; subst tr s' o'. clear H.
    cbn [map]. change (abs_send (op, r) :: map abs_send tr1) with ([abs_send (op, r)] ++ map abs_send tr1).
    rewrite spec_handed_app, app_assoc.
    destruct (send_step_exact _ _ _ _ _ _ HS) as (E1 & _ & _ & (used & Hu)).
    assert (Hfin1 : fail_is_final o1) by (subst o; exact (fail_is_final_suffix _ _ Hfin)).
    apply (IH _ _ _ _ _ _ Hfin1) with (2 := HR). clear IH HR.
    destruct HJ as [HJ|(qe & rest & Ho & HJ)].
    + (* exact so far *)
      assert (Hdec : no_write_failure (op, r) \/
                (exists e, (op = OPollReady \/ op = OPollFinish) /\ poll_ready o s = (Ready (Err e), s1, o1))).
      { destruct op as [b| | |c| |buf]; try (left; exact I); cbn [send_step] in HS.
        - destruct (poll_ready o s) as [[r0 s0] o0] eqn:HP. inversion HS; subst. cbn [no_write_failure].
          destruct r0 as [[[]|e|p]|]; try (left; intros C; exact C). right. exists e. auto.
        - destruct (poll_finish o s) as [[r0 s0] o0] eqn:HP. inversion HS; subst. cbn [no_write_failure].
          destruct (poll_finish_exact _ _ _ _ _ HP) as (_ & _ & _ & _ & _ & EW).
          destruct r0 as [[[]|e|p]|]; try (left; left; intros C; exact C).
          destruct e; try (right; destruct (EW I) as (e' & He' & HP'); [discriminate|]; inversion He'; subst; eexists; split; [right; reflexivity|exact HP']).
          left. right. reflexivity. }
      destruct Hdec as [Hnf|(e & Hop & HP)].
      * left. rewrite (E1 Hnf), HJ. reflexivity.
      * right. destruct (poll_ready_error_source _ _ _ _ _ HP) as (qe & used' & Hu' & _).
        destruct (poll_ready_exact _ _ _ _ _ HP) as (_ & _ & _ & _ & _ & _ & _ & (rest & EP) & EF).
        exists qe, rest. split; [rewrite Hu' in Hfin; exact (fail_is_final_after _ _ _ Hfin)|].
        rewrite (EF I) in EP. cbn [view_opt app] in EP. rewrite EP, HJ.
        (* the failing poll adds nothing to what was handed over *)
        assert (Hev : spec_handed [abs_send (op, r)] = []).
        { destruct Hop; subst op; cbn [send_step] in HS.
          - destruct (poll_ready o s) as [[? ?] ?]; inversion HS; reflexivity.
          - destruct (poll_finish o s) as [[? ?] ?]; inversion HS; reflexivity. }
        rewrite Hev, app_nil_r. reflexivity.
    + (* after a failure: Quinn takes nothing more *)
      right. destruct (send_step_only_fails _ _ _ _ _ _ _ Ho HS) as (L1 & L2 & _).
      exists qe, (rest ++ spec_handed [abs_send (op, r)]). split; [exact L2|]. rewrite L1, app_assoc, HJ. reflexivity.
Qed.

(* ====================================================================== statements as pinned in Properties/C17.v *)

Lemma write_exact_new :
  forall ops id o tr s' o', id <= varint_max ->
    send_run ops (send_new (qsend_new id)) o = (tr, s', o') ->
    (Forall no_write_failure tr -> qs_log (s_q s') ++ view_opt (s_writing s') = spec_handed (map abs_send tr)) /\
    Forall send_ev_ok tr /\ map fst tr = ops.
Proof.
  intros ops id o tr s' o' Hid H. destruct (send_run_exact _ _ _ _ _ _ H) as (E1 & _ & E3 & E4).
  split; [exact E1|]. split; [apply E3; exact Hid|exact E4].
Qed.

(* Quinn refuses a write (the peer stopped the stream, the connection is gone, the stream was finished): poll_ready
   reports the error in its class, the rest of the buffer is given up (`writing = None`), what Quinn took before stays
   and nothing else was added; a later send_data is accepted again (and fails the same way when Quinn keeps
   refusing) instead of being refused as a misuse of the send half *)
Lemma write_failure_gives_up :
  forall o s e s' o', poll_ready o s = (Ready (Err e), s', o') ->
    s_writing s' = None /\
    (exists rest, qs_log (s_q s') ++ rest = qs_log (s_q s) ++ view_opt (s_writing s)) /\
    (exists qe used, o = used ++ WFail qe :: o' /\ e = spec_write_class qe) /\
    (forall b, send_data b s' = (Ok tt, {| s_q := s_q s'; s_writing := Some b |})) /\
    (forall b qe2 o2, wb_has_remaining b = true ->
       fst (fst (poll_ready (WFail qe2 :: o2) {| s_q := s_q s'; s_writing := Some b |})) = Ready (Err (spec_write_class qe2))).
Proof.
  intros o s e s' o' H.
  destruct (poll_ready_exact _ _ _ _ _ H) as (_ & _ & _ & _ & _ & _ & _ & (rest & EP) & EF).
  assert (Hw : s_writing s' = None) by (apply EF; exact I).
  split; [exact Hw|]. split; [exists rest; rewrite Hw in EP; exact EP|]. split.
  - exact (poll_ready_error_source _ _ _ _ _ H).
  - split.
    + intros b. apply send_data_accepted. exact Hw.
    + intros b qe2 o2 Hrem.
      unfold poll_ready. cbn [s_writing s_q write_loop]. rewrite Hrem. rewrite convert_write_error_spec. reflexivity.
Qed.

Lemma write_complete_new :
  forall ops id o tr s' o',
    send_run (ops ++ [OPollReady]) (send_new (qsend_new id)) o = (tr, s', o') ->
    (exists tr0, tr = tr0 ++ [(OPollReady, SRPoll (Ready (Ok tt)))]) ->
    Forall no_write_failure tr ->
    s_writing s' = None /\ qs_log (s_q s') = spec_handed (map abs_send tr).
Proof. intros ops id o tr s' o' H1 H2 H3. exact (send_run_complete _ _ _ _ _ _ H1 H2 H3). Qed.

Lemma poll_ready_any_split :
  forall o s r s' o', poll_ready o s = (r, s', o') ->
    (~ poll_failed r -> qs_log (s_q s') ++ view_opt (s_writing s') = qs_log (s_q s) ++ view_opt (s_writing s)) /\
    (exists rest, qs_log (s_q s') ++ view_opt (s_writing s') ++ rest = qs_log (s_q s) ++ view_opt (s_writing s)) /\
    poll_not_panic r /\ (r = Ready (Ok tt) -> s_writing s' = None) /\ (exists used, o = used ++ o').
Proof.
  intros o s r s' o' H. destruct (poll_ready_exact _ _ _ _ _ H) as (E1 & _ & _ & _ & E5 & E6 & E7 & E8 & _). auto.
Qed.

Lemma write_progress :
  forall o q data, nonempty_chunks data -> no_fail o -> len (wb_view data) <= count_pos o ->
    exists s' o', drive_ready (S (length o)) o {| s_q := q; s_writing := Some data |} = (Ready (Ok tt), s', o') /\
      s_writing s' = None /\ qs_log (s_q s') = qs_log q ++ wb_view data.
Proof. intros o q data H1 H2 H3. apply drive_ready_complete; auto. Qed.

Lemma send_id_constant_new :
  forall ops id o tr s' o', id <= varint_max ->
    send_run ops (send_new (qsend_new id)) o = (tr, s', o') -> send_id_events_are id tr.
Proof.
  intros ops id o tr s' o' Hid H.
  exact (send_ids_constant ops (send_new (qsend_new id)) o tr s' o' Hid H).
Qed.

Lemma handed_is_prefix :
  forall ops id o tr s' o', fail_is_final o ->
    send_run ops (send_new (qsend_new id)) o = (tr, s', o') ->
    exists rest, qs_log (s_q s') ++ rest = spec_handed (map abs_send tr) /\
      (Forall no_write_failure tr -> rest = view_opt (s_writing s')).
Proof.
  intros ops id o tr s' o' Hfin H.
  destruct (send_run_exact _ _ _ _ _ _ H) as (E1 & _ & _ & _).
  assert (H0 : qs_log (s_q (send_new (qsend_new id))) ++ view_opt (s_writing (send_new (qsend_new id))) = []
               \/ exists qe rest, only_fails qe o /\ qs_log (s_q (send_new (qsend_new id))) ++ rest = []) by (left; reflexivity).
  destruct (send_run_prefix ops _ _ _ _ _ [] Hfin H0 H) as [HL|(qe & rest & _ & HR)].
  - exists (view_opt (s_writing s')). split; [exact HL|]. intros _. reflexivity.
  - exists rest. split; [exact HR|]. intros Hnf. specialize (E1 Hnf). cbn [send_new s_q s_writing qsend_new qs_log view_opt app] in E1.
    cbn [app] in HR. rewrite <- E1 in HR. apply app_inv_head in HR. exact HR.
Qed.

Lemma write_error_is_sticky :
  forall o s e s' o', fail_is_final o -> poll_ready o s = (Ready (Err e), s', o') ->
    s_writing s' = None /\
    (forall b, send_data b s' = (Ok tt, {| s_q := s_q s'; s_writing := Some b |})) /\
    forall ops tr s2 o2, send_run ops s' o' = (tr, s2, o2) ->
      qs_log (s_q s2) = qs_log (s_q s') /\ Forall (sticky_ev e) tr.
Proof.
  intros o s e s' o' Hfin H.
  destruct (write_failure_gives_up _ _ _ _ _ H) as (Hw & _ & (qe & used & Hu & He) & Hacc & _).
  split; [exact Hw|]. split; [exact Hacc|].
  intros ops tr s2 o2 HR. rewrite Hu in Hfin. pose proof (fail_is_final_after _ _ _ Hfin) as Ho.
  destruct (send_run_only_fails _ _ _ _ _ _ _ Ho HR) as (F1 & _ & F3). subst e. split; assumption.
Qed.
