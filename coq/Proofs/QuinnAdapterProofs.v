From H3V Require Import Base.Bytes Base.BytesLemmas Gen.GenQuinn Spec.RFC9000 Spec.QuinnApi Spec.AdapterSpec
  Model.Varint Model.QuinnAdapter Proofs.VarintProofs.
From Coq Require Import ZifyBool ZifyNat ZifyN.
Ltac Zify.zify_post_hook ::= Z.div_mod_to_equations.

(* ====================================================================== generated facts used below *)
Lemma fact_guard : send_data_guard = true. Proof. reflexivity. Qed.
Lemma fact_refusal : refusal_error = Err spec_refusal. Proof. reflexivity. Qed.
Lemma fact_advance : poll_ready_advances_by_written = true. Proof. reflexivity. Qed.
Lemma fact_clears : poll_ready_clears_writing = true. Proof. reflexivity. Qed.
Lemma fact_cached : recv_id_cached = true. Proof. reflexivity. Qed.
Lemma fact_puts_back : poll_data_puts_back = true. Proof. reflexivity. Qed.
Lemma fact_puts_back_on_error : poll_data_puts_back_on_error = true. Proof. reflexivity. Qed.
Lemma fact_delivers : poll_data_delivers_stop = true. Proof. reflexivity. Qed.
Lemma fact_defers : stop_sending_defers = true. Proof. reflexivity. Qed.
Lemma fact_saturates : reset_saturates = true. Proof. reflexivity. Qed.
Lemma fact_poll_send_guard : poll_send_guard = true. Proof. reflexivity. Qed.
Lemma fact_finish_drains : poll_finish_drains = true. Proof. reflexivity. Qed.
Lemma fact_sites : forall site, In site [site_conn_close; site_conn_opener; site_conn_poll_accept_bidi; site_conn_poll_accept_recv;
    site_conn_poll_open_bidi; site_conn_poll_open_send; site_opener_clone; site_opener_close;
    site_opener_poll_open_bidi; site_opener_poll_open_send] -> assoc site site_converts = Some true.
Proof. intros site H. cbn in H. repeat (destruct H as [H|H]; [subst; reflexivity|]). contradiction. Qed.

(* ====================================================================== T3: conversion tables *)

Lemma convert_connection_error_spec e : convert_connection_error e = Ok (spec_conn_class e).
Proof. destruct e; reflexivity. Qed.

Lemma convert_write_error_spec e : convert_write_error e = Ok (spec_write_class e).
Proof. destruct e as [c|ce| |]; try reflexivity. destruct ce; reflexivity. Qed.

Lemma convert_read_error_spec e :
  convert_read_error e = match spec_read_class e with Some c => Ok c | None => Panic 33 end.
Proof. destruct e as [c|ce| | |]; try reflexivity. destruct ce; reflexivity. Qed.

Lemma convert_h3_error_to_datagram_error_id c : convert_h3_error_to_datagram_error c = Ok c.
Proof. destruct c; reflexivity. Qed.

Lemma convert_send_datagram_error_spec e : convert_send_datagram_error e = Ok (spec_dgram_class e).
Proof. destruct e as [| | |ce]; try reflexivity. destruct ce; reflexivity. Qed.

(* the datagram Quinn is given is the whole encoded datagram; errors by class *)
Lemma send_datagram_spec view a :
  send_datagram view a = match a with None => Ok view | Some e => Err (spec_dgram_class e) end.
Proof. unfold send_datagram. destruct a as [e|]; [rewrite convert_send_datagram_error_spec|]; reflexivity. Qed.

Lemma poll_incoming_datagram_spec a :
  poll_incoming_datagram a =
    match a with
    | Pending => Pending
    | Ready (Ok b) => Ready (Ok b)
    | Ready (Err e) => Ready (Err (spec_conn_class e))
    | Ready (Panic p) => Ready (Panic p)
    end.
Proof. destruct a as [[b|e|p]|]; try reflexivity. cbn. rewrite convert_connection_error_spec. reflexivity. Qed.

Lemma read_class_none_iff e : spec_read_class e = None <-> e = QRIllegalOrderedRead.
Proof. destruct e; cbn; split; intros H; congruence. Qed.

(* the peer's code is preserved, spelled out *)
Lemma codes_preserved c :
  convert_connection_error (QApplicationClosed c) = Ok (HApplicationClose c) /\
  convert_connection_error QTimedOut = Ok HTimeout /\
  convert_read_error (QRReset c) = Ok (HStreamTerminated c) /\
  convert_write_error (QWStopped c) = Ok (HStreamTerminated c) /\
  convert_read_error (QRConnectionLost (QApplicationClosed c)) = Ok (HConnErr (HApplicationClose c)) /\
  convert_write_error (QWConnectionLost (QApplicationClosed c)) = Ok (HConnErr (HApplicationClose c)) /\
  convert_read_error (QRConnectionLost QTimedOut) = Ok (HConnErr HTimeout) /\
  convert_write_error (QWConnectionLost QTimedOut) = Ok (HConnErr HTimeout).
Proof. repeat split; reflexivity. Qed.

(* ====================================================================== the buffer *)

Definition nonempty_chunks (p : list bytes) : Prop := Forall (fun c => c <> []) p.

Lemma len_nil_iff (l : bytes) : len l = 0 <-> l = [].
Proof. unfold len. destruct l; cbn; split; intros; try congruence; lia. Qed.

Lemma skipn_app_le {A} n (a b : list A) : (n <= length a)%nat -> skipn n (a ++ b) = skipn n a ++ b.
Proof. intros H. rewrite skipn_app. replace (n - length a)%nat with 0%nat by lia. reflexivity. Qed.

Lemma skipn_app_ge {A} n (a b : list A) : (length a <= n)%nat -> skipn n (a ++ b) = skipn (n - length a) b.
Proof. intros H. rewrite skipn_app. rewrite skipn_all2 by lia. reflexivity. Qed.

Lemma firstn_app_le {A} n (a b : list A) : (n <= length a)%nat -> firstn n (a ++ b) = firstn n a.
Proof. intros H. rewrite firstn_app. replace (n - length a)%nat with 0%nat by lia. cbn. apply app_nil_r. Qed.

Lemma wb_advance_ok n b :
  n <= len (wb_view b) ->
  exists b', wb_advance n b = Some b' /\ wb_view b' = skipn (N.to_nat n) (wb_view b).
Proof.
  unfold wb_view. revert n. induction b as [|c r IH]; intros n Hn.
  - cbn in Hn. unfold len in Hn. cbn in Hn. assert (Hz : n = 0) by lia. subst. exists []. split; reflexivity.
  - cbn [wb_advance concat] in *. rewrite len_app in Hn.
    destruct (N.ltb_spec n (len c)) as [Hlt|Hge].
    + exists (skipn (N.to_nat n) c :: r). split; [reflexivity|].
      cbn [concat]. rewrite skipn_app_le; [reflexivity|]. unfold len in Hlt. lia.
    + destruct (IH (n - len c)) as (b' & H1 & H2); [lia|].
      exists b'. split; [exact H1|]. rewrite H2.
      rewrite skipn_app_ge by (unfold len in Hge; lia). f_equal. unfold len. lia.
Qed.

Lemma wb_advance_nonempty n b b' :
  nonempty_chunks b -> wb_advance n b = Some b' -> nonempty_chunks b'.
Proof.
  revert n b'. induction b as [|c r IH]; intros n b' Hne H.
  - cbn in H. destruct (n =? 0); inversion H. constructor.
  - inversion Hne as [|? ? Hc Hr]; subst. cbn [wb_advance] in H.
    destruct (N.ltb_spec n (len c)) as [Hlt|Hge].
    + inversion H; subst. constructor; [|exact Hr].
      intros E. apply (f_equal (@length N)) in E. rewrite skipn_length in E. unfold len in Hlt. cbn in E. lia.
    + eapply IH; eauto.
Qed.

Lemma has_remaining_false b : wb_has_remaining b = false -> wb_view b = [].
Proof.
  unfold wb_has_remaining. intros H. apply len_nil_iff. destruct (N.eqb_spec (len (wb_view b)) 0); [assumption|discriminate].
Qed.

Lemma has_remaining_true b : wb_has_remaining b = true -> 0 < len (wb_view b).
Proof. unfold wb_has_remaining. intros H. destruct (N.eqb_spec (len (wb_view b)) 0); [discriminate|lia]. Qed.

Lemma chunk_prefix b : exists rest, wb_view b = wb_chunk b ++ rest.
Proof. destruct b as [|c r]; [exists []; reflexivity|exists (concat r); reflexivity]. Qed.

Lemma chunk_nonempty b : nonempty_chunks b -> wb_has_remaining b = true -> wb_chunk b <> [].
Proof.
  intros Hne Hr. apply has_remaining_true in Hr. destruct b as [|c r].
  - cbn in Hr. unfold len in Hr. cbn in Hr. lia.
  - inversion Hne; assumption.
Qed.

(* ====================================================================== T1: the write loop *)

Definition view_opt (w : option wbuf) : bytes := match w with Some d => wb_view d | None => [] end.

Definition not_panic {E A} (r : res E A) : Prop := match r with Panic _ => False | _ => True end.
Definition poll_not_panic {E A} (p : poll (res E A)) : Prop := match p with Ready r => not_panic r | Pending => True end.

Lemma of_conv_write_not_panic {A} e : not_panic (@of_conv A (convert_write_error e)).
Proof. rewrite convert_write_error_spec. exact I. Qed.

(* every oracle: whatever Quinn answers, what it has been handed plus what is still waiting is unchanged,
   in order; "ready" means nothing is waiting *)
Lemma write_loop_exact o : forall q data r q' w' o',
  write_loop o q data = (r, q', w', o') ->
  qs_log q' ++ view_opt w' = qs_log q ++ wb_view data /\
  qs_id q' = qs_id q /\ qs_finished q' = qs_finished q /\ qs_reset q' = qs_reset q /\
  poll_not_panic r /\
  (r = Ready (Ok tt) -> w' = None) /\
  (r <> Ready (Ok tt) -> exists d, w' = Some d /\ wb_has_remaining d = true) /\
  (exists used, o = used ++ o').
Proof.
  induction o as [|a o IH]; intros q data r q' w' o' H.
  - cbn [write_loop] in H. destruct (wb_has_remaining data) eqn:Hrem.
    + inversion H; subst. cbn [view_opt]. repeat split; auto; try discriminate.
      * intros _. exists data. auto.
      * exists []. reflexivity.
    + rewrite fact_clears in H. inversion H; subst. cbn [view_opt]. rewrite (has_remaining_false _ Hrem).
      repeat split; auto; try (intros C; congruence). exists []. reflexivity.
  - cbn [write_loop] in H. destruct (wb_has_remaining data) eqn:Hrem.
    + destruct a as [k| |e].
      * rewrite fact_advance in H.
        set (c := wb_chunk data) in *. set (w := N.min k (len c)) in *.
        destruct (chunk_prefix data) as (rest & Hview). fold c in Hview.
        assert (Hw : w <= len (wb_view data)) by (rewrite Hview, len_app; unfold w; lia).
        destruct (wb_advance_ok w data Hw) as (d' & Hadv & Hv'). rewrite Hadv in H.
        destruct (IH _ _ _ _ _ _ H) as (E1 & E2 & E3 & E4 & E5 & E6 & E7 & (used & E8)).
        cbn [q_accept qs_log qs_id qs_finished qs_reset] in *.
        repeat split; auto.
        -- rewrite E1, Hv'. rewrite <- app_assoc. f_equal.
           assert (Hf : firstn (N.to_nat w) c = firstn (N.to_nat w) (wb_view data)).
           { rewrite Hview. rewrite firstn_app_le; [reflexivity|]. unfold w, len. lia. }
           rewrite Hf. apply firstn_skipn.
        -- exists (WAccept k :: used). rewrite E8. reflexivity.
      * inversion H; subst. cbn [view_opt]. repeat split; auto; try discriminate.
        -- intros _. exists data. auto.
        -- exists [WBlocked]. reflexivity.
      * inversion H; subst. cbn [view_opt]. repeat split; auto.
        -- apply (@of_conv_write_not_panic unit).
        -- intros C. rewrite convert_write_error_spec in C. discriminate.
        -- intros _. exists data. auto.
        -- exists [WFail e]. reflexivity.
    + rewrite fact_clears in H. inversion H; subst. cbn [view_opt]. rewrite (has_remaining_false _ Hrem).
      repeat split; auto; try (intros C; congruence). exists []. reflexivity.
Qed.

Lemma poll_ready_exact o s r s' o' :
  poll_ready o s = (r, s', o') ->
  qs_log (s_q s') ++ view_opt (s_writing s') = qs_log (s_q s) ++ view_opt (s_writing s) /\
  qs_id (s_q s') = qs_id (s_q s) /\ qs_finished (s_q s') = qs_finished (s_q s) /\ qs_reset (s_q s') = qs_reset (s_q s) /\
  poll_not_panic r /\
  (r = Ready (Ok tt) -> s_writing s' = None) /\
  (exists used, o = used ++ o').
Proof.
  unfold poll_ready. destruct (s_writing s) as [data|] eqn:Hw.
  - destruct (write_loop o (s_q s) data) as [[[r0 q0] w0] o0] eqn:HL. intros H. inversion H; subst. cbn [s_q s_writing].
    destruct (write_loop_exact _ _ _ _ _ _ _ HL) as (E1 & E2 & E3 & E4 & E5 & E6 & _ & E8).
    cbn [view_opt]. repeat split; auto.
  - intros H. inversion H; subst. rewrite Hw. repeat split; auto. exists []. reflexivity.
Qed.

(* SendStreamUnframed::poll_send.  While a framed write is unfinished it is refused (the Rust panics) and
   touches nothing: the raw bytes are never interleaved with the buffer in flight. *)
Lemma poll_send_refused o buf d s :
  s_writing s = Some d -> poll_send o buf s = (Ready (Panic 41), s, buf, o).
Proof. intros H. unfold poll_send, poll_send_with. rewrite H, fact_poll_send_guard. reflexivity. Qed.

(* the bytes of the caller's buffer that a poll_send result reports as written *)
Definition raw_of (r : poll (sres N)) (buf : wbuf) : bytes :=
  match r with Ready (Ok k) => firstn (N.to_nat k) (wb_view buf) | _ => [] end.

(* With no write pending: whatever Quinn answers, a prefix of the caller's buffer is handed over and the
   buffer is advanced by exactly the count reported; no panic *)
Lemma poll_send_exact o buf s r s' buf' o' :
  s_writing s = None ->
  poll_send o buf s = (r, s', buf', o') ->
  qs_log (s_q s') ++ wb_view buf' = qs_log (s_q s) ++ wb_view buf /\
  s_writing s' = None /\ qs_id (s_q s') = qs_id (s_q s) /\
  poll_not_panic r /\
  (forall k, r = Ready (Ok k) -> len (wb_view buf') + k = len (wb_view buf)) /\
  qs_log (s_q s') = qs_log (s_q s) ++ raw_of r buf /\
  (exists used, o = used ++ o').
Proof.
  intros Hw H. unfold poll_send, poll_send_with in H. rewrite Hw in H.
  destruct o as [|[k| |e] o1].
  - inversion H; subst. cbn [raw_of]. rewrite app_nil_r. repeat split; auto. intros k E. discriminate. exists []. reflexivity.
  - set (c := wb_chunk buf) in *. set (w := N.min k (len c)) in *.
    destruct (chunk_prefix buf) as (rest & Hview). fold c in Hview.
    assert (Hwle : w <= len (wb_view buf)) by (rewrite Hview, len_app; unfold w; lia).
    destruct (wb_advance_ok w buf Hwle) as (b' & Hadv & Hv'). rewrite Hadv in H. inversion H; subst.
    cbn [s_q s_writing q_accept qs_log qs_id raw_of].
    assert (Hf : firstn (N.to_nat w) c = firstn (N.to_nat w) (wb_view buf)).
    { rewrite Hview. rewrite firstn_app_le; [reflexivity|]. unfold w, len. lia. }
    repeat split; auto.
    + rewrite Hv'. rewrite <- app_assoc. f_equal. rewrite Hf. apply firstn_skipn.
    + intros k0 E. inversion E; subst k0. rewrite Hv'. unfold len. rewrite skipn_length. unfold len in Hwle. lia.
    + rewrite Hf. reflexivity.
    + exists [WAccept k]. reflexivity.
  - inversion H; subst. cbn [raw_of]. rewrite app_nil_r. repeat split; auto. intros k E. discriminate. exists [WBlocked]. reflexivity.
  - inversion H; subst. cbn [raw_of].
    assert (Hnp : poll_not_panic (Ready (@of_conv N (convert_write_error e)))) by apply (@of_conv_write_not_panic N).
    assert (Hne : forall k, Ready (@of_conv N (convert_write_error e)) <> Ready (Ok k)).
    { intros k E. rewrite convert_write_error_spec in E. discriminate. }
    rewrite convert_write_error_spec in *. cbn [of_conv raw_of] in *. rewrite app_nil_r.
    repeat split; auto. intros k E. exfalso. exact (Hne k E). exists [WFail e]. reflexivity.
Qed.

(* poll_finish: a pending write is drained first; finish() itself touches neither the log nor `writing` *)
Lemma q_finish_exact s r s' :
  q_finish s = (r, s') ->
  qs_log (s_q s') = qs_log (s_q s) /\ s_writing s' = s_writing s /\ qs_id (s_q s') = qs_id (s_q s) /\ poll_not_panic r /\
  (r = Ready (Ok tt) -> qs_finished (s_q s') = true).
Proof.
  unfold q_finish. destruct (qs_finished (s_q s) || match qs_reset (s_q s) with Some _ => true | None => false end);
    intros H; inversion H; subst; cbn; repeat split; auto; discriminate.
Qed.

Lemma poll_finish_exact o s r s' o' :
  poll_finish o s = (r, s', o') ->
  qs_log (s_q s') ++ view_opt (s_writing s') = qs_log (s_q s) ++ view_opt (s_writing s) /\
  qs_id (s_q s') = qs_id (s_q s) /\
  poll_not_panic r /\
  (r = Ready (Ok tt) -> s_writing s' = None /\ qs_finished (s_q s') = true) /\
  (exists used, o = used ++ o').
Proof.
  unfold poll_finish, poll_finish_with. rewrite fact_finish_drains.
  destruct (s_writing s) as [d|] eqn:Hw.
  - destruct (poll_ready o s) as [[r1 s1] o1] eqn:HP.
    destruct (poll_ready_exact _ _ _ _ _ HP) as (E1 & E2 & _ & _ & E5 & E6 & E7).
    destruct r1 as [[[]|e|p]|].
    + destruct (q_finish s1) as [r2 s2] eqn:HF. intros H. inversion H; subst.
      destruct (q_finish_exact _ _ _ HF) as (F1 & F2 & F3 & F4 & F5).
      rewrite F1, F2, F3. split; [rewrite E1, Hw; reflexivity|]. split; [exact E2|]. split; [exact F4|]. split; [|exact E7].
      intros Hr. split; [apply E6; reflexivity|apply F5; exact Hr].
    + intros H. inversion H; subst. rewrite Hw in E1. repeat split; auto; discriminate.
    + intros H. inversion H; subst. rewrite Hw in E1. repeat split; auto; discriminate.
    + intros H. inversion H; subst. rewrite Hw in E1. repeat split; auto; discriminate.
  - destruct (q_finish s) as [r2 s2] eqn:HF. intros H. inversion H; subst.
    destruct (q_finish_exact _ _ _ HF) as (F1 & F2 & F3 & F4 & F5).
    rewrite F1, F2, F3, Hw. repeat split; auto. exists []. reflexivity.
Qed.

(* T1c: an overlapping send_data is refused and touches nothing *)
Lemma send_data_refused b d s :
  s_writing s = Some d -> send_data b s = (Err spec_refusal, s).
Proof. intros H. unfold send_data, send_data_with. rewrite H, fact_guard, fact_refusal. reflexivity. Qed.

Lemma send_data_accepted b s :
  s_writing s = None -> send_data b s = (Ok tt, {| s_q := s_q s; s_writing := Some b |}).
Proof. intros H. unfold send_data, send_data_with. rewrite H. reflexivity. Qed.

(* abstraction of a model trace into the specification's events *)
Definition abs_send (ev : send_op * send_result) : send_event :=
  match ev with
  | (OSendData b, SRUnit (Ok _)) => EvAccepted b
  | (OSendData _, _) => EvRefused
  | (OPollSend buf, SRSend (Ready (Ok k))) => EvRaw (firstn (N.to_nat k) (wb_view buf))
  | (OPollSend _, SRSend (Ready (Panic _))) => EvRefused
  | _ => EvSendOther
  end.

(* no call panics, with ONE deliberate exception: poll_send issued while a framed write is unfinished is
   refused by the Rust `panic!` (site 41, see poll_send_refused) *)
Definition send_ev_ok (ev : send_op * send_result) : Prop :=
  match snd ev with
  | SRUnit r => not_panic r
  | SRPoll p => poll_not_panic p
  | SRId r => not_panic r
  | SRNone r => not_panic r
  | SRSend (Ready (Panic p)) => p = 41
  | SRSend _ => True
  end.

Lemma send_id_ok s : qs_id (s_q s) <= varint_max -> send_id s = Ok (qs_id (s_q s)).
Proof.
  intros H. unfold send_id. rewrite sid_try_from_spec. unfold varint_max in H.
  destruct (N.ltb_spec (qs_id (s_q s)) (2 ^ 62)); [reflexivity|lia].
Qed.

Lemma send_step_exact op s o r s' o' :
  send_step op s o = (r, s', o') ->
  qs_log (s_q s') ++ view_opt (s_writing s') =
    (qs_log (s_q s) ++ view_opt (s_writing s)) ++ spec_handed [abs_send (op, r)] /\
  qs_id (s_q s') = qs_id (s_q s) /\
  (qs_id (s_q s) <= varint_max -> send_ev_ok (op, r)) /\
  (exists used, o = used ++ o').
Proof.
  destruct op as [b| | |c| |buf]; cbn [send_step]; intros H.
  6: {
    destruct (s_writing s) as [d|] eqn:Hw.
    - rewrite (poll_send_refused o buf d s Hw) in H. inversion H; subst. cbn [abs_send spec_handed].
      rewrite app_nil_r, ?Hw. split; [reflexivity|]. split; [reflexivity|]. split; [intros _; reflexivity|].
      exists []. reflexivity.
    - destruct (poll_send o buf s) as [[[r0 s0] b0] o0] eqn:HP. inversion H; subst.
      destruct (poll_send_exact _ _ _ _ _ _ _ Hw HP) as (_ & E2 & E3 & E4 & _ & E6 & E7).
      rewrite E2. cbn [view_opt]. rewrite !app_nil_r. rewrite E6.
      split.
      + f_equal. destruct r0 as [[k|e|p]|]; cbn [raw_of abs_send spec_handed]; rewrite ?app_nil_r; reflexivity.
      + split; [exact E3|]. split; [|exact E7]. intros _. unfold send_ev_ok. cbn [snd].
        destruct r0 as [[k|e|p]|]; auto. cbn in E4. contradiction. }
  - destruct (s_writing s) as [d|] eqn:Hw.
    + rewrite (send_data_refused b d s Hw) in H. inversion H; subst. cbn. rewrite app_nil_r, ?Hw. cbn [view_opt].
      repeat split; auto. exists []. reflexivity.
    + rewrite (send_data_accepted b s Hw) in H. inversion H; subst. cbn [s_q s_writing view_opt abs_send spec_handed].
      rewrite ?Hw. cbn [view_opt]. rewrite !app_nil_r. unfold wb_view.
      repeat split; auto. exists []. reflexivity.
  - destruct (poll_ready o s) as [[r0 s0] o0] eqn:HP. inversion H; subst.
    destruct (poll_ready_exact _ _ _ _ _ HP) as (E1 & E2 & _ & _ & E5 & _ & E7).
    cbn [abs_send spec_handed]. rewrite app_nil_r. repeat split; auto.
  - destruct (poll_finish o s) as [[r0 s0] o0] eqn:HP. inversion H; subst.
    destruct (poll_finish_exact _ _ _ _ _ HP) as (E1 & E2 & E3 & _ & E5).
    cbn [abs_send spec_handed]. rewrite app_nil_r. repeat split; auto.
  - unfold send_reset, reset_code in H. rewrite fact_saturates in H.
    destruct (c <=? varint_max); inversion H; subst; cbn; rewrite app_nil_r; repeat split; auto; exists []; reflexivity.
  - inversion H; subst. cbn [abs_send spec_handed]. rewrite app_nil_r. repeat split; auto.
    + intros Hid. unfold send_ev_ok. cbn [snd]. rewrite send_id_ok by assumption. exact I.
    + exists []. reflexivity.
Qed.

Lemma spec_handed_app a b : spec_handed (a ++ b) = spec_handed a ++ spec_handed b.
Proof.
  induction a as [|e a IH]; [reflexivity|]. cbn [app spec_handed]. destruct e; rewrite IH; try reflexivity; apply app_assoc.
Qed.

(* T1a: for every program and every oracle *)
Lemma send_run_exact ops : forall s o tr s' o',
  send_run ops s o = (tr, s', o') ->
  qs_log (s_q s') ++ view_opt (s_writing s') =
    (qs_log (s_q s) ++ view_opt (s_writing s)) ++ spec_handed (map abs_send tr) /\
  qs_id (s_q s') = qs_id (s_q s) /\
  (qs_id (s_q s) <= varint_max -> Forall send_ev_ok tr) /\
  map fst tr = ops.
Proof.
  induction ops as [|op ops IH]; intros s o tr s' o' H.
  - cbn in H. inversion H; subst. cbn. rewrite app_nil_r. repeat split; auto.
  - cbn [send_run] in H. destruct (send_step op s o) as [[r s1] o1] eqn:HS.
    destruct (send_run ops s1 o1) as [[tr1 s2] o2] eqn:HR. inversion H; subst.
    destruct (send_step_exact _ _ _ _ _ _ HS) as (E1 & E2 & E3 & _).
    destruct (IH _ _ _ _ _ HR) as (F1 & F2 & F3 & F4).
    repeat split.
    + rewrite F1, E1. cbn [map]. change (abs_send (op, r) :: map abs_send tr1) with ([abs_send (op, r)] ++ map abs_send tr1).
      rewrite spec_handed_app. rewrite !app_assoc. reflexivity.
    + congruence.
    + intros Hid. constructor; [apply E3; assumption|]. apply F3. rewrite E2. assumption.
    + cbn [map fst]. rewrite F4. reflexivity.
Qed.

(* T1b: completion.  When the last step of a program is a poll_ready that answered Ready(Ok), Quinn has
   been handed exactly the accepted buffers *)
Lemma send_run_complete ops s o tr s' o' :
  send_run (ops ++ [OPollReady]) s o = (tr, s', o') ->
  (exists tr0, tr = tr0 ++ [(OPollReady, SRPoll (Ready (Ok tt)))]) ->
  s_writing s' = None /\
  qs_log (s_q s') = (qs_log (s_q s) ++ view_opt (s_writing s)) ++ spec_handed (map abs_send tr).
Proof.
  intros H (tr0 & Htr).
  assert (Hsplit : forall ops1 ops2 s o,
    send_run (ops1 ++ ops2) s o =
      let '(t1, s1, o1) := send_run ops1 s o in let '(t2, s2, o2) := send_run ops2 s1 o1 in (t1 ++ t2, s2, o2)).
  { clear. induction ops1 as [|op ops1 IH]; intros ops2 s o.
    - cbn. destruct (send_run ops2 s o) as [[t2 s2] o2]. reflexivity.
    - cbn [app send_run]. destruct (send_step op s o) as [[r s1] o1]. rewrite IH.
      destruct (send_run ops1 s1 o1) as [[t1 s2] o2]. destruct (send_run ops2 s2 o2) as [[t2 s3] o3]. reflexivity. }
  pose proof (send_run_exact _ _ _ _ _ _ H) as (E1 & _ & _ & _).
  rewrite Hsplit in H. destruct (send_run ops s o) as [[t1 s1] o1] eqn:H1.
  cbn [send_run send_step] in H. destruct (poll_ready o1 s1) as [[r2 s2] o2] eqn:HP.
  injection H as Htr' Hs' Ho'. subst s2 o2.
  rewrite Htr in Htr'. apply app_inj_tail in Htr'. destruct Htr' as [_ Heq]. injection Heq as Hr. subst r2.
  destruct (poll_ready_exact _ _ _ _ _ HP) as (_ & _ & _ & _ & _ & E6 & _).
  specialize (E6 eq_refl). split; [exact E6|]. rewrite E6 in E1. cbn [view_opt] in E1. rewrite app_nil_r in E1. exact E1.
Qed.

(* ---------------------------------------------------------------------- progress *)

Fixpoint count_pos (o : list wanswer) : N :=
  match o with
  | [] => 0
  | WAccept k :: r => (if 0 <? k then 1 else 0) + count_pos r
  | _ :: r => count_pos r
  end.
Definition no_fail (o : list wanswer) : Prop := Forall (fun a => match a with WFail _ => False | _ => True end) o.

Lemma write_loop_progress o : forall q data,
  nonempty_chunks data -> no_fail o -> len (wb_view data) <= count_pos o ->
  exists r q' w' o', write_loop o q data = (r, q', w', o') /\
    ((r = Ready (Ok tt) /\ w' = None /\ qs_log q' = qs_log q ++ wb_view data) \/
     (r = Pending /\ exists d, w' = Some d /\ nonempty_chunks d /\ no_fail o' /\
        len (wb_view d) <= count_pos o' /\ 0 < len (wb_view d) /\ (length o' < length o)%nat /\
        qs_log q' ++ wb_view d = qs_log q ++ wb_view data)).
Proof.
  induction o as [|a o IH]; intros q data Hne Hnf Hcnt.
  - cbn [write_loop count_pos] in *. destruct (wb_has_remaining data) eqn:Hrem.
    + apply has_remaining_true in Hrem. lia.
    + rewrite fact_clears. do 4 eexists. split; [reflexivity|]. left.
      rewrite (has_remaining_false _ Hrem), app_nil_r. auto.
  - cbn [write_loop]. destruct (wb_has_remaining data) eqn:Hrem.
    + inversion Hnf as [|? ? Ha Hnf']; subst.
      destruct a as [k| |e]; [| |contradiction].
      * rewrite fact_advance.
        set (c := wb_chunk data) in *. set (w := N.min k (len c)) in *.
        destruct (chunk_prefix data) as (rest & Hview). fold c in Hview.
        assert (Hw : w <= len (wb_view data)) by (rewrite Hview, len_app; unfold w; lia).
        destruct (wb_advance_ok w data Hw) as (d' & Hadv & Hv'). rewrite Hadv.
        assert (Hc : c <> []) by (apply chunk_nonempty; assumption).
        assert (Hclen : 0 < len c) by (destruct c; [congruence|unfold len; cbn; lia]).
        cbn [count_pos] in Hcnt.
        assert (Hlen' : len (wb_view d') = len (wb_view data) - w).
        { rewrite Hv'. unfold len. rewrite skipn_length. lia. }
        assert (Hcnt' : len (wb_view d') <= count_pos o).
        { rewrite Hlen'. destruct (N.ltb_spec 0 k); unfold w; lia. }
        destruct (IH (q_accept q (firstn (N.to_nat w) c)) d' (wb_advance_nonempty _ _ _ Hne Hadv) Hnf' Hcnt')
          as (r & q' & w' & o' & HL & Hcase).
        exists r, q', w', o'. split; [exact HL|].
        assert (Hlog : (qs_log q ++ firstn (N.to_nat w) c) ++ wb_view d' = qs_log q ++ wb_view data).
        { rewrite Hv'. rewrite <- app_assoc. f_equal.
          assert (Hf : firstn (N.to_nat w) c = firstn (N.to_nat w) (wb_view data)).
          { rewrite Hview. rewrite firstn_app_le; [reflexivity|]. unfold w, len. lia. }
          rewrite Hf. apply firstn_skipn. }
        destruct Hcase as [(R1 & R2 & R3)|(R1 & d & R2 & R3 & R4 & R5 & R6 & R7 & R8)].
        -- left. repeat split; auto. rewrite R3. cbn [q_accept qs_log]. exact Hlog.
        -- right. split; [exact R1|]. exists d. repeat split; auto.
           ++ cbn [length]. lia.
           ++ rewrite R8. cbn [q_accept qs_log]. exact Hlog.
      * do 4 eexists. split; [reflexivity|]. right. split; [reflexivity|]. exists data.
        cbn [count_pos] in Hcnt. repeat split; auto. apply has_remaining_true; assumption.
    + rewrite fact_clears. do 4 eexists. split; [reflexivity|]. left.
      rewrite (has_remaining_false _ Hrem), app_nil_r. auto.
Qed.

(* T1d: whatever the sizes Quinn accepts and wherever it blocks, as long as it does not fail and
   eventually accepts enough, polling to completion hands over exactly the buffer *)
Lemma drive_ready_complete fuel : forall o q data,
  nonempty_chunks data -> no_fail o -> len (wb_view data) <= count_pos o -> (length o < fuel)%nat ->
  exists s' o', drive_ready fuel o {| s_q := q; s_writing := Some data |} = (Ready (Ok tt), s', o') /\
    s_writing s' = None /\ qs_log (s_q s') = qs_log q ++ wb_view data.
Proof.
  induction fuel as [|f IH]; intros o q data Hne Hnf Hcnt Hfuel; [lia|].
  cbn [drive_ready poll_ready s_writing s_q].
  destruct (write_loop_progress o q data Hne Hnf Hcnt) as (r & q' & w' & o' & HL & Hcase). rewrite HL.
  destruct Hcase as [(R1 & R2 & R3)|(R1 & d & R2 & R3 & R4 & R5 & R6 & R7 & R8)]; subst.
  - do 2 eexists. split; [reflexivity|]. cbn. auto.
  - destruct o' as [|a o'']; [cbn [count_pos] in R5; lia|].
    destruct (IH (a :: o'') q' d R3 R4 R5) as (s' & o3 & HD & E1 & E2); [lia|].
    exists s', o3. split; [exact HD|]. split; [exact E1|]. rewrite E2. exact R8.
Qed.

(* ====================================================================== T2: identifiers *)

(* send side: every send_id of a program returns the same value, the Quinn stream's id *)
Definition send_id_events_are (id : N) (tr : list (send_op * send_result)) : Prop :=
  Forall (fun ev => match ev with (OSendId, r) => r = SRId (Ok id) | _ => True end) tr.

Lemma send_ids_constant ops : forall s o tr s' o',
  qs_id (s_q s) <= varint_max ->
  send_run ops s o = (tr, s', o') -> send_id_events_are (qs_id (s_q s)) tr.
Proof.
  induction ops as [|op ops IH]; intros s o tr s' o' Hid H.
  - cbn in H. inversion H. constructor.
  - cbn [send_run] in H. destruct (send_step op s o) as [[r s1] o1] eqn:HS.
    destruct (send_run ops s1 o1) as [[tr1 s2] o2] eqn:HR. inversion H; subst.
    destruct (send_step_exact _ _ _ _ _ _ HS) as (_ & E2 & _ & _).
    constructor.
    + destruct op; auto. cbn in HS. inversion HS; subst. rewrite send_id_ok by assumption. reflexivity.
    + rewrite <- E2. eapply IH; eauto. rewrite E2. assumption.
Qed.

(* receive side.  The invariant of the ownership dance: the Quinn stream is in `self.stream` or inside
   the read future, never lost, never duplicated; no stop is held while the stream is at hand *)
Definition recv_inv (id : N) (r : recv_stream) : Prop :=
  r_id r = id /\
  (exists q, underlying r = Some q /\ qr_id q = id) /\
  (r_stream r <> None -> r_pending_stop r = None).

Lemma recv_new_inv id : id <= varint_max -> exists r, recv_new (qrecv_new id) = Ok r /\ recv_inv id r /\ r_stream r <> None.
Proof.
  intros H. unfold recv_new. cbn [qrecv_new qr_id]. rewrite sid_try_from_spec. unfold varint_max in H.
  destruct (N.ltb_spec id (2 ^ 62)); [|lia]. eexists. split; [reflexivity|].
  split; [|cbn; congruence]. repeat split; cbn; eauto.
Qed.

Lemma recv_id_ok id r : recv_inv id r -> recv_id r = Ok id.
Proof. intros (H & _). unfold recv_id, recv_id_with. rewrite fact_cached. congruence. Qed.

Definition rr_not_panic (x : recv_result) : Prop :=
  match x with
  | RRData p => poll_not_panic p
  | RRStop r => not_panic r
  | RRId r => not_panic r
  end.

Definition answers_ordered (o : list ranswer) : Prop :=
  Forall (fun a => a <> RFail QRIllegalOrderedRead) o.
Definition op_codes_ok (op : recv_op) : Prop :=
  match op with OStopSending c => c <= varint_max | _ => True end.

Lemma read_result_not_panic a : a <> RBlocked -> a <> RFail QRIllegalOrderedRead -> not_panic (read_result a).
Proof.
  intros H1 H2. destruct a as [b| | |e]; cbn; auto.
  rewrite convert_read_error_spec. destruct (spec_read_class e) eqn:E; cbn; auto.
  apply read_class_none_iff in E. subst. congruence.
Qed.

Definition abs_recv (ev : recv_op * recv_result) : recv_event :=
  match ev with
  | (OStopSending c, RRStop (Ok _)) => EvStop c
  | (OPollData, RRData Pending) => EvReadPending
  | (OPollData, RRData (Ready _)) => EvReadReady
  | _ => EvRecvOther
  end.

(* refinement relation between the adapter's receive state and the abstract stop-delivery state *)
Definition stop_rel (r : recv_stream) (st : stop_state) : Prop :=
  in_flight st = (match r_stream r with None => true | Some _ => false end) /\
  held st = r_pending_stop r /\
  exists q, underlying r = Some q /\ qr_stops q = delivered st.

Definition is_ready_data (x : recv_result) : option (sres (option bytes)) :=
  match x with RRData (Ready v) => Some v | _ => None end.

Definition abs_outcome (v : sres (option bytes)) : read_outcome :=
  match v with
  | Ok (Some b) => RoChunk b
  | Ok None => RoEnd
  | Err e => RoError (Some e)
  | Panic _ => RoError None
  end.

Lemma read_result_outcome a :
  a <> RBlocked -> Some (abs_outcome (read_result a)) = spec_read_outcome spec_read_class a.
Proof.
  intros H. destruct a as [b| | |e]; cbn; auto; [congruence|].
  rewrite convert_read_error_spec. destruct (spec_read_class e); reflexivity.
Qed.

(* poll_data under the invariant: the read future owns (or is given) the Quinn stream *)
Definition blocked_state (r : recv_stream) (q : qrecv) : recv_stream :=
  {| r_id := r_id r; r_stream := None; r_fut := FutReading q; r_pending_stop := r_pending_stop r |}.
Definition ready_state (r : recv_stream) (q : qrecv) : recv_stream :=
  {| r_id := r_id r;
     r_stream := Some match r_pending_stop r with Some c => q_stop c q | None => q end;
     r_fut := FutDone; r_pending_stop := None |}.

Lemma poll_data_char r q o :
  underlying r = Some q ->
  poll_data o r =
    match o with
    | [] => (Pending, blocked_state r q, [])
    | RBlocked :: o' => (Pending, blocked_state r q, o')
    | a :: o' => (Ready (read_result a), ready_state r q, o')
    end.
Proof.
  intros Hq. unfold poll_data.
  assert (Hf : match r_stream r with Some q0 => FutReading q0 | None => r_fut r end = FutReading q).
  { unfold underlying in Hq. destruct (r_stream r) as [q0|]; [congruence|]. destruct (r_fut r); congruence. }
  rewrite Hf, fact_delivers, fact_puts_back, fact_puts_back_on_error. unfold blocked_state, ready_state.
  destruct o as [|[b| | |e] o1]; reflexivity.
Qed.

Lemma underlying_blocked r q : underlying (blocked_state r q) = Some q.
Proof. reflexivity. Qed.

Lemma recv_step_inv id op r o x r' o' :
  recv_inv id r -> recv_step op r o = (x, r', o') -> recv_inv id r'.
Proof.
  intros (Hid & (q & Hq & Hqid) & Hps) H.
  destruct op as [|c|]; cbn [recv_step] in H.
  - rewrite (poll_data_char r q o Hq) in H.
    destruct o as [|[b| | |e] o1]; inversion H; subst x r' o'; unfold recv_inv;
      (split; [exact Hid|split; [|cbn; congruence]]).
    all: try (exists q; split; [reflexivity|exact Hqid]).
    all: cbn [ready_state underlying r_stream]; destruct (r_pending_stop r); eexists; split; try reflexivity; exact Hqid.
  - unfold stop_sending in H. destruct (varint_max <? c).
    + inversion H; subst. repeat split; eauto.
    + rewrite fact_defers in H. unfold underlying in Hq. destruct (r_stream r) as [q0|] eqn:Hs.
      * inversion Hq; subst q0. inversion H; subst x r' o'.
        split; [exact Hid|split].
        -- eexists. split; [reflexivity|exact Hqid].
        -- intros _. cbn. apply Hps. congruence.
      * inversion H; subst x r' o'.
        split; [exact Hid|split].
        -- exists q. split; [|exact Hqid]. unfold underlying. cbn. exact Hq.
        -- cbn. congruence.
  - inversion H; subst. repeat split; eauto.
Qed.

Lemma recv_step_rel id op r o x r' o' st :
  recv_inv id r -> stop_rel r st -> recv_step op r o = (x, r', o') ->
  stop_rel r' (stop_step st (abs_recv (op, x))).
Proof.
  intros (Hid & (q & Hq & Hqid) & Hps) (S1 & S2 & (q2 & Hq2 & S3)) H.
  rewrite Hq in Hq2. inversion Hq2; subst q2. clear Hq2.
  destruct op as [|c|]; cbn [recv_step] in H.
  - rewrite (poll_data_char r q o Hq) in H.
    destruct o as [|[b| | |e] o1]; inversion H; subst x r' o'; cbn [abs_recv stop_step]; unfold stop_rel.
    all: try (split; [reflexivity|split; [exact S2|exists q; split; [reflexivity|exact S3]]]).
    all: split; [reflexivity|split; [reflexivity|]];
      cbn [ready_state underlying r_stream delivered]; rewrite <- S2;
      destruct (held st); eexists; (split; [reflexivity|]); cbn [q_stop qr_stops]; rewrite S3, ?app_nil_r; reflexivity.
  - unfold stop_sending in H. destruct (varint_max <? c).
    + inversion H; subst. cbn [abs_recv stop_step]. repeat split; eauto.
    + rewrite fact_defers in H. unfold underlying in Hq. destruct (r_stream r) as [q0|] eqn:Hs.
      * inversion Hq; subst q0. inversion H; subst x r' o'. cbn [abs_recv stop_step]. rewrite S1.
        split; [reflexivity|split; [exact S2|]]. eexists. split; [reflexivity|]. cbn. rewrite S3. reflexivity.
      * inversion H; subst x r' o'. cbn [abs_recv stop_step]. rewrite S1.
        split; [reflexivity|split; [reflexivity|]]. exists q. split; [|exact S3]. unfold underlying. cbn. exact Hq.
  - inversion H; subst. cbn [abs_recv stop_step]. repeat split; eauto.
Qed.

Lemma recv_step_id id r o x r' o' :
  recv_inv id r -> recv_step ORecvId r o = (x, r', o') -> x = RRId (Ok id).
Proof. intros Hinv H. cbn [recv_step] in H. inversion H; subst. rewrite (recv_id_ok id _ Hinv). reflexivity. Qed.

Lemma recv_step_not_panic id op r o x r' o' :
  recv_inv id r -> op_codes_ok op -> answers_ordered o -> recv_step op r o = (x, r', o') -> rr_not_panic x.
Proof.
  intros Hinv Hc Hord H. pose proof Hinv as (Hid & (q & Hq & Hqid) & Hps).
  destruct op as [|c|]; cbn [recv_step] in H.
  - rewrite (poll_data_char r q o Hq) in H.
    destruct o as [|[b| | |e] o1]; inversion H; subst x r' o'; cbn; auto.
    inversion Hord as [|? ? Ha _]; subst. apply (read_result_not_panic (RFail e)); [discriminate|assumption].
  - unfold stop_sending in H. cbn in Hc. destruct (N.ltb_spec varint_max c); [lia|].
    rewrite fact_defers in H. destruct (r_stream r); inversion H; subst; exact I.
  - inversion H; subst. unfold rr_not_panic. rewrite (recv_id_ok _ _ Hinv). exact I.
Qed.

Lemma recv_step_consumes id op r o x r' o' :
  recv_inv id r -> recv_step op r o = (x, r', o') ->
  exists used, o = used ++ o' /\ spec_read_outcomes spec_read_class used = match is_ready_data x with Some v => [abs_outcome v] | None => [] end.
Proof.
  intros (Hid & (q & Hq & Hqid) & Hps) H.
  destruct op as [|c|]; cbn [recv_step] in H.
  - rewrite (poll_data_char r q o Hq) in H.
    destruct o as [|[b| | |e] o1]; inversion H; subst x r' o'.
    + exists []. split; reflexivity.
    + exists [RChunk b]. split; reflexivity.
    + exists [RFin]. split; reflexivity.
    + exists [RBlocked]. split; reflexivity.
    + exists [RFail e]. split; [reflexivity|]. cbn [spec_read_outcomes is_ready_data].
      rewrite <- (read_result_outcome (RFail e)) by discriminate. reflexivity.
  - unfold stop_sending in H. destruct (varint_max <? c); [|rewrite fact_defers in H; destruct (r_stream r)];
      inversion H; subst; exists []; split; reflexivity.
  - inversion H; subst. exists []. split; reflexivity.
Qed.

(* ====================================================================== whole receive-side programs *)

Definition ready_outcomes (tr : list (recv_op * recv_result)) : list read_outcome :=
  flat_map (fun ev => match is_ready_data (snd ev) with Some v => [abs_outcome v] | None => [] end) tr.

Lemma spec_read_outcomes_app c a b :
  spec_read_outcomes c (a ++ b) = spec_read_outcomes c a ++ spec_read_outcomes c b.
Proof.
  induction a as [|x a IH]; [reflexivity|]. cbn [app spec_read_outcomes].
  destruct (spec_read_outcome c x); rewrite IH; reflexivity.
Qed.

Lemma recv_run_ok ops : forall id r o st tr r' o',
  recv_inv id r -> stop_rel r st -> recv_run ops r o = (tr, r', o') ->
  recv_inv id r' /\ stop_rel r' (stop_run st (map abs_recv tr)) /\
  Forall (fun ev => fst ev = ORecvId -> snd ev = RRId (Ok id)) tr /\
  (Forall op_codes_ok ops -> answers_ordered o -> Forall (fun ev => rr_not_panic (snd ev)) tr) /\
  map fst tr = ops /\
  exists used, o = used ++ o' /\ spec_read_outcomes spec_read_class used = ready_outcomes tr.
Proof.
  induction ops as [|op ops IH]; intros id r o st tr r' o' Hinv Hrel H.
  - cbn in H. inversion H; subst. cbn [map stop_run fold_left].
    split; [exact Hinv|split; [exact Hrel|split; [constructor|split; [intros; constructor|split; [reflexivity|exists []; split; reflexivity]]]]].
  - cbn [recv_run] in H. destruct (recv_step op r o) as [[x r1] o1] eqn:HS.
    destruct (recv_run ops r1 o1) as [[tr1 r2] o2] eqn:HR. inversion H; subst tr r' o'. clear H.
    pose proof (recv_step_inv _ _ _ _ _ _ _ Hinv HS) as Hinv1.
    pose proof (recv_step_rel _ _ _ _ _ _ _ _ Hinv Hrel HS) as Hrel1.
    destruct (recv_step_consumes _ _ _ _ _ _ _ Hinv HS) as (u1 & Hu1 & Hs1).
    destruct (IH _ _ _ _ _ _ _ Hinv1 Hrel1 HR) as (F1 & F2 & F3 & F4 & F5 & (u2 & Hu2 & Hs2)).
    split; [exact F1|]. split; [exact F2|]. split; [|split; [|split]].
    + constructor; [|exact F3]. cbn [fst snd]. intros E. subst op. exact (recv_step_id _ _ _ _ _ _ Hinv HS).
    + intros Hc Hord. pose proof (Forall_inv Hc) as Hc1. pose proof (Forall_inv_tail Hc) as Hc2.
      constructor.
      * cbn [snd]. exact (recv_step_not_panic _ _ _ _ _ _ _ Hinv Hc1 Hord HS).
      * apply F4; [assumption|]. unfold answers_ordered in *. rewrite Hu1 in Hord. apply Forall_app in Hord. tauto.
    + cbn [map fst]. rewrite F5. reflexivity.
    + exists (u1 ++ u2). split.
      * rewrite Hu1, Hu2. apply app_assoc.
      * rewrite spec_read_outcomes_app, Hs1, Hs2. reflexivity.
Qed.

Lemma stop_rel_new r : r_stream r <> None -> r_pending_stop r = None ->
  forall q, r_stream r = Some q -> stop_rel r {| in_flight := false; held := None; delivered := qr_stops q |}.
Proof.
  intros _ Hp q Hq. unfold stop_rel. cbn. rewrite Hq, Hp. repeat split. exists q. split; [|reflexivity].
  unfold underlying. rewrite Hq. reflexivity.
Qed.

(* T2 + T4 + receive fidelity, for every program and every oracle, from a freshly accepted/opened stream *)
Lemma recv_program_ok id ops o r tr r' o' :
  id <= varint_max -> recv_new (qrecv_new id) = Ok r -> recv_run ops r o = (tr, r', o') ->
  Forall (fun ev => fst ev = ORecvId -> snd ev = RRId (Ok id)) tr /\
  (Forall op_codes_ok ops -> answers_ordered o -> Forall (fun ev => rr_not_panic (snd ev)) tr) /\
  (exists q, underlying r' = Some q /\ qr_id q = id /\
     qr_stops q = delivered (stop_run {| in_flight := false; held := None; delivered := [] |} (map abs_recv tr))) /\
  r_pending_stop r' = held (stop_run {| in_flight := false; held := None; delivered := [] |} (map abs_recv tr)) /\
  (exists used, o = used ++ o' /\ spec_read_outcomes spec_read_class used = ready_outcomes tr).
Proof.
  intros Hid Hnew Hrun. destruct (recv_new_inv id Hid) as (r0 & Hr0 & Hinv & Hs). rewrite Hnew in Hr0. inversion Hr0; subst r0.
  assert (Hrel : stop_rel r {| in_flight := false; held := None; delivered := [] |}).
  { unfold recv_new in Hnew. cbn [qrecv_new qr_id] in Hnew. destruct (sid_try_from id); inversion Hnew; subst.
    unfold stop_rel. cbn. repeat split. eexists. split; reflexivity. }
  destruct (recv_run_ok _ _ _ _ _ _ _ _ Hinv Hrel Hrun) as (F1 & (S1 & S2 & (q & Hq & S3)) & F3 & F4 & _ & F6).
  split; [exact F3|]. split; [exact F4|]. split; [|split; [congruence|exact F6]].
  destruct F1 as (_ & (q' & Hq' & Hqid) & _). rewrite Hq in Hq'. inversion Hq'; subst q'.
  exists q. auto.
Qed.

(* ---------------------------------------------------------------------- properties of the abstract stop delivery *)

Definition held_count (st : stop_state) : nat := match held st with Some _ => 1 | None => 0 end.

(* no stop is invented or duplicated: at most one delivery per request *)
Lemma stop_never_duplicated evs : forall st,
  (length (delivered (stop_run st evs)) + held_count (stop_run st evs)
   <= length (delivered st) + held_count st + count_stop_requests evs)%nat.
Proof.
  unfold stop_run, count_stop_requests. induction evs as [|e evs IH]; intros st; [cbn; lia|].
  cbn [fold_left filter]. specialize (IH (stop_step st e)).
  destruct e as [c| | |]; cbn [stop_step] in *.
  - destruct (in_flight st); unfold held_count in *; cbn [held delivered length] in *;
      rewrite ?app_length in IH; cbn [length] in *; destruct (held st); lia.
  - unfold held_count in *. cbn [held delivered] in *. lia.
  - unfold held_count in *. cbn [held delivered] in *. rewrite app_length in IH. destruct (held st); cbn [length] in *; lia.
  - lia.
Qed.

(* stops already delivered are never withdrawn or reordered *)
Lemma stop_delivered_grows evs : forall st, exists more, delivered (stop_run st evs) = delivered st ++ more.
Proof.
  unfold stop_run. induction evs as [|e evs IH]; intros st; [exists []; cbn; rewrite app_nil_r; reflexivity|].
  cbn [fold_left]. destruct (IH (stop_step st e)) as (more & Hm). rewrite Hm.
  destruct e as [c| | |]; cbn [stop_step].
  - destruct (in_flight st); cbn [delivered]; [exists more; reflexivity|]. exists ([c] ++ more). rewrite app_assoc. reflexivity.
  - exists more. reflexivity.
  - cbn [delivered]. eexists. rewrite <- app_assoc. reflexivity.
  - exists more. reflexivity.
Qed.

(* the scenario of the property text: a stop issued while the read future owns the stream *)
Lemma deferred_stop_once r q c :
  underlying r = Some q -> r_stream r = None -> c <= varint_max ->
  exists r1, stop_sending c r = (Ok tt, r1) /\
    underlying r1 = Some q /\ r_stream r1 = None /\ r_pending_stop r1 = Some c /\
    (* the read stays pending: nothing is delivered, the stop stays held *)
    (forall o, exists r2, poll_data (RBlocked :: o) r1 = (Pending, r2, o) /\
        underlying r2 = Some q /\ r_stream r2 = None /\ r_pending_stop r2 = Some c) /\
    (* the read completes, with whatever answer: delivered once, nothing left to deliver again *)
    (forall a o, a <> RBlocked -> exists r2, poll_data (a :: o) r1 = (Ready (read_result a), r2, o) /\
        r_stream r2 = Some (q_stop c q) /\ r_pending_stop r2 = None).
Proof.
  intros Hq Hs Hc. unfold stop_sending. destruct (N.ltb_spec varint_max c); [lia|].
  rewrite Hs, fact_defers. eexists. split; [reflexivity|].
  assert (Hq1 : underlying {| r_id := r_id r; r_stream := None; r_fut := r_fut r; r_pending_stop := Some c |} = Some q).
  { unfold underlying in *. rewrite Hs in Hq. cbn. exact Hq. }
  split; [exact Hq1|]. split; [reflexivity|]. split; [reflexivity|]. split.
  - intros o. rewrite (poll_data_char _ q _ Hq1). eexists. split; [reflexivity|]. repeat split.
  - intros a o Ha. rewrite (poll_data_char _ q _ Hq1). destruct a; try congruence; eexists; split; reflexivity || (split; reflexivity).
Qed.

(* the state the repaired recv_id was written for is reachable: after a pending poll the stream is
   inside the future, and recv_id still answers *)
Lemma recv_id_while_read_pending id o :
  id <= varint_max ->
  exists r r1, recv_new (qrecv_new id) = Ok r /\ poll_data (RBlocked :: o) r = (Pending, r1, o) /\
    r_stream r1 = None /\ recv_id r1 = Ok id.
Proof.
  intros Hid. destruct (recv_new_inv id Hid) as (r & Hr & Hinv & Hs).
  pose proof Hinv as (_ & (q & Hq & _) & _).
  exists r. eexists. split; [exact Hr|]. rewrite (poll_data_char r q _ Hq). split; [reflexivity|]. split; [reflexivity|].
  unfold recv_id, recv_id_with. rewrite fact_cached. cbn [blocked_state r_id]. destruct Hinv as (H1 & _ & _). congruence.
Qed.

(* after a FAILED read the stream is back in `self.stream`: it can be polled again, asked for its id and stopped
   (at once, nothing is parked), whatever Quinn answers next *)
Lemma after_failed_read id r e o :
  recv_inv id r -> e <> QRIllegalOrderedRead ->
  exists cls r2 q2,
    poll_data (RFail e :: o) r = (Ready (Err cls), r2, o) /\ spec_read_class e = Some cls /\
    r_stream r2 = Some q2 /\ r_pending_stop r2 = None /\ recv_inv id r2 /\ recv_id r2 = Ok id /\
    (forall c, c <= varint_max ->
       stop_sending c r2 = (Ok tt, {| r_id := r_id r2; r_stream := Some (q_stop c q2); r_fut := r_fut r2; r_pending_stop := None |})) /\
    (forall a o', a <> RFail QRIllegalOrderedRead ->
       exists x r3 o3, poll_data (a :: o') r2 = (x, r3, o3) /\ poll_not_panic x /\ recv_inv id r3 /\ recv_id r3 = Ok id).
Proof.
  intros Hinv He. pose proof Hinv as (Hid & (q & Hq & Hqid) & Hps).
  destruct (spec_read_class e) as [cls|] eqn:Hc; [|apply read_class_none_iff in Hc; contradiction].
  assert (Hstep : recv_step OPollData r (RFail e :: o) = (RRData (Ready (Err cls)), ready_state r q, o)).
  { cbn [recv_step]. rewrite (poll_data_char r q _ Hq). cbn [read_result]. rewrite convert_read_error_spec, Hc. reflexivity. }
  pose proof (recv_step_inv _ _ _ _ _ _ _ Hinv Hstep) as Hinv2.
  exists cls, (ready_state r q). eexists.
  split; [rewrite (poll_data_char r q _ Hq); cbn [read_result]; rewrite convert_read_error_spec, Hc; reflexivity|].
  split; [reflexivity|]. split; [reflexivity|]. split; [reflexivity|]. split; [exact Hinv2|].
  split; [apply recv_id_ok; exact Hinv2|]. split.
  - intros c Hcle. unfold stop_sending. destruct (N.ltb_spec varint_max c); [lia|]. reflexivity.
  - intros a o' Ha. destruct (recv_step OPollData (ready_state r q) (a :: o')) as [[x r3] o3] eqn:HS.
    pose proof (recv_step_inv _ _ _ _ _ _ _ Hinv2 HS) as Hinv3.
    cbn [recv_step] in HS. destruct (poll_data (a :: o') (ready_state r q)) as [[x0 r0] o0] eqn:HP.
    inversion HS; subst. exists x0, r3, o3. split; [reflexivity|]. split; [|split; [exact Hinv3|apply recv_id_ok; exact Hinv3]].
    destruct Hinv2 as (_ & (q2' & Hq2' & _) & _). rewrite (poll_data_char _ q2' _ Hq2') in HP.
    destruct a as [b| | |e']; inversion HP; subst; cbn; auto.
    apply (read_result_not_panic (RFail e')); [discriminate|exact Ha].
Qed.

(* ====================================================================== BidiStream, open / accept *)

Lemma bidi_ids id : id <= varint_max ->
  exists b, bidi_new id = Ok b /\ send_id (b_send b) = Ok id /\ recv_id (b_recv b) = Ok id.
Proof.
  intros Hid. unfold bidi_new. destruct (recv_new_inv id Hid) as (r & Hr & Hinv & _). rewrite Hr.
  eexists. split; [reflexivity|]. cbn [b_send b_recv]. split.
  - apply send_id_ok. exact Hid.
  - apply recv_id_ok. exact Hinv.
Qed.

Lemma site_error_spec site e :
  In site [site_conn_close; site_conn_opener; site_conn_poll_accept_bidi; site_conn_poll_accept_recv;
    site_conn_poll_open_bidi; site_conn_poll_open_send; site_opener_clone; site_opener_close;
    site_opener_poll_open_bidi; site_opener_poll_open_send] ->
  site_error site e = Ok (spec_conn_class e).
Proof. intros H. unfold site_error. rewrite (fact_sites site H). apply convert_connection_error_spec. Qed.

(* both `impl OpenStreams` (Connection itself; the handle from opener() and its clones) and both accepts *)
Lemma open_accept_errors w e :
  open_bidi w (Err e) = Err (HConnErr (spec_conn_class e)) /\
  open_send w (Err e) = Err (HConnErr (spec_conn_class e)) /\
  accept_recv (Err e) = Err (spec_conn_class e) /\
  accept_bidi (Err e) = Err (spec_conn_class e).
Proof.
  unfold open_bidi, open_send, accept_recv, accept_bidi, open_bidi_site, open_send_site.
  destruct w; rewrite !site_error_spec by (cbn; tauto); repeat split.
Qed.

Lemma conn_close_spec w code : code <= varint_max -> conn_close w code = Ok code.
Proof.
  intros H. unfold conn_close, close_site. destruct w; rewrite fact_sites by (cbn; tauto);
    destruct (N.ltb_spec varint_max code); try lia; reflexivity.
Qed.

(* ---- finish ---- *)

(* For every program - including writes that were abandoned while pending - and every oracle: when a
   poll_finish answers Ready(Ok) (the stream is now finished), nothing is left in `writing` and Quinn has been
   handed every buffer send_data accepted, completely and in order, BEFORE the finish *)
Lemma finish_hands_over_everything ops id o tr s' o' :
  send_run (ops ++ [OPollFinish]) (send_new (qsend_new id)) o = (tr, s', o') ->
  (exists tr0, tr = tr0 ++ [(OPollFinish, SRPoll (Ready (Ok tt)))]) ->
  s_writing s' = None /\ qs_finished (s_q s') = true /\
  qs_log (s_q s') = spec_handed (map abs_send tr).
Proof.
  intros H (tr0 & Htr).
  assert (Hsplit : forall ops1 ops2 s o,
    send_run (ops1 ++ ops2) s o =
      let '(t1, s1, o1) := send_run ops1 s o in let '(t2, s2, o2) := send_run ops2 s1 o1 in (t1 ++ t2, s2, o2)).
  { clear. induction ops1 as [|op ops1 IH]; intros ops2 s o.
    - cbn. destruct (send_run ops2 s o) as [[t2 s2] o2]. reflexivity.
    - cbn [app send_run]. destruct (send_step op s o) as [[r s1] o1]. rewrite IH.
      destruct (send_run ops1 s1 o1) as [[t1 s2] o2]. destruct (send_run ops2 s2 o2) as [[t2 s3] o3]. reflexivity. }
  pose proof (send_run_exact _ _ _ _ _ _ H) as (E1 & _ & _ & _).
  rewrite Hsplit in H. destruct (send_run ops (send_new (qsend_new id)) o) as [[t1 s1] o1] eqn:H1.
  cbn [send_run send_step] in H. destruct (poll_finish o1 s1) as [[r2 s2] o2] eqn:HP.
  injection H as Htr' Hs' Ho'. subst s2 o2.
  rewrite Htr in Htr'. apply app_inj_tail in Htr'. destruct Htr' as [_ Heq]. injection Heq as Hr. subst r2.
  destruct (poll_finish_exact _ _ _ _ _ HP) as (_ & _ & _ & E4 & _).
  destruct (E4 eq_refl) as (Hw & Hf). split; [exact Hw|]. split; [exact Hf|].
  rewrite Hw in E1. cbn [view_opt send_new s_q s_writing qsend_new qs_log app] in E1. rewrite app_nil_r in E1. exact E1.
Qed.

(* the scenario that used to truncate (repaired defect F21): a write left pending, then finish: the rest of the
   buffer is written out first, with whatever split Quinn chooses *)
Lemma finish_after_abandoned_write :
  let ops := [OSendData [[0; 4]; [1; 2; 3; 4]]; OPollReady; OPollFinish; OPollFinish] in
  let o := [WAccept 2; WAccept 1; WBlocked; WAccept 2; WBlocked; WAccept 100] in
  exists tr s' o', send_run ops (send_new (qsend_new 0)) o = (tr, s', o') /\
    map snd tr = [SRUnit (Ok tt); SRPoll Pending; SRPoll Pending; SRPoll (Ready (Ok tt))] /\
    qs_finished (s_q s') = true /\ s_writing s' = None /\
    qs_log (s_q s') = [0; 4; 1; 2; 3; 4].
Proof. do 3 eexists. split; [vm_compute; reflexivity|]. repeat split; vm_compute; reflexivity. Qed.

Lemma send_drop_keeps s :
  qs_log (send_drop s) = qs_log (s_q s) /\ qs_reset (send_drop s) = qs_reset (s_q s) /\ qs_id (send_drop s) = qs_id (s_q s) /\
  qs_finished (send_drop s) = (qs_finished (s_q s) || negb (match qs_reset (s_q s) with Some _ => true | None => false end)) /\
  (qs_finished (s_q s) = true -> send_drop s = s_q s).
Proof.
  unfold send_drop. destruct (qs_finished (s_q s)) eqn:Hf; destruct (qs_reset (s_q s)) eqn:Hr; cbn; rewrite ?Hf, ?Hr; repeat split; auto; discriminate.
Qed.

Lemma reset_code_spec c : reset_code c = Ok (spec_reset_code c).
Proof.
  unfold reset_code, spec_reset_code. rewrite fact_saturates. destruct (N.leb_spec c varint_max); f_equal; lia.
Qed.

(* ====================================================================== statements as pinned in Properties/C17.v *)

Lemma write_exact_new :
  forall ops id o tr s' o', id <= varint_max ->
    send_run ops (send_new (qsend_new id)) o = (tr, s', o') ->
    qs_log (s_q s') ++ view_opt (s_writing s') = spec_handed (map abs_send tr) /\
    Forall send_ev_ok tr /\ map fst tr = ops.
Proof.
  intros ops id o tr s' o' Hid H. destruct (send_run_exact _ _ _ _ _ _ H) as (E1 & _ & E3 & E4).
  split; [exact E1|]. split; [apply E3; exact Hid|exact E4].
Qed.

Lemma write_complete_new :
  forall ops id o tr s' o',
    send_run (ops ++ [OPollReady]) (send_new (qsend_new id)) o = (tr, s', o') ->
    (exists tr0, tr = tr0 ++ [(OPollReady, SRPoll (Ready (Ok tt)))]) ->
    s_writing s' = None /\ qs_log (s_q s') = spec_handed (map abs_send tr).
Proof. intros ops id o tr s' o' H1 H2. exact (send_run_complete _ _ _ _ _ _ H1 H2). Qed.

Lemma poll_ready_any_split :
  forall o s r s' o', poll_ready o s = (r, s', o') ->
    qs_log (s_q s') ++ view_opt (s_writing s') = qs_log (s_q s) ++ view_opt (s_writing s) /\
    poll_not_panic r /\ (r = Ready (Ok tt) -> s_writing s' = None) /\ (exists used, o = used ++ o').
Proof.
  intros o s r s' o' H. destruct (poll_ready_exact _ _ _ _ _ H) as (E1 & _ & _ & _ & E5 & E6 & E7). auto.
Qed.

Lemma write_progress :
  forall o q data, nonempty_chunks data -> no_fail o -> len (wb_view data) <= count_pos o ->
    exists s' o', drive_ready (S (length o)) o {| s_q := q; s_writing := Some data |} = (Ready (Ok tt), s', o') /\
      s_writing s' = None /\ qs_log (s_q s') = qs_log q ++ wb_view data.
Proof. intros o q data H1 H2 H3. apply drive_ready_complete; auto. Qed.

Lemma send_id_constant_new :
  forall ops id o tr s' o', id <= varint_max ->
    send_run ops (send_new (qsend_new id)) o = (tr, s', o') -> send_id_events_are id tr.
Proof.
  intros ops id o tr s' o' Hid H.
  exact (send_ids_constant ops (send_new (qsend_new id)) o tr s' o' Hid H).
Qed.
