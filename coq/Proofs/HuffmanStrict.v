(* C15, bit level: what the walk of the generated tree accepts (lax: up to 37 bits of ones), what the
   RFC reference decoder accepts (strict), and the known-finding class between the two. *)
From H3V Require Import Base.Bytes Base.BytesLemmas Gen.GenHuffDec
  Spec.RFC7541Huffman Spec.HuffmanKnown
  Proofs.C15Finite Proofs.BitsLemmas Proofs.HuffmanWalk.
From Coq Require Import ZifyBool ZifyNat ZifyN.
Ltac Zify.zify_post_hook ::= Z.div_mod_to_equations.

(* ================================================================ generic walk lemmas *)

Definition wext (r : bits) (w : wres) : wres :=
  match w with
  | WFound x rest => WFound x (rest ++ r)
  | other => other
  end.

(* a walk that did not run out of bits is unchanged by appending more input *)
Lemma twalk_app d : forall l r, twalk d l <> WRunOut -> twalk d (l ++ r) = wext r (twalk d l).
Proof.
  induction d as [lookup table IHt | | b t IHt | d' IHd t IHt ] using dnode_mut with
    (P0 := fun t => forall i rest r, tpick t i rest <> WRunOut -> tpick t i (rest ++ r) = wext r (tpick t i rest)).
  - intros l r H. cbn [twalk] in *.
    destruct (Nat.ltb_spec (length l) (N.to_nat lookup)) as [Hs|Hs]; [congruence|].
    rewrite app_length. destruct (Nat.ltb_spec (length l + length r) (N.to_nat lookup)) as [?|_]; [lia|].
    rewrite firstn_app, skipn_app.
    replace (N.to_nat lookup - length l)%nat with 0%nat by lia. cbn [firstn skipn].
    rewrite app_nil_r. apply IHt. exact H.
  - intros i rest r _. reflexivity.
  - intros i rest r H. cbn [tpick] in *. destruct i; [reflexivity|apply IHt; exact H].
  - intros i rest r H. cbn [tpick] in *. destruct i; [apply IHd; exact H|apply IHt; exact H].
Qed.

(* a found symbol sits at a leaf whose path is the consumed prefix *)
Lemma twalk_found_leaf d : forall l x rest, twalk d l = WFound x rest ->
  exists path, l = path ++ rest /\ In (path, x) (leaves d).
Proof.
  induction d as [lookup table IHt | | b t IHt | d' IHd t IHt ] using dnode_mut with
    (P0 := fun t => forall c i k rest0 x rest, tpick t i rest0 = WFound x rest ->
             exists path', rest0 = path' ++ rest /\
                           In (bits_msb c (k + N.of_nat i) ++ path', x) (leaves_l t c k)).
  - intros l x rest H. cbn [twalk] in H.
    destruct (Nat.ltb_spec (length l) (N.to_nat lookup)) as [Hs|Hs]; [discriminate|].
    destruct (IHt (N.to_nat lookup) _ 0 _ _ _ H) as (path' & Hrest & Hin).
    exists (firstn (N.to_nat lookup) l ++ path'). split.
    + rewrite <- app_assoc, <- Hrest. symmetry. apply firstn_skipn.
    + cbn [leaves]. rewrite N.add_0_l, N2Nat.id in Hin.
      rewrite bits_msb_of_val in Hin by (rewrite firstn_length; lia). exact Hin.
  - intros c i k rest0 x rest H. discriminate.
  - intros c i k rest0 x rest H. cbn [tpick] in H. cbn [leaves_l]. destruct i as [|i'].
    + inversion H; subst. exists []. split; [reflexivity|]. left.
      rewrite app_nil_r. f_equal. f_equal. lia.
    + destruct (IHt c i' (k + 1) _ _ _ H) as (path' & Hr & Hin). exists path'. split; [assumption|].
      right. replace (k + N.of_nat (S i')) with (k + 1 + N.of_nat i') by lia. exact Hin.
  - intros c i k rest0 x rest H. cbn [tpick] in H. cbn [leaves_l]. destruct i as [|i'].
    + destruct (IHd _ _ _ H) as (path & Hl & Hin). exists path. split; [assumption|].
      apply in_or_app. left.
      replace (k + N.of_nat 0) with k by lia.
      apply (in_map (fun pb => (bits_msb c k ++ fst pb, snd pb)) _ _ Hin).
    + destruct (IHt c i' (k + 1) _ _ _ H) as (path' & Hr & Hin). exists path'. split; [assumption|].
      apply in_or_app. right. replace (k + N.of_nat (S i')) with (k + 1 + N.of_nat i') by lia. exact Hin.
Qed.

(* ================================================================ the root tree and the RFC codes *)

Lemma root_found_is_code l x rest : twalk huff_dec_root l = WFound x rest ->
  x < 256 /\ l = code_bits x ++ rest.
Proof.
  intros H. destruct (twalk_found_leaf _ _ _ _ H) as (path & Hl & Hin).
  destruct (root_leaves _ _ Hin) as [Hx Hp]. subst path. auto.
Qed.

Lemma root_code_found x rest : x < 256 -> twalk huff_dec_root (code_bits x ++ rest) = WFound x rest.
Proof.
  intros Hx. rewrite twalk_app; rewrite (root_walks_codes x Hx); [reflexivity|discriminate].
Qed.

Lemma root_many_ones l : all_ones l = true -> (38 <= length l)%nat -> twalk huff_dec_root l = WUnhandled.
Proof.
  intros Hones Hlen. rewrite (all_ones_eq_repeat l Hones).
  replace (length l) with (38 + (length l - 38))%nat by lia.
  rewrite repeat_app_plus, twalk_app; rewrite root_ones_38; [reflexivity|discriminate].
Qed.

(* ================================================================ the loop over bits (what DecodeIter computes) *)

Fixpoint awalk (fuel : nat) (l : bits) : option bytes :=
  match fuel with
  | O => None
  | S f =>
      match twalk huff_dec_root l with
      | WFound x rest => match awalk f rest with Some out => Some (x :: out) | None => None end
      | WRunOut => if all_ones l then Some [] else None
      | WUnhandled => None
      end
  end.

(* lax validity: codes followed by at most [maxpad] one bits *)
Definition lax_valid (maxpad : nat) (b : bits) (s : bytes) : Prop :=
  wf_bytes s /\ exists pad, b = codes s ++ pad /\ (length pad <= maxpad)%nat /\ all_ones pad = true.

Lemma valid_huff_lax b s : valid_huff b s <-> lax_valid 7 b s.
Proof. reflexivity. Qed.

Lemma codes_cons x s : codes (x :: s) = code_bits x ++ codes s.
Proof. reflexivity. Qed.

Lemma awalk_sound fuel : forall l s, awalk fuel l = Some s -> lax_valid 37 l s.
Proof.
  induction fuel as [|f IH]; intros l s H; [discriminate|].
  cbn [awalk] in H. destruct (twalk huff_dec_root l) as [x rest| |] eqn:Hw; [| |discriminate].
  - destruct (awalk f rest) as [out|] eqn:Ha; [|discriminate]. inversion H; subst s.
    destruct (root_found_is_code _ _ _ Hw) as [Hx Hl].
    destruct (IH _ _ Ha) as (Hwf & pad & Hr & Hlen & Hones).
    split; [apply wf_bytes_cons; split; assumption|].
    exists pad. split; [|auto]. rewrite codes_cons, <- app_assoc, <- Hr. exact Hl.
  - destruct (all_ones l) eqn:Hones; [|discriminate]. inversion H; subst s.
    split; [constructor|]. exists l. split; [reflexivity|]. split; [|assumption].
    destruct (Nat.le_gt_cases (length l) 37) as [|Hbig]; [assumption|].
    rewrite root_many_ones in Hw by (assumption || lia). discriminate.
Qed.

Lemma awalk_complete s : forall fuel l, lax_valid 37 l s -> (length l < fuel)%nat -> awalk fuel l = Some s.
Proof.
  induction s as [|x s IH]; intros fuel l (Hwf & pad & Hl & Hlen & Hones) Hfuel.
  - destruct fuel as [|f]; [lia|]. cbn [codes flat_map app] in Hl. subst l. cbn [awalk].
    rewrite (all_ones_eq_repeat pad Hones) at 1. rewrite root_ones_runout by assumption.
    rewrite Hones. reflexivity.
  - destruct fuel as [|f]; [lia|]. apply wf_bytes_cons in Hwf as [Hx Hwf].
    rewrite codes_cons, <- app_assoc in Hl. subst l. cbn [awalk].
    rewrite root_code_found by assumption.
    rewrite (IH f (codes s ++ pad)); [reflexivity| |].
    + split; [assumption|]. exists pad. auto.
    + rewrite app_length in Hfuel. pose proof (code_bits_len x ltac:(lia)). lia.
Qed.

(* ================================================================ uniqueness of the decomposition *)

(* no octet code is a prefix of a string of ones (the only all-ones code is EOS) *)
Lemma match_code_spec table : forall idx l x rest, match_code table idx l = Some (x, rest) ->
  idx <= x /\ (N.to_nat (x - idx) < length table)%nat /\ l = nth (N.to_nat (x - idx)) table [] ++ rest.
Proof.
  induction table as [|c t IH]; intros idx l x rest H; [discriminate|].
  cbn [match_code] in H. destruct (strip c l) as [r|] eqn:Hs.
  - inversion H; subst. apply strip_spec in Hs. rewrite N.sub_diag. cbn. repeat split; [lia|lia|assumption].
  - destruct (IH _ _ _ _ H) as (Hle & Hlt & Hl).
    repeat split; [lia| |].
    + cbn [length]. lia.
    + replace (N.to_nat (x - idx)) with (S (N.to_nat (x - (idx + 1)))) by lia. exact Hl.
Qed.

Lemma match_code_none table : forall idx l, match_code table idx l = None ->
  forall i r, (i < length table)%nat -> l <> nth i table [] ++ r.
Proof.
  induction table as [|c t IH]; intros idx l H i r Hi; [cbn in Hi; lia|].
  cbn [match_code] in H. destruct (strip c l) as [r'|] eqn:Hs; [discriminate|].
  destruct i as [|i'].
  - cbn [nth]. intros E. rewrite E, strip_app in Hs. discriminate.
  - cbn [nth]. apply (IH _ _ H). cbn [length] in Hi. lia.
Qed.

Lemma match_code_some_first table : forall idx l i r,
  (i < length table)%nat -> l = nth i table [] ++ r ->
  (forall j r', (j < length table)%nat -> l = nth j table [] ++ r' -> j = i) ->
  match_code table idx l = Some (idx + N.of_nat i, r).
Proof.
  induction table as [|c t IH]; intros idx l i r Hi Hl Huniq; [cbn in Hi; lia|].
  cbn [match_code]. destruct (strip c l) as [r'|] eqn:Hs.
  - apply strip_spec in Hs. assert (E : 0%nat = i) by (apply (Huniq 0%nat r'); [cbn; lia|exact Hs]).
    subst i. cbn [nth] in Hl. rewrite Hl in Hs. apply app_inv_head in Hs. subst r'.
    f_equal. f_equal. lia.
  - destruct i as [|i'].
    + cbn [nth] in Hl. rewrite Hl, strip_app in Hs. discriminate.
    + cbn [nth length] in *. rewrite (IH (idx + 1) l i' r); [f_equal; f_equal; lia|lia|assumption|].
      intros j r' Hj Hlj. specialize (Huniq (S j) r' ltac:(lia) Hlj). lia.
Qed.

(* in the full table (EOS included) the row that is a prefix of the input is unique *)
Lemma rfc_row_unique l i j r r' : (i < 257)%nat -> (j < 257)%nat ->
  l = nth i rfc_code_table [] ++ r -> l = nth j rfc_code_table [] ++ r' -> j = i.
Proof.
  intros Hi Hj Hl Hl'. rewrite Hl in Hl'.
  destruct (prefixes_comparable _ _ _ _ Hl') as [[t Ht]|[t Ht]].
  - pose proof (rfc_prefix_free (N.of_nat i) (N.of_nat j) t ltac:(lia) ltac:(lia)) as E.
    unfold code_bits in E. rewrite !Nat2N.id in E. specialize (E Ht). lia.
  - pose proof (rfc_prefix_free (N.of_nat j) (N.of_nat i) t ltac:(lia) ltac:(lia)) as E.
    unfold code_bits in E. rewrite !Nat2N.id in E. specialize (E Ht). lia.
Qed.

Lemma match_code_full x rest : x < 257 ->
  match_code rfc_code_table 0 (code_bits x ++ rest) = Some (x, rest).
Proof.
  intros Hx.
  rewrite (match_code_some_first rfc_code_table 0 _ (N.to_nat x) rest).
  - f_equal. f_equal. lia.
  - pose proof rfc_table_length as HL. unfold bits in HL. rewrite HL. lia.
  - reflexivity.
  - intros j r' Hj Hl. pose proof rfc_table_length as HL. unfold bits in HL. rewrite HL in Hj.
    apply (rfc_row_unique (code_bits x ++ rest) (N.to_nat x) j rest r'); [lia|lia|reflexivity|exact Hl].
Qed.

(* ================================================================ the RFC reference decoder = valid_huff *)

Lemma rfc_walk_sound fuel : forall l s, rfc_walk fuel l = Some s -> valid_huff l s.
Proof.
  induction fuel as [|f IH]; intros l s H; [discriminate|].
  cbn [rfc_walk] in H. destruct (match_code rfc_code_table 0 l) as [[x rest]|] eqn:Hm.
  - destruct (N.eqb_spec x EOS) as [|Hne]; [discriminate|].
    destruct (rfc_walk f rest) as [out|] eqn:Hr; [|discriminate]. inversion H; subst s.
    destruct (match_code_spec _ _ _ _ _ Hm) as (_ & Hlt & Hl).
    rewrite rfc_table_length in Hlt. rewrite N.sub_0_r in *. unfold EOS in Hne.
    destruct (IH _ _ Hr) as (Hwf & pad & Hrest & Hlen & Hones).
    split; [apply wf_bytes_cons; split; [unfold wf_byte; lia|assumption]|].
    exists pad. split; [|auto]. rewrite codes_cons, <- app_assoc, <- Hrest. exact Hl.
  - destruct (Nat.ltb_spec (length l) 8) as [Hlen|]; [|discriminate]. cbn [andb] in H.
    destruct (all_ones l) eqn:Hones; [|discriminate]. inversion H; subst s.
    split; [constructor|]. exists l. repeat split; [lia|assumption].
Qed.

Lemma rfc_walk_complete s : forall fuel l, valid_huff l s -> (length l < fuel)%nat -> rfc_walk fuel l = Some s.
Proof.
  induction s as [|x s IH]; intros fuel l (Hwf & pad & Hl & Hlen & Hones) Hfuel.
  - destruct fuel as [|f]; [lia|]. cbn [codes flat_map app] in Hl. subst l. cbn [rfc_walk].
    pose proof (forall_below_spec 8 _ full_table_short_ones_check (N.of_nat (length pad)) ltac:(lia)) as Hn.
    cbv beta in Hn. rewrite Nat2N.id, <- (all_ones_eq_repeat pad Hones) in Hn.
    destruct (match_code rfc_code_table 0 pad); [discriminate|].
    destruct (Nat.ltb_spec (length pad) 8); [|lia]. rewrite Hones. reflexivity.
  - destruct fuel as [|f]; [lia|]. apply wf_bytes_cons in Hwf as [Hx Hwf]. unfold wf_byte in Hx.
    rewrite codes_cons, <- app_assoc in Hl. subst l. cbn [rfc_walk].
    rewrite match_code_full by lia.
    destruct (N.eqb_spec x EOS) as [E|_]; [unfold EOS in E; lia|].
    rewrite (IH f (codes s ++ pad)); [reflexivity| |].
    + split; [assumption|]. exists pad. auto.
    + rewrite app_length in Hfuel. pose proof (code_bits_len x ltac:(lia)). lia.
Qed.

Theorem rfc_huff_decode_iff p s : rfc_huff_decode p = Some s <-> valid_huff (bits_of_bytes p) s.
Proof.
  unfold rfc_huff_decode. split.
  - apply rfc_walk_sound.
  - intros H. apply rfc_walk_complete; [assumption|]. rewrite bits_of_bytes_length. lia.
Qed.

(* ================================================================ lax = strict or the known class *)

Lemma lax_split b s : lax_valid 37 b s <->
  valid_huff b s \/ (wf_bytes s /\ exists pad, b = codes s ++ pad /\ all_ones pad = true /\ (8 <= length pad <= 37)%nat).
Proof.
  split.
  - intros (Hwf & pad & Hb & Hlen & Hones).
    destruct (Nat.le_gt_cases (length pad) 7) as [Hs|Hs].
    + left. split; [assumption|]. exists pad. auto.
    + right. split; [assumption|]. exists pad. repeat split; auto; lia.
  - intros [(Hwf & pad & Hb & Hlen & Hones)|(Hwf & pad & Hb & Hones & Hlen)];
      (split; [assumption|]; exists pad; repeat split; auto; lia).
Qed.

(* the decomposition codes s ++ ones is unique *)
Lemma codes_ones_unique s : forall s' pad pad', wf_bytes s -> wf_bytes s' ->
  all_ones pad = true -> all_ones pad' = true -> (length pad <= 37)%nat -> (length pad' <= 37)%nat ->
  codes s ++ pad = codes s' ++ pad' -> s = s' /\ pad = pad'.
Proof.
  intros s' pad pad' Hwf Hwf' Ho Ho' Hl Hl' E.
  assert (H1 : awalk (S (length (codes s ++ pad))) (codes s ++ pad) = Some s).
  { apply awalk_complete; [|lia]. split; [assumption|]. exists pad. auto. }
  assert (H2 : awalk (S (length (codes s ++ pad))) (codes s ++ pad) = Some s').
  { apply awalk_complete; [|lia]. split; [assumption|]. exists pad'. auto. }
  rewrite H1 in H2. inversion H2; subst s'. split; [reflexivity|].
  apply app_inv_head in E. exact E.
Qed.
