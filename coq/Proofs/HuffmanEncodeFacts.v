(* C15: finite facts about the byte computations of write_bits (encode.rs). *)
From H3V Require Import Base.Bytes Base.BytesLemmas Gen.GenHuffDec Gen.GenHuffEnc
  Spec.RFC7541Huffman Spec.HuffmanKnown Model.Huffman
  Proofs.C15Finite Proofs.BitsLemmas Proofs.HuffmanWalk.
From Coq Require Import ZifyBool ZifyNat ZifyN.
Ltac Zify.zify_post_hook ::= Z.div_mod_to_equations.

(* ================================================================ the byte computations of write_bits *)

Definition wb1 (ob bit count value : N) : option N :=
  match nth_n pad_left bit, nth_n pad_right (8 - bit), nth_n pad_right (8 - count - bit) with
  | Some pl, Some pr1, Some pr2 =>
      if N.lor ob pl =? 255
      then Some (N.lor (N.land (N.lor ob pr1) (N.lor (N.shiftl value (8 - bit - count) mod 256) pl)) pr2)
      else None
  | _, _, _ => None
  end.

Definition wb2 (ob bit count value : N) : option (N * N) :=
  let split := 8 - bit in
  let rem := 8 - (count - split) in
  match nth_n pad_left bit, nth_n pad_right split, nth_n pad_right rem with
  | Some pl, Some pr1, Some pr2 =>
      if N.lor ob pl =? 255
      then Some (N.land (N.lor ob pr1) (N.lor (N.shiftr value (count - split)) pl),
                 N.lor (N.shiftl value rem mod 256) pr2)
      else None
  | _, _, _ => None
  end.

Lemma upd_app {A} (pre : list A) x post y : upd (pre ++ x :: post) (length pre) y = Some (pre ++ y :: post).
Proof. induction pre as [|z pre IH]; cbn [app length upd]; [reflexivity|rewrite IH; reflexivity]. Qed.

Lemma nth_n_app (pre : bytes) x post : nth_n (pre ++ x :: post) (N.of_nat (length pre)) = Some x.
Proof. unfold nth_n. rewrite Nat2N.id, nth_error_app2, Nat.sub_diag by lia. reflexivity. Qed.

Lemma write_bits_single pre ob post bit count value nb :
  bit < 8 -> 1 <= count -> bit + count <= 8 -> wb1 ob bit count value = Some nb ->
  write_bits (pre ++ ob :: post) {| bw_byte := N.of_nat (length pre); bw_bit := bit; bw_count := count |} value
  = Ok (pre ++ nb :: post).
Proof.
  intros Hbit Hc Hle Hw. unfold write_bits. cbn [bw_byte bw_bit bw_count].
  destruct (N.ltb_spec bit 8); [|lia]. destruct (N.leb_spec count 8); [|lia].
  destruct (N.ltb_spec 0 count); [|lia]. cbn [negb].
  rewrite nth_n_app. unfold wb1 in Hw.
  destruct (nth_n pad_left bit) as [pl|]; [|discriminate].
  destruct (nth_n pad_right (8 - bit)) as [pr1|]; [|discriminate].
  destruct (nth_n pad_right (8 - count - bit)) as [pr2|]; [|discriminate].
  destruct (N.lor ob pl =? 255); [|discriminate]. cbn [negb].
  destruct (N.leb_spec (bit + count) 8); [|lia].
  destruct (N.leb_spec 8 (8 - bit - count)) as [?|_]; [lia|].
  inversion Hw; subst nb. rewrite Nat2N.id, upd_app. reflexivity.
Qed.

Lemma write_bits_double pre ob b1 post bit count value n0 n1 :
  bit < 8 -> count <= 8 -> 8 < bit + count -> wb2 ob bit count value = Some (n0, n1) ->
  write_bits (pre ++ ob :: b1 :: post) {| bw_byte := N.of_nat (length pre); bw_bit := bit; bw_count := count |} value
  = Ok (pre ++ n0 :: n1 :: post).
Proof.
  intros Hbit Hc Hgt Hw. unfold write_bits. cbn [bw_byte bw_bit bw_count].
  destruct (N.ltb_spec bit 8); [|lia]. destruct (N.leb_spec count 8); [|lia].
  destruct (N.ltb_spec 0 count); [|lia]. cbn [negb].
  rewrite nth_n_app. unfold wb2 in Hw.
  destruct (nth_n pad_left bit) as [pl|]; [|discriminate].
  destruct (nth_n pad_right (8 - bit)) as [pr1|]; [|discriminate].
  destruct (nth_n pad_right (8 - (count - (8 - bit)))) as [pr2|]; [|discriminate].
  destruct (N.lor ob pl =? 255); [|discriminate]. cbn [negb].
  destruct (N.leb_spec (bit + count) 8); [lia|].
  destruct (N.leb_spec 8 (count - (8 - bit))) as [?|_]; [lia|].
  destruct (N.leb_spec 8 (8 - (count - (8 - bit)))) as [?|_]; [lia|]. cbn [orb].
  inversion Hw; subst n0 n1. rewrite Nat2N.id, upd_app.
  replace (N.to_nat (N.of_nat (length pre) + 1)) with (length (pre ++ [N.land (N.lor ob pr1) (N.lor (N.shiftr value (count - (8 - bit))) pl)])).
  2:{ rewrite app_length. cbn [length]. lia. }
  replace (pre ++ N.land (N.lor ob pr1) (N.lor (N.shiftr value (count - (8 - bit))) pl) :: b1 :: post)
    with ((pre ++ [N.land (N.lor ob pr1) (N.lor (N.shiftr value (count - (8 - bit))) pl)]) ++ b1 :: post)
    by (rewrite <- app_assoc; reflexivity).
  rewrite upd_app, <- app_assoc. reflexivity.
Qed.

(* finite facts: given that the bits of the old byte from [bit] on are ones, the new byte(s) keep the
   first [bit] bits, then carry the [count] low bits of [value], then ones *)
Definition wb1_ok (bit ob : N) : bool :=
  negb (all_ones (skipn (N.to_nat bit) (bits_msb 8 ob))) ||
  forall_range 1 8 (fun count =>
    (8 <? bit + count) ||
    forall_below 256 (fun value =>
      match wb1 ob bit count value with
      | Some nb => (nb <? 256) &&
                   bits_eqb (bits_msb 8 nb)
                            (firstn (N.to_nat bit) (bits_msb 8 ob) ++ bits_msb (N.to_nat count) value ++
                             repeat true (N.to_nat (8 - bit - count)))
      | None => false
      end)).

Lemma wb1_check : forall_below 8 (fun bit => forall_below 256 (wb1_ok bit)) = true.
Proof. vm_compute. reflexivity. Qed.

Definition wb2_ok (bit ob : N) : bool :=
  negb (all_ones (skipn (N.to_nat bit) (bits_msb 8 ob))) ||
  forall_range 1 8 (fun count =>
    (bit + count <=? 8) ||
    forall_below 256 (fun value =>
      match wb2 ob bit count value with
      | Some (n0, n1) => (n0 <? 256) && (n1 <? 256) &&
                   bits_eqb (bits_msb 8 n0 ++ bits_msb 8 n1)
                            (firstn (N.to_nat bit) (bits_msb 8 ob) ++ bits_msb (N.to_nat count) value ++
                             repeat true (N.to_nat (16 - bit - count)))
      | None => false
      end)).

Lemma wb2_check : forall_below 8 (fun bit => forall_below 256 (wb2_ok bit)) = true.
Proof. vm_compute. reflexivity. Qed.

Lemma wb1_fact bit ob count value : bit < 8 -> ob < 256 -> 1 <= count -> bit + count <= 8 -> value < 256 ->
  all_ones (skipn (N.to_nat bit) (bits_msb 8 ob)) = true ->
  exists nb, wb1 ob bit count value = Some nb /\ nb < 256 /\
    bits_msb 8 nb = firstn (N.to_nat bit) (bits_msb 8 ob) ++ bits_msb (N.to_nat count) value ++
                    repeat true (N.to_nat (8 - bit - count)).
Proof.
  intros Hbit Hob Hc Hle Hv Hones.
  pose proof (forall_below_spec 8 _ wb1_check bit Hbit) as H1. cbv beta in H1.
  pose proof (forall_below_spec 256 _ H1 ob Hob) as H2. unfold wb1_ok in H2. rewrite Hones in H2. cbn [negb orb] in H2.
  pose proof (forall_range_spec 1 8 _ H2 count ltac:(lia) ltac:(lia)) as H3. cbv beta in H3.
  apply orb_true_iff in H3 as [H3|H3]; [lia|].
  pose proof (forall_below_spec 256 _ H3 value Hv) as H4. cbv beta in H4.
  destruct (wb1 ob bit count value) as [nb|]; [|discriminate].
  apply andb_true_iff in H4 as [H4 H5]. apply bits_eqb_eq in H5. exists nb. repeat split; [lia|exact H5].
Qed.

Lemma wb2_fact bit ob count value : bit < 8 -> ob < 256 -> count <= 8 -> 8 < bit + count -> value < 256 ->
  all_ones (skipn (N.to_nat bit) (bits_msb 8 ob)) = true ->
  exists n0 n1, wb2 ob bit count value = Some (n0, n1) /\ n0 < 256 /\ n1 < 256 /\
    bits_msb 8 n0 ++ bits_msb 8 n1 =
      firstn (N.to_nat bit) (bits_msb 8 ob) ++ bits_msb (N.to_nat count) value ++
      repeat true (N.to_nat (16 - bit - count)).
Proof.
  intros Hbit Hob Hc Hgt Hv Hones.
  pose proof (forall_below_spec 8 _ wb2_check bit Hbit) as H1. cbv beta in H1.
  pose proof (forall_below_spec 256 _ H1 ob Hob) as H2. unfold wb2_ok in H2. rewrite Hones in H2. cbn [negb orb] in H2.
  pose proof (forall_range_spec 1 8 _ H2 count ltac:(lia) ltac:(lia)) as H3. cbv beta in H3.
  apply orb_true_iff in H3 as [H3|H3]; [lia|].
  pose proof (forall_below_spec 256 _ H3 value Hv) as H4. cbv beta in H4.
  destruct (wb2 ob bit count value) as [[n0 n1]|]; [|discriminate].
  apply andb_true_iff in H4 as [H4 H5]. apply andb_true_iff in H4 as [H4 H6].
  apply bits_eqb_eq in H5. exists n0, n1. repeat split; [lia|lia|exact H5].
Qed.

