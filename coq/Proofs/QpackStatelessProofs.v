(* C11: the model of h3's stateless QPACK path (Model/QpackStateless.v) against RFC 9204 (Spec/RFC9204Static.v).
   Decode side: whenever the model succeeds, the reference decoder (instantiated with h3's Huffman decoder)
   succeeds with the same answer; the grammar statement then follows from Proofs/QpackSpecLemmas.v.
   The facts about the Huffman codec that C15 is still proving are hypotheses of [Section WithC15]. *)
From H3V Require Import Base.Bytes Base.BytesLemmas Gen.GenStatic Gen.GenQStateless
  Spec.PrefixInt Spec.RFC7541Huffman Spec.HuffmanKnown Spec.RFC9204Static Spec.FieldSize
  Model.PrefixInt Model.Huffman Model.PrefixString Model.Static Model.QpackStateless
  Proofs.C15Finite Proofs.PrefixIntProofs Proofs.HuffmanDecodeProofs Proofs.PrefixStringProofs Proofs.StaticTableProofs Proofs.QpackSpecLemmas.
From Coq Require Import ZifyBool ZifyNat ZifyN.
Ltac Zify.zify_post_hook ::= Z.div_mod_to_equations.

(* ---------------------------------------------------------------- generated decisions (the tie to the source) *)
Lemma gen_refusals :
  qs_ric_nonzero_rejected = true /\ qs_base_checked = true /\ qs_negative_base_is_error = true /\
  qs_postbase_indexed_refused = true /\ qs_postbase_nameref_refused = true /\
  qs_indexed_dynamic_refused = true /\ qs_nameref_dynamic_refused = true.
Proof. repeat split; reflexivity. Qed.

Lemma gen_sizes :
  qs_hp_ric_bits = 8 /\ qs_hp_base_bits = 7 /\ qs_hp_sign_value = 1 /\ qs_hp_enc_ric_bits = 8 /\ qs_hp_enc_base_bits = 7 /\
  qs_idx_bits = 6 /\ qs_idx_static_flags = 3 /\ qs_idx_dynamic_flags = 2 /\ qs_idx_enc_bits = 6 /\ qs_idx_enc_static_flags = 3 /\
  qs_nr_bits = 4 /\ qs_nr_static_mask = 5 /\ qs_nr_static_value = 5 /\ qs_nr_static_string_size = 8 /\
  qs_nr_dynamic_mask = 5 /\ qs_nr_dynamic_value = 4 /\ qs_nr_dynamic_string_size = 8 /\
  qs_nr_enc_bits = 4 /\ qs_nr_enc_flags = 5 /\ qs_nr_enc_string_size = 8 /\ qs_nr_enc_string_flags = 0 /\
  qs_lit_mask = 224 /\ qs_lit_value = 32 /\ qs_lit_name_size = 4 /\ qs_lit_value_size = 8 /\
  qs_lit_enc_name_size = 4 /\ qs_lit_enc_name_flags = 2 /\ qs_lit_enc_value_size = 8 /\ qs_lit_enc_value_flags = 0 /\
  qs_overhead = 32 /\ qs_too_long_strict = true.
Proof. repeat split; reflexivity. Qed.

Ltac unfold_qs :=
  cbv [qs_hp_ric_bits qs_hp_base_bits qs_hp_sign_value qs_hp_enc_ric_bits qs_hp_enc_base_bits
       qs_idx_bits qs_idx_static_flags qs_idx_dynamic_flags qs_idx_enc_bits qs_idx_enc_static_flags
       qs_nr_bits qs_nr_static_mask qs_nr_static_value qs_nr_static_string_size
       qs_nr_dynamic_mask qs_nr_dynamic_value qs_nr_dynamic_string_size
       qs_nr_enc_bits qs_nr_enc_flags qs_nr_enc_string_size qs_nr_enc_string_flags
       qs_lit_mask qs_lit_value qs_lit_name_size qs_lit_value_size
       qs_lit_enc_name_size qs_lit_enc_name_flags qs_lit_enc_value_size qs_lit_enc_value_flags
       qs_ric_nonzero_rejected qs_base_checked qs_negative_base_is_error qs_postbase_indexed_refused
       qs_postbase_nameref_refused qs_indexed_dynamic_refused qs_nameref_dynamic_refused qs_too_long_strict] in *.

(* ---------------------------------------------------------------- first-octet dispatch, by evaluation over 256 octets *)
Definition classify (b : N) : hbf_kind :=
  if 128 <=? b then HIndexed
  else if 64 <=? b then HLiteralWithNameRef
  else if 32 <=? b then HLiteral
  else if 16 <=? b then HIndexedWithPostBase
  else HLiteralWithPostBaseNameRef.

Definition hbf_eqb (a b : hbf_kind) : bool :=
  match a, b with
  | HIndexed, HIndexed | HIndexedWithPostBase, HIndexedWithPostBase | HLiteralWithNameRef, HLiteralWithNameRef
  | HLiteralWithPostBaseNameRef, HLiteralWithPostBaseNameRef | HLiteral, HLiteral | HUnknown, HUnknown => true
  | _, _ => false
  end.

Lemma hbf_eqb_eq a b : hbf_eqb a b = true -> a = b.
Proof. destruct a, b; cbn; congruence. Qed.

Lemma dispatch_check :
  forall_below 256 (fun b => hbf_eqb (hbf_decode b) (classify b) &&
                             (* Literal::decode re-checks the pattern *)
                             (if (32 <=? b) && (b <? 64) then N.land b qs_lit_mask =? qs_lit_value else true)) = true.
Proof. vm_compute. reflexivity. Qed.

Lemma hbf_decode_classify b : b < 256 -> hbf_decode b = classify b.
Proof.
  intros Hb. pose proof (forall_below_spec 256 _ dispatch_check b Hb) as H. cbv beta in H.
  apply andb_true_iff in H. destruct H as [H _]. apply hbf_eqb_eq. exact H.
Qed.

Lemma literal_mask_ok b : 32 <= b < 64 -> (N.land b qs_lit_mask =? qs_lit_value) = true.
Proof.
  intros Hb. pose proof (forall_below_spec 256 _ dispatch_check b ltac:(lia)) as H. cbv beta in H.
  apply andb_true_iff in H. destruct H as [_ H].
  destruct (N.leb_spec 32 b); [|lia]. destruct (N.ltb_spec b 64); [|lia]. exact H.
Qed.

(* flag patterns of the name-reference form: f = first octet / 16, a 4-bit number *)
Lemma nameref_flags_check :
  forall_below 16 (fun f =>
    Bool.eqb (N.land f qs_nr_static_mask =? qs_nr_static_value) ((f mod 2 =? 1) && (4 <=? f mod 8)) &&
    Bool.eqb (N.land f qs_nr_dynamic_mask =? qs_nr_dynamic_value) ((f mod 2 =? 0) && (4 <=? f mod 8))) = true.
Proof. vm_compute. reflexivity. Qed.

Lemma nameref_flags f : f < 16 ->
  (N.land f qs_nr_static_mask =? qs_nr_static_value) = ((f mod 2 =? 1) && (4 <=? f mod 8)) /\
  (N.land f qs_nr_dynamic_mask =? qs_nr_dynamic_value) = ((f mod 2 =? 0) && (4 <=? f mod 8)).
Proof.
  intros Hf. pose proof (forall_below_spec 16 _ nameref_flags_check f Hf) as H. cbv beta in H.
  apply andb_true_iff in H. destruct H as [H1 H2]. apply Bool.eqb_prop in H1, H2. auto.
Qed.

Lemma land_1_mod2 f : N.land f 1 = f mod 2.
Proof. change 1 with (N.ones 1) at 1. rewrite N.land_ones. reflexivity. Qed.

Lemma mem_size_is_field_size f : mem_size f = field_size f.
Proof. reflexivity. Qed.

(* ---------------------------------------------------------------- errors raised below decode_stateless are all in the class *)
Lemma lift_int_err {A} (r : res pi_err A) e : lift_int r = Err e -> decompression_failed e = true.
Proof. destruct r; cbn; intros H; inversion H; reflexivity. Qed.
Lemma lift_str_err {A} (r : res ps_err A) e : lift_str r = Err e -> decompression_failed e = true.
Proof. destruct r; cbn; intros H; inversion H; reflexivity. Qed.
Lemma lift_int_ok {A} (r : res pi_err A) a : lift_int r = Ok a -> r = Ok a.
Proof. destruct r; cbn; intros H; inversion H; reflexivity. Qed.
Lemma lift_str_ok {A} (r : res ps_err A) a : lift_str r = Ok a -> r = Ok a.
Proof. destruct r; cbn; intros H; inversion H; reflexivity. Qed.
Lemma lift_int_panic {A} (r : res pi_err A) : is_panic (lift_int r) = is_panic r.
Proof. destruct r; reflexivity. Qed.
Lemma lift_str_panic {A} (r : res ps_err A) : is_panic (lift_str r) = is_panic r.
Proof. destruct r; reflexivity. Qed.

Ltac err_class :=
  repeat match goal with
         | H : lift_int _ = Err _ |- _ => apply lift_int_err in H; exact H
         | H : lift_str _ = Err _ |- _ => apply lift_str_err in H; exact H
         | H : Err _ = Err _ |- _ => inversion H; subst; clear H; try reflexivity
         | H : Ok _ = Err _ |- _ => discriminate H
         | H : Panic _ = Err _ |- _ => discriminate H
         | H : context [match ?x with _ => _ end] |- _ => destruct x eqn:?
         | H : context [if ?x then _ else _] |- _ => destruct x eqn:?
         end.

Lemma hp_decode_err bs e : hp_decode bs = Err e -> decompression_failed e = true.
Proof. unfold hp_decode. intros H. err_class. Qed.

Lemma indexed_decode_err bs e : indexed_decode bs = Err e -> decompression_failed e = true.
Proof. unfold indexed_decode. intros H. err_class. Qed.

Lemma nameref_decode_err bs e : nameref_decode bs = Err e -> decompression_failed e = true.
Proof. unfold nameref_decode. intros H. err_class. Qed.

Lemma literal_decode_err bs e : literal_decode bs = Err e -> decompression_failed e = true.
Proof. unfold literal_decode. intros H. err_class. Qed.

Lemma static_or_err_err i e : static_or_err i = Err e -> decompression_failed e = true.
Proof. unfold static_or_err. intros H. err_class. Qed.

Lemma field_decode_err bs e : field_decode bs = Err e -> decompression_failed e = true.
Proof.
  unfold field_decode. intros H. destruct bs as [|first t]; [discriminate|].
  destruct (hbf_decode first).
  - destruct (indexed_decode (first :: t)) as [[[i|i] r]|e'|] eqn:E.
    + destruct (static_or_err i) eqn:Es; try discriminate. inversion H; subst. eapply static_or_err_err; eauto.
    + destruct qs_indexed_dynamic_refused; inversion H; reflexivity.
    + inversion H; subst. eapply indexed_decode_err; eauto.
    + discriminate.
  - destruct qs_postbase_indexed_refused; inversion H; reflexivity.
  - destruct (nameref_decode (first :: t)) as [[[i v|i v] r]|e'|] eqn:E.
    + destruct (static_or_err i) eqn:Es; try discriminate. inversion H; subst. eapply static_or_err_err; eauto.
    + destruct qs_nameref_dynamic_refused; inversion H; reflexivity.
    + inversion H; subst. eapply nameref_decode_err; eauto.
    + discriminate.
  - destruct qs_postbase_nameref_refused; inversion H; reflexivity.
  - destruct (literal_decode (first :: t)) as [[[n v] r]|e'|] eqn:E; try discriminate.
    inversion H; subst. eapply literal_decode_err; eauto.
  - inversion H; reflexivity.
Qed.

(* ---------------------------------------------------------------- h3's Huffman decoder behind its size guard *)

(* prefix_string::decode refuses a Huffman payload whose bit positions (plus the 8-bit look-ahead) do not fit u32 *)
Definition huff_guard (n : N) : bool := 2 ^ 32 - 1 <? N.min (N.min (n * 8) (2 ^ 64 - 1) + 8) (2 ^ 64 - 1).

Lemma huff_guard_fits p : huff_guard (len p) = false -> fits_u32 p.
Proof.
  unfold huff_guard, fits_u32. intros H. apply N.ltb_ge in H.
  change (2 ^ 32) with 4294967296 in *. change (2 ^ 64) with 18446744073709551616 in *. lia.
Qed.

Lemma fits_huff_guard p : fits_u32 p -> huff_guard (len p) = false.
Proof.
  unfold huff_guard, fits_u32. intros H. apply N.ltb_ge.
  change (2 ^ 32) with 4294967296 in *. change (2 ^ 64) with 18446744073709551616 in *. lia.
Qed.

Section WithC15.
  (* the facts about the Huffman decoder used below are C15's theorems *)
  Let H_hdec_sound : forall p s, wf_bytes p -> fits_u32 p -> hpack_decode p = Ok s -> hs_lax p s := hpack_decode_sound.
  Let H_hdec_np : forall p, wf_bytes p -> fits_u32 p -> is_panic (hpack_decode p) = false := hpack_decode_no_panic.

  (* h3's Huffman decoder, guard included, as an option-valued function *)
  Definition hdec_model (p : bytes) : option bytes :=
    if huff_guard (len p) then None
    else match hpack_decode p with Ok s => Some s | _ => None end.

  Lemma hdec_model_sound p s : wf_bytes p -> hdec_model p = Some s -> hs_lax p s.
  Proof.
    unfold hdec_model. intros Hwf H. destruct (huff_guard (len p)) eqn:G; [discriminate|].
    destruct (hpack_decode p) eqn:E; try discriminate.
    inversion H; subst. apply H_hdec_sound; [assumption|apply huff_guard_fits; assumption|assumption].
  Qed.

  (* ---------------------------------------------------------------- string literals *)
  Lemma ps_decode_ref size bs s r :
    2 <= size <= 8 -> wf_bytes bs -> ps_decode size bs = Ok (s, r) ->
    ref_string rfc_pi_decode hdec_model (size - 1) bs = Some (s, r).
  Proof.
    intros Hs Hwf H.
    destruct (ps_decode_sound size bs s r Hs Hwf H) as (fl & n0 & r0 & Ed & Hle & Hrest & Hraw & Hhuff).
    unfold ref_string. rewrite Ed. destruct (N.ltb_spec (len r0) n0) as [|_]; [lia|].
    rewrite <- land_1_mod2. destruct (N.eqb_spec (N.land fl 1) 0) as [E|E].
    - rewrite (Hraw E), Hrest. reflexivity.
    - destruct (Hhuff E) as [Hfit Hd]. unfold hdec_model.
      assert (Hf : fits_u32 (firstn (N.to_nat n0) r0)) by (unfold fits_u32; rewrite (len_firstn_le _ _ Hle); lia).
      rewrite (fits_huff_guard _ Hf), Hd, Hrest. reflexivity.
  Qed.

  Lemma ps_decode_no_panic' size bs : 2 <= size <= 8 -> wf_bytes bs -> is_panic (ps_decode size bs) = false.
  Proof. apply ps_decode_no_panic. Qed.

  (* what remains after a successful read is a suffix, hence well formed *)
  Lemma pi_decode_rest_wf size bs f v r :
    1 <= size <= 8 -> wf_bytes bs -> pi_decode size bs = Ok (f, v, r) -> wf_bytes r /\ (length r < length bs)%nat.
  Proof.
    intros Hs Hwf H. apply pi_decode_sound in H; [|exact Hs|exact Hwf].
    destruct (rfc_pi_decode_split _ _ _ _ _ H) as (e & He & Hne & _). subst bs.
    apply wf_bytes_app in Hwf. split; [tauto|]. rewrite app_length. destruct e; [congruence|cbn; lia].
  Qed.

  Lemma ps_decode_rest_wf size bs s r :
    2 <= size <= 8 -> wf_bytes bs -> ps_decode size bs = Ok (s, r) -> wf_bytes r /\ (length r < length bs)%nat.
  Proof.
    intros Hs Hwf H. apply ps_decode_ref in H; [|exact Hs|exact Hwf].
    destruct (ref_string_sound hs_lax hdec_model hdec_model_sound _ _ _ _ Hwf H) as (b0 & t & e & Hb & He & Hl).
    pose proof (str_lit_nonempty _ _ _ _ _ Hl) as Hne. rewrite He in Hwf |- *.
    apply wf_bytes_app in Hwf. split; [tauto|]. rewrite app_length. destruct e; [congruence|cbn; lia].
  Qed.

  (* ---------------------------------------------------------------- field lines *)
  Lemma field_decode_ref bs f r :
    wf_bytes bs -> field_decode bs = Ok (f, r) -> ref_line rfc_pi_decode hdec_model bs = Some (f, r).
  Proof.
    intros Hwf H. unfold field_decode in H. destruct bs as [|first t] eqn:Ebs; [discriminate|]. rewrite <- Ebs in *.
    assert (Hb : first < 256) by (subst bs; apply wf_bytes_cons in Hwf; tauto).
    rewrite (hbf_decode_classify first Hb) in H. unfold classify in H. unfold ref_line. rewrite Ebs at 1.
    destruct (N.leb_spec 128 first) as [H128|H128].
    { (* Indexed *)
      unfold indexed_decode in H.
      destruct (lift_int (pi_decode qs_idx_bits bs)) as [[[fl i] r0]|e|] eqn:Ep; try discriminate.
      apply lift_int_ok in Ep. apply pi_decode_sound in Ep; [|unfold_qs; lia|exact Hwf].
      unfold_qs. rewrite Ep.
      destruct (fl =? 3).
      - destruct (usize_max <? i); [discriminate|]. unfold static_or_err in H. rewrite st_get_is_rfc in H.
        destruct (rfc_static i); [inversion H; reflexivity|discriminate].
      - destruct (fl =? 2); [destruct (usize_max <? i); discriminate|discriminate]. }
    destruct (N.leb_spec 64 first) as [H64|H64].
    { (* LiteralWithNameRef *)
      unfold nameref_decode in H.
      destruct (lift_int (pi_decode qs_nr_bits bs)) as [[[fl i] r0]|e|] eqn:Ep; try discriminate.
      apply lift_int_ok in Ep. pose proof Ep as Ep'. apply pi_decode_sound in Ep; [|unfold_qs; lia|exact Hwf].
      apply pi_decode_rest_wf in Ep'; [|unfold_qs; lia|exact Hwf]. destruct Ep' as [Hwf0 _].
      assert (Hfl : fl = first / 2 ^ 4) by (rewrite Ebs in Ep; eapply rfc_pi_decode_first; exact Ep).
      change (2 ^ 4) with 16 in Hfl. assert (Hfl16 : fl < 16) by lia.
      destruct (nameref_flags fl Hfl16) as [F1 F2]. rewrite F1, F2 in H.
      change qs_nr_bits with 4 in Ep. rewrite Ep.
      destruct (N.eqb_spec (fl mod 2) 1) as [Hodd|Hev].
      - replace (4 <=? fl mod 8) with true in H by lia. cbn [andb] in H.
        destruct (usize_max <? i); [discriminate|].
        destruct (lift_str (ps_decode qs_nr_static_string_size r0)) as [[v r']|e|] eqn:Es; try discriminate.
        apply lift_str_ok in Es. apply ps_decode_ref in Es; [|unfold_qs; lia|exact Hwf0].
        unfold static_or_err in H. rewrite st_get_is_rfc in H.
        change (qs_nr_static_string_size - 1) with 7 in Es.
        destruct (rfc_static i) as [ent|]; [|discriminate]. rewrite Es. inversion H; reflexivity.
      - cbn [andb] in H. destruct ((fl mod 2 =? 0) && (4 <=? fl mod 8)); [|discriminate].
        destruct (usize_max <? i); [discriminate|].
        destruct (lift_str (ps_decode qs_nr_dynamic_string_size r0)) as [[v r']|e|]; discriminate. }
    destruct (N.leb_spec 32 first) as [H32|H32].
    { (* Literal *)
      unfold literal_decode in H. rewrite Ebs in H at 1.
      rewrite (literal_mask_ok first ltac:(lia)) in H. cbn [negb] in H.
      destruct (lift_str (ps_decode qs_lit_name_size bs)) as [[name r1]|e|] eqn:En; try discriminate.
      apply lift_str_ok in En. pose proof En as En'. apply ps_decode_ref in En; [|unfold_qs; lia|exact Hwf].
      apply ps_decode_rest_wf in En'; [|unfold_qs; lia|exact Hwf]. destruct En' as [Hwf1 _].
      destruct (lift_str (ps_decode qs_lit_value_size r1)) as [[value r2]|e|] eqn:Ev; try discriminate.
      apply lift_str_ok in Ev. apply ps_decode_ref in Ev; [|unfold_qs; lia|exact Hwf1].
      change (qs_lit_name_size - 1) with 3 in En. change (qs_lit_value_size - 1) with 7 in Ev.
      rewrite En, Ev. inversion H; reflexivity. }
    destruct (16 <=? first).
    - destruct qs_postbase_indexed_refused; discriminate.
    - destruct qs_postbase_nameref_refused; discriminate.
  Qed.

  Lemma field_decode_sound bs f r :
    wf_bytes bs -> field_decode bs = Ok (f, r) ->
    exists l, bs = l ++ r /\ l <> [] /\ field_line hs_lax f l.
  Proof.
    intros Hwf H. apply field_decode_ref in H; [|exact Hwf].
    exact (ref_line_sound hs_lax hdec_model hdec_model_sound _ _ _ Hwf H).
  Qed.

  Lemma field_decode_rest bs f r :
    wf_bytes bs -> field_decode bs = Ok (f, r) -> wf_bytes r /\ (length r < length bs)%nat.
  Proof.
    intros Hwf H. destruct (field_decode_sound _ _ _ Hwf H) as (l & -> & Hne & _).
    apply wf_bytes_app in Hwf. split; [tauto|]. rewrite app_length. destruct l; [congruence|cbn; lia].
  Qed.

  Lemma field_decode_no_panic bs : wf_bytes bs -> bs <> [] -> is_panic (field_decode bs) = false.
  Proof.
    intros Hwf Hne. unfold field_decode. destruct bs as [|first t] eqn:Ebs; [congruence|]. rewrite <- Ebs in *.
    assert (Hb : first < 256) by (subst bs; apply wf_bytes_cons in Hwf; tauto).
    destruct (hbf_decode first).
    - unfold indexed_decode.
      pose proof (pi_decode_no_panic qs_idx_bits bs ltac:(unfold_qs; lia) Hwf) as Hnp.
      rewrite <- lift_int_panic in Hnp.
      destruct (lift_int (pi_decode qs_idx_bits bs)) as [[[fl i] r0]|e|]; [|reflexivity|discriminate].
      destruct (fl =? qs_idx_static_flags).
      + destruct (usize_max <? i); [reflexivity|]. unfold static_or_err. destruct (st_get i); reflexivity.
      + destruct (fl =? qs_idx_dynamic_flags); [|reflexivity].
        destruct (usize_max <? i); [reflexivity|]. destruct qs_indexed_dynamic_refused; reflexivity.
    - destruct qs_postbase_indexed_refused; reflexivity.
    - unfold nameref_decode.
      pose proof (pi_decode_no_panic qs_nr_bits bs ltac:(unfold_qs; lia) Hwf) as Hnp.
      rewrite <- lift_int_panic in Hnp.
      destruct (lift_int (pi_decode qs_nr_bits bs)) as [[[fl i] r0]|e|] eqn:Ep; [|reflexivity|discriminate].
      apply lift_int_ok in Ep. apply pi_decode_rest_wf in Ep; [|unfold_qs; lia|exact Hwf]. destruct Ep as [Hwf0 _].
      pose proof (ps_decode_no_panic' 8 r0 ltac:(lia) Hwf0) as Hs. rewrite <- lift_str_panic in Hs.
      destruct (N.land fl qs_nr_static_mask =? qs_nr_static_value).
      + destruct (usize_max <? i); [reflexivity|]. change qs_nr_static_string_size with 8.
        destruct (lift_str (ps_decode 8 r0)) as [[v r']|e|]; [|reflexivity|discriminate].
        unfold static_or_err. destruct (st_get i); reflexivity.
      + destruct (N.land fl qs_nr_dynamic_mask =? qs_nr_dynamic_value); [|reflexivity].
        destruct (usize_max <? i); [reflexivity|]. change qs_nr_dynamic_string_size with 8.
        destruct (lift_str (ps_decode 8 r0)) as [[v r']|e|]; [|reflexivity|discriminate].
        destruct qs_nameref_dynamic_refused; reflexivity.
    - destruct qs_postbase_nameref_refused; reflexivity.
    - unfold literal_decode. rewrite Ebs at 1.
      destruct (negb (N.land first qs_lit_mask =? qs_lit_value)); [reflexivity|].
      pose proof (ps_decode_no_panic' 4 bs ltac:(lia) Hwf) as Hs. rewrite <- lift_str_panic in Hs.
      change qs_lit_name_size with 4.
      destruct (lift_str (ps_decode 4 bs)) as [[name r1]|e|] eqn:En; [|reflexivity|discriminate].
      apply lift_str_ok in En. apply ps_decode_rest_wf in En; [|lia|exact Hwf]. destruct En as [Hwf1 _].
      pose proof (ps_decode_no_panic' 8 r1 ltac:(lia) Hwf1) as Hs1. rewrite <- lift_str_panic in Hs1.
      change qs_lit_value_size with 8.
      destruct (lift_str (ps_decode 8 r1)) as [[value r2]|e|]; [reflexivity|reflexivity|discriminate].
    - reflexivity.
  Qed.

  (* ---------------------------------------------------------------- the loop *)
  Lemma fields_loop_ref fuel : forall bs mem acc fs m,
    wf_bytes bs -> fields_loop fuel bs None mem acc = Ok (fs, m) ->
    exists fs', ref_lines rfc_pi_decode hdec_model fuel bs = Some fs' /\
                fs = rev acc ++ fs' /\ m = mem + section_size fs'.
  Proof.
    induction fuel as [|k IH]; intros bs mem acc fs m Hwf H; destruct bs as [|b t] eqn:Ebs;
      cbn [fields_loop ref_lines] in *.
    - inversion H; subst. exists []. rewrite app_nil_r. cbn. split; [reflexivity|]. split; [reflexivity|lia].
    - discriminate.
    - inversion H; subst. exists []. rewrite app_nil_r. cbn. split; [reflexivity|]. split; [reflexivity|lia].
    - rewrite <- Ebs in *. destruct (field_decode bs) as [[f r]|e|] eqn:Ef; try discriminate.
      cbn [too_long] in H.
      pose proof (field_decode_rest _ _ _ Hwf Ef) as [Hwfr _].
      rewrite (field_decode_ref _ _ _ Hwf Ef).
      destruct (IH _ _ _ _ _ Hwfr H) as (fs' & Hr & Hfs & Hm). rewrite Hr.
      exists (f :: fs'). split; [reflexivity|]. split.
      + rewrite Hfs. cbn [rev]. rewrite <- app_assoc. reflexivity.
      + rewrite Hm, mem_size_is_field_size. cbn [section_size]. lia.
  Qed.

  Lemma fields_loop_no_panic fuel : forall bs max mem acc,
    wf_bytes bs -> is_panic (fields_loop fuel bs max mem acc) = false.
  Proof.
    induction fuel as [|k IH]; intros bs max mem acc Hwf; destruct bs as [|b t] eqn:Ebs; cbn [fields_loop]; try reflexivity.
    rewrite <- Ebs in *.
    pose proof (field_decode_no_panic bs Hwf ltac:(subst bs; discriminate)) as Hnp.
    destruct (field_decode bs) as [[f r]|e|] eqn:Ef; [|reflexivity|discriminate].
    destruct (too_long (mem + mem_size f) max); [reflexivity|].
    apply IH. eapply field_decode_rest; eauto.
  Qed.

  Lemma fields_loop_fuel fuel : forall bs max mem acc,
    wf_bytes bs -> (length bs <= fuel)%nat -> fields_loop fuel bs max mem acc <> Err DOutOfFuel.
  Proof.
    induction fuel as [|k IH]; intros bs max mem acc Hwf Hfuel; destruct bs as [|b t] eqn:Ebs; cbn [fields_loop];
      try discriminate.
    - cbn in Hfuel. lia.
    - rewrite <- Ebs in *. destruct (field_decode bs) as [[f r]|e|] eqn:Ef; try discriminate.
      + destruct (too_long (mem + mem_size f) max); [discriminate|].
        destruct (field_decode_rest _ _ _ Hwf Ef) as [Hwfr Hlen]. apply IH; [exact Hwfr|lia].
      + intros Hc. inversion Hc; subst. apply field_decode_err in Ef. discriminate.
  Qed.

  Lemma fields_loop_err_class fuel : forall bs mem acc e,
    fields_loop fuel bs None mem acc = Err e -> e = DOutOfFuel \/ decompression_failed e = true.
  Proof.
    induction fuel as [|k IH]; intros bs mem acc e H; destruct bs as [|b t] eqn:Ebs; cbn [fields_loop] in H;
      try discriminate.
    - inversion H. left. reflexivity.
    - rewrite <- Ebs in *. destruct (field_decode bs) as [[f r]|e'|] eqn:Ef; try discriminate.
      + cbn [too_long] in H. eapply IH; eauto.
      + inversion H; subst. right. eapply field_decode_err; eauto.
  Qed.

  (* ---------------------------------------------------------------- the prefix *)
  Lemma hp_decode_ok bs eic sign delta r :
    wf_bytes bs -> hp_decode bs = Ok (eic, sign, delta, r) ->
    exists f1 s r1, rfc_pi_decode 8 bs = Some (f1, eic, r1) /\ rfc_pi_decode 7 r1 = Some (s, delta, r) /\
                    sign = (s =? 1) /\ s < 2 /\ wf_bytes r.
  Proof.
    intros Hwf H. unfold hp_decode in H.
    destruct (lift_int (pi_decode qs_hp_ric_bits bs)) as [[[f1 e1] r1]|e|] eqn:E1; try discriminate.
    apply lift_int_ok in E1. pose proof E1 as E1'. apply pi_decode_sound in E1; [|unfold_qs; lia|exact Hwf].
    apply pi_decode_rest_wf in E1'; [|unfold_qs; lia|exact Hwf]. destruct E1' as [Hwf1 _].
    destruct (lift_int (pi_decode qs_hp_base_bits r1)) as [[[s d] r2]|e|] eqn:E2; try discriminate.
    apply lift_int_ok in E2. pose proof E2 as E2'. apply pi_decode_sound in E2; [|unfold_qs; lia|exact Hwf1].
    apply pi_decode_rest_wf in E2'; [|unfold_qs; lia|exact Hwf1]. destruct E2' as [Hwf2 _].
    destruct (usize_max <? e1); [discriminate|]. destruct (usize_max <? d); [discriminate|].
    inversion H; subst. exists f1, s, r1. split; [exact E1|]. split; [exact E2|]. split; [reflexivity|].
    split; [|exact Hwf2].
    destruct r1 as [|b0 t]; [discriminate|]. apply wf_bytes_cons in Hwf1. destruct Hwf1 as [Hb _].
    change qs_hp_base_bits with 7 in E2.
    rewrite (rfc_pi_decode_first _ _ _ _ _ _ E2). change (2 ^ 7) with 128. lia.
  Qed.

  Lemma hp_decode_no_panic bs : wf_bytes bs -> is_panic (hp_decode bs) = false.
  Proof.
    intros Hwf. unfold hp_decode.
    pose proof (pi_decode_no_panic qs_hp_ric_bits bs ltac:(unfold_qs; lia) Hwf) as Hnp. rewrite <- lift_int_panic in Hnp.
    destruct (lift_int (pi_decode qs_hp_ric_bits bs)) as [[[f1 e1] r1]|e|] eqn:E1; [|reflexivity|discriminate].
    apply lift_int_ok in E1. apply pi_decode_rest_wf in E1; [|unfold_qs; lia|exact Hwf]. destruct E1 as [Hwf1 _].
    pose proof (pi_decode_no_panic qs_hp_base_bits r1 ltac:(unfold_qs; lia) Hwf1) as Hnp1. rewrite <- lift_int_panic in Hnp1.
    destruct (lift_int (pi_decode qs_hp_base_bits r1)) as [[[s d] r2]|e|]; [|reflexivity|discriminate].
    destruct (usize_max <? e1); [reflexivity|]. destruct (usize_max <? d); reflexivity.
  Qed.

  (* ---------------------------------------------------------------- decode_stateless *)

  (* success of h3 = success of the reference decoder run with h3's Huffman decoder, same fields, size = RFC 9114 size *)
  Lemma decode_stateless_ref bs fs m :
    wf_bytes bs -> decode_stateless None bs = Ok (fs, m) ->
    ref_section rfc_pi_decode hdec_model bs = Some fs /\ m = section_size fs.
  Proof.
    intros Hwf H. unfold decode_stateless in H.
    destruct (hp_decode bs) as [[[[eic sign] delta] r]|e|] eqn:Eh; try discriminate.
    destruct (hp_decode_ok _ _ _ _ _ Hwf Eh) as (f1 & s & r1 & E1 & E2 & Hsign & Hs & Hwfr).
    unfold_qs. cbn [andb] in H.
    destruct (N.eqb_spec eic 0) as [->|]; [|discriminate]. cbn [negb] in H.
    destruct sign; [discriminate|].
    destruct (fields_loop_ref _ _ _ _ _ _ Hwfr H) as (fs' & Hr & Hfs & Hm). cbn [rev app] in Hfs. subst fs'.
    unfold ref_section. rewrite E1. change (0 =? 0) with true. cbv iota. rewrite E2.
    assert (Hs0 : s = 0) by (destruct (N.eqb_spec s 1); [discriminate|lia]). subst s.
    change (0 =? 0) with true. cbv iota. split; [exact Hr|lia].
  Qed.

  (* T2, complete form: everything h3 accepts parses by the RFC 9204 grammar in which a Huffman payload is
     either valid by RFC 7541 5.2 or of the known class F15b - and h3's answer is the parsed field list *)
  Theorem decode_accepts_lax bs fs m :
    wf_bytes bs -> decode_stateless None bs = Ok (fs, m) -> section_g hs_lax fs bs /\ m = section_size fs.
  Proof.
    intros Hwf H. destruct (decode_stateless_ref _ _ _ Hwf H) as [Hr Hm]. split; [|exact Hm].
    exact (ref_section_sound hs_lax hdec_model hdec_model_sound _ _ Hwf Hr).
  Qed.

  (* T2 outside the known class *)
  Theorem decode_accepts_only_rfc bs fs m :
    wf_bytes bs -> no_known_huffman bs -> decode_stateless None bs = Ok (fs, m) -> section fs bs.
  Proof.
    intros Hwf Hnk H. destruct (decode_accepts_lax _ _ _ Hwf H) as [Hl _].
    apply Hnk in Hl. unfold section. eapply section_g_mono; [|exact Hl]. exact hs_outside_strict.
  Qed.

  Theorem decode_stateless_no_panic max bs : wf_bytes bs -> is_panic (decode_stateless max bs) = false.
  Proof.
    intros Hwf. unfold decode_stateless. pose proof (hp_decode_no_panic bs Hwf) as Hnp.
    destruct (hp_decode bs) as [[[[eic sign] delta] r]|e|] eqn:Eh; [|reflexivity|discriminate].
    destruct (qs_ric_nonzero_rejected && negb (eic =? 0)); [reflexivity|].
    destruct (qs_base_checked && qs_negative_base_is_error && sign); [reflexivity|].
    apply fields_loop_no_panic. destruct (hp_decode_ok _ _ _ _ _ Hwf Eh) as (_ & _ & _ & _ & _ & _ & _ & Hw). exact Hw.
  Qed.

  Theorem decode_stateless_never_out_of_fuel max bs : wf_bytes bs -> decode_stateless max bs <> Err DOutOfFuel.
  Proof.
    intros Hwf. unfold decode_stateless.
    destruct (hp_decode bs) as [[[[eic sign] delta] r]|e|] eqn:Eh; try discriminate.
    - destruct (qs_ric_nonzero_rejected && negb (eic =? 0)); [discriminate|].
      destruct (qs_base_checked && qs_negative_base_is_error && sign); [discriminate|].
      apply fields_loop_fuel; [|lia]. destruct (hp_decode_ok _ _ _ _ _ Hwf Eh) as (_ & _ & _ & _ & _ & _ & _ & Hw). exact Hw.
    - intros Hc. inversion Hc; subst. apply hp_decode_err in Eh. discriminate.
  Qed.

  (* every refusal without a limit is in the QPACK_DECOMPRESSION_FAILED class *)
  Theorem decode_stateless_err_class bs e :
    wf_bytes bs -> decode_stateless None bs = Err e -> decompression_failed e = true.
  Proof.
    intros Hwf H. pose proof (decode_stateless_never_out_of_fuel None bs Hwf) as Hf.
    unfold decode_stateless in *.
    destruct (hp_decode bs) as [[[[eic sign] delta] r]|e'|] eqn:Eh; try discriminate.
    - destruct (qs_ric_nonzero_rejected && negb (eic =? 0)); [inversion H; reflexivity|].
      destruct (qs_base_checked && qs_negative_base_is_error && sign); [inversion H; reflexivity|].
      destruct (fields_loop_err_class _ _ _ _ _ H) as [->|Hc]; [congruence|exact Hc].
    - inversion H; subst. eapply hp_decode_err; eauto.
  Qed.

  (* T3: what is not an RFC 9204 static/literal section is refused, with a decompression failure *)
  Theorem decode_rejects_non_rfc bs :
    wf_bytes bs -> no_known_huffman bs -> ~ (exists fs, section fs bs) ->
    exists e, decode_stateless None bs = Err e /\ decompression_failed e = true.
  Proof.
    intros Hwf Hnk Hno. pose proof (decode_stateless_no_panic None bs Hwf) as Hnp.
    destruct (decode_stateless None bs) as [[fs m]|e|] eqn:E; [|exists e|discriminate].
    - exfalso. apply Hno. exists fs. eapply decode_accepts_only_rfc; eauto.
    - split; [reflexivity|]. eapply decode_stateless_err_class; eauto.
  Qed.

  (* ---------------------------------------------------------------- named rejections *)

  (* T3 in executable form, without any premise about the known class: whatever the reference decoder run with
     h3's own Huffman decoder refuses, h3 refuses with a decompression failure *)
  Theorem decode_rejects_what_reference_rejects bs :
    wf_bytes bs -> ref_section rfc_pi_decode hdec_model bs = None ->
    exists e, decode_stateless None bs = Err e /\ decompression_failed e = true.
  Proof.
    intros Hwf Hno. pose proof (decode_stateless_no_panic None bs Hwf) as Hnp.
    destruct (decode_stateless None bs) as [[fs m]|e|] eqn:E; [|exists e|discriminate].
    - apply decode_stateless_ref in E; [|exact Hwf]. destruct E as [E _]. congruence.
    - split; [reflexivity|]. eapply decode_stateless_err_class; eauto.
  Qed.

  Lemma field_decode_rejects bs :
    wf_bytes bs -> bs <> [] -> ref_line rfc_pi_decode hdec_model bs = None ->
    exists e, field_decode bs = Err e /\ decompression_failed e = true.
  Proof.
    intros Hwf Hne Hno. pose proof (field_decode_no_panic bs Hwf Hne) as Hnp.
    destruct (field_decode bs) as [[f r]|e|] eqn:E; [|exists e|discriminate].
    - apply field_decode_ref in E; [|exact Hwf]. congruence.
    - split; [reflexivity|]. eapply field_decode_err; eauto.
  Qed.

  (* Required Insert Count <> 0: the section needs dynamic-table entries *)
  Theorem reject_required_insert_count max bs f ric r :
    wf_bytes bs -> rfc_pi_decode 8 bs = Some (f, ric, r) -> ric <> 0 ->
    exists e, decode_stateless max bs = Err e /\ decompression_failed e = true.
  Proof.
    intros Hwf E Hric. unfold decode_stateless. pose proof (hp_decode_no_panic bs Hwf) as Hnp.
    destruct (hp_decode bs) as [[[[eic sign] delta] r']|e|] eqn:Eh; [|exists e|discriminate].
    - destruct (hp_decode_ok _ _ _ _ _ Hwf Eh) as (f1 & s & r1 & E1 & _). rewrite E in E1. inversion E1; subst.
      unfold_qs. cbn [andb]. destruct (N.eqb_spec eic 0); [congruence|]. cbn [negb].
      eexists. split; reflexivity.
    - split; [reflexivity|]. eapply hp_decode_err; eauto.
  Qed.

  (* S = 1 with Required Insert Count 0: the Base would be negative *)
  Theorem reject_negative_base max bs f r1 delta r2 :
    wf_bytes bs -> rfc_pi_decode 8 bs = Some (f, 0, r1) -> rfc_pi_decode 7 r1 = Some (1, delta, r2) ->
    exists e, decode_stateless max bs = Err e /\ decompression_failed e = true.
  Proof.
    intros Hwf E1 E2. unfold decode_stateless. pose proof (hp_decode_no_panic bs Hwf) as Hnp.
    destruct (hp_decode bs) as [[[[eic sign] d] r']|e|] eqn:Eh; [|exists e|discriminate].
    - destruct (hp_decode_ok _ _ _ _ _ Hwf Eh) as (f1 & s & r1' & E1' & E2' & Hsign & _).
      rewrite E1 in E1'. inversion E1'; subst. rewrite E2 in E2'. inversion E2'; subst.
      unfold_qs. cbn. eexists. split; reflexivity.
    - split; [reflexivity|]. eapply hp_decode_err; eauto.
  Qed.

  (* 0001xxxx (indexed, post-base) and 0000xxxx (literal with post-base name reference) *)
  Theorem reject_post_base_forms first t :
    first < 32 -> field_decode (first :: t) = Err (DMissingRefs 0).
  Proof.
    intros Hb. unfold field_decode. rewrite (hbf_decode_classify first ltac:(lia)). unfold classify.
    destruct (N.leb_spec 128 first); [lia|]. destruct (N.leb_spec 64 first); [lia|].
    destruct (N.leb_spec 32 first); [lia|]. destruct (16 <=? first); reflexivity.
  Qed.

  (* 10xxxxxx: indexed field line with T = 0 (dynamic table) *)
  Theorem reject_dynamic_indexed first t :
    wf_bytes (first :: t) -> 128 <= first < 192 ->
    exists e, field_decode (first :: t) = Err e /\ decompression_failed e = true.
  Proof.
    intros Hwf Hb. apply field_decode_rejects; [exact Hwf|discriminate|].
    unfold ref_line. destruct (N.leb_spec 128 first); [|lia].
    destruct (rfc_pi_decode 6 (first :: t)) as [[[fl i] r]|] eqn:E; [|reflexivity].
    rewrite (rfc_pi_decode_first _ _ _ _ _ _ E). change (2 ^ 6) with 64.
    destruct (N.eqb_spec (first / 64) 3); [lia|reflexivity].
  Qed.

  (* 01N0xxxx: literal field line with name reference, T = 0 (dynamic table) *)
  Theorem reject_dynamic_name_reference first t :
    wf_bytes (first :: t) -> 64 <= first < 128 -> (first / 16) mod 2 = 0 ->
    exists e, field_decode (first :: t) = Err e /\ decompression_failed e = true.
  Proof.
    intros Hwf Hb Ht. apply field_decode_rejects; [exact Hwf|discriminate|].
    unfold ref_line. destruct (N.leb_spec 128 first); [lia|]. destruct (N.leb_spec 64 first); [|lia].
    destruct (rfc_pi_decode 4 (first :: t)) as [[[fl i] r]|] eqn:E; [|reflexivity].
    rewrite (rfc_pi_decode_first _ _ _ _ _ _ E). change (2 ^ 4) with 16.
    destruct (N.eqb_spec ((first / 16) mod 2) 1); [lia|reflexivity].
  Qed.

  (* a static index beyond the 99 entries, in either static form *)
  Theorem reject_static_index_out_of_range bs fl i r :
    wf_bytes bs -> (rfc_pi_decode 6 bs = Some (fl, i, r) /\ (exists b t, bs = b :: t /\ 128 <= b) \/
                    rfc_pi_decode 4 bs = Some (fl, i, r) /\ (exists b t, bs = b :: t /\ 64 <= b < 128)) ->
    99 <= i ->
    exists e, field_decode bs = Err e /\ decompression_failed e = true.
  Proof.
    intros Hwf Hd Hi. destruct Hd as [[E (b & t & -> & Hb)]|[E (b & t & -> & Hb)]];
      (apply field_decode_rejects; [exact Hwf|discriminate|]); unfold ref_line.
    - destruct (N.leb_spec 128 b); [|lia]. rewrite E. unfold rfc_static.
      destruct (N.ltb_spec i 99); [lia|]. destruct (fl =? 3); reflexivity.
    - destruct (N.leb_spec 128 b); [lia|]. destruct (N.leb_spec 64 b); [|lia]. rewrite E. unfold rfc_static.
      destruct (N.ltb_spec i 99); [lia|]. destruct (fl mod 2 =? 1); reflexivity.
  Qed.

  (* a truncated or overflowing integer, a string that runs past the end, is too long for the decoder or is not valid
     Huffman, at each position of each representation.  ([pi_decode]/[ps_decode] failing is characterised against
     RFC 7541 5.1 / 5.2 by C15: pi_decode_truncated, pi_decode_overflow_iff, ps_decode_sound, hpack_decode_strict_outside) *)
  Theorem reject_indexed_bad_index first t e :
    wf_bytes (first :: t) -> 128 <= first -> pi_decode 6 (first :: t) = Err e ->
    field_decode (first :: t) = Err (DInvalidInteger e).
  Proof.
    intros Hwf Hb He. assert (Hb0 : first < 256) by (apply wf_bytes_cons in Hwf; tauto).
    unfold field_decode. rewrite (hbf_decode_classify first Hb0). unfold classify.
    destruct (N.leb_spec 128 first); [|lia]. unfold indexed_decode. change qs_idx_bits with 6. rewrite He. reflexivity.
  Qed.

  Theorem reject_name_reference_bad_index first t e :
    wf_bytes (first :: t) -> 64 <= first < 128 -> pi_decode 4 (first :: t) = Err e ->
    field_decode (first :: t) = Err (DInvalidInteger e).
  Proof.
    intros Hwf Hb He. assert (Hb0 : first < 256) by (apply wf_bytes_cons in Hwf; tauto).
    unfold field_decode. rewrite (hbf_decode_classify first Hb0). unfold classify.
    destruct (N.leb_spec 128 first); [lia|]. destruct (N.leb_spec 64 first); [|lia].
    unfold nameref_decode. change qs_nr_bits with 4. rewrite He. reflexivity.
  Qed.

  Theorem reject_name_reference_bad_value first t fl i r e :
    wf_bytes (first :: t) -> 64 <= first < 128 -> pi_decode 4 (first :: t) = Ok (fl, i, r) -> ps_decode 8 r = Err e ->
    field_decode (first :: t) = Err (DInvalidString e) \/ field_decode (first :: t) = Err (DInvalidInteger PiOverflow).
  Proof.
    intros Hwf Hb Hi He. assert (Hb0 : first < 256) by (apply wf_bytes_cons in Hwf; tauto).
    pose proof Hi as Hrfc. apply pi_decode_sound in Hrfc; [|lia|exact Hwf].
    pose proof (rfc_pi_decode_first _ _ _ _ _ _ Hrfc) as Hfl. change (2 ^ 4) with 16 in Hfl.
    destruct (nameref_flags fl ltac:(lia)) as [F1 F2].
    unfold field_decode. rewrite (hbf_decode_classify first Hb0). unfold classify.
    destruct (N.leb_spec 128 first); [lia|]. destruct (N.leb_spec 64 first); [|lia].
    unfold nameref_decode. change qs_nr_bits with 4. rewrite Hi. cbn [lift_int]. rewrite F1, F2.
    change qs_nr_static_string_size with 8. change qs_nr_dynamic_string_size with 8.
    assert (H48 : (4 <=? fl mod 8) = true) by (apply N.leb_le; lia). rewrite H48, !andb_true_r.
    destruct (N.eqb_spec (fl mod 2) 1) as [Ho|Ho].
    - destruct (usize_max <? i); [right; reflexivity|]. rewrite He. left. reflexivity.
    - destruct (N.eqb_spec (fl mod 2) 0) as [_|Hc]; [|lia].
      destruct (usize_max <? i); [right; reflexivity|]. rewrite He. left. reflexivity.
  Qed.

  Theorem reject_literal_bad_name first t e :
    wf_bytes (first :: t) -> 32 <= first < 64 -> ps_decode 4 (first :: t) = Err e ->
    field_decode (first :: t) = Err (DInvalidString e).
  Proof.
    intros Hwf Hb He. assert (Hb0 : first < 256) by (apply wf_bytes_cons in Hwf; tauto).
    unfold field_decode. rewrite (hbf_decode_classify first Hb0). unfold classify.
    destruct (N.leb_spec 128 first); [lia|]. destruct (N.leb_spec 64 first); [lia|]. destruct (N.leb_spec 32 first); [|lia].
    unfold literal_decode. rewrite (literal_mask_ok first ltac:(lia)). cbn [negb].
    change qs_lit_name_size with 4. rewrite He. reflexivity.
  Qed.

  Theorem reject_literal_bad_value first t name r e :
    wf_bytes (first :: t) -> 32 <= first < 64 -> ps_decode 4 (first :: t) = Ok (name, r) -> ps_decode 8 r = Err e ->
    field_decode (first :: t) = Err (DInvalidString e).
  Proof.
    intros Hwf Hb Hn He. assert (Hb0 : first < 256) by (apply wf_bytes_cons in Hwf; tauto).
    unfold field_decode. rewrite (hbf_decode_classify first Hb0). unfold classify.
    destruct (N.leb_spec 128 first); [lia|]. destruct (N.leb_spec 64 first); [lia|]. destruct (N.leb_spec 32 first); [|lia].
    unfold literal_decode. rewrite (literal_mask_ok first ltac:(lia)). cbn [negb].
    change qs_lit_name_size with 4. change qs_lit_value_size with 8. rewrite Hn. cbn [lift_str]. rewrite He. reflexivity.
  Qed.

  (* the two integers of the section prefix *)
  Theorem reject_bad_prefix_integers max bs e :
    wf_bytes bs ->
    (pi_decode 8 bs = Err e \/ exists f ric r, pi_decode 8 bs = Ok (f, ric, r) /\ pi_decode 7 r = Err e) ->
    decode_stateless max bs = Err (DInvalidInteger e).
  Proof.
    intros Hwf [H|(f & ric & r & H1 & H2)]; unfold decode_stateless, hp_decode; change qs_hp_ric_bits with 8;
      change qs_hp_base_bits with 7.
    - rewrite H. reflexivity.
    - rewrite H1. cbn [lift_int]. rewrite H2. reflexivity.
  Qed.

  (* an error in a line that the loop reaches is the error of the whole section *)
  Inductive reaches : bytes -> bytes -> Prop :=
  | reach_here : forall r, reaches r r
  | reach_step : forall r f r' t, field_decode r = Ok (f, r') -> reaches r' t -> reaches r t.

  Lemma fields_loop_line_error r t : reaches r t -> forall fuel mem acc e,
    wf_bytes r -> (length r <= fuel)%nat -> t <> [] -> field_decode t = Err e ->
    fields_loop fuel r None mem acc = Err e.
  Proof.
    induction 1 as [r|r f r' t Hf Hr IH]; intros fuel mem acc e Hwf Hfuel Hne He.
    - destruct r as [|b x] eqn:Er; [congruence|]. destruct fuel as [|k]; [cbn in Hfuel; lia|].
      cbn [fields_loop]. rewrite He. reflexivity.
    - destruct r as [|b x] eqn:Er; [discriminate|]. rewrite <- Er in *. destruct fuel as [|k]; [subst r; cbn in Hfuel; lia|].
      rewrite Er at 1. cbn [fields_loop]. rewrite <- Er. rewrite Hf. cbn [too_long].
      destruct (field_decode_rest _ _ _ Hwf Hf) as [Hwf' Hlen]. apply IH; auto. lia.
  Qed.

  Theorem line_error_fails_section bs delta r t e :
    wf_bytes bs -> hp_decode bs = Ok (0, false, delta, r) -> reaches r t -> t <> [] -> field_decode t = Err e ->
    decode_stateless None bs = Err e.
  Proof.
    intros Hwf Hh Hr Hne He. unfold decode_stateless. rewrite Hh. unfold_qs. cbn.
    destruct (hp_decode_ok _ _ _ _ _ Hwf Hh) as (_ & _ & _ & _ & _ & _ & _ & Hw).
    eapply fields_loop_line_error; eauto.
  Qed.
End WithC15.
