(* VarInt::decode on a non-contiguous Buf = VarInt::decode on the flat bytes, for EVERY chunking; and what a failed
   decode leaves behind (which integer UnexpectedEnd carries, how many bytes were consumed). *)
From H3V Require Import Base.Bytes Base.BytesLemmas Gen.GenVarint Model.Varint Model.VarintExtra Model.ChunkedBuf
  Model.ChunkedVarint Proofs.ChunkedBufProofs.
From Coq Require Import ZifyBool ZifyNat ZifyN.
Ltac Zify.zify_post_hook ::= Z.div_mod_to_equations.

(* every row of the generated table copies no more than it checked for *)
Lemma dec_rows_copy_le_need tag need errc copy total :
  assoc tag dec_rows = Some (need, (errc, (copy, total))) -> copy <= need.
Proof.
  unfold dec_rows. cbn [assoc].
  repeat match goal with |- context [if ?x =? ?k then _ else _] => destruct (x =? k) end;
    intros H; inversion H; subst; lia.
Qed.

Theorem vi_decode_buf_flat cs : cb_wf cs ->
  fst (vi_decode_buf cs) = fst (vi_decode (concat cs)) /\
  concat (snd (vi_decode_buf cs)) = snd (vi_decode (concat cs)) /\
  cb_wf (snd (vi_decode_buf cs)).
Proof.
  intros W. unfold vi_decode_buf, cb_has_remaining, cb_remaining.
  destruct (concat cs) as [|b0 r] eqn:V.
  - change (0 <? len []) with false. cbn [negb fst snd vi_decode]. rewrite V. auto.
  - replace (0 <? len (b0 :: r)) with true by (unfold len; cbn [length]; lia). cbn [negb].
    destruct (cb_get_u8_law cs b0 r W V) as (c1 & G1 & V1 & W1). rewrite G1.
    unfold vi_decode.
    destruct (assoc (N.shiftr b0 dec_tag_shift) dec_rows) as [[need [errc [copy total]]]|] eqn:A.
    2:{ cbn [fst snd]. auto. }
    rewrite V1.
    destruct (len r <? need) eqn:E1; [cbn [fst snd]; auto|].
    pose proof (dec_rows_copy_le_need _ _ _ _ _ A) as Hrow.
    destruct (len r <? copy) eqn:E2; [lia|].
    destruct (cb_copy_to_slice_law copy c1 W1) as (c2 & C1 & V2 & W2); [rewrite V1; lia|].
    rewrite C1, V1. cbn [fst snd]. split; [reflexivity|]. split; [|exact W2].
    rewrite V2, V1. reflexivity.
Qed.

(* as one equation on pairs *)
Corollary vi_decode_buf_flat_eq cs : cb_wf cs ->
  (fst (vi_decode_buf cs), concat (snd (vi_decode_buf cs))) = vi_decode (concat cs) /\ cb_wf (snd (vi_decode_buf cs)).
Proof.
  intros W. destruct (vi_decode_buf_flat cs W) as (A & B & C). split; [|exact C].
  rewrite A, B. destruct (vi_decode (concat cs)); reflexivity.
Qed.

(* the flat buffer is the one-chunk case: nothing is lost by stating results on chunk lists *)
Corollary vi_decode_buf_single bs : bs <> [] ->
  fst (vi_decode_buf [bs]) = fst (vi_decode bs) /\ concat (snd (vi_decode_buf [bs])) = snd (vi_decode bs).
Proof.
  intros H. destruct (vi_decode_buf_flat [bs] (cb_wf_single bs H)) as (A & B & _).
  cbn [concat] in A, B. rewrite app_nil_r in A, B. auto.
Qed.

Theorem vi_get_var_buf_flat cs : cb_wf cs ->
  fst (vi_get_var_buf cs) = fst (vi_get_var (concat cs)) /\
  concat (snd (vi_get_var_buf cs)) = snd (vi_get_var (concat cs)) /\
  cb_wf (snd (vi_get_var_buf cs)).
Proof.
  intros W. unfold vi_get_var_buf, vi_get_var. destruct get_var_is_decode.
  - apply vi_decode_buf_flat; exact W.
  - cbn [fst snd]. auto.
Qed.

Theorem st_decode_buf_flat cs : cb_wf cs ->
  fst (st_decode_buf cs) = fst (st_decode (concat cs)) /\
  concat (snd (st_decode_buf cs)) = snd (st_decode (concat cs)) /\
  cb_wf (snd (st_decode_buf cs)).
Proof. exact (vi_get_var_buf_flat cs). Qed.

Theorem sess_decode_buf_flat cs : cb_wf cs ->
  fst (sess_decode_buf cs) = fst (sess_decode (concat cs)) /\
  concat (snd (sess_decode_buf cs)) = snd (sess_decode (concat cs)) /\
  cb_wf (snd (sess_decode_buf cs)).
Proof. exact (vi_decode_buf_flat cs). Qed.

(* ---------- what the code does on a failed decode ----------
   UnexpectedEnd carries the two-bit length tag of the first byte (0 on an empty buffer) - not a count of missing or of
   available bytes -; nothing is consumed on an empty buffer, and otherwise exactly the first byte (get_u8 ran before the
   length check; the bytes of the truncated tail stay unread). *)
Lemma vi_decode_err_shape bs e rest : vi_decode bs = (Err e, rest) ->
  (bs = [] /\ e = 0 /\ rest = []) \/
  (exists b0 r, bs = b0 :: r /\ rest = r /\ e = N.shiftr b0 6 /\ 1 <= e <= 3 /\ len bs < 2 ^ e).
Proof.
  unfold vi_decode. destruct bs as [|b0 r].
  - intros H. inversion H. left. auto.
  - intros H. right. exists b0, r. split; [reflexivity|].
    change dec_tag_shift with 6 in H.
    revert H. unfold dec_rows. cbn [assoc].
    assert (L : len (b0 :: r) = len r + 1) by (unfold len; cbn [length]; lia). rewrite L. clear L.
    repeat match goal with |- context [if ?x =? ?k then _ else _] => destruct (x =? k) eqn:? end;
      repeat match goal with |- context [if ?x <? ?k then _ else _] => destruct (x <? k) eqn:? end;
      intros H; inversion H; subst;
      try (split; [reflexivity|]; split; [lia|]; split; [lia|]);
      try match goal with HE : N.shiftr b0 6 =? ?k = true |- _ =>
            replace (N.shiftr b0 6) with k by lia; change (2 ^ k) with (N.pow 2 k); vm_compute (N.pow 2 k); lia end;
      try lia.
Qed.

Theorem vi_decode_buf_failed cs e cs' : cb_wf cs -> vi_decode_buf cs = (Err e, cs') ->
  (concat cs = [] /\ e = 0 /\ cs' = cs) \/
  (exists b0 r, concat cs = b0 :: r /\ concat cs' = r /\ e = N.shiftr b0 6 /\ 1 <= e <= 3 /\ len (b0 :: r) < 2 ^ e).
Proof.
  intros W H. destruct (vi_decode_buf_flat cs W) as (A & B & _). rewrite H in A, B. cbn [fst snd] in A, B.
  destruct (concat cs) as [|b0 r] eqn:V.
  - left. split; [reflexivity|].
    revert H. unfold vi_decode_buf, cb_has_remaining, cb_remaining. rewrite V.
    change (0 <? len []) with false. cbn [negb]. intros H. inversion H. auto.
  - right. destruct (vi_decode_err_shape (b0 :: r) e (concat cs')) as [(X & _)|(b & r' & E1 & E2 & E3 & E4 & E5)].
    + rewrite B. destruct (vi_decode (b0 :: r)) as [x y]. cbn [fst snd] in *. subst x. reflexivity.
    + discriminate.
    + inversion E1; subst b r'. exists b0, r. auto.
Qed.

(* ---------- against RFC 9000: a complete encoding, minimal or not, cut into chunks anywhere ---------- *)
From H3V Require Import Spec.RFC9000 Proofs.VarintCore.

Theorem vi_decode_buf_complete cs b0 r : cb_wf cs -> concat cs = b0 :: r -> wf_bytes (b0 :: r) ->
  rfc_vi_len b0 <= len (b0 :: r) ->
  let l := N.to_nat (rfc_vi_len b0) in
  fst (vi_decode_buf cs) = Ok (rfc_vi_value (firstn l (b0 :: r))) /\
  concat (snd (vi_decode_buf cs)) = skipn l (b0 :: r).
Proof.
  intros W V Hwf Hlen l. destruct (vi_decode_buf_flat cs W) as (A & B & _).
  rewrite A, B, V. rewrite (vi_decode_complete b0 r Hwf Hlen). cbn [fst snd]. auto.
Qed.

Theorem vi_decode_buf_truncated cs b0 r : cb_wf cs -> concat cs = b0 :: r -> b0 < 256 -> len (b0 :: r) < rfc_vi_len b0 ->
  exists e, fst (vi_decode_buf cs) = Err e.
Proof.
  intros W V Hb Hlen. destruct (vi_decode_buf_flat cs W) as (A & _).
  destruct (vi_decode_truncated_reported b0 r Hb Hlen) as (e & rest & H). exists e. rewrite A, V, H. reflexivity.
Qed.
