(* C11, specification side: facts about the RFC 7541 5.1 integer reader, RFC 9204 string literals and the
   equivalence of the executable reference decoder [rfc_decode_static] with the grammar [section].
   Nothing here mentions the model of h3. *)
From H3V Require Import Base.Bytes Base.BytesLemmas Spec.PrefixInt Spec.RFC7541Huffman Spec.HuffmanKnown Spec.RFC9204Static.
From Coq Require Import ZifyBool ZifyNat ZifyN.
Ltac Zify.zify_post_hook ::= Z.div_mod_to_equations.

(* ---------------------------------------------------------------- integers *)

Lemma rfc_pi_cont_split bs : forall m v r,
  rfc_pi_cont bs m = Some (v, r) -> exists e, bs = e ++ r /\ e <> [] /\ rfc_pi_cont e m = Some (v, []).
Proof.
  induction bs as [|b t IH]; intros m v r H; cbn [rfc_pi_cont] in H; [discriminate|].
  destruct (b / 128 =? 0) eqn:E.
  - inversion H; subst. exists [b]. split; [reflexivity|]. split; [discriminate|].
    cbn [rfc_pi_cont]. rewrite E. reflexivity.
  - destruct (rfc_pi_cont t (m + 7)) as [[v' rest]|] eqn:Er; [|discriminate].
    inversion H; subst. destruct (IH _ _ _ Er) as (e & He & Hne & Hd).
    exists (b :: e). split; [cbn; f_equal; exact He|]. split; [discriminate|].
    cbn [rfc_pi_cont]. rewrite E, Hd. reflexivity.
Qed.

Lemma rfc_pi_cont_app e : forall m v r,
  rfc_pi_cont e m = Some (v, []) -> rfc_pi_cont (e ++ r) m = Some (v, r).
Proof.
  induction e as [|b t IH]; intros m v r H; cbn [rfc_pi_cont] in H; [discriminate|].
  cbn [app rfc_pi_cont]. destruct (b / 128 =? 0) eqn:E.
  - inversion H; subst. reflexivity.
  - destruct (rfc_pi_cont t (m + 7)) as [[v' rest]|] eqn:Er; [|discriminate].
    inversion H; subst. rewrite (IH _ _ r Er). reflexivity.
Qed.

(* what was read is a complete encoding, and the rest is untouched *)
Lemma rfc_pi_decode_split n bs f v r :
  rfc_pi_decode n bs = Some (f, v, r) -> exists e, bs = e ++ r /\ e <> [] /\ int_enc n f v e.
Proof.
  unfold int_enc, rfc_pi_decode. destruct bs as [|b0 t]; [discriminate|].
  destruct (b0 mod 2 ^ n <? 2 ^ n - 1) eqn:E.
  - intros H. inversion H; subst. exists [b0]. split; [reflexivity|]. split; [discriminate|].
    rewrite E. reflexivity.
  - destruct (rfc_pi_cont t 0) as [[v' rest]|] eqn:Er; [|discriminate].
    intros H. inversion H; subst. destruct (rfc_pi_cont_split _ _ _ _ Er) as (e & He & _ & Hd).
    exists (b0 :: e). split; [cbn; f_equal; exact He|]. split; [discriminate|].
    rewrite E, Hd. reflexivity.
Qed.

(* a complete encoding is read back whatever follows *)
Lemma int_enc_app n f v e r : int_enc n f v e -> rfc_pi_decode n (e ++ r) = Some (f, v, r).
Proof.
  unfold int_enc, rfc_pi_decode. destruct e as [|b0 t]; [discriminate|]. cbn [app].
  destruct (b0 mod 2 ^ n <? 2 ^ n - 1) eqn:E.
  - intros H. inversion H; subst. reflexivity.
  - destruct (rfc_pi_cont t 0) as [[v' rest]|] eqn:Er; [|discriminate].
    intros H. inversion H; subst. rewrite (rfc_pi_cont_app _ _ _ r Er). reflexivity.
Qed.

Lemma int_enc_nonempty n f v e : int_enc n f v e -> e <> [].
Proof. unfold int_enc. destruct e; [discriminate|discriminate]. Qed.

(* the first octet of an encoding carries the flag bits *)
Lemma int_enc_first n f v e : int_enc n f v e -> exists b0 t, e = b0 :: t /\ f = b0 / 2 ^ n.
Proof.
  unfold int_enc, rfc_pi_decode. destruct e as [|b0 t]; [discriminate|]. intros H. exists b0, t.
  split; [reflexivity|].
  destruct (b0 mod 2 ^ n <? 2 ^ n - 1); [inversion H; reflexivity|].
  destruct (rfc_pi_cont t 0) as [[v' rest]|]; [inversion H; reflexivity|discriminate].
Qed.

Lemma rfc_pi_decode_first n b0 t f v r : rfc_pi_decode n (b0 :: t) = Some (f, v, r) -> f = b0 / 2 ^ n.
Proof.
  unfold rfc_pi_decode. intros H.
  destruct (b0 mod 2 ^ n <? 2 ^ n - 1); [inversion H; reflexivity|].
  destruct (rfc_pi_cont t 0) as [[v' rest]|]; [inversion H; reflexivity|discriminate].
Qed.

(* two parses of the same octets agree (the encoding is self-delimiting) *)
Lemma int_enc_unique n f1 v1 e1 r1 f2 v2 e2 r2 :
  int_enc n f1 v1 e1 -> int_enc n f2 v2 e2 -> e1 ++ r1 = e2 ++ r2 -> e1 = e2 /\ r1 = r2 /\ f1 = f2 /\ v1 = v2.
Proof.
  intros H1 H2 Heq. pose proof (int_enc_app _ _ _ _ r1 H1) as A. pose proof (int_enc_app _ _ _ _ r2 H2) as B.
  rewrite Heq in A. rewrite A in B. inversion B; subst.
  split; [|auto]. eapply app_inv_tail. exact Heq.
Qed.

(* ---------------------------------------------------------------- lists *)

Lemma firstn_len_app (a b : bytes) : firstn (N.to_nat (len a)) (a ++ b) = a.
Proof. unfold len. rewrite Nat2N.id. apply firstn_app_exact. Qed.

Lemma skipn_len_app (a b : bytes) : skipn (N.to_nat (len a)) (a ++ b) = b.
Proof. unfold len. rewrite Nat2N.id. apply skipn_app_exact. Qed.

Lemma len_firstn_le (l : N) (r : bytes) : l <= len r -> len (firstn (N.to_nat l) r) = l.
Proof. unfold len. intros H. rewrite firstn_length. lia. Qed.

(* ---------------------------------------------------------------- string literals *)

Section Shape.
  Variable hs : bytes -> bytes -> Prop.

  Lemma str_lit_first n f s e : str_lit hs n f s e -> exists b0 t, e = b0 :: t /\ b0 / 2 ^ n / 2 = f.
  Proof.
    intros H. destruct H as [s e Hint | s p e Hint Hhs];
      destruct (int_enc_first _ _ _ _ Hint) as (b0 & t & -> & Hf); exists b0; eexists;
      (split; [reflexivity|lia]).
  Qed.

  Lemma str_lit_nonempty n f s e : str_lit hs n f s e -> e <> [].
  Proof. intros H. destruct (str_lit_first _ _ _ _ H) as (b0 & t & -> & _). discriminate. Qed.

  Lemma field_line_nonempty f l : field_line hs f l -> l <> [].
  Proof.
    intros H. destruct H as [i f e Hint Hs | nbit i ent e v sv Hn Hint Hs Hlit | nbit name sn v sv Hn Hlitn Hlit].
    - eapply int_enc_nonempty; eauto.
    - intros Hc. apply app_eq_nil in Hc. destruct Hc as [Hc _]. revert Hc. eapply int_enc_nonempty; eauto.
    - intros Hc. apply app_eq_nil in Hc. destruct Hc as [Hc _]. revert Hc. eapply str_lit_nonempty; eauto.
  Qed.

End Shape.

Section Sound.
  Variable hs : bytes -> bytes -> Prop.
  Variable hdec : bytes -> option bytes.
  Hypothesis hdec_sound : forall p s, wf_bytes p -> hdec p = Some s -> hs p s.

  Lemma ref_string_sound n bs s r :
    wf_bytes bs -> ref_string rfc_pi_decode hdec n bs = Some (s, r) ->
    exists b0 t e, bs = b0 :: t /\ bs = e ++ r /\ str_lit hs n (b0 / 2 ^ n / 2) s e.
  Proof.
    intros Hwf H. unfold ref_string in H.
    destruct (rfc_pi_decode n bs) as [[[f l] r0]|] eqn:Ed; [|discriminate].
    destruct (rfc_pi_decode_split _ _ _ _ _ Ed) as (e & He & Hne & Hint).
    destruct bs as [|b0 t]; [discriminate|].
    pose proof (rfc_pi_decode_first _ _ _ _ _ _ Ed) as Hf.
    destruct (N.ltb_spec (len r0) l) as [|Hlen]; [discriminate|].
    assert (Hr0 : r0 = firstn (N.to_nat l) r0 ++ skipn (N.to_nat l) r0) by (symmetry; apply firstn_skipn).
    assert (Hlenp : len (firstn (N.to_nat l) r0) = l) by (apply len_firstn_le; exact Hlen).
    assert (Hwf0 : wf_bytes r0). { rewrite He in Hwf. apply wf_bytes_app in Hwf. tauto. }
    set (fl := b0 / 2 ^ n) in *.
    assert (Hfl : f = 2 * (fl / 2) + fl mod 2) by (subst f; lia).
    destruct (N.eqb_spec (f mod 2) 0) as [Hev|Hodd].
    - inversion H; subst s r. exists b0, t, (e ++ firstn (N.to_nat l) r0).
      split; [reflexivity|]. split; [rewrite <- app_assoc, <- Hr0; exact He|].
      apply str_raw. rewrite Hlenp. fold fl. replace (2 * (fl / 2)) with f by lia. exact Hint.
    - destruct (hdec (firstn (N.to_nat l) r0)) as [s'|] eqn:Eh; [|discriminate].
      inversion H; subst s' r. exists b0, t, (e ++ firstn (N.to_nat l) r0).
      split; [reflexivity|]. split; [rewrite <- app_assoc, <- Hr0; exact He|].
      apply str_huff.
      + rewrite Hlenp. fold fl. replace (2 * (fl / 2) + 1) with f by lia. exact Hint.
      + apply hdec_sound; [apply wf_bytes_firstn; exact Hwf0|exact Eh].
  Qed.

  Lemma ref_line_sound bs f r :
    wf_bytes bs -> ref_line rfc_pi_decode hdec bs = Some (f, r) ->
    exists l, bs = l ++ r /\ l <> [] /\ field_line hs f l.
  Proof.
    intros Hwf H. unfold ref_line in H. destruct bs as [|b t] eqn:Ebs; [discriminate|]. rewrite <- Ebs in *.
    assert (Hb : b < 256) by (subst bs; apply wf_bytes_cons in Hwf; tauto).
    destruct (N.leb_spec 128 b) as [H128|H128].
    { (* indexed *)
      destruct (rfc_pi_decode 6 bs) as [[[fl i] r0]|] eqn:Ed; [|discriminate].
      destruct (N.eqb_spec fl 3) as [->|]; [|discriminate].
      destruct (rfc_static i) as [ent|] eqn:Es; [|discriminate].
      inversion H; subst ent r0.
      destruct (rfc_pi_decode_split _ _ _ _ _ Ed) as (e & He & Hne & Hint).
      exists e. split; [exact He|]. split; [exact Hne|]. eapply fl_indexed; eauto. }
    destruct (N.leb_spec 64 b) as [H64|H64].
    { (* literal with static name reference *)
      destruct (rfc_pi_decode 4 bs) as [[[fl i] r0]|] eqn:Ed; [|discriminate].
      destruct (N.eqb_spec (fl mod 2) 1) as [Ht|]; [|discriminate].
      destruct (rfc_static i) as [ent|] eqn:Es; [|discriminate].
      destruct (ref_string rfc_pi_decode hdec 7 r0) as [[v r']|] eqn:Ev; [|discriminate].
      inversion H; subst f r'.
      destruct (rfc_pi_decode_split _ _ _ _ _ Ed) as (e & He & Hne & Hint).
      assert (Hwf0 : wf_bytes r0). { rewrite He in Hwf. apply wf_bytes_app in Hwf. tauto. }
      destruct (ref_string_sound _ _ _ _ Hwf0 Ev) as (b1 & t1 & sv & Hr0 & Hsv & Hlit).
      assert (Hb1 : b1 < 256) by (rewrite Hr0 in Hwf0; apply wf_bytes_cons in Hwf0; tauto).
      assert (Hfl : fl = b / 2 ^ 4) by (rewrite Ebs in Ed; eapply rfc_pi_decode_first; exact Ed).
      change (2 ^ 4) with 16 in Hfl. change (2 ^ 7) with 128 in Hlit.
      replace (b1 / 128 / 2) with 0 in Hlit by lia.
      exists (e ++ sv). split; [rewrite <- app_assoc, <- Hsv; exact He|].
      split; [intros Hc; apply app_eq_nil in Hc; tauto|].
      apply (fl_name_ref hs ((fl - 5) / 2) i ent e v sv); [lia| |exact Es|exact Hlit].
      replace (5 + 2 * ((fl - 5) / 2)) with fl by lia. exact Hint. }
    destruct (N.leb_spec 32 b) as [H32|H32]; [|discriminate].
    { (* literal with literal name *)
      destruct (ref_string rfc_pi_decode hdec 3 bs) as [[name r0]|] eqn:En; [|discriminate].
      destruct (ref_string rfc_pi_decode hdec 7 r0) as [[v r']|] eqn:Ev; [|discriminate].
      inversion H; subst f r'.
      destruct (ref_string_sound _ _ _ _ Hwf En) as (b0 & t0 & sn & Hbs & Hsn & Hlitn).
      assert (b0 = b) by (rewrite Ebs in Hbs; inversion Hbs; reflexivity). subst b0.
      assert (Hwf0 : wf_bytes r0). { rewrite Hsn in Hwf. apply wf_bytes_app in Hwf. tauto. }
      destruct (ref_string_sound _ _ _ _ Hwf0 Ev) as (b1 & t1 & sv & Hr0 & Hsv & Hlit).
      assert (Hb1 : b1 < 256) by (rewrite Hr0 in Hwf0; apply wf_bytes_cons in Hwf0; tauto).
      change (2 ^ 3) with 8 in Hlitn. change (2 ^ 7) with 128 in Hlit.
      replace (b1 / 128 / 2) with 0 in Hlit by lia.
      exists (sn ++ sv). split; [rewrite <- app_assoc, <- Hsv; exact Hsn|].
      split; [intros Hc; apply app_eq_nil in Hc; destruct Hc as [Hc _]; revert Hc; eapply str_lit_nonempty; exact Hlitn|].
      apply (fl_literal hs (b / 8 / 2 - 2) name sn v sv); [lia| |exact Hlit].
      replace (2 + (b / 8 / 2 - 2)) with (b / 8 / 2) by lia. exact Hlitn. }
  Qed.

  Lemma ref_lines_sound fuel : forall bs fs,
    wf_bytes bs -> ref_lines rfc_pi_decode hdec fuel bs = Some fs -> field_lines hs fs bs.
  Proof.
    induction fuel as [|k IH]; intros bs fs Hwf H; destruct bs as [|b t] eqn:Ebs; cbn [ref_lines] in H.
    - inversion H. constructor.
    - discriminate.
    - inversion H. constructor.
    - rewrite <- Ebs in *. destruct (ref_line rfc_pi_decode hdec bs) as [[f r]|] eqn:El; [|discriminate].
      destruct (ref_lines rfc_pi_decode hdec k r) as [fs'|] eqn:Er; [|discriminate].
      inversion H; subst fs.
      destruct (ref_line_sound _ _ _ Hwf El) as (l & Hl & _ & Hfl).
      rewrite Hl. constructor; [exact Hfl|]. apply IH; [|exact Er].
      rewrite Hl in Hwf. apply wf_bytes_app in Hwf. tauto.
  Qed.

  Lemma ref_section_sound bs fs :
    wf_bytes bs -> ref_section rfc_pi_decode hdec bs = Some fs -> section_g hs fs bs.
  Proof.
    intros Hwf H. unfold ref_section in H.
    destruct (rfc_pi_decode 8 bs) as [[[f1 ric] r1]|] eqn:E1; [|discriminate].
    destruct (N.eqb_spec ric 0) as [->|]; [|discriminate].
    destruct (rfc_pi_decode 7 r1) as [[[s delta] r2]|] eqn:E2; [|discriminate].
    destruct (N.eqb_spec s 0) as [->|]; [|discriminate].
    destruct (rfc_pi_decode_split _ _ _ _ _ E1) as (e1 & He1 & _ & Hint1).
    destruct (rfc_pi_decode_split _ _ _ _ _ E2) as (e2 & He2 & _ & Hint2).
    assert (Hwf1 : wf_bytes r1). { rewrite He1 in Hwf. apply wf_bytes_app in Hwf. tauto. }
    assert (Hwf2 : wf_bytes r2). { rewrite He2 in Hwf1. apply wf_bytes_app in Hwf1. tauto. }
    assert (Hf1 : f1 = 0).
    { destruct bs as [|b0 t]; [discriminate|]. apply wf_bytes_cons in Hwf. destruct Hwf as [Hb _].
      rewrite (rfc_pi_decode_first _ _ _ _ _ _ E1). change (2 ^ 8) with 256. apply N.div_small. exact Hb. }
    subst f1. exists e1, e2, delta, r2. split; [rewrite He1, He2; reflexivity|].
    split; [exact Hint1|]. split; [exact Hint2|].
    eapply ref_lines_sound; eauto.
  Qed.

End Sound.

Section Complete.
  Variable hs : bytes -> bytes -> Prop.
  Variable hdec : bytes -> option bytes.
  (* [okp]: a property of octet strings inherited by their parts (well-formedness, or well-formedness and a size bound) *)
  Variable okp : bytes -> Prop.
  Hypothesis okp_app : forall a b, okp (a ++ b) -> okp a /\ okp b.
  Hypothesis hdec_complete : forall p s, okp p -> hs p s -> hdec p = Some s.

  Lemma ref_string_complete n f s e r :
    okp e -> str_lit hs n f s e -> ref_string rfc_pi_decode hdec n (e ++ r) = Some (s, r).
  Proof.
    intros Hwf H. destruct H as [s e Hint | s p e Hint Hhs]; unfold ref_string.
    - rewrite <- app_assoc, (int_enc_app _ _ _ _ (s ++ r) Hint).
      destruct (N.ltb_spec (len (s ++ r)) (len s)) as [Hc|_]; [rewrite len_app in Hc; lia|].
      replace ((2 * f) mod 2) with 0 by lia. change (0 =? 0) with true. cbv iota.
      rewrite firstn_len_app, skipn_len_app. reflexivity.
    - rewrite <- app_assoc, (int_enc_app _ _ _ _ (p ++ r) Hint).
      destruct (N.ltb_spec (len (p ++ r)) (len p)) as [Hc|_]; [rewrite len_app in Hc; lia|].
      replace ((2 * f + 1) mod 2) with 1 by lia. change (1 =? 0) with false. cbv iota.
      rewrite firstn_len_app, skipn_len_app.
      rewrite (hdec_complete p s); [reflexivity| |exact Hhs].
      apply okp_app in Hwf. tauto.
  Qed.

  Lemma ref_line_complete f l r :
    okp l -> field_line hs f l -> ref_line rfc_pi_decode hdec (l ++ r) = Some (f, r).
  Proof.
    intros Hwf H. destruct H as [i f e Hint Hs | nbit i ent e v sv Hn Hint Hs Hlit | nbit name sn v sv Hn Hlitn Hlit].
    - destruct (int_enc_first _ _ _ _ Hint) as (b0 & t & -> & Hf).
      change (2 ^ 6) with 64 in Hf.
      unfold ref_line. cbn [app]. destruct (N.leb_spec 128 b0) as [_|Hc]; [|lia].
      change (b0 :: t ++ r) with ((b0 :: t) ++ r). rewrite (int_enc_app _ _ _ _ r Hint).
      change (3 =? 3) with true. cbv iota. rewrite Hs. reflexivity.
    - destruct (int_enc_first _ _ _ _ Hint) as (b0 & t & -> & Hf).
      change (2 ^ 4) with 16 in Hf.
      unfold ref_line. cbn [app]. destruct (N.leb_spec 128 b0) as [Hc|_]; [lia|].
      destruct (N.leb_spec 64 b0) as [_|Hc]; [|lia].
      change (b0 :: (t ++ sv) ++ r) with (((b0 :: t) ++ sv) ++ r).
      rewrite <- app_assoc, (int_enc_app _ _ _ _ (sv ++ r) Hint).
      replace ((5 + 2 * nbit) mod 2) with 1 by lia. change (1 =? 1) with true. cbv iota. rewrite Hs.
      rewrite (ref_string_complete 7 0 v sv r); [reflexivity| |exact Hlit].
      apply okp_app in Hwf. tauto.
    - destruct (str_lit_first _ _ _ _ _ Hlitn) as (b0 & t & -> & Hf).
      change (2 ^ 3) with 8 in Hf.
      unfold ref_line. cbn [app]. destruct (N.leb_spec 128 b0) as [Hc|_]; [lia|].
      destruct (N.leb_spec 64 b0) as [Hc|_]; [lia|].
      destruct (N.leb_spec 32 b0) as [_|Hc]; [|lia].
      change (b0 :: (t ++ sv) ++ r) with (((b0 :: t) ++ sv) ++ r).
      apply okp_app in Hwf. destruct Hwf as [Hwf1 Hwf2].
      rewrite <- app_assoc, (ref_string_complete 3 (2 + nbit) name (b0 :: t) (sv ++ r) Hwf1 Hlitn).
      rewrite (ref_string_complete 7 0 v sv r Hwf2 Hlit). reflexivity.
  Qed.

  Lemma ref_lines_complete fs bs :
    field_lines hs fs bs -> forall fuel, okp bs -> (length bs <= fuel)%nat ->
    ref_lines rfc_pi_decode hdec fuel bs = Some fs.
  Proof.
    induction 1 as [|f fs l ls Hl Hls IH]; intros fuel Hwf Hfuel.
    - destruct fuel; reflexivity.
    - pose proof (field_line_nonempty _ _ _ Hl) as Hne.
      destruct l as [|b t]; [congruence|]. rewrite app_length in Hfuel. cbn [length] in Hfuel.
      destruct fuel as [|k]; [lia|].
      change ((b :: t) ++ ls) with (b :: (t ++ ls)). cbn [ref_lines].
      change (b :: (t ++ ls)) with ((b :: t) ++ ls).
      apply okp_app in Hwf. destruct Hwf as [Hwf1 Hwf2].
      rewrite (ref_line_complete f (b :: t) ls Hwf1 Hl).
      rewrite IH; [reflexivity|exact Hwf2|lia].
  Qed.

  Lemma ref_section_complete bs fs :
    okp bs -> section_g hs fs bs -> ref_section rfc_pi_decode hdec bs = Some fs.
  Proof.
    intros Hwf (e1 & e2 & delta & ls & -> & Hint1 & Hint2 & Hls). unfold ref_section.
    rewrite (int_enc_app _ _ _ _ (e2 ++ ls) Hint1). change (0 =? 0) with true. cbv iota.
    rewrite (int_enc_app _ _ _ _ ls Hint2). change (0 =? 0) with true. cbv iota.
    apply ref_lines_complete; [exact Hls| |lia].
    apply okp_app in Hwf. destruct Hwf as [_ Hwf]. apply okp_app in Hwf. tauto.
  Qed.
End Complete.

(* ---------------------------------------------------------------- monotonicity in the Huffman reading *)

Section Mono.
  Variables hs1 hs2 : bytes -> bytes -> Prop.
  Hypothesis Hsub : forall p s, hs1 p s -> hs2 p s.

  Lemma str_lit_mono n f s e : str_lit hs1 n f s e -> str_lit hs2 n f s e.
  Proof. intros H. destruct H; [apply str_raw|apply str_huff]; auto. Qed.

  Lemma field_line_mono f l : field_line hs1 f l -> field_line hs2 f l.
  Proof.
    intros H. destruct H.
    - eapply fl_indexed; eauto.
    - eapply fl_name_ref; eauto using str_lit_mono.
    - eapply fl_literal; eauto using str_lit_mono.
  Qed.

  Lemma field_lines_mono fs bs : field_lines hs1 fs bs -> field_lines hs2 fs bs.
  Proof. induction 1; constructor; auto using field_line_mono. Qed.

  Lemma section_g_mono fs bs : section_g hs1 fs bs -> section_g hs2 fs bs.
  Proof.
    intros (e1 & e2 & delta & ls & H1 & H2 & H3 & H4). exists e1, e2, delta, ls.
    repeat split; auto using field_lines_mono.
  Qed.
End Mono.

Lemma LongOnesResult_in_class p s : LongOnesResult p s -> LongOnes p.
Proof. intros (pad & H1 & H2 & H3 & H4). exists s, pad. auto. Qed.

Lemma hs_outside_strict p s : hs_outside p s -> hs_strict p s.
Proof.
  intros [[H|H] Hn]; [exact H|]. exfalso. apply Hn. eapply LongOnesResult_in_class; eauto.
Qed.

Lemma hs_strict_lax p s : hs_strict p s -> hs_lax p s.
Proof. intros H. left. exact H. Qed.
