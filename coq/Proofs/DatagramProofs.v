From H3V Require Import Base.Bytes Base.BytesLemmas Gen.GenCodes Gen.GenDatagram Spec.RFC9000 Spec.RFC9297
  Model.Varint Model.Datagram Proofs.VarintProofs.
From Coq Require Import ZifyBool ZifyNat ZifyN.
Ltac Zify.zify_post_hook ::= Z.div_mod_to_equations.

Definition nonempty_chunks (p : list bytes) : Prop := Forall (fun c => c <> []) p.

Definition dg_inv (st : encdg) : Prop :=
  e_pos st <= e_len st /\ e_len st <= len (e_hdr st) /\ nonempty_chunks (e_payload st).

Lemma len_skipn n (l : bytes) : len (skipn n l) = len l - N.of_nat n.
Proof. unfold len. rewrite skipn_length. lia. Qed.

Lemma len_firstn n (l : bytes) : len (firstn n l) = N.min (N.of_nat n) (len l).
Proof. unfold len. rewrite firstn_length. lia. Qed.

Lemma len_nil_iff (l : bytes) : len l = 0 <-> l = [].
Proof. unfold len. destruct l; cbn; split; intros; try congruence; lia. Qed.

Lemma skipn_app_le {A} n (a b : list A) : (n <= length a)%nat -> skipn n (a ++ b) = skipn n a ++ b.
Proof. intros H. rewrite skipn_app. replace (n - length a)%nat with 0%nat by lia. reflexivity. Qed.

Lemma skipn_app_ge {A} n (a b : list A) : (length a <= n)%nat -> skipn n (a ++ b) = skipn (n - length a) b.
Proof. intros H. rewrite skipn_app. rewrite skipn_all2 by lia. reflexivity. Qed.

(* ---- payload (any Buf) ---- *)

Lemma pl_advance_ok n p :
  nonempty_chunks p -> n <= pl_remaining p ->
  exists p', pl_advance n p = Some p' /\ concat p' = skipn (N.to_nat n) (concat p) /\ nonempty_chunks p'.
Proof.
  unfold pl_remaining. revert n. induction p as [|c r IH]; intros n Hne Hn.
  - cbn in Hn. unfold len in Hn. cbn in Hn. assert (n = 0) by lia. subst. exists []. cbn. repeat split; auto.
  - inversion Hne as [|? ? Hc Hr]; subst. cbn [pl_advance concat] in *.
    rewrite len_app in Hn.
    destruct (N.ltb_spec n (len c)) as [Hlt|Hge].
    + exists (skipn (N.to_nat n) c :: r). split; [reflexivity|]. split.
      * cbn [concat]. rewrite skipn_app_le; [reflexivity|]. unfold len in Hlt. lia.
      * constructor; auto. intros E. apply (f_equal len) in E. rewrite len_skipn in E.
        unfold len in *. cbn in E. lia.
    + destruct (IH (n - len c) Hr) as (p' & H1 & H2 & H3); [lia|].
      exists p'. split; [exact H1|]. split; [|exact H3].
      rewrite H2. rewrite skipn_app_ge by (unfold len in Hge; lia).
      f_equal. unfold len. lia.
Qed.

Lemma pl_advance_panics n p : pl_remaining p < n -> pl_advance n p = None.
Proof.
  unfold pl_remaining. revert n. induction p as [|c r IH]; intros n Hn.
  - cbn in *. unfold len in Hn; cbn in Hn. destruct (N.eqb_spec n 0); [lia|reflexivity].
  - cbn [pl_advance concat] in *. rewrite len_app in Hn.
    destruct (N.ltb_spec n (len c)); [lia|]. apply IH. lia.
Qed.

(* ---- the Buf laws of EncodedDatagram ---- *)

Lemma dg_remaining_law st : dg_inv st -> dg_remaining st = Ok (len (dg_view st)).
Proof.
  intros (Hp & Hl & _). unfold dg_remaining, dg_view.
  destruct (N.ltb_spec (e_len st) (e_pos st)); [lia|].
  rewrite len_app, len_firstn, len_skipn. unfold pl_remaining. f_equal. lia.
Qed.

Lemma dg_chunk_law st :
  dg_inv st ->
  exists c rest, dg_chunk st = Ok c /\ dg_view st = c ++ rest /\ (dg_view st <> [] -> c <> []).
Proof.
  intros (Hp & Hl & Hne). unfold dg_chunk, dg_view.
  destruct (N.ltb_spec (e_len st) (e_pos st)); [lia|].
  destruct (N.ltb_spec 0 (e_len st - e_pos st)) as [Hpos|Hz].
  - destruct (N.ltb_spec (len (e_hdr st)) (e_len st)); [lia|].
    eexists _, _. split; [reflexivity|]. split; [reflexivity|].
    intros _ E. apply (f_equal len) in E. rewrite len_firstn, len_skipn in E.
    unfold len in E at 2. cbn in E. lia.
  - replace (e_len st - e_pos st) with 0 by lia. cbn [N.to_nat firstn app].
    destruct (e_payload st) as [|c r]; cbn [pl_chunk concat].
    + exists [], []. auto.
    + exists c, (concat r). repeat split; auto. inversion Hne; auto.
Qed.

Lemma dg_advance_law k st :
  dg_inv st -> k <= len (dg_view st) ->
  exists st', dg_advance k st = Ok st' /\ dg_view st' = skipn (N.to_nat k) (dg_view st) /\ dg_inv st'.
Proof.
  intros (Hp & Hl & Hne) Hk. unfold dg_advance.
  destruct (N.ltb_spec (e_len st) (e_pos st)); [lia|].
  set (rem := e_len st - e_pos st) in *.
  set (adv := if 0 <? rem then N.min k rem else 0).
  assert (Hadv : adv = N.min k rem).
  { unfold adv. destruct (N.ltb_spec 0 rem); lia. }
  assert (Hview : len (dg_view st) = rem + pl_remaining (e_payload st)).
  { unfold dg_view. rewrite len_app, len_firstn, len_skipn. unfold pl_remaining. fold rem. lia. }
  destruct (pl_advance_ok (k - adv) (e_payload st) Hne) as (p' & H1 & H2 & H3); [lia|].
  rewrite H1. eexists. split; [reflexivity|]. split.
  - unfold dg_view. cbn [e_hdr e_len e_pos e_payload]. fold rem. rewrite H2.
    set (h := skipn (N.to_nat (e_pos st)) (e_hdr st)).
    assert (Hh : (N.to_nat rem <= length h)%nat).
    { unfold h. rewrite skipn_length. unfold len in Hl. lia. }
    replace (skipn (N.to_nat (e_pos st + adv)) (e_hdr st)) with (skipn (N.to_nat adv) h).
    2:{ unfold h. rewrite skipn_skipn'. f_equal. lia. }
    destruct (N.le_gt_cases k rem) as [Hle|Hgt].
    + replace adv with k in * by lia. replace (k - k) with 0 by lia. cbn [N.to_nat skipn].
      rewrite skipn_app_le by (rewrite firstn_length; lia).
      f_equal. rewrite skipn_firstn_comm. f_equal. lia.
    + replace adv with rem in * by lia.
      rewrite skipn_app_ge by (rewrite firstn_length; lia).
      replace (e_len st - (e_pos st + rem)) with 0 by lia. cbn [N.to_nat firstn app].
      f_equal. rewrite firstn_length. lia.
  - unfold dg_inv. cbn [e_hdr e_len e_pos e_payload]. repeat split; auto. lia.
Qed.

Lemma dg_advance_past_end k st :
  dg_inv st -> len (dg_view st) < k -> dg_advance k st = Panic 16.
Proof.
  intros (Hp & Hl & Hne) Hk. unfold dg_advance.
  destruct (N.ltb_spec (e_len st) (e_pos st)); [lia|].
  assert (Hview : len (dg_view st) = (e_len st - e_pos st) + pl_remaining (e_payload st)).
  { unfold dg_view. rewrite len_app, len_firstn, len_skipn. unfold pl_remaining. lia. }
  rewrite pl_advance_panics; [reflexivity|].
  destruct (N.ltb_spec 0 (e_len st - e_pos st)); lia.
Qed.

(* any consumption pattern: bytes handed out so far ++ what is still in the buffer = the original view *)
Theorem dg_consume_exact ks :
  forall st, dg_inv st ->
    exists out st', dg_consume ks st = Ok (out, st') /\ out ++ dg_view st' = dg_view st /\ dg_inv st'.
Proof.
  induction ks as [|k ks IH]; intros st Hinv.
  - exists [], st. cbn. auto.
  - cbn [dg_consume].
    destruct (dg_chunk_law st Hinv) as (c & rest & Hc & Hv & Hnz). rewrite Hc.
    set (n := N.min k (len c)).
    assert (Hn : n <= len (dg_view st)) by (rewrite Hv, len_app; lia).
    destruct (dg_advance_law n st Hinv Hn) as (st1 & Ha & Hv1 & Hinv1). rewrite Ha.
    destruct (IH st1 Hinv1) as (out & st2 & Hr & Hv2 & Hinv2). rewrite Hr.
    eexists _, _. split; [reflexivity|]. split; [|exact Hinv2].
    rewrite <- app_assoc, Hv2, Hv1, Hv.
    assert (Hnc : (N.to_nat n <= length c)%nat) by (unfold n, len; lia).
    rewrite skipn_app_le by exact Hnc.
    rewrite app_assoc. rewrite firstn_skipn. reflexivity.
Qed.

(* a transport that takes at least one byte per step empties the buffer in at most |view| steps *)
Lemma dg_consume_progress ks :
  forall st, dg_inv st -> Forall (fun k => 1 <= k) ks -> len (dg_view st) <= N.of_nat (length ks) ->
    exists out st', dg_consume ks st = Ok (out, st') /\ dg_view st' = [].
Proof.
  induction ks as [|k ks IH]; intros st Hinv Hks Hlen.
  - exists [], st. split; [reflexivity|]. apply len_nil_iff. cbn in Hlen. lia.
  - cbn [dg_consume].
    destruct (dg_chunk_law st Hinv) as (c & rest & Hc & Hv & Hnz). rewrite Hc.
    set (n := N.min k (len c)).
    assert (Hn : n <= len (dg_view st)) by (rewrite Hv, len_app; lia).
    destruct (dg_advance_law n st Hinv Hn) as (st1 & Ha & Hv1 & Hinv1). rewrite Ha.
    inversion Hks as [|? ? Hk Hks']; subst.
    assert (Hlen1 : len (dg_view st1) <= N.of_nat (length ks)).
    { rewrite Hv1, len_skipn. cbn [length] in Hlen.
      destruct (list_eq_dec N.eq_dec (dg_view st) []) as [E|E].
      - rewrite E. unfold len. cbn. lia.
      - specialize (Hnz E). assert (1 <= len c).
        { destruct c; [congruence|]. unfold len. cbn. lia. }
        lia. }
    destruct (IH st1 Hinv1 Hks' Hlen1) as (out & st2 & Hr & Hv2). rewrite Hr.
    eexists _, _. split; [reflexivity|exact Hv2].
Qed.

(* ---- encode ---- *)

Theorem dg_encode_view :
  forall sid payload, sid < 2 ^ 62 -> nonempty_chunks payload ->
    exists st, dg_encode sid payload = Ok st /\ dg_inv st /\
               dg_view st = rfc_dg_bytes sid (concat payload).
Proof.
  intros sid payload Hs Hne. unfold dg_encode, enc_divisor.
  assert (Hq : sid / 4 < 2 ^ 62).
  { apply N.le_lt_trans with sid; [apply N.div_le_upper_bound; lia|exact Hs]. }
  rewrite vi_encode_shortest, vi_size_shortest by exact Hq.
  set (q := sid / 4). set (l := rfc_vi_shortest q).
  assert (Hl : l = 1 \/ l = 2 \/ l = 4 \/ l = 8) by (apply shortest_cases; exact Hq).
  assert (Hlen : length (rfc_vi_enc l q) = N.to_nat l) by apply rfc_vi_enc_length.
  eexists. split; [reflexivity|].
  unfold header_is_buffer, initial_pos.
  assert (Hfl : length (firstn 8 (rfc_vi_enc l q ++ repeat 0 8)) = 8%nat).
  { rewrite firstn_length, app_length, repeat_length. lia. }
  split.
  - unfold dg_inv. cbn [e_hdr e_len e_pos e_payload]. split; [lia|]. split; [|exact Hne].
    unfold len. rewrite Hfl. lia.
  - unfold dg_view, rfc_dg_bytes. cbn [e_hdr e_len e_pos e_payload]. fold q l.
    f_equal. cbn [N.to_nat skipn]. rewrite N.sub_0_r.
    rewrite firstn_firstn. replace (Nat.min (N.to_nat l) 8) with (N.to_nat l) by lia.
    rewrite <- Hlen. apply firstn_app_exact.
Qed.

(* ---- decode ---- *)

Theorem dg_decode_spec :
  forall bs, wf_bytes bs ->
    dg_decode bs = match rfc_dg_decode bs with
                   | Some (s, p) => Ok (s, p)
                   | None => Err H3_DATAGRAM_ERROR_rfc
                   end.
Proof.
  intros bs Hwf. unfold dg_decode, rfc_dg_decode.
  destruct bs as [|b0 r]; [reflexivity|].
  destruct (N.ltb_spec (len (b0 :: r)) (rfc_vi_len b0)) as [Ht|Hc].
  - rewrite vi_decode_truncated; auto. apply wf_bytes_cons in Hwf. tauto.
  - rewrite vi_decode_complete by assumption.
    set (q := rfc_vi_value _).
    assert (Hqb : q < 2 ^ 62).
    { unfold q, rfc_vi_value.
      assert (Hl : len (firstn (N.to_nat (rfc_vi_len b0)) (b0 :: r)) = rfc_vi_len b0).
      { rewrite len_firstn. lia. }
      rewrite Hl.
      assert (Hcases : rfc_vi_len b0 = 1 \/ rfc_vi_len b0 = 2 \/ rfc_vi_len b0 = 4 \/ rfc_vi_len b0 = 8).
      { apply wf_bytes_cons in Hwf as [Hb _]. unfold rfc_vi_len.
        assert (b0 / 64 = 0 \/ b0 / 64 = 1 \/ b0 / 64 = 2 \/ b0 / 64 = 3) as [->|[->|[->| ->]]] by lia; auto. }
      eapply N.lt_le_trans; [apply N.mod_upper_bound, N.pow_nonzero; lia|].
      apply N.pow_le_mono_r; lia. }
    unfold dec_multiplier. rewrite N.mod_small.
    2:{ change (2 ^ 64) with (2 ^ 62 * 4). lia. }
    rewrite sid_try_from_spec. replace (q * 4) with (4 * q) by lia.
    destruct (N.ltb_spec (4 * q) (2 ^ 62)); destruct (N.leb_spec (4 * q) (2 ^ 62 - 1)); try lia; reflexivity.
Qed.

Theorem dg_roundtrip :
  forall sid payload, sid < 2 ^ 62 -> sid mod 4 = 0 -> wf_bytes payload ->
    dg_decode (rfc_dg_bytes sid payload) = Ok (sid, payload).
Proof.
  intros sid payload Hs Hm Hp. unfold dg_decode, rfc_dg_bytes.
  assert (Hq : sid / 4 < 2 ^ 62).
  { apply N.le_lt_trans with sid; [apply N.div_le_upper_bound; lia|exact Hs]. }
  destruct (vi_roundtrip (sid / 4) payload Hq Hp) as (e & He & _ & Hd).
  rewrite vi_encode_shortest in He by exact Hq. inversion He; subst e. rewrite Hd.
  unfold dec_multiplier. rewrite N.mod_small by (change (2 ^ 64) with (2 ^ 62 * 4); lia).
  replace (sid / 4 * 4) with sid by lia.
  rewrite sid_try_from_spec. destruct (N.ltb_spec sid (2 ^ 62)); [reflexivity|lia].
Qed.

Theorem dg_new_spec sid p : dg_new sid p = if sid mod 4 =? 0 then Ok (sid, p) else Panic 10.
Proof. reflexivity. Qed.

(* Datagram::new: the divisibility assert is the ONLY condition, whatever the payload *)
Theorem dg_new_total sid p :
  (sid mod 4 = 0 -> dg_new sid p = Ok (sid, p)) /\ (sid mod 4 <> 0 -> dg_new sid p = Panic 10).
Proof.
  rewrite dg_new_spec. split; intros H.
  - rewrite H. reflexivity.
  - destruct (N.eqb_spec (sid mod 4) 0); [contradiction|reflexivity].
Qed.

(* the Buf impl defines exactly the three required methods (as a SET: their order in the impl block is irrelevant):
   every provided method (copy_to_bytes, has_remaining, get_u8, ...) is then the bytes crate's default loop over these
   three, which the laws above cover *)
Lemma buf_impl_is_the_three_required_methods :
  (forall m, In m buf_methods <-> In m [1; 2; 3]) /\ length buf_methods = 3%nat.
Proof. split; [intros m; unfold buf_methods; cbn [In]; tauto|reflexivity]. Qed.

(* regenerated facts about the call sites: one constructor of EncodedDatagram (the literal in encode); send_datagram goes
   through new + encode; read_datagram turns a decode error into a connection error *)
Lemma call_site_facts :
  encoded_datagram_constructors = 1 /\ constructor_in_encode = true /\
  tx_path_new_encode = true /\ rx_error_is_connection_error = true.
Proof. repeat split; reflexivity. Qed.

(* ---- the call sites ---- *)

Lemma Forall_repeat {A} (P : A -> Prop) x n : P x -> Forall P (repeat x n).
Proof. intros H. induction n; cbn; constructor; auto. Qed.

Theorem dg_tx_bytes :
  forall sid payload, sid < 2 ^ 62 -> sid mod 4 = 0 -> nonempty_chunks payload ->
    dg_tx sid payload = Ok (rfc_dg_bytes sid (concat payload)).
Proof.
  intros sid payload Hs Hm Hne. unfold dg_tx.
  destruct (dg_new_total sid payload) as [Hnew _]. rewrite (Hnew Hm).
  destruct (dg_encode_view sid payload Hs Hne) as (st & He & Hinv & Hview). rewrite He.
  rewrite (dg_remaining_law st Hinv).
  set (ks := repeat whole_chunk (N.to_nat (len (dg_view st)))).
  assert (Hks : Forall (fun k => 1 <= k) ks).
  { apply Forall_repeat. unfold whole_chunk. lia. }
  assert (Hlen : len (dg_view st) <= N.of_nat (length ks)).
  { unfold ks. rewrite repeat_length. lia. }
  destruct (dg_consume_progress ks st Hinv Hks Hlen) as (out & st' & Hc & Hv').
  destruct (dg_consume_exact ks st Hinv) as (out2 & st2 & Hc2 & Happ & _).
  rewrite Hc in Hc2. inversion Hc2; subst out2 st2. rewrite Hc.
  rewrite Hv', app_nil_r in Happ. rewrite Happ, Hview. reflexivity.
Qed.

Theorem dg_tx_panics :
  forall sid payload, sid mod 4 <> 0 -> dg_tx sid payload = Panic 10.
Proof.
  intros sid payload Hm. unfold dg_tx.
  destruct (dg_new_total sid payload) as [_ Hnew]. rewrite (Hnew Hm). reflexivity.
Qed.

Theorem dg_rx_spec :
  forall bs, wf_bytes bs ->
    dg_rx bs = match rfc_dg_decode bs with
               | Some (s, p) => RxDatagram s p
               | None => RxConnError H3_DATAGRAM_ERROR_rfc H3_DATAGRAM_ERROR_rfc
               end.
Proof.
  intros bs Hwf. unfold dg_rx. rewrite (dg_decode_spec bs Hwf).
  destruct (rfc_dg_decode bs) as [[s p]|]; reflexivity.
Qed.

Theorem dg_tx_rx_roundtrip :
  forall sid payload, sid < 2 ^ 62 -> sid mod 4 = 0 -> nonempty_chunks payload -> wf_bytes (concat payload) ->
    exists wire, dg_tx sid payload = Ok wire /\ dg_rx wire = RxDatagram sid (concat payload).
Proof.
  intros sid payload Hs Hm Hne Hwf. eexists. split; [apply dg_tx_bytes; assumption|].
  unfold dg_rx. rewrite dg_roundtrip by assumption. reflexivity.
Qed.

Lemma codes_facts : dec_code_truncated = H3_DATAGRAM_ERROR_rfc /\ dec_code_range = H3_DATAGRAM_ERROR_rfc.
Proof. split; reflexivity. Qed.
