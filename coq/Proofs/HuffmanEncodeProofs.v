(* C15: the Huffman encoder model (encode.rs): output = concatenated RFC codes + shortest ones padding. *)
From H3V Require Import Base.Bytes Base.BytesLemmas Gen.GenHuffDec Gen.GenHuffEnc Gen.GenBitwin
  Spec.RFC7541Huffman Spec.HuffmanKnown Model.Huffman
  Proofs.C15Finite Proofs.BitsLemmas Proofs.HuffmanWalk Proofs.HuffmanStrict Proofs.HuffmanDecodeProofs Proofs.HuffmanEncodeFacts.
From Coq Require Import ZifyBool ZifyNat ZifyN.
Ltac Zify.zify_post_hook ::= Z.div_mod_to_equations.

(* ================================================================ write_bits on bit strings *)

Lemma bits_of_ff m : bits_of_bytes (repeat 255 m) = repeat true (8 * m).
Proof.
  induction m as [|m IH]; [reflexivity|]. cbn [repeat]. rewrite bits_of_bytes_cons, IH.
  replace (8 * S m)%nat with (8 + 8 * m)%nat by lia. rewrite repeat_app_plus. reflexivity.
Qed.

Lemma wf_bytes_ff m : wf_bytes (repeat 255 m).
Proof. induction m; cbn; constructor; [unfold wf_byte; lia|assumption]. Qed.

Lemma write_bits_spec out pos value :
  wf_bytes out -> bw_bit pos < 8 -> 1 <= bw_count pos <= 8 -> value < 256 ->
  let start := bitpos (bw_byte pos) (bw_bit pos) in
  (start + N.to_nat (bw_count pos) <= 8 * length out)%nat ->
  all_ones (skipn start (bits_of_bytes out)) = true ->
  exists out', write_bits out pos value = Ok out' /\ wf_bytes out' /\ length out' = length out /\
    bits_of_bytes out' = firstn start (bits_of_bytes out) ++ bits_msb (N.to_nat (bw_count pos)) value ++
                         repeat true (8 * length out - start - N.to_nat (bw_count pos)).
Proof.
  destruct pos as [byte bit count]. cbn [bw_byte bw_bit bw_count].
  intros Hwf Hbit Hcnt Hv Hin Hones. set (start := bitpos byte bit) in *. unfold bitpos in start.
  assert (Hb : (N.to_nat byte < length out)%nat) by lia.
  destruct (nth_error_lt_some out _ Hb) as [ob Hob].
  destruct (nth_error_split_at _ _ _ Hob) as [Hsplit Hlen].
  remember (firstn (N.to_nat byte) out) as pre eqn:Epre.
  remember (skipn (S (N.to_nat byte)) out) as post eqn:Epost.
  clear Epre Epost Hob. subst out.
  apply wf_bytes_app in Hwf as [Hwpre Hwf']. apply wf_bytes_cons in Hwf' as [Hoblt Hwpost].
  assert (Hstart : start = (8 * length pre + N.to_nat bit)%nat) by (unfold start; lia).
  clearbody start. subst start.
  assert (Hbyte : byte = N.of_nat (length pre)) by lia. clear Hlen Hb. subst byte.
  rewrite <- skipn_skipn', skipn_bits_of_bytes, bits_of_bytes_cons in Hones.
  rewrite skipn_app, bits_msb_length in Hones. replace (N.to_nat bit - 8)%nat with 0%nat in Hones by lia.
  cbn [skipn] in Hones. rewrite all_ones_app in Hones. apply andb_true_iff in Hones as [Hones1 Hones2].
  assert (Hfirst : firstn (8 * length pre + N.to_nat bit) (bits_of_bytes (pre ++ ob :: post)) =
                   bits_of_bytes pre ++ firstn (N.to_nat bit) (bits_msb 8 ob)).
  { rewrite bits_of_bytes_app, firstn_app, bits_of_bytes_length.
    rewrite firstn_all2 by (rewrite bits_of_bytes_length; lia). f_equal.
    replace (8 * length pre + N.to_nat bit - 8 * length pre)%nat with (N.to_nat bit) by lia.
    rewrite bits_of_bytes_cons, firstn_app, bits_msb_length.
    replace (N.to_nat bit - 8)%nat with 0%nat by lia. cbn [firstn]. apply app_nil_r. }
  rewrite Hfirst. rewrite app_length in *. cbn [length] in *.
  destruct (N.leb_spec (bit + count) 8) as [Hone|Htwo].
  - destruct (wb1_fact bit ob count value Hbit Hoblt ltac:(lia) Hone Hv Hones1) as (nb & Hw & Hnb & Hbits).
    rewrite (write_bits_single pre ob post bit count value nb) by (assumption || lia).
    eexists. split; [reflexivity|]. split.
    { apply wf_bytes_app. split; [assumption|]. apply wf_bytes_cons. split; assumption. }
    split; [rewrite !app_length; reflexivity|].
    rewrite bits_of_bytes_app, bits_of_bytes_cons, Hbits.
    rewrite (all_ones_eq_repeat _ Hones2), bits_of_bytes_length.
    rewrite <- !app_assoc. f_equal. f_equal. f_equal.
    rewrite <- repeat_app_plus. f_equal. lia.
  - destruct post as [|b1 post'].
    { cbn [length] in Hin. lia. }
    apply wf_bytes_cons in Hwpost as [Hb1 Hwpost'].
    destruct (wb2_fact bit ob count value Hbit Hoblt ltac:(lia) Htwo Hv Hones1) as (n0 & n1 & Hw & Hn0 & Hn1 & Hbits).
    rewrite (write_bits_double pre ob b1 post' bit count value n0 n1) by (assumption || lia).
    eexists. split; [reflexivity|]. split.
    { apply wf_bytes_app. split; [assumption|]. apply wf_bytes_cons. split; [assumption|].
      apply wf_bytes_cons. split; assumption. }
    split; [rewrite !app_length; reflexivity|].
    rewrite bits_of_bytes_cons, all_ones_app in Hones2. apply andb_true_iff in Hones2 as [_ Hones3].
    rewrite bits_of_bytes_app, !bits_of_bytes_cons, (app_assoc (bits_msb 8 n0)), Hbits.
    rewrite (all_ones_eq_repeat _ Hones3), bits_of_bytes_length.
    rewrite <- !app_assoc. f_equal. f_equal. f_equal.
    rewrite <- repeat_app_plus. f_equal. cbn [length]. lia.
Qed.

(* ================================================================ put_parts *)

Lemma row_parts_bits_length parts : forall rest, parts_ok parts rest = true ->
  length (row_parts_bits parts rest) = N.to_nat rest.
Proof.
  induction parts as [|p ps IH]; intros rest H; cbn [parts_ok row_parts_bits] in *.
  - apply N.eqb_eq in H. subst. reflexivity.
  - apply andb_true_iff in H as [H H3]. apply andb_true_iff in H as [H1 H2].
    rewrite app_length, bits_msb_length, (IH _ H3). destruct (N.ltb_spec rest 8); lia.
Qed.

Lemma firstn_app_exact' {A} (a b : list A) n : n = length a -> firstn n (a ++ b) = a.
Proof. intros ->. apply firstn_app_exact. Qed.
Lemma skipn_app_exact' {A} (a b : list A) n : n = length a -> skipn n (a ++ b) = b.
Proof. intros ->. apply skipn_app_exact. Qed.

Lemma put_parts_spec parts : forall rest e,
  parts_ok parts rest = true -> wf_bytes (he_buf e) -> bw_bit (he_pos e) < 8 ->
  8 * len (he_buf e) < 2 ^ 32 ->
  let p := pos_end (he_pos e) in
  (p + N.to_nat rest <= 8 * length (he_buf e))%nat ->
  all_ones (skipn p (bits_of_bytes (he_buf e))) = true ->
  exists e', put_parts parts rest e = Ok e' /\ wf_bytes (he_buf e') /\ bw_bit (he_pos e') < 8 /\
    pos_end (he_pos e') = (p + N.to_nat rest)%nat /\ length (he_buf e') = length (he_buf e) /\
    bits_of_bytes (he_buf e') = firstn p (bits_of_bytes (he_buf e)) ++ row_parts_bits parts rest ++
                                repeat true (8 * length (he_buf e) - p - N.to_nat rest).
Proof.
  induction parts as [|part ps IH]; intros rest e Hok Hwf Hbit Hsz p Hin Hones.
  - cbn [parts_ok] in Hok. apply N.eqb_eq in Hok. subst rest. cbn [put_parts row_parts_bits app].
    exists e. split; [reflexivity|]. split; [assumption|]. split; [assumption|].
    split; [unfold p; lia|]. split; [reflexivity|].
    change (N.to_nat 0) with 0%nat. rewrite Nat.sub_0_r.
    rewrite <- (firstn_skipn p (bits_of_bytes (he_buf e))) at 1. f_equal.
    rewrite (all_ones_eq_repeat _ Hones) at 1. rewrite skipn_length, bits_of_bytes_length. reflexivity.
  - cbn [parts_ok] in Hok. apply andb_true_iff in Hok as [Hok Hok3]. apply andb_true_iff in Hok as [Hok1 Hok2].
    apply N.ltb_lt in Hok1, Hok2.
    cbn [put_parts row_parts_bits].
    set (c := if rest <? 8 then rest else 8) in *.
    assert (Hc : 1 <= c <= 8 /\ c <= rest) by (unfold c; destruct (N.ltb_spec rest 8); lia).
    rewrite forwards_chk_ok by (unfold len in Hsz; fold p; lia).
    destruct (forwards_facts c (he_pos e)) as (Fbit & Fpos & Fcnt & Fend).
    set (pos1 := forwards c (he_pos e)) in *. fold p in Fpos, Fend.
    destruct (write_bits_spec (he_buf e) pos1 part Hwf Fbit ltac:(lia) Hok2) as (buf1 & Hw & Hwf1 & Hlen1 & Hbits1).
    { rewrite Fpos, Fcnt. lia. }
    { rewrite Fpos. exact Hones. }
    rewrite Hw. rewrite Fpos, Fcnt in Hbits1. rewrite Fcnt.
    set (e1 := {| he_pos := pos1; he_buf := buf1 |}).
    destruct (IH (rest - c) e1 Hok3 Hwf1 Fbit) as (e' & He' & Hwf' & Hbit' & Hend' & Hlen' & Hbits').
    { cbn [he_buf e1]. unfold len in *. rewrite Hlen1. exact Hsz. }
    { cbn [he_pos he_buf e1]. rewrite Fend, Hlen1. lia. }
    { cbn [he_pos he_buf e1]. rewrite Fend, Hbits1.
      rewrite app_assoc, skipn_app_exact'; [apply all_ones_repeat|].
      rewrite app_length, firstn_length, bits_of_bytes_length, bits_msb_length. lia. }
    exists e'. split; [exact He'|]. split; [assumption|]. split; [assumption|].
    cbn [he_pos he_buf e1] in *. split; [lia|]. split; [lia|].
    rewrite Hbits', Fend, Hbits1, Hlen1.
    match goal with |- firstn _ (?A ++ ?M ++ ?R) ++ _ = _ =>
      assert (Hf : firstn (p + N.to_nat c) (A ++ M ++ R) = A ++ M)
    end.
    { rewrite app_assoc. apply firstn_app_exact'.
      rewrite app_length, firstn_length, bits_of_bytes_length, bits_msb_length. lia. }
    rewrite Hf. rewrite <- !app_assoc. f_equal. f_equal. f_equal. f_equal. lia.
Qed.

(* ================================================================ the encoder invariant *)

Definition enc_inv (e : henc) (B : bits) : Prop :=
  wf_bytes (he_buf e) /\ bw_bit (he_pos e) < 8 /\ pos_end (he_pos e) = length B /\
  exists k, (k < 8)%nat /\ bits_of_bytes (he_buf e) = B ++ repeat true k.

Lemma enc_inv_new : enc_inv henc_new [].
Proof.
  unfold enc_inv, henc_new. cbn [he_pos he_buf bw_new bw_bit].
  split; [constructor|]. split; [lia|]. split; [reflexivity|].
  exists 0%nat. split; [lia|reflexivity].
Qed.

Lemma ensure_free_space_spec n e B : enc_inv e B -> 1 <= n -> N.of_nat (length B) + n + 8 < 2 ^ 32 ->
  exists e1, ensure_free_space n e = Ok e1 /\
  he_pos e1 = he_pos e /\ wf_bytes (he_buf e1) /\
  exists K, bits_of_bytes (he_buf e1) = B ++ repeat true K /\ (N.to_nat n <= K)%nat /\ (K - N.to_nat n < 8)%nat.
Proof.
  intros (Hwf & Hbit & Hend & k & Hk & Hbits) Hn Hsz. unfold ensure_free_space.
  change (2 ^ 32) with 4294967296 in Hsz.
  rewrite forwards_chk_ok by (change (2 ^ 32) with 4294967296; lia).
  destruct (forwards_facts n (he_pos e)) as (F1bit & F1pos & F1cnt & F1end).
  rewrite forwards_chk_ok by (change (2 ^ 32) with 4294967296; lia).
  destruct (forwards_facts 0 (forwards n (he_pos e))) as (F2bit & F2pos & F2cnt & F2end).
  set (er := forwards 0 (forwards n (he_pos e))) in *.
  assert (Hpos : bitpos (bw_byte er) (bw_bit er) = (length B + N.to_nat n)%nat) by lia.
  assert (Hlen : (8 * length (he_buf e) = length B + k)%nat).
  { rewrite <- bits_of_bytes_length, Hbits, app_length, repeat_length. reflexivity. }
  unfold bitpos in Hpos.
  destruct (N.ltb_spec (bw_byte er) (len (he_buf e))) as [Hlt|Hge].
  - exists e. split; [reflexivity|]. split; [reflexivity|]. split; [assumption|]. exists k. split; [assumption|]. unfold len in Hlt. lia.
  - unfold bw_byte_width, bw_reserve_mul. change (2 ^ 32) with 4294967296.
    destruct (N.leb_spec 4294967296 (7 * bw_byte er)) as [Hov|_]; [lia|].
    eexists. split; [reflexivity|].
    cbn [he_pos he_buf]. split; [reflexivity|]. split; [apply wf_bytes_app; split; [assumption|apply wf_bytes_ff]|].
    set (m := N.to_nat (bw_byte er - len (he_buf e) + (if 0 <? bw_bit er then 1 else 0))).
    exists (k + 8 * m)%nat. rewrite bits_of_bytes_app, Hbits, bits_of_ff, <- app_assoc, <- repeat_app_plus.
    split; [reflexivity|]. unfold len in *. destruct (N.ltb_spec 0 (bw_bit er)); lia.
Qed.

Lemma put_spec x e B : x < 256 -> enc_inv e B -> N.of_nat (length (B ++ code_bits x)) + 8 < 2 ^ 32 ->
  exists e', put x e = Ok e' /\ enc_inv e' (B ++ code_bits x).
Proof.
  intros Hx Hinv Hsz. unfold put, nth_n.
  destruct (enc_row x Hx) as (n & parts & Hrow & Hok & Hrbits). rewrite Hrow.
  assert (Hnlen : length (code_bits x) = N.to_nat n).
  { rewrite <- Hrbits. apply row_parts_bits_length. exact Hok. }
  assert (Hn : 1 <= n) by (pose proof (code_bits_len x ltac:(lia)); lia).
  rewrite app_length in Hsz.
  destruct (ensure_free_space_spec n e B Hinv Hn ltac:(lia)) as (e1 & He1 & Hpos & Hwf1 & K & Hbits1 & HK1 & HK2).
  rewrite He1.
  destruct Hinv as (_ & Hbit & Hend & _).
  assert (Hlen1 : (8 * length (he_buf e1) = length B + K)%nat).
  { rewrite <- bits_of_bytes_length, Hbits1, app_length, repeat_length. reflexivity. }
  destruct (put_parts_spec parts n e1 Hok Hwf1 ltac:(rewrite Hpos; exact Hbit))
    as (e' & He' & Hwf' & Hbit' & Hend' & Hlen' & Hbits').
  { unfold len. change (2 ^ 32) with 4294967296 in *. lia. }
  { rewrite Hpos, Hend. lia. }
  { rewrite Hpos, Hend, Hbits1, skipn_app_exact. apply all_ones_repeat. }
  exists e'. split; [exact He'|].
  unfold enc_inv. split; [assumption|]. split; [assumption|].
  rewrite Hpos, Hend in *. split; [rewrite app_length; lia|].
  exists (K - N.to_nat n)%nat. split; [assumption|].
  rewrite Hbits', Hbits1, firstn_app_exact, Hrbits, <- app_assoc. f_equal. f_equal. f_equal. lia.
Qed.

Lemma put_all_spec s : forall e B, wf_bytes s -> enc_inv e B -> N.of_nat (length (B ++ codes s)) + 8 < 2 ^ 32 ->
  exists e', put_all s e = Ok e' /\ enc_inv e' (B ++ codes s).
Proof.
  induction s as [|x s IH]; intros e B Hwf Hinv Hsz.
  - exists e. cbn [put_all codes flat_map]. rewrite app_nil_r. auto.
  - apply wf_bytes_cons in Hwf as [Hx Hwf]. cbn [put_all].
    rewrite codes_cons, app_assoc in Hsz.
    destruct (put_spec x e B Hx Hinv) as (e1 & He1 & Hinv1).
    { rewrite app_length in Hsz. lia. }
    rewrite He1.
    destruct (IH e1 _ Hwf Hinv1 Hsz) as (e' & He' & Hinv'). exists e'. split; [exact He'|].
    rewrite codes_cons, app_assoc. exact Hinv'.
Qed.

Lemma codes_length s : wf_bytes s -> (length (codes s) <= 30 * length s)%nat.
Proof.
  induction s as [|x s IH]; intros Hwf; [cbn; lia|].
  apply wf_bytes_cons in Hwf as [Hx Hwf]. rewrite codes_cons, app_length. cbn [length].
  pose proof (code_bits_len x ltac:(lia)). specialize (IH Hwf). lia.
Qed.

(* B3 / T4a: the encoder never fails and its output is a valid RFC 7541 5.2 encoding of s
   (concatenated codes, then fewer than 8 one bits up to the octet boundary) *)
Theorem hpack_encode_valid s : wf_bytes s -> enc_fits s ->
  exists e, hpack_encode s = Ok e /\ wf_bytes e /\ valid_huff (bits_of_bytes e) s /\
            (8 * length e < length (codes s) + 8)%nat.
Proof.
  intros Hwf Hfit. unfold hpack_encode.
  destruct (put_all_spec s henc_new [] Hwf enc_inv_new) as (e' & He' & Hw & _ & _ & k & Hk & Hbits).
  { cbn [app]. pose proof (codes_length s Hwf). unfold enc_fits, len in Hfit.
    change (2 ^ 26) with 67108864 in Hfit. change (2 ^ 32) with 4294967296. lia. }
  rewrite He'. exists (he_buf e'). split; [reflexivity|]. split; [assumption|]. cbn [app] in Hbits. split.
  - split; [assumption|]. exists (repeat true k). rewrite repeat_length. repeat split; [assumption|lia|apply all_ones_repeat].
  - rewrite <- bits_of_bytes_length, Hbits, app_length, repeat_length. lia.
Qed.

Lemma hpack_encode_fits s e : wf_bytes s -> len s < 2 ^ 26 -> (8 * length e < length (codes s) + 8)%nat -> fits_u32 e.
Proof.
  intros Hwf Hlen Hel. pose proof (codes_length s Hwf) as Hcl. unfold fits_u32, len in *.
  change (2 ^ 26) with 67108864 in Hlen. change (2 ^ 32) with 4294967296. lia.
Qed.

(* T4: decode (encode s) = s *)
Theorem hpack_roundtrip s : wf_bytes s -> len s < 2 ^ 26 ->
  exists e, hpack_encode s = Ok e /\ hpack_decode e = Ok s.
Proof.
  intros Hwf Hlen. destruct (hpack_encode_valid s Hwf Hlen) as (e & He & Hwe & Hv & Hel).
  exists e. split; [assumption|].
  apply hpack_decode_lax; [assumption|exact (hpack_encode_fits s e Hwf Hlen Hel)|]. apply lax_split. left. exact Hv.
Qed.
