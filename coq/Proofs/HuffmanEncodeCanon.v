(* C15: the encoder model writes exactly the octets of the canonical RFC 7541 5.2 encoder
   (the function used as the oracle of the `he` / `ps.enc` correspondence families). *)
From H3V Require Import Base.Bytes Base.BytesLemmas Spec.RFC7541Huffman Model.Huffman
  Proofs.BitsLemmas Proofs.HuffmanWalk Proofs.HuffmanStrict Proofs.HuffmanEncodeProofs.
From Coq Require Import ZifyBool ZifyNat ZifyN.
Ltac Zify.zify_post_hook ::= Z.div_mod_to_equations.

Lemma firstn_repeat {A} (x : A) : forall n k, firstn k (repeat x n) = repeat x (Nat.min k n).
Proof.
  induction n as [|n IH]; intros k.
  - rewrite Nat.min_0_r. destruct k; reflexivity.
  - destruct k as [|k]; [reflexivity|]. cbn [repeat firstn Nat.min]. f_equal. apply IH.
Qed.

Lemma bytes_of_bits_spec fuel : forall b, (length b <= fuel)%nat ->
  wf_bytes (bytes_of_bits fuel b) /\
  bits_of_bytes (bytes_of_bits fuel b) = b ++ repeat true ((8 - length b mod 8) mod 8).
Proof.
  induction fuel as [|f IH]; intros b Hlen.
  - destruct b; [|cbn in Hlen; lia]. cbn. split; [constructor|reflexivity].
  - destruct b as [|x b'] eqn:Eb.
    + cbn. split; [constructor|reflexivity].
    + rewrite <- Eb in *. assert (Hne : (1 <= length b)%nat) by (rewrite Eb; cbn; lia).
      assert (Hunf : bytes_of_bits (S f) b =
                     bits_val 0 (firstn 8 (b ++ repeat true 7)) :: bytes_of_bits f (skipn 8 b)).
      { rewrite Eb. reflexivity. }
      rewrite Hunf. clear Hunf.
      set (X := firstn 8 (b ++ repeat true 7)).
      assert (HX : length X = 8%nat).
      { unfold X. rewrite firstn_length, app_length, repeat_length. lia. }
      assert (Hv : bits_val 0 X < 256).
      { pose proof (bits_val_bound X) as Hb. rewrite HX in Hb. exact Hb. }
      destruct (IH (skipn 8 b)) as [IHwf IHbits]; [rewrite skipn_length; lia|].
      split; [apply wf_bytes_cons; split; assumption|].
      rewrite bits_of_bytes_cons, (bits_msb_of_val 8 X HX), IHbits, skipn_length.
      destruct (Nat.le_gt_cases 8 (length b)) as [Hge|Hlt].
      * unfold X. rewrite firstn_app. replace (8 - length b)%nat with 0%nat by lia.
        rewrite firstn_O, app_nil_r, app_assoc, firstn_skipn. f_equal. f_equal.
        replace (length b) with (8 + (length b - 8))%nat at 2 by lia.
        rewrite Nat.add_mod by lia. rewrite Nat.mod_same by lia. cbn [Nat.add].
        rewrite Nat.mod_mod by lia. reflexivity.
      * assert (HXb : X = b ++ repeat true (8 - length b)).
        { unfold X. rewrite firstn_app. f_equal; [apply firstn_all2; lia|].
          rewrite firstn_repeat. f_equal. lia. }
        rewrite HXb, skipn_all2 by lia. cbn [app length].
        replace (length b - 8)%nat with 0%nat by lia.
        change ((8 - 0 mod 8) mod 8)%nat with 0%nat. cbn [repeat].
        rewrite app_nil_r. f_equal. f_equal.
        rewrite (Nat.mod_small (length b)) by lia. rewrite Nat.mod_small by lia. reflexivity.
Qed.

Lemma bits_msb8_inj x y : x < 256 -> y < 256 -> bits_msb 8 x = bits_msb 8 y -> x = y.
Proof.
  intros Hx Hy H. apply (f_equal (bits_val 0)) in H. rewrite !bits_val_msb in H.
  change (2 ^ N.of_nat 8) with 256 in H. rewrite !N.mod_small in H by assumption. exact H.
Qed.

Lemma bits_of_bytes_inj a : forall b, wf_bytes a -> wf_bytes b ->
  bits_of_bytes a = bits_of_bytes b -> a = b.
Proof.
  induction a as [|x a IH]; intros b Ha Hb H.
  - destruct b as [|y b]; [reflexivity|]. apply (f_equal (@length bool)) in H.
    rewrite !bits_of_bytes_length in H. cbn in H. lia.
  - destruct b as [|y b].
    { apply (f_equal (@length bool)) in H. rewrite !bits_of_bytes_length in H. cbn in H. lia. }
    apply wf_bytes_cons in Ha as [Hx Ha]. apply wf_bytes_cons in Hb as [Hy Hb].
    rewrite !bits_of_bytes_cons in H.
    assert (H8 : firstn 8 (bits_msb 8 x ++ bits_of_bytes a) = firstn 8 (bits_msb 8 y ++ bits_of_bytes b)) by (rewrite H; reflexivity).
    rewrite !firstn_app_exact' in H8 by (rewrite bits_msb_length; reflexivity).
    assert (Hs : skipn 8 (bits_msb 8 x ++ bits_of_bytes a) = skipn 8 (bits_msb 8 y ++ bits_of_bytes b)) by (rewrite H; reflexivity).
    rewrite !skipn_app_exact' in Hs by (rewrite bits_msb_length; reflexivity).
    f_equal; [apply bits_msb8_inj; assumption|apply IH; assumption].
Qed.

Theorem hpack_encode_is_rfc s : wf_bytes s -> enc_fits s -> hpack_encode s = Ok (rfc_huff_encode s).
Proof.
  intros Hwf Hfit. destruct (hpack_encode_valid s Hwf Hfit) as (e & He & Hwe & (_ & pad & Hbits & Hlen & Hones) & _).
  rewrite He. f_equal. unfold rfc_huff_encode.
  destruct (bytes_of_bits_spec (length (codes s)) (codes s) (le_n _)) as [Hwr Hbr].
  apply bits_of_bytes_inj; [assumption|assumption|].
  rewrite Hbits, Hbr. f_equal. rewrite (all_ones_eq_repeat pad Hones). f_equal.
  assert (Hm : ((length (codes s) + length pad) mod 8 = 0)%nat).
  { rewrite <- app_length, <- Hbits, bits_of_bytes_length. rewrite Nat.mul_comm. apply Nat.mod_mul. lia. }
  pose proof (Nat.div_mod (length (codes s)) 8 ltac:(lia)) as Hdm.
  pose proof (Nat.mod_upper_bound (length (codes s)) 8 ltac:(lia)) as Hub.
  set (m := (length (codes s) mod 8)%nat) in *. set (q := (length (codes s) / 8)%nat) in *.
  rewrite Hdm in Hm.
  replace (8 * q + m + length pad)%nat with ((m + length pad) + q * 8)%nat in Hm by lia.
  rewrite Nat.mod_add in Hm by lia.
  destruct (Nat.eq_dec m 0) as [E|E].
  - rewrite E in *. cbn [Nat.add] in Hm. rewrite Nat.mod_small in Hm by lia.
    rewrite Hm. reflexivity.
  - assert (Hs : (m + length pad = 8)%nat).
    { destruct (Nat.lt_ge_cases (m + length pad) 8) as [Hl|Hg].
      - rewrite Nat.mod_small in Hm by lia. lia.
      - replace (m + length pad)%nat with ((m + length pad - 8) + 1 * 8)%nat in Hm by lia.
        rewrite Nat.mod_add in Hm by lia. rewrite Nat.mod_small in Hm by lia. lia. }
    rewrite (Nat.mod_small (8 - m)) by lia. lia.
Qed.
