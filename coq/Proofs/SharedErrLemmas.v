(* Small facts used by Proofs/SharedErrProofs.v: list update, observations read backwards,
   the two match tables against the specification's functions. *)
From H3V Require Import Base.Bytes Gen.GenCodes Gen.GenSharedErr Spec.FirstErrorWins Model.SharedErr.

(* ---- upd *)
Lemma upd_in : forall (A : Type) (l : list A) i x s, In s (upd l i x) -> s = x \/ In s l.
Proof.
  induction l as [|a l IH]; intros i x s Hin; cbn in Hin.
  - destruct i; contradiction.
  - destruct i as [|j]; cbn in Hin.
    + destruct Hin as [E|Hin]; [left; congruence | right; right; exact Hin].
    + destruct Hin as [E|Hin]; [right; left; exact E|].
      destruct (IH _ _ _ Hin) as [E|H]; [left; exact E | right; right; exact H].
Qed.

Lemma upd_in_new : forall (A : Type) (l : list A) i x s0, nth_error l i = Some s0 -> In x (upd l i x).
Proof.
  induction l as [|a l IH]; intros i x s0 Hn.
  - destruct i; discriminate.
  - destruct i as [|j]; cbn in *.
    + left; reflexivity.
    + right. eapply IH; exact Hn.
Qed.

Lemma upd_keep : forall (A : Type) (l : list A) i x s0,
  In s0 l -> In s0 (upd l i x) \/ nth_error l i = Some s0.
Proof.
  induction l as [|a l IH]; intros i x s0 Hin.
  - contradiction.
  - destruct i as [|j]; cbn.
    + destruct Hin as [E|Hin]; [right; congruence | left; right; exact Hin].
    + destruct Hin as [E|Hin]; [left; left; exact E|].
      destruct (IH j x s0 Hin) as [H|H]; [left; right; exact H | right; exact H].
Qed.

(* ---- observations: the world keeps them newest first *)
Lemma raises_app : forall a b, raises (a ++ b) = raises a ++ raises b.
Proof.
  induction a as [|ev a IH]; intros b; cbn; [reflexivity|].
  destruct ev; cbn; rewrite ?IH; reflexivity.
Qed.
Lemma closes_app : forall a b, closes (a ++ b) = closes a ++ closes b.
Proof.
  induction a as [|ev a IH]; intros b; cbn; [reflexivity|].
  destruct ev; cbn; rewrite ?IH; reflexivity.
Qed.
Lemma raises_rev : forall tr, raises (rev tr) = rev (raises tr).
Proof.
  induction tr as [|ev tr IH]; cbn; [reflexivity|].
  rewrite raises_app, IH. destruct ev; cbn; rewrite ?app_nil_r; reflexivity.
Qed.
Lemma closes_rev : forall tr, closes (rev tr) = rev (closes tr).
Proof.
  induction tr as [|ev tr IH]; cbn; [reflexivity|].
  rewrite closes_app, IH. destruct ev; cbn; rewrite ?app_nil_r; reflexivity.
Qed.

(* the outcome read from a newest-first list of raises *)
Fixpoint first_raised (es : list err) : option err :=
  match es with
  | [] => None
  | e :: older => fw_raise (first_raised older) e
  end.
Lemma fw_run_snoc : forall es e, fw_run (es ++ [e]) = fw_raise (fw_run es) e.
Proof. intros es e. unfold fw_run. rewrite fold_left_app. reflexivity. Qed.
Lemma fw_run_rev : forall es, fw_run (rev es) = first_raised es.
Proof.
  induction es as [|e es IH]; [reflexivity|].
  cbn [rev first_raised]. rewrite fw_run_snoc, IH. reflexivity.
Qed.
Lemma outcome_obs : forall w, outcome (obs w) = first_raised (raises (trace w)).
Proof. intros w. unfold outcome, obs. rewrite raises_rev, fw_run_rev. reflexivity. Qed.

Lemma quiet_app : forall a b, quiet_polls (a ++ b) = (quiet_polls a + quiet_polls b)%nat.
Proof.
  induction a as [|ev a IH]; intros b; cbn; [reflexivity|].
  destruct ev; cbn; rewrite ?IH; reflexivity.
Qed.
Lemma quiet_rev : forall tr, quiet_polls (rev tr) = quiet_polls tr.
Proof.
  induction tr as [|ev tr IH]; cbn; [reflexivity|].
  rewrite quiet_app, IH. destruct ev; cbn; lia.
Qed.

Lemma in_obs : forall w ev, In ev (obs w) <-> In ev (trace w).
Proof. intros w ev. unfold obs. symmetry. apply in_rev. Qed.

(* ---- the tables of the code, as generated today, against the specification *)
Definition std_close : list (origin_pat * code_src) :=
  [(PatInternal, CodeOfError); (PatQuicInternal, CodeConst H3_INTERNAL_ERROR)].
Definition std_convert : list (origin_pat * conv_target) :=
  [(PatInternal, ToLocal); (PatQuicTimeout, ToTimeout); (PatQuicAny, ToRemote)].

Lemma convert_is_spec : forall c e, c_convert c = std_convert -> convert c e = spec_report e.
Proof.
  intros c e Hc. unfold convert. rewrite Hc.
  destruct e as [k|[k| | |]]; reflexivity.
Qed.
Lemma close_is_spec : forall c e, c_close c = std_close -> close_code c e = spec_close_code e.
Proof.
  intros c e Hc. unfold close_code. rewrite Hc.
  destruct e as [k|[k| | |]]; reflexivity.
Qed.
