(* prefix_int::decode and prefix_string::decode on a non-contiguous Buf = the same decoders on the flat bytes, for EVERY
   chunking (a cut inside the continuation octets of the integer, inside the payload, anywhere): same flags, value /
   string, same error, and the buffer left behind has the flat rest as its view. *)
From H3V Require Import Base.Bytes Base.BytesLemmas Gen.GenPrefixInt Gen.GenPrefixString Model.PrefixInt Model.Huffman
  Model.PrefixString Model.ChunkedBuf Model.ChunkedQpack Proofs.ChunkedBufProofs.
From Coq Require Import ZifyBool ZifyNat ZifyN.
Ltac Zify.zify_post_hook ::= Z.div_mod_to_equations.

Lemma cb_get_empty cs : concat cs = [] -> cb_get cs = Err PiUnexpectedEnd.
Proof. intros V. unfold cb_get, cb_remaining. rewrite V. reflexivity. Qed.

Lemma cb_get_law cs b tl : cb_wf cs -> concat cs = b :: tl ->
  exists cs', cb_get cs = Ok (b, cs') /\ concat cs' = tl /\ cb_wf cs'.
Proof.
  intros W V. unfold cb_get, cb_remaining. rewrite V.
  replace (len (b :: tl) <? 1) with false by (unfold len; cbn [length]; lia).
  destruct (cb_get_u8_law cs b tl W V) as (cs' & G & V' & W'). rewrite G. exists cs'. auto.
Qed.

Lemma pi_dec_loop_buf_flat : forall fuel cs value power, cb_wf cs -> (length (concat cs) <= fuel)%nat ->
  res_flat (pi_dec_loop_buf fuel cs value power) = pi_dec_loop (concat cs) value power /\
  (forall v cs', pi_dec_loop_buf fuel cs value power = Ok (v, cs') -> cb_wf cs').
Proof.
  induction fuel as [|f IH]; intros cs value power W Hf.
  - destruct (concat cs) as [|b tl] eqn:V; [|cbn [length] in Hf; lia].
    cbn [pi_dec_loop_buf]. rewrite (cb_get_empty cs V). cbn [res_flat pi_dec_loop].
    split; [reflexivity|]. intros; discriminate.
  - destruct (concat cs) as [|b tl] eqn:V.
    + cbn [pi_dec_loop_buf]. rewrite (cb_get_empty cs V). cbn [res_flat pi_dec_loop].
      split; [reflexivity|]. intros; discriminate.
    + destruct (cb_get_law cs b tl W V) as (cs1 & G & V1 & W1).
      cbn [pi_dec_loop_buf pi_dec_loop]. rewrite G. cbv zeta.
      destruct (64 <=? power); [cbn [res_flat]; split; [reflexivity|intros; discriminate]|].
      destruct (2 ^ 64 <=? value + N.shiftl (N.land b pi_dec_val_mask) power mod 2 ^ 64);
        [cbn [res_flat]; split; [reflexivity|intros; discriminate]|].
      destruct (N.land b pi_dec_cont_mask =? 0).
      { cbn [res_flat]. rewrite V1. split; [reflexivity|]. intros v cs' H. inversion H; subst. exact W1. }
      destruct (cmp_ge pi_dec_overflow_ge (power + pi_dec_step) pi_max_power);
        [cbn [res_flat]; split; [reflexivity|intros; discriminate]|].
      rewrite <- V1. apply IH; [exact W1|]. rewrite V1. cbn [length] in Hf. lia.
Qed.

Theorem pi_decode_buf_flat size cs : cb_wf cs ->
  res_flat (pi_decode_buf size cs) = pi_decode size (concat cs) /\
  (forall f v cs', pi_decode_buf size cs = Ok (f, v, cs') -> cb_wf cs').
Proof.
  intros W. unfold pi_decode_buf, pi_decode.
  destruct (negb (cmp_lt (negb pi_dec_size_le) size pi_dec_size_max));
    [cbn [res_flat]; split; [reflexivity|intros; discriminate]|].
  destruct (concat cs) as [|b tl] eqn:V.
  - rewrite (cb_get_empty cs V). cbn [res_flat]. split; [reflexivity|intros; discriminate].
  - destruct (cb_get_law cs b tl W V) as (cs1 & G & V1 & W1). rewrite G. cbv zeta.
    destruct (pi_dec_mask_width <? size); [cbn [res_flat]; split; [reflexivity|intros; discriminate]|].
    destruct (8 <=? pi_dec_mask_width - size); [cbn [res_flat]; split; [reflexivity|intros; discriminate]|].
    destruct (cmp_lt pi_dec_short_lt (N.land b (N.shiftr pi_dec_mask_full (pi_dec_mask_width - size)))
                (N.shiftr pi_dec_mask_full (pi_dec_mask_width - size))).
    { cbn [res_flat]. rewrite V1. split; [reflexivity|]. intros f v cs' H. inversion H; subst. exact W1. }
    destruct (pi_dec_loop_buf_flat (length (concat cs1)) cs1
                (N.shiftr pi_dec_mask_full (pi_dec_mask_width - size)) pi_dec_power_init W1 (le_n _)) as (A & B).
    remember (pi_dec_loop_buf (length (concat cs1)) cs1 (N.shiftr pi_dec_mask_full (pi_dec_mask_width - size))
                pi_dec_power_init) as L eqn:EL. clear EL.
    rewrite V1 in A. rewrite <- A.
    destruct L as [[v rest]|e|s]; cbn [res_flat].
    + split; [reflexivity|]. intros f v' cs' H. inversion H; subst. apply (B v' cs'). reflexivity.
    + split; [reflexivity|intros; discriminate].
    + split; [reflexivity|intros; discriminate].
Qed.

Theorem ps_decode_buf_flat size cs : cb_wf cs ->
  res_flat (ps_decode_buf size cs) = ps_decode size (concat cs) /\
  (forall v cs', ps_decode_buf size cs = Ok (v, cs') -> cb_wf cs').
Proof.
  intros W. unfold ps_decode_buf, ps_decode.
  destruct (size <? ps_dec_size_offset); [cbn [res_flat]; split; [reflexivity|intros; discriminate]|].
  destruct (pi_decode_buf_flat (size - ps_dec_size_offset) cs W) as (A & B). rewrite <- A.
  destruct (pi_decode_buf (size - ps_dec_size_offset) cs) as [[[flags n] c1]|e|s]; cbn [res_flat].
  2:{ destruct e; cbn [res_flat]; split; try reflexivity; intros; discriminate. }
  2:{ split; [reflexivity|intros; discriminate]. }
  specialize (B flags n c1 eq_refl). unfold cb_remaining.
  destruct (if ps_dec_remaining_lt then len (concat c1) <? n else len (concat c1) <=? n) eqn:E;
    [cbn [res_flat]; split; [reflexivity|intros; discriminate]|].
  assert (Hn : n <= len (concat c1)) by (destruct ps_dec_remaining_lt; lia).
  destruct (cb_copy_to_bytes_law n c1 B Hn) as (c2 & C1 & C2 & C3).
  destruct (N.land flags ps_dec_h_mask =? 0); cbn [negb andb].
  - rewrite C1. cbn [res_flat]. rewrite C2. split; [reflexivity|]. intros v cs' H. inversion H; subst. exact C3.
  - destruct (2 ^ ps_dec_guard_width - 1 <? ps_guard_value n);
      [cbn [res_flat]; split; [reflexivity|intros; discriminate]|].
    rewrite C1. destruct (hpack_decode (firstn (N.to_nat n) (concat c1))) as [v|e|s]; cbn [res_flat].
    + rewrite C2. split; [reflexivity|]. intros v' cs' H. inversion H; subst. exact C3.
    + split; [reflexivity|intros; discriminate].
    + split; [reflexivity|intros; discriminate].
Qed.
