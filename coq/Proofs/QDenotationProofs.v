(* T4, second half: what an emitted field section denotes.  Every representation the encoder emits names, through the
   section's Base, either a static row or an absolute index of the insertion history whose entry is the field that was
   encoded; Encoder::encode never fails or panics on a table satisfying the invariant. *)
From H3V Require Import Base.Bytes Base.BytesLemmas Gen.GenQpack Gen.GenStatic Model.Vas Model.DynTable Model.QInstr Model.QEncoder
  Model.QDecoder Model.QSystem Proofs.VasProofs Proofs.QPrefixProofs Proofs.AMapLemmas Proofs.DynTableProofs Proofs.QEncoderProofs
  Proofs.QSystemProofs Proofs.QSimulationProofs.
From Coq Require Import ZifyBool ZifyN ZifyNat.
Ltac Zify.zify_post_hook ::= Z.div_mod_to_equations.

(* ---------------------------------------------------------------- insertion history *)
(* H lists every entry ever inserted; absolute index a (1-based) is H[a-1]; the table holds the suffix from `dropped` *)
Definition hist_ok (H : list field) (t : dt) : Prop :=
  v_inserted (dt_vas t) = N.of_nat (length H) /\ dt_fields t = skipn (N.to_nat (v_dropped (dt_vas t))) H.

Lemma hist_field_at H t a : hist_ok H t -> v_dropped (dt_vas t) < a -> field_at t a = nth_opt H (a - 1).
Proof.
  intros [_ Hf] Ha. unfold field_at, vas_pos. rewrite Hf, nth_opt_skipn. f_equal. lia.
Qed.

Lemma hist_same_store H t t' : same_store t t' -> hist_ok H t -> hist_ok H t'.
Proof. intros (A & _ & C) [H1 H2]. unfold hist_ok. rewrite A, C. auto. Qed.

Lemma skipn_app_le {A} k (l r : list A) : (k <= length l)%nat -> skipn k (l ++ r) = skipn k l ++ r.
Proof.
  revert l. induction k as [|k IH]; intros l Hk; [reflexivity|].
  destruct l as [|x l]; cbn [length] in Hk; [lia|]. cbn [skipn app]. apply IH. lia.
Qed.

Lemma hist_pushed H t t1 n f :
  dt_ok t -> hist_ok H t -> dt_fields t1 = skipn (N.to_nat n) (dt_fields t) ->
  v_inserted (dt_vas t1) = v_inserted (dt_vas t) -> v_dropped (dt_vas t1) = v_dropped (dt_vas t) + n ->
  (N.to_nat n <= length (dt_fields t))%nat ->
  hist_ok (H ++ [f]) (pushed t1 f).
Proof.
  intros Hok [H1 H2] G1 G9 G10 Hn. unfold hist_ok, pushed, vas_add; cbn [with_store dt_vas dt_fields v_inserted v_dropped].
  split; [rewrite app_length; cbn [length]; lia|].
  rewrite G1, H2, G10, skipn_skipn'. rewrite skipn_app_le.
  - f_equal. f_equal. lia.
  - rewrite H2, skipn_length in Hn. pose proof (ok_vas t Hok) as Hv. unfold vas_inv in Hv. lia.
Qed.

(* ---------------------------------------------------------------- DynamicTableEncoder::insert, case by case *)
Lemma te_eta e : te_with_t e (te_t e) = e.
Proof. destruct e; reflexivity. Qed.

Definition cnt (r : N) (m : refs) : N := match aget N.eqb r m with Some c => c | None => 0 end.

Lemma cnt_refs_incr_same r m : cnt r (refs_incr r m) = cnt r m + 1.
Proof.
  unfold cnt, refs_incr. destruct (aget N.eqb r m) eqn:E; rewrite (aget_aset_same N.eqb Neqb_eq'); lia.
Qed.
Lemma cnt_refs_incr_other r r' m : r' <> r -> cnt r' (refs_incr r m) = cnt r' m.
Proof.
  intros Hne. unfold cnt, refs_incr. destruct (aget N.eqb r m) eqn:E; rewrite (aget_aset_other N.eqb Neqb_eq') by assumption; reflexivity.
Qed.

Inductive insert_case (e : tenc) (f : field) : tenc -> insres -> Prop :=
| IC_not e1 l :
    te_find_name e (fst f) = (e1, l) -> insert_case e f e1 (RNotInserted l)
| IC_ins t1 n e' r :
    dt_insert (te_t e) f = Ok (pushed t1 f, Some (v_inserted (dt_vas (te_t e)) + 1)) ->
    dt_ok t1 -> dt_ok (pushed t1 f) ->
    dt_fields t1 = skipn (N.to_nat n) (dt_fields (te_t e)) -> (N.to_nat n <= length (dt_fields (te_t e)))%nat ->
    dt_max t1 = dt_max (te_t e) -> dt_track t1 = dt_track (te_t e) -> dt_blocks t1 = dt_blocks (te_t e) ->
    dt_lkr t1 = dt_lkr (te_t e) -> dt_bmax t1 = dt_bmax (te_t e) -> dt_bcount t1 = dt_bcount (te_t e) ->
    dt_bstreams t1 = dt_bstreams (te_t e) ->
    v_inserted (dt_vas t1) = v_inserted (dt_vas (te_t e)) -> v_dropped (dt_vas t1) = v_dropped (dt_vas (te_t e)) + n ->
    ins_shape e f t1 e' r -> insert_case e f e' r
with ins_shape (e : tenc) (f : field) : dt -> tenc -> insres -> Prop :=
| IS_dup t1 ref :
    aget field_eqb f (dt_fmap t1) = Some ref -> vas_live (dt_vas t1) ref -> field_at t1 ref = Some f ->
    ins_shape e f t1
      (let index := v_inserted (dt_vas (te_t e)) + 1 in
       let e1 := te_track_ref (te_with_t e (pushed t1 f)) index in
       te_track_ref (te_with_t e1 (with_maps (te_t e1) (aset field_eqb f index (dt_fmap t1))
          (match aget bytes_eqb (fst f) (dt_nmap t1) with Some _ => aset bytes_eqb (fst f) index (dt_nmap t1) | None => dt_nmap t1 end))) ref)
      (let index := v_inserted (dt_vas (te_t e)) + 1 in RDuplicated (index - ref - 1) (index - te_base e - 1) index)
| IS_static t1 si :
    aget field_eqb f (dt_fmap t1) = None -> static_find_name (fst f) = Some si ->
    ins_shape e f t1
      (let index := v_inserted (dt_vas (te_t e)) + 1 in
       let e1 := te_track_ref (te_with_t e (pushed t1 f)) index in
       te_with_t e1 (with_maps (te_t e1) (aset field_eqb f index (dt_fmap t1)) (dt_nmap t1)))
      (let index := v_inserted (dt_vas (te_t e)) + 1 in RInsertedStaticNameRef (index - te_base e - 1) si index)
| IS_name t1 ref g :
    aget field_eqb f (dt_fmap t1) = None -> static_find_name (fst f) = None ->
    aget bytes_eqb (fst f) (dt_nmap t1) = Some ref -> vas_live (dt_vas t1) ref -> field_at t1 ref = Some g -> fst g = fst f ->
    ins_shape e f t1
      (let index := v_inserted (dt_vas (te_t e)) + 1 in
       let e1 := te_track_ref (te_with_t e (pushed t1 f)) index in
       te_track_ref (te_with_t e1 (with_maps (te_t e1) (aset field_eqb f index (dt_fmap t1)) (aset bytes_eqb (fst f) index (dt_nmap t1)))) ref)
      (let index := v_inserted (dt_vas (te_t e)) + 1 in RInsertedNameRef (index - te_base e - 1) (index - ref - 1) index)
| IS_plain t1 :
    aget field_eqb f (dt_fmap t1) = None -> static_find_name (fst f) = None -> aget bytes_eqb (fst f) (dt_nmap t1) = None ->
    ins_shape e f t1
      (let index := v_inserted (dt_vas (te_t e)) + 1 in
       let e1 := te_track_ref (te_with_t e (pushed t1 f)) index in
       te_with_t e1 (with_maps (te_t e1) (aset field_eqb f index (dt_fmap t1)) (aset bytes_eqb (fst f) index (dt_nmap t1))))
      (let index := v_inserted (dt_vas (te_t e)) + 1 in RInserted (index - te_base e - 1) index).

Lemma te_insert_cases e f :
  te_ok e -> te_base e <= v_inserted (dt_vas (te_t e)) ->
  exists e' r, te_insert e f = Ok (e', r) /\ insert_case e f e' r.
Proof.
  intros Hok Hb. unfold te_insert. rewrite cmp_gate.
  destruct (dt_bmax (te_t e) <=? dt_bcount (te_t e)).
  { destruct (te_find_name e (fst f)) as [e1 l] eqn:Ef. exists e1, (RNotInserted l). split; [reflexivity | constructor; assumption]. }
  destruct (dt_insert_spec (te_t e) f Hok) as [(t1 & n & Ei & Ecf & Eev & Hok1 & Hokp & G1 & G2 & G3 & G4 & G5 & G6 & G7 & G8 & G9 & G10 & Gm) | [Ei | [Ei _]]]; rewrite Ei.
  2:{ rewrite te_eta. destruct (te_find_name e (fst f)) as [e1 l] eqn:Ef. exists e1, (RNotInserted l). split; [reflexivity | constructor; assumption]. }
  2:{ destruct (te_find_name e (fst f)) as [e1 l] eqn:Ef. exists e1, (RNotInserted l). split; [reflexivity | constructor; assumption]. }
  set (index := v_inserted (dt_vas (te_t e)) + 1) in *.
  destruct (index <=? te_base e) eqn:Eb; [unfold index in Eb; lia|].
  change (dt_fmap (te_t (te_track_ref (te_with_t e (pushed t1 f)) index))) with (dt_fmap t1).
  change (dt_nmap (te_t (te_track_ref (te_with_t e (pushed t1 f)) index))) with (dt_nmap t1).
  destruct (dt_can_free_spec _ _ n Hok Ecf) as (Hn & _).
  assert (Hlt : forall ref, vas_live (dt_vas t1) ref -> (index <=? ref) = false).
  { intros ref [_ Hl]. unfold index. rewrite G9 in Hl. lia. }
  destruct (aget field_eqb f (dt_fmap t1)) as [ref|] eqn:Efm.
  - destruct (ok_fmap t1 Hok1 f ref Efm) as [Hl Hf]. rewrite (Hlt ref Hl).
    eexists _, _. split; [reflexivity|]. eapply IC_ins; try eassumption. apply IS_dup; assumption.
  - destruct (static_find_name (fst f)) as [si|] eqn:Esn.
    + eexists _, _. split; [reflexivity|]. eapply IC_ins; try eassumption. apply IS_static; assumption.
    + destruct (aget bytes_eqb (fst f) (dt_nmap t1)) as [ref|] eqn:Enm.
      * destruct (ok_nmap t1 Hok1 _ ref Enm) as [Hl (g & Hf & Hg)]. rewrite (Hlt ref Hl).
        eexists _, _. split; [reflexivity|]. eapply IC_ins; try eassumption. eapply IS_name; eassumption.
      * eexists _, _. split; [reflexivity|]. eapply IC_ins; try eassumption. apply IS_plain; assumption.
Qed.

(* ---------------------------------------------------------------- what a representation denotes *)
Definition rep_idx (base : N) (r : brep) : option N :=
  match r with
  | BIndexedDyn i | BLitDynName i _ => Some (base - i)
  | BIndexedPost i | BLitPostName i _ => Some (base + i + 1)
  | _ => None
  end.

Definition rep_den (H : list field) (base : N) (r : brep) (f : field) : Prop :=
  match r with
  | BIndexedStatic i => static_get i = Some f
  | BIndexedDyn i => i < base /\ nth_opt H (base - i - 1) = Some f
  | BIndexedPost i => nth_opt H (base + i) = Some f
  | BLitStaticName i v => exists g, static_get i = Some g /\ f = (fst g, v)
  | BLitDynName i v => i < base /\ exists g, nth_opt H (base - i - 1) = Some g /\ f = (fst g, v)
  | BLitPostName i v => exists g, nth_opt H (base + i) = Some g /\ f = (fst g, v)
  | BLiteral n v => f = (n, v)
  end.

Lemma rep_den_app H x base r f : rep_den H base r f -> rep_den (H ++ x) base r f.
Proof.
  destruct r; cbn [rep_den]; auto.
  - intros [A B]. split; [assumption | apply nth_opt_app_l; assumption].
  - apply nth_opt_app_l.
  - intros [A (g & B & C)]. split; [assumption|]. exists g. split; [apply nth_opt_app_l; assumption | assumption].
  - intros (g & B & C). exists g. split; [apply nth_opt_app_l; assumption | assumption].
Qed.

(* ---------------------------------------------------------------- the invariant carried through one encode call *)
Record enc_inv (H : list field) (tr0 : refs) (e : tenc) (required : N) : Prop := mk_enc_inv {
  ei_hist : hist_ok H (te_t e);
  ei_base : te_base e <= v_inserted (dt_vas (te_t e));
  ei_req : required <= v_inserted (dt_vas (te_t e)) /\ (required = 0 \/ 0 < cnt required (te_refs e));
  ei_refs_nd : nodup_keys (te_refs e);
  ei_refs_pos : forall a c, aget N.eqb a (te_refs e) = Some c -> 0 < c;
  ei_track : forall a, cnt a (dt_track (te_t e)) = cnt a tr0 + cnt a (te_refs e)
}.

Lemma cnt_pos_live t a : dt_ok t -> 0 < cnt a (dt_track t) -> vas_live (dt_vas t) a.
Proof.
  intros Hok. unfold cnt. destruct (aget N.eqb a (dt_track t)) as [c|] eqn:E; [|lia]. intros _.
  apply (ok_track t Hok a c E).
Qed.

Lemma enc_inv_track_ref H tr0 e required a :
  enc_inv H tr0 e required -> enc_inv H tr0 (te_track_ref e a) required.
Proof.
  intros I. destruct I. constructor; cbn [te_track_ref te_t te_base te_refs dt_track_ref with_track dt_vas dt_track].
  - assumption.
  - assumption.
  - destruct ei_req0 as [A B]. split; [assumption|]. destruct B as [B|B]; [left; assumption|right].
    destruct (N.eq_dec required a) as [->|Hne]; [rewrite cnt_refs_incr_same; lia | rewrite cnt_refs_incr_other; assumption].
  - apply refs_incr_nodup; assumption.
  - intros b c Hb. apply refs_incr_get in Hb. destruct Hb as [[_ Hc]|[_ Hb]]; [assumption | eapply ei_refs_pos0; eauto].
  - intros b. destruct (N.eq_dec b a) as [->|Hne].
    + rewrite !cnt_refs_incr_same, ei_track0. lia.
    + rewrite !cnt_refs_incr_other by assumption. apply ei_track0.
Qed.

Lemma enc_inv_required H tr0 e required a :
  te_ok e -> enc_inv H tr0 e required -> 0 < cnt a (te_refs e) -> enc_inv H tr0 e (N.max required a).
Proof.
  intros Hok I Ha. pose proof I as I0. destruct I. constructor; try assumption.
  assert (Hla : vas_live (dt_vas (te_t e)) a).
  { apply cnt_pos_live; [assumption|]. rewrite ei_track0. lia. }
  destruct ei_req0 as [A B]. destruct (N.max_spec required a) as [[_ ->]|[_ ->]].
  - split; [unfold vas_live in Hla; lia | right; assumption].
  - split; assumption.
Qed.

(* replacing the table by one with the same entries, index space and reference counts *)
Lemma enc_inv_same H tr0 e required t' :
  enc_inv H tr0 e required -> same_store (te_t e) t' -> dt_track t' = dt_track (te_t e) ->
  enc_inv H tr0 (te_with_t e t') required.
Proof.
  intros I Hs Ht. pose proof Hs as (A & B & C). destruct I. constructor; cbn [te_with_t te_t te_base te_refs]; rewrite ?C, ?Ht; try assumption.
  eapply hist_same_store; eassumption.
Qed.

(* frame facts of the encoder steps on everything dt_ok does not mention *)
Definition same_acct (t t' : dt) : Prop :=
  dt_blocks t' = dt_blocks t /\ dt_lkr t' = dt_lkr t /\ dt_bmax t' = dt_bmax t /\ dt_bcount t' = dt_bcount t /\
  dt_bstreams t' = dt_bstreams t /\ dt_max t' = dt_max t.

Lemma same_acct_refl t : same_acct t t. Proof. repeat split. Qed.
Lemma same_acct_trans a b c : same_acct a b -> same_acct b c -> same_acct a c.
Proof. intros (A1 & A2 & A3 & A4 & A5 & A6) (B1 & B2 & B3 & B4 & B5 & B6). repeat split; congruence. Qed.

(* a look-up result *)
Lemma lookup_den H tr0 e required a e' l :
  enc_inv H tr0 e required ->
  te_lookup_result e a = (e', l) ->
  enc_inv H tr0 e' required /\ te_base e' = te_base e /\ te_sid e' = te_sid e /\ same_acct (te_t e) (te_t e') /\
  same_store (te_t e) (te_t e') /\
  match l with
  | LRelative index absolute => a = Some absolute /\ absolute <= te_base e /\ index = te_base e - absolute /\ 0 < cnt absolute (te_refs e')
  | LPostBase index absolute => a = Some absolute /\ te_base e < absolute /\ index = absolute - te_base e - 1 /\ 0 < cnt absolute (te_refs e')
  | LNotFound => a = None
  | LStatic _ => False
  end.
Proof.
  intros I. unfold te_lookup_result. destruct a as [x|].
  - assert (Hc : 0 < cnt x (te_refs (te_track_ref e x))) by (cbn [te_track_ref te_refs]; rewrite cnt_refs_incr_same; lia).
    destruct (x <=? te_base e) eqn:E; intros Hr; inversion Hr; subst; clear Hr;
      (split; [apply enc_inv_track_ref; assumption|]); repeat (split; [reflexivity|]); repeat split; try reflexivity; try lia; assumption.
  - intros Hr; inversion Hr; subst. split; [assumption|]. repeat (split; [reflexivity|]). repeat split.
Qed.

Definition emit_ok (H' : list field) (base : N) (e' : tenc) (em : femit) (f : field) : Prop :=
  rep_den H' base (fe_rep em) f /\
  match rep_idx base (fe_rep em) with
  | Some a => fe_ref em = Some a /\ 1 <= a /\ 0 < cnt a (te_refs e')
  | None => fe_ref em = None
  end.

(* after an insertion: the new entry is H'[index-1], it is referenced, everything else is as before *)
Lemma enc_inv_inserted H tr0 e required f t1 n :
  te_ok e -> enc_inv H tr0 e required ->
  dt_fields t1 = skipn (N.to_nat n) (dt_fields (te_t e)) -> (N.to_nat n <= length (dt_fields (te_t e)))%nat ->
  dt_track t1 = dt_track (te_t e) ->
  v_inserted (dt_vas t1) = v_inserted (dt_vas (te_t e)) -> v_dropped (dt_vas t1) = v_dropped (dt_vas (te_t e)) + n ->
  let index := v_inserted (dt_vas (te_t e)) + 1 in
  let e1 := te_track_ref (te_with_t e (pushed t1 f)) index in
  enc_inv (H ++ [f]) tr0 e1 required /\ 0 < cnt index (te_refs e1) /\ nth_opt (H ++ [f]) (index - 1) = Some f.
Proof.
  intros Hok I G1 Hn G3 G9 G10 index e1. pose proof I as I0. destruct I.
  assert (Hh : hist_ok (H ++ [f]) (pushed t1 f)) by (eapply hist_pushed; eassumption).
  split; [|split].
  - apply enc_inv_track_ref. constructor; cbn [te_with_t te_t te_base te_refs]; try assumption.
    + unfold pushed, vas_add; cbn [with_store dt_vas v_inserted]. lia.
    + unfold pushed, vas_add; cbn [with_store dt_vas v_inserted]. destruct ei_req0. split; [lia | assumption].
    + unfold pushed; cbn [with_store dt_track]. rewrite G3. assumption.
  - cbn [e1 te_track_ref te_refs]. rewrite cnt_refs_incr_same. lia.
  - destruct ei_hist0 as [A _]. unfold index. rewrite A. replace (N.of_nat (length H) + 1 - 1) with (N.of_nat (length H)) by lia.
    apply nth_opt_app_last.
Qed.

Lemma enc_inv_maps H tr0 e required fm nm :
  enc_inv H tr0 e required -> enc_inv H tr0 (te_with_t e (with_maps (te_t e) fm nm)) required.
Proof. intros I. apply enc_inv_same; [assumption | repeat split | reflexivity]. Qed.

Lemma live_ge1 v a : vas_live v a -> 1 <= a.
Proof. unfold vas_live. lia. Qed.

(* Encoder::encode_field never fails, and what it emits denotes the field *)
Lemma encode_field_den H tr0 e required f :
  te_ok e -> enc_inv H tr0 e required ->
  exists e' em H', encode_field e f = Ok (e', em) /\ (exists x, H' = H ++ x) /\ te_ok e' /\
    enc_inv H' tr0 e' (match fe_ref em with Some a => N.max required a | None => required end) /\
    te_base e' = te_base e /\ te_sid e' = te_sid e /\ same_acct (te_t e) (te_t e') /\ emit_ok H' (te_base e) e' em f.
Proof.
  intros Hok I. unfold encode_field.
  destruct (static_find f) as [si|] eqn:Esf.
  { exists e, (mkEmit (BIndexedStatic si) None None), H. split; [reflexivity|]. split; [exists []; rewrite app_nil_r; reflexivity|].
    split; [assumption|]. split; [assumption|]. repeat (split; [reflexivity|]). split; [apply same_acct_refl|].
    split; [apply static_find_sound; assumption | reflexivity]. }
  destruct (te_find e f) as [e1 l] eqn:Ef.
  pose proof (te_find_ok _ _ _ _ Hok Ef) as Hok1.
  destruct (lookup_den H tr0 e required _ e1 l I Ef) as (I1 & Hb1 & Hs1 & Ha1 & Hst1 & Hl).
  assert (Hfm : forall x, aget field_eqb f (dt_fmap (te_t e)) = Some x -> vas_live (dt_vas (te_t e)) x /\ nth_opt H (x - 1) = Some f).
  { intros x Hx. destruct (ok_fmap _ Hok f x Hx) as [L F]. split; [assumption|].
    rewrite <- F. symmetry. apply hist_field_at; [apply (ei_hist _ _ _ _ I) | apply L]. }
  (* the insert path, shared by the three non-Relative look-up results *)
  assert (Kins : exists e' em H', match te_insert e1 f with
      | Ok (e2, r) => Ok (e2, match r with
                  | RDuplicated relative postbase absolute => mkEmit (BIndexedPost postbase) (Some (IDuplicate relative)) (Some absolute)
                  | RInserted postbase absolute => mkEmit (BIndexedPost postbase) (Some (IInsertLit (fst f) (snd f))) (Some absolute)
                  | RInsertedStaticNameRef postbase index absolute => mkEmit (BIndexedPost postbase) (Some (IInsertStatic index (snd f))) (Some absolute)
                  | RInsertedNameRef postbase relative absolute => mkEmit (BIndexedPost postbase) (Some (IInsertDyn relative (snd f))) (Some absolute)
                  | RNotInserted (LStatic index) => mkEmit (BLitStaticName index (snd f)) None None
                  | RNotInserted (LRelative index absolute) => mkEmit (BLitDynName index (snd f)) None (Some absolute)
                  | RNotInserted (LPostBase index absolute) => mkEmit (BLitPostName index (snd f)) None (Some absolute)
                  | RNotInserted LNotFound => mkEmit (BLiteral (fst f) (snd f)) None None
                  end)
      | Err er => Err er
      | Panic s => Panic s
      end = Ok (e', em) /\ (exists x, H' = H ++ x) /\ te_ok e' /\
      enc_inv H' tr0 e' (match fe_ref em with Some a => N.max required a | None => required end) /\
      te_base e' = te_base e /\ te_sid e' = te_sid e /\ same_acct (te_t e) (te_t e') /\ emit_ok H' (te_base e) e' em f).
  { destruct (te_insert_cases e1 f Hok1 (ei_base _ _ _ _ I1)) as (e2 & r & Ei & C). rewrite Ei.
    pose proof (te_insert_ok _ _ _ _ Hok1 Ei) as Hok2.
    destruct C as [e2 l2 Efn | t1 n e2 r Edi Hokt1 Hokp G1 Hn G2 G3 G4 G5 G6 G7 G8 G9 G10 Sh].
    - (* not inserted: a literal with or without a name reference *)
      unfold te_find_name in Efn. destruct (static_find_name (fst f)) as [sn|] eqn:Esn.
      + inversion Efn; subst. destruct (static_find_name_sound _ _ Esn) as (g & Eg & Hg).
        eexists _, _, H. split; [reflexivity|]. split; [exists []; rewrite app_nil_r; reflexivity|].
        split; [assumption|]. cbn [fe_ref]. split; [assumption|]. split; [assumption|]. split; [assumption|]. split; [assumption|].
        split; [|reflexivity]. cbn [fe_rep rep_den]. exists g. split; [assumption|]. rewrite Hg. destruct f; reflexivity.
      + destruct (lookup_den H tr0 e1 required _ e2 l2 I1 Efn) as (I2 & Hb2 & Hs2 & Ha2 & Hst2 & Hl2).
        assert (Hnm : forall x, aget bytes_eqb (fst f) (dt_nmap (te_t e1)) = Some x ->
                     vas_live (dt_vas (te_t e1)) x /\ exists g, nth_opt H (x - 1) = Some g /\ fst g = fst f).
        { intros x Hx. destruct (ok_nmap _ Hok1 _ x Hx) as [L (g & F & Hg)]. split; [assumption|]. exists g. split; [|assumption].
          rewrite <- F. symmetry. apply hist_field_at; [apply (ei_hist _ _ _ _ I1) | apply L]. }
        destruct l2 as [x|index absolute|index absolute|]; [contradiction| | |].
        * destruct Hl2 as (Ea & Hle & Hix & Hc). destruct (Hnm _ Ea) as [L (g & Hg & Hn')].
          eexists _, _, H. split; [reflexivity|]. split; [exists []; rewrite app_nil_r; reflexivity|].
          split; [assumption|]. cbn [fe_ref]. split; [apply enc_inv_required; assumption|].
          split; [congruence|]. split; [congruence|]. split; [eapply same_acct_trans; eassumption|].
          rewrite Hb1 in *. pose proof (live_ge1 _ _ L). split.
          -- cbn [fe_rep rep_den]. split; [lia|]. exists g. replace (te_base e - index - 1) with (absolute - 1) by lia.
             split; [assumption|]. rewrite Hn'. destruct f; reflexivity.
          -- cbn [fe_rep rep_idx fe_ref]. replace (te_base e - index) with absolute by lia. repeat split; assumption.
        * destruct Hl2 as (Ea & Hlt & Hix & Hc). destruct (Hnm _ Ea) as [L (g & Hg & Hn')].
          eexists _, _, H. split; [reflexivity|]. split; [exists []; rewrite app_nil_r; reflexivity|].
          split; [assumption|]. cbn [fe_ref]. split; [apply enc_inv_required; assumption|].
          split; [congruence|]. split; [congruence|]. split; [eapply same_acct_trans; eassumption|].
          rewrite Hb1 in *. pose proof (live_ge1 _ _ L). split.
          -- cbn [fe_rep rep_den]. exists g. replace (te_base e + index) with (absolute - 1) by lia.
             split; [assumption|]. rewrite Hn'. destruct f; reflexivity.
          -- cbn [fe_rep rep_idx fe_ref]. replace (te_base e + index + 1) with absolute by lia. repeat split; assumption.
        * eexists _, _, H. split; [reflexivity|]. split; [exists []; rewrite app_nil_r; reflexivity|].
          split; [assumption|]. cbn [fe_ref]. split; [assumption|].
          split; [congruence|]. split; [congruence|]. split; [eapply same_acct_trans; eassumption|].
          split; [cbn [fe_rep rep_den]; destruct f; reflexivity | reflexivity].
    - (* inserted *)
      destruct (enc_inv_inserted H tr0 e1 required f t1 n Hok1 I1 G1 Hn G3 G9 G10) as (Ie & Hci & Hnew).
      set (index := v_inserted (dt_vas (te_t e1)) + 1) in *.
      set (ep := te_track_ref (te_with_t e1 (pushed t1 f)) index) in *.
      assert (Hix : te_base e1 < index) by (pose proof (ei_base _ _ _ _ I1); unfold index; lia).
      assert (Hacct : same_acct (te_t e) (te_t ep)).
      { eapply same_acct_trans; [eassumption|]. unfold ep, pushed; cbn. repeat split; assumption. }
      assert (Hemit : forall e3 i, 0 < cnt index (te_refs e3) ->
                emit_ok (H ++ [f]) (te_base e) e3 (mkEmit (BIndexedPost (index - te_base e1 - 1)) i (Some index)) f).
      { intros e3 i Hc. rewrite Hb1 in *. split.
        - cbn [fe_rep rep_den]. replace (te_base e + (index - te_base e - 1)) with (index - 1) by lia. assumption.
        - cbn [fe_rep rep_idx fe_ref]. replace (te_base e + (index - te_base e - 1) + 1) with index by lia.
          repeat split; [lia | assumption]. }
      assert (Hreq : forall e3, te_ok e3 -> enc_inv (H ++ [f]) tr0 e3 required -> 0 < cnt index (te_refs e3) ->
                enc_inv (H ++ [f]) tr0 e3 (N.max required index)) by (intros; apply enc_inv_required; assumption).
      destruct Sh as [t1 ref Efm Hlr Hfr | t1 si Efm Esn | t1 ref g Efm Esn Enm Hlr Hfr Hgr | t1 Efm Esn Enm]; cbv zeta; fold index; fold ep.
      + eexists _, _, (H ++ [f]). split; [reflexivity|]. split; [exists [f]; reflexivity|]. split; [exact Hok2|].
        assert (Hc2 : 0 < cnt index (te_refs (te_track_ref (te_with_t ep (with_maps (te_t ep) (aset field_eqb f index (dt_fmap t1))
                     match aget bytes_eqb (fst f) (dt_nmap t1) with Some _ => aset bytes_eqb (fst f) index (dt_nmap t1) | None => dt_nmap t1 end)) ref))).
        { cbn [te_track_ref te_refs te_with_t]. destruct (N.eq_dec index ref) as [->|Hne];
            [rewrite cnt_refs_incr_same; lia | rewrite cnt_refs_incr_other by assumption; exact Hci]. }
        cbn [fe_ref]. split; [apply Hreq; [exact Hok2 | apply enc_inv_track_ref, enc_inv_maps; assumption | assumption]|].
        split; [exact Hb1|]. split; [exact Hs1|]. split; [exact Hacct|]. apply Hemit. assumption.
      + eexists _, _, (H ++ [f]). split; [reflexivity|]. split; [exists [f]; reflexivity|]. split; [exact Hok2|].
        cbn [fe_ref]. split; [apply Hreq; [exact Hok2 | apply enc_inv_maps; assumption | exact Hci]|].
        split; [exact Hb1|]. split; [exact Hs1|]. split; [exact Hacct|]. apply Hemit. exact Hci.
      + eexists _, _, (H ++ [f]). split; [reflexivity|]. split; [exists [f]; reflexivity|]. split; [exact Hok2|].
        assert (Hc2 : 0 < cnt index (te_refs (te_track_ref (te_with_t ep (with_maps (te_t ep) (aset field_eqb f index (dt_fmap t1))
                     (aset bytes_eqb (fst f) index (dt_nmap t1)))) ref))).
        { cbn [te_track_ref te_refs te_with_t]. destruct (N.eq_dec index ref) as [->|Hne];
            [rewrite cnt_refs_incr_same; lia | rewrite cnt_refs_incr_other by assumption; exact Hci]. }
        cbn [fe_ref]. split; [apply Hreq; [exact Hok2 | apply enc_inv_track_ref, enc_inv_maps; assumption | assumption]|].
        split; [exact Hb1|]. split; [exact Hs1|]. split; [exact Hacct|]. apply Hemit. assumption.
      + eexists _, _, (H ++ [f]). split; [reflexivity|]. split; [exists [f]; reflexivity|]. split; [exact Hok2|].
        cbn [fe_ref]. split; [apply Hreq; [exact Hok2 | apply enc_inv_maps; assumption | exact Hci]|].
        split; [exact Hb1|]. split; [exact Hs1|]. split; [exact Hacct|]. apply Hemit. exact Hci. }
  destruct l as [x|index absolute|index absolute|]; [contradiction | | exact Kins | exact Kins].
  destruct Hl as (Ea & Hle & Hix & Hc). destruct (Hfm _ Ea) as [L Hn].
  eexists _, _, H. split; [reflexivity|]. split; [exists []; rewrite app_nil_r; reflexivity|].
  split; [assumption|]. cbn [fe_ref]. split; [apply enc_inv_required; assumption|].
  split; [assumption|]. split; [assumption|]. split; [assumption|]. pose proof (live_ge1 _ _ L). split.
  - cbn [fe_rep rep_den]. split; [lia|]. replace (te_base e - index - 1) with (absolute - 1) by lia. assumption.
  - cbn [fe_rep rep_idx fe_ref]. replace (te_base e - index) with absolute by lia. repeat split; assumption.
Qed.

(* reference counts of the block under construction only grow *)
Definition refs_mono (e e' : tenc) : Prop := forall a, cnt a (te_refs e) <= cnt a (te_refs e').

Lemma cnt_refs_incr_mono r a m : cnt a m <= cnt a (refs_incr r m).
Proof. destruct (N.eq_dec a r) as [->|Hne]; [rewrite cnt_refs_incr_same; lia | rewrite cnt_refs_incr_other by assumption; lia]. Qed.

Lemma refs_mono_refl e : refs_mono e e. Proof. intros a; lia. Qed.
Lemma refs_mono_trans a b c : refs_mono a b -> refs_mono b c -> refs_mono a c.
Proof. intros H1 H2 x. specialize (H1 x). specialize (H2 x). lia. Qed.
Lemma refs_mono_track e r : refs_mono e (te_track_ref e r).
Proof. intros a. cbn [te_track_ref te_refs]. apply cnt_refs_incr_mono. Qed.

Lemma te_lookup_refs_mono e a e' l : te_lookup_result e a = (e', l) -> refs_mono e e'.
Proof.
  unfold te_lookup_result. destruct a as [x|]; [|intros H; inversion H; apply refs_mono_refl].
  destruct (x <=? te_base e); intros H; inversion H; apply refs_mono_track.
Qed.

Lemma te_find_name_refs_mono e n e' l : te_find_name e n = (e', l) -> refs_mono e e'.
Proof.
  unfold te_find_name. destruct (static_find_name n); [intros H; inversion H; apply refs_mono_refl | apply te_lookup_refs_mono].
Qed.

Lemma insert_case_refs_mono e f e' r : insert_case e f e' r -> refs_mono e e'.
Proof.
  intros C. destruct C as [e1 l Efn | t1 n e2 r Edi Hokt1 Hokp G1 Hn G2 G3 G4 G5 G6 G7 G8 G9 G10 Sh].
  - eapply te_find_name_refs_mono; eassumption.
  - destruct Sh; cbv zeta; intros a; cbn [te_track_ref te_with_t te_refs];
      repeat (etransitivity; [|apply cnt_refs_incr_mono]); lia.
Qed.

Lemma encode_field_refs_mono e f e' em :
  te_ok e -> te_base e <= v_inserted (dt_vas (te_t e)) -> encode_field e f = Ok (e', em) -> refs_mono e e'.
Proof.
  intros Hok Hb. unfold encode_field. destruct (static_find f); [intros H; inversion H; apply refs_mono_refl|].
  destruct (te_find e f) as [e1 l] eqn:Ef.
  pose proof (te_lookup_refs_mono _ _ _ _ Ef) as M1. pose proof (te_find_ok _ _ _ _ Hok Ef) as Hok1.
  assert (Hb1 : te_base e1 <= v_inserted (dt_vas (te_t e1))).
  { unfold te_find, te_lookup_result in Ef. destruct (aget field_eqb f (dt_fmap (te_t e))) as [x|]; [|inversion Ef; subst; assumption].
    destruct (x <=? te_base e); inversion Ef; subst; exact Hb. }
  assert (K : forall e2 r, te_insert e1 f = Ok (e2, r) -> refs_mono e e2).
  { intros e2 r Hi. destruct (te_insert_cases e1 f Hok1 Hb1) as (e2' & r' & Ei & C). rewrite Ei in Hi. inversion Hi; subst.
    eapply refs_mono_trans; [eassumption | eapply insert_case_refs_mono; eassumption]. }
  destruct l; try (intros H; inversion H; subst; assumption);
    destruct (te_insert e1 f) as [[e2 r]| |] eqn:Ei; try discriminate; intros H; inversion H; subst; eapply K; reflexivity.
Qed.

(* one field inserts at most one entry, and a new entry is the field's reference *)
Definition ins_step (e e' : tenc) (em : femit) : Prop :=
  v_inserted (dt_vas (te_t e')) = v_inserted (dt_vas (te_t e)) \/
  (v_inserted (dt_vas (te_t e')) = v_inserted (dt_vas (te_t e)) + 1 /\ fe_ref em = Some (v_inserted (dt_vas (te_t e)) + 1)).

Lemma encode_field_ins_step e f e' em :
  te_ok e -> te_base e <= v_inserted (dt_vas (te_t e)) -> encode_field e f = Ok (e', em) -> ins_step e e' em.
Proof.
  intros Hok Hb. unfold encode_field. destruct (static_find f); [intros H; inversion H; left; reflexivity|].
  destruct (te_find e f) as [e1 l] eqn:Ef.
  pose proof (te_find_store _ _ _ _ Ef) as (_ & _ & V1). pose proof (te_find_ok _ _ _ _ Hok Ef) as Hok1.
  assert (Hb1 : te_base e1 <= v_inserted (dt_vas (te_t e1))).
  { rewrite V1. unfold te_find, te_lookup_result in Ef. destruct (aget field_eqb f (dt_fmap (te_t e))) as [x|]; [|inversion Ef; subst; assumption].
    destruct (x <=? te_base e); inversion Ef; subst; exact Hb. }
  assert (K : forall e2 r, te_insert e1 f = Ok (e2, r) ->
     (v_inserted (dt_vas (te_t e2)) = v_inserted (dt_vas (te_t e)) /\ exists l2, r = RNotInserted l2) \/
     (v_inserted (dt_vas (te_t e2)) = v_inserted (dt_vas (te_t e)) + 1 /\
      match r with RInserted _ a | RDuplicated _ _ a | RInsertedNameRef _ _ a | RInsertedStaticNameRef _ _ a => a = v_inserted (dt_vas (te_t e)) + 1
                 | RNotInserted _ => False end)).
  { intros e2 r Hi. destruct (te_insert_cases e1 f Hok1 Hb1) as (e2' & r' & Ei & C). rewrite Ei in Hi. inversion Hi; subst. rewrite <- V1.
    destruct C as [e3 l3 Efn | t1 n e3 r3 Edi Hokt1 Hokp G1 Hn G2 G3 G4 G5 G6 G7 G8 G9 G10 Sh].
    - left. pose proof (te_find_name_store _ _ _ _ Efn) as (_ & _ & V). rewrite V. split; [reflexivity | eexists; reflexivity].
    - right. destruct Sh; cbv zeta; cbn [te_track_ref te_with_t te_t dt_track_ref with_track with_maps dt_vas pushed with_store vas_add v_inserted];
        rewrite G9; split; reflexivity. }
  destruct l; try (intros H; inversion H; subst; left; congruence);
    destruct (te_insert e1 f) as [[e2 r]| |] eqn:Ei; try discriminate; intros H; inversion H; subst;
    destruct (K _ _ eq_refl) as [[A (l2 & ->)] | [A B]]; try (left; exact A);
    right; (split; [exact A|]); destruct r; try contradiction; cbn [fe_ref]; congruence.
Qed.

(* ---------------------------------------------------------------- all fields of a section *)
Definition new_ok (ins0 : N) (e : tenc) (required : N) : Prop :=
  forall a, ins0 < a -> a <= v_inserted (dt_vas (te_t e)) -> 0 < cnt a (te_refs e) /\ a <= required.

Definition idx_ok (base : N) (reps : list brep) (e : tenc) (required : N) : Prop :=
  forall rep a, In rep reps -> rep_idx base rep = Some a -> 1 <= a /\ a <= required /\ 0 < cnt a (te_refs e).

Lemma Forall2_app_one {A B} (P : A -> B -> Prop) l1 l2 x y : Forall2 P l1 l2 -> P x y -> Forall2 P (l1 ++ [x]) (l2 ++ [y]).
Proof. intros H1 H2. apply Forall2_app; [assumption | constructor; [assumption | constructor]]. Qed.

Lemma Forall2_impl {A B} (P Q : A -> B -> Prop) l1 l2 : (forall x y, P x y -> Q x y) -> Forall2 P l1 l2 -> Forall2 Q l1 l2.
Proof. intros Hi H. induction H; constructor; auto. Qed.

Lemma encode_fields_den fs : forall H tr0 e required reps ins fs0 base ins0,
  te_ok e -> enc_inv H tr0 e required -> te_base e = base ->
  Forall2 (rep_den H base) reps fs0 -> idx_ok base reps e required -> new_ok ins0 e required ->
  exists e' required' reps' ins' H',
    encode_fields e fs required reps ins = (e', Ok (required', reps', ins')) /\ (exists x, H' = H ++ x) /\ te_ok e' /\
    enc_inv H' tr0 e' required' /\ te_base e' = base /\ te_sid e' = te_sid e /\ same_acct (te_t e) (te_t e') /\
    Forall2 (rep_den H' base) reps' (fs0 ++ fs) /\ idx_ok base reps' e' required' /\ new_ok ins0 e' required'.
Proof.
  induction fs as [|f r IH]; intros H tr0 e required reps ins fs0 base ins0 Hok I Hb F2 Ix Nw; cbn [encode_fields].
  - exists e, required, reps, ins, H. rewrite app_nil_r. split; [reflexivity|]. split; [exists []; rewrite app_nil_r; reflexivity|].
    repeat (split; [first [assumption | reflexivity | apply same_acct_refl]|]). assumption.
  - destruct (encode_field_den H tr0 e required f Hok I) as (e1 & em & H1 & Ef & (x & Hx) & Hok1 & I1 & Hb1 & Hs1 & Ha1 & [Hden Hidx]).
    pose proof (encode_field_refs_mono _ _ _ _ Hok (ei_base _ _ _ _ I) Ef) as M.
    pose proof (encode_field_ins_step _ _ _ _ Hok (ei_base _ _ _ _ I) Ef) as St.
    rewrite Ef. subst base.
    set (required1 := match fe_ref em with Some a => N.max required a | None => required end) in *.
    assert (Hreq : required <= required1) by (unfold required1; destruct (fe_ref em); lia).
    destruct (IH H1 tr0 e1 required1 (reps ++ [fe_rep em]) (match fe_instr em with Some i => ins ++ [i] | None => ins end) (fs0 ++ [f]) (te_base e) ins0)
      as (e' & required' & reps' & ins' & H' & E & (y & Hy) & Hok' & I' & Hb' & Hs' & Ha' & F2' & Ix' & Nw'); try assumption.
    + apply Forall2_app_one; [|assumption]. subst H1. eapply Forall2_impl; [|eassumption]. intros; apply rep_den_app; assumption.
    + intros rep a Hin Hr. apply in_app_or in Hin. destruct Hin as [Hin | [<- | []]].
      * destruct (Ix rep a Hin Hr) as (A & B & C). specialize (M a). repeat split; lia.
      * rewrite Hr in Hidx. destruct Hidx as (Eref & A & C). unfold required1. rewrite Eref. repeat split; [assumption | lia | assumption].
    + intros a Ha1' Ha2. destruct St as [St | [St Sr]].
      * rewrite St in Ha2. destruct (Nw a Ha1' Ha2) as [A B]. specialize (M a). split; lia.
      * destruct (N.eq_dec a (v_inserted (dt_vas (te_t e)) + 1)) as [->|Hne].
        -- unfold required1. rewrite Sr. split; [|lia].
           destruct (rep_idx (te_base e) (fe_rep em)) as [ix|]; [destruct Hidx as (Er & _ & C); rewrite Sr in Er; inversion Er; subst ix; exact C | congruence].
        -- destruct (Nw a Ha1' ltac:(lia)) as [A B]. specialize (M a). split; lia.
    + exists e', required', reps', ins', H'. split; [exact E|]. split; [exists (x ++ y); subst; rewrite app_assoc; reflexivity|].
      split; [assumption|]. split; [assumption|]. split; [assumption|]. split; [congruence|].
      split; [eapply same_acct_trans; eassumption|]. split; [rewrite <- app_assoc in F2'; exact F2' | split; assumption].
Qed.

(* ---------------------------------------------------------------- Encoder::encode as a whole *)
(* what a section denotes, against the insertion history *)
Definition sec_den (H : list field) (cap : N) (required : N) (b : hblock) (fs : list field) (rs : refs) : Prop :=
  exists base total,
    hp_new required base total cap = Ok (fst b) /\ required <= total /\ total <= N.of_nat (length H) /\ base <= total /\
    (0 < required -> 32 <= cap) /\
    Forall2 (rep_den H base) (snd b) fs /\
    (forall rep a, In rep (snd b) -> rep_idx base rep = Some a -> 1 <= a /\ a <= required /\ 0 < cnt a rs) /\
    (required = 0 \/ 0 < cnt required rs).

Lemma sec_den_app H x cap required b fs rs : sec_den H cap required b fs rs -> sec_den (H ++ x) cap required b fs rs.
Proof.
  intros (base & total & A & B & C & D & E & F & G & K). exists base, total.
  repeat (split; [first [assumption | rewrite app_length; lia]|]).
  split; [eapply Forall2_impl; [|eassumption]; intros; apply rep_den_app; assumption|]. split; assumption.
Qed.

Lemma dt_encoder_inv H t sid e :
  dt_ok t -> hist_ok H t -> dt_encoder t sid = Ok e -> enc_inv H (dt_track t) e 0.
Proof.
  intros Hok Hh He. destruct (dt_encoder_ok t sid Hok) as (e0 & E0 & _ & Hb & _ & Hr & Hf & _ & _ & Hv & Ht & _).
  rewrite E0 in He. inversion He; subst e0. constructor.
  - unfold hist_ok. rewrite Hf, Hv. assumption.
  - rewrite Hb, Hv. unfold vas_largest_ref. lia.
  - split; [lia | left; reflexivity].
  - rewrite Hr. constructor.
  - rewrite Hr. cbn [aget]. discriminate.
  - intros a. rewrite Hr, Ht. unfold cnt at 3. cbn [aget]. lia.
Qed.

Theorem enc_encode_spec t sid fs H d :
  dt_ok t -> hist_ok H t -> dt_ok d -> dt_track d = [] -> store_eq t d ->
  exists t' e H' d',
    enc_encode t sid fs = (t', Ok e) /\ (exists x, H' = H ++ x) /\ dt_ok t' /\ hist_ok H' t' /\ dt_max t' = dt_max t /\
    (* the emitted instructions replay on the decoder *)
    dec_apply d (en_instrs e) = (d', Ok tt) /\ dt_ok d' /\ dt_track d' = [] /\ store_eq t' d' /\
    (* the section denotes the field list, and its references are those of the committed block *)
    (exists rs, sec_den H' (dt_max t) (en_required e) (en_block e) fs rs /\ nodup_keys rs /\
                (forall a c, aget N.eqb a rs = Some c -> 0 < c) /\
                (forall a, cnt a (dt_track t') = cnt a (dt_track t) + cnt a rs) /\
                dt_blocks t' = dt_blocks (dt_track_block t sid rs) /\
                dt_lkr t' = dt_lkr t /\ dt_bmax t' = dt_bmax t /\
                (forall a, v_inserted (dt_vas t) < a -> a <= v_inserted (dt_vas t') -> 0 < cnt a rs /\ a <= en_required e)).
Proof.
  intros Hok Hh Hd Hu He. unfold enc_encode.
  destruct (dt_encoder_ok t sid Hok) as (e0 & E0 & Hok0 & Hb0 & Hs0 & Hr0 & Hf0 & Hc0 & Hm0 & Hv0 & Ht0 & Hbl0 & Hl0 & Hbm0 & Hbc0 & Hbs0).
  rewrite E0. pose proof (dt_encoder_inv H t sid e0 Hok Hh E0) as I0.
  destruct (encode_fields_den fs H (dt_track t) e0 0 [] [] [] (te_base e0) (v_inserted (dt_vas t)) Hok0 I0 eq_refl) as
    (e1 & required & reps & ins & H' & Ef & Hx & Hok1 & I1 & Hb1 & Hs1 & Ha1 & F2 & Ix & Nw); [constructor | intros rep a [] | intros a; rewrite Hv0; lia |].
  rewrite Ef. cbn [app] in F2.
  assert (He0 : store_eq (te_t e0) d).
  { destruct He as (A & B & C & D). unfold store_eq. rewrite Hf0, Hm0, Hv0. auto. }
  destruct (encode_fields_sim fs e0 0 [] [] e1 required reps ins d Hok0 Hd Hu He0 Ef) as (new & d' & En & Ea & Hd' & Hu' & He').
  cbn [app] in En. subst new.
  destruct Ha1 as (A1 & A2 & A3 & A4 & A5 & A6).
  destruct (ei_req _ _ _ _ I1) as [Hreq Hreq2].
  assert (Hcap : 0 < required -> 32 <= dt_max (te_t e1)).
  { intros Hpos. destruct Hreq2 as [->|Hc]; [lia|].
    assert (Hl : vas_live (dt_vas (te_t e1)) required).
    { apply cnt_pos_live; [assumption|]. rewrite (ei_track _ _ _ _ I1). lia. }
    pose proof (ok_cap _ Hok1). pose proof (ok_curr _ Hok1) as Hc1. pose proof (sum_sizes_ge (dt_fields (te_t e1))).
    pose proof (ok_delta _ Hok1). pose proof (ok_vas _ Hok1) as Hv1. unfold vas_live, vas_inv in *. lia. }
  destruct (hp_new required (te_base e1) (dt_total_inserted (te_t e1)) (dt_max (te_t e1))) as [p|[]|s] eqn:Ehp.
  2:{ exfalso. unfold hp_new in Ehp. destruct (dt_max (te_t e1) =? 0); [discriminate|]. destruct (required =? 0); [discriminate|].
      destruct (dt_total_inserted (te_t e1) <? required); [discriminate|].
      destruct (te_base e1 <? required); destruct (q_eic_mul * (dt_max (te_t e1) / q_max_entries_div_new) =? 0); discriminate. }
  2:{ exfalso. apply hp_new_panics_only_when in Ehp. unfold dt_total_inserted, vas_total_inserted in Ehp. specialize (Hcap ltac:(lia)). lia. }
  exists (te_commit e1 required), (mkEncoded required (p, reps) ins), H', d'.
  split; [reflexivity|]. split; [assumption|]. split; [apply te_commit_ok; assumption|].
  assert (Hcommit_store : same_store (te_t e1) (te_commit e1 required)).
  { unfold te_commit, dt_register_blocked, dt_track_block.
    destruct (cmp_eval q_register_blocked_cmp required _); destruct (aget N.eqb (te_sid e1) (dt_blocks (te_t e1))); repeat split. }
  split; [eapply hist_same_store; [eassumption | apply (ei_hist _ _ _ _ I1)]|].
  split; [destruct Hcommit_store as (_ & B & _); rewrite B, A6, Hm0; reflexivity|].
  cbn [en_instrs en_required en_block]. split; [assumption|]. split; [assumption|]. split; [assumption|].
  split; [eapply same_store_eq; [eassumption | assumption]|].
  exists (te_refs e1). split.
  - exists (te_base e1), (dt_total_inserted (te_t e1)). cbn [fst snd].
    rewrite <- Hm0, <- A6. split; [assumption|]. unfold dt_total_inserted, vas_total_inserted.
    split; [assumption|]. split; [destruct (ei_hist _ _ _ _ I1) as [Hl _]; lia|].
    split; [apply (ei_base _ _ _ _ I1)|]. split; [assumption|]. rewrite Hb1 in *. split; [assumption|]. split; assumption.
  - split; [apply (ei_refs_nd _ _ _ _ I1)|]. split; [apply (ei_refs_pos _ _ _ _ I1)|].
    assert (Htr : dt_track (te_commit e1 required) = dt_track (te_t e1)).
    { unfold te_commit, dt_register_blocked, dt_track_block.
      destruct (cmp_eval q_register_blocked_cmp required _); destruct (aget N.eqb (te_sid e1) (dt_blocks (te_t e1))); reflexivity. }
    split; [intros a; rewrite Htr; apply (ei_track _ _ _ _ I1)|].
    assert (Hlk : forall t0 l, dt_blocks (dt_register_blocked t0 l) = dt_blocks t0 /\ dt_lkr (dt_register_blocked t0 l) = dt_lkr t0 /\
                   dt_bmax (dt_register_blocked t0 l) = dt_bmax t0).
    { intros t0 l. unfold dt_register_blocked. destruct (cmp_eval q_register_blocked_cmp l (dt_lkr t0)); repeat split. }
    assert (Hnewent : forall a, v_inserted (dt_vas t) < a -> a <= v_inserted (dt_vas (te_commit e1 required)) -> 0 < cnt a (te_refs e1) /\ a <= required).
    { intros a Ha1' Ha2. apply Nw; [assumption|]. destruct Hcommit_store as (_ & _ & C). rewrite <- C. exact Ha2. }
    assert (Hrest : dt_blocks (te_commit e1 required) = dt_blocks (dt_track_block t sid (te_refs e1)) /\
                    dt_lkr (te_commit e1 required) = dt_lkr t /\ dt_bmax (te_commit e1 required) = dt_bmax t).
    { unfold te_commit. destruct (Hlk (dt_track_block (te_t e1) (te_sid e1) (te_refs e1)) required) as (L1 & L2 & L3).
      rewrite L1, L2, L3. unfold dt_track_block. rewrite A1, Hbl0, Hs1, Hs0.
      destruct (aget N.eqb sid (dt_blocks t)); cbn [with_blocks dt_blocks dt_lkr dt_bmax]; repeat split; congruence. }
    destruct Hrest as (X1 & X2 & X3). split; [exact X1|]. split; [exact X2|]. split; [exact X3 | exact Hnewent].
Qed.
