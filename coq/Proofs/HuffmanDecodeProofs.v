(* C15: the Huffman decoder model (decode.rs) against RFC 7541 5.2. *)
From H3V Require Import Base.Bytes Base.BytesLemmas Gen.GenHuffDec Gen.GenBitwin Gen.GenHuffIter
  Spec.RFC7541Huffman Spec.HuffmanKnown Model.Huffman
  Proofs.C15Finite Proofs.BitsLemmas Proofs.HuffmanWalk Proofs.HuffmanStrict.
From Coq Require Import ZifyBool ZifyNat ZifyN.
Ltac Zify.zify_post_hook ::= Z.div_mod_to_equations.

(* ================================================================ list helpers *)

Lemma firstn_skipn_app_l {A} (X Y : list A) o c : (o + c <= length X)%nat ->
  firstn c (skipn o (X ++ Y)) = firstn c (skipn o X).
Proof.
  intros H. rewrite skipn_app, firstn_app, skipn_length.
  replace (c - (length X - o))%nat with 0%nat by lia. cbn [firstn]. apply app_nil_r.
Qed.

Lemma skipn_split_at {A} (l : list A) n x r : skipn n l = x :: r ->
  l = firstn n l ++ x :: r /\ length (firstn n l) = n.
Proof.
  intros H. split.
  - rewrite <- H. symmetry. apply firstn_skipn.
  - rewrite firstn_length. assert (n < length l)%nat; [|lia].
    destruct (Nat.lt_ge_cases n (length l)) as [Hlt|Hge]; [assumption|].
    rewrite skipn_all2 in H by assumption. discriminate.
Qed.

Lemma nth_n_some (l : bytes) i : i < len l -> exists x, nth_n l i = Some x.
Proof. unfold nth_n, len. intros H. apply nth_error_lt_some. lia. Qed.

(* ================================================================ read_bits *)

(* one octet: reading c bits at bit offset o *)
Definition read1_ok (o c b : N) : bool :=
  negb (o + c <=? 8) ||
  (N.shiftr (N.shiftl b o mod 256) (8 - c) =?
   bits_val 0 (firstn (N.to_nat c) (skipn (N.to_nat o) (bits_msb 8 b)))).

Lemma read1_check :
  forall_below 8 (fun o => forall_range 1 8 (fun c => forall_below 256 (read1_ok o c))) = true.
Proof. vm_compute. reflexivity. Qed.

Lemma read1_fact o c b : o < 8 -> 1 <= c -> o + c <= 8 -> b < 256 ->
  N.shiftr (N.shiftl b o mod 256) (8 - c) =
  bits_val 0 (firstn (N.to_nat c) (skipn (N.to_nat o) (bits_msb 8 b))).
Proof.
  intros Ho Hc Hoc Hb.
  pose proof (forall_below_spec 8 _ read1_check o Ho) as H1. cbv beta in H1.
  pose proof (forall_range_spec 1 8 _ H1 c ltac:(lia) ltac:(lia)) as H2. cbv beta in H2.
  pose proof (forall_below_spec 256 _ H2 b Hb) as H3. unfold read1_ok in H3.
  apply orb_true_iff in H3 as [H3|H3]; [|apply N.eqb_eq in H3; exact H3].
  apply negb_true_iff in H3. lia.
Qed.

(* two octets: the window spans both.  Arithmetic form first (per offset/width pair, by lia). *)
Lemma land_low_high a t k : a < 2 ^ k -> N.land (t * 2 ^ k) a = 0.
Proof.
  intros Ha. apply N.bits_inj. intros n. rewrite N.land_spec, N.bits_0.
  destruct (N.ltb_spec n k) as [Hn|Hn].
  - rewrite N.mul_pow2_bits_low by assumption. reflexivity.
  - replace (N.testbit a n) with false; [apply andb_false_r|].
    symmetry. destruct (N.eq_dec a 0) as [->|Hz]; [apply N.bits_0|].
    apply N.bits_above_log2. apply N.log2_lt_pow2 in Ha; lia.
Qed.

Lemma lor_disjoint a t k : a < 2 ^ k -> N.lor (t * 2 ^ k) a = t * 2 ^ k + a.
Proof.
  intros Ha. pose proof (land_low_high a t k Ha) as H0.
  rewrite <- N.lxor_lor by assumption.
  symmetry. apply N.add_nocarry_lxor. assumption.
Qed.

Lemma read2_arith o c b0 b1 : o < 8 -> 1 <= c <= 8 -> 8 < o + c -> b0 < 256 -> b1 < 256 ->
  N.shiftr (N.shiftl (N.lor (N.shiftl b0 8) b1) o mod 65536) (16 - c) mod 256 =
  (b0 mod 2 ^ (8 - o)) * 2 ^ (o + c - 8) + b1 / 2 ^ (16 - o - c).
Proof.
  intros Ho Hc Hoc Hb0 Hb1.
  rewrite (N.shiftl_mul_pow2 b0 8), lor_disjoint by (change (2 ^ 8) with 256; lia).
  change (2 ^ 8) with 256.
  rewrite N.shiftr_div_pow2, N.shiftl_mul_pow2.
  set (P := 2 ^ (8 - o)). set (Q := 2 ^ o). set (D := 2 ^ (16 - o - c)). set (M := 2 ^ (o + c - 8)).
  assert (HPQ : P * Q = 256).
  { unfold P, Q. rewrite <- N.pow_add_r. replace (8 - o + o) with 8 by lia. reflexivity. }
  assert (HMD : M * D = 256).
  { unfold M, D. rewrite <- N.pow_add_r. replace (o + c - 8 + (16 - o - c)) with 8 by lia. reflexivity. }
  assert (HPM : P * M <= 256).
  { unfold P, M. rewrite <- N.pow_add_r. replace (8 - o + (o + c - 8)) with c by lia.
    change 256 with (2 ^ 8). apply N.pow_le_mono_r; lia. }
  assert (HDQ : 2 ^ (16 - c) = D * Q).
  { unfold D, Q. rewrite <- N.pow_add_r. f_equal. lia. }
  assert (HP0 : 0 < P) by (apply N.neq_0_lt_0, N.pow_nonzero; lia).
  assert (HQ0 : 0 < Q) by (apply N.neq_0_lt_0, N.pow_nonzero; lia).
  assert (HD0 : 0 < D) by (apply N.neq_0_lt_0, N.pow_nonzero; lia).
  assert (HM0 : 0 < M) by (apply N.neq_0_lt_0, N.pow_nonzero; lia).
  clearbody P Q D M.
  rewrite HDQ. replace 65536 with (P * 256 * Q) by nia.
  rewrite N.mul_mod_distr_r by nia.
  rewrite N.div_mul_cancel_r by lia.
  set (r := b0 mod P).
  assert (Hr : r < P) by (apply N.mod_upper_bound; lia).
  assert (Hw : (b0 * 256 + b1) mod (P * 256) = r * 256 + b1).
  { symmetry. apply N.mod_unique with (b0 / P); [nia|].
    pose proof (N.div_mod b0 P ltac:(lia)) as Hdm. fold r in Hdm. nia. }
  rewrite Hw.
  replace (r * 256) with (r * M * D) by (rewrite <- HMD; lia).
  rewrite N.div_add_l by lia.
  assert (Hq : b1 / D < M).
  { apply N.div_lt_upper_bound; [lia|]. rewrite (N.mul_comm D M), HMD. exact Hb1. }
  apply N.mod_small.
  assert (Hle : (r + 1) * M <= P * M) by (apply N.mul_le_mono_r; lia).
  lia.
Qed.

Definition tail1_ok (o b : N) : bool :=
  bits_val 0 (skipn (N.to_nat o) (bits_msb 8 b)) =? b mod 2 ^ (8 - o).
Lemma tail1_check : forall_below 9 (fun o => forall_below 256 (tail1_ok o)) = true.
Proof. vm_compute. reflexivity. Qed.
Definition head1_ok (k b : N) : bool :=
  bits_val 0 (firstn (N.to_nat k) (bits_msb 8 b)) =? b / 2 ^ (8 - k).
Lemma head1_check : forall_below 9 (fun k => forall_below 256 (head1_ok k)) = true.
Proof. vm_compute. reflexivity. Qed.

Lemma tail1_fact o b : o <= 8 -> b < 256 ->
  bits_val 0 (skipn (N.to_nat o) (bits_msb 8 b)) = b mod 2 ^ (8 - o).
Proof.
  intros Ho Hb. pose proof (forall_below_spec 9 _ tail1_check o ltac:(lia)) as H1. cbv beta in H1.
  pose proof (forall_below_spec 256 _ H1 b Hb) as H2. apply N.eqb_eq in H2. exact H2.
Qed.
Lemma head1_fact k b : k <= 8 -> b < 256 ->
  bits_val 0 (firstn (N.to_nat k) (bits_msb 8 b)) = b / 2 ^ (8 - k).
Proof.
  intros Hk Hb. pose proof (forall_below_spec 9 _ head1_check k ltac:(lia)) as H1. cbv beta in H1.
  pose proof (forall_below_spec 256 _ H1 b Hb) as H2. apply N.eqb_eq in H2. exact H2.
Qed.

Lemma read2_fact o c b0 b1 : o < 8 -> 1 <= c <= 8 -> 8 < o + c -> b0 < 256 -> b1 < 256 ->
  N.shiftr (N.shiftl (N.lor (N.shiftl b0 8) b1) o mod 65536) (16 - c) mod 256 =
  bits_val 0 (firstn (N.to_nat c) (skipn (N.to_nat o) (bits_msb 8 b0 ++ bits_msb 8 b1))).
Proof.
  intros Ho Hc Hoc Hb0 Hb1. rewrite read2_arith by assumption.
  rewrite skipn_app, bits_msb_length. replace (N.to_nat o - 8)%nat with 0%nat by lia. cbn [skipn].
  rewrite firstn_app, skipn_length, bits_msb_length.
  rewrite (firstn_all2 (n := N.to_nat c)) by (rewrite skipn_length, bits_msb_length; lia).
  rewrite bits_val_app, firstn_length, bits_msb_length.
  replace (N.to_nat c - (8 - N.to_nat o))%nat with (N.to_nat (o + c - 8)) by lia.
  rewrite tail1_fact, head1_fact by lia.
  replace (N.of_nat (Nat.min (N.to_nat (o + c - 8)) 8)) with (o + c - 8) by lia.
  replace (8 - (o + c - 8)) with (16 - o - c) by lia. reflexivity.
Qed.

(* bit position of a window start, as nat *)
Definition bitpos (byte bit : N) : nat := N.to_nat (8 * byte + bit).

Lemma read_bits_ok src byte bit c : wf_bytes src -> fits_u32 src -> bit < 8 -> 1 <= c <= 8 ->
  (bitpos byte bit + N.to_nat c <= 8 * length src)%nat ->
  read_bits src byte bit c =
  Ok (bits_val 0 (firstn (N.to_nat c) (skipn (bitpos byte bit) (bits_of_bytes src)))).
Proof.
  intros Hwf Hsz Hbit Hc Hin. unfold read_bits, bitpos, fits_u32, bw_read_bits_width in *.
  change (2 ^ 32) with 4294967296 in *.
  destruct (N.eqb_spec c 0) as [?|_]; [lia|].
  destruct (N.ltb_spec 8 c) as [?|_]; [lia|].
  cbn [orb].
  rewrite (N.mod_small (len src)) by lia.
  destruct (N.leb_spec 4294967296 (len src * 8)) as [?|_]; [lia|].
  destruct (N.leb_spec 4294967296 (byte * 8 + bit + c)) as [Hc3|_]; [unfold len in *; lia|].
  destruct (N.ltb_spec (len src * 8) (byte * 8 + bit + c)) as [Hc2|_]; [unfold len in Hc2; lia|].
  replace (bit / 8) with 0 by lia. rewrite N.add_0_r.
  replace (bit - 0 * 8) with bit by lia.
  assert (Hb : byte < len src) by (unfold len; lia).
  destruct (nth_n_some src byte Hb) as [b0 Hb0]. rewrite Hb0.
  unfold nth_n in Hb0. destruct (nth_error_split_at _ _ _ Hb0) as [Hsplit Hlen].
  remember (firstn (N.to_nat byte) src) as pre eqn:Epre.
  remember (skipn (S (N.to_nat byte)) src) as post eqn:Epost.
  clear Epre Epost Hb0. subst src.
  apply wf_bytes_app in Hwf as [_ Hwf']. apply wf_bytes_cons in Hwf' as [Hb0lt Hpost].
  rewrite app_length in Hin. cbn [length] in Hin.
  replace (N.to_nat (8 * byte + bit)) with (8 * length pre + N.to_nat bit)%nat by lia.
  rewrite <- skipn_skipn'.
  rewrite skipn_bits_of_bytes, bits_of_bytes_cons.
  destruct (N.leb_spec (bit + c) 8) as [Hone|Htwo].
  - destruct (N.leb_spec 8 bit) as [?|_]; [lia|]. destruct (N.leb_spec 8 (8 - c)) as [?|_]; [lia|]. cbn [orb].
    f_equal. rewrite firstn_skipn_app_l by (rewrite bits_msb_length; lia).
    apply read1_fact; lia.
  - destruct post as [|b1 post'].
    { cbn [length] in Hin. lia. }
    apply wf_bytes_cons in Hpost as [Hb1lt _].
    assert (Hn1 : nth_n (pre ++ b0 :: b1 :: post') (byte + 1) = Some b1).
    { unfold nth_n. rewrite nth_error_app2 by lia.
      replace (N.to_nat (byte + 1) - length pre)%nat with 1%nat by lia. reflexivity. }
    rewrite Hn1.
    destruct (N.leb_spec 16 bit) as [?|_]; [lia|]. destruct (N.leb_spec 16 (16 - c)) as [?|_]; [lia|]. cbn [orb].
    f_equal.
    rewrite bits_of_bytes_cons, app_assoc.
    rewrite firstn_skipn_app_l by (rewrite app_length, !bits_msb_length; lia).
    apply read2_fact; lia.
Qed.

Lemma read_bits_short src byte bit c : fits_u32 src -> c <= 8 ->
  (bitpos byte bit <= 8 * length src)%nat ->
  (8 * length src < bitpos byte bit + N.to_nat c)%nat -> read_bits src byte bit c = Err tt.
Proof.
  intros Hsz Hc8 Hlo H. unfold read_bits, bitpos, fits_u32, bw_read_bits_width in *.
  change (2 ^ 32) with 4294967296 in *.
  destruct ((c =? 0) || (8 <? c)); [reflexivity|].
  rewrite (N.mod_small (len src)) by lia.
  destruct (N.leb_spec 4294967296 (len src * 8)) as [?|_]; [lia|].
  destruct (N.leb_spec 4294967296 (byte * 8 + bit + c)) as [Hc3|_]; [unfold len in *; lia|].
  destruct (N.ltb_spec (len src * 8) (byte * 8 + bit + c)) as [_|Hc]; [reflexivity|unfold len in Hc; lia].
Qed.

(* ================================================================ check_padding *)

Definition pad1_ok (o b : N) : bool :=
  Bool.eqb (N.land b (N.shiftr 255 o) =? N.shiftr 255 o)
           (all_ones (skipn (N.to_nat o) (bits_msb 8 b))).

Lemma pad1_check : forall_below 8 (fun o => forall_below 256 (pad1_ok o)) = true.
Proof. vm_compute. reflexivity. Qed.

Lemma pad1_fact o b : o < 8 -> b < 256 ->
  (N.land b (N.shiftr 255 o) =? N.shiftr 255 o) = all_ones (skipn (N.to_nat o) (bits_msb 8 b)).
Proof.
  intros Ho Hb.
  pose proof (forall_below_spec 8 _ pad1_check o Ho) as H1. cbv beta in H1.
  pose proof (forall_below_spec 256 _ H1 b Hb) as H2. apply Bool.eqb_prop in H2. exact H2.
Qed.

Lemma all_bytes_ff_spec r : wf_bytes r -> all_bytes_ff r = all_ones (bits_of_bytes r).
Proof.
  induction r as [|b r IH]; intros Hwf; [reflexivity|].
  apply wf_bytes_cons in Hwf as [Hb Hr].
  cbn [all_bytes_ff]. unfold hi_cp_filler_rest. rewrite bits_of_bytes_cons, all_ones_app, IH by assumption. f_equal.
  pose proof (pad1_fact 0 b ltac:(lia) Hb) as H. exact H.
Qed.

Lemma check_padding_spec e input : wf_bytes input -> (N.to_nat e <= 8 * length input)%nat ->
  check_padding e input = Ok (all_ones (skipn (N.to_nat e) (bits_of_bytes input))).
Proof.
  intros Hwf He. unfold check_padding, hi_cp_div, hi_cp_mod, hi_cp_filler_first.
  destruct (skipn (N.to_nat (e / 8)) input) as [|b r] eqn:Hsk.
  - assert (Hlen : (length input <= N.to_nat (e / 8))%nat).
    { destruct (Nat.le_gt_cases (length input) (N.to_nat (e / 8))) as [|Hgt]; [assumption|].
      apply (f_equal (@length N)) in Hsk. rewrite skipn_length in Hsk. cbn in Hsk. lia. }
    rewrite skipn_all2; [reflexivity|]. rewrite bits_of_bytes_length. lia.
  - destruct (N.leb_spec 8 (e mod 8)) as [?|_]; [lia|]. f_equal.
    destruct (skipn_split_at _ _ _ _ Hsk) as [Hsplit Hlen].
    remember (firstn (N.to_nat (e / 8)) input) as pre eqn:Epre.
    clear Epre Hsk. subst input.
    apply wf_bytes_app in Hwf as [_ Hwf']. apply wf_bytes_cons in Hwf' as [Hb Hr].
    replace (N.to_nat e) with (8 * length pre + N.to_nat (e mod 8))%nat by lia.
    rewrite <- skipn_skipn'.
    rewrite skipn_bits_of_bytes, bits_of_bytes_cons.
    rewrite skipn_app, bits_msb_length.
    replace (N.to_nat (e mod 8) - 8)%nat with 0%nat by lia. cbn [skipn].
    rewrite all_ones_app, all_bytes_ff_spec by assumption. f_equal.
    apply pad1_fact; lia.
Qed.

(* ================================================================ windows *)

Definition pos_end (w : bitwin) : nat := N.to_nat (8 * bw_byte w + bw_bit w + bw_count w).

Lemma forwards_facts step w :
  bw_bit (forwards step w) < 8 /\
  bitpos (bw_byte (forwards step w)) (bw_bit (forwards step w)) = pos_end w /\
  bw_count (forwards step w) = step /\
  pos_end (forwards step w) = (pos_end w + N.to_nat step)%nat.
Proof.
  unfold forwards, pos_end, bitpos, bw_bits_per_byte. cbn [bw_byte bw_bit bw_count]. repeat split; lia.
Qed.

(* the field updates of `forwards` stay inside their u32 fields as long as the position does *)
Lemma forwards_chk_ok step w : N.of_nat (pos_end w) < 2 ^ 32 -> forwards_chk step w = Some (forwards step w).
Proof.
  unfold forwards_chk, pos_end, bw_bit_width, bw_byte_width, bw_bits_per_byte.
  change (2 ^ 32) with 4294967296. intros H.
  destruct (N.leb_spec 4294967296 (bw_bit w + bw_count w)); [lia|].
  destruct (N.leb_spec 4294967296 (bw_byte w + (bw_bit w + bw_count w) / 8)); [lia|]. reflexivity.
Qed.

(* ================================================================ check_eof *)

Definition eof_ok (bit : N) : bool :=
  let k := 8 - bit in
  (1 <=? N.shiftl 2 (k - 1) mod 65536) &&
  ((N.shiftl 2 (k - 1) mod 65536 - 1) mod 256 =? 2 ^ k - 1) &&
  (bits_val 0 (repeat true (N.to_nat k)) =? 2 ^ k - 1) &&
  (N.land (2 ^ k - 1) (2 ^ k - 1) =? 2 ^ k - 1).

Lemma eof_check : forall_below 8 eof_ok = true.
Proof. vm_compute. reflexivity. Qed.

Lemma check_eof_spec w input : wf_bytes input -> fits_u32 input -> bw_bit w < 8 -> bw_count w <= 8 ->
  (bitpos (bw_byte w) (bw_bit w) <= 8 * length input)%nat ->
  (8 * length input < bitpos (bw_byte w) (bw_bit w) + N.to_nat (bw_count w))%nat ->
  (check_eof w input = Ok None \/ check_eof w input = Err MissingBits) /\
  (all_ones (skipn (bitpos (bw_byte w) (bw_bit w)) (bits_of_bytes input)) = true -> check_eof w input = Ok None).
Proof.
  intros Hwf Hsz Hbit Hcnt Hlo Hhi. unfold check_eof.
  destruct (N.leb_spec (2 ^ bw_byte_width) (bw_byte w + 1)) as [Hov|_].
  { unfold bw_byte_width, fits_u32, bitpos, len in *. change (2 ^ 32) with 4294967296 in *. lia. }
  destruct (N.compare_spec (bw_byte w + 1) (len input)) as [Heq|Hlt|Hgt].
  - (* on the last byte *)
    unfold opposite_bit_window, bw_bits_per_byte. cbn [bw_byte bw_bit bw_count].
    replace (bw_bit w mod 8) with (bw_bit w) by lia.
    assert (Hk : 1 <= 8 - bw_bit w <= 8) by lia.
    rewrite read_bits_ok; [|assumption|assumption|assumption|lia|unfold bitpos, len in *; lia].
    unfold hi_eof_sub1, hi_eof_sub2, hi_eof_base.
    destruct (N.ltb_spec (8 - bw_bit w) 1) as [?|_]; [lia|].
    destruct (N.leb_spec 16 (8 - bw_bit w - 1)) as [?|_]; [lia|].
    pose proof (forall_below_spec 8 _ eof_check (bw_bit w) Hbit) as E. unfold eof_ok in E.
    apply andb_true_iff in E as [E E3]. apply andb_true_iff in E as [E E2]. apply andb_true_iff in E as [E0 E1].
    apply N.leb_le in E0. apply N.eqb_eq in E1, E2, E3.
    destruct (N.ltb_spec (N.shiftl 2 (8 - bw_bit w - 1) mod 65536) 1) as [?|_]; [lia|].
    rewrite E1.
    split.
    + destruct (N.land _ _ =? _); auto.
    + intros Hones.
      assert (Hlen : length (skipn (bitpos (bw_byte w) (bw_bit w)) (bits_of_bytes input)) = N.to_nat (8 - bw_bit w)).
      { rewrite skipn_length, bits_of_bytes_length. unfold bitpos, len in *. lia. }
      rewrite firstn_all2 by lia.
      rewrite (all_ones_eq_repeat _ Hones), Hlen, E2, E3, N.eqb_refl. reflexivity.
  - (* at least one more whole byte: impossible when at most 8 bits were asked for *)
    unfold bitpos, len in *. lia.
  - split; auto.
Qed.

(* ================================================================ decode_next against twalk *)

Definition dn_spec (r : wres) (out : res huff_err (option (N * bitwin))) (bits : bits) (from : nat) (input : bytes) : Prop :=
  match r with
  | WFound x rest =>
      exists w', out = Ok (Some (x, w')) /\ bw_bit w' < 8 /\ (pos_end w' <= 8 * length input)%nat /\
                 rest = skipn (pos_end w') bits
  | WUnhandled => out = Err Unhandled
  | WRunOut => (out = Ok None \/ out = Err MissingBits) /\ (all_ones (skipn from bits) = true -> out = Ok None)
  end.

Lemma dn_spec_weaken r out bits from from' input : (from <= from')%nat ->
  dn_spec r out bits from' input -> dn_spec r out bits from input.
Proof.
  intros Hle H. destruct r; cbn [dn_spec] in *; auto.
  destruct H as [H1 H2]. split; [assumption|]. intros Hones. apply H2.
  replace from' with (from + (from' - from))%nat by lia. rewrite <- skipn_skipn'.
  apply all_ones_skipn. exact Hones.
Qed.

Lemma decode_next_twalk d :
  forall w input, wf_bytes input -> fits_u32 input -> lookups_ok d = true -> (pos_end w <= 8 * length input)%nat ->
    dn_spec (twalk d (skipn (pos_end w) (bits_of_bytes input))) (decode_next d w input)
            (bits_of_bytes input) (pos_end w) input.
Proof.
  induction d as [lookup table IHt | | b t IHt | d' IHd t IHt ] using dnode_mut with
    (P0 := fun t => forall i w input, wf_bytes input -> fits_u32 input -> lookups_ok_l t = true -> bw_bit w < 8 ->
             (pos_end w <= 8 * length input)%nat ->
             dn_spec (tpick t i (skipn (pos_end w) (bits_of_bytes input))) (pick t i w input)
                     (bits_of_bytes input) (pos_end w) input).
  - (* DNode *)
    intros w input Hwf Hsz Hok Hpos. cbn [lookups_ok] in Hok.
    apply andb_true_iff in Hok as [Hok Hokt]. apply andb_true_iff in Hok as [Hl1 Hl8].
    apply N.leb_le in Hl1, Hl8.
    cbn [twalk decode_next].
    rewrite forwards_chk_ok.
    2:{ unfold fits_u32, len in Hsz. change (2 ^ 32) with 4294967296 in *. lia. }
    destruct (forwards_facts lookup w) as (Fbit & Fpos & Fcnt & Fend).
    set (w1 := forwards lookup w) in *.
    unfold fetch_value. rewrite Fcnt.
    rewrite skipn_length, bits_of_bytes_length.
    destruct (Nat.ltb_spec (8 * length input - pos_end w) (N.to_nat lookup)) as [Hshort|Hfits].
    + (* not enough bits *)
      rewrite read_bits_short by (assumption || lia || (rewrite Fpos; lia)).
      destruct (check_eof_spec w1 input Hwf Hsz Fbit ltac:(lia) ltac:(lia) ltac:(rewrite Fpos, Fcnt; lia)) as [Hor Hones].
      rewrite Fpos in Hones. cbn [dn_spec].
      destruct Hor as [E|E]; rewrite E in *; split; auto.
      intros H. specialize (Hones H). discriminate.
    + rewrite read_bits_ok; [|assumption|assumption|assumption|lia|rewrite Fpos; lia].
      rewrite Fpos. rewrite skipn_skipn'.
      replace (pos_end w + N.to_nat lookup)%nat with (pos_end w1) by lia.
      apply dn_spec_weaken with (from' := pos_end w1); [lia|].
      apply IHt; [assumption|assumption|assumption|assumption|lia].
  - (* DNil *)
    intros i w input _ _ _ _ _. cbn [tpick pick dn_spec]. reflexivity.
  - (* DSym *)
    intros i w input Hwf Hsz Hok Hbit Hpos. cbn [lookups_ok_l] in Hok. cbn [tpick pick].
    destruct i as [|i']; [|apply IHt; assumption].
    cbn [dn_spec]. exists w. auto.
  - (* DSub *)
    intros i w input Hwf Hsz Hok Hbit Hpos. cbn [lookups_ok_l] in Hok.
    apply andb_true_iff in Hok as [Hokd Hokt]. cbn [tpick pick].
    destruct i as [|i']; [apply IHd; assumption|apply IHt; assumption].
Qed.

(* ================================================================ DecodeIter against awalk *)

Lemma pos_end_new : pos_end bw_new = 0%nat.
Proof. reflexivity. Qed.

Lemma decode_iter_awalk input : wf_bytes input -> fits_u32 input ->
  forall fuel w, bw_bit w < 8 -> (pos_end w <= 8 * length input)%nat ->
    (8 * length input - pos_end w < fuel)%nat ->
    match awalk fuel (skipn (pos_end w) (bits_of_bytes input)) with
    | Some s => decode_iter fuel w (N.of_nat (pos_end w)) input = Ok s
    | None => exists e, decode_iter fuel w (N.of_nat (pos_end w)) input = Err e
    end.
Proof.
  intros Hwf Hsz. induction fuel as [|f IH]; intros w Hbit Hpos Hfuel; [lia|].
  cbn [awalk decode_iter].
  pose proof (decode_next_twalk huff_dec_root w input Hwf Hsz root_lookups_ok Hpos) as Hd.
  destruct (twalk huff_dec_root (skipn (pos_end w) (bits_of_bytes input))) as [x rest| |] eqn:Hw;
    cbn [dn_spec] in Hd.
  - destruct Hd as (w' & Hout & Hbit' & Hpos' & Hrest). rewrite Hout.
    destruct (root_found_is_code _ _ _ Hw) as [Hx Hl].
    assert (Hprog : (pos_end w < pos_end w')%nat).
    { apply (f_equal (@length bool)) in Hl. rewrite Hrest in Hl.
      rewrite app_length, !skipn_length, bits_of_bytes_length in Hl.
      pose proof (code_bits_len x ltac:(lia)). lia. }
    unfold hi_se_mul.
    replace (bw_byte w' * 8 + bw_bit w' + bw_count w') with (N.of_nat (pos_end w')) by (unfold pos_end; lia).
    specialize (IH w' Hbit' Hpos' ltac:(lia)). rewrite <- Hrest in IH.
    destruct (awalk f rest) as [out|].
    + rewrite IH. reflexivity.
    + destruct IH as [e He]. rewrite He. eauto.
  - destruct Hd as [Hor Hones].
    rewrite check_padding_spec by (assumption || lia). rewrite Nat2N.id.
    destruct (all_ones (skipn (pos_end w) (bits_of_bytes input))) eqn:Ho.
    + rewrite (Hones eq_refl). reflexivity.
    + destruct Hor as [E|E]; rewrite E; eauto.
  - rewrite Hd. eauto.
Qed.

(* what hpack_decode returns, in terms of the bit-level walk *)
Theorem hpack_decode_awalk input : wf_bytes input -> fits_u32 input ->
  match awalk (S (8 * length input)) (bits_of_bytes input) with
  | Some s => hpack_decode input = Ok s
  | None => exists e, hpack_decode input = Err e
  end.
Proof.
  intros Hwf Hsz. unfold hpack_decode.
  pose proof (decode_iter_awalk input Hwf Hsz (S (8 * length input)) bw_new ltac:(cbn; lia)) as H.
  rewrite pos_end_new in H. cbn [skipn N.of_nat] in H. apply H; lia.
Qed.

(* ================================================================ the pinned statements *)

(* acceptance of the model = codes followed by at most 37 one bits *)
Theorem hpack_decode_lax input s : wf_bytes input -> fits_u32 input ->
  (hpack_decode input = Ok s <-> lax_valid 37 (bits_of_bytes input) s).
Proof.
  intros Hwf Hsz. pose proof (hpack_decode_awalk input Hwf Hsz) as H. split.
  - intros Hok. destruct (awalk _ _) as [s'|] eqn:Ha.
    + rewrite H in Hok. inversion Hok; subst s'. eapply awalk_sound; eassumption.
    + destruct H as [e He]. rewrite He in Hok. discriminate.
  - intros Hlax. rewrite (awalk_complete s _ _ Hlax) in H; [exact H|].
    rewrite bits_of_bytes_length. lia.
Qed.

Theorem hpack_decode_no_panic input : wf_bytes input -> fits_u32 input -> is_panic (hpack_decode input) = false.
Proof.
  intros Hwf Hsz. pose proof (hpack_decode_awalk input Hwf Hsz) as H.
  destruct (awalk _ _); [rewrite H; reflexivity|destruct H as [e He]; rewrite He; reflexivity].
Qed.

Lemma LongOnesResult_LongOnes p s : LongOnesResult p s -> LongOnes p.
Proof. intros (pad & H). exists s, pad. tauto. Qed.

(* B1 *)
Theorem hpack_decode_sound p s : wf_bytes p -> fits_u32 p ->
  hpack_decode p = Ok s -> valid_huff (bits_of_bytes p) s \/ LongOnesResult p s.
Proof.
  intros Hwf Hsz H. apply hpack_decode_lax in H; [|assumption|assumption]. apply lax_split in H.
  destruct H as [H|(Hs & pad & Hb & Ho & Hl)]; [left; exact H|right]. exists pad. auto.
Qed.

(* T5a: outside the known class the decoder is exactly as strict as RFC 7541 5.2 *)
Theorem hpack_decode_strict_outside p s : wf_bytes p -> fits_u32 p -> ~ LongOnes p ->
  (hpack_decode p = Ok s <-> valid_huff (bits_of_bytes p) s).
Proof.
  intros Hwf Hsz Hn. split.
  - intros H. destruct (hpack_decode_sound p s Hwf Hsz H) as [Hv|Hl]; [exact Hv|].
    exfalso. apply Hn. eapply LongOnesResult_LongOnes. exact Hl.
  - intros Hv. apply hpack_decode_lax; [assumption|assumption|]. apply lax_split. left. exact Hv.
Qed.

(* T5b: inside the class the result is the octets before the ones - and nothing else *)
Theorem hpack_decode_known_class p s : wf_bytes p -> fits_u32 p -> LongOnesResult p s -> hpack_decode p = Ok s.
Proof.
  intros Hwf Hsz (pad & Hs & Hb & Ho & Hl). apply hpack_decode_lax; [assumption|assumption|].
  apply lax_split. right. split; [assumption|]. exists pad. auto.
Qed.

Theorem hpack_decode_known_class_only p s s' : wf_bytes p -> fits_u32 p -> LongOnesResult p s ->
  hpack_decode p = Ok s' -> s' = s.
Proof.
  intros Hwf Hsz Hl H. rewrite (hpack_decode_known_class p s Hwf Hsz Hl) in H. inversion H. reflexivity.
Qed.

(* inside the class the RFC says: decoding error *)
Theorem known_class_is_invalid p : LongOnes p -> forall s, ~ valid_huff (bits_of_bytes p) s.
Proof.
  intros (s0 & pad0 & Hs0 & Hb0 & Ho0 & Hl0) s (Hs & pad & Hb & Hl & Ho).
  rewrite Hb0 in Hb.
  destruct (codes_ones_unique s0 s pad0 pad Hs0 Hs Ho0 Ho ltac:(lia) ltac:(lia) Hb) as [_ E].
  subst pad0. lia.
Qed.

(* with the independent reference decoder in place of valid_huff *)
Theorem hpack_decode_vs_reference p s : wf_bytes p -> fits_u32 p -> ~ LongOnes p ->
  (hpack_decode p = Ok s <-> rfc_huff_decode p = Some s).
Proof.
  intros Hwf Hsz Hn. rewrite rfc_huff_decode_iff. apply hpack_decode_strict_outside; assumption.
Qed.
